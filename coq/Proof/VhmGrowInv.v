(** vyukov_hash_map with several buckets and grow: the lock-free reader (try_get_value) across any number of grows,
    the lock-free prefix of erase / extract, retired blocks, and the final theorems. *)
From Coq Require Import NArith List Bool Lia PeanoNat.
From XV Require Import Base.Word Conc.Lts Conc.Ev gen.BucketStateGen Proof.BucketState Model.VhmGrowDefs
  Proof.VhmGrowBase Proof.VhmGrowAbs.
From XV Require Proof.VhmBase Proof.VhmAbs.
Import ListNotations.
Local Open Scope N_scope.

(** the version counters did not wrap around: fewer than 2^27 removals per bucket (of an allocated block) so far *)
Definition Bnd (st : state) : Prop := forall b j, b < nalloc st -> g_nver st b j < 2 ^ 27.

(** no version increment of bucket (b, j) since the reader's last load of its state *)
Definition Cur (st : state) (t : nat) (b j : N) : Prop := g_rv st t = g_nver st b j.
(** a removal is past its linearization point and its version increment has not been stored yet *)
Definition pend (st : state) (b j : N) : Prop := mk st b j <> 0.

Definition esc (st : state) (t : nat) (b j k : N) : Prop :=
  In None (g_obs st t) \/ (lookup k (g_map st) = None /\ pend st b j).
Definition slotw (st : state) (b j s k i : N) : Prop :=
  exists x, i <= x /\ x < bs_item_count s /\ x + 1 <> mk st b j /\ akey st b j x = k.

Definition RB (st : state) (t : nat) (b j s : N) : Prop :=
  g_rv st t <= g_nver st b j /\ bs_version s = g_rv st t mod 2 ^ 27 /\ bs_item_count s <= 3.

(** unconditional part *)
Definition RU (st : state) (t : nat) (p : pc) : Prop :=
  match p with
  | GK _ b j s i | GV _ b j s i | GD _ b j s i _ | GS _ b j s i _ => RB st t b j s /\ i < bs_item_count s
  | GH _ b j s | GE _ b j s => RB st t b j s
  | _ => True
  end.
(** part that holds as long as the version has not changed *)
Definition RK (st : state) (t : nat) (p : pc) : Prop :=
  match p with
  | GK k b j s i => bs_item_count s <= ic st b j /\ (esc st t b j k \/ slotw st b j s k i)
  | GV k b j s i => bs_item_count s <= ic st b j /\ (esc st t b j k \/ slotw st b j s k i) /\
                    (mk st b j = i + 1 \/ akey st b j i = k)
  | GD k b j s i v | GS k b j s i v =>
    bs_item_count s <= ic st b j /\ (esc st t b j k \/ slotw st b j s k i) /\
    (mk st b j = i + 1 \/ (akey st b j i = k /\ aval st b j i = v))
  | GH k b j s | GE k b j s => esc st t b j k
  | _ => True
  end.
Definition pc_cur (st : state) (t : nat) (p : pc) : Prop :=
  match p with
  | GK _ b j _ _ | GV _ b j _ _ | GD _ b j _ _ _ | GS _ b j _ _ _ | GH _ b j _ | GE _ b j _ => Cur st t b j
  | _ => True
  end.
Definition RI (st : state) (t : nat) (p : pc) : Prop := RU st t p /\ (pc_cur st t p -> RK st t p).

(** a reader (or the lock-free prefix of erase / extract) that still works on a replaced block has observed, at the
    publication of the new block, what the frozen bucket says about its key *)
Definition pc_obs_ref (p : pc) : option (N * N * N) :=
  match p with
  | X2 _ k b j | G2 k b j | GK k b j _ _ | GV k b j _ _ | GD k b j _ _ _ | GS k b j _ _ _ | GH k b j _ | GE k b j _ => Some (b, j, k)
  | _ => None
  end.
Definition FZ (st : state) (t : nat) (p : pc) : Prop :=
  forall b j k, pc_obs_ref p = Some (b, j, k) -> g_frozen st b = true ->
    (forall i, i < ic st b j -> akey st b j i = k -> In (Some (aval st b j i)) (g_obs st t)) /\
    ((forall i, i < ic st b j -> akey st b j i <> k) -> In None (g_obs st t)).

(** results of the completed lock-free calls: the value returned (or 'absent') is what [g_map] associated with the
    key at one of the recorded instants of the call *)
Definition hist_ok_r (h : hrec) : Prop :=
  match h_op h with
  | OGet _ => (exists v, h_res h = [4; 1; v] /\ In (Some v) (h_obs h)) \/ (h_res h = [4; 0] /\ In None (h_obs h))
  | ODel _ | OExt _ => h_wit h = None -> In None (h_obs h)
  | _ => True
  end.

Lemma in_snoc {X} (l : list X) (a b : X) : In a (l ++ [b]) <-> In a l \/ a = b.
Proof. rewrite in_app_iff. cbn. intuition. Qed.
Lemma NoDup_app_snoc {X} (l : list X) (a : X) : NoDup l -> ~ In a l -> NoDup (l ++ [a]).
Proof.
  induction l as [|b l IH]; intros Hnd Hn; cbn [app]; [constructor; [intros []|constructor]|].
  inversion Hnd as [|? ? H1 H2]; subst. constructor.
  - rewrite in_snoc. intros [H|H]; [contradiction | subst; apply Hn; left; reflexivity].
  - apply IH; [exact H2 | intros H; apply Hn; right; exact H].
Qed.

(** * what the steps of the other threads guarantee to a reader of bucket (b, j) as long as its version does not change *)
Record Env (hash : N -> N) (st st' : state) (b j : N) : Prop := mkEnv {
  En_ic : ic st b j <= ic st' b j;
  En_slot : forall x, x < ic st b j -> x + 1 <> mk st b j -> x + 1 <> mk st' b j ->
            akey st' b j x = akey st b j x /\ aval st' b j x = aval st b j x;
  En_mk : mk st b j <> 0 -> mk st' b j = mk st b j;
  En_mk_lp : forall x, x < ic st b j -> x + 1 <> mk st b j -> x + 1 = mk st' b j -> lookup (akey st b j x) (g_map st') = None;
  En_pend : pend st b j -> pend st' b j /\ forall k, j = hash k mod bcnt st b -> lookup k (g_map st) = None -> lookup k (g_map st') = None
}.

Section VhmGrowInv.
  Variable hash : N -> N.
  Notation step := (step hash).
  Notation Lk := (Lk hash).
  Notation Env := (Env hash).

  Lemma RK_env st st' t p : (forall b j k, pc_ref p = Some (b, j, k) -> Env st st' b j /\ j = hash k mod bcnt st b) ->
    (forall o, In o (g_obs st t) -> In o (g_obs st' t)) -> RU st t p -> RK st t p -> RK st' t p.
  Proof.
    intros HEp Eo HU HK.
    assert (Hgen : forall b j k, Env st st' b j -> j = hash k mod bcnt st b ->
      (esc st t b j k -> esc st' t b j k) /\
      (forall s i, bs_item_count s <= ic st b j -> slotw st b j s k i -> esc st' t b j k \/ slotw st' b j s k i) /\
      (forall i (P : Prop), i < ic st b j -> (mk st b j = i + 1 \/ (akey st b j i = k /\ P)) ->
                 (mk st' b j = i + 1 \/ (akey st b j i = k /\ P /\ i + 1 <> mk st b j /\ i + 1 <> mk st' b j))) /\
      ic st b j <= ic st' b j).
    { intros b j k HE Hj.
      assert (Hesc : esc st t b j k -> esc st' t b j k).
      { intros [H|[H1 H2]]; [left; apply Eo; exact H | right]. destruct (En_pend _ _ _ _ _ HE H2) as [H3 H4]. auto. }
      split; [exact Hesc|]. split; [|split; [|exact (En_ic _ _ _ _ _ HE)]].
      - intros s i Hic (x & H1 & H2 & H3 & H4). destruct (N.eq_dec (x + 1) (mk st' b j)) as [E|E].
        + left. right. split; [|unfold pend; lia]. rewrite <- H4. apply (En_mk_lp _ _ _ _ _ HE); [lia | exact H3 | exact E].
        + right. exists x. destruct (En_slot _ _ _ _ _ HE x ltac:(lia) H3 E) as [E1 _]. rewrite E1. auto.
      - intros i P Hi [H|[H1 H2]].
        + left. rewrite (En_mk _ _ _ _ _ HE); [exact H | lia].
        + destruct (N.eq_dec (mk st b j) (i + 1)) as [E|E]; [left; rewrite (En_mk _ _ _ _ _ HE); [exact E | lia]|].
          destruct (N.eq_dec (mk st' b j) (i + 1)) as [E'|E']; [left; exact E'|]. right. repeat split; auto. }
    destruct p; cbn [RK RU pc_ref] in *; try exact I.
    all: destruct (HEp _ _ _ eq_refl) as [HE Hj]; destruct (Hgen _ _ _ HE Hj) as (Hesc & Hslot & Hfa & Hic).
    - (* GK *) destruct HK as [H1 H2]. split; [lia|]. destruct H2 as [H|H]; [auto | destruct (Hslot _ _ H1 H); auto].
    - (* GV *) destruct HK as (H1 & H2 & H3). destruct HU as [_ Hi]. split; [lia|]. split.
      + destruct H2 as [H|H]; [auto | destruct (Hslot _ _ H1 H); auto].
      + assert (H3' : mk st b j = i + 1 \/ (akey st b j i = k /\ True)) by tauto.
        destruct (Hfa i True ltac:(lia) H3') as [H|(H4 & _ & H5 & H6)]; [left; exact H|right].
        destruct (En_slot _ _ _ _ _ HE i ltac:(lia) H5 H6) as [-> _]. exact H4.
    - (* GD *) destruct HK as (H1 & H2 & H3). destruct HU as [_ Hi]. split; [lia|]. split.
      + destruct H2 as [H|H]; [auto | destruct (Hslot _ _ H1 H); auto].
      + destruct (Hfa i (aval st b j i = v) ltac:(lia) H3) as [H|(H4 & H7 & H5 & H6)]; [left; exact H|right].
        destruct (En_slot _ _ _ _ _ HE i ltac:(lia) H5 H6) as [-> ->]. auto.
    - (* GS *) destruct HK as (H1 & H2 & H3). destruct HU as [_ Hi]. split; [lia|]. split.
      + destruct H2 as [H|H]; [auto | destruct (Hslot _ _ H1 H); auto].
      + destruct (Hfa i (aval st b j i = v) ltac:(lia) H3) as [H|(H4 & H7 & H5 & H6)]; [left; exact H|right].
        destruct (En_slot _ _ _ _ _ HE i ltac:(lia) H5 H6) as [-> ->]. auto.
    - (* GH *) auto.
    - (* GE *) auto.
  Qed.

  (** steps that leave the logical content of the bucket alone *)
  Lemma Env_same st st' b j : ic st' b j = ic st b j -> mk st' b j = mk st b j ->
    (forall x, x < ic st b j -> x + 1 <> mk st b j -> akey st' b j x = akey st b j x /\ aval st' b j x = aval st b j x) ->
    (pend st b j -> forall k, j = hash k mod bcnt st b -> lookup k (g_map st) = None -> lookup k (g_map st') = None) ->
    Env st st' b j.
  Proof.
    intros Eic Emk Hs Hm. constructor.
    - lia.
    - intros x H1 H2 _. apply Hs; assumption.
    - intros _. exact Emk.
    - intros x _ H1 H2. congruence.
    - intros H. split; [unfold pend in *; congruence | apply Hm; exact H].
  Qed.

  (** insertion into the array (unlocking store) *)
  Lemma Env_ins_slot st st' b j : ic st' b j = ic st b j + 1 -> mk st' b j = mk st b j -> mk st b j = 0 ->
    (forall x, akey st' b j x = akey st b j x /\ aval st' b j x = aval st b j x) -> Env st st' b j.
  Proof.
    intros Eic Emk Hmk Hs. constructor.
    - lia.
    - intros x _ _ _. apply Hs.
    - intros H. contradiction.
    - intros x _ _ H. lia.
    - intros H. unfold pend in H. contradiction.
  Qed.

  (** removal from the array: store of the delete marker *)
  Lemma Env_mark st st' b j i : ic st' b j = ic st b j -> mk st b j = 0 -> mk st' b j = i + 1 ->
    (forall x, akey st' b j x = akey st b j x /\ aval st' b j x = aval st b j x) ->
    g_map st' = rem (akey st b j i) (g_map st) -> Env st st' b j.
  Proof.
    intros Eic Hmk Emk Hs Em. constructor.
    - lia.
    - intros x _ _ _. apply Hs.
    - intros H. contradiction.
    - intros x _ _ H. assert (x = i) by lia. subst x. rewrite Em, VhmBase.lookup_rem, N.eqb_refl. reflexivity.
    - intros H. unfold pend in H. contradiction.
  Qed.

  (** a pending removal: the bucket is locked, so it belongs to the current block *)
  Lemma pend_cur st b j : Lk st -> pend st b j -> b = db st /\ j < bcnt st b /\ exists u, g_own st b j = Some u.
  Proof.
    intros HI Hp. destruct (g_own st b j) as [u|] eqn:Eo.
    - destruct (own_cur hash _ _ _ _ HI Eo). eauto.
    - exfalso. apply Hp. apply (K_mk _ _ HI). intros t Ht. congruence.
  Qed.

  (** a step that works on another bucket (b, j) of the current block, for key k *)
  Lemma Env_other st st' b j k b0 j0 : Lk st -> b0 <> b \/ j0 <> j -> b = db st -> j = hash k mod bcnt st b ->
    bst st' b0 j0 = bst st b0 j0 -> (forall x, akey st' b0 j0 x = akey st b0 j0 x /\ aval st' b0 j0 x = aval st b0 j0 x) ->
    (forall k', k' <> k -> lookup k' (g_map st) = None -> lookup k' (g_map st') = None) -> Env st st' b0 j0.
  Proof.
    intros HI Hne Hb Hj Eb Hs Hm. apply Env_same; try (unfold ic, mk; rewrite Eb; reflexivity).
    - intros x _ _. apply Hs.
    - intros Hp k' Hk'. destruct (pend_cur _ _ _ HI Hp) as (Hb0 & _). apply Hm. intros ->. subst b b0. destruct Hne; congruence.
  Qed.

  Ltac mapp := let k' := fresh "k'" in let Hk' := fresh "Hk'" in let Hn := fresh "Hn" in
    intros k' Hk' Hn; st_simpl_goal; rewrite ?VhmBase.lookup_cons, ?VhmBase.lookup_rem;
    repeat match goal with |- context [N.eqb ?x ?y] => destruct (N.eqb_spec x y) end; try congruence; try reflexivity; try exact Hn.

  (** the bucket (b0, j0) is not the one the step writes to *)
  Ltac other_bucket HI b j k Hcur Hj :=
    right; split; [st_simpl_goal; rewrite ?setf2_other by auto; reflexivity |
      apply (Env_other _ _ b j k); [exact HI | auto | exact Hcur | exact Hj
        | st_simpl_goal; rewrite ?setf2_other by auto; reflexivity
        | intros; st_simpl_goal; rewrite ?setf3_other by tauto; split; reflexivity
        | mapp]].

  Lemma step_env st a st' es b0 j0 : Lk st -> (forall t, pc_abs st t (th st t)) -> step st a = Some (st', es) ->
    b0 = db st \/ g_frozen st b0 = true ->
    g_nver st' b0 j0 = g_nver st b0 j0 + 1 \/ (g_nver st' b0 j0 = g_nver st b0 j0 /\ Env st st' b0 j0).
  Proof.
    intros HI HA H Hb0.
    assert (Hlt0 : b0 < nalloc st) by (destruct Hb0 as [->|Hf]; [apply (K_db _ _ HI) | apply (K_fr _ _ HI); exact Hf]).
    step_inv H; st_simpl.
    all: try (right; split; [reflexivity|]; apply Env_same; [reflexivity | reflexivity | intros; split; reflexivity | intros; assumption]).
    all: pose proof (K_wf _ _ HI t) as Hwf; rewrite Epc in Hwf; cbn [pc_wf] in Hwf.
    all: pose proof (HA t) as Hab; rewrite Epc in Hab; cbn [pc_abs] in Hab.
    all: try (destruct (holder_facts hash _ t _ _ _ HI ltac:(rewrite Epc; reflexivity) ltac:(rewrite Epc; reflexivity)) as (Hb & Ho & Hcur & Hjlt & Hfz)).
    all: try (pose proof (K_ref _ _ HI t) as Href; rewrite Epc in Href; cbn [pc_ref] in Href; destruct (Href _ _ _ eq_refl) as [Hbb Hj]; clear Href).
    all: try (assert (Hwfs : wf_s s) by tauto;
              destruct (VhmAbs.wf_fields s Hwfs) as (FL1 & FL2 & FM & FN1 & FN2 & FC1 & FC2 & FV1 & FV2 & FS & FI & FD)).
    all: unfold VhmBase.mark in *.
    all: try (assert (Hicst : ic st b j = bs_item_count s) by
               (unfold ic; rewrite Hb; first [exact FL1 | apply FM; tauto]);
              assert (Hmkst : mk st b j = 0 \/ True) by (left; unfold mk; rewrite Hb; exact FL2)).
    - (* L3 *) b2p. subst s. destruct (acq_facts hash st t _ _ _ HI ltac:(rewrite Epc; reflexivity) Hwf) as (_ & Hcur & _).
      destruct (N.eq_dec b0 b) as [->|Hnb]; [destruct (N.eq_dec j0 j) as [->|Hnj]|]; [|other_bucket HI b j k Hcur Hj ..].
      right. split; [reflexivity|]. apply Env_same; unfold ic, mk; st_simpl_goal; rewrite ?setf2_same.
      + apply bs_locked_item_count. + apply bs_locked_delete_marker. + intros; split; reflexivity. + intros; assumption.
    - b2p. subst s. destruct (acq_facts hash st t _ _ _ HI ltac:(rewrite Epc; reflexivity) Hwf) as (_ & Hcur & _).
      destruct (N.eq_dec b0 b) as [->|Hnb]; [destruct (N.eq_dec j0 j) as [->|Hnj]|]; [|other_bucket HI b j k Hcur Hj ..].
      right. split; [reflexivity|]. apply Env_same; unfold ic, mk; st_simpl_goal; rewrite ?setf2_same.
      + apply bs_locked_item_count. + apply bs_locked_delete_marker. + intros; split; reflexivity. + intros; assumption.
    - (* IUold *) destruct (N.eq_dec b0 b) as [->|Hnb]; [destruct (N.eq_dec j0 j) as [->|Hnj]|]; [|other_bucket HI b j k Hcur Hj ..].
      right. split; [reflexivity|]. apply Env_same; unfold ic, mk; st_simpl_goal; rewrite ?setf2_same, ?Hb.
      + congruence. + congruence. + intros; split; reflexivity. + intros; assumption.
    - (* ISK *) destruct (N.eq_dec b0 b) as [->|Hnb]; [destruct (N.eq_dec j0 j) as [->|Hnj]|]; [|other_bucket HI b j k Hcur Hj ..].
      right. split; [reflexivity|]. apply Env_same; try reflexivity; [|intros; assumption].
      intros x Hx _. st_simpl_goal. rewrite setf3_other by (right; right; lia). split; reflexivity.
    - (* ISV *) destruct (N.eq_dec b0 b) as [->|Hnb]; [destruct (N.eq_dec j0 j) as [->|Hnj]|]; [|other_bucket HI b j k Hcur Hj ..].
      right. split; [reflexivity|]. apply Env_same; try reflexivity; [|intros; assumption].
      intros x Hx _. st_simpl_goal. rewrite setf3_other by (right; right; lia). split; reflexivity.
    - (* IUnew *) destruct (N.eq_dec b0 b) as [->|Hnb]; [destruct (N.eq_dec j0 j) as [->|Hnj]|]; [|other_bucket HI b j k Hcur Hj ..].
      right. split; [reflexivity|]. destruct Hwf as [_ Hlt]. destruct (FI Hlt) as [FI1 FI2].
      apply Env_ins_slot; unfold ic, mk; st_simpl_goal; rewrite ?setf2_same, ?Hb.
      + congruence. + congruence. + exact FL2. + intros; split; reflexivity.
    - (* GR2 *) destruct (N.eq_dec b0 b) as [->|Hnb]; [destruct (N.eq_dec j0 j) as [->|Hnj]|]; [|other_bucket HI b j k Hcur Hj ..].
      right. split; [reflexivity|]. apply Env_same; unfold ic, mk; st_simpl_goal; rewrite ?setf2_same, ?Hb.
      + congruence. + congruence. + intros; split; reflexivity. + intros; assumption.
    - destruct (N.eq_dec b0 b) as [->|Hnb]; [destruct (N.eq_dec j0 j) as [->|Hnj]|]; [|other_bucket HI b j k Hcur Hj ..].
      right. split; [reflexivity|]. apply Env_same; unfold ic, mk; st_simpl_goal; rewrite ?setf2_same, ?Hb.
      + congruence. + congruence. + intros; split; reflexivity. + intros; assumption.
    - (* DG1 *) right. rewrite clr2_other by lia. split; [reflexivity|].
      apply Env_same; unfold ic, mk; st_simpl_goal; rewrite ?clr2_other by lia; try reflexivity; [|intros; assumption].
      intros; rewrite !clr3_other by lia; split; reflexivity.
    - (* DGC *) b2p. subst s. right. split; [reflexivity|]. apply Env_same; unfold ic, mk; st_simpl_goal; [| | intros; split; reflexivity | intros; assumption].
      + destruct (N.eq_dec b0 ob) as [->|Hnb]; [destruct (N.eq_dec j0 i) as [->|Hnj]|]; rewrite ?setf2_same, ?setf2_other by auto; try reflexivity. apply bs_locked_item_count.
      + destruct (N.eq_dec b0 ob) as [->|Hnb]; [destruct (N.eq_dec j0 i) as [->|Hnj]|]; rewrite ?setf2_same, ?setf2_other by auto; try reflexivity. apply bs_locked_delete_marker.
    - b2p. subst s. right. split; [reflexivity|]. apply Env_same; unfold ic, mk; st_simpl_goal; [| | intros; split; reflexivity | intros; assumption].
      + destruct (N.eq_dec b0 ob) as [->|Hnb]; [destruct (N.eq_dec j0 i) as [->|Hnj]|]; rewrite ?setf2_same, ?setf2_other by auto; try reflexivity. apply bs_locked_item_count.
      + destruct (N.eq_dec b0 ob) as [->|Hnb]; [destruct (N.eq_dec j0 i) as [->|Hnj]|]; rewrite ?setf2_same, ?setf2_other by auto; try reflexivity. apply bs_locked_delete_marker.
    - (* DMSK *) destruct (blocks_facts hash st t _ _ _ HI ltac:(rewrite Epc; reflexivity)) as (B1 & B2 & B3 & B4 & B5 & B6 & B7 & B8).
      assert (Hn0 : b0 <> nb) by (destruct Hb0; congruence).
      right. split; [reflexivity|]. apply Env_same; try reflexivity; [|intros; assumption].
      intros; st_simpl_goal; rewrite setf3_other by auto; split; reflexivity.
    - (* DMSV *) destruct (blocks_facts hash st t _ _ _ HI ltac:(rewrite Epc; reflexivity)) as (B1 & B2 & B3 & B4 & B5 & B6 & B7 & B8).
      assert (Hn0 : b0 <> nb) by (destruct Hb0; congruence).
      right. split; [reflexivity|]. apply Env_same; try reflexivity; [|intros; assumption].
      intros; st_simpl_goal; rewrite setf3_other by auto; split; reflexivity.
    - (* DMSS *) destruct (blocks_facts hash st t _ _ _ HI ltac:(rewrite Epc; reflexivity)) as (B1 & B2 & B3 & B4 & B5 & B6 & B7 & B8).
      assert (Hn0 : b0 <> nb) by (destruct Hb0; congruence).
      right. split; [reflexivity|]. apply Env_same; unfold ic, mk; st_simpl_goal; rewrite ?setf2_other by auto; try reflexivity; [intros; split; reflexivity | intros; assumption].
    - destruct (blocks_facts hash st t _ _ _ HI ltac:(rewrite Epc; reflexivity)) as (B1 & B2 & B3 & B4 & B5 & B6 & B7 & B8).
      assert (Hn0 : b0 <> nb) by (destruct Hb0; congruence).
      right. split; [reflexivity|]. apply Env_same; unfold ic, mk; st_simpl_goal; rewrite ?setf2_other by auto; try reflexivity; [intros; split; reflexivity | intros; assumption].
    - (* X3 *) b2p. subst s. destruct (acq_facts hash st t _ _ _ HI ltac:(rewrite Epc; reflexivity) ltac:(tauto)) as (_ & Hcur & _).
      destruct (N.eq_dec b0 b) as [->|Hnb]; [destruct (N.eq_dec j0 j) as [->|Hnj]|]; [|other_bucket HI b j k Hcur Hj ..].
      right. split; [reflexivity|]. apply Env_same; unfold ic, mk; st_simpl_goal; rewrite ?setf2_same.
      + apply bs_locked_item_count. + apply bs_locked_delete_marker. + intros; split; reflexivity. + intros; assumption.
    - (* XB1 *) destruct (N.eq_dec b0 b) as [->|Hnb]; [destruct (N.eq_dec j0 j) as [->|Hnj]|]; [|other_bucket HI b j k Hcur Hj ..].
      right. split; [reflexivity|]. destruct Hwf as (_ & Hi & _). destruct (FM i Hi) as [FM1 FM2]. destruct Hab as [Hab1 Hab2].
      apply (Env_mark _ _ _ _ i); unfold ic, mk; st_simpl_goal; rewrite ?setf2_same, ?Hb.
      + congruence. + exact FL2. + exact FM2. + intros; split; reflexivity. + rewrite Hab1. reflexivity.
    - (* XB4 *) destruct (N.eq_dec b0 b) as [->|Hnb]; [destruct (N.eq_dec j0 j) as [->|Hnj]|]; [|other_bucket HI b j k Hcur Hj ..].
      right. split; [reflexivity|]. destruct Hwf as (_ & Hi & _). destruct (FM i Hi) as [FM1 FM2].
      apply Env_same; try reflexivity; [|intros; assumption].
      intros x _ Hx. unfold mk in Hx. rewrite Hb, FM2 in Hx. st_simpl_goal. rewrite setf3_other by (right; right; lia). split; reflexivity.
    - (* XB5 *) destruct (N.eq_dec b0 b) as [->|Hnb]; [destruct (N.eq_dec j0 j) as [->|Hnj]|]; [|other_bucket HI b j k Hcur Hj ..].
      right. split; [reflexivity|]. destruct Hwf as (_ & Hi & _). destruct (FM i Hi) as [FM1 FM2].
      apply Env_same; try reflexivity; [|intros; assumption].
      intros x _ Hx. unfold mk in Hx. rewrite Hb, FM2 in Hx. st_simpl_goal. rewrite setf3_other by (right; right; lia). split; reflexivity.
    - (* XB6 last *) destruct (N.eq_dec b0 b) as [->|Hnb]; [destruct (N.eq_dec j0 j) as [->|Hnj]|]; [|other_bucket HI b j k Hcur Hj ..].
      left. rewrite setf2_same. reflexivity.
    - (* XB6 moved *) destruct (N.eq_dec b0 b) as [->|Hnb]; [destruct (N.eq_dec j0 j) as [->|Hnj]|]; [|other_bucket HI b j k Hcur Hj ..].
      left. rewrite setf2_same. reflexivity.
    - (* XU *) destruct (N.eq_dec b0 b) as [->|Hnb]; [destruct (N.eq_dec j0 j) as [->|Hnj]|]; [|other_bucket HI b j k Hcur Hj ..].
      right. split; [reflexivity|]. apply Env_same; unfold ic, mk; st_simpl_goal; rewrite ?setf2_same, ?Hb.
      + congruence. + congruence. + intros; split; reflexivity. + intros; assumption.
  Qed.

  Lemma nver_mono st a st' es b j : step st a = Some (st', es) -> b < nalloc st -> g_nver st b j <= g_nver st' b j.
  Proof.
    intros H Hb. step_inv H; st_simpl; try lia.
    - rewrite clr2_other by lia. lia.
    - unfold setf2. destruct ((b =? b0) && (j =? j0)) eqn:E; [|lia]. apply andb_true_iff in E. destruct E as [E1 E2]. b2p. subst. lia.
    - unfold setf2. destruct ((b =? b0) && (j =? j0)) eqn:E; [|lia]. apply andb_true_iff in E. destruct E as [E1 E2]. b2p. subst. lia.
  Qed.

  Lemma frozen_mono st a st' es b : step st a = Some (st', es) -> g_frozen st b = true -> g_frozen st' b = true.
  Proof.
    intros H Hb. step_inv H; st_simpl; try exact Hb. unfold setf1. destruct (b =? ob); [reflexivity | exact Hb].
  Qed.

  (** the buckets of a replaced block never change again *)
  Lemma frozen_same st a st' es b j : Lk st -> Lk st' -> step st a = Some (st', es) -> g_frozen st b = true -> same_bkt st st' b j.
  Proof.
    intros HI HI' Hs Hf. pose proof (frozen_mono _ _ _ _ _ Hs Hf) as Hf'.
    destruct (step_frame hash _ _ _ _ HI Hs b j) as [H|[(t0 & E & H)|[(t0 & ob & n & E & H)|(t0 & c & E & H1 & H2)]]]; [exact H | exfalso ..].
    - destruct H as [H|H].
      + destruct (own_cur hash _ _ _ _ HI H) as [-> _]. pose proof (K_db _ _ HI). intuition congruence.
      + destruct (own_cur hash _ _ _ _ HI' H) as [-> _]. pose proof (K_db _ _ HI'). intuition congruence.
    - destruct (blocks_facts hash _ _ _ _ _ HI H) as (_ & _ & _ & _ & B5 & _). congruence.
    - subst b. apply (K_fr _ _ HI) in Hf. lia.
  Qed.

  (** observations are only added during a call *)
  Lemma obs_mono st a st' es t' : step st a = Some (st', es) -> (forall k, th st t' <> Begin (OGet k) /\ th st t' <> Begin (ODel k) /\ th st t' <> Begin (OExt k)) \/ a <> Step t' ->
    forall o, In o (g_obs st t') -> In o (g_obs st' t').
  Proof.
    intros H Hc. step_inv H; st_simpl; intros o0 Ho.
    all: try exact Ho.
    all: try (destruct (VhmBase.upd_cases (g_obs st) t [] t') as [[-> E]|[Hne E]]; rewrite E; [|exact Ho];
              exfalso; destruct Hc as [Hc|Hc]; [destruct (Hc k) as (C1 & C2 & C3); congruence | congruence]).
    all: try (match goal with |- In _ (upd ?f ?t0 ?l ?t1) => destruct (VhmBase.upd_cases f t0 l t1) as [[-> E]|[Hne E]]; rewrite E end;
              [apply in_snoc; left; exact Ho | exact Ho]).
    - (* DP1 *) destruct (obs_key (th st t')); [apply in_snoc; left; exact Ho | exact Ho].
  Qed.

  Lemma RU_mono st st' t p : g_rv st' t = g_rv st t ->
    (forall b j k, pc_ref p = Some (b, j, k) -> g_nver st b j <= g_nver st' b j) -> RU st t p -> RU st' t p.
  Proof.
    intros E1 E2 H. destruct p; cbn [RU pc_ref] in *; unfold RB in *; rewrite ?E1; try exact H.
    all: pose proof (E2 _ _ _ eq_refl); intuition lia.
  Qed.

  Lemma RI_other st a st' es t' : Lk st -> (forall t, pc_abs st t (th st t)) -> step st a = Some (st', es) ->
    g_rv st' t' = g_rv st t' -> (forall o, In o (g_obs st t') -> In o (g_obs st' t')) ->
    RI st t' (th st t') -> RI st' t' (th st t').
  Proof.
    intros HI HA Hs Er Eo [HU HK].
    assert (Hrf : forall b j k, pc_ref (th st t') = Some (b, j, k) ->
              (b = db st \/ g_frozen st b = true) /\ j = hash k mod bcnt st b /\ b < nalloc st).
    { intros b j k Hr. destruct (K_ref _ _ HI t' b j k Hr) as [H1 H2]. rsplit; try assumption.
      destruct H1 as [->|Hf]; [apply (K_db _ _ HI) | apply (K_fr _ _ HI); exact Hf]. }
    split.
    - apply (RU_mono st); [exact Er | | exact HU]. intros b j k Hr. destruct (Hrf _ _ _ Hr) as (_ & _ & Hlt). exact (nver_mono _ _ _ _ b j Hs Hlt).
    - intros HC. destruct (th st t') eqn:Ep; try (cbn [RK]; exact I).
      all: cbn [pc_cur RU] in *.
      all: destruct (Hrf _ _ _ eq_refl) as (Hb & Hj & Hlt).
      all: destruct (step_env _ _ _ _ b j HI HA Hs Hb) as [Hbump|[Hsame HE]]; unfold Cur, RB in *; rewrite Er in HC; [exfalso; intuition lia|].
      all: assert (HC0 : g_rv st t' = g_nver st b j) by congruence.
      all: (apply (RK_env st); [| exact Eo | exact HU | exact (HK HC0)]); cbn [pc_ref]; intros b1 j1 k1 E; injection E as <- <- <-; split; assumption.
  Qed.

  Lemma slot_dec (f : N -> N) (n k : N) : (exists x, x < n /\ f x = k) \/ (forall x, x < n -> f x <> k).
  Proof.
    induction n as [|n IH] using N.peano_ind.
    - right. intros x Hx. lia.
    - destruct IH as [(x & H1 & H2)|IH].
      + left. exists x. split; [lia | exact H2].
      + destruct (N.eq_dec (f n) k) as [E|E].
        * left. exists n. split; [lia | exact E].
        * right. intros x Hx. destruct (N.eq_dec x n) as [->|]; [exact E | apply IH; lia].
  Qed.

  (** a replaced block: nobody holds its locks, no marker *)
  Lemma frozen_mk st b j : Lk st -> g_frozen st b = true -> mk st b j = 0.
  Proof.
    intros HI Hf. apply (K_mk _ _ HI). intros u Hu. destruct (own_cur hash _ _ _ _ HI Hu) as [-> _].
    pose proof (K_db _ _ HI). intuition congruence.
  Qed.

  Lemma RI_own st a st' es t : Lk st -> G hash st -> FZ st t (th st t) -> (a = Step t \/ exists o, a = Start t o) ->
    RI st t (th st t) -> step st a = Some (st', es) -> RI st' t (th st' t).
  Proof.
    intros HI HG HF Ha HR H.
    assert (Ht : forall u, (a = Step u \/ exists o, a = Start u o) -> u = t) by (intros u [->|[o ->]]; destruct Ha as [E|[o' E]]; congruence).
    clear Ha. step_inv H; st_simpl.
    all: assert (t0 = t) by (apply Ht; eauto); subst t0; clear Ht.
    all: rewrite ?upd_same.
    all: try (split; [exact I | intros _; exact I]).
    all: rewrite Epc in HR, HF; destruct HR as [HU HK]; cbn [RU RK pc_cur] in HU, HK.
    all: pose proof (K_ref _ _ HI t) as Href; rewrite Epc in Href; cbn [pc_ref] in Href; destruct (Href _ _ _ eq_refl) as [Hbb Hj]; clear Href.
    all: unfold RI, Cur in *; cbn [RU RK pc_cur]; unfold RB, esc in *; st_simpl; rewrite ?upd_same; b2p.
    all: match goal with HG0 : G _ ?s0 |- _ => repeat match goal with
         | |- context [ic ?x ?b1 ?j1] => lazymatch x with s0 => fail | _ => change (ic x b1 j1) with (ic s0 b1 j1) end
         | |- context [mk ?x ?b1 ?j1] => lazymatch x with s0 => fail | _ => change (mk x b1 j1) with (mk s0 b1 j1) end
         | |- context [pend ?x ?b1 ?j1] => lazymatch x with s0 => fail | _ => change (pend x b1 j1) with (pend s0 b1 j1) end
         | |- context [slotw ?x ?b1 ?j1] => lazymatch x with s0 => fail | _ => change (slotw x b1 j1) with (slotw s0 b1 j1) end
         end end.
    all: (split; [try solve [intuition lia]|]).
    all: try (intros HC; specialize (HK HC)).
    - (* G2 -> GK 0 *) rsplit; try lia; first [exact (K_ver _ _ HI b j) | exact (K_ic _ _ HI b j)].
    - split; [unfold ic; lia|]. destruct Hbb as [->|Hf].
      + destruct (lookup k (g_map st)) as [v0|] eqn:EL; [|left; left; apply in_snoc; auto].
        right. apply (G_map _ _ HG) in EL. destruct EL as (x & [X1 X2] & X3 & _). unfold hb, nb_ in *. rewrite <- Hj in *.
        exists x. unfold ic in X1. rsplit; [lia | exact X1 | exact X2 | exact X3].
      + destruct (slot_dec (akey st b j) (ic st b j) k) as [(x & X1 & X2)|Hno].
        * right. exists x. rsplit; [lia | exact X1 | rewrite (frozen_mk _ _ _ HI Hf); lia | exact X2].
        * left. left. apply in_snoc. left. apply (HF _ _ _ eq_refl Hf). exact Hno.
    - (* G2 -> GH *) rsplit; try lia; first [exact (K_ver _ _ HI b j) | exact (K_ic _ _ HI b j)].
    - destruct Hbb as [->|Hf].
      + left. apply in_snoc. right. symmetry. apply (own_absent hash st j); [exact HG | unfold hb, nb_; symmetry; exact Hj |]. intros x Hx. unfold ic in Hx. lia.
      + left. apply in_snoc. left. apply (HF _ _ _ eq_refl Hf). intros x Hx. unfold ic in Hx. lia.
    - (* GK match *) destruct HK as (H1 & H2). rsplit; [exact H1 | | right; exact Ei].
      destruct H2 as [[H|H]|H]; [left; left; apply in_snoc; auto | left; right; exact H | right; exact H].
    - (* GK next slot *) destruct HK as (H1 & H2). split; [exact H1|].
      destruct H2 as [[H|H]|(x & J1 & J2 & J3 & J4)]; [left; left; apply in_snoc; auto | left; right; exact H |].
      right. exists x. rsplit; try assumption. assert (x <> i) by (intros ->; contradiction). lia.
    - (* GK -> GH *) destruct HK as (H1 & H2).
      destruct H2 as [[H|H]|(x & J1 & J2 & J3 & J4)]; [left; apply in_snoc; auto | right; exact H |].
      exfalso. assert (x = i) by lia. subst x. contradiction.
    - (* GV *) destruct HK as (H1 & H2 & H3). rsplit; [exact H1 | | tauto].
      destruct H2 as [[H|H]|H]; [left; left; apply in_snoc; auto | left; right; exact H | right; exact H].
    - (* GD *) destruct HK as (H1 & H2 & H3). rsplit; [exact H1 | | tauto].
      destruct H2 as [[H|H]|H]; [left; left; apply in_snoc; auto | left; right; exact H | right; exact H].
    - (* GS continue -> GK *) destruct HK as (H1 & H2 & H3). split; [exact H1|].
      destruct H2 as [[H|H]|(x & J1 & J2 & J3 & J4)]; [left; left; apply in_snoc; auto | left; right; exact H |].
      right. exists x. rsplit; try assumption. unfold mk in J3. assert (x <> i) by lia. lia.
    - (* GS continue -> GH *) destruct HK as (H1 & H2 & H3).
      destruct H2 as [[H|H]|(x & J1 & J2 & J3 & J4)]; [left; apply in_snoc; auto | right; exact H |].
      exfalso. unfold mk in J3. lia.
    - (* GH -> GE *) destruct HK as [H|H]; [left; apply in_snoc; auto | right; exact H].
  Qed.

  (** a thread's own step keeps the bucket it observes, or takes a bucket of the current block *)
  Lemma ref_step st a st' es t b j k : step st a = Some (st', es) -> (a = Step t \/ exists o, a = Start t o) ->
    pc_obs_ref (th st' t) = Some (b, j, k) -> pc_obs_ref (th st t) = Some (b, j, k) \/ b = db st.
  Proof.
    intros H Ha.
    assert (Ht : forall u, (a = Step u \/ exists o, a = Start u o) -> u = t) by (intros u [->|[o ->]]; destruct Ha as [E|[o' E]]; congruence).
    clear Ha. step_inv H; st_simpl.
    all: assert (t0 = t) by (apply Ht; eauto); subst t0; clear Ht.
    all: rewrite ?upd_same, ?Epc; cbn [pc_obs_ref]; intros E; try discriminate E; injection E as <- <- <-; auto.
  Qed.

  Lemma obs_ref_key p b j k : pc_obs_ref p = Some (b, j, k) -> obs_key p = Some k /\ pc_ref p = Some (b, j, k).
  Proof. destruct p; cbn [pc_obs_ref obs_key pc_ref]; intros E; try discriminate E; injection E as <- <- <-; auto. Qed.

  Lemma frozen_change st a st' es b : step st a = Some (st', es) -> g_frozen st' b = true -> g_frozen st b = false ->
    exists t c nb n, a = Step t /\ th st t = DP1 c b nb n.
  Proof.
    intros H H1 H2. step_inv H; st_simpl; try congruence.
    unfold setf1 in H1. destruct (N.eqb_spec b ob) as [->|]; [eauto 6 | congruence].
  Qed.

  Lemma FZ_step st a st' es : Lk st -> Lk st' -> G hash st -> (forall t, FZ st t (th st t)) -> step st a = Some (st', es) ->
    forall t', FZ st' t' (th st' t').
  Proof.
    intros HI HI' HG HF Hs. destruct (step_other hash _ _ _ _ Hs) as (t & Ha & Hoth).
    intros t' b j k Hr Hf'. destruct (g_frozen st b) eqn:Hf.
    - (* replaced before this step *)
      assert (Hr0 : pc_obs_ref (th st t') = Some (b, j, k)).
      { destruct (Nat.eq_dec t' t) as [->|Hne].
        - destruct (ref_step _ _ _ _ _ _ _ _ Hs Ha Hr) as [H|H]; [exact H|]. subst b. pose proof (K_db _ _ HI). intuition congruence.
        - destruct (Hoth t' Hne) as (E1 & _). rewrite <- E1. exact Hr. }
      destruct (HF t' b j k Hr0 Hf) as [F1 F2].
      destruct (frozen_same _ _ _ _ b j HI HI' Hs Hf) as (S1 & S2 & _).
      assert (Hic : ic st' b j = ic st b j) by (unfold ic; rewrite S1; reflexivity).
      assert (Ho : forall o, In o (g_obs st t') -> In o (g_obs st' t')).
      { apply (obs_mono _ _ _ _ _ Hs). left. intros k0. destruct (th st t'); cbn [pc_obs_ref] in Hr0; try discriminate Hr0; rsplit; discriminate. }
      rewrite Hic. split.
      + intros i Hi Hk. destruct (S2 i) as [E1 E2]. rewrite E1 in Hk. rewrite E2. apply Ho. apply F1; assumption.
      + intros Hno. apply Ho. apply F2. intros i Hi. destruct (S2 i) as [E1 _]. rewrite <- E1. apply Hno. exact Hi.
    - (* replaced by this step: the publication recorded the association of the key *)
      destruct (frozen_change _ _ _ _ _ Hs Hf' Hf) as (t0 & c & nb & n & E & Epc).
      assert (t0 = t) by (destruct Ha as [->|[o ->]]; congruence). subst t0 a.
      cbn [step] in Hs. rewrite Epc in Hs. injection Hs as <- <-. st_simpl.
      destruct (blocks_facts hash st t _ _ _ HI ltac:(rewrite Epc; reflexivity)) as (B1 & B2 & _).
      destruct (VhmBase.upd_cases (th st) t (DP2 c b nb) t') as [[-> E]|[Hne E]]; rewrite E in Hr; [discriminate Hr|].
      destruct (obs_ref_key _ _ _ _ Hr) as [Hok Hrf]. rewrite Hok. destruct (K_ref _ _ HI t' _ _ _ Hrf) as [_ Hj].
      assert (Hjlt : j < bcnt st b) by (apply (ref_lt hash st t' b j k HI Hrf)).
      assert (Hmk : mk st b j = 0).
      { apply (grower_mk hash st t b nb n); [exact HI | rewrite Epc; reflexivity | rewrite Epc; cbn [holds]; split; [reflexivity | lia]]. }
      unfold ic. st_simpl_goal. fold (ic st b j). subst b.
      assert (Hhb : hb hash st k = j) by (unfold hb, nb_; symmetry; exact Hj).
      split.
      + intros i Hi Hk. apply in_snoc. right. symmetry. apply (own_slot hash st j i k); assumption.
      + intros Hno. apply in_snoc. right. symmetry. apply (own_absent hash st j); assumption.
  Qed.

  Lemma cur_of_version st t b j s : Lk st -> Bnd st -> b < nalloc st -> RB st t b j s -> bs_version s = bs_version (bst st b j) -> Cur st t b j.
  Proof.
    intros HI HB Hlt (H1 & H2 & _) E. unfold Cur. pose proof (HB b j Hlt) as Hb. rewrite H2, (K_ver _ _ HI) in E.
    rewrite !N.mod_small in E by lia. exact E.
  Qed.

  Lemma nalloc_mono st a st' es : step st a = Some (st', es) -> nalloc st <= nalloc st'.
  Proof. intros H. step_inv H; st_simpl; lia. Qed.

  Lemma Bnd_mono st a st' es : step st a = Some (st', es) -> Bnd st' -> Bnd st.
  Proof.
    intros H HB b j Hlt. pose proof (nver_mono _ _ _ _ b j H Hlt). pose proof (nalloc_mono _ _ _ _ H).
    pose proof (HB b j ltac:(lia)). lia.
  Qed.

  Lemma ref_alloc st t b j k : Lk st -> pc_ref (th st t) = Some (b, j, k) -> b < nalloc st.
  Proof.
    intros HI H. destruct (K_ref _ _ HI t b j k H) as [[->|Hf] _]; [apply (K_db _ _ HI) | apply (K_fr _ _ HI); exact Hf].
  Qed.

  Lemma hist_r_step st a st' es : Lk st -> G hash st -> (forall t, pc_abs st t (th st t)) -> (forall t, RI st t (th st t)) -> (forall t, FZ st t (th st t)) ->
    (Bnd st -> forall h, In h (g_hist st) -> hist_ok_r h) ->
    step st a = Some (st', es) -> Bnd st' -> forall h, In h (g_hist st') -> hist_ok_r h.
  Proof.
    intros HI HG HA HR HF HH H HB'.
    assert (HB : Bnd st) by (exact (Bnd_mono _ _ _ _ H HB')). specialize (HH HB). clear HB'.
    step_inv H; st_simpl.
    all: try exact HH.
    all: intros h Hh; apply in_app_or in Hh; destruct Hh as [Hh|[<-|[]]]; [apply HH; exact Hh|].
    all: unfold hist_ok_r, ins_op, del_op; cbn [h_op h_res h_obs h_wit]; try (destruct a; exact I).
    all: rewrite ?upd_same.
    all: pose proof (HR t) as [HU HK]; rewrite Epc in HU, HK; cbn [RU RK pc_cur] in HU, HK; b2p.
    all: pose proof (HF t) as HFt; rewrite Epc in HFt.
    all: pose proof (K_ref _ _ HI t) as Href; rewrite Epc in Href; cbn [pc_ref] in Href; destruct (Href _ _ _ eq_refl) as [Hbb Hj]; clear Href.
    all: try (assert (Hlt : b < nalloc st) by (apply (ref_alloc st t b j k HI); rewrite Epc; reflexivity)).
    all: pose proof (HA t) as Hab; rewrite Epc in Hab; cbn [pc_abs] in Hab.
    all: repeat match goal with E : ?c = _, H : context [if ?c then _ else _] |- _ => rewrite E in H end.
    all: try (destruct e; cbn [del_res]; first [discriminate | intros Hc; destruct (N.eqb_spec i (bs_item_count s - 1)); [contradiction|]; destruct Hab as [Hc' _]; congruence]).
    - (* X2: item_count = 0 *) assert (Hgoal : In None (g_obs st t ++ [lookup k (g_map st)])).
      { apply in_snoc. destruct Hbb as [->|Hf].
        - right. symmetry. apply (own_absent hash st j); [exact HG | unfold hb, nb_; symmetry; exact Hj |]. intros x Hx. unfold ic in Hx. lia.
        - left. apply (HFt _ _ _ eq_refl Hf). intros x Hx. unfold ic in Hx. lia. }
      destruct e; intros _; exact Hgoal.
    - (* GS returns v *) destruct HU as [HU Hi]. pose proof (cur_of_version _ _ _ _ _ HI HB Hlt HU Ec) as HC.
      destruct (HK HC) as (H1 & _ & [H3|[H3 H4]]); [unfold mk in H3; congruence|].
      left. exists v. split; [reflexivity|]. apply in_snoc. destruct Hbb as [->|Hf].
      + right. symmetry. rewrite <- H4. apply (G_map _ _ HG). unfold hb, nb_. rewrite <- Hj. exists i.
        split; [split; [lia | unfold mk; intros E; apply Ec0; symmetry; exact E] | auto].
      + left. rewrite <- H4. apply (HFt _ _ _ eq_refl Hf); [lia | exact H3].
    - (* GE returns absent *) pose proof (cur_of_version _ _ _ _ _ HI HB Hlt HU Ec) as HC.
      right. split; [reflexivity|]. apply in_snoc. destruct (HK HC) as [H|[H _]]; [left; exact H | right; symmetry; exact H].
  Qed.

  (** * retired blocks *)
  Record Ret (st : state) : Prop := mkRet {
    R_nd : NoDup (g_retired st);
    R_fr : forall b, In b (g_retired st) -> g_frozen st b = true;
    R_dp : forall t c ob nb, th st t = DP2 c ob nb -> ~ In ob (g_retired st);
    R_all : forall b, g_frozen st b = true -> In b (g_retired st) \/ exists t c nb, th st t = DP2 c b nb
  }.

  Lemma Ret_step st a st' es : Lk st -> Ret st -> step st a = Some (st', es) -> Ret st'.
  Proof.
    intros HI HR H. destruct HR as [R1 R2 R3 R4]. step_inv H; st_simpl.
    all: constructor; st_simpl_goal; try assumption.
    all: try (intros t' c' ob' nb'; match goal with |- context [upd ?f ?t0 ?p t'] => destruct (VhmBase.upd_cases f t0 p t') as [[-> E]|[Hne E]]; rewrite E end;
              [discriminate | apply R3]).
    all: try (intros b' Hb'; destruct (R4 b' Hb') as [H|(t' & c' & nb' & H)]; [left; exact H | right; exists t', c', nb'];
              rewrite upd_other; [exact H | intros ->; congruence]).
    all: pose proof (K_gw _ _ HI t) as Hgw; rewrite Epc in Hgw; cbn [pc_gw pc_blocks] in Hgw.
    - (* DP1 *) intros b Hb. unfold setf1. destruct (b =? ob); [reflexivity | apply R2; exact Hb].
    - intros t' c' ob' nb'. destruct (VhmBase.upd_cases (th st) t (DP2 c ob nb) t') as [[-> E]|[Hne E]]; rewrite E; [|apply R3].
      intros E'. injection E' as <- <- <-. intros Hin. apply R2 in Hin. destruct Hgw as (-> & _). pose proof (K_db _ _ HI). intuition congruence.
    - intros b. unfold setf1. destruct (N.eqb_spec b ob) as [->|Hne].
      + intros _. right. exists t, c, nb. apply upd_same.
      + intros Hb. destruct (R4 b Hb) as [H|(t' & c' & nb' & H)]; [left; exact H | right; exists t', c', nb'].
        rewrite upd_other; [exact H | intros ->; congruence].
    - (* DP2 *) apply NoDup_app_snoc; [exact R1 | apply (R3 t c ob nb Epc)].
    - intros b Hb. apply in_snoc in Hb. destruct Hb as [Hb| ->]; [apply R2; exact Hb | apply Hgw].
    - intros t' c' ob' nb'. destruct (VhmBase.upd_cases (th st) t (L1 (c_a c) (c_k c) (c_v c)) t') as [[-> E]|[Hne E]]; rewrite E; [discriminate|].
      intros E'. exfalso. apply Hne. apply (rs_unique hash st); [exact HI | rewrite E'; reflexivity | rewrite Epc; reflexivity].
    - intros b Hb. destruct (R4 b Hb) as [H|(t' & c' & nb' & H)]; [left; apply in_snoc; left; exact H|].
      left. apply in_snoc. right. assert (t' = t) by (apply (rs_unique hash st); [exact HI | rewrite H; reflexivity | rewrite Epc; reflexivity]). subst t'. congruence.
  Qed.

  Lemma Ret_init cap : Ret (init cap).
  Proof. constructor; cbn; [constructor | intros b [] | intros; discriminate | intros; discriminate]. Qed.

  (** * the invariant *)
  Definition Inv1 (st : state) : Prop :=
    Inv0 hash st /\ (forall t, RI st t (th st t)) /\ (forall t, FZ st t (th st t)) /\ Ret st /\
    (Bnd st -> forall h, In h (g_hist st) -> hist_ok_r h).

  Lemma Inv1_init cap : 0 < cap -> Inv1 (init cap).
  Proof.
    intros Hc. split; [apply Inv0_init; exact Hc|]. split; [intros t; cbn; split; [exact I | intros _; exact I]|].
    split; [intros t b j k E; cbn in E; discriminate|]. split; [apply Ret_init | intros _ h []].
  Qed.

  Lemma Inv1_step st a st' es : Inv1 st -> step st a = Some (st', es) -> Inv1 st'.
  Proof.
    intros (H0 & HR & HF & HT & HH) Hs. pose proof (Inv0_step hash _ _ _ _ H0 Hs) as H0'.
    destruct H0 as (HI & HG & HA & HM & HW). destruct H0' as (HI' & HAbs').
    split; [split; assumption|]. split; [|split; [|split]].
    - destruct (step_other hash _ _ _ _ Hs) as (t & Ha & Hoth). intros t'. destruct (Nat.eq_dec t' t) as [->|Hne].
      + exact (RI_own _ _ _ _ t HI HG (HF t) Ha (HR t) Hs).
      + destruct (Hoth t' Hne) as (E1 & _ & E3). rewrite E1. apply (RI_other st a st' es t' HI HA Hs E3); [|exact (HR t')].
        apply (obs_mono _ _ _ _ _ Hs). right. destruct Ha as [->|[o ->]]; congruence.
    - exact (FZ_step _ _ _ _ HI HI' HG HF Hs).
    - exact (Ret_step _ _ _ _ HI HT Hs).
    - exact (hist_r_step _ _ _ _ HI HG HA HR HF HH Hs).
  Qed.

  Theorem Inv1_reach cap st : 0 < cap -> reach (init cap) step st -> Inv1 st.
  Proof. intros Hc. apply inv_rule; [apply Inv1_init; exact Hc | intros s a s' es; apply Inv1_step]. Qed.
End VhmGrowInv.
