(** The flush of the generalised epoch based reclamation model (Model/GebrDefs.v) for the configurations with
    scan::n_threads<N> / scan::one_thread (debra, GEBR_n2), N >= 1, any scan frequency F, any abandon strategy, any region
    extension: a thread that enters critical regions again and again frees, within 1 + 3 (F + 1) ceil(L / N) operations
    (L = number of thread control blocks), every node that sits in an orphan list or in one of its own retire lists, provided
    no thread is inside a critical region ([gebr_no_leak_at_quiescence_n_threads]).  A scan looks at N control blocks; the
    iterator survives the operation; the epoch is advanced by the scan that reaches the end of the list.
    Two more invariants are needed: the scan iterator is a suffix of the thread block list ([sit_suffix]) and, outside
    scan / update, it is not at the end of the list ([sit_ne]).  No axioms. *)
From Coq Require Import NArith List Bool Arith Lia PeanoNat Setoid.
From XV Require Import Conc.Lts Conc.Ev Conc.Solo Model.GebrDefs Proof.GebrBase Proof.GebrShape Proof.GebrOwn Proof.GebrEpoch Proof.GebrNodes Proof.GebrTags Proof.GebrGuards Proof.GebrFlush.
Import ListNotations.
Local Open Scope N_scope.

(** * The scan iterator *)
Lemma sit_suffix_step cfg ns s t s' es : step cfg ns s (Step t) = Some (s', es) ->
  (exists pre, blist s = pre ++ sit (tl s t)) -> exists pre, blist s' = pre ++ sit (tl s' t).
Proof.
  intros H [pre Hp]. unfold_step H. cbv zeta in H. step_split H.
  all: bool_eqs; prj; rewrite ?upd_same; prj.
  all: try solve [exists pre; exact Hp].
  all: try solve [exists []; reflexivity].
  all: try solve [eexists; symmetry; apply app_nil_r].
  all: try solve [eexists (_ :: pre); cbn [app]; rewrite Hp; reflexivity].
  all: try solve [exists pre; congruence].
  all: try solve [match goal with E : sit _ = ?p :: ?l |- _ => try rewrite E in Hp; exists (pre ++ [p]); rewrite <- app_assoc; cbn [app]; congruence end].
Qed.

Lemma sit_suffix cfg ns nc s : reach (init nc) (step cfg ns) s -> forall u, exists pre, blist s = pre ++ sit (tl s u).
Proof.
  revert s. apply (inv_rule _ _ _ _ _ (fun s => forall u, exists pre, blist s = pre ++ sit (tl s u))).
  - intros u. exists []. reflexivity.
  - intros s a s' es I H u. destruct a as [t o|t].
    + destruct (start_pc _ _ _ _ _ _ _ H) as (_ & _ & _ & Etl & _ & _ & _ & Ebl & _).
      destruct (Etl u) as (_ & _ & -> & _). rewrite Ebl. apply I.
    + destruct (Nat.eq_dec u t) as [->|Hne]; [eapply sit_suffix_step; eauto|].
      destruct (step_frame _ _ _ _ _ _ H) as (Fth & _ & Fl & _). destruct (Fth u Hne) as [_ ->].
      destruct (I u) as [pre Hp]. destruct Fl as [->|(k & b & h & _ & ->)]; [exists pre; exact Hp|exists (b :: pre); rewrite Hp; reflexivity].
Qed.

Definition sit_live (p : pc) : bool :=
  match p with
  | C7 _ | C8 _ _ | C9 _ | G1 _ _ | G2 _ _ | G3 _ _ | G4 _ _ | G5 _ _ _ | G6 _ _ _ | G7 _ _ _ _ | U1 _ _ | U2 _ _ _ | U3 _ => false
  | _ => true
  end.

Lemma sit_ne_step cfg ns s t s' es : scan_is_n cfg = true -> O0 cfg s -> tshape cfg ns (th s t) (tl s t) -> step cfg ns s (Step t) = Some (s', es) ->
  (cb (tl s t) <> None -> sit_live (th s t) = true -> sit (tl s t) <> []) ->
  cb (tl s' t) <> None -> sit_live (th s' t) = true -> sit (tl s' t) <> [].
Proof.
  intros Hn O T H I. pose proof (o_own cfg s O t) as Own.
  unfold_step H. cbv zeta in H. step_split H.
  all: bool_eqs; prj; rewrite ?upd_same; prj; prj_hyps.
  all: try match goal with E : th _ _ = _ |- _ => rewrite E in I end; cbn [sit_live] in I.
  all: intros Hcb Hlive; try discriminate Hlive; try congruence.
  all: try solve [apply I; [first [assumption | congruence]|reflexivity]].
  all: try solve [match goal with E : cb (tl _ _) = Some ?b |- _ => destruct (Own b E) as [_ Hin]; intros X; rewrite X in Hin; destruct Hin end].
  all: try solve [sel; cbn [sit_live] in Hlive; first [discriminate Hlive | assumption | apply I; [first [assumption | congruence]|reflexivity]]].
  all: try solve [sel; cbn [sit_live] in *; congruence].
  all: try solve [exfalso; apply Hcb; prj; match goal with E : th _ _ = _ |- _ => rewrite E in T end; apply (ts_no _ _ _ _ T); reflexivity].
  all: try solve [prj_in Hcb; destruct (cb (tl s t)) as [b0|] eqn:Eb; [|congruence]; destruct (Own b0 eq_refl) as [_ Hin]; intros X; rewrite X in Hin; destruct Hin].
Qed.

Lemma sit_ne cfg ns nc s : scan_is_n cfg = true -> reach (init nc) (step cfg ns) s ->
  forall u, cb (tl s u) <> None -> sit_live (th s u) = true -> sit (tl s u) <> [].
Proof.
  intros Hn. revert s.
  apply (inv_rule_aux _ _ _ _ _ (fun s => T0 cfg ns s /\ O0 cfg s) (fun s => forall u, cb (tl s u) <> None -> sit_live (th s u) = true -> sit (tl s u) <> [])).
  - intros s0 Hr. split; [apply (T0_reach cfg ns nc); exact Hr|apply (O0_reach cfg ns nc); exact Hr].
  - intros u H. cbn in H. congruence.
  - intros s a s' es [T O] _ I H u. destruct a as [t o|t].
    + destruct (start_pc _ _ _ _ _ _ _ H) as (Hidle & Eth & Hsl & Etl & _).
      destruct (Etl u) as (-> & _ & -> & _). intros Hcb Hlive. apply I; [exact Hcb|].
      destruct (Nat.eq_dec u t) as [->|Hne]; [rewrite Hidle; reflexivity|].
      rewrite Eth in Hlive. rewrite upd_other in Hlive by exact Hne. exact Hlive.
    + destruct (Nat.eq_dec u t) as [->|Hne]; [exact (sit_ne_step cfg ns s t s' es Hn O (T t) H (I t))|].
      destruct (step_frame _ _ _ _ _ _ H) as (Fth & _). destruct (Fth u Hne) as [-> ->]. apply I.
Qed.


(** * The flush with scan::n_threads<N1> *)
Section FlushN.
Variables (cfg : config) (ns : nat) (nc : N) (t : nat) (c : N) (N1 : nat).
Hypothesis HN : scan_strat cfg = ScanN N1.
Hypothesis HN1 : (1 <= N1)%nat.
Notation K := (KRepl c true).
Notation F := (scan_freq cfg).
Notation reachable := (reach (init nc) (step cfg ns)).
Notation ssteps := (ssteps cfg ns t).
Notation Quiet := (Quiet cfg ns nc t c).
Notation Keep := (Keep t).
Notation FreedSlot := (FreedSlot t).
Notation solo_op := (solo_op cfg ns t c).
Notation flush := (flush cfg ns t c).

Lemma is_n : scan_is_n cfg = true.
Proof. unfold scan_is_n. rewrite HN. reflexivity. Qed.
Lemma scan_start_n a e : scan_start cfg a e = S2 a e O.
Proof. unfold scan_start, iter_next. rewrite HN. destruct (Nat.ltb_spec 0 N1); [reflexivity|lia]. Qed.
Lemma pass_n a e i l : pass_pc cfg a e i l = if is_nil l then G1 a e else if Nat.ltb (S i) N1 then S2 a e (S i) else A2 a.
Proof. unfold pass_pc, iter_next. rewrite HN. reflexivity. Qed.
Lemma u2_n a : u2_pc cfg a = U3 a.
Proof. unfold u2_pc. rewrite is_n. reflexivity. Qed.

Ltac sst L :=
  eapply solo_S; [ unfold idle; prj; rewrite ?upd_same; try match goal with H : th ?s ?t = _ |- context [th ?s ?t] => rewrite H end; reflexivity
                 | eapply L; prj; rewrite ?upd_same; prj; try eassumption; try reflexivity
                 | ].

(** one scan: at most N1 - i more entries are looked at; all of them pass *)
Lemma ph_scan_n e b : forall k i l s, (N1 - i = k)%nat -> (i < N1)%nat -> sit (tl s t) = l -> l <> [] -> th s t = S2 K e i ->
  bflag s b = true -> blocal s b = e -> (forall p, In p l -> p = b \/ bflag s p = false) ->
  exists n s' l', GebrFlush.ssteps cfg ns t n s s' /\ tl s' t = wt_sit l' (tl s t) /\ Same s s' /\
    ((th s' t = G1 K e /\ l' = [] /\ (length l <= N1 - i)%nat) \/
     (th s' t = A2 K /\ l' <> [] /\ (length l' + (N1 - i) = length l)%nat /\ forall p, In p l' -> In p l)).
Proof.
  induction k as [|k IH]; intros i l s Hk Hi Hsit Hne Hpc Hb He Hl; [lia|].
  destruct l as [|p rest]; [congruence|].
  (* the state after the entry p has passed *)
  assert (Hpass : exists n s1, GebrFlush.ssteps cfg ns t n s s1 /\ th s1 t = pass_pc cfg K e i rest /\ tl s1 t = wt_sit rest (tl s t) /\ Same s s1).
  { destruct (Hl p (or_introl eq_refl)) as [->|Hf].
    - exists 2%nat. eexists. split; [unfold GebrFlush.ssteps; sst st_S2t; sst st_S3; apply solo_O|].
      prj. rewrite !upd_same. repeat split; reflexivity.
    - exists 1%nat. eexists. split; [unfold GebrFlush.ssteps; sst st_S2f; apply solo_O|].
      prj. rewrite !upd_same. repeat split; reflexivity. }
  destruct Hpass as (n1 & s1 & Hs1 & Hpc1 & Htl1 & (G1' & G2' & G3' & G4' & G5' & G6')).
  rewrite pass_n in Hpc1. destruct rest as [|q rest'].
  - cbn [is_nil] in Hpc1. exists n1, s1, []. split; [exact Hs1|]. split; [exact Htl1|]. split; [repeat split; assumption|].
    left. split; [exact Hpc1|]. split; [reflexivity|]. cbn [length]. lia.
  - cbn [is_nil] in Hpc1. destruct (Nat.ltb_spec (S i) N1) as [Hlt|Hge].
    + destruct (IH (S i) (q :: rest') s1) as (n2 & s2 & l2 & Hs2 & Htl2 & (H1' & H2' & H3' & H4' & H5' & H6') & Hres).
      { lia. } { exact Hlt. } { rewrite Htl1. reflexivity. } { discriminate. } { exact Hpc1. }
      { rewrite G3'. exact Hb. } { rewrite G4'. exact He. }
      { intros p0 Hp0. rewrite G3'. apply Hl. right. exact Hp0. }
      exists (n1 + n2)%nat, s2, l2. split; [eapply solo_steps_app; eauto|]. split; [rewrite Htl2, Htl1; reflexivity|].
      split; [repeat split; congruence|].
      destruct Hres as [(R1 & R2 & R3)|(R1 & R2 & R3 & R4)].
      * left. split; [exact R1|]. split; [exact R2|]. cbn [length] in *. lia.
      * right. split; [exact R1|]. split; [exact R2|]. split; [cbn [length] in *; lia|]. intros p0 Hp0. right. apply R4. exact Hp0.
    + exists n1, s1, (q :: rest'). split; [exact Hs1|]. split; [exact Htl1|]. split; [repeat split; assumption|].
      right. split; [exact Hpc1|]. split; [discriminate|]. split; [cbn [length]; lia|]. intros p0 Hp0. right. exact Hp0.
Qed.

Definition SummaryN (s s' : state) (b : N) : Prop :=
  Keep s s' /\ blist s' = blist s /\
  ( (blocal s b <> gep s /\ gep s' = gep s /\ blocal s' b = gep s /\ ces (tl s' t) = O /\ sit (tl s' t) = blist s)
  \/ (blocal s b = gep s /\ ces (tl s t) <> F /\ gep s' = gep s /\ blocal s' b = gep s /\ ces (tl s' t) = S (ces (tl s t)) /\ sit (tl s' t) = sit (tl s t))
  \/ (blocal s b = gep s /\ ces (tl s t) = F /\ (length (sit (tl s t)) <= N1)%nat /\ gep s' = gep s + 1 /\ blocal s' b = gep s + 1 /\
      ces (tl s' t) = O /\ sit (tl s' t) = blist s /\ FreedSlot ((gep s + 1) mod 3) s s')
  \/ (blocal s b = gep s /\ ces (tl s t) = F /\ (N1 < length (sit (tl s t)))%nat /\ gep s' = gep s /\ blocal s' b = gep s /\
      ces (tl s' t) = O /\ (length (sit (tl s' t)) + N1 = length (sit (tl s t)))%nat) ).

Lemma roundN s b : Quiet s b -> exists s', solo_op s s' /\ Quiet s' b /\ SummaryN s s' b.
Proof.
  intros Q. pose proof Q as [Hr Hidle Hcb Hnest Hrg Hfl [n0 Hcell] Hces].
  pose proof (O0_reach cfg ns nc s Hr) as Oo. destruct (o_own cfg s Oo t b Hcb) as [_ Hbin].
  pose proof (T0_reach cfg ns nc s Hr t) as T.
  assert (Hrent : rent (tl s t) = O) by (rewrite (ts_rent _ _ _ _ T), Hnest, Hrg; apply rent_exp_0).
  assert (Hni : needs_init cfg (tl s t) = false).
  { destruct (needs_init cfg (tl s t)) eqn:X; [|reflexivity]. rewrite needs_init_eq in X. destruct (ts_init _ _ _ _ T X). congruence. }
  assert (Hsne : sit (tl s t) <> []) by (apply (sit_ne cfg ns nc s is_n Hr t); [congruence|rewrite Hidle; reflexivity]).
  destruct (sit_suffix cfg ns nc s Hr t) as [pre Hpre].
  destruct (ph_enter cfg ns t c s b n0 Hidle Hcb Hnest Hrent (Hfl b Hbin) Hcell Hni) as (s1 & k2 & s2 & Hst & Hs12 & Hpc2 & Htl2 & Hbf2 & Hg2 & Hbl2 & Hlo2 & Hce2 & Hwh2).
  assert (Hcb2 : cb (tl s2 t) = Some b) by (rewrite Htl2; exact Hcb).
  assert (Hi2 : idle s2 t = false) by (unfold idle; rewrite Hpc2; reflexivity).
  assert (Hr1 : reachable s1) by (eapply reach_step; eauto).
  assert (Hr2 : reachable s2) by (eapply ssteps_reach; eauto).
  destruct (N.eq_dec (blocal s b) (gep s)) as [Heq|Hne].
  - destruct (Nat.eq_dec (ces (tl s t)) F) as [Ec|Ec].
    + (* a scan is due *)
      pose (s3 := set_pc t (S2 K (gep s) O) (set_tl t (wt_sync true (wt_ces O (tl s2 t))) s2)).
      assert (Hst3 : step cfg ns s2 (Step t) = Some (s3, [ELoad t (L_blocal b) mo_rlx (VInt (blocal s2 b))])).
      { unfold s3. rewrite <- (scan_start_n K (gep s)). eapply st_E4c; [exact Hpc2|exact Hcb2|rewrite Hlo2; exact Heq|rewrite Htl2; exact Ec]. }
      assert (Hr3 : reachable s3) by (eapply reach_step; eauto).
      destruct (ph_scan_n (gep s) b N1 O (sit (tl s t)) s3) as (k4 & s4 & l4 & Hs34 & Htl4 & (Hg4 & Hbl4 & Hbf4 & Hlo4 & Hce4 & Hwh4) & Hres).
      { lia. } { lia. } { unfold s3. prj. rewrite upd_same. prj. rewrite Htl2. reflexivity. } { exact Hsne. }
      { unfold s3. prj. apply upd_same. } { unfold s3. prj. rewrite Hbf2. apply updN_same. } { unfold s3. prj. rewrite Hlo2. exact Heq. }
      { unfold s3. prj. intros p Hp. rewrite Hbf2. destruct (N.eq_dec p b) as [->|Hpb]; [left; reflexivity|right].
        rewrite updN_other by exact Hpb. apply Hfl. rewrite Hpre. apply in_or_app. right. exact Hp. }
      unfold s3 in Htl4, Hg4, Hbl4, Hbf4, Hlo4, Hce4, Hwh4. prj_in Htl4. prj_in Hg4. prj_in Hbl4. prj_in Hbf4. prj_in Hlo4. prj_in Hce4. prj_in Hwh4.
      rewrite !upd_same in Htl4. prj_in Htl4.
      assert (Hr4 : reachable s4) by (eapply ssteps_reach; eauto).
      destruct Hres as [(Hpc4 & El4 & Hlen)|(Hpc4 & Nl4 & Hlen & Hsub)].
      * (* the scan reaches the end of the list: the epoch is advanced *)
        destruct (ph_adv cfg ns t c s4 (gep s)) as (k5 & s5 & Hs45 & Hpc5 & Hg5 & Htl5 & Hbl5 & Hbf5 & Hlo5 & Hce5 & Hwh5).
        { exact Hpc4. } { rewrite Hg4. exact Hg2. }
        assert (Hr5 : reachable s5) by (eapply ssteps_reach; eauto).
        assert (Hcb5 : cb (tl s5 t) = Some b) by (rewrite Htl5, Htl4; prj; rewrite Htl2; exact Hcb).
        destruct (ph_upd cfg ns t c s5 b (gep s + 1)) as (s6 & Hs56 & Hpc6 & Htl6 & Hg6 & Hbl6 & Hbf6 & Hlo6 & Hce6 & Hwh6).
        { exact Hpc5. } { exact Hcb5. }
        rewrite u2_n in Hpc6.
        assert (Hb5 : blocal s5 b = gep s) by (rewrite Hlo5, Hlo4, Hlo2; exact Heq).
        rewrite Hb5, uslots_succ in Htl6, Hwh6. cbn [is_nil flat_map] in Htl6, Hwh6. rewrite app_nil_r in Hwh6.
        pose (s7 := set_pc t (A2 K) (set_tl t (wt_sit (blist s6) (tl s6 t)) s6)).
        assert (Hst7 : step cfg ns s6 (Step t) = Some (s7, [ELoad t L_head mo_acq (vptr (hd_opt (blist s6)))])) by (apply st_U3; exact Hpc6).
        assert (Hi6 : idle s6 t = false) by (unfold idle; rewrite Hpc6; reflexivity).
        pose proof (N0_reach cfg ns nc s4 Hr4) as I4. pose proof (N0_reach cfg ns nc s5 Hr5) as I5.
        assert (Hw4 : g_where s4 = g_where s) by (rewrite Hwh4, Hwh2; reflexivity).
        assert (Hw5 : forall n, g_where s5 n = if memN n (orph s4 ((gep s + 1) mod 3)) then PFreed else g_where s n).
        { intros n. rewrite Hwh5, Hw4. reflexivity. }
        assert (Hw6 : forall n, g_where s6 n = if memN n (rl (tl s5 t) ((gep s + 1) mod 3)) then PFreed else g_where s5 n) by exact Hwh6.
        assert (H1 : forall n, g_where s7 n = g_where s n \/ (g_where s7 n = PFreed /\ exists i, g_where s n = POrph i \/ g_where s n = PList t i)).
        { intros n. unfold s7. prj. rewrite Hw6. destruct (memN n (rl (tl s5 t) ((gep s + 1) mod 3))) eqn:M1.
          - right. split; [reflexivity|]. apply memN_In in M1. apply (n_list s5 I5) in M1. rewrite Hw5 in M1.
            destruct (memN n (orph s4 ((gep s + 1) mod 3))); [discriminate M1|]. exists ((gep s + 1) mod 3). right. exact M1.
          - rewrite Hw5. destruct (memN n (orph s4 ((gep s + 1) mod 3))) eqn:M2; [|left; reflexivity].
            right. split; [reflexivity|]. apply memN_In in M2. apply (n_orph s4 I4) in M2. rewrite Hw4 in M2. exists ((gep s + 1) mod 3). left. exact M2. }
        destruct (round_tail cfg ns nc t c s b s1 (k2 + (1 + (k4 + (k5 + (2 + 1)))))%nat s7 n0 (gep s + 1) (gep s + 1) O Q Hst) as (s' & Hop & Q' & Kp & Gg & Gl & Gc & Gf & Gs & Gb).
        { eapply ssteps_app; [exact Hs12|]. eapply solo_S; [exact Hi2|exact Hst3|].
          eapply ssteps_app; [exact Hs34|]. eapply ssteps_app; [exact Hs45|]. eapply ssteps_app; [exact Hs56|].
          eapply solo_S; [exact Hi6|exact Hst7|apply solo_O]. }
        { unfold s7. prj. apply upd_same. } { unfold s7. prj. rewrite upd_same. prj. rewrite Htl6. prj. exact Hcb5. }
        { unfold s7. prj. rewrite upd_same. prj. rewrite Htl6. prj. rewrite Htl5, Htl4. prj. rewrite Htl2. prj. rewrite Hnest. reflexivity. }
        { unfold s7. prj. rewrite upd_same. prj. rewrite Htl6. prj. rewrite Htl5, Htl4. prj. rewrite Htl2. prj. rewrite Hrent. reflexivity. }
        { unfold s7. prj. rewrite upd_same. prj. rewrite Htl6. prj. rewrite Htl5, Htl4. prj. rewrite Htl2. prj. exact Hrg. }
        { unfold s7. prj. rewrite upd_same. prj. rewrite Htl6. prj. rewrite Htl5, Htl4. prj. reflexivity. } { lia. }
        { unfold s7. prj. rewrite Hg6, Hg5. reflexivity. } { unfold s7. prj. rewrite Hbl6, Hbl5, Hbl4, Hbl2. reflexivity. }
        { unfold s7. prj. rewrite Hbf6, Hbf5, Hbf4, Hbf2. reflexivity. }
        { unfold s7. prj. rewrite Hlo6. apply updN_same. } { unfold s7. prj. rewrite Hce6, Hce5, Hce4, Hce2. exact Hcell. } { exact Hcell. } { exact H1. }
        exists s'. split; [exact Hop|]. split; [exact Q'|]. split; [exact Kp|]. split; [exact Gb|].
        right. right. left. split; [exact Heq|]. split; [exact Ec|]. split; [lia|]. split; [exact Gg|]. split; [exact Gl|]. split; [exact Gc|].
        split. { rewrite Gs. unfold s7. prj. rewrite upd_same. prj. rewrite Hbl6, Hbl5, Hbl4, Hbl2. reflexivity. }
        intros n Hn. apply Gf. unfold s7. prj. rewrite Hw6. destruct (memN n (rl (tl s5 t) ((gep s + 1) mod 3))) eqn:M1; [reflexivity|].
        rewrite Hw5. destruct Hn as [Hn|Hn].
        -- rewrite <- Hw4 in Hn. apply (n_orph s4 I4) in Hn. apply memN_In in Hn. rewrite Hn. reflexivity.
        -- exfalso. apply memN_false in M1. apply M1. apply (n_list s5 I5). rewrite Hw5.
           destruct (memN n (orph s4 ((gep s + 1) mod 3))) eqn:M2; [|exact Hn].
           apply memN_In in M2. apply (n_orph s4 I4) in M2. rewrite Hw4 in M2. congruence.
      * (* the scan gives up after N1 entries *)
        destruct (round_tail cfg ns nc t c s b s1 (k2 + (1 + k4))%nat s4 n0 (gep s) (gep s) O Q Hst) as (s' & Hop & Q' & Kp & Gg & Gl & Gc & Gf & Gs & Gb).
        { eapply ssteps_app; [exact Hs12|]. eapply solo_S; [exact Hi2|exact Hst3|exact Hs34]. }
        { exact Hpc4. } { rewrite Htl4. prj. exact Hcb2. }
        { rewrite Htl4. prj. rewrite Htl2. prj. rewrite Hnest. reflexivity. }
        { rewrite Htl4. prj. rewrite Htl2. prj. rewrite Hrent. reflexivity. }
        { rewrite Htl4. prj. rewrite Htl2. prj. exact Hrg. }
        { rewrite Htl4. prj. reflexivity. } { lia. }
        { rewrite Hg4. exact Hg2. } { rewrite Hbl4. exact Hbl2. } { rewrite Hbf4. exact Hbf2. }
        { rewrite Hlo4, Hlo2. exact Heq. } { rewrite Hce4, Hce2. exact Hcell. } { exact Hcell. }
        { intros n. left. rewrite Hwh4, Hwh2. reflexivity. }
        exists s'. split; [exact Hop|]. split; [exact Q'|]. split; [exact Kp|]. split; [exact Gb|].
        assert (Hl4 : (1 <= length l4)%nat) by (destruct l4; [congruence|cbn [length]; lia]).
        right. right. right. split; [exact Heq|]. split; [exact Ec|]. split; [lia|]. split; [exact Gg|]. split; [exact Gl|]. split; [exact Gc|].
        rewrite Gs, Htl4. prj. lia.
    + (* the epoch is current and no scan is due *)
      pose (s3 := set_pc t (A2 K) (set_tl t (wt_sync true (wt_ces (S (ces (tl s2 t))) (tl s2 t))) s2)).
      assert (Hst3 : step cfg ns s2 (Step t) = Some (s3, [ELoad t (L_blocal b) mo_rlx (VInt (blocal s2 b))])).
      { unfold s3. eapply st_E4b; [exact Hpc2|exact Hcb2|rewrite Hlo2; exact Heq|rewrite Htl2; exact Ec]. }
      destruct (round_tail cfg ns nc t c s b s1 (k2 + 1)%nat s3 n0 (gep s) (gep s) (S (ces (tl s t))) Q Hst) as (s' & Hop & Q' & Kp & Gg & Gl & Gc & Gf & Gs & Gb).
      { eapply ssteps_app; [exact Hs12|]. eapply solo_S; [exact Hi2|exact Hst3|apply solo_O]. }
      { unfold s3. prj. apply upd_same. } { unfold s3. prj. rewrite upd_same. prj. exact Hcb2. }
      { unfold s3. prj. rewrite upd_same. prj. rewrite Htl2. prj. rewrite Hnest. reflexivity. }
      { unfold s3. prj. rewrite upd_same. prj. rewrite Htl2. prj. rewrite Hrent. reflexivity. }
      { unfold s3. prj. rewrite upd_same. prj. rewrite Htl2. prj. exact Hrg. }
      { unfold s3. prj. rewrite upd_same. prj. rewrite Htl2. reflexivity. } { lia. }
      { unfold s3. prj. exact Hg2. } { unfold s3. prj. exact Hbl2. } { unfold s3. prj. exact Hbf2. }
      { unfold s3. prj. rewrite Hlo2. exact Heq. } { unfold s3. prj. rewrite Hce2. exact Hcell. } { exact Hcell. }
      { intros n. left. unfold s3. prj. rewrite Hwh2. reflexivity. }
      exists s'. split; [exact Hop|]. split; [exact Q'|]. split; [exact Kp|]. split; [exact Gb|].
      right. left. repeat split; try assumption. rewrite Gs. unfold s3. prj. rewrite upd_same. prj. rewrite Htl2. reflexivity.
  - (* the local epoch is behind: update_local_epoch(global epoch), the iterator is reset *)
    pose (s3 := set_pc t (U1 K (gep s)) (set_tl t (wt_ces O (tl s2 t)) s2)).
    assert (Hst3 : step cfg ns s2 (Step t) = Some (s3, [ELoad t (L_blocal b) mo_rlx (VInt (blocal s2 b))])).
    { unfold s3. eapply st_E4a; [exact Hpc2|exact Hcb2|rewrite Hlo2; exact Hne]. }
    assert (Hr3 : reachable s3) by (eapply reach_step; eauto).
    destruct (ph_upd cfg ns t c s3 b (gep s)) as (s4 & Hs34 & Hpc4 & Htl4 & Hg4 & Hbl4 & Hbf4 & Hlo4 & Hce4 & Hwh4).
    { unfold s3. prj. apply upd_same. } { unfold s3. prj. rewrite upd_same. prj. exact Hcb2. }
    rewrite u2_n in Hpc4.
    unfold s3 in Htl4, Hg4, Hbl4, Hbf4, Hlo4, Hce4, Hwh4. prj_in Htl4. prj_in Hg4. prj_in Hbl4. prj_in Hbf4. prj_in Hlo4. prj_in Hce4. prj_in Hwh4.
    rewrite !upd_same in Htl4. prj_in Htl4. rewrite !upd_same in Hwh4. prj_in Hwh4.
    pose (s5 := set_pc t (A2 K) (set_tl t (wt_sit (blist s4) (tl s4 t)) s4)).
    assert (Hst5 : step cfg ns s4 (Step t) = Some (s5, [ELoad t L_head mo_acq (vptr (hd_opt (blist s4)))])) by (apply st_U3; exact Hpc4).
    assert (Hi4 : idle s4 t = false) by (unfold idle; rewrite Hpc4; reflexivity).
    pose proof (N0_reach cfg ns nc s Hr) as I0.
    destruct (round_tail cfg ns nc t c s b s1 (k2 + (1 + (2 + 1)))%nat s5 n0 (gep s) (gep s) O Q Hst) as (s' & Hop & Q' & Kp & Gg & Gl & Gc & Gf & Gs & Gb).
    { eapply ssteps_app; [exact Hs12|]. eapply solo_S; [exact Hi2|exact Hst3|]. eapply ssteps_app; [exact Hs34|].
      eapply solo_S; [exact Hi4|exact Hst5|apply solo_O]. }
    { unfold s5. prj. apply upd_same. } { unfold s5. prj. rewrite upd_same. prj. rewrite Htl4. prj. exact Hcb2. }
    { unfold s5. prj. rewrite upd_same. prj. rewrite Htl4. prj. rewrite Htl2. prj. rewrite Hnest. reflexivity. }
    { unfold s5. prj. rewrite upd_same. prj. rewrite Htl4. prj. rewrite Htl2. prj. rewrite Hrent. reflexivity. }
    { unfold s5. prj. rewrite upd_same. prj. rewrite Htl4. prj. rewrite Htl2. prj. exact Hrg. }
    { unfold s5. prj. rewrite upd_same. prj. rewrite Htl4. prj. reflexivity. } { lia. }
    { unfold s5. prj. rewrite Hg4. exact Hg2. } { unfold s5. prj. rewrite Hbl4. exact Hbl2. } { unfold s5. prj. rewrite Hbf4. exact Hbf2. }
    { unfold s5. prj. rewrite Hlo4. apply updN_same. } { unfold s5. prj. rewrite Hce4, Hce2. exact Hcell. } { exact Hcell. }
    { intros n. unfold s5. prj. rewrite Hwh4. destruct (memN n _) eqn:M; [|left; rewrite Hwh2; reflexivity].
      right. split; [reflexivity|]. apply memN_In in M. apply in_flat_map in M. destruct M as (i & _ & M). rewrite Htl2 in M. prj_in M.
      apply (n_list s I0 t i n) in M. exists i. right. exact M. }
    exists s'. split; [exact Hop|]. split; [exact Q'|]. split; [exact Kp|]. split; [exact Gb|].
    left. repeat split; try assumption. rewrite Gs. unfold s5. prj. rewrite upd_same. prj. rewrite Hbl4, Hbl2. reflexivity.
Qed.

Lemma SummaryN_Keep s s' b : SummaryN s s' b -> Keep s s'.
Proof. intros (A & _). exact A. Qed.

(** any number of further operations keeps what was achieved *)
Lemma padN : forall m s b, Quiet s b -> exists s', flush m s s' /\ Quiet s' b /\ Keep s s'.
Proof.
  induction m as [|m IH]; intros s b Q; [exists s; split; [reflexivity|split; [exact Q|apply Keep_refl]]|].
  destruct (roundN s b Q) as (s1 & Ho & Q1 & S1). destruct (IH s1 b Q1) as (s' & Hf & Q' & K').
  exists s'. split; [exists s1; split; assumption|]. split; [exact Q'|]. eapply Keep_trans; [eapply SummaryN_Keep; eauto|exact K'].
Qed.

(** operations without a scan until one is due *)
Lemma wait_scanN : forall k s b, Quiet s b -> blocal s b = gep s -> (F - ces (tl s t) = k)%nat ->
  exists s', flush k s s' /\ Quiet s' b /\ blocal s' b = gep s' /\ gep s' = gep s /\ ces (tl s' t) = F /\ sit (tl s' t) = sit (tl s t) /\
    blist s' = blist s /\ Keep s s'.
Proof.
  induction k as [|k IH]; intros s b Q Hl Hk.
  - exists s. pose proof (q_ces _ _ _ _ _ _ _ Q). split; [reflexivity|split; [exact Q|split; [exact Hl|split; [reflexivity|split; [lia|split; [reflexivity|split; [reflexivity|apply Keep_refl]]]]]]].
  - destruct (roundN s b Q) as (s1 & Ho & Q1 & (K1 & Hb1 & [(X & _)|[(_ & Hc & Hg1 & Hl1 & Hc1 & Hs1)|[(_ & X & _)|(_ & X & _)]]])); [contradiction| |lia|lia].
    destruct (IH s1 b Q1) as (s' & Hf & Q' & Hl' & Hg' & Hc' & Hs' & Hb' & K'); [congruence|lia|].
    exists s'. split; [exists s1; split; assumption|]. split; [exact Q'|]. split; [exact Hl'|]. split; [congruence|]. split; [exact Hc'|].
    split; [congruence|]. split; [congruence|]. eapply Keep_trans; eauto.
Qed.

(** the number of scans that get an iterator with m entries left to the end of the list *)
Definition scans (m : nat) : nat := S ((m - 1) / N1).
Lemma scans_step m : (N1 < m)%nat -> scans m = S (scans (m - N1)).
Proof.
  intros H. unfold scans. f_equal. replace (m - 1)%nat with ((m - N1 - 1) + 1 * N1)%nat by lia.
  rewrite Nat.div_add by lia. lia.
Qed.
Lemma scans_mono a b : (a <= b)%nat -> (scans a <= scans b)%nat.
Proof. intros H. unfold scans. apply le_n_S. apply Nat.div_le_mono; lia. Qed.

(** scans until the iterator has reached the end of the list: the epoch is advanced and slot (e + 1) mod 3 is freed *)
Lemma advanceN : forall m s b, (length (sit (tl s t)) <= m)%nat -> Quiet s b -> blocal s b = gep s ->
  exists k s', (k <= (F + 1) * scans (length (sit (tl s t))))%nat /\ flush k s s' /\ Quiet s' b /\ blocal s' b = gep s' /\ gep s' = gep s + 1 /\
    ces (tl s' t) = O /\ sit (tl s' t) = blist s' /\ blist s' = blist s /\ Keep s s' /\ FreedSlot ((gep s + 1) mod 3) s s'.
Proof.
  induction m as [|m IH]; intros s b Hm Q Hl.
  - exfalso. assert (Hsne : sit (tl s t) <> []).
    { apply (sit_ne cfg ns nc s is_n (q_reach _ _ _ _ _ _ _ Q) t); [rewrite (q_cb _ _ _ _ _ _ _ Q); discriminate|rewrite (q_idle _ _ _ _ _ _ _ Q); reflexivity]. }
    destruct (sit (tl s t)); [congruence|cbn in Hm; lia].
  - destruct (wait_scanN _ s b Q Hl eq_refl) as (s1 & Hf1 & Q1 & Hl1 & Hg1 & Hc1 & Hs1 & Hb1 & K1).
    destruct (roundN s1 b Q1) as (s2 & Ho & Q2 & (K2 & Hb2 & [(X & _)|[(_ & X & _)|[(_ & _ & Hlen & Hg2 & Hl2 & Hc2 & Hs2 & F2)|(_ & _ & Hlen & Hg2 & Hl2 & Hc2 & Hs2)]]])); [contradiction|contradiction| |].
    + (* the scan reaches the end *)
      exists (F - ces (tl s t) + 1)%nat, s2. split.
      { unfold scans. assert (F - ces (tl s t) + 1 <= F + 1)%nat by lia. nia. }
      split; [eapply flush_app; [exact Hf1|exists s2; split; [exact Ho|reflexivity]]|].
      split; [exact Q2|]. split; [congruence|]. split; [congruence|]. split; [exact Hc2|]. split; [congruence|]. split; [congruence|].
      split; [eapply Keep_trans; eauto|]. rewrite Hg1 in F2. exact (FreedSlot_pre _ _ _ _ _ K1 F2 K2).
    + (* the scan gives up: N1 entries less to go *)
      rewrite Hs1 in Hlen, Hs2.
      destruct (IH s2 b) as (k3 & s3 & Hk3 & Hf3 & Q3 & Hl3 & Hg3 & Hc3 & Hs3 & Hb3 & K3 & F3); [lia|exact Q2|congruence|].
      exists ((F - ces (tl s t) + 1) + k3)%nat, s3. split.
      { rewrite (scans_step (length (sit (tl s t)))) by lia.
        replace (length (sit (tl s t)) - N1)%nat with (length (sit (tl s2 t))) by lia.
        assert (F - ces (tl s t) + 1 <= F + 1)%nat by lia. nia. }
      split; [eapply flush_app; [eapply flush_app; [exact Hf1|exists s2; split; [exact Ho|reflexivity]]|exact Hf3]|].
      split; [exact Q3|]. split; [exact Hl3|]. split; [congruence|]. split; [exact Hc3|]. split; [exact Hs3|]. split; [congruence|].
      pose proof (Keep_trans _ _ _ _ K1 K2) as K12.
      split; [exact (Keep_trans _ _ _ _ K12 K3)|].
      replace (gep s) with (gep s2) by congruence. exact (FreedSlot_pre _ _ _ _ _ K12 F3 K3).
Qed.

(** three epochs: every slot comes around once *)
Lemma threeN s b : Quiet s b -> blocal s b = gep s ->
  exists m s', (m <= 3 * ((F + 1) * scans (length (blist s))))%nat /\ flush m s s' /\ Quiet s' b /\ Keep s s' /\
    FreedSlot ((gep s + 1) mod 3) s s' /\ FreedSlot ((gep s + 2) mod 3) s s' /\ FreedSlot ((gep s + 3) mod 3) s s'.
Proof.
  intros Q Hl.
  assert (Hlen : (length (sit (tl s t)) <= length (blist s))%nat).
  { destruct (sit_suffix cfg ns nc s (q_reach _ _ _ _ _ _ _ Q) t) as [pre Hp]. rewrite Hp, app_length. lia. }
  destruct (advanceN _ s b (le_n _) Q Hl) as (k1 & s1 & Hk1 & Hf1 & Q1 & Hl1 & Hg1 & Hc1 & Hs1 & Hb1 & K1 & F1).
  destruct (advanceN _ s1 b (le_n _) Q1 Hl1) as (k2 & s2 & Hk2 & Hf2 & Q2 & Hl2 & Hg2 & Hc2 & Hs2 & Hb2 & K2 & F2).
  destruct (advanceN _ s2 b (le_n _) Q2 Hl2) as (k3 & s3 & Hk3 & Hf3 & Q3 & Hl3 & Hg3 & Hc3 & Hs3 & Hb3 & K3 & F3).
  rewrite Hs1, Hb1 in Hk2. rewrite Hs2, Hb2, Hb1 in Hk3.
  pose proof (scans_mono _ _ Hlen) as Hmono.
  exists (k1 + (k2 + k3))%nat, s3. split; [nia|].
  split; [exact (flush_app _ _ _ _ _ _ _ _ _ Hf1 (flush_app _ _ _ _ _ _ _ _ _ Hf2 Hf3))|]. split; [exact Q3|].
  pose proof (Keep_trans _ _ _ _ K1 K2) as K12. pose proof (Keep_trans _ _ _ _ K2 K3) as K23.
  split; [exact (Keep_trans _ _ _ _ K12 K3)|]. split; [|split].
  - exact (FreedSlot_post _ _ _ _ _ F1 K23).
  - replace (gep s + 2) with (gep s1 + 1) by lia. exact (FreedSlot_post _ _ _ _ _ (FreedSlot_pre _ _ _ _ _ K1 F2 K2) K3).
  - replace (gep s + 3) with (gep s2 + 1) by lia. exact (FreedSlot_pre _ _ _ _ _ K12 F3 K3).
Qed.

(** [gebr_no_leak_at_quiescence_n_threads] (C02, the liveness half as a bounded solo run, every configuration with
    scan::n_threads<N1>, N1 >= 1 - scan::one_thread / debra: N1 = 1): in a reachable state in which thread t is between
    operations, holds no guard and no region_guard, and no thread is inside a critical region, 1 + 3 (F + 1) ceil(L / N1)
    flush operations of t (F = scan_frequency, L = number of thread control blocks in the list, ceil(L / N1) =
    [scans L] = the number of scans that traverse the list) free every node that sits in an orphan list or in a retire
    list of t (and keep freed what was freed). *)
Theorem gebr_no_leak_at_quiescence_n_threads s b : Quiet s b ->
  exists s', flush (1 + 3 * ((F + 1) * scans (length (blist s)))) s s' /\ Quiet s' b /\
    forall n, (g_where s n = PFreed \/ exists i, g_where s n = POrph i \/ g_where s n = PList t i) -> g_where s' n = PFreed.
Proof.
  intros Q.
  assert (Hall' : forall s', Keep s s' -> FreedSlot ((gep s + 1) mod 3) s s' -> FreedSlot ((gep s + 2) mod 3) s s' -> FreedSlot ((gep s + 3) mod 3) s s' ->
                 forall n, (g_where s n = PFreed \/ exists i, g_where s n = POrph i \/ g_where s n = PList t i) -> g_where s' n = PFreed).
  { intros s' (K1 & _) F1 F2 F3 n [H|(i & H)]; [apply K1; exact H|].
    assert (Hi : i < 3).
    { pose proof (tag_reach cfg ns nc s (q_reach _ _ _ _ _ _ _ Q) n) as G. unfold tag_ok in G.
      destruct H as [H|H]; rewrite H in G; [destruct G as (t' & r & _ & <- & _)|destruct G as (b' & t' & r & _ & _ & <- & _)]; apply N.mod_lt; discriminate. }
    destruct (residues (gep s) i Hi) as [-> | [-> | ->]]; [apply F1|apply F2|apply F3]; exact H. }
  set (B := ((F + 1) * scans (length (blist s)))%nat).
  destruct (N.eq_dec (blocal s b) (gep s)) as [Hl|Hne].
  - destruct (threeN s b Q Hl) as (m & s3 & Hm & Hf & Q3 & K3 & G1 & G2 & G3). fold B in Hm.
    destruct (padN (1 + 3 * B - m) s3 b Q3) as (s' & Hp & Q' & K').
    exists s'. split; [replace (1 + 3 * B)%nat with (m + (1 + 3 * B - m))%nat by lia; exact (flush_app _ _ _ _ _ _ _ _ _ Hf Hp)|]. split; [exact Q'|].
    apply Hall'; [exact (Keep_trans _ _ _ _ K3 K')| | |]; eapply FreedSlot_post; eauto.
  - (* the local epoch is behind: one operation to catch up *)
    destruct (roundN s b Q) as (s1 & Ho & Q1 & (K1 & Hb1 & [(_ & Hg1 & Hl1 & Hc1 & Hs1)|[(X & _)|[(X & _)|(X & _)]]])); [|contradiction|contradiction|contradiction].
    destruct (threeN s1 b Q1 ltac:(congruence)) as (m & s3 & Hm & Hf & Q3 & K3 & G1 & G2 & G3). rewrite Hb1 in Hm. fold B in Hm.
    destruct (padN (3 * B - m) s3 b Q3) as (s' & Hp & Q' & K').
    exists s'. split.
    { replace (1 + 3 * B)%nat with (S (m + (3 * B - m)))%nat by lia. exists s1. split; [exact Ho|exact (flush_app _ _ _ _ _ _ _ _ _ Hf Hp)]. }
    split; [exact Q'|]. rewrite Hg1 in G1, G2, G3.
    apply Hall'; [exact (Keep_trans _ _ _ _ K1 (Keep_trans _ _ _ _ K3 K'))| | |];
      (eapply FreedSlot_post; [eapply FreedSlot_pre; [exact K1| |exact K3]|exact K']); assumption.
Qed.
End FlushN.

(** debra (harness: F = 1, one thread per scan) with L thread control blocks: 1 + 6 L operations *)
Lemma scans_one m : (1 <= m)%nat -> scans 1 m = m.
Proof. intros H. unfold scans. rewrite Nat.div_1_r. lia. Qed.

(** * Every configuration: the number of flush operations *)
Definition flush_ops (cfg : config) (L : nat) : nat :=
  match scan_strat cfg with
  | ScanAll => 3 * scan_freq cfg + 4
  | ScanN n => 1 + 3 * ((scan_freq cfg + 1) * scans n L)
  end%nat.

(** [gebr_no_leak_at_quiescence]: every configuration of generic_epoch_based (n_threads<N> with N >= 1; n_threads<0> never
    advances the epoch): in a quiescent state [flush_ops cfg L] solo flush operations, L the number of thread control blocks,
    free every orphaned node and every node in the flushing thread's retire lists.  epoch_based / new_epoch_based with
    scan_frequency F: 3 F + 4 (default 100: 304; the harness aliases EBR / NEBR with F = 1: 7; EBR0: 4); debra with scan
    frequency F: 1 + 3 (F + 1) L (default 20: 1 + 63 L; the harness alias DEBRA with F = 1: 1 + 6 L);
    GEBR_n2 (F = 0, two threads per scan): 1 + 3 ceil(L / 2). *)
Theorem gebr_no_leak_at_quiescence cfg ns nc t c : (forall n, scan_strat cfg = ScanN n -> (1 <= n)%nat) ->
  forall s b, Quiet cfg ns nc t c s b ->
  exists s', flush cfg ns t c (flush_ops cfg (length (blist s))) s s' /\ Quiet cfg ns nc t c s' b /\
    forall n, (g_where s n = PFreed \/ exists i, g_where s n = POrph i \/ g_where s n = PList t i) -> g_where s' n = PFreed.
Proof.
  intros Hn s b Q. unfold flush_ops. destruct (scan_strat cfg) as [|n] eqn:E.
  - exact (gebr_no_leak_at_quiescence_all_threads cfg ns nc t c E s b Q).
  - exact (gebr_no_leak_at_quiescence_n_threads cfg ns nc t c n E (Hn n eq_refl) s b Q).
Qed.

Example flush_ops_named :
  flush_ops cfg_EBR 5 = 7%nat /\ flush_ops cfg_NEBR 5 = 7%nat /\ flush_ops cfg_EBR0 5 = 4%nat /\ flush_ops cfg_EBR100 5 = 304%nat /\
  flush_ops cfg_GEBR_lazy 5 = 7%nat /\ flush_ops cfg_GEBR_aband 5 = 7%nat /\ flush_ops cfg_GEBR_thresh 5 = 7%nat /\ flush_ops cfg_GEBR_t0 5 = 7%nat /\
  flush_ops cfg_DEBRA 5 = 31%nat /\ flush_ops (cfg_debra 20) 5 = 316%nat /\ flush_ops cfg_GEBR_n2 5 = 10%nat /\ flush_ops cfg_DEBRA 2 = 13%nat.
Proof. vm_compute. repeat split; reflexivity. Qed.
