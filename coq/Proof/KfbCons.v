(** kirsch_bounded_kfifo_queue (C06): conservation theorems.  No axioms, no admits. *)
From Coq Require Import NArith List Bool Lia PeanoNat Permutation.
From XV Require Import Base.Word Conc.Lts Conc.Ev Model.KfbDefs.
From XV Require Import Proof.KfbArith Proof.KfbWf Proof.KfbOwn Proof.KfbRing Proof.KfbRegion Proof.KfbMono.
Import ListNotations.
Local Open Scope N_scope.

Lemma nodup_app {A} (l1 l2 : list A) : NoDup l1 -> NoDup l2 -> (forall x, In x l1 -> ~ In x l2) -> NoDup (l1 ++ l2).
Proof.
  induction l1 as [|a l IH]; cbn; intros H1 H2 Hd; [exact H2|].
  inversion H1; subst. constructor.
  - rewrite in_app_iff. intros [H|H]; [contradiction|]. apply (Hd a); [left; reflexivity|exact H].
  - apply IH; [assumption|assumption|]. intros x Hx. apply Hd. right. exact Hx.
Qed.

Lemma nodup_filter_map (f : N -> N) (l : list N) :
  NoDup l -> (forall a b, In a l -> In b l -> f a = f b -> f a <> 0 -> a = b) ->
  NoDup (filter (fun b => negb (b =? 0)) (map f l)).
Proof.
  induction l as [|a l IH]; cbn; intros Hnd Hinj; [constructor|].
  inversion Hnd; subst.
  assert (IH' : NoDup (filter (fun b => negb (b =? 0)) (map f l))).
  { apply IH; [assumption|]. intros x y Hx Hy. apply Hinj; right; assumption. }
  destruct (N.eqb_spec (f a) 0) as [E|E]; cbn [negb]; [exact IH'|].
  constructor; [|exact IH']. rewrite filter_In, in_map_iff. intros [(x & Hfx & Hx) _].
  assert (a = x) by (apply Hinj; [left; reflexivity|right; exact Hx|symmetry; exact Hfx|exact E]). subst. contradiction.
Qed.

Definition nrange (n : N) : list N := map N.of_nat (seq 0 (N.to_nat n)).
Lemma nrange_in n x : In x (nrange n) <-> x < n.
Proof.
  unfold nrange. rewrite in_map_iff. split.
  - intros (i & <- & Hi). apply in_seq in Hi. lia.
  - intros H. exists (N.to_nat x). split; [apply N2Nat.id|]. apply in_seq. lia.
Qed.
Lemma nrange_nodup n : NoDup (nrange n).
Proof.
  unfold nrange. apply FinFun.Injective_map_NoDup; [|apply seq_NoDup].
  intros a b H. apply Nat2N.inj. exact H.
Qed.

Set Default Proof Using "All".
Section Thm.
  Variables k segs : N.
  Hypothesis Hk : 1 <= k.
  Hypothesis Hs : 1 <= segs.
  Notation step := (step k segs).
  Notation sg := (sg k).
  Notation qsize := (qsize k segs).
  Notation dist := (dist segs).
  Notation hs := (hs k).
  Notation ts := (ts k).
  Notation inreg := (inreg k segs).
  Notation Inv := (Inv k segs).

  Definition quiescent (st : state) : Prop := forall t, th st t = Idle.
  (** slot j lies in a segment between the head segment and the tail segment (both included) *)
  Definition inregb (st : state) (j : N) : bool := dist (hs st) (sg j) <=? dist (hs st) (ts st).
  (** the pointers stored in the slots between head and tail *)
  Definition stored (st : state) : list N :=
    filter (fun b => negb (b =? 0)) (map (fun j => fst (slot st j)) (filter (inregb st) (nrange qsize))).

  Lemma inregb_spec st j : inregb st j = true <-> inreg st j.
  Proof. unfold inregb, KfbRegion.inreg. apply N.leb_le. Qed.

  Lemma stored_in st x : In x (stored st) <-> x <> 0 /\ exists j, j < qsize /\ inreg st j /\ fst (slot st j) = x.
  Proof.
    unfold stored. rewrite filter_In, in_map_iff. split.
    - intros [(j & Hj & Hin) Hnz]. apply filter_In in Hin. destruct Hin as [Hr Hb].
      split; [destruct (N.eqb_spec x 0); [discriminate|assumption]|].
      exists j. rewrite <- nrange_in, <- inregb_spec. auto.
    - intros [Hnz (j & Hj & Hr & Hx)]. split; [|destruct (N.eqb_spec x 0); [contradiction|reflexivity]].
      exists j. split; [exact Hx|]. apply filter_In. rewrite nrange_in, inregb_spec. auto.
  Qed.

  (** * Conservation *)

  (** no value is popped twice, every popped value was committed, every committed value is a token
      allocated by a push, a push that returned true committed its value *)
  Theorem kfb_conservation st : reach init step st ->
    NoDup (g_out st) /\ NoDup (g_in st) /\ incl (g_out st) (g_in st) /\ incl (g_ok st) (g_in st) /\
    (forall b, In b (g_in st) -> 2 <= b < nalloc st).
  Proof.
    intros Hr. destruct (Inv_reach k segs Hk Hs st Hr) as (_ & I2 & _).
    split; [apply I2|]. split; [apply I2|]. split; [apply I2|]. split; [intros b; apply (i_ok_in st I2)|apply (i_in_lt st I2)].
  Qed.

  (** a committed value that has not been popped is stored in exactly one slot, and this slot lies
      between head and tail: it is never stranded outside the region the pops look at *)
  Theorem kfb_never_stranded st b : reach init step st -> In b (g_in st) -> ~ In b (g_out st) ->
    exists j, j < qsize /\ fst (slot st j) = b /\ inreg st j /\ forall j', fst (slot st j') = b -> j' = j.
  Proof.
    intros Hr Hin Hout. destruct (Inv_reach k segs Hk Hs st Hr) as ((_ & _ & Hsl & _) & I2 & _ & I4).
    destruct (i_pres st I2 b Hin Hout) as [j Hj]. pose proof (i_in_lt st I2 b Hin) as Hb.
    exists j. split; [apply Hsl; rewrite Hj; lia|]. split; [exact Hj|]. split; [apply I4; rewrite Hj; exact Hin|].
    intros j' Hj'. apply (i_uniq st I2); [congruence|rewrite Hj'; lia].
  Qed.

  Corollary kfb_pushed_never_stranded st b : reach init step st -> In b (g_ok st) -> ~ In b (g_out st) ->
    exists j, j < qsize /\ fst (slot st j) = b /\ inreg st j.
  Proof.
    intros Hr Hok Hout. destruct (kfb_conservation st Hr) as (_ & _ & _ & Hi & _).
    destruct (kfb_never_stranded st b Hr (Hi b Hok) Hout) as (j & A & B & C & _). exists j. auto.
  Qed.

  (** at quiescence: the values in the slots between head and tail together with the popped values
      are exactly the committed values, these are exactly the values whose push returned true, and
      no slot outside the head..tail region holds a value *)
  Theorem kfb_quiescent st : reach init step st -> quiescent st ->
    Permutation (g_out st ++ stored st) (g_in st) /\
    (forall b, In b (g_ok st) <-> In b (g_in st)) /\
    (forall j, fst (slot st j) <> 0 -> j < qsize /\ inreg st j /\ In (fst (slot st j)) (g_in st) /\ ~ In (fst (slot st j)) (g_out st)).
  Proof.
    intros Hr Hq. destruct (Inv_reach k segs Hk Hs st Hr) as ((_ & _ & Hsl & _) & I2 & _ & I4).
    assert (Hslot : forall j, fst (slot st j) <> 0 -> In (fst (slot st j)) (g_in st) /\ ~ In (fst (slot st j)) (g_out st)).
    { intros j Hnz. destruct (slot st j) as [b tg] eqn:E. cbn [fst] in *.
      destruct (i_slot st I2 j b tg E Hnz) as [A|[_ [t A]]]; [exact A|]. rewrite Hq in A. discriminate. }
    split; [|split].
    - apply NoDup_Permutation.
      + apply nodup_app; [apply I2| |].
        * unfold stored. apply nodup_filter_map.
          -- apply NoDup_filter. apply nrange_nodup.
          -- intros a b _ _ E Hnz. apply (i_uniq st I2); assumption.
        * intros x Hx Hst. apply stored_in in Hst. destruct Hst as [Hnz (j & _ & _ & Hj)].
          subst x. apply (Hslot j Hnz). exact Hx.
      + apply I2.
      + intros x. rewrite in_app_iff, stored_in. split.
        * intros [Hx|[Hnz (j & _ & _ & Hj)]]; [apply (i_incl st I2); exact Hx|]. subst x. apply (Hslot j Hnz).
        * intros Hx. destruct (in_dec N.eq_dec x (g_out st)) as [Ho|Ho]; [left; exact Ho|right].
          pose proof (i_in_lt st I2 x Hx). split; [lia|].
          destruct (i_pres st I2 x Hx Ho) as [j Hj]. exists j.
          split; [apply Hsl; rewrite Hj; lia|]. split; [apply I4; rewrite Hj; exact Hx|exact Hj].
    - intros b. split; [apply (i_ok_in st I2)|]. intros Hb.
      destruct (i_in_ok st I2 b Hb) as [A|(t & j & tg & A)]; [exact A|]. rewrite Hq in A. discriminate.
    - intros j Hnz. destruct (Hslot j Hnz) as [A B]. split; [apply Hsl; exact Hnz|]. split; [apply I4; exact A|]. split; assumption.
  Qed.
End Thm.
