(** Bookkeeping of the nodes handed to guard_ptr::reclaim in the stamp_it model (Model/StampDefs.v), the safety half
    of C02:  [N0]  a node is in at most one place, and the ghost [g_where] says exactly where: a retired node is in the
    local retire list of exactly one thread, or in the global list of chunks, or in the hands of exactly one thread
    (the chunks process_global_nodes / add_to_global_retired_nodes work on), or freed; all these lists are duplicate
    free; a node is freed at most once ([g_nfree]) and only after it was retired; its stamp field holds the stamp it
    was retired with.  Holds in every reachable state ([N0_reach]).  No axioms. *)
From Coq Require Import NArith List Bool Arith Lia PeanoNat Setoid Permutation.
From XV Require Import Conc.Lts Conc.Ev Model.StampDefs Proof.StampBase.
Import ListNotations.
Local Open Scope N_scope.

(** * the reclaimable prefix of a list, one round over the chunks *)
Lemma split_chunk_app ns ts l : let (f, r) := split_chunk ns ts l in l = f ++ r.
Proof.
  induction l as [|n l IH]; cbn [split_chunk]; [reflexivity|].
  destruct (ns n <=? ts); [|reflexivity].
  destruct (split_chunk ns ts l) as [f r]. cbn [app]. congruence.
Qed.
Lemma split_chunk_le ns ts l : forall n, In n (fst (split_chunk ns ts l)) -> ns n <= ts.
Proof.
  induction l as [|a l IH]; cbn [split_chunk]; [intros n []|].
  destruct (N.leb_spec (ns a) ts) as [Hle|Hgt]; [|intros n []].
  destruct (split_chunk ns ts l) as [f r]. cbn [fst] in *. intros n [<-|Hn]; [exact Hle|apply IH; exact Hn].
Qed.
Lemma proc_chunks_perm ns ts chs : let (fl, rest) := proc_chunks ns ts chs in Permutation (concat chs) (fl ++ concat rest).
Proof.
  induction chs as [|c chs IH]; cbn [proc_chunks concat]; [constructor|].
  pose proof (split_chunk_app ns ts c) as Hc. destruct (split_chunk ns ts c) as [f c'].
  destruct (proc_chunks ns ts chs) as [fr r']. subst c.
  assert (Hr : concat (if is_nil c' then r' else c' :: r') = c' ++ concat r').
  { destruct c'; reflexivity. }
  rewrite Hr. rewrite <- !app_assoc. apply Permutation_app_head.
  rewrite IH. rewrite !app_assoc. apply Permutation_app_tail. apply Permutation_app_comm.
Qed.
Lemma proc_chunks_le ns ts chs : forall n, In n (fst (proc_chunks ns ts chs)) -> ns n <= ts.
Proof.
  induction chs as [|c chs IH]; cbn [proc_chunks]; [intros n []|].
  pose proof (split_chunk_le ns ts c) as Hc. destruct (split_chunk ns ts c) as [f c'].
  destruct (proc_chunks ns ts chs) as [fr r']. cbn [fst] in *.
  intros n Hn. apply in_app_or in Hn. destruct Hn; auto.
Qed.

Lemma NoDup_app_intro {A} (l1 l2 : list A) : NoDup l1 -> NoDup l2 -> (forall x, In x l1 -> ~ In x l2) -> NoDup (l1 ++ l2).
Proof.
  induction 1 as [|a l Hni Hnd IH]; intros H2 Hd; [exact H2|]. cbn [app]. constructor.
  - rewrite in_app_iff. intros [X|X]; [contradiction|]. apply (Hd a); [left; reflexivity|exact X].
  - apply IH; [exact H2|]. intros x Hx. apply Hd. right. exact Hx.
Qed.
Lemma NoDup_app_elim {A} (l1 l2 : list A) : NoDup (l1 ++ l2) -> NoDup l1 /\ NoDup l2 /\ (forall x, In x l1 -> ~ In x l2).
Proof.
  induction l1 as [|a l IH]; cbn [app]; intros H.
  - repeat split; [constructor|exact H|intros x []].
  - inversion H as [|? ? Hni Hnd]; subst. destruct (IH Hnd) as (H1 & H2 & H3). repeat split.
    + constructor; [intros X; apply Hni; apply in_or_app; left; exact X|exact H1].
    + exact H2.
    + intros x [<-|Hx]; [intros X; apply Hni; apply in_or_app; right; exact X|apply H3; exact Hx].
Qed.
Lemma count_nodup n l : NoDup l -> length (filter (N.eqb n) l) = if memN n l then 1%nat else 0%nat.
Proof.
  induction 1 as [|a l Hni Hnd IH]; [reflexivity|]. cbn [filter memN existsb]. fold (memN n l).
  destruct (N.eqb_spec n a) as [->|Hne]; cbn [orb length].
  - rewrite IH. apply memN_false in Hni. rewrite Hni. reflexivity.
  - exact IH.
Qed.

(** * Retired nodes: where they are *)
Definition flight (p : pc) : list N :=
  match p with PG4 _ ch _ | AG1 _ ch | AG2 _ ch _ => concat ch | _ => [] end.
Definition fresh_of (p : pc) : option N := match p with R3c _ _ (Some n) => Some n | _ => None end.
Definition unl_of (p : pc) : option N := match p with RT1 n => Some n | _ => None end.
Definition wh_ok (w : place) (l : life) (k : nat) : Prop :=
  match w with
  | PNone => (forall t r, l <> LRet t r) /\ k = O
  | PFreed => (exists t r, l = LRet t r) /\ k = 1%nat
  | _ => (exists t r, l = LRet t r) /\ k = O
  end.
(** the local list is empty once it was handed over at thread exit *)
Definition xempty (p : pc) : bool := match p with AG1 AGExit _ | AG2 AGExit _ _ => true | _ => false end.

Record N0 (s : state) : Prop := {
  n_lt : forall n, g_life s n <> LNone -> n < nalloc s;
  n_cell : forall c n, cells s c = Some n -> g_life s n = LPub c;
  n_fresh1 : forall u n, fresh_of (th s u) = Some n -> g_life s n = LFresh u;
  n_fresh2 : forall u n, g_life s n = LFresh u -> fresh_of (th s u) = Some n;
  n_unl1 : forall u n, unl_of (th s u) = Some n -> g_life s n = LUnl u;
  n_unl2 : forall u n, g_life s n = LUnl u -> unl_of (th s u) = Some n;
  n_where : forall n, wh_ok (g_where s n) (g_life s n) (g_nfree s n);
  n_list : forall u n, In n (rl (tl s u)) <-> g_where s n = PList u;
  n_glob : forall n, In n (concat (gret s)) <-> g_where s n = PGlob;
  n_flight : forall u n, In n (flight (th s u)) <-> g_where s n = PFlight u;
  n_nd_list : forall u, NoDup (rl (tl s u));
  n_nd_glob : NoDup (concat (gret s));
  n_nd_flight : forall u, NoDup (flight (th s u));
  n_stamp : forall n u r, g_life s n = LRet u r -> nstamp s n = r;
  n_xempty : forall u, xempty (th s u) = true -> rl (tl s u) = [] }.

Lemma N0_init nc : N0 (init nc).
Proof.
  constructor; cbn; intros; try discriminate; try reflexivity; try constructor; try (split; intros; try contradiction; discriminate); try lia.
  all: try discriminate.
  - destruct (N.ltb_spec n nc); [assumption|congruence].
  - destruct (N.ltb_spec c nc); [|discriminate]. inversion H; subst. destruct (N.ltb_spec n nc); [reflexivity|lia].
  - destruct (n <? nc); discriminate.
  - destruct (n <? nc); discriminate.
  - intros t r. destruct (n <? nc); discriminate.
  - destruct (n <? nc); discriminate.
Qed.

Ltac nfn := cbn [flight fresh_of unl_of xempty wh_ok concat app].
Ltac nfn_in H := cbn [flight fresh_of unl_of xempty wh_ok concat app] in H.

Lemma wh_not_ret w l k : wh_ok w l k -> (forall t r, l <> LRet t r) -> w = PNone /\ k = O.
Proof. destruct w; cbn; intros [H1 H2] H; auto; destruct H1 as (t0 & r & E); exfalso; eapply H; eauto. Qed.
Lemma wh_ret_some w l k : wh_ok w l k -> w <> PNone -> exists t r, l = LRet t r.
Proof. destruct w; cbn; intros [H1 H2] H; auto; congruence. Qed.

Ltac nfacts :=
  repeat match goal with
  | Icell : forall c n, cells ?s c = Some n -> g_life ?s n = LPub c, H : cells ?s ?c = Some ?n |- _ =>
    lazymatch goal with | _ : g_life s n = LPub c |- _ => fail | _ => pose proof (Icell c n H) end
  | If1t : forall n, Some ?n1 = Some n -> g_life ?s n = LFresh ?t |- _ =>
    lazymatch goal with | _ : g_life s n1 = LFresh t |- _ => fail | _ => pose proof (If1t n1 eq_refl) end
  | Iu1t : forall n, Some ?n1 = Some n -> g_life ?s n = LUnl ?t |- _ =>
    lazymatch goal with | _ : g_life s n1 = LUnl t |- _ => fail | _ => pose proof (Iu1t n1 eq_refl) end
  | Ilt : forall n, g_life ?s n <> LNone -> n < nalloc ?s |- _ =>
    lazymatch goal with | _ : g_life s (nalloc s) = LNone |- _ => fail
    | _ => assert (g_life s (nalloc s) = LNone) by (destruct (g_life s (nalloc s)) eqn:X; try reflexivity; exfalso; assert (nalloc s < nalloc s) by (apply Ilt; rewrite X; discriminate); lia) end
  end;
  repeat match goal with
  | Iwh : forall n, wh_ok (g_where ?s n) (g_life ?s n) (g_nfree ?s n), H : g_life ?s ?n = ?l |- _ =>
    lazymatch l with
    | LRet _ _ => fail
    | _ => lazymatch goal with | _ : g_where s n = PNone |- _ => fail
           | _ => let X := fresh in pose proof (wh_not_ret _ _ _ (Iwh n) ltac:(rewrite H; intros; discriminate)) as X; destruct X end
    end
  end.

Ltac mem_split :=
  repeat match goal with
  | |- context [memN ?n ?l] => let M := fresh "M" in destruct (memN n l) eqn:M; [apply memN_In in M | apply memN_false in M]
  | H : context [memN ?n ?l] |- _ => let M := fresh "M" in destruct (memN n l) eqn:M; [apply memN_In in M | apply memN_false in M]
  end.

Lemma in_nil_iff {A} (x : A) : In x [] <-> False.
Proof. split; [intros []|intros []]. Qed.

Lemma concat_ifnil (l : list N) (g : list (list N)) : concat (if is_nil l then g else l :: g) = l ++ concat g.
Proof. destruct l; reflexivity. Qed.
Lemma proc_chunks_facts ns ts chs fl rest : proc_chunks ns ts chs = (fl, rest) -> NoDup (concat chs) ->
  (forall n, In n (concat chs) <-> In n fl \/ In n (concat rest)) /\ NoDup fl /\ NoDup (concat rest) /\ (forall n, In n fl -> ~ In n (concat rest)).
Proof.
  intros E Hnd. pose proof (proc_chunks_perm ns ts chs) as P. rewrite E in P.
  assert (Hnd2 : NoDup (fl ++ concat rest)) by (eapply Permutation_NoDup; eauto).
  apply NoDup_app_elim in Hnd2. destruct Hnd2 as (H1 & H2 & H3). repeat split; try assumption.
  - intros H. apply in_app_or. eapply Permutation_in; eauto.
  - intros H. eapply Permutation_in; [apply Permutation_sym; exact P|]. apply in_or_app. exact H.
Qed.

Lemma N0_step ns s t s' es : T0 ns s -> O0 s -> N0 s -> step ns s (Step t) = Some (s', es) -> N0 s'.
Proof.
  intros T O I H. unfold_step H. cbv zeta in H. step_split H.
  all: bool_eqs; prj; rewrite ?upd_same; prj; prj_hyps; rewrite ?upd_same in *; prj_hyps.
  all: specialize (T t); try match goal with E : th _ _ = _ |- _ => rewrite E in T end.
  all: destruct I as [Ilt Icell If1 If2 Iu1 Iu2 Iwh Ilist Iglob Ifl Indl Indg Indf Ist Ixe].
  all: match goal with E : th ?s ?t = _ |- _ =>
         pose proof (If1 t) as If1t; pose proof (If2 t) as If2t; pose proof (Iu1 t) as Iu1t; pose proof (Iu2 t) as Iu2t;
         pose proof (Ifl t) as Iflt; pose proof (Indf t) as Indft; pose proof (Ixe t) as Ixet;
         pose proof (Ilist t) as Ilistt; pose proof (Indl t) as Indlt;
         rewrite E in If1t, If2t, Iu1t, Iu2t, Iflt, Indft, Ixet; nfn_in If1t; nfn_in If2t; nfn_in Iu1t; nfn_in Iu2t; nfn_in Iflt; nfn_in Indft; nfn_in Ixet end.
  all: rmn.
  all: constructor; prj; intros.
  all: try solve [first [assumption | eauto 2]].
  all: split_upd_all; prj; prj_hyps; nfn.
  all: try solve [first [assumption | eauto 2 | constructor | discriminate | lia]].
  all: try solve [eauto 3].
  all: try solve [nfacts; inj_some; split_updN_all; nfn;
                  first [ assumption | discriminate | congruence | lia | solve [eauto 3]
                        | apply Iwh | apply Ilist | apply Iglob | apply Ifl
                        | split; first [assumption | congruence | discriminate | solve [eauto 3]]
                        | split; intros X; [first [apply Ifl in X | apply Ilist in X | apply Iglob in X]; congruence | discriminate X] ]].
  (* allocation bounds *)
  all: try solve [split_updN_all; first [lia | match goal with H : _ <> LNone |- _ => pose proof (Ilt _ H); lia end
                                       | nfacts; match goal with H : g_life ?s ?n = _ |- ?n < _ => assert (n < nalloc s) by (apply Ilt; rewrite H; discriminate); lia end]].
  all: try solve [constructor].
  (* life cycle *)
  all: try solve [split_updN_all; inj_some; nfacts;
            repeat match goal with
            | H : fresh_of (th ?s ?u) = Some ?n |- _ => lazymatch goal with | _ : g_life s n = LFresh u |- _ => fail | _ => pose proof (If1 u n H) end
            | H : g_life ?s ?n = LFresh ?u |- _ => lazymatch goal with | _ : fresh_of (th s u) = Some n |- _ => fail | _ => pose proof (If2 u n H) end
            | H : unl_of (th ?s ?u) = Some ?n |- _ => lazymatch goal with | _ : g_life s n = LUnl u |- _ => fail | _ => pose proof (Iu1 u n H) end
            | H : g_life ?s ?n = LUnl ?u |- _ => lazymatch goal with | _ : unl_of (th s u) = Some n |- _ => fail | _ => pose proof (Iu2 u n H) end
            end; use_pc; nfn; repeat match goal with H : _ |- _ => progress nfn_in H end;
            split_updN_all; inj_some; first [congruence | discriminate | reflexivity | exfalso; congruence]].
  (* wh_ok after a change of the life cycle of a node that is not retired *)
  all: try solve [match goal with |- wh_ok (g_where _ _) _ _ => idtac end;
            nfacts; inj_some; split_updN_all; try apply Iwh;
            repeat match goal with H : g_where _ _ = _ |- _ => rewrite H end;
            repeat match goal with H : g_nfree _ _ = _ |- _ => rewrite H end;
            nfn; (split; [intros; discriminate | reflexivity])].
  (* retire: push onto the local list *)
  all: try solve [match goal with E : th _ _ = RT1 _ |- _ => idtac end;
            nfacts; rewrite ?in_app_iff; cbn [In]; split_updN_all; rewrite ?in_nil_iff;
            try (match goal with |- NoDup _ => apply NoDup_app_intro; [apply Indlt | constructor; [intros []|constructor] | intros x X1 [<-|[]]; apply Ilistt in X1; congruence] end);
            try (match goal with |- context [In ?n (rl (tl ?s ?u))] => pose proof (Ilist u n) end);
            try (match goal with |- context [In ?n (rl (tl ?s ?u))] => pose proof (Ilist u n) end);
            first [tauto | intuition congruence]].
  all: try solve [match goal with |- In ?n [] <-> _ => pose proof (Iflt n) end; split_updN_all; rewrite ?in_nil_iff in *; first [tauto | intuition congruence]].
  (* process_local_nodes *)
  all: try solve [match goal with E : th _ _ = PL1 _ |- _ => idtac end;
    repeat match goal with H : ?x = [] |- _ => is_var x; subst x end;
    match goal with E : split_chunk ?ns ?ts ?l = (?f, ?r) |- _ =>
      pose proof (split_chunk_app ns ts l) as Happ; rewrite E in Happ;
      pose proof Indlt as Hnd; rewrite Happ in Hnd; apply NoDup_app_elim in Hnd; destruct Hnd as (Hnd1 & Hnd2 & Hdis);
      assert (Hin : forall n, g_where s n = PList t <-> In n f \/ In n r) by (intros x; rewrite <- Ilistt, Happ, in_app_iff; tauto)
    end;
    try match goal with |- wh_ok _ _ (_ + length (filter (N.eqb ?n) ?l))%nat => rewrite (count_nodup n l) by assumption end;
    try match goal with |- wh_ok _ (g_life ?s ?n) _ => pose proof (Iwh n) as W end;
    try match goal with |- context [g_where ?s ?n] => pose proof (Hin n); pose proof (Iflt n); pose proof (Hdis n); pose proof (Iglob n) end;
    try match goal with |- context [In ?n (rl (tl ?s ?u))] => pose proof (Ilist u n) end;
    try match goal with |- context [In ?n (flight (th ?s ?u))] => pose proof (Ifl u n) end;
    mem_split; rewrite ?in_nil_iff in *; rewrite ?app_nil_r in *;
    try match goal with |- wh_ok _ _ _ =>
      repeat match goal with
      | H : In ?n ?f, H2 : g_where ?s ?n = PList ?t <-> _ |- _ => let X := fresh in assert (X : g_where s n = PList t) by tauto; rewrite X in *; clear H2
      end; nfn; nfn_in W; rewrite ?Nat.add_0_r; first [exact W | destruct W as [W1 W2]; split; [exact W1|lia]] end;
    try match goal with |- NoDup _ => first [assumption | constructor | apply Indl | apply Indf] end;
    try (exfalso; match goal with H : In ?x ?f, H' : In ?x ?r |- _ => apply (Hdis x H H') end);
    first [tauto | intuition congruence | assumption | reflexivity]].
  (* ... followed by the allocation of repl's new node *)
  all: try solve [match goal with |- wh_ok _ (updN (g_life ?s0) (nalloc ?s0) _ ?n) _ => idtac end;
    match goal with E : split_chunk ?ns ?ts ?l = (?f, ?r) |- _ =>
      pose proof (split_chunk_app ns ts l) as Happ; rewrite E in Happ;
      pose proof Indlt as Hnd; rewrite Happ in Hnd; apply NoDup_app_elim in Hnd; destruct Hnd as (Hnd1 & Hnd2 & Hdis);
      assert (Hin : forall n, In n f -> g_where s n = PList t) by (intros x Hx; apply Ilistt; rewrite Happ; apply in_or_app; left; exact Hx)
    end;
    nfacts; rewrite (count_nodup n _ Hnd1); split_updN_all;
    [ mem_split; [match goal with M : In _ _ |- _ => apply Hin in M; congruence end|];
      match goal with H : g_where _ _ = PNone |- _ => rewrite H end; nfn; split; [intros; discriminate|lia]
    | pose proof (Iwh n) as W; mem_split;
      [match goal with M : In _ _ |- _ => apply Hin in M; rewrite M in W; nfn_in W; nfn; destruct W as [W1 W2]; split; [exact W1|lia] end
      | rewrite Nat.add_0_r; exact W] ]].
  (* add_to_global_retired_nodes *)
  all: try solve [match goal with E : th _ _ = AG2 _ _ _ |- _ => idtac end;
    rewrite ?concat_app, ?in_app_iff;
    try match goal with |- wh_ok _ (updN (g_life ?s0) (nalloc ?s0) _ ?n) _ =>
      nfacts; destruct (N.eq_dec n (nalloc s0)) as [->|Hne]; [rewrite updN_same|rewrite updN_other by exact Hne] end;
    try match goal with |- wh_ok _ _ (g_nfree ?s ?n) => pose proof (Iwh n) as W end;
    try match goal with |- context [g_where ?s ?n] => pose proof (Iflt n); pose proof (Iglob n) end;
    try match goal with |- context [In ?n (rl (tl ?s ?u))] => pose proof (Ilist u n) end;
    try match goal with |- context [In ?n (flight (th ?s ?u))] => pose proof (Ifl u n) end;
    try match goal with |- NoDup (_ ++ _) => apply NoDup_app_intro; [exact Indft | exact Indg | intros x X1 X2; apply Iflt in X1; apply Iglob in X2; congruence] end;
    try (specialize (Ixet eq_refl); rewrite Ixet in Ilistt);
    try match goal with |- context [g_where ?s ?n] => pose proof (Ilistt n) end;
    mem_split; rewrite ?in_nil_iff in *;
    try match goal with |- wh_ok _ _ _ =>
      repeat match goal with
      | H : In ?n ?f, H2 : In ?n ?f <-> g_where ?s ?n = ?p |- _ => let X := fresh in assert (X : g_where s n = p) by tauto; rewrite X in *; clear H2
      end;
      repeat match goal with H : g_where _ _ = _ |- _ => rewrite H end;
      repeat match goal with H : g_nfree _ _ = _ |- _ => rewrite H end;
      nfn; try nfn_in W; first [exact W | congruence | (split; [intros; discriminate|reflexivity]) ] end;
    first [tauto | intuition congruence | assumption | reflexivity]].
  (* process_global_nodes *)
  all: try solve [
    match goal with E : proc_chunks ?ns0 ?ts0 ?CH = (?fl, ?rest) |- _ =>
      assert (HndC : NoDup (concat CH)) by
        (rewrite ?concat_ifnil; cbn [concat]; rewrite ?app_nil_r;
         first [ exact Indft | exact Indlt
               | apply NoDup_app_intro; [exact Indlt | exact Indg | intros x X1 X2; apply Ilistt in X1; apply Iglob in X2; congruence] ]);
      destruct (proc_chunks_facts ns0 ts0 CH fl rest E HndC) as (HP & Hnd1 & Hnd2 & Hdis);
      first [
      assert (HC : forall n, In n (concat CH) <-> (g_where s n = PList t \/ g_where s n = PGlob \/ g_where s n = PFlight t)) by
        (intros x; rewrite ?concat_ifnil; cbn [concat]; rewrite ?app_nil_r, ?in_app_iff;
         pose proof (Ilistt x) as Q1; pose proof (Iglob x) as Q2; pose proof (Iflt x) as Q3;
         repeat match goal with H : gret _ = [] |- _ => rewrite H in * end; cbn [concat] in *; rewrite ?in_nil_iff in *;
         tauto)
      | assert (HC : forall n, In n (concat CH) <-> g_where s n = PFlight t) by (exact Iflt) ]
    end;
    try match goal with |- wh_ok _ (updN (g_life ?s0) (nalloc ?s0) _ ?n) _ =>
      nfacts; destruct (N.eq_dec n (nalloc s0)) as [->|Hne]; [rewrite updN_same|rewrite updN_other by exact Hne] end;
    try match goal with |- wh_ok _ _ (_ + length (filter (N.eqb ?n) ?l))%nat => rewrite (count_nodup n l) by assumption end;
    try match goal with |- wh_ok _ (g_life ?s ?n) _ => pose proof (Iwh n) as W end;
    try match goal with |- context [g_where ?s ?n] => pose proof (HP n); pose proof (HC n); pose proof (Hdis n); pose proof (Iflt n); pose proof (Iglob n); pose proof (Ilistt n) end;
    try match goal with |- context [In ?n (rl (tl ?s ?u))] => pose proof (Ilist u n) end;
    try match goal with |- context [In ?n (flight (th ?s ?u))] => pose proof (Ifl u n) end;
    repeat match goal with H : gret _ = [] |- _ => rewrite H in * end; cbn [concat] in *;
    mem_split; rewrite ?in_nil_iff in *;
    try match goal with |- wh_ok _ _ _ =>
      match type of W with wh_ok (g_where ?s0 ?n0) _ _ => destruct (g_where s0 n0) eqn:Ew end; nfn_in W; nfn; rewrite ?Nat.add_0_r;
      first [exact W | (destruct W as [W1 W2]; split; [exact W1| lia]) | exfalso; intuition congruence | intuition congruence] end;
    try match goal with |- wh_ok _ _ _ =>
      repeat match goal with H : g_where _ _ = _ |- _ => rewrite H in * end;
      repeat match goal with H : g_nfree _ _ = _ |- _ => rewrite H in * end;
      nfn; first [ (split; [intros; discriminate|reflexivity]) | exfalso; intuition congruence ] end;
    first [assumption | tauto | intuition congruence | match goal with |- NoDup _ => constructor end ] ].
Qed.

Lemma N0_start ns s t o s' es : N0 s -> step ns s (Start t o) = Some (s', es) -> N0 s'.
Proof.
  intros I H. unfold step, step_gen in H. step_split H.
  all: bool_eqs; prj.
  all: destruct I as [Ilt Icell If1 If2 Iu1 Iu2 Iwh Ilist Iglob Ifl Indl Indg Indf Ist Ixe].
  all: match goal with E : th ?s ?t = _ |- _ =>
         pose proof (If1 t) as If1t; pose proof (If2 t) as If2t; pose proof (Iu1 t) as Iu1t; pose proof (Iu2 t) as Iu2t;
         pose proof (Ifl t) as Iflt; pose proof (Indf t) as Indft; pose proof (Ixe t) as Ixet;
         rewrite E in If1t, If2t, Iu1t, Iu2t, Iflt, Indft, Ixet; nfn_in If1t; nfn_in If2t; nfn_in Iu1t; nfn_in Iu2t; nfn_in Iflt; nfn_in Indft; nfn_in Ixet end.
  all: constructor; prj; intros.
  all: try solve [first [assumption | eauto 2]].
  all: split_upd_all; prj; prj_hyps; nfn.
  all: try solve [first [assumption | eauto 2 | constructor | discriminate | lia]].
  all: try solve [eauto 3].
  all: try solve [exfalso; first [apply If2t in H | apply Iu2t in H]; discriminate H].
Qed.

Section ReachN.
Variables (ns : nat) (nc : N).
Lemma N0_reach s : reachable ns nc s -> N0 s.
Proof.
  apply (inv_rule_aux _ _ _ _ _ (fun s => T0 ns s /\ O0 s) N0).
  - intros s0 Hr. split; [apply (T0_reach ns nc); exact Hr|apply (O0_reach ns nc); exact Hr].
  - apply N0_init.
  - intros s0 a s1 es [J1 J2] _ I H. destruct a as [t o|t]; [eapply N0_start; eauto|eapply N0_step; eauto].
Qed.
End ReachN.
