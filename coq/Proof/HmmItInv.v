(** Iterators of the Harris-Michael hash map (Model/HmmDefs.v; the structural invariant, the abstraction and the
    linearizability of the map operations are in Proof/HmmInv.v): safety of the iterators (the nodes they refer to
    are allocated and reachable or retired, never freed: GC reclaimer instance); soundness of the yielded positions;
    order / no duplicates and completeness of a traversal ACROSS THE BUCKETS, for the ordering predicate of the code
    (lexicographic on (hash, key)) and for unmemoized hashes; exactness of erase(iterator) and its successor.
    With the former predicate [hash >= h && key >= k] ([lex = false], memoized) completeness is FALSE: the find
    started by operator++ on an erased node walks past nodes with a smaller hash and a larger key
    ([it_complete_refuted_conj], a schedule the code reproduced before the repair).
    All theorems hold for every reachable state (any number of threads, any program, any schedule). *)
From Coq Require Import NArith List Bool Lia ZifyBool PeanoNat Sorted.
From XV Require Import Base.Word Conc.Lts Conc.Ev Model.HmmDefs Proof.HmmInv.
Import ListNotations.
Local Open Scope N_scope.

#[local] Arguments G_nodup {nb memo lex hf}.
#[local] Arguments Hist_reach {nb memo lex hf}.
#[local] Arguments Hist_step0 {nb memo lex hf}.
#[local] Arguments IT0_end {nb memo lex hf}.
#[local] Arguments IT0_land {nb memo lex hf}.
#[local] Arguments IT0_mono {nb memo lex hf}.
#[local] Arguments Inv_add_hist {nb memo lex hf}.
#[local] Arguments Inv_chain {nb memo lex hf}.
#[local] Arguments Inv_init {nb memo lex hf}.
#[local] Arguments Inv_intro {nb memo lex hf}.
#[local] Arguments Inv_reach {nb memo lex hf}.
#[local] Arguments Inv_refresh {nb memo lex hf}.
#[local] Arguments Inv_step {nb memo lex hf}.
#[local] Arguments Inv_step0 {nb memo lex hf}.
#[local] Arguments Pend_reach {nb memo lex hf}.
#[local] Arguments Pend_step0 {nb memo lex hf}.
#[local] Arguments R_ext {nb memo lex hf}.
#[local] Arguments R_irr {memo lex hf}.
#[local] Arguments T_set_mem {nb memo lex hf}.
#[local] Arguments Tw_fresh {nb memo lex hf}.
#[local] Arguments Tw_stable {nb memo lex hf}.
#[local] Arguments abs_in {nb memo lex hf}.
#[local] Arguments abs_lookup {nb memo lex hf}.
#[local] Arguments absent {nb memo lex hf}.
#[local] Arguments alloc_fresh {nb memo lex hf}.
#[local] Arguments alloc_step {nb memo lex hf}.
#[local] Arguments begin_lp {nb memo lex hf}.
#[local] Arguments bk_ext {nb hf}.
#[local] Arguments chain_bound {nb memo lex hf}.
#[local] Arguments chain_eq {nb memo lex hf}.
#[local] Arguments chain_key_inj {nb memo lex hf}.
#[local] Arguments chain_next_in {nb memo lex hf}.
#[local] Arguments chain_nz {nb memo lex hf}.
#[local] Arguments chain_split {nb memo lex hf}.
#[local] Arguments closed_nx {nb memo lex hf}.
#[local] Arguments closed_ref {nb memo lex hf}.
#[local] Arguments cont_ok_lp {nb hf}.
#[local] Arguments cont_ok_mono {nb memo lex hf}.
#[local] Arguments curc_mono {nb memo lex hf}.
#[local] Arguments ext_alloc {nb memo lex hf}.
#[local] Arguments ext_link {nb memo lex hf}.
#[local] Arguments ext_mark {nb memo lex hf}.
#[local] Arguments ext_refl {nb memo lex hf}.
#[local] Arguments ext_store {nb memo lex hf}.
#[local] Arguments ext_unlink {nb memo lex hf}.
#[local] Arguments fcom_lp {nb hf}.
#[local] Arguments find_ret_hist {nb memo hf}.
#[local] Arguments find_ret_inv {nb memo lex hf}.
#[local] Arguments fresh_mono {nb memo lex hf}.
#[local] Arguments gef_antisym {memo lex hf}.
#[local] Arguments gef_frame {memo lex}.
#[local] Arguments gef_key {memo lex hf}.
#[local] Arguments gef_refl {memo lex hf}.
#[local] Arguments gef_trans {memo lex hf}.
#[local] Arguments hmm_abs {nb memo lex hf}.
#[local] Arguments hmm_abs_step {nb memo lex hf}.
#[local] Arguments hmm_buckets_disjoint {nb memo lex hf}.
#[local] Arguments hmm_call_linearizable {nb memo lex hf}.
#[local] Arguments hmm_frozen_step {nb memo lex hf}.
#[local] Arguments hmm_hist {nb memo lex hf}.
#[local] Arguments hmm_hist_step {nb memo lex hf}.
#[local] Arguments hmm_lin_nodes {nb memo lex hf}.
#[local] Arguments hmm_lp_step {nb memo lex hf}.
#[local] Arguments hmm_op_step {nb memo lex hf}.
#[local] Arguments hmm_pending {nb memo lex hf}.
#[local] Arguments hmm_quiescent {nb memo lex hf}.
#[local] Arguments hmm_ret_step {nb memo lex hf}.
#[local] Arguments hmm_retired {nb memo lex hf}.
#[local] Arguments hmm_structure {nb memo lex hf}.
#[local] Arguments in_call_lp {nb memo lex hf}.
#[local] Arguments in_call_reach {nb memo lex hf}.
#[local] Arguments it_find_ok {nb memo lex hf}.
#[local] Arguments it_land_hist {nb}.
#[local] Arguments it_land_inv {nb memo lex hf}.
#[local] Arguments known_chain {nb memo lex hf}.
#[local] Arguments known_ext {nb hf}.
#[local] Arguments known_nz {nb memo lex hf}.
#[local] Arguments le2_conj {memo lex hf}.
#[local] Arguments le2_lex {memo lex hf}.
#[local] Arguments le2_nomemo {memo lex hf}.
#[local] Arguments link_step {nb memo lex hf}.
#[local] Arguments mark_step {nb memo lex hf}.
#[local] Arguments mono_refl {nb memo lex hf}.
#[local] Arguments nh_frame {memo hf}.
#[local] Arguments nh_hash {nb memo lex hf}.
#[local] Arguments node_in_chain {nb memo lex hf}.
#[local] Arguments not_in_chain {nb memo lex hf}.
#[local] Arguments oknode_chain {nb memo lex hf}.
#[local] Arguments oknode_mono {nb memo lex hf}.
#[local] Arguments oknx_mono {nb memo lex hf}.
#[local] Arguments okprev_mono {nb memo lex hf}.
#[local] Arguments okprev_zero {nb memo lex hf}.
#[local] Arguments okref_chain {nb memo lex hf}.
#[local] Arguments okref_mono {nb memo lex hf}.
#[local] Arguments pre_advance {nb memo lex hf}.
#[local] Arguments pre_ext {nb memo lex hf}.
#[local] Arguments pre_next {nb memo lex hf}.
#[local] Arguments pre_sorted {nb memo lex hf}.
#[local] Arguments pre_zero {memo lex}.
#[local] Arguments ref_in_chain {nb memo lex hf}.
#[local] Arguments sp_other_bucket {nb memo lex hf}.
#[local] Arguments sp_zero {nb memo lex hf}.
#[local] Arguments st_bk {nb memo lex hf}.
#[local] Arguments st_gef {nb memo lex hf}.
#[local] Arguments st_key {nb memo lex hf}.
#[local] Arguments st_nh {nb memo lex hf}.
#[local] Arguments step0_ext {nb memo lex hf}.
#[local] Arguments step_end {nb memo lex hf}.
#[local] Arguments step_go {nb memo lex hf}.
#[local] Arguments step_go_lp {nb memo lex hf}.
#[local] Arguments step_move {nb memo lex hf}.
#[local] Arguments step_ret {nb memo lex hf}.
#[local] Arguments step_same {nb memo lex hf}.
#[local] Arguments step_split {nb memo lex hf}.
#[local] Arguments step_start {nb memo lex hf}.
#[local] Arguments step_unlink {nb memo lex hf}.
#[local] Arguments store_step {nb memo lex hf}.
#[local] Arguments tl_in_del {nb hf}.
#[local] Arguments tl_in_ins {nb hf}.
#[local] Arguments unlink_step {nb memo lex hf}.
#[local] Arguments unmarked_in_chain {nb memo lex hf}.
#[local] Arguments G_links {nb memo lex hf}.
#[local] Arguments G_sorted {nb memo lex hf}.
#[local] Arguments G_bk {nb memo lex hf}.
#[local] Arguments G_ret_nodup {nb memo lex hf}.
#[local] Arguments G_ret_nz {nb memo lex hf}.
#[local] Arguments G_disj {nb memo lex hf}.
#[local] Arguments G_bound {nb memo lex hf}.
#[local] Arguments G_pos {nb memo lex hf}.
#[local] Arguments G_marked_known {nb memo lex hf}.
#[local] Arguments G_ret_marked {nb memo lex hf}.
#[local] Arguments G_closed {nb memo lex hf}.
#[local] Arguments G_hash {nb memo lex hf}.
#[local] Arguments G_abs_nodup {nb memo lex hf}.
#[local] Arguments G_abs {nb memo lex hf}.
#[local] Arguments G_fold {nb memo lex hf}.
#[local] Arguments G_lins {nb memo lex hf}.
#[local] Arguments G_ldel {nb memo lex hf}.
#[local] Arguments G_lins_nodup {nb memo lex hf}.
#[local] Arguments G_ldel_nodup {nb memo lex hf}.
#[local] Arguments G_marked_del {nb memo lex hf}.
#[local] Arguments G_known_ins {nb memo lex hf}.
#[local] Arguments M_known {nb memo lex hf}.
#[local] Arguments M_key {nb memo lex hf}.
#[local] Arguments M_mark {nb memo lex hf}.
#[local] Arguments M_alloc {nb memo lex hf}.
#[local] Arguments M_fresh {nb memo lex hf}.
#[local] Arguments M_pre {nb memo lex hf}.

Lemma nth_error_app_old {X} (l l' : list X) j x : (j < length l)%nat -> nth_error (l ++ l') j = Some x -> nth_error l j = Some x.
Proof. intros H E. rewrite nth_error_app1 in E by exact H. exact E. Qed.
Lemma nth_error_app_keep {X} (l l' : list X) j x : nth_error l j = Some x -> nth_error (l ++ l') j = Some x.
Proof. intros E. rewrite nth_error_app1; [exact E|]. apply nth_error_Some. congruence. Qed.
Lemma list_last_cases {X} (l : list X) : l = [] \/ exists l0 x, l = l0 ++ [x].
Proof. induction l using rev_ind; [left; reflexivity | right; eauto]. Qed.

Section It.
  Variable nb : N.
  Variable memo : bool.
  Variable lex : bool.
  Variable hf : N -> N.

  Notation bucket_of := (bucket_of nb hf).
  Notation nh := (nh memo hf).
  Notation gef := (gef memo lex).
  Notation step := (step nb memo lex hf).
  Notation step0 := (step0 nb memo lex hf).
  Notation init := (init nb).
  Notation G := (@HmmInv.G nb memo lex hf).
  Notation IT0 := (@HmmInv.IT0 nb memo lex hf).
  Notation Inv := (@HmmInv.Inv nb memo lex hf).
  Notation R := (@HmmInv.R memo lex hf).
  Notation T := (@HmmInv.T nb memo lex hf).
  Notation Tw := (@HmmInv.Tw nb memo lex hf).
  Notation bk := (@HmmInv.bk nb hf).
  Notation cont_ok := (@HmmInv.cont_ok nb hf).
  Notation ext := (@HmmInv.ext nb memo lex hf).
  Notation fcom := (@HmmInv.fcom nb hf).
  Notation fresh := (@HmmInv.fresh nb hf).
  Notation in_call := (@HmmInv.in_call nb memo lex hf).
  Notation known := (@HmmInv.known nb hf).
  Notation le2 := (@HmmInv.le2 memo lex hf).
  Notation mono := (@HmmInv.mono nb memo lex hf).
  Notation oknode := (@HmmInv.oknode nb hf).
  Notation oknx := (@HmmInv.oknx nb hf).
  Notation okprev := (@HmmInv.okprev nb memo lex hf).
  Notation okref := (@HmmInv.okref nb hf).
  Notation pre := (@HmmInv.pre memo lex).

  (** the ordering predicate is total: the one of the code (lexicographic), or no memoized hash *)
  Definition ord : Prop := lex = true \/ memo = false.

  Lemma le2_total m x y : ord -> le2 m x y = true \/ le2 m y x = true.
  Proof.
    unfold HmmInv.le2, HmmDefs.gef, HmmDefs.nh. intros [H | H]; rewrite H.
    - destruct memo; [|lia]. destruct (N.eqb_spec (nhash m y) (nhash m x)), (N.eqb_spec (nhash m x) (nhash m y)); lia.
    - lia.
  Qed.

  (** nodes that are or were linked *)
  Definition kn (m : mem) (x : N) : Prop := In x (chain m (bk m x)) \/ In x (g_retired m).

  Lemma kn_known m cs x : G m cs -> (kn m x <-> known m cs x).
  Proof. intros HG. unfold kn, HmmInv.known. rewrite (chain_eq _ _ (bk m x) HG). tauto. Qed.

  (** a recorded position of the iterator *)
  Definition yok (m : mem) (y : yrec) : Prop :=
    y_node y <> 0 /\ kn m (y_node y) /\ bk m (y_node y) = y_b y /\ nkey m (y_node y) = y_key y /\
    (y_lin y <= length (g_lin m))%nat /\
    (y_wit y = true \/
     exists j t' i, (j < y_lin y)%nat /\ nth_error (g_lin m) j = Some (LDel t' (y_key y) (y_node y) i)) /\
    (forall j t' v n, (j < y_lin y)%nat -> nth_error (g_lin m) j = Some (LIns t' (y_key y) v n) ->
       n = y_node y \/ nmark m n = true) /\
    (exists j t' v, (j < y_lin y)%nat /\ nth_error (g_lin m) j = Some (LIns t' (y_key y) v (y_node y))) /\
    y_reach y = true.

  (** two consecutive positions: a later bucket; or the same bucket and a node that is not [<=] the first one;
      or the same key carried by a different node that was linked after the first position was taken *)
  Definition ystep (m : mem) (y1 y2 : yrec) : Prop :=
    (y_lin y1 <= y_lin y2)%nat /\ (y_lin y2 <= length (g_lin m))%nat /\
    (y_b y1 < y_b y2 \/
     (y_b y1 = y_b y2 /\
      (le2 m (y_node y2) (y_node y1) = false \/
       (y_key y1 = y_key y2 /\ y_node y1 <> y_node y2 /\
        forall j t' v, nth_error (g_lin m) j = Some (LIns t' (y_key y2) v (y_node y2)) -> (y_lin y1 <= j)%nat)))).

  Inductive ychain (m : mem) : list yrec -> Prop :=
  | yc_nil : ychain m []
  | yc_one y : ychain m [y]
  | yc_snoc ys y1 y2 : ychain m (ys ++ [y1]) -> ystep m y1 y2 -> ychain m ((ys ++ [y1]) ++ [y2]).

  Definition is_itf (c : fk) : bool := match c with KItF => true | _ => false end.
  Definition is_itn (c : fk) : bool := match c with KItN _ | KItE _ => true | _ => false end.
  (** the thread is inside the call that starts the traversal (begin() / find(key)) *)
  Definition in_start (p : pc) : bool :=
    match p with
    | MB MBeg _ => true
    | F1 c _ _ _ _ | F2 c _ _ _ _ _ _ | F3 c _ _ _ _ _ _ | F4 c _ _ _ _ _ _ | F5 c _ _ _ _ _ _ _ | F6 c _ _ _ _ _ _ _ _ => is_itf c
    | _ => false
    end.

  (** [k] lies behind or at the position (bucket b, node cur) *)
  Definition behind (m : mem) (b cur k : N) : Prop :=
    bucket_of k < b \/ (bucket_of k = b /\ (cur = 0 \/ gef m (hf k) k cur = true)).

  Definition fit (i : itv) (c : fk) : Prop :=
    match c with KItF => g_yield i = [] /\ it_cur i = 0 /\ g_lo i <> None | _ => True end.

  (** [cur] (found by a find on behalf of operator++ / erase(iterator)) is not the node the iterator stands on, and
      if it carries the same key it was linked after the last position was recorded *)
  Definition newpos (m : mem) (i : itv) (cur : N) : Prop :=
    cur <> it_cur i /\
    (nkey m cur = nkey m (it_cur i) -> forall ys0 y j t' v, g_yield i = ys0 ++ [y] ->
       nth_error (g_lin m) j = Some (LIns t' (nkey m cur) v cur) -> (y_lin y <= j)%nat).

  Definition yielded (i : itv) (k : N) : Prop := In k (map y_key (g_yield i)).

  Definition ITp (m : mem) (i : itv) (p : pc) : Prop :=
    match p with
    | MB c b =>
      match c with MBeg => g_yield i = [] | _ => it_cur i <> 0 /\ it_b i < b end /\
      (ord -> g_trav i = true -> g_lo i = None -> forall k, In k (g_always i) -> bucket_of k < b -> yielded i k)
    | F1 c _ _ _ _ | F2 c _ _ _ _ _ _ | F3 c _ _ _ _ _ _ | F4 c _ _ _ _ _ _ | F5 c _ _ _ _ _ _ _ => fit i c
    | F6 c _ _ _ _ _ cur _ w => fit i c /\ w = true /\ (is_itn c = true -> newpos m i cur /\ kn m cur /\ it_cur i <> 0)
    | _ => True
    end.

  Record IT (st : state) (t : nat) : Prop := mkIT {
    IT_last : it_cur (its st t) <> 0 ->
              exists ys0 y, g_yield (its st t) = ys0 ++ [y] /\ y_node y = it_cur (its st t) /\ y_b y = it_b (its st t);
    IT_yok : forall y, In y (g_yield (its st t)) -> yok (sm st) y;
    IT_chain : ychain (sm st) (g_yield (its st t));
    IT_compl : ord -> g_trav (its st t) = true -> g_lo (its st t) = None -> in_start (th st t) = false ->
               forall k, In k (g_always (its st t)) -> behind (sm st) (it_b (its st t)) (it_cur (its st t)) k ->
                 yielded (its st t) k;
    IT_atend : g_trav (its st t) = true -> in_start (th st t) = false -> it_cur (its st t) = 0 -> nb <= it_b (its st t) + 1;
    IT_pc : ITp (sm st) (its st t) (th st t) }.

  Definition Ainv (st : state) : Prop := forall t k, In k (g_always (its st t)) -> In k (keys (g_abs (sm st))).

  Definition Y (st : state) : Prop := Ainv st /\ forall t, IT st t.

  (** ** stability *)

  Section Stable.
    Variables (m : mem) (cs : N -> list N) (m' : mem) (cs' : N -> list N) (l : list lev).
    Hypothesis HG : G m cs.
    Hypothesis HE : ext m cs m' cs' l.

    Let HG' : G m' cs' := proj1 HE.
    Let Elin : g_lin m' = g_lin m ++ l := proj1 (proj2 (proj2 HE)).

    Lemma sx_kn x : kn m x -> kn m' x /\ nkey m' x = nkey m x /\ nhash m' x = nhash m x /\ bk m' x = bk m x.
    Proof.
      intros Hk. apply (kn_known _ _ _ HG) in Hk. destruct (proj1 (proj2 HE)) as [sp HM].
      split; [apply (kn_known _ _ _ HG'); apply (M_known _ _ _ _ _ HM); exact Hk|].
      destruct (st_key _ _ _ _ _ HG HM _ Hk) as (H1 & _ & H3). split; [exact H1|]. split; [exact H3|]. exact (st_bk _ _ _ _ _ HG HM _ Hk).
    Qed.
    Lemma sx_mark x : nmark m x = true -> nmark m' x = true.
    Proof. intros H. destruct (proj1 (proj2 HE)) as [sp HM]. exact (proj1 (M_mark _ _ _ _ _ HM x H)). Qed.
    Lemma sx_len : (length (g_lin m) <= length (g_lin m'))%nat.
    Proof. rewrite Elin, app_length. lia. Qed.
    Lemma sx_le2 x y : kn m x -> kn m y -> le2 m' x y = le2 m x y.
    Proof.
      intros Hx Hy. destruct (sx_kn x Hx) as (_ & H1 & H2 & _). destruct (sx_kn y Hy) as (_ & H3 & H4 & _).
      unfold HmmInv.le2. rewrite (nh_frame m m' x H1 H2), H1. apply gef_frame; assumption.
    Qed.

    Lemma sx_yok y : yok m y -> yok m' y.
    Proof.
      intros (H0 & H1 & H2 & H3 & H4 & H5 & H6 & H7 & H8). destruct (sx_kn _ H1) as (K1 & K2 & _ & K4).
      split; [exact H0|]. split; [exact K1|]. split; [congruence|]. split; [congruence|].
      split; [pose proof sx_len; lia|]. split; [|split; [|split; [|exact H8]]].
      - destruct H5 as [H5 | (j & t' & i & Hj & Hn)]; [left; exact H5 | right]. exists j, t', i. split; [exact Hj|].
        rewrite Elin. apply nth_error_app_keep. exact Hn.
      - intros j t' v n Hj Hn. rewrite Elin in Hn. apply nth_error_app_old in Hn; [|lia].
        destruct (H6 j t' v n Hj Hn) as [H | H]; [left; exact H | right; apply sx_mark; exact H].
      - destruct H7 as (j & t' & v & Hj & Hn). exists j, t', v. split; [exact Hj|]. rewrite Elin. apply nth_error_app_keep. exact Hn.
    Qed.

    Lemma sx_ystep y1 y2 : yok m y1 -> yok m y2 -> ystep m y1 y2 -> ystep m' y1 y2.
    Proof.
      intros Hy1 Hy2 (H1 & H2 & H3). split; [exact H1|]. split; [pose proof sx_len; lia|].
      destruct H3 as [H3 | (H3 & H4)]; [left; exact H3 | right]. split; [exact H3|].
      destruct H4 as [H4 | (H4 & H5 & H6)]; [left | right].
      - rewrite sx_le2; [exact H4 | exact (proj1 (proj2 Hy2)) | exact (proj1 (proj2 Hy1))].
      - split; [exact H4|]. split; [exact H5|].
        intros j t' v Hn. rewrite Elin in Hn. destruct (Nat.lt_ge_cases j (length (g_lin m))) as [Hlt | Hge].
        + apply nth_error_app_old in Hn; [|exact Hlt]. exact (H6 j t' v Hn).
        + lia.
    Qed.

    Lemma sx_ychain ys : (forall y, In y ys -> yok m y) -> ychain m ys -> ychain m' ys.
    Proof.
      intros Hall H. induction H as [|y|ys y1 y2 Hc IH Hs]; [constructor | constructor|].
      constructor; [apply IH; intros y Hy; apply Hall; apply in_or_app; left; exact Hy|].
      apply sx_ystep; [| |exact Hs]; apply Hall; rewrite !in_app_iff; cbn [In]; auto.
    Qed.
  End Stable.

  Definition same_it (i i' : itv) : Prop :=
    it_b i' = it_b i /\ it_sv i' = it_sv i /\ it_cur i' = it_cur i /\ g_yield i' = g_yield i /\
    g_lo i' = g_lo i /\ g_trav i' = g_trav i /\ (forall k, In k (g_always i') -> In k (g_always i)).

  Lemma same_it_refl i : same_it i i.
  Proof. unfold same_it. auto 10. Qed.

  Lemma last_yield st t : IT st t -> it_cur (its st t) <> 0 -> forall ys0 y, g_yield (its st t) = ys0 ++ [y] ->
    y_node y = it_cur (its st t) /\ y_b y = it_b (its st t) /\ yok (sm st) y.
  Proof.
    intros HI Hnz ys0 y E. destruct (IT_last _ _ HI Hnz) as (ys1 & y1 & E1 & Hn & Hb). rewrite E in E1.
    apply app_inj_tail in E1. destruct E1 as [_ <-].
    split; [exact Hn|]. split; [exact Hb|]. apply (IT_yok _ _ HI). rewrite E. apply in_or_app. right. left. reflexivity.
  Qed.

  Lemma cur_kn st t : IT st t -> it_cur (its st t) <> 0 -> kn (sm st) (it_cur (its st t)).
  Proof.
    intros HI Hnz. destruct (IT_last _ _ HI Hnz) as (ys0 & y & E & _). destruct (last_yield st t HI Hnz ys0 y E) as (Hn & _ & Hy).
    rewrite <- Hn. exact (proj1 (proj2 Hy)).
  Qed.

  Lemma fit_same i i' c : same_it i i' -> fit i c -> fit i' c.
  Proof. intros (_ & _ & E3 & E4 & E5 & _) H. destruct c; cbn [fit] in *; try exact I. rewrite E3, E4, E5. exact H. Qed.

  Lemma ITp_stable m cs m' cs' l i i' p : G m cs -> ext m cs m' cs' l -> same_it i i' ->
    (it_cur i <> 0 -> kn m (it_cur i)) -> (forall y, In y (g_yield i) -> yok m y) ->
    ITp m i p -> ITp m' i' p.
  Proof.
    intros HG HE Hs Hcur Hyok Hp. pose proof Hs as (E1 & E2 & E3 & E4 & E5 & E6 & HA).
    destruct p; cbn [ITp] in *; try exact I; try (eapply fit_same; eassumption).
    - (* F6 *) destruct Hp as (Hp1 & Hw & Hp2). split; [eapply fit_same; eassumption|]. split; [exact Hw|]. intros Hc.
      destruct (Hp2 Hc) as ((Hn1 & Hn2) & Hkc & Hnz). rewrite E3.
      destruct (sx_kn _ _ _ _ _ HG HE _ Hkc) as (K0 & K1 & _). destruct (sx_kn _ _ _ _ _ HG HE _ (Hcur Hnz)) as (_ & K2 & _).
      split; [|split; [exact K0 | exact Hnz]]. unfold newpos. rewrite E3, E4. split; [exact Hn1|].
      rewrite K1, K2. intros Hk1 ys0 y j t' v Ey Hn. rewrite (proj1 (proj2 (proj2 HE))) in Hn.
      destruct (Nat.lt_ge_cases j (length (g_lin m))) as [Hlt | Hge].
      + apply nth_error_app_old in Hn; [|exact Hlt]. exact (Hn2 Hk1 ys0 y j t' v Ey Hn).
      + assert (Hy : yok m y) by (apply Hyok; rewrite Ey; apply in_or_app; right; left; reflexivity).
        destruct Hy as (_ & _ & _ & _ & Hy & _). lia.
    - (* MB *) destruct Hp as [Hp1 Hp2]. unfold yielded in *. rewrite E3, E1, E4, E5, E6. split; [exact Hp1|].
      intros Ho Ht Hl k Hk0 Hb. apply Hp2; auto.
  Qed.

  (** the memory changes by [ext], the program point of thread t goes from [th st t] to [th st' t] (possibly the
      same), its iterator variable stays *)
  Lemma IT_step st st' cs cs' l t :
    G (sm st) cs -> ext (sm st) cs (sm st') cs' l -> same_it (its st t) (its st' t) ->
    ITp (sm st') (its st' t) (th st' t) ->
    (in_start (th st' t) = true \/ in_start (th st' t) = in_start (th st t)) ->
    IT st t -> IT st' t.
  Proof.
    intros HG HE (E1 & E2 & E3 & E4 & E5 & E6 & HA) Hp Hs HI.
    pose proof HI as [H1 H2 H3 H4 H4e H5].
    assert (Hcur : it_cur (its st t) <> 0 -> kn (sm st) (it_cur (its st t))) by (apply cur_kn; exact HI).
    constructor; rewrite ?E1, ?E2, ?E3, ?E4, ?E5, ?E6.
    - exact H1.
    - intros y Hy. eapply sx_yok; [exact HG | exact HE | apply H2; exact Hy].
    - eapply sx_ychain; [exact HG | exact HE | exact H2 | exact H3].
    - intros Ho Ht Hl Hs' k Hk Hbe. unfold yielded. rewrite E4. apply (H4 Ho Ht Hl); [|apply HA; exact Hk|].
      + destruct Hs as [Hs | Hs]; congruence.
      + destruct Hbe as [Hbe | [Hb Hbe]]; [left; exact Hbe | right]. split; [exact Hb|].
        destruct Hbe as [Hz | Hge]; [left; exact Hz|]. destruct (N.eq_dec (it_cur (its st t)) 0) as [Hz|Hnz]; [left; exact Hz | right].
        destruct (sx_kn _ _ _ _ _ HG HE _ (Hcur Hnz)) as (_ & K1 & K2 & _). rewrite <- Hge. symmetry. apply gef_frame; assumption.
    - intros Ht Hs' Hc. apply (H4e Ht); [destruct Hs as [Hs | Hs]; congruence | exact Hc].
    - exact Hp.
  Qed.

  (** a thread that does not move *)
  Lemma IT_other st st' cs cs' l u :
    G (sm st) cs -> ext (sm st) cs (sm st') cs' l -> same_it (its st u) (its st' u) -> th st' u = th st u ->
    IT st u -> IT st' u.
  Proof.
    intros HG HE Hs Eth HI. eapply IT_step; try eassumption; [|right; rewrite Eth; reflexivity].
    rewrite Eth. eapply ITp_stable; try eassumption; [apply cur_kn; exact HI | exact (IT_yok _ _ HI) | exact (IT_pc _ _ HI)].
  Qed.

  (** ** landing of an iterator *)

  Lemma in_del_nodes_nth l x : In x (del_nodes l) -> exists j t k i, (j < length l)%nat /\ nth_error l j = Some (LDel t k x i).
  Proof.
    intros H. apply del_nodes_in in H. destruct H as (t & k & i & H). apply In_nth_error in H. destruct H as [j Hj].
    exists j, t, k, i. split; [apply nth_error_Some; congruence | exact Hj].
  Qed.

  Lemma reachable_chain m cs b x : G m cs -> (reachable m b x = true <-> In x (cs b)).
  Proof. intros HG. unfold reachable. rewrite memb_true, (chain_eq _ _ b HG). tauto. Qed.

  Lemma push_y_nz m ys b cur w : cur <> 0 ->
    push_y m ys b cur w = ys ++ [mkY b (nkey m cur) cur w (reachable m b cur) (length (g_lin m))].
  Proof. intros H. unfold push_y. destruct (N.eqb_spec cur 0); [contradiction | reflexivity]. Qed.

  Lemma land_yok m cs b sv cur w : G m cs -> In sv (0 :: cs b) -> pnext m b sv = cur -> cur <> 0 ->
    (w = true \/ w = memk (nkey m cur) (g_abs m)) ->
    In cur (cs b) /\ yok m (mkY b (nkey m cur) cur w (reachable m b cur) (length (g_lin m))).
  Proof.
    intros HG Hsv Hn Hnz Hw.
    assert (Hc : In cur (cs b)) by (rewrite <- Hn; apply (chain_next_in m cs b sv HG Hsv); congruence).
    assert (Hbk : bk m cur = b) by exact (G_bk _ _ HG _ _ Hc).
    assert (Hk : known m cs cur) by exact (known_chain m cs b cur HG Hc).
    split; [exact Hc|]. unfold yok. cbn [y_key y_node y_wit y_lin y_reach y_b].
    split; [exact Hnz|]. split; [apply (kn_known _ _ _ HG); exact Hk|]. split; [exact Hbk|]. split; [reflexivity|].
    split; [lia|]. split; [|split; [|split]].
    - destruct (nmark m cur) eqn:Hm.
      + right. destruct (in_del_nodes_nth _ _ (G_marked_del _ _ HG _ Hm)) as (j & t' & k & i & Hj & Hnth). exists j, t', i. split; [exact Hj|].
        assert (k = nkey m cur). { symmetry. apply (proj2 (G_ldel _ _ HG t' k cur i (nth_error_In _ _ Hnth))). }
        subst k. exact Hnth.
      + left. destruct Hw as [-> | ->]; [reflexivity|]. apply memk_true. apply in_keys. exists (nval m cur).
        apply (abs_in m cs cur HG); [rewrite Hbk; exact Hc | exact Hm].
    - intros j t' v n Hj Hnth. apply nth_error_In in Hnth. destruct (G_lins _ _ HG _ _ _ _ Hnth) as (Hkn & Hkey & _).
      destruct (nmark m n) eqn:Hm; [right; reflexivity | left].
      assert (Hbn : bk m n = b) by (unfold HmmInv.bk in *; rewrite Hkey; exact Hbk).
      apply (chain_key_inj m cs b n cur HG); [| exact Hc | exact Hkey].
      rewrite <- Hbn. exact (unmarked_in_chain m cs n HG Hkn Hm).
    - pose proof (G_known_ins _ _ HG cur Hk) as Hi. apply ins_nodes_in in Hi. destruct Hi as (t' & k & v & Hi).
      assert (k = nkey m cur) by (symmetry; exact (proj1 (proj2 (G_lins _ _ HG _ _ _ _ Hi)))). subst k.
      apply In_nth_error in Hi. destruct Hi as [j Hj]. exists j, t', v. split; [apply nth_error_Some; congruence | exact Hj].
    - apply (reachable_chain m cs); assumption.
  Qed.

  (** the chain of bucket [b] ends at [sv] *)
  Lemma bucket_done m cs b sv : G m cs -> In sv (0 :: cs b) -> pnext m b sv = 0 ->
    forall x, In x (cs b) -> In x (upto sv (0 :: cs b)).
  Proof.
    intros HG Hsv Hn x Hx. destruct (chain_split m cs b sv HG Hsv) as (c1 & c2 & E & Hn' & _ & _ & _ & _ & _ & HR2 & _ & Hsv1 & _).
    rewrite Hn in Hn'. destruct c2 as [|y r]; [|cbn [hd] in Hn'; exfalso; destruct (HR2 y (or_introl eq_refl)) as [Hy _]; congruence].
    rewrite E, (upto_app_notin _ _ _ Hsv1). cbn [upto]. rewrite N.eqb_refl. rewrite <- E. right. exact Hx.
  Qed.

  (** [k] lies behind or at the successor [cur] of [sv]: its node is in the prefix up to [sv], or it is [cur] *)
  Lemma behind_cases m cs b sv cur k x : G m cs -> In sv (0 :: cs b) -> pnext m b sv = cur -> cur <> 0 ->
    In x (cs b) -> nkey m x = k -> gef m (hf k) k cur = true -> In x (upto sv (0 :: cs b)) \/ x = cur.
  Proof.
    intros HG Hsv Hn Hnz Hx Hk Hge.
    destruct (chain_split m cs b sv HG Hsv) as (c1 & c2 & E & Hn' & _ & _ & _ & HS2 & _ & HR2 & _ & Hsv1 & _).
    rewrite Hn in Hn'. destruct c2 as [|y r]; cbn [hd] in Hn'; [contradiction|]. subst y.
    assert (Hx' : In x (c1 ++ sv :: cur :: r)) by (rewrite <- E; right; exact Hx).
    rewrite E, (upto_app_notin _ _ _ Hsv1). cbn [upto]. rewrite N.eqb_refl.
    apply in_app_or in Hx'. destruct Hx' as [Hx' | [Hx' | [Hx' | Hx']]].
    - left. apply in_or_app. left. exact Hx'.
    - left. apply in_or_app. right. left. exact Hx'.
    - right. symmetry. exact Hx'.
    - exfalso. apply SS_cons_inv in HS2. destruct HS2 as [_ HS2]. destruct (HS2 _ Hx') as [_ [H0 | Hlt]]; [contradiction|].
      assert (Hxnz : x <> 0) by exact (chain_nz m cs b x HG Hx).
      unfold HmmInv.le2 in Hlt. rewrite (nh_hash m cs x HG Hxnz (chain_bound m cs b x HG Hx)), Hk, Hge in Hlt. discriminate.
  Qed.

  Section Land.
    Variables (st : state) (cs : N -> list N) (t : nat) (b sv cur : N) (w : bool).
    Hypothesis HG : G (sm st) cs.
    Hypothesis HA : forall k, In k (g_always (its st t)) -> In k (keys (g_abs (sm st))).
    Hypothesis HI : IT st t.
    Hypothesis Hsv : In sv (0 :: cs b).
    Hypothesis Hn : pnext (sm st) b sv = cur.
    (** the keys of the earlier buckets and of the prefix up to [sv] have been yielded *)
    Hypothesis Hlow : ord -> g_trav (its st t) = true -> g_lo (its st t) = None ->
      forall k, In k (g_always (its st t)) ->
        (bucket_of k < b \/ (bucket_of k = b /\ exists x, In x (upto sv (0 :: cs b)) /\ x <> 0 /\ nkey (sm st) x = k)) ->
        yielded (its st t) k.

    Let m := sm st.
    Let i := its st t.

    (** every key of [g_always] in bucket b has a node in the chain *)
    Lemma always_node k : In k (g_always i) -> bucket_of k = b -> exists x, In x (cs b) /\ nkey m x = k.
    Proof.
      intros Hk Hb. apply HA in Hk. apply in_keys in Hk. destruct Hk as (v & Hk). apply (G_abs _ _ HG) in Hk.
      destruct Hk as (x & H1 & _ & H3 & _). exists x. rewrite <- Hb. auto.
    Qed.

    Lemma land_bucket_done : cur = 0 -> ord -> g_trav i = true -> g_lo i = None ->
      forall k, In k (g_always i) -> bucket_of k < b + 1 -> yielded i k.
    Proof.
      intros Hz Ho Ht Hl k Hk Hb. apply (Hlow Ho Ht Hl k Hk). destruct (N.lt_ge_cases (bucket_of k) b) as [Hlt | Hge]; [left; exact Hlt | right].
      assert (Hbe : bucket_of k = b) by lia. split; [exact Hbe|]. destruct (always_node k Hk Hbe) as (x & Hx & Hkx).
      exists x. split; [apply (bucket_done m cs b sv HG Hsv); [unfold m; rewrite Hn; exact Hz | exact Hx]|]. split; [exact (chain_nz m cs b x HG Hx) | exact Hkx].
    Qed.

    (** the iterator operation returns at end(): bucket b was the last one *)
    Lemma IT_land_end : cur = 0 -> (b + 1 <? nb) = false -> IT (move_it st t b 0 0 w) t.
    Proof.
      intros Hz Hlast. pose proof HI as [H1 H2 H3 H4 H4e H5].
      constructor; cbn [move_it sm th its it_b it_sv it_cur g_yield g_lo g_trav g_always]; rewrite ?upd_same;
        cbn [it_b it_sv it_cur g_yield g_lo g_trav g_always push_y N.eqb]; fold i.
      - intros H. contradiction.
      - exact H2.
      - exact H3.
      - intros Ho Ht Hl _ k Hk [Hb | [Hb _]]; apply (land_bucket_done Hz Ho Ht Hl k Hk); lia.
      - intros _ _ _. apply N.ltb_ge in Hlast. exact Hlast.
      - exact I.
    Qed.

    (** the iterator operation goes on with bucket b + 1 *)
    Lemma IT_land_next c : cur = 0 ->
      match c with MBeg => g_yield i = [] | _ => it_cur i <> 0 /\ it_b i <= b /\ in_start (th st t) = false end ->
      IT (set_pc st t (MB c (b + 1))) t.
    Proof.
      intros Hz Hc. pose proof HI as [H1 H2 H3 H4 H4e H5].
      constructor; cbn [set_pc sm th its]; rewrite ?upd_same; fold i; try assumption.
      - intros Ho Ht Hl Hs. destruct c; cbn [in_start] in Hs; [discriminate | |]; apply (H4 Ho Ht Hl); exact (proj2 (proj2 Hc)).
      - intros Ht Hs Hcz. destruct c; cbn [in_start] in Hs; [discriminate | |]; exfalso; exact (proj1 Hc Hcz).
      - cbn [ITp]. fold i. split; [destruct c; [exact Hc | |]; (split; [exact (proj1 Hc) | pose proof (proj1 (proj2 Hc)); lia])|].
        intros Ho Ht Hl k Hk Hb. exact (land_bucket_done Hz Ho Ht Hl k Hk Hb).
    Qed.

    (** the iterator operation returns with the iterator on [cur] *)
    Lemma IT_land_node : cur <> 0 ->
      (w = true \/ w = memk (nkey m cur) (g_abs m)) ->
      (forall ys0 y, g_yield i = ys0 ++ [y] ->
         y_b y < b \/
         (y_b y = b /\ (le2 m cur (y_node y) = false \/
            (y_key y = nkey m cur /\ y_node y <> cur /\
             forall j t' v, nth_error (g_lin m) j = Some (LIns t' (nkey m cur) v cur) -> (y_lin y <= j)%nat)))) ->
      IT (move_it st t b sv cur w) t.
    Proof.
      intros Hnz Hw Hrel. pose proof HI as [H1 H2 H3 H4 H4e H5].
      destruct (land_yok m cs b sv cur w HG Hsv Hn Hnz Hw) as [Hc Hynew].
      constructor; cbn [move_it sm th its it_b it_sv it_cur g_yield g_lo g_trav g_always]; rewrite ?upd_same;
        cbn [it_b it_sv it_cur g_yield g_lo g_trav g_always]; fold i m; rewrite ?(push_y_nz m _ b cur w Hnz).
      - intros _. eexists _, _. split; [reflexivity|]. split; reflexivity.
      - intros y Hy. apply in_app_or in Hy. destruct Hy as [Hy | [<- | []]]; [apply H2; exact Hy | exact Hynew].
      - destruct (list_last_cases (g_yield i)) as [E | (ys0 & y & E)].
        + rewrite E. constructor.
        + rewrite E. constructor; [rewrite <- E; exact H3|]. unfold ystep. cbn [y_key y_node y_lin y_b].
          assert (Hy : yok m y) by (apply H2; fold i; rewrite E; apply in_or_app; right; left; reflexivity).
          split; [exact (proj1 (proj2 (proj2 (proj2 (proj2 Hy)))))|]. split; [lia|]. exact (Hrel ys0 y E).
      - intros Ho Ht Hl _ k Hk Hbe. unfold yielded. cbn [g_yield]. rewrite map_app. apply in_or_app.
        destruct Hbe as [Hb | [Hb [Hz | Hge]]]; [left; apply (Hlow Ho Ht Hl k Hk); left; exact Hb | contradiction|].
        destruct (always_node k Hk Hb) as (x & Hx & Hkx).
        destruct (behind_cases m cs b sv cur k x HG Hsv Hn Hnz Hx Hkx Hge) as [Hpre | ->].
        * left. apply (Hlow Ho Ht Hl k Hk). right. split; [exact Hb|]. exists x. split; [exact Hpre|]. split; [exact (chain_nz m cs b x HG Hx) | exact Hkx].
        * right. left. exact Hkx.
      - intros _ _ Hcz. contradiction.
      - exact I.
    Qed.
  End Land.

  (** ** one step *)

  Ltac step0_cases Hst s :=
    unfold HmmDefs.step0 in Hst;
    match type of Hst with
    | context [match ?a with Start _ _ => _ | Step _ => _ end] => destruct a as [?t ?o | ?t]
    end;
    match type of Hst with
    | context [th s ?t] =>
      destruct (th s t) as [|?o|?c ?b ?h ?key ?start|?c ?b ?h ?key ?start ?sv ?nx|?c ?b ?h ?key ?start ?sv ?cur
                            |?c ?b ?h ?key ?start ?sv ?cur|?c ?b ?h ?key ?start ?sv ?cur ?nx|?c ?b ?h ?key ?start ?sv ?cur ?nx ?w
                            |?g ?n ?v ?b ?h ?key ?sv ?cur|?g ?n ?v ?b ?h ?key ?sv ?cur|?b ?h ?key ?sv ?cur ?nx|?b ?h ?key ?sv ?cur ?nx
                            |?c ?b| |?nx| |?nx|?nx] eqn:?E
    end;
    cbv beta iota zeta in Hst; try discriminate Hst;
    try match type of Hst with context [match ?o with OIns _ _ => _ | _ => _ end] => destruct o end;
    unfold find_ret, it_land in Hst;
    repeat match type of Hst with
    | context [if ?b then _ else _] => destruct b eqn:?Hc
    | context [match ?k with KIns _ _ => _ | _ => _ end] => destruct k
    end;
    injection Hst as <- <-.

  Ltac sprj := cbn [sm th its g_lp g_hist set_pc set_pc_lp set_mem ret_st move_it start_trav end_trav add_hist
                    HmmDefs.end_trav it_b it_sv it_cur g_yield g_lo g_trav g_start g_always].

  Definition actor (a : action) : nat := match a with Start t _ | Step t => t end.

  Lemma step0_others s a s1 es u : step0 s a = Some (s1, es) -> u <> actor a -> th s1 u = th s u /\ its s1 u = its s u.
  Proof.
    intros Hst Hne. step0_cases Hst s; cbn [actor] in Hne; sprj; rewrite ?upd_other by exact Hne; split; reflexivity.
  Qed.

  Lemma upto_before m cs b sv x : G m cs -> In sv (0 :: cs b) -> In x (upto sv (0 :: cs b)) -> x = sv \/ R m x sv.
  Proof.
    intros HG Hsv Hx. destruct (chain_split m cs b sv HG Hsv) as (c1 & c2 & E & _ & _ & _ & _ & _ & HR1 & _ & _ & Hsv1 & _).
    rewrite E, (upto_app_notin _ _ _ Hsv1) in Hx. cbn [upto] in Hx. rewrite N.eqb_refl in Hx.
    apply in_app_or in Hx. destruct Hx as [Hx | [Hx | []]]; [right; apply HR1; exact Hx | left; symmetry; exact Hx].
  Qed.

  (** by totality, a node of the prefix that is below (h, k) = the pair of node [o] is [<=] o *)
  Lemma below_le m cs x o k : G m cs -> ord -> known m cs x -> o <> 0 -> o < nalloc m -> nkey m x = k ->
    gef m (nh m o) (nkey m o) x = false -> gef m (hf k) k o = true.
  Proof.
    intros HG Ho Hk Honz Holt Hkx Hf.
    assert (Hxnz : x <> 0) by exact (known_nz m cs x HG Hk).
    assert (Hxlt : x < nalloc m) by exact (G_bound _ _ HG x Hk).
    destruct (le2_total m x o Ho) as [H | H]; [|unfold HmmInv.le2 in H; rewrite Hf in H; discriminate].
    unfold HmmInv.le2 in H. rewrite (nh_hash m cs x HG Hxnz Hxlt), Hkx in H. exact H.
  Qed.

  Lemma it_land_Y st cs t c b sv cur w e st' es :
    G (sm st) cs -> (forall k, In k (g_always (its st t)) -> In k (keys (g_abs (sm st)))) -> IT st t ->
    In sv (0 :: cs b) -> pnext (sm st) b sv = cur ->
    (ord -> g_trav (its st t) = true -> g_lo (its st t) = None ->
      forall k, In k (g_always (its st t)) ->
        (bucket_of k < b \/ (bucket_of k = b /\ exists x, In x (upto sv (0 :: cs b)) /\ x <> 0 /\ nkey (sm st) x = k)) ->
        yielded (its st t) k) ->
    (cur <> 0 ->
      (w = true \/ w = memk (nkey (sm st) cur) (g_abs (sm st))) /\
      (forall ys0 y, g_yield (its st t) = ys0 ++ [y] ->
         y_b y < b \/
         (y_b y = b /\ (le2 (sm st) cur (y_node y) = false \/
            (y_key y = nkey (sm st) cur /\ y_node y <> cur /\
             forall j t' v, nth_error (g_lin (sm st)) j = Some (LIns t' (nkey (sm st) cur) v cur) -> (y_lin y <= j)%nat))))) ->
    match c with MBeg => g_yield (its st t) = [] | _ => it_cur (its st t) <> 0 /\ it_b (its st t) <= b /\ in_start (th st t) = false end ->
    it_land nb st t c b sv cur w e = Some (st', es) -> IT st' t.
  Proof.
    intros HG HA HI Hsv Hn Hlow Hnode Hc Hst. unfold it_land in Hst.
    destruct (N.eqb_spec cur 0) as [Hz|Hz]; [destruct (b + 1 <? nb) eqn:Hlast|]; injection Hst as <- <-.
    - eapply IT_land_next; eassumption.
    - eapply IT_land_end; eassumption.
    - destruct (Hnode Hz) as [Hw Hrel]. eapply IT_land_node; eassumption.
  Qed.

  (** the find of operator++ / erase(iterator) returns with info = (sv, cur) *)
  Lemma find_land_Y st cs t (c : fk) (mc : mk) o b h key sv cur w e st' es :
    G (sm st) cs -> (forall k, In k (g_always (its st t)) -> In k (keys (g_abs (sm st)))) -> IT st t ->
    (c = KItN o \/ c = KItE o) -> (mc = MNext \/ mc = MErase o) ->
    in_start (th st t) = false ->
    fcom (sm st) cs (g_lp st t) (it_b (its st t)) (it_cur (its st t)) c b h key ->
    IT0 (sm st) cs (it_b (its st t)) (it_sv (its st t)) (it_cur (its st t)) ->
    okprev (sm st) cs b h key sv -> valid (sm st) b sv cur = true ->
    (cur <> 0 -> gef (sm st) h key cur = true /\ w = true /\ newpos (sm st) (its st t) cur) ->
    it_land nb st t mc b sv cur w e = Some (st', es) -> IT st' t.
  Proof.
    intros HG HA HI Hc Hmc Hs (Hh & Hb & Hco) Hit0 Hsv Hv Hcur Hst.
    apply valid_true in Hv. destruct Hv as [Hn Hm].
    assert (Hsvc : In sv (0 :: cs b)) by exact (ref_in_chain (sm st) cs b sv HG (proj1 Hsv) Hm).
    assert (Hco' : it_cur (its st t) = o /\ o <> 0 /\ nmark (sm st) o = true /\ key = nkey (sm st) o /\ b = it_b (its st t))
      by (destruct Hc as [-> | ->]; exact Hco).
    destruct Hco' as (Eo & Honz & Hom & Ekey & Eb).
    assert (Hcz : it_cur (its st t) <> 0) by congruence.
    destruct (proj2 Hit0 Hcz) as [_ (_ & Hok & _)]. rewrite Eo in Hok.
    assert (Holt : o < nalloc (sm st)) by exact (G_bound _ _ HG o Hok).
    assert (Enh : nh (sm st) o = h) by (rewrite Hh, Ekey; exact (nh_hash (sm st) cs o HG Honz Holt)).
    eapply (it_land_Y st cs t mc b sv cur w); try eassumption.
    - (* prefix yielded *)
      intros Ho Ht Hl k Hk Hcase. apply (IT_compl _ _ HI Ho Ht Hl Hs k Hk). rewrite <- Eb, Eo.
      destruct Hcase as [Hlt | (Hbe & x & Hx & Hxnz & Hkx)]; [left; exact Hlt | right]. split; [exact Hbe | right].
      assert (Hxc : In x (cs b)) by (destruct (upto_incl _ _ _ Hx) as [H0 | H0]; [congruence | exact H0]).
      apply (below_le (sm st) cs x o k HG Ho (known_chain (sm st) cs b x HG Hxc) Honz Holt Hkx).
      rewrite Enh, <- Ekey. exact (proj2 Hsv Hsvc x Hx Hxnz).
    - (* the new position *)
      intros Hnz. destruct (Hcur Hnz) as (Hge & Hw & Hne & Hnp). split; [left; exact Hw|].
      intros ys0 y E. destruct (last_yield st t HI Hcz ys0 y E) as (Hyn & Hyb & Hyok). right. split; [congruence|].
      rewrite Hyn, Eo. destruct (le2 (sm st) cur o) eqn:Hle; [right | left; reflexivity].
      assert (Hk : nkey (sm st) cur = nkey (sm st) o).
      { apply (gef_antisym (sm st) cur o Hle). unfold HmmInv.le2. rewrite Enh, <- Ekey. exact Hge. }
      split; [rewrite <- (proj1 (proj2 (proj2 (proj2 Hyok)))), Hyn, Eo; symmetry; exact Hk|].
      split; [rewrite <- Eo; intros Hq; apply Hne; symmetry; exact Hq|].
      intros j t' v Hj. rewrite <- Eo in Hk. exact (Hnp Hk ys0 y j t' v E Hj).
    - destruct Hmc as [-> | ->]; (split; [exact Hcz | split; [rewrite Eb; apply N.le_refl | exact Hs]]).
  Qed.

  Lemma IT_start st t p lo : (p = MB MBeg 0 /\ lo = None) \/ (exists c b h k, p = F1 KItF b h k 0 /\ lo = Some c) ->
    IT (start_trav st t p lo) t.
  Proof.
    intros Hp. constructor; sprj; rewrite ?upd_same; sprj.
    - intros H. contradiction.
    - intros y [].
    - constructor.
    - intros _ _ _ Hs. destruct Hp as [[-> _] | (c & b & h & k & -> & _)]; discriminate Hs.
    - intros _ Hs. destruct Hp as [[-> _] | (c & b & h & k & -> & _)]; discriminate Hs.
    - destruct Hp as [[-> ->] | (c & b & h & k & -> & ->)]; cbn [ITp fit g_yield it_cur g_lo].
      + split; [reflexivity|]. intros _ _ _ k _ Hb. lia.
      + split; [reflexivity|]. split; [reflexivity | discriminate].
  Qed.

  Lemma IT_end st t : IT st t -> IT (end_trav nb st t) t.
  Proof.
    intros [H1 H2 H3 H4 H4e H5]. constructor; unfold HmmDefs.end_trav; sprj; rewrite ?upd_same; sprj; try assumption.
    - intros H. contradiction.
    - intros _ Ht. discriminate Ht.
    - intros Ht. discriminate Ht.
    - exact I.
  Qed.

  Lemma IT_eq st st' t : sm st' = sm st -> th st' t = th st t -> its st' t = its st t -> IT st t -> IT st' t.
  Proof. intros E1 E2 E3 [H1 H2 H3 H4 H4e H5]. constructor; rewrite ?E1, ?E2, ?E3; assumption. Qed.

  Ltac same_go s cs cs' l t HG HE HI E :=
    eapply (IT_step s _ cs cs' l t HG HE);
      [ sprj; rewrite ?upd_same; apply same_it_refl
      | sprj; rewrite ?upd_same; cbn [ITp]
      | sprj; rewrite ?upd_same; rewrite ?E; cbn [in_start is_itf]; auto
      | exact (HI t) ].

  Lemma Y_step0 s a s1 es : Inv s -> Y s -> step0 s a = Some (s1, es) -> forall u, IT s1 u.
  Proof.
    intros [cs (HG & HT & HU)] [HA HI] Hst u.
    destruct (step0_ext s a s1 es cs HG HT Hst) as (cs' & l & HE).
    destruct (Nat.eq_dec u (actor a)) as [->|Hne].
    2: { destruct (step0_others _ _ _ _ u Hst Hne) as [E1 E2].
         eapply IT_other; [exact HG | exact HE | rewrite E2; apply same_it_refl | exact E1 | apply HI]. }
    unfold HmmDefs.step0 in Hst. destruct a as [t o | t]; cbn [actor].
    - destruct (th s t) eqn:E; try discriminate. injection Hst as <- <-.
      same_go s cs cs' l t HG HE HI E. exact I.
    - destruct (HT t) as [Ht Hit]. pose proof (IT_pc _ _ (HI t)) as Hp.
      destruct (th s t) as [|o|c b h key start|c b h key start sv nx|c b h key start sv cur|c b h key start sv cur
                            |c b h key start sv cur nx|c b h key start sv cur nx w|g n v b h key sv cur|g n v b h key sv cur
                            |b h key sv cur nx|b h key sv cur nx|c b| |nx| |nx|nx] eqn:E;
        cbn [Tw] in Ht; cbn [ITp] in Hp; cbv beta iota zeta in Hst; try discriminate.
      + (* Begin *) clear Ht. destruct o as [k v|k v|k|k|k| |k| | | | ].
        * injection Hst as <- <-. same_go s cs cs' l t HG HE HI E. exact I.
        * injection Hst as <- <-. same_go s cs cs' l t HG HE HI E. exact I.
        * injection Hst as <- <-. same_go s cs cs' l t HG HE HI E. exact I.
        * injection Hst as <- <-. same_go s cs cs' l t HG HE HI E. exact I.
        * injection Hst as <- <-. same_go s cs cs' l t HG HE HI E. exact I.
        * injection Hst as <- <-. apply IT_start. left. auto.
        * injection Hst as <- <-. apply IT_start. right. eauto 8.
        * destruct (it_cur (its s t) =? 0); injection Hst as <- <-; same_go s cs cs' l t HG HE HI E; exact I.
        * injection Hst as <- <-. same_go s cs cs' l t HG HE HI E. exact I.
        * destruct (it_cur (its s t) =? 0); injection Hst as <- <-; same_go s cs cs' l t HG HE HI E; exact I.
        * injection Hst as <- <-. apply IT_end. apply HI.
      + (* F1 *) destruct (pmark (sm s) start); injection Hst as <- <-; same_go s cs cs' l t HG HE HI E; exact Hp.
      + (* F2 *) destruct Ht as (Hco & Hstart & Hsv & Hnxk).
        destruct (valid (sm s) b sv nx) eqn:Hc; cbn [negb] in Hst;
          [destruct (N.eqb_spec nx 0) as [Hz|Hz]|]; try (injection Hst as <- <-; same_go s cs cs' l t HG HE HI E; exact Hp).
        unfold find_ret in Hst. subst nx.
        destruct c as [n v|n v| | | | | |o|o]; try (destruct (n =? 0)); try (injection Hst as <- <-; same_go s cs cs' l t HG HE HI E; exact I).
        * (* KItF not found *) injection Hst as <- <-. apply (IT_eq (end_trav nb s t)); try reflexivity. apply IT_end. apply HI.
        * eapply (find_land_Y s cs t (KItN o) MNext o b h key sv 0); try eassumption; auto; [apply HA | rewrite E; reflexivity | intros Hq; contradiction].
        * eapply (find_land_Y s cs t (KItE o) (MErase o) o b h key sv 0); try eassumption; auto; [apply HA | rewrite E; reflexivity | intros Hq; contradiction].
      + (* F3 *) destruct Ht as (Hco & Hstart & Hsv & Hcur).
        destruct (nmark (sm s) cur) eqn:Hm; [injection Hst as <- <-; same_go s cs cs' l t HG HE HI E; exact Hp|].
        assert (Hcc : In cur (cs (bk (sm s) cur))) by exact (unmarked_in_chain (sm s) cs cur HG (proj1 (proj2 Hcur)) Hm).
        assert (HF6 : ITp (sm s) (its s t) (F6 c b h key start sv cur (nnext (sm s) cur) (memk (nkey (sm s) cur) (g_abs (sm s))))).
        { cbn [ITp]. split; [exact Hp|]. split.
          - apply memk_true. apply in_keys. exists (nval (sm s) cur). exact (abs_in (sm s) cs cur HG Hcc Hm).
          - intros Hitn. destruct Hco as (_ & _ & Hco).
            assert (Hco' : exists o, it_cur (its s t) = o /\ o <> 0 /\ nmark (sm s) o = true)
              by (destruct c; try discriminate Hitn; cbn [cont_ok] in Hco; destruct Hco as (H1 & H2 & H3 & _); eauto).
            destruct Hco' as (o & Eo & Honz & Hom). assert (Hcz : it_cur (its s t) <> 0) by congruence.
            split; [|split; [apply (kn_known _ _ _ HG); exact (proj1 (proj2 Hcur)) | exact Hcz]].
            split; [intros Hq; rewrite Hq, Eo in Hm; congruence|].
            intros Hk ys0 y j t' v Ey Hj. destruct (last_yield s t (HI t) Hcz ys0 y Ey) as (Hyn & _ & Hyok).
            destruct (Nat.lt_ge_cases j (y_lin y)) as [Hlt | Hge]; [exfalso | exact Hge].
            destruct Hyok as (_ & _ & _ & Hyk & _ & _ & Hy6 & _). rewrite Hyn in Hyk. rewrite Hk, Hyk in Hj.
            destruct (Hy6 j t' v cur Hlt Hj) as [Hq | Hq]; [rewrite Hyn, Eo in Hq; rewrite Hq, Hom in Hm; discriminate | congruence]. }
        destruct ((nkey (sm s) cur =? key) && negb (is_del2 c)); injection Hst as <- <-; same_go s cs cs' l t HG HE HI E; exact HF6.
      + (* F4 *) injection Hst as <- <-. same_go s cs cs' l t HG HE HI E. exact Hp.
      + (* F5 *) destruct (valid (sm s) b sv cur); injection Hst as <- <-; same_go s cs cs' l t HG HE HI E; exact Hp.
      + (* F6 *) destruct Ht as (Hco & Hstart & Hsv & Hcur & Hlp & Hnxk). destruct Hp as (Hfit & Hw & Hnp).
        destruct (valid (sm s) b sv cur) eqn:Hc; cbn [negb] in Hst;
          [destruct (gef (sm s) h key cur) eqn:Hge|]; try (injection Hst as <- <-; same_go s cs cs' l t HG HE HI E; exact Hfit).
        unfold find_ret in Hst.
        destruct c as [n v|n v| | | | | |o|o]; try (destruct (nkey (sm s) cur =? key)); try (destruct (n =? 0));
          try (injection Hst as <- <-; same_go s cs cs' l t HG HE HI E; exact I).
        * (* KItF found *) injection Hst as <- <-. cbn [fit] in Hfit. destruct Hfit as (Hy0 & Hc0 & Hlo).
          pose proof (valid_true _ _ _ _ Hc) as [Hn Hm].
          assert (Hsvc : In sv (0 :: cs b)) by exact (ref_in_chain (sm s) cs b sv HG (proj1 Hsv) Hm).
          apply (IT_eq (move_it s t b sv cur w)); try reflexivity.
          eapply (IT_land_node s cs t b sv cur w HG (HA t) (HI t) Hsvc Hn); [| exact (proj1 Hcur) | left; exact Hw |].
          -- intros _ _ Hl. contradiction.
          -- intros ys0 y Ey. rewrite Hy0 in Ey. destruct ys0; discriminate.
        * (* KItF not found *) injection Hst as <- <-. apply (IT_eq (end_trav nb s t)); try reflexivity. apply IT_end. apply HI.
        * eapply (find_land_Y s cs t (KItN o) MNext o b h key sv cur); try eassumption; auto; [apply HA | rewrite E; reflexivity|].
          intros _. split; [exact Hge|]. split; [exact Hw | exact (proj1 (Hnp eq_refl))].
        * eapply (find_land_Y s cs t (KItN o) MNext o b h key sv cur); try eassumption; auto; [apply HA | rewrite E; reflexivity|].
          intros _. split; [exact Hge|]. split; [exact Hw | exact (proj1 (Hnp eq_refl))].
        * eapply (find_land_Y s cs t (KItE o) (MErase o) o b h key sv cur); try eassumption; auto; [apply HA | rewrite E; reflexivity|].
          intros _. split; [exact Hge|]. split; [exact Hw | exact (proj1 (Hnp eq_refl))].
        * eapply (find_land_Y s cs t (KItE o) (MErase o) o b h key sv cur); try eassumption; auto; [apply HA | rewrite E; reflexivity|].
          intros _. split; [exact Hge|]. split; [exact Hw | exact (proj1 (Hnp eq_refl))].
      + (* E1 *) injection Hst as <- <-. same_go s cs cs' l t HG HE HI E. exact I.
      + (* E2 *) destruct (valid (sm s) b sv cur); destruct g; injection Hst as <- <-; same_go s cs cs' l t HG HE HI E; exact I.
      + (* D1 *) destruct ((nnext (sm s) cur =? nx) && negb (nmark (sm s) cur)); injection Hst as <- <-; same_go s cs cs' l t HG HE HI E; exact I.
      + (* D2 *) destruct (valid (sm s) b sv cur); injection Hst as <- <-; same_go s cs cs' l t HG HE HI E; exact I.
      + (* MB *) destruct Hp as [Hp1 Hp2].
        eapply (it_land_Y s cs t c b 0 (bhead (sm s) b)); [exact HG | apply HA | apply HI | left; reflexivity | reflexivity | | | | exact Hst].
        * intros Ho Htr Hl k Hk [Hlt | (_ & x & Hx & Hxnz & _)]; [exact (Hp2 Ho Htr Hl k Hk Hlt)|].
          cbn [upto] in Hx. rewrite N.eqb_refl in Hx. destruct Hx as [Hx | []]. congruence.
        * intros _. split; [right; reflexivity|]. intros ys0 y Ey. left.
          destruct c; [rewrite Hp1 in Ey; destruct ys0; discriminate | |];
            destruct Hp1 as [Hcz Hlt]; destruct (last_yield s t (HI t) Hcz ys0 y Ey) as (_ & Hyb & _); rewrite Hyb; exact Hlt.
        * destruct c; [exact Hp1 | |]; destruct Hp1 as [Hcz Hlt]; (split; [exact Hcz | split; [lia | rewrite E; reflexivity]]).
      + (* N1 *) destruct (nmark (sm s) (it_cur (its s t))); injection Hst as <- <-; same_go s cs cs' l t HG HE HI E; exact I.
      + (* N2 *) destruct Ht as [Hnz Hnxk]. destruct (proj2 Hit Hnz) as [_ Hon].
        destruct ((nnext (sm s) (it_cur (its s t)) =? nx) && negb (nmark (sm s) (it_cur (its s t)))) eqn:Hc;
          [|injection Hst as <- <-; same_go s cs cs' l t HG HE HI E; exact I].
        apply cond_true in Hc. destruct Hc as [Hnx Hcm].
        assert (Hcc : In (it_cur (its s t)) (cs (it_b (its s t)))) by exact (node_in_chain (sm s) cs _ _ HG Hon Hcm).
        assert (Hpn : pnext (sm s) (it_b (its s t)) (it_cur (its s t)) = nx) by (rewrite pnext_nz by exact Hnz; exact Hnx).
        assert (Hs : in_start (th s t) = false) by (rewrite E; reflexivity).
        eapply (it_land_Y s cs t MNext (it_b (its s t)) (it_cur (its s t)) nx); [exact HG | apply HA | apply HI | right; exact Hcc | exact Hpn | | | | exact Hst].
        * intros Ho Htr Hl k Hk Hcase. apply (IT_compl _ _ (HI t) Ho Htr Hl Hs k Hk).
          destruct Hcase as [Hlt | (Hbe & x & Hx & Hxnz & Hkx)]; [left; exact Hlt | right]. split; [exact Hbe | right].
          destruct (upto_before (sm s) cs _ _ x HG (or_intror Hcc) Hx) as [-> | [_ [H0 | Hlt]]]; [|contradiction|].
          -- apply gef_key; [exact Hkx|]. rewrite (G_hash _ _ HG _ Hnz (G_bound _ _ HG _ (proj1 (proj2 Hon)))), Hkx. reflexivity.
          -- assert (Hxc : In x (cs (it_b (its s t)))) by (destruct (upto_incl _ _ _ Hx) as [H0 | H0]; [congruence | exact H0]).
             exact (below_le (sm s) cs x _ k HG Ho (known_chain (sm s) cs _ x HG Hxc) Hnz (G_bound _ _ HG _ (proj1 (proj2 Hon))) Hkx Hlt).
        * intros Hnxz. split; [right; reflexivity|]. intros ys0 y Ey.
          destruct (last_yield s t (HI t) Hnz ys0 y Ey) as (Hyn & Hyb & _). right. split; [exact Hyb|]. left. rewrite Hyn.
          destruct (chain_split (sm s) cs _ _ HG (or_intror Hcc)) as (c1 & c2 & _ & Hn' & _ & _ & _ & _ & _ & HR2 & _).
          rewrite Hpn in Hn'. destruct c2 as [|y0 r]; cbn [hd] in Hn'; [contradiction|]. subst y0.
          destruct (HR2 nx (or_introl eq_refl)) as [_ [H0 | H0]]; [contradiction | exact H0].
        * split; [exact Hnz|]. split; [apply N.le_refl | exact Hs].
      + (* X1 *) destruct (nmark (sm s) (it_cur (its s t))); injection Hst as <- <-; same_go s cs cs' l t HG HE HI E; exact I.
      + (* X2 *) destruct ((nnext (sm s) (it_cur (its s t)) =? nx) && negb (nmark (sm s) (it_cur (its s t))));
          [|destruct (nmark (sm s) (it_cur (its s t)))]; injection Hst as <- <-; same_go s cs cs' l t HG HE HI E; exact I.
      + (* X3 *) destruct Ht as (Hnz & Hm & Hn).
        destruct (valid (sm s) (it_b (its s t)) (it_sv (its s t)) (it_cur (its s t))) eqn:Hc;
          [|injection Hst as <- <-; same_go s cs cs' l t HG HE HI E; exact I].
        pose proof (valid_true _ _ _ _ Hc) as [Hnx Hsvm]. destruct (proj2 Hit Hnz) as [Hpre Hon].
        set (ib := it_b (its s t)) in *. set (isv := it_sv (its s t)) in *. set (icur := it_cur (its s t)) in *.
        set (m' := m_unlink (sm s) ib isv icur nx) in *.
        destruct (ext_unlink (sm s) cs ib isv icur nx HG (proj1 Hit) Hc Hnz Hm Hn) as (cs2 & HE1).
        pose proof HE1 as (HG' & (sp & HM) & _ & _ & Hkn' & _).
        assert (Ek : nkey m' = nkey (sm s)) by apply unlink_nkey.
        assert (Eh : nhash m' = nhash (sm s)) by apply unlink_nhash.
        assert (Emk : nmark m' = nmark (sm s)) by apply unlink_nmark.
        assert (Hgef : forall h0 k0 x, gef m' h0 k0 x = gef (sm s) h0 k0 x) by (intros; unfold HmmDefs.gef; rewrite Ek, Eh; reflexivity).
        assert (Hs : in_start (th s t) = false) by (rewrite E; reflexivity).
        assert (Hsvc : In isv (0 :: cs ib)) by exact (ref_in_chain (sm s) cs ib isv HG (proj1 Hit) Hsvm).
        assert (Hsvc' : In isv (0 :: cs2 ib)).
        { apply (ref_in_chain m' cs2 ib isv HG' (okref_mono _ _ _ _ _ HG HM _ _ (proj1 Hit))).
          unfold pmark in *. rewrite Emk. exact Hsvm. }
        assert (Hps : pnext m' ib isv = nx) by (unfold m'; rewrite unlink_pnext; apply sp_pnext_same).
        assert (HI1 : IT (set_mem s m') t).
        { eapply (IT_step s (set_mem s m') cs cs2 [] t HG HE1); [apply same_it_refl | sprj; rewrite E; exact I | right; reflexivity | apply HI]. }
        eapply (it_land_Y (set_mem s m') cs2 t (MErase icur) ib isv nx); [exact HG' | exact (HA t) | exact HI1 | exact Hsvc' | exact Hps | | | | exact Hst].
        * intros Ho Htr Hl k Hk Hcase. apply (IT_compl _ _ (HI t) Ho Htr Hl Hs k Hk). fold ib icur.
          destruct Hcase as [Hlt | (Hbe & x & Hx & Hxnz & Hkx)]; [left; exact Hlt | right]. split; [exact Hbe | right].
          assert (Hxc : In x (cs2 ib)) by (destruct (upto_incl _ _ _ Hx) as [H0 | H0]; [congruence | exact H0]).
          assert (Hxk : known (sm s) cs x).
          { destruct (Hkn' x (known_chain m' cs2 ib x HG' Hxc)) as [H0 | []]. exact H0. }
          cbn [sm set_mem] in Hkx. fold m' in Hkx. rewrite Ek in Hkx.
          apply (below_le (sm s) cs x icur k HG Ho Hxk Hnz (G_bound _ _ HG _ (proj1 (proj2 Hon))) Hkx).
          rewrite <- Hgef.
          exact (M_pre _ _ _ _ _ HM ib _ _ isv (proj1 Hit) Hpre Hsvc' x Hx Hxnz).
        * intros Hnxz. sprj. split; [right; rewrite Ek; reflexivity|]. intros ys0 y Ey.
          destruct (last_yield s t (HI t) Hnz ys0 y Ey) as (Hyn & Hyb & _). right. split; [exact Hyb|]. left. rewrite Hyn. fold icur.
          assert (Hcc : In icur (cs ib)) by (rewrite <- Hnx; apply (chain_next_in (sm s) cs ib isv HG Hsvc); rewrite Hnx; exact Hnz).
          destruct (chain_split (sm s) cs ib icur HG (or_intror Hcc)) as (c1 & c2 & _ & Hn' & _ & _ & _ & _ & _ & HR2 & _).
          rewrite (pnext_nz (sm s) ib icur Hnz), Hn in Hn'. destruct c2 as [|y0 r]; cbn [hd] in Hn'; [contradiction|]. subst y0.
          destruct (HR2 nx (or_introl eq_refl)) as [_ [H0 | H0]]; [contradiction|].
          unfold HmmInv.le2 in *. rewrite Hgef, (nh_frame (sm s) m' nx), Ek by (rewrite ?Ek, ?Eh; reflexivity). exact H0.
        * sprj. fold ib icur. split; [exact Hnz|]. split; [apply N.le_refl | exact Hs].
  Qed.

  Lemma IT_refresh st u : IT st u -> IT (refresh st) u.
  Proof.
    intros [H1 H2 H3 H4 H4e H5].
    assert (HA : forall k, In k (g_always (its (refresh st) u)) -> In k (g_always (its st u))).
    { intros k Hk. cbn [refresh its g_always] in Hk. apply filter_In in Hk. exact (proj1 Hk). }
    constructor; cbn [refresh sm th its it_b it_sv it_cur g_yield g_lo g_trav] in *; try assumption.
    - intros Ho Ht Hl Hs k Hk. apply (H4 Ho Ht Hl Hs). apply HA. exact Hk.
    - destruct (th st u); cbn [ITp fit newpos yielded it_b it_sv it_cur g_yield g_lo g_trav] in *; try assumption.
      destruct H5 as [Hp1 Hp2]. split; [exact Hp1|]. intros Ho Ht Hl k Hk Hb. apply (Hp2 Ho Ht Hl); [apply HA; exact Hk | exact Hb].
  Qed.

  Lemma Y_step s a s' es : Inv s -> Y s -> step s a = Some (s', es) -> Y s'.
  Proof.
    intros HI HY Hst. destruct (step_split s a s' es Hst) as (s1 & H0 & ->). split.
    - intros t k Hk. cbn [refresh its g_always sm] in *. apply filter_In in Hk. apply memk_true. exact (proj2 Hk).
    - intros u. apply IT_refresh. eapply Y_step0; eassumption.
  Qed.

  Lemma Y_init : Y init.
  Proof.
    split; [intros t k []|]. intros t. constructor; cbn.
    - intros H. contradiction.
    - intros y [].
    - constructor.
    - intros _ H. discriminate H.
    - intros H. discriminate H.
    - exact I.
  Qed.

  Theorem Y_reach st : reach init step st -> Y st.
  Proof.
    apply (inv_rule_aux _ _ _ init step Inv Y (Inv_reach)).
    - exact Y_init.
    - intros s a s' es HI _ HY Hst. eapply Y_step; eassumption.
  Qed.

  (** * Theorems *)

  (** node variables of a program point and of the iterator variable (0 = null / a bucket head) *)
  Definition held_k (c : fk) : list N := match c with KIns n _ | KGet n _ => [n] | KItN o | KItE o => [o] | _ => [] end.
  Definition held (p : pc) (i : itv) : list N :=
    it_sv i :: it_cur i ::
    match p with
    | F1 c _ _ _ start => held_k c ++ [start]
    | F2 c _ _ _ start sv nx => held_k c ++ [start; sv; nx]
    | F3 c _ _ _ start sv cur | F4 c _ _ _ start sv cur => held_k c ++ [start; sv; cur]
    | F5 c _ _ _ start sv cur nx | F6 c _ _ _ start sv cur nx _ => held_k c ++ [start; sv; cur; nx]
    | E1 _ n _ _ _ _ sv cur | E2 _ n _ _ _ _ sv cur => [n; sv; cur]
    | D1 _ _ _ sv cur nx | D2 _ _ _ sv cur nx => [sv; cur; nx]
    | N2 nx | X2 nx | X3 nx => [nx]
    | _ => []
    end.

  Lemma ychain_pairs m cs ys : G m cs -> ord -> (forall y, In y ys -> yok m y) -> ychain m ys ->
    forall i j y1 y2, (i < j)%nat -> nth_error ys i = Some y1 -> nth_error ys j = Some y2 ->
      (y_lin y1 <= y_lin y2)%nat /\
      (y_b y1 < y_b y2 \/
       (y_b y1 = y_b y2 /\
        (le2 m (y_node y2) (y_node y1) = false \/
         (y_key y1 = y_key y2 /\
          forall n t' v, nth_error (g_lin m) n = Some (LIns t' (y_key y2) v (y_node y2)) -> (y_lin y1 <= n)%nat)))).
  Proof.
    intros HG Ho Hall Hc.
    (* [le2] depends on a node only through its key, for nodes that were linked *)
    assert (Hpair : forall x y, yok m x -> yok m y -> y_key x = y_key y ->
              (forall z, le2 m (y_node x) z = le2 m (y_node y) z) /\ (forall z, le2 m z (y_node x) = le2 m z (y_node y))).
    { intros x y (Hx0 & Hxk & _ & Hxkey & _) (Hy0 & Hyk & _ & Hykey & _) E.
      apply (kn_known _ _ _ HG) in Hxk, Hyk.
      assert (Hh : nhash m (y_node x) = nhash m (y_node y)).
      { rewrite (G_hash _ _ HG _ Hx0 (G_bound _ _ HG _ Hxk)), (G_hash _ _ HG _ Hy0 (G_bound _ _ HG _ Hyk)). congruence. }
      assert (Hk : nkey m (y_node x) = nkey m (y_node y)) by congruence.
      split; intros z; unfold HmmInv.le2, HmmDefs.gef, HmmDefs.nh; rewrite Hh, Hk; reflexivity. }
    induction Hc as [|y|ys ya yb Hc IH Hs]; intros i j y1 y2 Hij Hi Hj.
    - destruct j; discriminate.
    - destruct j as [|j]; [lia|]. destruct j; discriminate.
    - set (n := length (ys ++ [ya])).
      assert (Hn : n = S (length ys)) by (subst n; rewrite app_length; cbn; lia).
      assert (Hya : nth_error (ys ++ [ya]) (length ys) = Some ya).
      { rewrite nth_error_app2 by lia. rewrite Nat.sub_diag. reflexivity. }
      assert (Hall' : forall y, In y (ys ++ [ya]) -> yok m y) by (intros y Hy; apply Hall; apply in_or_app; left; exact Hy).
      destruct (Nat.lt_ge_cases j n) as [Hjn | Hjn].
      + rewrite nth_error_app1 in Hi by (fold n; lia). rewrite nth_error_app1 in Hj by (fold n; lia).
        exact (IH Hall' i j y1 y2 Hij Hi Hj).
      + assert (Hjl : (j < length ((ys ++ [ya]) ++ [yb]))%nat) by (apply nth_error_Some; congruence).
        rewrite app_length in Hjl. cbn [length] in Hjl. fold n in Hjl. assert (j = n) by lia. subst j.
        rewrite nth_error_app2 in Hj by (fold n; lia). fold n in Hj. rewrite Nat.sub_diag in Hj. injection Hj as <-.
        rewrite nth_error_app1 in Hi by (fold n; lia).
        destruct Hs as (Hs1 & Hs2 & Hs3).
        destruct (Nat.eq_dec i (length ys)) as [->|Hne].
        * rewrite Hya in Hi. injection Hi as <-. split; [exact Hs1|].
          destruct Hs3 as [Hs3 | (Hs3 & [Hs4 | (Hs4 & _ & Hs5)])]; [left; exact Hs3 | right; split; [exact Hs3 | left; exact Hs4] |].
          right. split; [exact Hs3|]. right. split; assumption.
        * destruct (IH Hall' i (length ys) y1 ya ltac:(lia) Hi Hya) as [Hl Hk]. split; [lia|].
          assert (Hy1 : yok m y1) by (apply Hall'; eapply nth_error_In; exact Hi).
          assert (Hyaok : yok m ya) by (apply Hall'; eapply nth_error_In; exact Hya).
          assert (Hyb : yok m yb) by (apply Hall; apply in_or_app; right; left; reflexivity).
          destruct Hk as [Hk | (Hk & Hk2)]; [left; destruct Hs3 as [Hs3 | [Hs3 _]]; lia|].
          destruct Hs3 as [Hs3 | (Hs3 & Hs4)]; [left; lia | right]. split; [congruence|].
          destruct Hk2 as [Hk2 | (Hk2 & Hk3)]; destruct Hs4 as [Hs4 | (Hs4 & _ & Hs5)].
          -- (* < , < *) left. destruct (le2 m (y_node yb) (y_node y1)) eqn:Hq; [exfalso | reflexivity].
             destruct (le2_total m (y_node y1) (y_node ya) Ho) as [Ht | Ht]; [|rewrite Hk2 in Ht; discriminate].
             unfold HmmInv.le2 in Hs4. rewrite (gef_trans m _ _ _ _ Hq Ht) in Hs4. discriminate.
          -- (* < , = *) left. rewrite <- (proj1 (Hpair ya yb Hyaok Hyb Hs4)). exact Hk2.
          -- (* = , < *) left. rewrite (proj2 (Hpair y1 ya Hy1 Hyaok Hk2)). exact Hs4.
          -- (* = , = *) right. split; [congruence|]. intros n0 t' v Hn0. specialize (Hs5 n0 t' v Hn0). lia.
  Qed.

  Section XTheorems.
    Variable st : state.
    Hypothesis Hreach : reach init step st.

    Let HI := Inv_chain st (Inv_reach st Hreach).
    Let HY := Y_reach st Hreach.

    (** 1. SAFETY: every node an operation in progress (map operation or iterator operation) or an iterator variable
        refers to was allocated and is null / a bucket head, reachable from a bucket head, retired, or the thread's
        own not yet linked new node.  Retired nodes are never freed or reused in this model (GC reclaimer instance):
        that is the guarantee C01 gives for a node on which a guard_ptr is held. *)
    Theorem it_node_safe t x : In x (held (th st t) (its st t)) ->
      x < nalloc (sm st) /\
      (x = 0 \/ (exists b, In x (chain (sm st) b)) \/ In x (g_retired (sm st)) \/ fresh_of (th st t) = Some x).
    Proof.
      destruct HI as (cs & Hext & HG & HT & _). destruct (HT t) as [Ht [Hi1 Hi2]].
      set (P := fun y => y < nalloc (sm st) /\
                  (y = 0 \/ (exists b, In y (chain (sm st) b)) \/ In y (g_retired (sm st)) \/ fresh_of (th st t) = Some y)).
      assert (Hz : P 0) by (split; [exact (G_pos _ _ HG) | left; reflexivity]).
      assert (Hkn : forall y, known (sm st) cs y -> P y).
      { intros y Hy. split; [exact (G_bound _ _ HG y Hy)|]. destruct Hy as [Hy | Hy]; [right; left; eexists; rewrite <- Hext; exact Hy | auto]. }
      assert (Hrf : forall b y, okref (sm st) cs b y -> P y) by (intros b y [-> | [Hy _]]; [exact Hz | exact (Hkn y Hy)]).
      assert (Hpv : forall b h k y, okprev (sm st) cs b h k y -> P y) by (intros b h k y [Hy _]; exact (Hrf b y Hy)).
      assert (Hnd : forall b y, oknode (sm st) cs b y -> P y) by (intros b y (_ & Hy & _); exact (Hkn y Hy)).
      assert (Hnx : forall b y, oknx (sm st) cs b y -> P y) by (intros b y [-> | Hy]; [exact Hz | exact (Hnd b y Hy)]).
      assert (Hcl : forall b y, oknode (sm st) cs b y -> P (nnext (sm st) y)) by (intros b y Hy; exact (Hnx b _ (closed_nx (sm st) cs b y HG Hy))).
      assert (Hcurc : forall b h key cur, (cur <> 0 -> oknode (sm st) cs b cur /\ gef (sm st) h key cur = true /\ nkey (sm st) cur <> key) -> P cur).
      { intros b h key cur H. destruct (N.eq_dec cur 0) as [->|Hnz]; [exact Hz | exact (Hnd b cur (proj1 (H Hnz)))]. }
      assert (Hcur : P (it_cur (its st t))).
      { destruct (N.eq_dec (it_cur (its st t)) 0) as [->|Hnz]; [exact Hz | exact (Hnd _ _ (proj2 (Hi2 Hnz)))]. }
      assert (Hfk : forall c b h key, fcom (sm st) cs (g_lp st t) (it_b (its st t)) (it_cur (its st t)) c b h key ->
                fresh_of (th st t) = fresh_of_k c -> forall y, In y (held_k c) -> P y).
      { intros c b h key (_ & _ & Hco) Hf y Hy. destruct c as [n v|n v| | | | | |o|o]; cbn [held_k cont_ok] in *; try (destruct Hy; fail);
          destruct Hy as [<- | []].
        - destruct Hco as [(_ & Hlt & _) _]. split; [exact Hlt|]. right. right. right. exact Hf.
        - destruct Hco as [-> | [(Hnz & Hlt & _) _]]; [exact Hz|]. split; [exact Hlt|]. right. right. right. rewrite Hf. cbn [fresh_of_k].
          destruct (N.eqb_spec n 0); [contradiction | reflexivity].
        - destruct Hco as (<- & _). exact Hcur.
        - destruct Hco as (<- & _). exact Hcur. }
      fold (P x). intros [<- | [<- | Hin]]; [exact (Hrf _ _ Hi1) | exact Hcur |].
      destruct (th st t) as [|o|c b h key start|c b h key start sv nx|c b h key start sv cur|c b h key start sv cur
                             |c b h key start sv cur nx|c b h key start sv cur nx w|g n v b h key sv cur|g n v b h key sv cur
                             |b h key sv cur nx|b h key sv cur nx|c b| |nx| |nx|nx] eqn:E;
        cbn [Tw held] in *; try (destruct Hin; fail).
      - destruct Ht as (Hco & H1). apply in_app_or in Hin. destruct Hin as [Hin | [<- | []]]; [eapply Hfk; eauto | eapply Hpv; eauto].
      - destruct Ht as (Hco & H1 & H2 & H3). apply in_app_or in Hin. destruct Hin as [Hin | [<- | [<- | [<- | []]]]];
          [eapply Hfk; eauto | eapply Hpv; eauto | eapply Hpv; eauto | eapply Hnx; eauto].
      - destruct Ht as (Hco & H1 & H2 & H3). apply in_app_or in Hin. destruct Hin as [Hin | [<- | [<- | [<- | []]]]];
          [eapply Hfk; eauto | eapply Hpv; eauto | eapply Hpv; eauto | eapply Hnd; eauto].
      - destruct Ht as (Hco & H1 & H2 & H3 & _). apply in_app_or in Hin. destruct Hin as [Hin | [<- | [<- | [<- | []]]]];
          [eapply Hfk; eauto | eapply Hpv; eauto | eapply Hpv; eauto | eapply Hnd; eauto].
      - destruct Ht as (Hco & H1 & H2 & H3 & _ & H5). apply in_app_or in Hin.
        destruct Hin as [Hin | [<- | [<- | [<- | [<- | []]]]]];
          [eapply Hfk; eauto | eapply Hpv; eauto | eapply Hpv; eauto | eapply Hnd; eauto | rewrite <- H5; eapply Hcl; eauto].
      - destruct Ht as (Hco & H1 & H2 & H3 & _ & H5). apply in_app_or in Hin.
        destruct Hin as [Hin | [<- | [<- | [<- | [<- | []]]]]];
          [eapply Hfk; eauto | eapply Hpv; eauto | eapply Hpv; eauto | eapply Hnd; eauto | eapply Hnx; eauto].
      - destruct Ht as (((_ & Hlt & _) & _) & _ & _ & H1 & H2). destruct Hin as [<- | [<- | [<- | []]]];
          [split; [exact Hlt | auto] | eapply Hpv; eauto | eapply Hcurc; eauto].
      - destruct Ht as (((_ & Hlt & _) & _) & _ & _ & H1 & H2 & _). destruct Hin as [<- | [<- | [<- | []]]];
          [split; [exact Hlt | auto] | eapply Hpv; eauto | eapply Hcurc; eauto].
      - destruct Ht as (_ & _ & H1 & H2 & _ & H4). destruct Hin as [<- | [<- | [<- | []]]];
          [eapply Hpv; eauto | eapply Hnd; eauto | eapply Hnx; eauto].
      - destruct Ht as (_ & _ & H1 & H2 & _ & _ & H5 & _). destruct Hin as [<- | [<- | [<- | []]]];
          [eapply Hpv; eauto | eapply Hnd; eauto | rewrite <- H5; eapply Hcl; eauto].
      - destruct Ht as (_ & H1). destruct Hin as [<- | []]. eapply Hnx; eauto.
      - destruct Ht as (_ & H1). destruct Hin as [<- | []]. eapply Hnx; eauto.
      - destruct Ht as (Hc & _ & H1). destruct Hin as [<- | []]. rewrite <- H1. eapply Hcl. exact (proj2 (Hi2 Hc)).
    Qed.

    (** the iterator variable stands on the last recorded position of the traversal, in the bucket its key selects *)
    Theorem it_position t : it_cur (its st t) <> 0 ->
      bucket_of (nkey (sm st) (it_cur (its st t))) = it_b (its st t) /\
      exists ys0 y, g_yield (its st t) = ys0 ++ [y] /\ y_node y = it_cur (its st t) /\ y_b y = it_b (its st t) /\
                    y_key y = nkey (sm st) (it_cur (its st t)).
    Proof.
      destruct HY as [_ HIT]. intros Hnz. destruct (IT_last _ _ (HIT t) Hnz) as (ys0 & y & E & Hn & Hb).
      destruct (last_yield st t (HIT t) Hnz ys0 y E) as (_ & _ & (_ & _ & Hbk & Hk & _)).
      split; [rewrite <- Hn, <- Hb; exact Hbk|]. exists ys0, y. rewrite <- Hn. auto.
    Qed.

    (** 2. YIELDS: every recorded position [y] of the current traversal of thread [t] is a node of the bucket
        [y_b y] its key selects that was linked by a recorded insertion before the yield ("yielded keys were
        inserted") and was REACHABLE from its bucket head at the instant the iterator moved onto it ([y_reach]); its
        witness flag is true (the key was in [g_abs] at that instant), or the node had been erased (marked by a
        recorded erase) before the iterator moved onto it - it was then still linked *)
    Theorem it_yield_sound t y : In y (g_yield (its st t)) ->
      nkey (sm st) (y_node y) = y_key y /\ y_node y <> 0 /\ bucket_of (y_key y) = y_b y /\
      (In (y_node y) (chain (sm st) (y_b y)) \/ In (y_node y) (g_retired (sm st))) /\
      (y_lin y <= length (g_lin (sm st)))%nat /\
      (exists j t' v, (j < y_lin y)%nat /\ nth_error (g_lin (sm st)) j = Some (LIns t' (y_key y) v (y_node y))) /\
      y_reach y = true /\
      (y_wit y = true \/
       exists j t' i, (j < y_lin y)%nat /\ nth_error (g_lin (sm st)) j = Some (LDel t' (y_key y) (y_node y) i)).
    Proof.
      destruct HY as [_ HIT]. intros Hy.
      destruct (IT_yok _ _ (HIT t) y Hy) as (H0 & H1 & H2 & H3 & H4 & H5 & _ & H7 & H8).
      split; [exact H3|]. split; [exact H0|]. split; [rewrite <- H3; exact H2|]. split; [|auto 6].
      unfold kn in H1. rewrite H2 in H1. exact H1.
    Qed.

    (** 3. ORDER / NO DUPLICATES across the buckets (total ordering predicate): of two recorded positions the later one
        lies in a later bucket, or in the same bucket and its node is strictly greater in the order of the chain, or
        it carries the same key on a DIFFERENT node that was linked by an insertion whose linearization point lies
        after the first yield and before the second one *)
    Theorem it_no_duplicate t i j y1 y2 : ord -> (i < j)%nat ->
      nth_error (g_yield (its st t)) i = Some y1 -> nth_error (g_yield (its st t)) j = Some y2 ->
      y_b y1 < y_b y2 \/
      (y_b y1 = y_b y2 /\
       (le2 (sm st) (y_node y2) (y_node y1) = false \/
        (y_key y1 = y_key y2 /\ y_node y1 <> y_node y2 /\
         exists n t' v, nth_error (g_lin (sm st)) n = Some (LIns t' (y_key y2) v (y_node y2)) /\ (y_lin y1 <= n < y_lin y2)%nat))).
    Proof.
      destruct HI as (cs & _ & HG & _). destruct HY as [_ HIT]. intros Ho Hij H1 H2.
      destruct (ychain_pairs (sm st) cs _ HG Ho (IT_yok _ _ (HIT t)) (IT_chain _ _ (HIT t)) i j y1 y2 Hij H1 H2)
        as [Hl [Hk | (Hb & [Hk | [Hk Hre]])]]; [left; exact Hk | right; split; [exact Hb | left; exact Hk] | right].
      split; [exact Hb|]. right. split; [exact Hk|].
      destruct (IT_yok _ _ (HIT t) y1 (nth_error_In _ _ H1)) as (_ & _ & _ & _ & _ & _ & _ & (m1 & t1 & v1 & Hm1 & Hn1) & _).
      destruct (IT_yok _ _ (HIT t) y2 (nth_error_In _ _ H2)) as (_ & _ & _ & _ & _ & _ & _ & (m2 & t2 & v2 & Hm2 & Hn2) & _).
      split.
      - intros Heq. rewrite Hk, Heq in Hn1. specialize (Hre m1 t1 v1 Hn1). lia.
      - exists m2, t2, v2. split; [exact Hn2|]. specialize (Hre m2 t2 v2 Hn2). lia.
    Qed.

    (** ... in particular: no key is yielded twice in one traversal unless it was re-inserted in between *)
    Corollary it_no_duplicate_key t i j y1 y2 : ord -> (i < j)%nat ->
      nth_error (g_yield (its st t)) i = Some y1 -> nth_error (g_yield (its st t)) j = Some y2 -> y_key y1 = y_key y2 ->
      y_node y1 <> y_node y2 /\
      exists n t' v, nth_error (g_lin (sm st)) n = Some (LIns t' (y_key y2) v (y_node y2)) /\ (y_lin y1 <= n < y_lin y2)%nat.
    Proof.
      intros Ho Hij H1 H2 Hk. destruct HI as (cs & _ & HG & _). destruct HY as [_ HIT].
      pose proof (IT_yok _ _ (HIT t) y1 (nth_error_In _ _ H1)) as (Ha0 & Hak & Hab & Hakey & _).
      pose proof (IT_yok _ _ (HIT t) y2 (nth_error_In _ _ H2)) as (Hb0 & Hbk & Hbb & Hbkey & _).
      destruct (it_no_duplicate t i j y1 y2 Ho Hij H1 H2) as [Hlt | (_ & [Hlt | Hre])]; [exfalso | exfalso | exact (proj2 Hre)].
      - unfold HmmInv.bk in Hab, Hbb. rewrite Hakey in Hab. rewrite Hbkey in Hbb. rewrite <- Hab, <- Hbb, Hk in Hlt. lia.
      - apply (kn_known _ _ _ HG) in Hak, Hbk.
        assert (Hh : nhash (sm st) (y_node y1) = hf (y_key y2)).
        { rewrite (G_hash _ _ HG _ Ha0 (G_bound _ _ HG _ Hak)). congruence. }
        unfold HmmInv.le2 in Hlt. rewrite (nh_hash (sm st) cs _ HG Hb0 (G_bound _ _ HG _ Hbk)), Hbkey in Hlt.
        rewrite (gef_key (sm st) (y_key y2) (y_node y1)) in Hlt; [discriminate | congruence | exact Hh].
    Qed.

    (** 4. COMPLETENESS ACROSS THE BUCKETS (total ordering predicate, at least one bucket): when a traversal of thread
        [t] started by begin() has reached end(), every key that was in the abstract map in every state since the
        first step of the traversal ([g_always], see [it_always_exact]) has been yielded - whatever bucket it lives
        in.  More generally, at any time all such keys of the earlier buckets and of the current bucket up to the
        current position have been yielded. *)
    Theorem it_complete_upto t k : ord -> g_trav (its st t) = true -> g_lo (its st t) = None -> in_start (th st t) = false ->
      In k (g_always (its st t)) -> behind (sm st) (it_b (its st t)) (it_cur (its st t)) k -> yielded (its st t) k.
    Proof. destruct HY as [_ HIT]. intros Ho H1 H2 H3 H4 H5. exact (IT_compl _ _ (HIT t) Ho H1 H2 H3 k H4 H5). Qed.

    Corollary it_complete t k : ord -> nb <> 0 -> g_trav (its st t) = true -> g_lo (its st t) = None -> in_start (th st t) = false ->
      it_cur (its st t) = 0 -> In k (g_always (its st t)) -> yielded (its st t) k.
    Proof.
      intros Ho Hnb H1 H2 H3 H4 H5. apply (it_complete_upto t k Ho H1 H2 H3 H5). destruct HY as [_ HIT].
      pose proof (IT_atend _ _ (HIT t) H1 H3 H4) as Hend. unfold behind. rewrite H4.
      assert (Hlt : bucket_of k < nb) by (apply N.mod_lt; exact Hnb).
      destruct (N.lt_ge_cases (bucket_of k) (it_b (its st t))) as [Hl | Hg]; [left; exact Hl | right; split; [lia | left; reflexivity]].
    Qed.

    (** [g_always] only contains keys of the current abstract map *)
    Theorem it_always_abs t k : In k (g_always (its st t)) -> In k (keys (g_abs (sm st))).
    Proof. destruct HY as [HA _]. apply HA. Qed.
  End XTheorems.

  (** * Trace-level form of the completeness *)

  Definition starts_trav (s : state) (a : action) (u : nat) : Prop :=
    a = Step u /\ (th s u = Begin OItB \/ exists k, th s u = Begin (OItF k)).

  Definition akeys (st : state) : list N := keys (g_abs (sm st)).

  Lemma it_always_step s a s' es u : step s a = Some (s', es) ->
    (~ starts_trav s a u /\ g_lo (its s' u) = g_lo (its s u) /\ (g_trav (its s' u) = true -> g_trav (its s u) = true) /\
     g_always (its s' u) = filter (fun k => memk k (g_abs (sm s'))) (g_always (its s u))) \/
    (starts_trav s a u /\ g_trav (its s' u) = true /\
     (th s u = Begin OItB -> g_lo (its s' u) = None) /\
     g_always (its s' u) = filter (fun k => memk k (g_abs (sm s'))) (akeys s)).
  Proof.
    intros Hst. destruct (step_split s a s' es Hst) as (s1 & H0 & ->). clear Hst. unfold akeys.
    step0_cases H0 s; cbn [refresh sm its g_lo g_trav g_always]; sprj.
    all: try (left; split; [unfold starts_trav; intros [Ha Hq]; try discriminate Ha; injection Ha as ->; rewrite E in Hq;
                            destruct Hq as [Hq | [? Hq]]; discriminate Hq
                           |(destruct (Nat.eq_dec u t) as [->|Hne]; [rewrite ?upd_same | rewrite ?upd_other by exact Hne]); sprj;
                            (split; [reflexivity | split; [first [intros Hq; exact Hq | intros Hq; discriminate Hq] | reflexivity]])]; fail).
    all: destruct (Nat.eq_dec u t) as [->|Hne];
      [right; (split; [split; [reflexivity | rewrite E; eauto]|]); rewrite !upd_same; sprj;
       (split; [reflexivity | split; [first [reflexivity | intros Hq; rewrite E in Hq; discriminate Hq] | reflexivity]])
      |left; (split; [intros [Ha _]; injection Ha; congruence | rewrite !upd_other by exact Hne; (split; [reflexivity | split; [auto | reflexivity]])])].
  Qed.

  (** [trav_path u s0 l s]: thread [u] took the first step of [itb] / [itf] from [s0]; [l] lists the states of the
      execution after that step up to the current state [s] (the last element of [l]); [u] has not started another
      traversal in between.  The states of the traversal are [s0 :: l]. *)
  Inductive trav_path (u : nat) (s0 : state) : list state -> state -> Prop :=
  | tp_first s1 es : starts_trav s0 (Step u) u -> step s0 (Step u) = Some (s1, es) -> trav_path u s0 [s1] s1
  | tp_next l s a s' es : trav_path u s0 l s -> ~ starts_trav s a u -> step s a = Some (s', es) ->
                          trav_path u s0 (l ++ [s']) s'.

  Lemma trav_path_reach u s0 l s : reach init step s0 -> trav_path u s0 l s -> reach init step s.
  Proof. intros Hr H. induction H; eapply reach_step; eauto. Qed.

  (** meaning of the ghost [g_always]: exactly the keys that were in the abstract map in EVERY state of the traversal *)
  Theorem it_always_exact u s0 l s : trav_path u s0 l s ->
    forall k, In k (g_always (its s u)) <-> (forall s1, In s1 (s0 :: l) -> In k (akeys s1)).
  Proof.
    induction 1 as [s1 es Hs Hst | l s a s' es Hp IH Hns Hst].
    - destruct (it_always_step _ _ _ _ u Hst) as [(Hn & _) | (_ & _ & _ & E2)]; [contradiction|].
      intros k. rewrite E2, filter_In, memk_true. split.
      + intros [H1 H2] s [<- | [<- | []]]; assumption.
      + intros H. split; apply H; [left | right; left]; reflexivity.
    - destruct (it_always_step _ _ _ _ u Hst) as [(_ & _ & _ & E2) | (Hs & _)]; [|contradiction].
      intros k. rewrite E2, filter_In, memk_true, IH. split.
      + intros [H1 H2] s1 [<- | Hin]; [apply H1; left; reflexivity|]. apply in_app_or in Hin.
        destruct Hin as [Hin | [<- | []]]; [apply H1; right; exact Hin | exact H2].
      + intros H. split; [|apply H; right; apply in_or_app; right; left; reflexivity].
        intros s1 [<- | Hin]; apply H; [left; reflexivity | right; apply in_or_app; left; exact Hin].
  Qed.

  Lemma trav_lo u s0 l s : trav_path u s0 l s -> th s0 u = Begin OItB -> g_lo (its s u) = None.
  Proof.
    induction 1 as [s1 es Hs Hst | l s a s' es Hp IH Hns Hst]; intros Hb.
    - destruct (it_always_step _ _ _ _ u Hst) as [(Hn & _) | (_ & _ & E1 & _)]; [contradiction | exact (E1 Hb)].
    - destruct (it_always_step _ _ _ _ u Hst) as [(_ & E1 & _) | (Ha & _)]; [rewrite E1; exact (IH Hb) | contradiction].
  Qed.

  (** COMPLETENESS, trace level: take any execution and any traversal of thread [u] started by begin() (first step
      taken from [s0], later states [l], current state [s]).  If the traversal was not abandoned ([g_trav]), the
      thread is not inside begin(), and the iterator equals end(), then every key that was in the abstract map in
      EVERY state of the traversal - whatever its bucket - is among the keys of the recorded positions. *)
  Theorem it_complete_trace u s0 l s : ord -> nb <> 0 -> reach init step s0 -> trav_path u s0 l s -> th s0 u = Begin OItB ->
    g_trav (its s u) = true -> in_start (th s u) = false -> it_cur (its s u) = 0 ->
    forall k, (forall s1, In s1 (s0 :: l) -> In k (akeys s1)) -> yielded (its s u) k.
  Proof.
    intros Ho Hnb Hr Hp Hb Ht Hs Hc k Hall.
    assert (Hrs : reach init step s) by (eapply trav_path_reach; eassumption).
    apply (it_complete s Hrs u k Ho Hnb Ht (trav_lo u s0 l s Hp Hb) Hs Hc).
    apply (proj2 (it_always_exact u s0 l s Hp k)). exact Hall.
  Qed.

  (** * erase(iterator) *)

  (** 5a. erase(iterator) removes exactly the referenced element: during the call the iterator variable is not
      changed, and the only step of the call that changes marks / the abstract map is the successful mark CAS
      (program point X2) on exactly the node the iterator stands on, which removes exactly its key (which was
      present); all other steps of the call leave the abstract map as it is *)
  Theorem it_erase_exact s t s' es : reach init step s -> step s (Step t) = Some (s', es) -> cur_op (th s t) = Some OItE ->
    (th s' t <> Idle -> its s' t = mkI (it_b (its s t)) (it_sv (its s t)) (it_cur (its s t)) (g_yield (its s t)) (g_lo (its s t))
                                      (g_trav (its s t)) (g_start (its s t)) (g_always (its s' t))) /\
    ((g_abs (sm s') = g_abs (sm s) /\ g_lin (sm s') = g_lin (sm s) /\ nmark (sm s') = nmark (sm s)) \/
     (exists nx, th s t = X2 nx /\ th s' t = X3 nx /\ let cur := it_cur (its s t) in
        nmark (sm s) cur = false /\ In cur (chain (sm s) (bk (sm s) cur)) /\
        lookup (nkey (sm s) cur) (g_abs (sm s)) = Some (nval (sm s) cur) /\
        g_abs (sm s') = remk (nkey (sm s) cur) (g_abs (sm s)) /\
        g_lin (sm s') = g_lin (sm s) ++ [LDel t (nkey (sm s) cur) cur true] /\
        (forall x, nmark (sm s') x = if x =? cur then true else nmark (sm s) x))).
  Proof.
    intros Hr Hst Hop. split.
    - destruct (step_split s _ s' es Hst) as (s1 & H0 & ->). cbn [refresh th its]. remember (Step t) as a eqn:Ea.
      step0_cases H0 s; try discriminate Ea; injection Ea as ->; rewrite E in Hop; cbn [cur_op op_of mk_op] in Hop; try discriminate Hop; sprj; rewrite ?upd_same; sprj;
        try (intros Hq; exfalso; apply Hq; reflexivity); intros _; reflexivity.
    - destruct (hmm_abs_step s (Step t) s' es Hr Hst) as [(H1 & H2) | [(t0 & g & n & v & b & h & key & sv & cur & Ha & Hth & _) | H]].
      + left. split; [exact H1|]. split; [exact H2|].
        destruct (step_split s _ s' es Hst) as (s1 & H0 & ->). cbn [refresh sm] in *. remember (Step t) as a eqn:Ea.
        step0_cases H0 s; try discriminate Ea; injection Ea as ->; rewrite E in Hop; cbn [cur_op op_of mk_op] in Hop; try discriminate Hop; sprj; try reflexivity; try apply unlink_nmark;
          cbn [g_lin set_mem set_pc refresh sm m_mark] in H2; exfalso; revert H2; clear; intros H2;
          apply (f_equal (@length lev)) in H2; rewrite app_length in H2; cbn [length] in H2; lia.
      + injection Ha as <-. rewrite Hth in Hop. cbn [cur_op] in Hop. destruct g; discriminate Hop.
      + right. destruct H as (t0 & cur & it & Ha & Hpc & Hm & Hm' & Hin & Hlk & Habs & Hlin). injection Ha as <-.
        destruct Hpc as [(b & h & key & sv & nx & Hth & _) | (nx & Hth & -> & ->)]; [rewrite Hth in Hop; discriminate Hop|].
        exists nx. split; [exact Hth|].
        destruct (step_split s _ s' es Hst) as (s1 & H0 & ->). cbn [refresh sm th] in *.
        unfold HmmDefs.step0 in H0. rewrite Hth in H0. cbv beta iota zeta in H0.
        destruct ((nnext (sm s) (it_cur (its s t)) =? nx) && negb (nmark (sm s) (it_cur (its s t)))) eqn:Hc.
        * injection H0 as <- <-. sprj. rewrite upd_same. split; [reflexivity|]. cbn zeta. repeat (split; [assumption|]).
          intros x. cbn [sm set_mem m_mark nmark]. unfold setf. reflexivity.
        * exfalso. destruct (nmark (sm s) (it_cur (its s t))) eqn:Hq; injection H0 as <- <-; cbn [sm set_pc refresh] in Hm'; congruence.
  Qed.

  (** the iterator variable after a returning step of thread t: unchanged, or moved to a new position *)
  Lemma ret_yield s t s' es : step s (Step t) = Some (s', es) -> cur_op (th s t) = Some OItE -> th s' t = Idle ->
    it_cur (its s t) <> 0 ->
    (it_cur (its s' t) = 0 /\ g_yield (its s' t) = g_yield (its s t)) \/
    (it_cur (its s' t) <> 0 /\ exists y, g_yield (its s' t) = g_yield (its s t) ++ [y] /\ y_node y = it_cur (its s' t)).
  Proof.
    intros Hst Hop Hidle Hnz. destruct (step_split s _ s' es Hst) as (s1 & H0 & ->). clear Hst. cbn [refresh th its it_cur g_yield] in *.
    remember (Step t) as a eqn:Ea.
    step0_cases H0 s; try discriminate Ea; injection Ea as ->; rewrite E in Hop; cbn [cur_op op_of mk_op] in Hop; try discriminate Hop; sprj;
      cbn [sm th its g_lp g_hist set_pc set_pc_lp set_mem ret_st move_it start_trav end_trav add_hist HmmDefs.end_trav] in Hidle;
      rewrite ?upd_same in *; try discriminate Hidle; sprj;
      try (apply N.eqb_eq in Hc; contradiction);
      unfold push_y;
      try (left; split; reflexivity);
      match goal with
      | |- context [if ?c =? 0 then _ else _] => destruct (N.eqb_spec c 0) as [Hz|Hz]
      end; try (left; split; [assumption || reflexivity | reflexivity]);
      try (right; split; [exact Hz | eexists; split; reflexivity]).
  Qed.

  (** 5b. erase(iterator) returns the successor, possibly in a later bucket: the returned iterator is end(), or it
      stands on a new position [y_n] recorded right after the position [y_o] of the erased node, and [y_n] lies in
      a later bucket, or in the same bucket on a node that is not [<=] the erased one, or it carries the same key on
      a different node that was linked after [y_o] was recorded (a re-insertion); the erased node is marked *)
  Theorem it_erase_return s t s' es : reach init step s -> step s (Step t) = Some (s', es) ->
    cur_op (th s t) = Some OItE -> th s' t = Idle -> it_cur (its s t) <> 0 ->
    it_cur (its s' t) = 0 \/
    exists ys y_o y_n, g_yield (its s' t) = ys ++ [y_o; y_n] /\
      y_node y_o = it_cur (its s t) /\ y_node y_n = it_cur (its s' t) /\ y_b y_n = it_b (its s' t) /\
      bucket_of (y_key y_n) = y_b y_n /\ ystep (sm s') y_o y_n.
  Proof.
    intros Hr Hst Hop Hidle Hnz.
    assert (Hr' : reach init step s') by (eapply reach_step; eassumption).
    destruct (Y_reach s Hr) as [_ HIT]. destruct (Y_reach s' Hr') as [_ HIT'].
    destruct (ret_yield s t s' es Hst Hop Hidle Hnz) as [[Hz _] | (Hnz' & y & Ey & Hyn)]; [left; exact Hz | right].
    destruct (IT_last _ _ (HIT t) Hnz) as (ys0 & yo & Eo & Hon & _).
    destruct (IT_last _ _ (HIT' t) Hnz') as (ys1 & y1 & E1 & H1n & H1b).
    rewrite Ey, Eo in E1. apply app_inj_tail in E1. destruct E1 as [_ <-].
    exists ys0, yo, y. split; [rewrite Ey, Eo, <- app_assoc; reflexivity|]. split; [exact Hon|]. split; [exact H1n|]. split; [exact H1b|].
    assert (Hyok : yok (sm s') y) by (apply (IT_yok _ _ (HIT' t)); rewrite Ey; apply in_or_app; right; left; reflexivity).
    split; [destruct Hyok as (_ & _ & Hb & Hk & _); rewrite <- Hk; exact Hb|].
    pose proof (IT_chain _ _ (HIT' t)) as Hc. rewrite Ey, Eo in Hc.
    inversion Hc as [Hq | y0 Hq | ys2 ya yb Hc2 Hs Hq].
    - destruct ys0; discriminate Hq.
    - destruct ys0 as [|? [|? ?]]; discriminate Hq.
    - apply app_inj_tail in Hq. destruct Hq as [Hq <-]. apply app_inj_tail in Hq. destruct Hq as [_ <-]. exact Hs.
  Qed.
End It.

(** * Examples *)

(** T1: emplace(10,100); emplace(15,150); emplace(20,200).  T3: it = begin() (10).  T2: erase(10) (the element the
    iterator stands on).  T3: ++it three times. *)
Definition ex_trav : list action :=
  ex_ins ++ call 3 OItB ++ call 2 (ODel 10) ++ call 3 OItN ++ call 3 OItN ++ call 3 OItN.

(** (it_yield_sound, it_no_duplicate, it_complete) two buckets, memoized hash k mod 2: the traversal yields 10 and
    20 in bucket 0 (20 via the find started by ++ on the erased node), crosses to bucket 1 (15) and reaches end();
    the keys present throughout, 20 and 15, have been yielded *)
Example ex_trav_state :
  let st := st_of 2 true true hf_mod2 ex_trav in
  g_yield (its st 3%nat) = [mkY 0 10 1 true true 3; mkY 0 20 3 true true 4; mkY 1 15 2 true true 4] /\
  it_b (its st 3%nat) = 1 /\ it_cur (its st 3%nat) = 0 /\ g_trav (its st 3%nat) = true /\ g_lo (its st 3%nat) = None /\
  g_start (its st 3%nat) = [20; 15; 10] /\ g_always (its st 3%nat) = [20; 15] /\ th st 3%nat = Idle /\
  g_retired (sm st) = [1].
Proof. vm_compute. repeat split. Qed.

(** (it_erase_exact, it_erase_return) erase(iterator) on 20, the last element of bucket 0: the successor is 15 in
    bucket 1 *)
Definition ex_ite : list action := ex_ins ++ call 3 (OItF 20) ++ call 3 OItE.
Example ex_ite_state :
  let st := st_of 2 true true hf_mod2 ex_ite in
  g_yield (its st 3%nat) = [mkY 0 20 3 true true 3; mkY 1 15 2 true true 4] /\
  it_b (its st 3%nat) = 1 /\ it_cur (its st 3%nat) = 2 /\ g_abs (sm st) = [(15, 150); (10, 100)] /\ g_retired (sm st) = [3] /\
  g_lin (sm st) = [LIns 1 10 100 1; LIns 1 15 150 2; LIns 1 20 200 3; LDel 3 20 3 true].
Proof. vm_compute. repeat split. Qed.

(** T3: begin() (10), ++ (the second element); T2: erase(15); T3: ++ *)
Definition ex_skip : list action := ex_ins ++ call 3 OItB ++ call 3 OItN ++ call 2 (ODel 15) ++ call 3 OItN.

(** one bucket, memoized hash k mod 2, the ordering predicate of the code: the chain is 10, 20, 15 and the traversal
    is complete *)
Example ex_skip_lex :
  let st := st_of 1 true true hf_mod2 ex_skip in
  map (nkey (sm st)) (chain (sm st) 0) = [10; 20] /\ map y_key (g_yield (its st 3%nat)) = [10; 20] /\
  it_cur (its st 3%nat) = 0 /\ g_always (its st 3%nat) = [20; 10].
Proof. vm_compute. repeat split. Qed.

(** the former predicate [hash >= h && key >= k]: the chain is 10, 15, 20; the iterator stands on 15 when it is
    erased; the find started by ++ for (hash 1, key 15) walks past 20 (hash 0) to the end: 20 was in the map
    during the whole traversal and is not yielded *)
Example ex_skip_conj :
  let st := st_of 1 true false hf_mod2 ex_skip in
  map y_key (g_yield (its st 3%nat)) = [10; 15] /\ it_cur (its st 3%nat) = 0 /\ g_trav (its st 3%nat) = true /\
  g_lo (its st 3%nat) = None /\ th st 3%nat = Idle /\ g_always (its st 3%nat) = [20; 10] /\
  g_abs (sm st) = [(20, 200); (10, 100)].
Proof. vm_compute. repeat split. Qed.

(** REFUTED for the former ordering predicate: "a traversal from begin() that reaches end() has yielded every key
    that was present throughout" (memoized hash k mod 2, one bucket; the implementation reproduced this schedule
    before greater_or_equal was made lexicographic) *)
Theorem it_complete_refuted_conj :
  ~ (forall st t k, reach (init 1) (step 1 true false hf_mod2) st ->
       g_trav (its st t) = true -> g_lo (its st t) = None -> in_start (th st t) = false -> it_cur (its st t) = 0 ->
       In k (g_always (its st t)) -> yielded (its st t) k).
Proof.
  intros H. pose proof (H (st_of 1 true false hf_mod2 ex_skip) 3%nat 20 (st_of_reach _ _ _ _ _)) as H1. clear H.
  vm_compute in H1.
  destruct (H1 eq_refl eq_refl eq_refl eq_refl (or_introl eq_refl)) as [Hq | [Hq | []]]; discriminate Hq.
Qed.
