(** nikolaev_bounded_queue model (repaired code), invariant layer 4: the is_safe flag and NO STRANDING.
    An index is never published with an enqueue ticket whose dequeue ticket has been given up, and a dequeue
    ticket is never given up while an index is published with it:
    - a slot that a dequeuer left behind with an older cycle is unsafe ([Lb]); dequeuers keep the flag when they
      advance an empty slot (the repair), so it stays unsafe until an enqueue of a cycle >= the dequeuer's writes it;
    - an enqueuer writes into an unsafe slot only after it has seen head <= its ticket; from that load on no
      dequeuer of the same slot with a ticket >= its own can have left without changing the slot word ([P]);
    - local copies of entries are never newer than the slot (cycles only grow, within a cycle an entry only goes
      from "index" to "bottom") ([M]). *)
From Coq Require Import NArith List Bool Lia PeanoNat.
From XV Require Import Base.Word Conc.Lts Conc.Ev gen.ScqGen Model.NikbDefs Proof.NikbArith Proof.NikbBase Proof.NikbWf Proof.NikbOwn Proof.NikbVal.
Import ListNotations.
Local Open Scope N_scope.

(** an index published with a ticket whose dequeue ticket was given up *)
Definition stranded (r : ring) (T : N) : Prop := exists i, g_eq r T = EPub i /\ g_dq r T = DLeft.

Set Default Proof Using "All".
Section L4.
  Variable k R : N.
  Hypothesis Hk : k <= 40.
  Notation cap := (2 ^ k).
  Notation step := (step cap R).
  Notation ecyc := (ecyc k).
  Notation eidx := (eidx k).
  Notation esafe := (esafe k).
  Notation bot := (bot k).
  Notation clt := (clt k).
  Notation cmax := (cmax k).
  Notation Inv1 := (Inv1 k).
  Notation Inv2 := (Inv2 k).
  Notation slot := (slot k).

  (** rank of the cycle of an entry: the initial all-ones entries are before cycle 0 *)
  Definition rk (e : N) : N := if ecyc e =? cmax then 0 else ecyc e + 1.

  Lemma clt_rk e c : clt e c = (rk e <=? c).
  Proof.
    unfold NikbArith.clt, rk. destruct (N.eqb_spec (ecyc e) cmax); cbn [orb]; [symmetry; apply N.leb_le; lia|].
    destruct (N.ltb_spec (ecyc e) c), (N.leb_spec (ecyc e + 1) c); try reflexivity; lia.
  Qed.

  Lemma rk_of_cycle e c : c < cmax -> ecyc e = c -> rk e = c + 1.
  Proof. intros Hc He. unfold rk. destruct (N.eqb_spec (ecyc e) cmax); [lia|]. lia. Qed.

  (** the local copy a is not newer than the slot word m *)
  Definition le_ent (a m : N) : Prop := rk a < rk m \/ (rk a = rk m /\ (eidx a = bot -> eidx m = bot)).
  Lemma le_ent_refl a : le_ent a a. Proof. right. split; [reflexivity|auto]. Qed.
  Lemma le_ent_trans a b c : le_ent a b -> le_ent b c -> le_ent a c.
  Proof. unfold le_ent. intros [H1|[H1 H1']] [H2|[H2 H2']]; [left; lia|left; lia|left; lia|right; split; [lia|auto]]. Qed.

  Definition nh (f : dfate) : Prop := f = DNone \/ exists u, f = DHeld u.

  Definition T4 (st : state) (p : pc) : Prop :=
    match p with
    | D4 q _ hd _ e | D5 q _ hd _ e _ => le_ent e (slot st q (hd / 2))
    | E3 q _ _ _ tl e => le_ent e (slot st q (tl / 2))
    | E4 q _ _ _ tl e =>
      le_ent e (slot st q (tl / 2)) /\
      (esafe e = false -> slot st q (tl / 2) = e ->
       forall H, phys cap (2 * H) = phys cap (2 * (tl / 2)) -> tl / 2 <= H -> nh (g_dq (rg st q) H))
    | _ => True
    end.

  Record Inv4 (st : state) : Prop := mkI4 {
    i4t : forall t, T4 st (th st t);
    i4lb : forall q H, g_dq (rg st q) H = DLeft -> 2 * H < 2 ^ 62 -> clt (slot st q H) (H / nn cap) = true -> esafe (slot st q H) = false;
    i4ns : forall q H i, g_dq (rg st q) H = DLeft -> g_eq (rg st q) H <> EPub i }.

  Lemma Inv4_init : Inv4 (init cap).
  Proof.
    constructor.
    - intros t. exact I.
    - intros q H Hx. destruct q; cbn [init rgs g_dq] in Hx; discriminate.
    - intros q H i Hx. destruct q; cbn [init rgs g_dq] in Hx; discriminate.
  Qed.

  Lemma T4_frame s s' p :
    (forall q T, slot s' q T = slot s q T) -> (forall q H, nh (g_dq (rg s q) H) -> nh (g_dq (rg s' q) H)) -> T4 s p -> T4 s' p.
  Proof.
    intros Hs Hn. destruct p; cbn [T4]; try tauto; rewrite ?Hs; try tauto.
    intros [A B]. split; [exact A|]. intros H1 H2 H H3 H4. apply Hn. apply B; assumption.
  Qed.

  (** steps that write no slot, give no ticket up and publish nothing *)
  Lemma F4_pure s s' t p' :
    Inv4 s -> (forall q T, slot s' q T = slot s q T) ->
    (forall q H, g_dq (rg s' q) H = DLeft -> g_dq (rg s q) H = DLeft) ->
    (forall q T i, g_eq (rg s' q) T = EPub i -> g_eq (rg s q) T = EPub i) ->
    (forall q H, nh (g_dq (rg s q) H) -> nh (g_dq (rg s' q) H)) ->
    th s' = upd (th s) t p' -> T4 s' p' -> Inv4 s'.
  Proof.
    intros [a b c] Hs Hl He Hn Hth Hp. constructor.
    - intros u. rewrite Hth. destruct (Nat.eq_dec u t) as [->|Hne]; [rewrite upd_same; exact Hp|rewrite upd_other by exact Hne].
      apply (T4_frame s s'); [exact Hs|exact Hn|apply a].
    - intros q H Hx. rewrite Hs. apply b. apply Hl. exact Hx.
    - intros q H i Hx Hy. apply (c q H i); [apply Hl; exact Hx|apply He; exact Hy].
  Qed.

  Lemma div_nn_mono a b : a <= b -> a / nn cap <= b / nn cap.
  Proof. intros H. apply N.div_le_mono; [assert (Hn := nn_pos k Hk); lia|exact H]. Qed.

  Lemma tick_cycle_lt_cmax T : 2 * T < 2 ^ 62 -> T / nn cap < cmax.
  Proof.
    intros HT. assert (H := ecyc_ctr k Hk (2 * T) HT). rewrite (ecyc_tick k Hk) in H. assert (H2 := CB_lt_cmax k Hk). lia.
  Qed.

  (** facts about a thread at E4 (from layer 1) *)
  Lemma E4_facts s u q x idx gk tl e : Inv1 s -> th s u = E4 q x idx gk tl e ->
    tl = 2 * (tl / 2) /\ tl < 2 ^ 62 /\ eidx e = bot /\ rk e <= (tl / 2) / nn cap.
  Proof.
    intros [_ HT1] E. pose proof (HT1 u) as Hu. rewrite E in Hu. cbn [T1] in Hu.
    destruct Hu as (_ & [Ht2 Htlt] & _ & _ & Hb & Hc). ssplit; [exact Ht2|exact Htlt|exact Hb|].
    rewrite clt_rk in Hc. apply N.leb_le in Hc. rewrite Ht2 in Hc at 1. rewrite (ecyc_tick k Hk) in Hc. exact Hc.
  Qed.

  (** ** a dequeue ticket is given up without a write *)
  Lemma F4_leave s s' t q0 H0 p' :
    Inv1 s -> Inv4 s ->
    (forall q T, slot s' q T = slot s q T) ->
    (forall q H, g_dq (rg s' q) H = if rid_eqb q q0 && (H =? H0) then DLeft else g_dq (rg s q) H) ->
    (forall q T, g_eq (rg s' q) T = g_eq (rg s q) T) ->
    g_dq (rg s q0) H0 = DHeld t -> 2 * H0 < 2 ^ 62 ->
    th s' = upd (th s) t p' -> T4 s' p' ->
    ~ (eidx (slot s q0 H0) = bot /\ clt (slot s q0 H0) (H0 / nn cap) = true) ->
    (clt (slot s q0 H0) (H0 / nn cap) = true -> esafe (slot s q0 H0) = false) ->
    (forall i, g_eq (rg s q0) H0 <> EPub i) ->
    Inv4 s'.
  Proof.
    intros H1 [a b c] Hs Hd He Hheld HH0 Hth Hp HA HB HC. constructor.
    - intros u. rewrite Hth. destruct (Nat.eq_dec u t) as [->|Hne]; [rewrite upd_same; exact Hp|rewrite upd_other by exact Hne].
      pose proof (a u) as Hu. destruct (th s u) eqn:Eu; cbn [T4] in *; rewrite ?Hs; try exact Hu.
      destruct Hu as [A B]. split; [exact A|]. intros X1 X2 H X3 X4. rewrite Hd.
      destruct (rid_eqb_spec q q0) as [->|Hnq]; cbn [andb]; [|apply B; assumption].
      destruct (N.eqb_spec H H0) as [->|HnH]; [|apply B; assumption].
      exfalso. apply HA. destruct (E4_facts s u q0 x idx gk tl e H1 Eu) as (F1 & F2 & F3 & F4).
      assert (Hsl : slot s q0 H0 = e) by (unfold NikbOwn.slot in *; rewrite X3; exact X2).
      rewrite Hsl. split; [exact F3|]. rewrite clt_rk. apply N.leb_le. pose proof (div_nn_mono _ _ X4). lia.
    - intros q H. rewrite Hd, Hs. destruct (rid_eqb_spec q q0) as [->|Hnq]; cbn [andb]; [|apply b].
      destruct (N.eqb_spec H H0) as [->|HnH]; [intros _ _; exact HB|apply b].
    - intros q H i. rewrite Hd, He. destruct (rid_eqb_spec q q0) as [->|Hnq]; cbn [andb]; [|apply c].
      destruct (N.eqb_spec H H0) as [->|HnH]; [intros _; apply HC|apply c].
  Qed.

  (** ** a slot is written: the common part.  [w] replaces the word [old] in the slot of ticket H0 of ring q0 *)
  Lemma T4_write s s' q0 H0 w u :
    Inv1 s -> (forall q T, slot s' q T = if rid_eqb q q0 && (phys cap (2 * T) =? phys cap (2 * H0)) then w else slot s q T) ->
    (forall q H, phys cap (2 * H) <> phys cap (2 * H0) \/ q <> q0 -> nh (g_dq (rg s q) H) -> nh (g_dq (rg s' q) H)) ->
    le_ent (slot s q0 H0) w ->
    (rk (slot s q0 H0) < rk w \/ eidx w <> bot \/ eidx (slot s q0 H0) <> bot) ->
    T4 s (th s u) -> T4 s' (th s u).
  Proof.
    intros H1 Hs Hn Hle Hw Hu.
    assert (Hsame : forall q T, rid_eqb q q0 && (phys cap (2 * T) =? phys cap (2 * H0)) = true -> slot s q T = slot s q0 H0).
    { intros q T Hc. apply andb_true_iff in Hc. destruct Hc as [Hq Hp]. destruct (rid_eqb_spec q q0) as [->|]; [|discriminate].
      apply N.eqb_eq in Hp. unfold NikbOwn.slot. rewrite Hp. reflexivity. }
    destruct (th s u) eqn:Eu; cbn [T4] in *; try exact I; rewrite ?Hs.
    1,2,3: destruct (rid_eqb q q0 && _) eqn:Hc; [|exact Hu]; rewrite (Hsame _ _ Hc) in Hu; apply (le_ent_trans _ _ _ Hu Hle).
    destruct Hu as [A B]. destruct (rid_eqb q q0 && _) eqn:Hc.
    - rewrite (Hsame _ _ Hc) in A. split; [apply (le_ent_trans _ _ _ A Hle)|]. intros X1 X2. exfalso.
      destruct (E4_facts s u q x idx gk tl e H1 Eu) as (F1 & F2 & F3 & F4). subst w.
      destruct A as [A|[A A']]; destruct Hle as [L|[L L']]; destruct Hw as [W|[W|W]]; try lia; try (apply W; exact F3); try (apply W; apply A'; exact F3).
    - split; [exact A|]. intros X1 X2 H X3 X4. apply Hn; [|apply B; assumption].
      apply andb_false_iff in Hc. destruct Hc as [Hc|Hc]; [right; destruct (rid_eqb_spec q q0); [discriminate|assumption]|left].
      apply N.eqb_neq in Hc. rewrite X3. exact Hc.
  Qed.

  Lemma slot_same_pos s q T T' : phys cap (2 * T) = phys cap (2 * T') -> slot s q T = slot s q T'.
  Proof. intros H. unfold NikbOwn.slot. rewrite H. reflexivity. Qed.

  (** ** the three writes *)

  (** dequeue takes the index (fetch_or): same cycle, same flag, index -> bottom; ticket H0: DHeld t -> DTaken *)
  Lemma F4_take s s' t q0 H0 w i0 p' :
    Inv1 s -> Inv4 s ->
    (forall q T, slot s' q T = if rid_eqb q q0 && (phys cap (2 * T) =? phys cap (2 * H0)) then w else slot s q T) ->
    (forall q H, g_dq (rg s' q) H = if rid_eqb q q0 && (H =? H0) then DTaken i0 else g_dq (rg s q) H) ->
    (forall q T, g_eq (rg s' q) T = g_eq (rg s q) T) ->
    g_dq (rg s q0) H0 = DHeld t ->
    rk w = rk (slot s q0 H0) -> esafe w = esafe (slot s q0 H0) -> eidx w = bot -> eidx (slot s q0 H0) <> bot ->
    th s' = upd (th s) t p' -> T4 s' p' -> Inv4 s'.
  Proof.
    intros H1 [a b c] Hs Hd He Hheld Hrk Hsf Hwb Hob Hth Hp.
    assert (Hnh : forall q H, phys cap (2 * H) <> phys cap (2 * H0) \/ q <> q0 -> nh (g_dq (rg s q) H) -> nh (g_dq (rg s' q) H)).
    { intros q H Hx Hy. rewrite Hd. destruct (rid_eqb_spec q q0) as [->|Hnq]; cbn [andb]; [|exact Hy].
      destruct (N.eqb_spec H H0) as [->|_]; [|exact Hy]. destruct Hx as [Hx|Hx]; exfalso; apply Hx; reflexivity. }
    assert (Hleft : forall q H, g_dq (rg s' q) H = DLeft -> g_dq (rg s q) H = DLeft).
    { intros q H. rewrite Hd. destruct (rid_eqb q q0 && (H =? H0)); [discriminate|auto]. }
    constructor.
    - intros u. rewrite Hth. destruct (Nat.eq_dec u t) as [->|Hne]; [rewrite upd_same; exact Hp|rewrite upd_other by exact Hne].
      apply (T4_write s s' q0 H0 w u H1 Hs Hnh); [right; split; [lia|intros; exact Hwb]|right; right; exact Hob|apply a].
    - intros q H Hx HH. apply Hleft in Hx. rewrite Hs. destruct (rid_eqb q q0 && _) eqn:Hc; [|apply b; assumption].
      apply andb_true_iff in Hc. destruct Hc as [Hq Hpp]. destruct (rid_eqb_spec q q0) as [->|]; [|discriminate]. apply N.eqb_eq in Hpp.
      rewrite Hsf, clt_rk, Hrk, <- clt_rk, <- (slot_same_pos s q0 H H0 Hpp). apply b; assumption.
    - intros q H i Hx. rewrite He. apply c. apply Hleft. exact Hx.
  Qed.

  (** a dequeue CAS (clear the flag of an older entry, or advance an older empty slot) with ticket H0, which is given up *)
  Lemma F4_cas s s' t q0 H0 w p' :
    Inv1 s -> Inv2 s -> Inv4 s -> 2 * H0 < 2 ^ 62 ->
    (forall q T, slot s' q T = if rid_eqb q q0 && (phys cap (2 * T) =? phys cap (2 * H0)) then w else slot s q T) ->
    (forall q H, g_dq (rg s' q) H = if rid_eqb q q0 && (H =? H0) then DLeft else g_dq (rg s q) H) ->
    (forall q T, g_eq (rg s' q) T = g_eq (rg s q) T) ->
    g_dq (rg s q0) H0 = DHeld t ->
    rk (slot s q0 H0) <= H0 / nn cap ->
    ((rk w = rk (slot s q0 H0) /\ eidx w = eidx (slot s q0 H0) /\ eidx w <> bot /\ esafe w = false) \/
     (rk w = H0 / nn cap + 1 /\ eidx w = bot /\ esafe w = esafe (slot s q0 H0))) ->
    th s' = upd (th s) t p' -> T4 s' p' -> Inv4 s'.
  Proof.
    intros H1 (HR & _ & _) [a b c] HH0 Hs Hd He Hheld Hold Hw Hth Hp.
    set (old := slot s q0 H0) in *.
    assert (Hnh : forall q H, phys cap (2 * H) <> phys cap (2 * H0) \/ q <> q0 -> nh (g_dq (rg s q) H) -> nh (g_dq (rg s' q) H)).
    { intros q H Hx Hy. rewrite Hd. destruct (rid_eqb_spec q q0) as [->|Hnq]; cbn [andb]; [|exact Hy].
      destruct (N.eqb_spec H H0) as [->|_]; [|exact Hy]. destruct Hx as [Hx|Hx]; exfalso; apply Hx; reflexivity. }
    constructor.
    - intros u. rewrite Hth. destruct (Nat.eq_dec u t) as [->|Hne]; [rewrite upd_same; exact Hp|rewrite upd_other by exact Hne].
      apply (T4_write s s' q0 H0 w u H1 Hs Hnh); [| |apply a]; fold old.
      + destruct Hw as [(W1 & W2 & W3 & W4)|(W1 & W2 & W3)]; [right; split; [lia|intros Hx; rewrite W2; exact Hx]|left; lia].
      + destruct Hw as [(W1 & W2 & W3 & W4)|(W1 & W2 & W3)]; [right; left; exact W3|left; lia].
    - intros q H. rewrite Hd, Hs. destruct (rid_eqb_spec q q0) as [->|Hnq]; cbn [andb]; [|apply b].
      destruct (N.eqb_spec (phys cap (2 * H)) (phys cap (2 * H0))) as [Hpp|Hpp].
      + intros Hx HH Hc.
        destruct Hw as [(W1 & W2 & W3 & W4)|(W1 & W2 & W3)]; [exact W4|].
        rewrite clt_rk in Hc. apply N.leb_le in Hc.
        destruct (N.eqb_spec H H0) as [->|HnH]; [lia|].
        rewrite W3. unfold old. rewrite <- (slot_same_pos s q0 H H0 Hpp). apply b; [exact Hx|exact HH|].
        rewrite clt_rk. apply N.leb_le. rewrite (slot_same_pos s q0 H H0 Hpp). fold old. lia.
      + destruct (N.eqb_spec H H0) as [->|HnH]; [exfalso; apply Hpp; reflexivity|apply b].
    - intros q H i. rewrite Hd, He. destruct (rid_eqb_spec q q0) as [->|Hnq]; cbn [andb]; [|apply c].
      destruct (N.eqb_spec H H0) as [->|HnH]; [intros _ Hx|apply c].
      destruct (HR q0) as [_ _ _ _ _ _ _ s5 _]. destruct (s5 H0 i Hx) as [_ [Ht|(_ & _ & Hcy)]]; [rewrite Hheld in Ht; discriminate|].
      fold old in Hcy. rewrite (rk_of_cycle old (H0 / nn cap) (tick_cycle_lt_cmax H0 HH0) Hcy) in Hold. lia.
  Qed.

  (** an enqueue publishes index idx with ticket T0 over the empty word e *)
  Lemma F4_pub s s' t q0 x idx gk tl e w i0 p' :
    Inv1 s -> Inv4 s -> th s t = E4 q0 x idx gk tl e -> slot s q0 (tl / 2) = e ->
    (forall q T, slot s' q T = if rid_eqb q q0 && (phys cap (2 * T) =? phys cap (2 * (tl / 2))) then w else slot s q T) ->
    (forall q H, g_dq (rg s' q) H = g_dq (rg s q) H) ->
    (forall q T, g_eq (rg s' q) T = if rid_eqb q q0 && (T =? tl / 2) then EPub i0 else g_eq (rg s q) T) ->
    rk w = (tl / 2) / nn cap + 1 -> eidx w <> bot ->
    th s' = upd (th s) t p' -> T4 s' p' -> Inv4 s'.
  Proof.
    intros H1 [a b c] Et Hcur Hs Hd He Hrk Hwi Hth Hp.
    destruct (E4_facts s t q0 x idx gk tl e H1 Et) as (F1 & F2 & F3 & F4). set (T0 := tl / 2) in *.
    assert (HT0 : 2 * T0 < 2 ^ 62) by (rewrite <- F1; exact F2).
    pose proof (a t) as Ht. rewrite Et in Ht. cbn [T4] in Ht. destruct Ht as [_ HP]. fold T0 in HP.
    assert (Hnh : forall q H, phys cap (2 * H) <> phys cap (2 * T0) \/ q <> q0 -> nh (g_dq (rg s q) H) -> nh (g_dq (rg s' q) H)).
    { intros q H _ Hy. rewrite Hd. exact Hy. }
    (* no ticket of this slot from T0 on has been given up *)
    assert (Hnoleft : forall H, phys cap (2 * H) = phys cap (2 * T0) -> T0 <= H -> 2 * H < 2 ^ 62 -> g_dq (rg s q0) H <> DLeft).
    { intros H Hpp Hle HH Hx. destruct (esafe e) eqn:Hsafe.
      - assert (Hu := b q0 H Hx HH). rewrite (slot_same_pos s q0 H T0 Hpp), Hcur in Hu. rewrite Hu in Hsafe; [discriminate|].
        rewrite clt_rk. apply N.leb_le. pose proof (div_nn_mono _ _ Hle). lia.
      - destruct (HP eq_refl Hcur H Hpp Hle) as [Hn|[u Hn]]; rewrite Hn in Hx; discriminate. }
    constructor.
    - intros u. rewrite Hth. destruct (Nat.eq_dec u t) as [->|Hne]; [rewrite upd_same; exact Hp|rewrite upd_other by exact Hne].
      apply (T4_write s s' q0 T0 w u H1 Hs Hnh); [rewrite Hcur; left; lia|right; left; exact Hwi|apply a].
    - intros q H. rewrite Hd, Hs. destruct (rid_eqb_spec q q0) as [->|Hnq]; cbn [andb]; [|apply b].
      destruct (N.eqb_spec (phys cap (2 * H)) (phys cap (2 * T0))) as [Hpp|Hpp]; [|apply b].
      intros Hx HH Hc. exfalso. rewrite clt_rk, Hrk in Hc. apply N.leb_le in Hc.
      apply (Hnoleft H Hpp); [|exact HH|exact Hx].
      destruct (N.le_gt_cases T0 H) as [Hle|Hgt]; [exact Hle|]. pose proof (div_nn_mono H T0 ltac:(lia)). lia.
    - intros q H i. rewrite Hd, He. destruct (rid_eqb_spec q q0) as [->|Hnq]; cbn [andb]; [|apply c].
      destruct (N.eqb_spec H T0) as [->|HnH]; [|apply c]. intros Hx _. apply (Hnoleft T0 eq_refl (N.le_refl _) HT0 Hx).
  Qed.

  (** ** the step lemma *)
  Ltac slot_same_tac :=
    let q' := fresh "q'" in let T := fresh "T" in
    intros q' T; unfold NikbOwn.slot; sim;
    try (match goal with |- context [rid_eqb q' ?q] => destruct (rid_eqb_spec q' q) as [->|?] end); sim; reflexivity.
  Ltac pure_fate :=
    let q' := fresh "q'" in let H := fresh "H" in
    intros q' H; sim;
    try (match goal with |- context [rid_eqb q' ?q] => destruct (rid_eqb_spec q' q) as [->|?] end); sim; unfold setf;
    try (match goal with |- context [if ?a =? ?b then _ else _] => destruct (N.eqb_spec a b) end);
    intros; try discriminate; try assumption; try (right; eexists; reflexivity).
  Ltac pure_step s t HI :=
    eapply (F4_pure s _ t); [exact HI|slot_same_tac|pure_fate|pure_fate|pure_fate|sim; reflexivity|].

  Lemma ticket_of_pc s t q hd : Inv1 s -> Inv2 s -> dtk (th s t) = Some (q, hd) ->
    hd = 2 * (hd / 2) /\ hd < 2 ^ 62 /\ g_dq (rg s q) (hd / 2) = DHeld t /\ ecyc hd = (hd / 2) / nn cap.
  Proof.
    intros [_ HT1] (_ & HT & _) Hd. pose proof (HT t) as (Ta & _). specialize (Ta q hd Hd).
    assert (Hctr : ctr hd).
    { pose proof (HT1 t) as Hu. destruct (th s t); cbn [dtk] in Hd; try discriminate; apply some_pair_inj in Hd; destruct Hd as [<- <-];
      cbn [T1] in Hu; tauto. }
    destruct Hctr as [Hhd2 Hhdlt]. ssplit; [exact Hhd2|exact Hhdlt|exact Ta|]. rewrite Hhd2 at 1. apply (ecyc_tick k Hk).
  Qed.

  Lemma not_published_if_cycle_differs s t q hd : Inv1 s -> Inv2 s -> dtk (th s t) = Some (q, hd) ->
    ecyc (slot s q (hd / 2)) <> (hd / 2) / nn cap \/ eidx (slot s q (hd / 2)) = bot -> forall i, g_eq (rg s q) (hd / 2) <> EPub i.
  Proof.
    intros H1 H2 Hd Hx i Hp. destruct (ticket_of_pc s t q hd H1 H2 Hd) as (_ & _ & Hheld & _).
    destruct H2 as (HR & _). destruct (HR q) as [_ _ _ _ _ _ _ s5 _].
    destruct (s5 _ i Hp) as [Hi [Ht|(_ & Hsi & Hcy)]]; [rewrite Hheld in Ht; discriminate|].
    destruct Hx as [Hx|Hx]; [apply Hx; exact Hcy|]. rewrite Hx in Hsi. apply (lt_cap_ne_bot k R Hk i Hi). symmetry. exact Hsi.
  Qed.

  (** the loop body of dequeue evaluated on the current slot word (load or failed CAS) *)
  Lemma dq_eval_step4 s s' t q x hd att :
    Inv1 s -> Inv2 s -> Inv4 s -> dtk (th s t) = Some (q, hd) ->
    let m := rdata (rg s q) (phys cap hd) in
    s' = w_th (mark_left s q hd (dq_eval cap q x hd att m)) (upd (th (mark_left s q hd (dq_eval cap q x hd att m))) t (dq_eval cap q x hd att m)) ->
    Inv4 s'.
  Proof.
    intros H1 H2 HI Hd m ->. destruct (ticket_of_pc s t q hd H1 H2 Hd) as (Hhd2 & Hhdlt & Hheld & Hcyc).
    assert (Hm : slot s q (hd / 2) = m) by (unfold NikbOwn.slot, m; rewrite <- Hhd2; reflexivity).
    assert (HH0 : 2 * (hd / 2) < 2 ^ 62) by (rewrite <- Hhd2; exact Hhdlt).
    destruct H1 as [HW HT1]. destruct (HW q) as (_ & _ & _ & Hdw). assert (Hwm : wfe k m) by apply Hdw.
    destruct (dq_eval_cases cap q x hd att m) as [[C1 E]|[C1 [[C2 [[C3 E]|[C3 [[C4 E]|[C4 E]]]]]|[C2 E]]]]; rewrite E.
    - rewrite (mark_left_core k R Hk) by reflexivity. pure_step s t HI. exact I.
    - (* leave: index entry already unsafe *)
      eapply (F4_leave s _ t q (hd / 2)); [exact (conj HW HT1)|exact HI|unfold mark_left; cbn [leaves]; slot_same_tac| | |exact Hheld|exact HH0|unfold mark_left; cbn [leaves]; sim; reflexivity|exact I| | |].
      + intros q' H. unfold mark_left; cbn [leaves]; sim. destruct (rid_eqb_spec q' q) as [->|?]; sim; cbn [andb]; reflexivity.
      + intros q' T. unfold mark_left; cbn [leaves]; sim. destruct (rid_eqb_spec q' q) as [->|?]; sim; reflexivity.
      + rewrite Hm. intros [Hb _]. rewrite (is_bot_eqb k Hk) in C2. apply N.eqb_neq in C2. contradiction.
      + rewrite Hm. intros _. rewrite (unsafe_eqb k Hk) in C3. apply negb_true_iff in C3. exact C3.
      + apply (not_published_if_cycle_differs s t q hd (conj HW HT1) H2 Hd). left. rewrite Hm, <- Hcyc.
        rewrite (cyc_eqb k Hk) in C1. apply N.eqb_neq in C1. exact C1.
    - rewrite (mark_left_core k R Hk) by reflexivity. pure_step s t HI. cbn [T4]. unfold NikbOwn.slot. sim. rewrite <- Hhd2. apply le_ent_refl.
    - (* leave: index entry of a cycle not before the ticket's *)
      eapply (F4_leave s _ t q (hd / 2)); [exact (conj HW HT1)|exact HI|unfold mark_left; cbn [leaves]; slot_same_tac| | |exact Hheld|exact HH0|unfold mark_left; cbn [leaves]; sim; reflexivity|exact I| | |].
      + intros q' H. unfold mark_left; cbn [leaves]; sim. destruct (rid_eqb_spec q' q) as [->|?]; sim; cbn [andb]; reflexivity.
      + intros q' T. unfold mark_left; cbn [leaves]; sim. destruct (rid_eqb_spec q' q) as [->|?]; sim; reflexivity.
      + rewrite Hm. intros [Hb _]. rewrite (is_bot_eqb k Hk) in C2. apply N.eqb_neq in C2. contradiction.
      + rewrite Hm. intros Hc. exfalso. rewrite (cyc_lt_diff k Hk) in C4; [|apply (wfe_cycle_ok k R Hk); exact Hwm|exact Hhdlt].
        rewrite Hcyc in C4. congruence.
      + apply (not_published_if_cycle_differs s t q hd (conj HW HT1) H2 Hd). left. rewrite Hm, <- Hcyc.
        rewrite (cyc_eqb k Hk) in C1. apply N.eqb_neq in C1. exact C1.
    - rewrite (mark_left_core k R Hk) by reflexivity. pure_step s t HI. cbn [T4]. unfold NikbOwn.slot. sim. rewrite <- Hhd2. apply le_ent_refl.
  Qed.

  Lemma en_eval_step4 s s' t q x idx gk tl :
    Inv1 s -> Inv4 s -> etk (th s t) = Some (q, tl) ->
    let m := rdata (rg s q) (phys cap tl) in
    s' = w_th (mark_skip s q tl (en_eval cap q x idx gk tl m)) (upd (th (mark_skip s q tl (en_eval cap q x idx gk tl m))) t (en_eval cap q x idx gk tl m)) ->
    Inv4 s'.
  Proof.
    intros H1 HI He m ->.
    assert (Hctr : ctr tl).
    { destruct H1 as [_ HT1]. pose proof (HT1 t) as Hu. destruct (th s t); cbn [etk] in He; try discriminate; apply some_pair_inj in He; destruct He as [<- <-];
      cbn [T1] in Hu; tauto. }
    destruct Hctr as [Htl2 Htllt].
    destruct (en_eval_cases cap q x idx gk tl m) as [(C1 & C2 & E)|[(C1 & C2 & C3 & E)|E]]; rewrite E; unfold mark_skip; cbn [skips].
    - pure_step s t HI. cbn [T4]. unfold NikbOwn.slot. sim. rewrite <- Htl2. split; [apply le_ent_refl|].
      intros Hs. exfalso. rewrite (safe_bot_eqb k Hk) in C2. apply andb_true_iff in C2. destruct C2 as [C2 _]. fold m in Hs. congruence.
    - pure_step s t HI. cbn [T4]. unfold NikbOwn.slot. sim. rewrite <- Htl2. apply le_ent_refl.
    - pure_step s t HI. exact I.
  Qed.

  Lemma Inv4_step s a s' es : Inv1 s -> Inv2 s -> Inv4 s -> step s a = Some (s', es) -> Inv4 s'.
  Proof.
    intros H1 H2 HI Hst. pose proof H1 as [HW HT1]. pose proof H2 as (HR & HT & HO).
    unfold NikbDefs.step, step_gen in Hst. destruct a as [t o|t].
    - destruct (th s t) eqn:E; try discriminate. inversion Hst; subst; clear Hst. pure_step s t HI. exact I.
    - pose proof (HT1 t) as Hme. pose proof (i4t s HI t) as Hme4.
      destruct (th s t) as [|[v|tp]|q x|q x|q x hd att|q x hd e|q x hd att e|q x hd att e enew|q x hd|q x|q x tl hd|q x tl|q x
                           |q x idx gk|q x idx gk tl|q x idx gk tl e|q x idx gk tl e|q x idx gk|q x idx gk] eqn:E; try discriminate;
        cbn [T1] in Hme; cbn [T4] in Hme4.
      + inversion Hst; subst; clear Hst. pure_step s t HI. exact I.
      + inversion Hst; subst; clear Hst. pure_step s t HI. exact I.
      + (* D0 *) destruct (lt0 _); inversion Hst; subst; clear Hst; pure_step s t HI; exact I.
      + (* D1 *) inversion Hst; subst; clear Hst. pure_step s t HI. exact I.
      + (* D2 *) inversion Hst; subst; clear Hst.
        eapply (dq_eval_step4 s _ t q x hd att); [exact H1|exact H2|exact HI|rewrite E; reflexivity|reflexivity].
      + (* D3 *) destruct (ticket_of_pc s t q hd H1 H2 ltac:(rewrite E; reflexivity)) as (Hhd2 & Hhdlt & Hheld & Hcyc).
        pose proof (HT t) as (_ & _ & _ & Td). rewrite E in Td. destruct Td as (Hidx & Hsi & Hsc).
        assert (Hm : slot s q (hd / 2) = rdata (rg s q) (phys cap hd)) by (unfold NikbOwn.slot; rewrite <- Hhd2; reflexivity).
        destruct (f_take k Hk (rdata (rg s q) (phys cap hd))) as (A & B & C).
        destruct q; inversion Hst; subst; clear Hst;
        (eapply (F4_take s _ t _ (hd / 2) (N.lor (rdata (rg s _) (phys cap hd)) (vmask cap)) (N.land e (vmask cap)));
         [exact H1|exact HI| | | |exact Hheld|unfold rk; rewrite Hm, A; reflexivity|rewrite Hm; exact B|exact C
         |rewrite Hsi; apply (lt_cap_ne_bot k R Hk); exact Hidx|sim; reflexivity|exact I]);
        try (intros q' T; unfold NikbOwn.slot; sim; destruct q'; sim; unfold setf; rewrite <- ?Hhd2; reflexivity);
        try (intros q' H; sim; destruct q'; sim; reflexivity).
      + (* D4 *) destruct (ticket_of_pc s t q hd H1 H2 ltac:(rewrite E; reflexivity)) as (Hhd2 & Hhdlt & Hheld & Hcyc).
        destruct Hme as (_ & _ & Hwe & Hb).
        inversion Hst; subst; clear Hst.
        destruct (gt0 _ && _).
        * rewrite (mark_left_core k R Hk) by reflexivity. pure_step s t HI. exact I.
        * destruct (lt0 (diff (cyc cap e) (cyc cap hd))) eqn:Hlt.
          -- rewrite (mark_left_core k R Hk) by reflexivity. pure_step s t HI. cbn [T4]. unfold NikbOwn.slot in *. sim. exact Hme4.
          -- rewrite (cyc_lt_diff k Hk) in Hlt; [|apply (wfe_cycle_ok k R Hk); exact Hwe|exact Hhdlt].
             rewrite Hcyc, clt_rk in Hlt. apply N.leb_gt in Hlt.
             assert (HH0 : 2 * (hd / 2) < 2 ^ 62) by (rewrite <- Hhd2; exact Hhdlt).
             assert (Hrs : hd / 2 / nn cap < rk (slot s q (hd / 2))) by (destruct Hme4 as [X|[X _]]; lia).
             eapply (F4_leave s _ t q (hd / 2)); [exact H1|exact HI|unfold mark_left; cbn [leaves]; slot_same_tac| | |exact Hheld|exact HH0|unfold mark_left; cbn [leaves]; sim; reflexivity|exact I| | |].
             ++ intros q' H. unfold mark_left; cbn [leaves]; sim. destruct (rid_eqb_spec q' q) as [->|?]; sim; cbn [andb]; reflexivity.
             ++ intros q' T. unfold mark_left; cbn [leaves]; sim. destruct (rid_eqb_spec q' q) as [->|?]; sim; reflexivity.
             ++ intros [_ Hc]. rewrite clt_rk in Hc. apply N.leb_le in Hc. lia.
             ++ intros Hc. rewrite clt_rk in Hc. apply N.leb_le in Hc. lia.
             ++ apply (not_published_if_cycle_differs s t q hd H1 H2 ltac:(rewrite E; reflexivity)).
                destruct Hme4 as [X|[X X']]; [left|right; apply X'; exact Hb].
                intros Hc. rewrite (rk_of_cycle _ _ (tick_cycle_lt_cmax _ HH0) Hc) in X. lia.
      + (* D5 *) destruct (ticket_of_pc s t q hd H1 H2 ltac:(rewrite E; reflexivity)) as (Hhd2 & Hhdlt & Hheld & Hcyc).
        destruct Hme as (_ & _ & Hwe & Hlt & Hnew).
        assert (HH0 : 2 * (hd / 2) < 2 ^ 62) by (rewrite <- Hhd2; exact Hhdlt).
        destruct (N.eqb_spec (rdata (rg s q) (phys cap hd)) e) as [Hcur|Hcur]; inversion Hst; subst; clear Hst.
        * assert (Hm : slot s q (hd / 2) = rdata (rg s q) (phys cap hd)) by (unfold NikbOwn.slot; rewrite <- Hhd2; reflexivity).
          rewrite Hcyc, clt_rk in Hlt. apply N.leb_le in Hlt.
          eapply (F4_cas s _ t q (hd / 2) enew); [exact H1|exact H2|exact HI|exact HH0| | | |exact Hheld|rewrite Hm; exact Hlt| |sim; reflexivity|exact I].
          -- intros q' T. unfold NikbOwn.slot. sim. destruct (rid_eqb_spec q' q) as [->|?]; sim; cbn [andb]; unfold setf; rewrite <- ?Hhd2; reflexivity.
          -- intros q' H. sim. destruct (rid_eqb_spec q' q) as [->|?]; sim; cbn [andb]; reflexivity.
          -- intros q' T. sim. destruct (rid_eqb_spec q' q) as [->|?]; sim; reflexivity.
          -- rewrite Hm. destruct Hnew as [[-> Hnb]|[-> Hb]].
             ++ left. destruct (f_unsafe k Hk (rdata (rgs s q) (phys cap hd))) as (A & B & C). unfold rk. rewrite A, C. ssplit; try reflexivity; [exact Hnb|exact B].
             ++ right. destruct (f_botw k Hk hd (rdata (rgs s q) (phys cap hd))) as (A & B & C).
                ssplit; [apply rk_of_cycle; [apply tick_cycle_lt_cmax; exact HH0|rewrite A; exact Hcyc]|exact C|exact B].
        * eapply (dq_eval_step4 s _ t q x hd att); [exact H1|exact H2|exact HI|rewrite E; reflexivity|reflexivity].
      + (* D6 *) destruct (gt0 _); inversion Hst; subst; clear Hst; pure_step s t HI; exact I.
      + (* D7 *) destruct (sle 64 _ 0); inversion Hst; subst; clear Hst; pure_step s t HI; exact I.
      + (* C1 *) destruct (_ =? tl); inversion Hst; subst; clear Hst; pure_step s t HI; exact I.
      + (* C2 *) destruct (lt0 _); inversion Hst; subst; clear Hst; pure_step s t HI; exact I.
      + (* D8 *) inversion Hst; subst; clear Hst; pure_step s t HI; exact I.
      + (* E1 *) destruct q; inversion Hst; subst; clear Hst; pure_step s t HI; exact I.
      + (* E2 *) inversion Hst; subst; clear Hst.
        eapply (en_eval_step4 s _ t q x idx gk tl); [exact H1|exact HI|rewrite E; reflexivity|reflexivity].
      + (* E3 *) destruct Hme as (_ & [Htl2 Htllt] & _ & _). destruct (HW q) as ([_ Hhlt] & _).
        destruct (gt0 (diff (rhead (rg s q)) tl)) eqn:Hg0; inversion Hst; subst; clear Hst; unfold mark_skip; cbn [skips].
        * pure_step s t HI. exact I.
        * pure_step s t HI. cbn [T4]. unfold NikbOwn.slot in *. sim. split; [exact Hme4|].
          intros _ _ H Hpp Hle. left. rewrite diff_gt0 in Hg0 by assumption. apply N.ltb_ge in Hg0.
          destruct (HR q) as [a1 _ _ _ _ _ _ _ _].
          destruct (g_dq (rgs s q) H) eqn:Eg; [reflexivity| | |];
            (assert (Hne : g_dq (rgs s q) H <> DNone) by (rewrite Eg; discriminate); specialize (a1 H Hne); lia).
      + (* E4 *) destruct Hme as (Hi & [Htl2 Htllt] & _ & _).
        pose proof (HT t) as (_ & _ & Tc & _). rewrite E in Tc. destruct (Tc q idx eq_refl) as [_ Hidx].
        destruct (N.eqb_spec (rdata (rg s q) (phys cap tl)) e) as [Hcur|Hcur].
        * destruct (f_enq k Hk tl idx (wfi_le k R Hk _ Hi)) as (A & B & C).
          assert (Hcyc : ecyc tl = (tl / 2) / nn cap) by (rewrite Htl2 at 1; apply (ecyc_tick k Hk)).
          assert (HT0 : 2 * (tl / 2) < 2 ^ 62) by (rewrite <- Htl2; exact Htllt).
          destruct q; inversion Hst; subst; clear Hst;
          (eapply (F4_pub s _ t _ x idx gk tl _ (enq_word false cap tl idx) idx);
           [exact H1|exact HI|exact E|unfold NikbOwn.slot; rewrite <- Htl2; reflexivity| | |
           |apply rk_of_cycle; [apply tick_cycle_lt_cmax; exact HT0|rewrite A; exact Hcyc]
           |rewrite C; apply (lt_cap_ne_bot k R Hk); exact Hidx|sim; reflexivity|exact I]);
          try (intros q' T; unfold NikbOwn.slot; sim; destruct q'; sim; unfold setf; rewrite <- ?Htl2; reflexivity);
          try (intros q' H; sim; destruct q'; sim; reflexivity).
        * inversion Hst; subst; clear Hst.
          eapply (en_eval_step4 s _ t q x idx gk tl); [exact H1|exact HI|rewrite E; reflexivity|reflexivity].
      + (* E5 *) destruct (_ =? thr_full cap); [destruct q|]; inversion Hst; subst; clear Hst; pure_step s t HI; exact I.
      + (* E6 *) destruct q; inversion Hst; subst; clear Hst; pure_step s t HI; exact I.
  Qed.

  Theorem Inv4_reach s : reach (init cap) step s -> g_ovf s = false -> Inv4 s.
  Proof.
    intros Hr. induction Hr as [|s a s' es Hr IH Hst]; intros Hov.
    - apply Inv4_init.
    - assert (Ho : g_ovf s = false) by (eapply ovf_sticky; eauto).
      destruct (Inv123_reach k R Hk s Hr Ho) as (I1 & I2 & _).
      eapply Inv4_step; [exact I1|exact I2|apply IH; exact Ho|exact Hst].
  Qed.
End L4.
