(** kirsch_bounded_kfifo_queue (C06): arithmetic of the ring -- segment numbers, the cyclic distance between
    segments, find_index / segment_empty indices, in_valid_region / not_in_valid_region.  No axioms, no admits. *)
From Coq Require Import NArith List Bool Lia.
From XV Require Import Base.Word Conc.Lts Conc.Ev Model.KfbDefs.
Import ListNotations.
Local Open Scope N_scope.

Set Default Proof Using "All".
Section Arith.
  Variables k segs : N.
  Hypothesis Hk : 1 <= k.
  Hypothesis Hs : 1 <= segs.

  Definition sg (x : N) : N := x / k.
  Definition wfi (x : N) : Prop := x = sg x * k /\ sg x < segs.
  Definition succs (a : N) : N := if a + 1 =? segs then 0 else a + 1.
  Definition dist (a b : N) : N := if a <=? b then b - a else b + segs - a.

  Lemma k_nz : k <> 0. Proof. lia. Qed.
  Lemma qsize_pos : 0 < qsize k segs. Proof. unfold qsize. nia. Qed.

  Lemma sg_mul a : sg (a * k) = a.
  Proof. unfold sg. apply N.div_mul. apply k_nz. Qed.
  Lemma sg_mul_add a o : o < k -> sg (a * k + o) = a.
  Proof. intros Ho. unfold sg. rewrite N.div_add_l by apply k_nz. rewrite (N.div_small o k Ho). lia. Qed.

  Lemma wfi_0 : wfi 0.
  Proof. unfold wfi, sg. rewrite N.div_0_l by apply k_nz. split; lia. Qed.

  Lemma wfi_lt x : wfi x -> x < qsize k segs.
  Proof. intros [H1 H2]. unfold qsize. rewrite H1. nia. Qed.

  Lemma succs_lt a : a < segs -> succs a < segs.
  Proof. intros H. unfold succs. destruct (N.eqb_spec (a + 1) segs); lia. Qed.

  Lemma adv_wf x : wfi x -> wfi ((x + k) mod qsize k segs) /\ sg ((x + k) mod qsize k segs) = succs (sg x).
  Proof.
    intros [H1 H2]. set (a := sg x) in *. assert (E : x + k = (a + 1) * k) by lia. rewrite E.
    unfold succs. destruct (N.eqb_spec (a + 1) segs) as [Heq|Hne].
    - rewrite Heq. unfold qsize. rewrite (N.mul_comm segs k). rewrite N.mod_same by nia.
      split; [apply wfi_0|]. unfold sg. apply N.div_0_l. apply k_nz.
    - assert (Hlt : (a + 1) * k < qsize k segs) by (unfold qsize; nia).
      rewrite N.mod_small by exact Hlt. split; [|apply sg_mul].
      unfold wfi. rewrite sg_mul. split; lia.
  Qed.

  Lemma fidx_in x ri i : wfi x ->
    fidx k segs x ri i = x + (ri + i) mod k /\ fidx k segs x ri i < qsize k segs /\ sg (fidx k segs x ri i) = sg x.
  Proof.
    intros [H1 H2]. set (a := sg x) in *. unfold fidx.
    assert (Ho : (ri + i) mod k < k) by (apply N.mod_lt; apply k_nz).
    set (o := (ri + i) mod k) in *.
    assert (Hlt : x + o < qsize k segs) by (unfold qsize; nia).
    rewrite N.mod_small by exact Hlt. repeat split; [exact Hlt|].
    rewrite H1. apply sg_mul_add. exact Ho.
  Qed.

  Lemma sidx_in x i : wfi x -> i < k ->
    sidx k segs x i = x + i /\ sidx k segs x i < qsize k segs /\ sg (sidx k segs x i) = sg x.
  Proof.
    intros [H1 H2] Hi. set (a := sg x) in *. unfold sidx.
    assert (Hlt : x + i < qsize k segs) by (unfold qsize; nia).
    rewrite N.mod_small by exact Hlt. repeat split; [exact Hlt|].
    rewrite H1. apply sg_mul_add. exact Hi.
  Qed.

  (** the scan of find_index visits every slot of the segment *)
  Lemma fidx_cover x ri j : wfi x -> j < qsize k segs -> sg j = sg x -> exists m, m < k /\ fidx k segs x ri m = j.
  Proof.
    intros Hw Hj Hsg. pose proof k_nz as Hkz.
    set (o := j mod k). assert (Ho : o < k) by (apply N.mod_lt; exact Hkz).
    set (r := ri mod k). assert (Hr : r < k) by (apply N.mod_lt; exact Hkz).
    exists ((o + k - r) mod k). split; [apply N.mod_lt; exact Hkz|].
    destruct (fidx_in x ri ((o + k - r) mod k) Hw) as (E & _ & _). rewrite E.
    rewrite N.add_mod_idemp_r by exact Hkz.
    rewrite <- N.add_mod_idemp_l by exact Hkz. fold r.
    replace (r + (o + k - r)) with (o + 1 * k) by lia.
    rewrite N.mod_add by exact Hkz. rewrite (N.mod_small o k Ho).
    destruct Hw as [H1 _]. rewrite H1, <- Hsg. unfold sg, o.
    rewrite (N.div_mod j k Hkz) at 3. lia.
  Qed.

  Lemma sidx_cover x j : wfi x -> j < qsize k segs -> sg j = sg x -> exists m, m < k /\ sidx k segs x m = j.
  Proof.
    intros Hw Hj Hsg. pose proof k_nz as Hkz.
    set (o := j mod k). assert (Ho : o < k) by (apply N.mod_lt; exact Hkz).
    exists o. split; [exact Ho|].
    destruct (sidx_in x o Hw Ho) as (E & _ & _). rewrite E.
    destruct Hw as [H1 _]. rewrite H1, <- Hsg. unfold sg, o.
    rewrite (N.div_mod j k Hkz) at 3. lia.
  Qed.

  Lemma sg_lt j : j < qsize k segs -> sg j < segs.
  Proof. intros H. unfold sg. apply N.div_lt_upper_bound; [apply k_nz|exact H]. Qed.

  (** cyclic distance *)
  Lemma dist_lt a b : a < segs -> b < segs -> dist a b < segs.
  Proof. intros. unfold dist. destruct (N.leb_spec a b); lia. Qed.
  Lemma dist_refl a : dist a a = 0.
  Proof. unfold dist. destruct (N.leb_spec a a); lia. Qed.
  Lemma dist_0 a b : a < segs -> b < segs -> dist a b = 0 -> a = b.
  Proof. intros Ha Hb. unfold dist. destruct (N.leb_spec a b); lia. Qed.
  Lemma dist_one a b : segs = 1 -> a < segs -> b < segs -> dist a b = 0.
  Proof. intros. unfold dist. destruct (N.leb_spec a b); lia. Qed.
  Lemma dist_succ_r a b : a < segs -> b < segs -> dist a b + 1 < segs -> dist a (succs b) = dist a b + 1.
  Proof. intros Ha Hb. unfold dist, succs. destruct (N.eqb_spec (b + 1) segs); destruct (N.leb_spec a b); destruct (N.leb_spec a 0); destruct (N.leb_spec a (b + 1)); lia. Qed.
  Lemma dist_succ_l a x : a < segs -> x < segs -> x <> a -> dist (succs a) x = dist a x - 1 /\ 1 <= dist a x.
  Proof. intros Ha Hx. unfold dist, succs. destruct (N.eqb_spec (a + 1) segs); destruct (N.leb_spec a x); destruct (N.leb_spec 0 x); destruct (N.leb_spec (a + 1) x); lia. Qed.
  Lemma dist_full a b : a < segs -> b < segs -> (dist a b = segs - 1 <-> succs b = a).
  Proof. intros Ha Hb. unfold dist, succs. destruct (N.eqb_spec (b + 1) segs); destruct (N.leb_spec a b); lia. Qed.

  (** comparisons of segment start indices *)
  Lemma ltb_mul a b : (a * k <? b * k) = (a <? b).
  Proof. destruct (N.ltb_spec a b); destruct (N.ltb_spec (a * k) (b * k)); try reflexivity; nia. Qed.
  Lemma leb_mul a b : (a * k <=? b * k) = (a <=? b).
  Proof. destruct (N.leb_spec a b); destruct (N.leb_spec (a * k) (b * k)); try reflexivity; nia. Qed.

  Lemma ivr_spec to tc h : to < segs -> tc < segs -> h < segs ->
    in_valid_region (to * k) (tc * k) (h * k) = true -> 1 <= dist h to /\ dist h to <= dist h tc.
  Proof.
    intros H1 H2 H3. unfold in_valid_region. rewrite !ltb_mul, !leb_mul. unfold dist.
    destruct (N.ltb_spec tc h); destruct (N.ltb_spec h to); destruct (N.leb_spec to tc);
      destruct (N.leb_spec h to); destruct (N.leb_spec h tc); cbn; try discriminate; lia.
  Qed.
  Lemma nvr_spec to tc h : to < segs -> tc < segs -> h < segs ->
    in_valid_region (to * k) (tc * k) (h * k) = false -> not_in_valid_region (to * k) (tc * k) (h * k) = false -> to = h.
  Proof.
    intros H1 H2 H3. unfold in_valid_region, not_in_valid_region. rewrite !ltb_mul, !leb_mul.
    destruct (N.ltb_spec tc h); destruct (N.ltb_spec h to); destruct (N.leb_spec to tc);
      destruct (N.ltb_spec to tc); destruct (N.ltb_spec tc to); destruct (N.ltb_spec to h); cbn; try discriminate; lia.
  Qed.
End Arith.
