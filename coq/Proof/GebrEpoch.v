(** The epoch argument of the generalised epoch based reclamation model (Model/GebrDefs.v), for every configuration:
    [P1]  for every thread that owns a control block: its local epoch is never ahead of the global epoch, the epoch
          it carries through do_enter_critical / scan / update_global_epoch / update_local_epoch is consistent with
          both, and (the heart of C01) WHILE IT IS SYNCHRONISED - inside a critical region with a validated epoch
          ([ve]: the validated epoch of a thread) - THE GLOBAL EPOCH IS AT MOST ONE AHEAD of that epoch;
    [PB]  the scan invariant that makes [P1] inductive: while the global epoch still is the scanner's epoch e, every
          control block the scan iterator has already passed (or that was inserted after the scan began) belongs to no
          synchronised thread with a validated epoch below e.  For scan::n_threads / scan::one_thread (DEBRA) the scan
          state is the persistent thread_iterator: it survives the scanner's critical regions and is only reset when the
          scanner's local epoch changes.
    Both hold in every reachable state ([EI_reach]).  No axioms. *)
From Coq Require Import NArith List Bool Arith Lia PeanoNat.
From XV Require Import Conc.Lts Conc.Ev Model.GebrDefs Proof.GebrBase Proof.GebrShape Proof.GebrOwn.
Import ListNotations.
Local Open Scope N_scope.

(** * Epochs *)
Definition ve (p : pc) (x : tls) (le : N) : option N :=
  match p with
  | E4 _ e | S1 _ e | S2 _ e _ | S3 _ e _ | G1 _ e | G2 _ e | G3 _ e | G4 _ e | G5 _ e _ => Some e
  | G6 _ e _ | G7 _ e _ _ => Some (e + 1)
  | U1 _ new | U2 _ new _ => Some new
  | _ => if sync x then Some le else None
  end.
Definition epc (p : pc) (le g : N) : Prop :=
  match p with
  | C8 _ e => e <= g
  | E4 _ e => le <= e /\ e <= g
  | S1 _ e | S2 _ e _ | S3 _ e _ | G1 _ e | G2 _ e | G3 _ e | G4 _ e | G5 _ e _ => le = e /\ e <= g
  | G6 _ e _ | G7 _ e _ _ => le = e /\ e + 1 <= g
  | U1 _ new => le < new /\ new <= g
  | U2 _ new old => old = le /\ le < new /\ new <= g
  | _ => True
  end.
Definition has_loc (p : pc) : bool := match p with C7 _ | C8 _ _ => false | _ => true end.
(** the scan a thread is performing: its epoch and the control blocks it still has to look at *)
Definition scan_of (cfg : config) (p : pc) (x : tls) (le : N) : option (N * list N) :=
  if scan_is_n cfg then
    match p with C7 _ | C8 _ _ | C9 _ | U3 _ => None | _ => Some (le, sit x) end
  else
    match p with
    | S2 _ e _ | S3 _ e _ | G1 _ e | G2 _ e | G3 _ e | G4 _ e | G5 _ e _ => Some (e, sit x)
    | _ => None
    end.

Definition P1 (s : state) (u : nat) : Prop :=
  forall b, cb (tl s u) = Some b ->
    (has_loc (th s u) = true -> blocal s b <= gep s /\ lidx (tl s u) = blocal s b mod 3) /\
    epc (th s u) (blocal s b) (gep s) /\
    (forall v, ve (th s u) (tl s u) (blocal s b) = Some v -> gep s <= v + 1).
Definition PB (cfg : config) (s : state) : Prop :=
  forall w bw u b e rem v, cb (tl s w) = Some bw -> scan_of cfg (th s w) (tl s w) (blocal s bw) = Some (e, rem) -> gep s = e ->
    cb (tl s u) = Some b -> ~ In b rem -> ve (th s u) (tl s u) (blocal s b) = Some v -> e <= v.

Ltac efn := cbn [ve epc has_loc].
Ltac efn_in H := cbn [ve epc has_loc] in H.

Lemma step_gep cfg ns s t s' es : step cfg ns s (Step t) = Some (s', es) ->
  gep s' = gep s \/ (exists a l, th s t = G5 a (gep s) l /\ gep s' = gep s + 1).
Proof.
  intros H. unfold_step H. cbv zeta in H. step_split H. all: bool_eqs; prj; try (left; reflexivity).
  right. subst. eauto.
Qed.

(** the validated epoch is never behind the local epoch, and a thread with a validated epoch has its flag set *)
Lemma ve_ge p x le g v : epc p le g -> ve p x le = Some v -> le <= v.
Proof. destruct p; cbn; intros H E; try (destruct (sync x); [|discriminate]); inversion E; subst; lia. Qed.
Lemma ve_fon cfg p x le v : ve p x le = Some v -> fon cfg p x = true.
Proof.
  unfold fon. destruct p; cbn; intros E; try (destruct (sync x); [reflexivity|discriminate]); rewrite ?orb_true_r; reflexivity.
Qed.

Lemma uslots_nonempty new old : old < new -> is_nil (uslots new old) = false.
Proof.
  intros H. unfold uslots. destruct (N.eqb_spec (N.min 3 (new - old)) 0) as [E|E]; [lia|].
  repeat match goal with |- context [if ?c then _ else _] => destruct c end; reflexivity.
Qed.

Ltac same_cb :=
  repeat match goal with
  | E : cb ?x = Some ?n, H : cb ?x = Some ?b |- _ =>
    lazymatch b with n => fail | _ => rewrite E in H; injection H as <- end
  | E : cb ?x = None, H : cb ?x = Some _ |- _ => rewrite E in H; discriminate H
  end.

Lemma P1_other cfg ns s t s' es u : O0 cfg s -> (forall x, P1 s x) -> PB cfg s -> T0 cfg ns s -> step cfg ns s (Step t) = Some (s', es) -> u <> t -> P1 s' u.
Proof.
  intros O I B T H Hne b Hb. destruct (step_frame _ _ _ _ _ _ H) as (Fth & Fb & _ & _ & Hmono).
  destruct (Fth u Hne) as [Eth Etl]. rewrite Eth, Etl in *.
  destruct (o_own cfg s O u b Hb) as [Ho _].
  destruct (Fb b (owner_untouched _ _ _ _ _ O Ho Hne)) as (_ & Ef & El & _). rewrite El.
  destruct (I u b Hb) as (I1 & I2 & I3). split; [|split].
  - intros Hl. destruct (I1 Hl). split; [lia|assumption].
  - destruct (th s u); cbn in *; try exact I; lia.
  - intros v Hv. destruct (step_gep _ _ _ _ _ _ H) as [->|(a & l & Hpc & ->)]; [auto|].
    assert (gep s <= v); [|lia].
    destruct (cb (tl s t)) as [bt|] eqn:Ebt.
    2:{ exfalso. apply (ts_need _ _ _ _ (T t)); [rewrite Hpc; reflexivity|exact Ebt]. }
    destruct (I t bt Ebt) as (_ & It2 & _). rewrite Hpc in It2. cbn in It2. destruct It2 as [Ele _].
    eapply (B t bt u b (gep s) [] v); try eassumption; [|reflexivity|intros []].
    unfold scan_of. rewrite Hpc. rewrite (ts_g _ _ _ _ (T t)) by (rewrite Hpc; reflexivity).
    destruct (scan_is_n cfg); [rewrite Ele|]; reflexivity.
Qed.

Ltac sync_rw := repeat match goal with Hs : sync ?x = ?v |- context [sync ?x] => rewrite Hs end.

Lemma P1_self cfg ns s t s' es : O0 cfg s -> tshape cfg ns (th s t) (tl s t) -> P1 s t -> step cfg ns s (Step t) = Some (s', es) -> P1 s' t.
Proof.
  intros O T I H. unfold_step H. cbv zeta in H. step_split H.
  all: bool_eqs; unfold P1; prj; rewrite ?upd_same; prj; prj_hyps; rewrite ?upd_same in *; prj_hyps.
  all: unfold P1 in I; try match goal with E : th _ _ = _ |- _ => try rewrite E in I; try rewrite E in T end.
  all: intros b0 Hb0; same_cb.
  all: try (match goal with E : cb (tl _ _) = Some ?n |- _ => pose proof (I n E) as (I1 & I2 & I3); efn_in I1; efn_in I2; efn_in I3 end).
  all: try solve [inj_some; sel; efn; split_updN_all; cleanup; repeat split; intros; inj_some; first [assumption | discriminate | lia | congruence | auto]].
  all: destruct T as [Tneed Tno Tfresh Tcnt Trent Tslot Thi Tc Te Tlv Tx Tsync Tg Tinit].
  all: fn_in Tneed; fn_in Tno; fn_in Tcnt; fn_in Tslot; fn_in Tc; fn_in Te; fn_in Tlv; fn_in Tx; fn_in Tsync; fn_in Tg; fn_in Tinit.
  all: try solve [exfalso; cleanup; congruence].
  all: try (assert (Hsy : sync (tl s t) = true) by (cleanup; apply Tsync; [lia|reflexivity])).
  all: try solve [inj_some; cleanup; sel; efn; prj; sync_rw; efn; split_updN_all; cleanup; repeat split; intros; inj_some; subst;
                  first [assumption | discriminate | lia | congruence | auto
                        | match goal with H : uslots ?a ?b = [] |- _ => pose proof (uslots_nonempty a b); rewrite H in *; cbn [is_nil] in *; exfalso; intuition (discriminate || lia) end]].
  exfalso. destruct I2 as (-> & Hlt & _). pose proof (uslots_nonempty new _ Hlt) as X.
  match goal with H : uslots _ _ = [] |- _ => rewrite H in X end. discriminate.
Qed.

(** ** the scan invariant *)
Lemma scan_le cfg p x le g e rem : (has_loc p = true -> le <= g) -> epc p le g -> scan_of cfg p x le = Some (e, rem) -> e <= g /\ le = e.
Proof.
  unfold scan_of. intros Hl He Hs. destruct (scan_is_n cfg).
  - destruct p; cbn in Hs, Hl; try discriminate Hs; injection Hs as <- <-; (split; [apply Hl|]; reflexivity).
  - destruct p; cbn in Hs, He; try discriminate Hs; injection Hs as <- <-; destruct He as [H1 H2]; split; assumption.
Qed.

(** a thread is never in the way of its own scan *)
Lemma PB_same cfg s w bw e rem v : P1 s w -> cb (tl s w) = Some bw ->
  scan_of cfg (th s w) (tl s w) (blocal s bw) = Some (e, rem) -> ve (th s w) (tl s w) (blocal s bw) = Some v -> e <= v.
Proof.
  intros I Hb Hs Hv. destruct (I bw Hb) as (I1 & I2 & _).
  assert (Hl : has_loc (th s w) = true -> blocal s bw <= gep s) by (intros X; apply I1; exact X).
  destruct (scan_le _ _ _ _ _ _ _ Hl I2 Hs) as [_ <-]. eapply ve_ge; eauto.
Qed.

Lemma PB_frame cfg ns s t s' es w u : O0 cfg s -> T0 cfg ns s -> (forall x, P1 s x) -> PB cfg s -> step cfg ns s (Step t) = Some (s', es) ->
  w <> t -> u <> t ->
  forall bw b e rem v, cb (tl s' w) = Some bw -> scan_of cfg (th s' w) (tl s' w) (blocal s' bw) = Some (e, rem) -> gep s' = e ->
    cb (tl s' u) = Some b -> ~ In b rem -> ve (th s' u) (tl s' u) (blocal s' b) = Some v -> e <= v.
Proof.
  intros O T I B H Hw Hu bw b e rem v Hbw Hs Hg Hb Hn Hv.
  destruct (step_frame _ _ _ _ _ _ H) as (Fth & Fb & _).
  destruct (Fth w Hw) as [Ew Etw]. destruct (Fth u Hu) as [Eu Etl]. rewrite Ew, Etw in *. rewrite Eu, Etl in *.
  destruct (o_own cfg s O u b Hb) as [Ho _]. destruct (o_own cfg s O w bw Hbw) as [How _].
  destruct (Fb b (owner_untouched _ _ _ _ _ O Ho Hu)) as (_ & _ & El & _). rewrite El in Hv.
  destruct (Fb bw (owner_untouched _ _ _ _ _ O How Hw)) as (_ & _ & Elw & _). rewrite Elw in Hs.
  destruct (step_gep _ _ _ _ _ _ H) as [Eg|(a & l & Hpc & Eg)]; rewrite Eg in Hg.
  - exact (B w bw u b e rem v Hbw Hs Hg Hb Hn Hv).
  - exfalso. destruct (I w bw Hbw) as (I1 & I2 & _).
    assert (Hl : has_loc (th s w) = true -> blocal s bw <= gep s) by (intros X; apply I1; exact X).
    destruct (scan_le _ _ _ _ _ _ _ Hl I2 Hs). lia.
Qed.

Ltac pbw_same :=
  match goal with
  | Bt : forall bw u b e rem v, _ -> _ -> _ -> _ -> _ -> _ -> e <= v |- _ =>
    eapply Bt; [first [reflexivity | eassumption] | eassumption | first [eassumption | reflexivity] | eassumption | eassumption | eassumption]
  end.

Lemma PB_w cfg ns s t s' es : O0 cfg s -> T0 cfg ns s -> (forall x, P1 s x) -> PB cfg s -> step cfg ns s (Step t) = Some (s', es) ->
  forall u bw b e rem v, u <> t -> cb (tl s' t) = Some bw -> scan_of cfg (th s' t) (tl s' t) (blocal s' bw) = Some (e, rem) -> gep s' = e ->
    cb (tl s u) = Some b -> ~ In b rem -> ve (th s u) (tl s u) (blocal s b) = Some v -> e <= v.
Proof.
  intros O T I B H u bw b0 e0 rem0 v0 Hut.
  pose proof (B t) as Bt. pose proof (I t) as It. unfold P1 in It. pose proof (T t) as Tt.
  unfold_step H. cbv zeta in H. step_split H.
  all: bool_eqs; prj; rewrite ?upd_same; prj; prj_hyps; rewrite ?upd_same in *; prj_hyps.
  all: try match goal with E : th _ _ = _ |- _ => try rewrite E in Bt; try rewrite E in It; try rewrite E in Tt end.
  all: intros Hbw Hs Hg Hb Hn Hv.
  all: pose proof (proj2 (o_own cfg s O u b0 Hb)) as Hin.
  all: unfold scan_of in Hs, Bt; destruct (scan_is_n cfg) eqn:Sn; rewrite ?Sn in Hs, Bt.
  all: try congruence.
  all: prj_in Hs; same_cb.
  all: try discriminate Hs.
  all: try solve [sel; discriminate Hs].
  all: try solve [exact (Bt _ _ _ _ _ _ Hbw Hs Hg Hb Hn Hv)].
  all: try solve [sel; first [discriminate Hs | exact (Bt _ _ _ _ _ _ Hbw Hs Hg Hb Hn Hv)]].
  all: try solve [injection Hs as <- <-; exfalso; apply Hn; exact Hin].
  all: try solve [sel; cbv beta iota in Hs; first [discriminate Hs | congruence | pbw_same]].
  all: try solve [sel; cbv beta iota in Hs; injection Hs as <- <-; exfalso; apply Hn; exact Hin].
  all: try solve [exfalso; pose proof (ts_no _ _ _ _ Tt eq_refl); congruence].
  all: try solve [exfalso; match goal with Ecb : cb (tl _ _) = Some ?n |- _ => destruct (It n Ecb) as (_ & (Hle & _) & _) end; injection Hs as <- <-; lia].
  (* the entry under the iterator is passed *)
  all: match goal with Ecb : cb (tl _ _) = Some ?n |- _ => destruct (It n Ecb) as (_ & (Hle & _) & _) end.
  all: sel; cbv beta iota in Hs; try discriminate Hs; injection Hs as <- <-.
  all: match goal with Es : sit (tl _ _) = ?p :: ?l |- _ =>
         destruct (N.eq_dec b0 p) as [->|Hne];
         [ first [ exfalso; pose proof (o_flag cfg s O u p Hb (ve_fon cfg _ _ _ _ Hv)); congruence
                 | destruct (I u p Hb) as (_ & I2 & _); pose proof (ve_ge _ _ _ _ _ I2 Hv); lia ]
         | eapply Bt; [first [reflexivity | eassumption] | rewrite Es; reflexivity | first [eassumption | congruence | lia] | exact Hb
                      | intros [X|X]; [congruence|contradiction] | exact Hv ] ] end.
Qed.

Lemma PB_u cfg ns s t s' es : O0 cfg s -> T0 cfg ns s -> (forall x, P1 s x) -> PB cfg s -> step cfg ns s (Step t) = Some (s', es) ->
  forall w bw b e rem v, w <> t -> cb (tl s w) = Some bw -> scan_of cfg (th s w) (tl s w) (blocal s bw) = Some (e, rem) -> gep s' = e ->
    cb (tl s' t) = Some b -> ~ In b rem -> ve (th s' t) (tl s' t) (blocal s' b) = Some v -> e <= v.
Proof.
  intros O T I B H w bw b0 e0 rem0 v0 Hw Hbw Hs.
  assert (Hle : e0 <= gep s).
  { destruct (I w bw Hbw) as (I1 & I2 & _).
    assert (Hl : has_loc (th s w) = true -> blocal s bw <= gep s) by (intros X; apply I1; exact X).
    destruct (scan_le _ _ _ _ _ _ _ Hl I2 Hs). assumption. }
  pose proof (B w bw t) as X. specialize (T t). pose proof (I t) as It. unfold P1 in It.
  unfold_step H. cbv zeta in H. step_split H.
  all: bool_eqs; prj; rewrite ?upd_same; prj; prj_hyps; rewrite ?upd_same in *; prj_hyps.
  all: try match goal with E : th _ _ = _ |- _ => try rewrite E in X; try rewrite E in T; try rewrite E in It end.
  all: intros Hg Hb Hn Hv; same_cb.
  all: destruct T as [Tneed Tno Tfresh Tcnt Trent Tslot Thi Tc Te Tlv Tx Tsync Tg Tinit].
  all: fn_in Tneed; fn_in Tno; fn_in Tcnt; fn_in Tslot; fn_in Tc; fn_in Te; fn_in Tlv; fn_in Tx; fn_in Tsync; fn_in Tg; fn_in Tinit.
  all: try solve [exfalso; cleanup; congruence].
  all: try solve [exfalso; lia].
  all: try solve [inj_some; cleanup; sel; efn_in Hv; prj_in Hv; efn_in X; split_updN_all;
                  repeat match goal with Hs : sync ?x = _ |- _ => rewrite Hs in * end;
                  first [ discriminate Hv
                        | inj_some; lia
                        | eapply X; solve [eauto | congruence] ]].
  all: try (assert (Hsy : sync (tl s t) = true) by (cleanup; apply Tsync; [lia|reflexivity])).
  all: destruct (It b0 Hb) as (_ & I2 & _); efn_in I2.
  all: efn_in X; pose proof (X b0 e0 rem0 _ Hbw Hs Hg Hb Hn eq_refl) as X0.
  all: sel; efn_in Hv; prj_in Hv; rewrite ?Hsy in Hv; inj_some; lia.
Qed.

Definition EI (cfg : config) (s : state) : Prop := (forall x, P1 s x) /\ PB cfg s.

Definition start_like (p : pc) : bool := match p with Idle | Begin _ | LV _ | X1 _ | X3 => true | _ => false end.
Lemma start_like_facts cfg p x x' le : start_like p = true -> sync x' = sync x -> sit x' = sit x ->
  ve p x' le = ve Idle x le /\ (forall g, epc p le g) /\ has_loc p = true /\ scan_of cfg p x' le = scan_of cfg Idle x le.
Proof.
  intros H Hs Hi. unfold scan_of. destruct p; try discriminate H; cbn; rewrite Hs, Hi; repeat split; auto.
Qed.

Lemma start_pc cfg ns s t o s' es : step cfg ns s (Start t o) = Some (s', es) ->
  th s t = Idle /\ th s' = upd (th s) t (th s' t) /\ start_like (th s' t) = true /\
  (forall u, cb (tl s' u) = cb (tl s u) /\ sync (tl s' u) = sync (tl s u) /\ sit (tl s' u) = sit (tl s u) /\ lidx (tl s' u) = lidx (tl s u) /\ rl (tl s' u) = rl (tl s u)) /\
  gep s' = gep s /\ bflag s' = bflag s /\ blocal s' = blocal s /\ blist s' = blist s /\
  g_where s' = g_where s /\ g_life s' = g_life s /\ g_nfree s' = g_nfree s /\ orph s' = orph s /\ cells s' = cells s /\ nalloc s' = nalloc s /\ g_uaf s' = g_uaf s.
Proof.
  intros H. unfold step in H. step_split H. all: prj; rewrite ?upd_same.
  all: repeat split; try reflexivity; try assumption.
  all: try solve [destruct (upd_cases (tl s) t (wt_rg None (wt_rent 0 (wt_nest 0 (wt_gs (fun _ : nat => None) (tl s t))))) u) as [[-> ->]|[_ ->]]; reflexivity].
  all: destruct (xnext_cases (rl (tl s t)) 0) as [Ex|[Ex|[Ex|Ex]]]; rewrite Ex; reflexivity.
Qed.

Section ReachE.
Variables (cfg : config) (ns : nat) (nc : N).

Lemma EI_init : EI cfg (init nc).
Proof. split; [intros x b Hb; cbn in Hb; discriminate|intros w bw u b e rem v Hs; cbn in Hs; discriminate]. Qed.

Lemma EI_start s t o s' es : EI cfg s -> step cfg ns s (Start t o) = Some (s', es) -> EI cfg s'.
Proof.
  intros [I B] H. destruct (start_pc _ _ _ _ _ _ _ H) as (Hidle & Eth & Hsl & Etl & Eg & Ef & El & _).
  assert (Hf : forall u le, ve (th s' u) (tl s' u) le = ve (th s u) (tl s u) le /\ (forall g, epc (th s u) le g -> epc (th s' u) le g) /\
                            has_loc (th s' u) = has_loc (th s u) /\ scan_of cfg (th s' u) (tl s' u) le = scan_of cfg (th s u) (tl s u) le).
  { intros u le. destruct (Etl u) as (E1 & E2 & E3 & _).
    destruct (Nat.eq_dec u t) as [->|Hne].
    - destruct (start_like_facts cfg (th s' t) (tl s t) (tl s' t) le Hsl E2 E3) as (F1 & F2 & F3 & F4).
      rewrite Hidle. repeat split; auto.
    - rewrite Eth, upd_other by exact Hne. unfold scan_of.
      destruct (th s u); cbn; rewrite ?E2, ?E3; (split; [reflexivity|split; [intros ? X; exact X|split; reflexivity]]). }
  split.
  - intros u b Hb. destruct (Etl u) as (E1 & E2 & E3 & E4 & _). rewrite E1 in Hb. destruct (I u b Hb) as (I1 & I2 & I3).
    destruct (Hf u (blocal s b)) as (F1 & F2 & F3 & F4). rewrite Eg, El, E4, F1, F3.
    split; [exact I1|]. split; [apply F2; exact I2|exact I3].
  - intros w bw u b e rem v Hbw Hs Hg Hb Hn Hv.
    destruct (Etl u) as (E1 & _). destruct (Etl w) as (E1w & _). rewrite E1 in Hb. rewrite E1w in Hbw. rewrite El in Hs, Hv. rewrite Eg in Hg.
    destruct (Hf u (blocal s b)) as (F1 & _). destruct (Hf w (blocal s bw)) as (_ & _ & _ & F4). rewrite F1 in Hv. rewrite F4 in Hs.
    exact (B w bw u b e rem v Hbw Hs Hg Hb Hn Hv).
Qed.

Lemma EI_step s a s' es : T0 cfg ns s -> O0 cfg s -> T0 cfg ns s' -> O0 cfg s' -> EI cfg s -> step cfg ns s a = Some (s', es) -> EI cfg s'.
Proof.
  intros T O T' O' [I B] H. destruct a as [t o|t]; [eapply EI_start; eauto; split; assumption|].
  assert (I' : forall x, P1 s' x).
  { intros u. destruct (Nat.eq_dec u t) as [->|Hne]; [exact (P1_self _ _ _ _ _ _ O (T t) (I t) H) | exact (P1_other _ _ _ _ _ _ u O I B T H Hne)]. }
  split; [exact I'|].
  intros w bw u b e rem v Hbw Hs Hg Hb Hn Hv.
  destruct (step_frame _ _ _ _ _ _ H) as (Fth & Fb & _).
  destruct (Nat.eq_dec w t) as [->|Hw].
  - destruct (Nat.eq_dec u t) as [->|Hu].
    + assert (b = bw) by congruence. subst b. exact (PB_same cfg s' t bw e rem v (I' t) Hbw Hs Hv).
    + destruct (Fth u Hu) as [Eu Etl]. rewrite Eu, Etl in *.
      destruct (o_own cfg s O u b Hb) as [Ho _].
      destruct (Fb b (owner_untouched _ _ _ _ _ O Ho Hu)) as (_ & _ & El & _). rewrite El in Hv.
      exact (PB_w _ _ _ _ _ _ O T I B H u bw b e rem v Hu Hbw Hs Hg Hb Hn Hv).
  - destruct (Nat.eq_dec u t) as [->|Hu].
    + destruct (Fth w Hw) as [Ew Etw]. rewrite Ew, Etw in *.
      destruct (o_own cfg s O w bw Hbw) as [How _].
      destruct (Fb bw (owner_untouched _ _ _ _ _ O How Hw)) as (_ & _ & Elw & _). rewrite Elw in Hs.
      exact (PB_u _ _ _ _ _ _ O T I B H w bw b e rem v Hw Hbw Hs Hg Hb Hn Hv).
    + exact (PB_frame _ _ _ _ _ _ w u O T I B H Hw Hu bw b e rem v Hbw Hs Hg Hb Hn Hv).
Qed.

Lemma EI_reach s : reachable cfg ns nc s -> EI cfg s.
Proof.
  apply (inv_rule_aux _ _ _ _ _ (fun s => T0 cfg ns s /\ O0 cfg s) (EI cfg)).
  - intros s0 Hr. split; [apply (T0_reach cfg ns nc); exact Hr|apply (O0_reach cfg ns nc); exact Hr].
  - exact EI_init.
  - intros s0 a s1 es [J1 J2] [J3 J4] I H. exact (EI_step s0 a s1 es J1 J2 J3 J4 I H).
Qed.
End ReachE.
