(** kirsch_kfifo_queue (C06, unbounded): concrete reachable states showing that the hypotheses of the property
    theorems are satisfiable (the schedules are replayed identically by the real code under the xvrt
    scheduler: harness h_uq_gc, cfg q=kf elem=ptr).  No axioms, no admits. *)
From Coq Require Import NArith List Bool Lia PeanoNat.
From XV Require Import Base.Word Conc.Lts Conc.Ev Model.KfqDefs.
From XV Require Import Proof.KfqWf Proof.KfqOwn Proof.KfqRegion Proof.KfqSeg Proof.KfqCons Proof.KfqCall Proof.KfqSeq.
Import ListNotations.
Local Open Scope N_scope.

Definition st_of (k : N) (acts : list action) : state := fst (fst (run (step k) init acts)).
Definition tr_of (k : N) (acts : list action) : list ev := snd (fst (run (step k) init acts)).

Lemma st_of_reach k acts : reach init (step k) (st_of k acts).
Proof. apply run_reach. Qed.

Fixpoint reps (n : nat) (a : action) : list action := match n with O => [] | S m => a :: reps m a end.

(** executable forms of [in_call] and [solo] *)
Fixpoint call_exec (k : N) (u : nat) (s : state) (acts : list action) : option state :=
  match acts with
  | [] => Some s
  | a :: rest =>
    match th s u with
    | Idle => None
    | _ => match step k s a with Some (s', _) => call_exec k u s' rest | None => None end
    end
  end.

Lemma in_call_exec k u o s0 acts : forall s1 s, in_call k u o s0 s1 -> call_exec k u s1 acts = Some s -> in_call k u o s0 s.
Proof.
  induction acts as [|a rest IH]; intros s1 s H1 He; cbn [call_exec] in He; [inversion He; subst; exact H1|].
  destruct (th s1 u) eqn:E; try discriminate.
  all: destruct (step k s1 a) as [[s2 es]|] eqn:Hst; try discriminate.
  all: apply (IH s2 s); [|exact He]; eapply ic_next; [exact H1|rewrite E; discriminate|exact Hst].
Qed.

Fixpoint solo_exec (k : N) (u : nat) (s : state) (rs : list N) : option state :=
  match rs with
  | [] => Some s
  | r :: rest =>
    match th s u with
    | Idle => None
    | _ => match step k s (Step u r) with Some (s', _) => solo_exec k u s' rest | None => None end
    end
  end.

Lemma solo_exec_ok k u s0 rs : forall s1 s, solo k u s0 s1 -> solo_exec k u s1 rs = Some s -> solo k u s0 s.
Proof.
  induction rs as [|r rest IH]; intros s1 s H1 He; cbn [solo_exec] in He; [inversion He; subst; exact H1|].
  destruct (th s1 u) eqn:E; try discriminate.
  all: destruct (step k s1 (Step u r)) as [[s2 es]|] eqn:Hst; try discriminate.
  all: apply (IH s2 s); [|exact He]; eapply solo_step; [exact H1|rewrite E; discriminate|exact Hst].
Qed.

Definition the {X} (d : X) (o : option X) : X := match o with Some x => x | None => d end.

(** k = 1: push 1; push 2 by thread 1 (the second push appends segment 4), then pop by thread 2, which takes value 1
    (token 2).  The run is quiescent; value 2 (token 3) is stored in segment 4; head_ still points to segment 1 *)
Definition ex_q : list action :=
  Start 1 (OPush 1) :: reps 10 (Step 1 0) ++ Start 1 (OPush 2) :: reps 17 (Step 1 0) ++ Start 2 OPop :: reps 7 (Step 2 0).

Example ex_quiescent :
  reach init (step 1) (st_of 1 ex_q) /\ quiescent (st_of 1 ex_q) /\
  g_in (st_of 1 ex_q) = [2; 3] /\ g_out (st_of 1 ex_q) = [2] /\ g_ok (st_of 1 ex_q) = [2; 3] /\
  stored 1 (st_of 1 ex_q) = [3] /\ g_segs (st_of 1 ex_q) = [1; 4] /\ head (st_of 1 ex_q) = (1, 1) /\ tail (st_of 1 ex_q) = (4, 1) /\
  In 3 (g_in (st_of 1 ex_q)) /\ ~ In 3 (g_out (st_of 1 ex_q)) /\ In 3 (g_ok (st_of 1 ex_q)).
Proof.
  split; [apply st_of_reach|]. split; [intros t; vm_compute; destruct t as [|[|[|t]]]; reflexivity|].
  repeat (split; [vm_compute; reflexivity|]). split; [vm_compute; auto|]. split; [vm_compute; intros [H|[]]; discriminate|vm_compute; auto].
Qed.

(** k = 2: both values are in the head segment; thread 2's pop is about to take value 2 (token 3), a committed value *)
Definition ex_p : list action :=
  [Start 1 (OPush 1); Step 1 1; Step 1 1] ++ reps 8 (Step 1 0) ++ [Start 1 (OPush 2); Step 1 0; Step 1 0] ++ reps 8 (Step 1 1) ++
  [Start 2 OPop; Step 2 1; Step 2 1; Step 2 1] ++ reps 7 (Step 2 0).

Example ex_pop_committed :
  reach init (step 2) (st_of 2 ex_p) /\ th (st_of 2 ex_p) 2%nat = D4 (1, 2) 1 2 1 /\
  slot (st_of 2 ex_p) 1 1 = (2, 1) /\ In 2 (g_in (st_of 2 ex_p)) /\
  In 3 (g_in (st_of 2 ex_p)) /\ ~ In 3 (g_out (st_of 2 ex_p)) /\ slot (st_of 2 ex_p) 1 0 = (3, 1).
Proof.
  split; [apply st_of_reach|]. repeat (split; [vm_compute; auto|]). vm_compute; reflexivity.
Qed.

(** k = 1, three threads (fixed case f3): thread 3's pop scans segment 1 (empty), thread 1 inserts value 1 (token 2) and
    stops before committed(), thread 2's pop finds it and appends segment 3, thread 3 removes and retires segment 1;
    thread 2 is about to take the uncommitted value from the retired segment *)
Definition ex_f3 : list action :=
  Start 3 OPop :: reps 5 (Step 3 0) ++ Start 1 (OPush 1) :: reps 5 (Step 1 0) ++ Start 2 OPop :: reps 10 (Step 2 0) ++ reps 5 (Step 3 0).

Example ex_pop_uncommitted :
  reach init (step 1) (st_of 1 ex_f3) /\ th (st_of 1 ex_f3) 2%nat = D4 (1, 0) 0 2 1 /\
  slot (st_of 1 ex_f3) 1 0 = (2, 1) /\ ~ In 2 (g_in (st_of 1 ex_f3)) /\
  th (st_of 1 ex_f3) 1%nat = C1 2 (1, 0) 0 1 /\
  g_retired (st_of 1 ex_f3) = [1] /\ head (st_of 1 ex_f3) = (3, 1) /\ del (st_of 1 ex_f3) 1 = true /\ g_segs (st_of 1 ex_f3) = [1; 3].
Proof.
  split; [apply st_of_reach|]. split; [vm_compute; reflexivity|]. split; [vm_compute; reflexivity|]. split; [vm_compute; intros []|].
  repeat (split; [vm_compute; reflexivity|]). vm_compute; reflexivity.
Qed.

(** k = 1 (fixed case f2): two pushes allocate a segment each, thread 1 links its segment 4, thread 2's link CAS
    fails and it releases its segment 6 *)
Definition ex_f2 : list action :=
  [Start 1 (OPush 1); Step 1 7; Step 1 7] ++ reps 8 (Step 1 9) ++ [Start 1 (OPush 2); Step 1 9; Step 1 9] ++ reps 4 (Step 1 11) ++
  [Start 2 (OPush 3); Step 2 11; Step 2 11] ++ reps 4 (Step 2 3) ++ [Step 1 3; Step 2 3].

Example ex_released_segment :
  reach init (step 1) (st_of 1 ex_f2) /\ g_freed (st_of 1 ex_f2) = [6] /\ g_segs (st_of 1 ex_f2) = [1; 4] /\
  In (EFree 2 6) (tr_of 1 ex_f2).
Proof. split; [apply st_of_reach|]. split; [vm_compute; reflexivity|]. split; [vm_compute; reflexivity|]. vm_compute. tauto. Qed.

(** k = 1 (fixed case f1): the only way into the tail-helping part of advance_head -- thread 1's pop is at (8) *)
Definition ex_f1 : list action :=
  Start 1 OPop :: reps 6 (Step 1 0) ++ Start 2 (OPush 1) :: reps 5 (Step 2 0) ++ Start 3 (OPush 2) :: reps 8 (Step 3 0) ++ reps 3 (Step 1 0).

Example ex_advance_head_same_segment :
  reach init (step 1) (st_of 1 ex_f1) /\ th (st_of 1 ex_f1) 1%nat = H3 (1, 0) (1, 0) (4, 1) /\ tail (st_of 1 ex_f1) = (4, 1).
Proof. split; [apply st_of_reach|]. split; vm_compute; reflexivity. Qed.

(** k = 2: a pop on the empty queue, alone: the call, the returning step, the solo run *)
Definition ex_e0 : state := st_of 2 [Start 1 OPop].

Lemma in_call_run k u o s0 r acts s : th s0 u = Begin o ->
  match step k s0 (Step u r) with Some (s1, _) => call_exec k u s1 acts | None => None end = Some s -> in_call k u o s0 s.
Proof.
  intros Hb. destruct (step k s0 (Step u r)) as [[s1 es]|] eqn:E; [|discriminate].
  apply in_call_exec. eapply ic_first; eauto.
Qed.

Example ex_empty_call :
  reach init (step 2) ex_e0 /\ th ex_e0 1%nat = Begin OPop /\ (forall t, t <> 1%nat -> th ex_e0 t = Idle) /\ empty_at ex_e0 /\
  exists s s' es, in_call 2 1 OPop ex_e0 s /\ solo 2 1 ex_e0 s /\ step 2 s (Step 1 0) = Some (s', es) /\ In (ERet 1%nat [2]) es.
Proof.
  split; [apply st_of_reach|]. split; [vm_compute; reflexivity|].
  split; [intros t Ht; destruct t as [|[|t]]; [reflexivity|contradiction|reflexivity]|].
  split; [intros b []|].
  eexists _, _, _. split; [|split; [|split]].
  - eapply (in_call_run 2 1 OPop ex_e0 5 ([Step 1 5; Step 1 5] ++ reps 4 (Step 1 0))); [vm_compute; reflexivity|]. vm_compute. reflexivity.
  - eapply (solo_exec_ok 2 1 ex_e0 [5; 5; 5; 0; 0; 0; 0] ex_e0); [apply solo_refl|]. vm_compute. reflexivity.
  - vm_compute. reflexivity.
  - cbn. auto.
Qed.
