(** Ramalhete queue model (Model/RamDefs.v): arithmetic of the generated index step, the step
    case analysis, and the first invariant layer (node chain, counters, per-thread node facts).
    Everything is proved for every E >= 1 with C_step_size E * E < 2^32, every R, and every reachable
    state in which no 32-bit counter has wrapped ([g_ovf st = false]). *)
From Coq Require Import NArith List Bool Lia PeanoNat.
From XV Require Import Base.Word Conc.Lts Conc.Ev gen.RamalheteNodeGen Proof.RamalheteNode Model.RamDefs.
From XV Require Proof.MsqInv.
Import ListNotations.
Local Open Scope N_scope.

Notation lpath := MsqInv.lpath.

Lemma setf_same {X} (f : N -> X) i v : setf f i v i = v.
Proof. unfold setf. rewrite N.eqb_refl. reflexivity. Qed.
Lemma setf_other {X} (f : N -> X) i v j : j <> i -> setf f i v j = f j.
Proof. unfold setf. intros H. destruct (N.eqb_spec j i); [contradiction|reflexivity]. Qed.
Lemma setf2_same {X} (f : N -> N -> X) i k v : setf2 f i k v i k = v.
Proof. unfold setf2. rewrite N.eqb_refl. apply setf_same. Qed.
Lemma setf2_other_n {X} (f : N -> N -> X) i k v j k' : j <> i -> setf2 f i k v j k' = f j k'.
Proof. unfold setf2. intros H. destruct (N.eqb_spec j i); [contradiction|reflexivity]. Qed.
Lemma setf2_other_k {X} (f : N -> N -> X) i k v j k' : k' <> k -> setf2 f i k v j k' = f j k'.
Proof.
  unfold setf2. intros H. destruct (N.eqb_spec j i); [|reflexivity]. subst. apply setf_other. exact H.
Qed.
Lemma setf2_other {X} (f : N -> N -> X) i k v j k' : (j <> i \/ k' <> k) -> setf2 f i k v j k' = f j k'.
Proof. intros [H|H]; [apply setf2_other_n|apply setf2_other_k]; exact H. Qed.

Lemma threads_upd (P : pc -> Prop) f t p :
  (forall t', t' <> t -> P (f t')) -> P p -> forall t', P (upd f t p t').
Proof.
  intros Ho Hp t'. destruct (Nat.eq_dec t' t) as [->|Hne].
  - rewrite upd_same. exact Hp.
  - rewrite upd_other by exact Hne. apply Ho. exact Hne.
Qed.

(** projections of the updated records *)
Ltac prj := cbn [head tail popi pushi ent nnext nalloc tokv th g_pushed g_popped g_fate g_nodes g_retired g_ptk g_dtk g_ovf
                 w_th w_head w_tail w_popi w_pushi w_ent w_next w_nalloc w_tokv w_pushed w_popped w_fate w_nodes w_retired w_ptk w_dtk w_ovf].
Ltac prj_in H := cbn [head tail popi pushi ent nnext nalloc tokv th g_pushed g_popped g_fate g_nodes g_retired g_ptk g_dtk g_ovf
                 w_th w_head w_tail w_popi w_pushi w_ent w_next w_nalloc w_tokv w_pushed w_popped w_fate w_nodes w_retired w_ptk w_dtk w_ovf] in H.
Ltac prj_all := cbn [head tail popi pushi ent nnext nalloc tokv th g_pushed g_popped g_fate g_nodes g_retired g_ptk g_dtk g_ovf
                 w_th w_head w_tail w_popi w_pushi w_ent w_next w_nalloc w_tokv w_pushed w_popped w_fate w_nodes w_retired w_ptk w_dtk w_ovf] in *.

(** * Lists *)
Lemma NoDup_app_notin (A : Type) (l1 l2 : list A) x : NoDup (l1 ++ l2) -> In x l1 -> ~ In x l2.
Proof.
  induction l1 as [|a l1 IH]; intros Hnd Hin; [destruct Hin|].
  cbn [app] in Hnd. inversion Hnd as [|a' l' Hna Hnd']; subst.
  destruct Hin as [<-|Hin]; [|apply IH; assumption].
  intros Hc. apply Hna. apply in_or_app. right. exact Hc.
Qed.

Lemma NoDup_app_l (A : Type) (l1 l2 : list A) : NoDup (l1 ++ l2) -> NoDup l1.
Proof.
  induction l1 as [|a l1 IH]; intros H; [constructor|].
  cbn [app] in H. inversion H as [|a' l' Hna Hnd']; subst. constructor.
  - intros Hc. apply Hna. apply in_or_app. left. exact Hc.
  - apply IH. exact Hnd'.
Qed.

Lemma NoDup_app_r (A : Type) (l1 l2 : list A) : NoDup (l1 ++ l2) -> NoDup l2.
Proof. induction l1 as [|a l1 IH]; intros H; [exact H|]. cbn [app] in H. inversion H; subst. apply IH. assumption. Qed.

Lemma app_inj_nodup (l1 l2 l1' l2' : list N) x :
  NoDup (l1 ++ x :: l2) -> l1 ++ x :: l2 = l1' ++ x :: l2' -> l1 = l1' /\ l2 = l2'.
Proof.
  revert l1'. induction l1 as [|a l1 IH]; intros l1' Hnd He.
  - destruct l1' as [|a' l1']; cbn [app] in *.
    + inversion He. split; reflexivity.
    + inversion He; subst. exfalso. inversion Hnd as [|? ? Hna ?]; subst. apply Hna.
      apply in_or_app. right. left. reflexivity.
  - destruct l1' as [|a' l1']; cbn [app] in *.
    + inversion He; subst. exfalso. inversion Hnd as [|? ? Hna ?]; subst. apply Hna.
      apply in_or_app. right. left. reflexivity.
    + inversion He; subst. inversion Hnd; subst. destruct (IH l1') as [-> ->]; try assumption. split; reflexivity.
Qed.

Lemma snoc_inj (A : Type) (l l' : list A) a a' : l ++ [a] = l' ++ [a'] -> l = l' /\ a = a'.
Proof. intros H. apply app_inj_tail in H. exact H. Qed.

(** * Arithmetic of the generated step *)
Section Arith.
  Variable E : N.
  Hypothesis HE : 1 <= E.
  Hypothesis HM : C_step_size E * E < 2 ^ 32.

  Lemma SS_pos : 0 < SS E.
  Proof using HE HM. apply step_pos. Qed.

  Lemma MAXI_eq : MAXI E = SS E * E.
  Proof using HE HM. apply C_max_idx_eq. exact HM. Qed.

  Lemma tick_mul k : tick_of E (SS E * k) = k.
  Proof using HE HM. unfold tick_of. rewrite N.mul_comm. apply N.div_mul. pose proof SS_pos. lia. Qed.

  (** a counter value that is a multiple of the step *)
  Definition aligned (x : N) : Prop := x = SS E * tick_of E x.

  Lemma aligned_mul k : aligned (SS E * k).
  Proof using HE HM. unfold aligned. rewrite tick_mul. reflexivity. Qed.

  Lemma aligned_0 : aligned 0.
  Proof using HE HM. unfold aligned, tick_of. rewrite N.div_0_l; [lia|]. pose proof SS_pos. lia. Qed.

  Lemma tick_0 : tick_of E 0 = 0.
  Proof using HE HM. unfold tick_of. apply N.div_0_l. pose proof SS_pos. lia. Qed.

  Lemma tick_SS : tick_of E (SS E) = 1.
  Proof using HE HM. unfold tick_of. apply N.div_same. pose proof SS_pos. lia. Qed.

  Lemma aligned_SS : aligned (SS E).
  Proof using HE HM. unfold aligned. rewrite tick_SS. lia. Qed.

  Lemma aligned_step x : aligned x -> aligned (x + SS E) /\ tick_of E (x + SS E) = tick_of E x + 1.
  Proof using HE HM.
    intros Hx. unfold aligned in Hx. assert (H : x + SS E = SS E * (tick_of E x + 1)) by lia.
    rewrite H. split; [apply aligned_mul|apply tick_mul].
  Qed.

  Lemma tick_mono x y : x <= y -> tick_of E x <= tick_of E y.
  Proof using HE HM. intros H. unfold tick_of. apply N.div_le_mono; [pose proof SS_pos; lia|exact H]. Qed.

  (** [max_idx <= idx] is [E <= ticket] *)
  Lemma maxi_le x : aligned x -> (MAXI E <=? x) = (E <=? tick_of E x).
  Proof using HE HM.
    intros Hx. unfold aligned in Hx. rewrite MAXI_eq. pose proof SS_pos as HS.
    destruct (N.leb_spec E (tick_of E x)) as [H|H].
    - apply N.leb_le. rewrite Hx. apply N.mul_le_mono_l. exact H.
    - apply N.leb_gt. rewrite Hx. apply N.mul_lt_mono_pos_l; assumption.
  Qed.

  Lemma slot_lt idx : slot_of E idx < E.
  Proof using HE HM. unfold slot_of, wmod. apply N.mod_lt. lia. Qed.

  Lemma slot_0 : slot_of E 0 = 0.
  Proof using HE HM. unfold slot_of, wmod. apply N.mod_0_l. lia. Qed.

  (** distinct tickets of a node use distinct entries: the generated, proved [slots_distinct] *)
  Lemma slot_inj k1 k2 : k1 < E -> k2 < E -> slot_of E (SS E * k1) = slot_of E (SS E * k2) -> k1 = k2.
  Proof using HE HM. intros H1 H2 H. apply (slots_distinct E k1 k2); try assumption. lia. Qed.

  Lemma slot_nz k : k < E -> k <> 0 -> slot_of E (SS E * k) <> 0.
  Proof using HE HM.
    intros Hk Hnz Hc. apply Hnz. apply slot_inj; [exact Hk|lia|].
    rewrite Hc. rewrite N.mul_0_r. symmetry. apply slot_0.
  Qed.

  (** every entry index is the slot of exactly one ticket *)
  Lemma le_counter_tick x y : aligned x -> aligned y -> (x <=? y) = (tick_of E x <=? tick_of E y).
  Proof using HE HM.
    intros Hx Hy. unfold aligned in Hx, Hy. pose proof SS_pos as HS.
    destruct (N.leb_spec (tick_of E x) (tick_of E y)) as [H|H].
    - apply N.leb_le. rewrite Hx, Hy. apply N.mul_le_mono_l. exact H.
    - apply N.leb_gt. rewrite Hx, Hy. apply N.mul_lt_mono_pos_l; assumption.
  Qed.
End Arith.

(** * Step case analysis *)
Lemma orb_false_ovf (a : bool) (x y : N) : a || negb (x =? y) = false -> a = false /\ x = y.
Proof.
  intros H. apply orb_false_iff in H. destruct H as [H1 H2]. split; [exact H1|].
  apply negb_false_iff in H2. apply N.eqb_eq. exact H2.
Qed.

Ltac break_match H :=
  repeat match type of H with
  | context [match ?x with _ => _ end] => destruct x eqn:?
  end.

(** [step_cases H Hpc]: H : step E R s a = Some (s', es); one goal per branch of the step function,
    with s' and es substituted *)
Ltac step_cases H t :=
  unfold step, step_gen in H; cbv beta iota zeta in H;
  match type of H with
  | match ?a with Start _ _ => _ | Step _ => _ end = _ => destruct a as [t ?o|t]
  end;
  break_match H; try discriminate H;
  inversion H; subst; clear H.

Lemma ovf_sticky E R s a s' es : step E R s a = Some (s', es) -> g_ovf s' = false -> g_ovf s = false.
Proof.
  intros H. step_cases H t; prj; try (intros; assumption).
  all: intros Ho; apply orb_false_ovf in Ho; tauto.
Qed.

(** * Layer A: node chain, counters, per-thread node facts *)
Section LayerA.
  Variables E R : N.
  Hypothesis HE : 1 <= E.
  Hypothesis HM : C_step_size E * E < 2 ^ 32.
  Notation S := (SS E).
  Notation tk := (tick_of E).
  Notation al := (aligned E).
  Local Notation tick_mono := (tick_mono E HE HM).
  Local Notation aligned_step := (aligned_step E HE HM).
  Local Notation aligned_0 := (aligned_0 E HE HM).
  Local Notation aligned_SS := (aligned_SS E HE HM).
  Local Notation tick_0 := (tick_0 E HE HM).
  Local Notation tick_SS := (tick_SS E HE HM).
  Local Notation maxi_le := (maxi_le E HE HM).

  (** the private (allocated, not yet linked or already lost) node of a pushing thread *)
  Definition priv (p : pc) : option N :=
    match p with
    | P5 _ _ n _ | P6 _ _ n | P6a _ n | P6b _ n | P6c _ n => Some n
    | _ => None
    end.

  Definition fresh_node (st : state) (n : N) : Prop := n <> 0 /\ n < nalloc st /\ ~ In n (g_nodes st).
  Definition in_old (st : state) (h : N) : Prop := In h (g_retired st ++ [head st]).
  (** push tickets / pop tickets handed out on node n so far *)
  Definition pa (st : state) (n : N) : N := tk (pushi st n).
  Definition pd (st : state) (n : N) : N := tk (popi st n).
  Definition ctor_ent (b j : N) : cell := if j =? 0 then CVal b else CNull.

  Definition TA (st : state) (p : pc) : Prop :=
    match p with
    | P2 _ t | P8 _ t _ => In t (g_nodes st)
    | P3 _ t => In t (g_nodes st) /\ E + 1 <= pa st t
    | P4 _ t => In t (g_nodes st) /\ E + 1 <= pa st t /\ (nnext st t = 0 -> tail st = t)
    | P9 _ t => In t (g_nodes st) /\ nnext st t <> 0
    | P5 b t n i =>
      In t (g_nodes st) /\ E + 1 <= pa st t /\ (nnext st t = 0 -> tail st = t) /\ fresh_node st n /\ popi st n = 0 /\ pushi st n = S /\ nnext st n = 0 /\
      i < E /\ (forall j, j < i -> ent st n j = ctor_ent b j)
    | P6 b t n =>
      In t (g_nodes st) /\ E + 1 <= pa st t /\ (nnext st t = 0 -> tail st = t) /\ fresh_node st n /\ popi st n = 0 /\ pushi st n = S /\ nnext st n = 0 /\
      (forall j, j < E -> ent st n j = ctor_ent b j)
    | P6a _ n => fresh_node st n /\ popi st n = 0
    | P6b _ n | P6c _ n => fresh_node st n /\ popi st n = 0 /\ pushi st n = 0
    | P7 t n | P10 _ t n => In t (g_nodes st) /\ nnext st t = n /\ n <> 0
    | D2 h | D3 h _ | D4 h | D5 h => in_old st h
    | D6 h => in_old st h /\ E + 1 <= pd st h
    | D6t h nx => in_old st h /\ E + 1 <= pd st h /\ nnext st h = nx /\ nx <> 0
    | D7 h nx => in_old st h /\ E + 1 <= pd st h /\ nnext st h = nx /\ nx <> 0 /\ tail st <> h
    | D9 h _ _ | D10 h _ _ | D11 h _ => In h (g_nodes st)
    | _ => True
    end.

  Record InvA (st : state) : Prop := mkInvA {
    a_path : lpath (nnext st) (g_nodes st);
    a_nodup : NoDup (g_nodes st);
    a_lt : forall n, In n (g_nodes st) -> n < nalloc st;
    a_head : exists rest, g_nodes st = g_retired st ++ head st :: rest /\ forall n, In n rest -> popi st n = 0;
    a_tail : exists l0, g_nodes st = l0 ++ [tail st] \/ exists x, g_nodes st = l0 ++ [tail st; x];
    a_al : forall n, In n (g_nodes st) -> al (pushi st n) /\ al (popi st n);
    a_full : forall n, In n (g_nodes st) -> nnext st n <> 0 -> E + 1 <= pa st n;
    a_ret : forall n, In n (g_retired st) -> E + 1 <= pd st n;
    a_tnr : ~ In (tail st) (g_retired st);
    a_thr : forall t, TA st (th st t);
    a_priv : forall t1 t2 n, priv (th st t1) = Some n -> priv (th st t2) = Some n -> t1 = t2
  }.

  (** frame rule for the per-thread facts of the other threads *)
  Lemma TA_frame st st' q :
    incl (g_nodes st) (g_nodes st') ->
    (forall n, In n (g_nodes st) -> pa st n <= pa st' n /\ pd st n <= pd st' n) ->
    (forall h, in_old st h -> in_old st' h) ->
    (forall n, In n (g_nodes st) -> nnext st n <> 0 -> nnext st' n = nnext st n) ->
    (forall n, In n (g_nodes st) -> nnext st n = 0 -> tail st = n -> tail st' = n) ->
    (forall n, priv q = Some n -> fresh_node st n ->
       fresh_node st' n /\ popi st' n = popi st n /\ pushi st' n = pushi st n /\ nnext st' n = nnext st n /\
       forall j, ent st' n j = ent st n j) ->
    (forall h, in_old st h -> tail st <> h -> tail st' <> h) ->
    (forall h, in_old st h -> In h (g_nodes st)) ->
    TA st q -> TA st' q.
  Proof using HE HM.
    intros Hin Hcnt Hold Hnx Htl Hpr Htne Hio H.
    assert (Hz : forall n, In n (g_nodes st) -> nnext st' n = 0 -> nnext st n = 0).
    { intros n Hn Hz. destruct (N.eq_dec (nnext st n) 0) as [e|e]; [exact e|]. rewrite (Hnx n Hn e) in Hz. contradiction. }
    destruct q; cbn [TA] in *; try exact I.
    all: try (apply Hin; exact H).
    all: try (apply Hold; exact H).
    - (* P3 *) destruct H as [H1 H2]. split; [apply Hin; exact H1|]. specialize (Hcnt _ H1). lia.
    - (* P4 *) destruct H as (H1 & H2 & H3). split; [apply Hin; exact H1|]. split; [specialize (Hcnt _ H1); lia|].
      intros Hn. apply Htl; auto.
    - (* P5 *) destruct H as (H1 & H2 & H2' & H3 & H4 & H5 & H6 & H7 & H8).
      destruct (Hpr n eq_refl H3) as (F1 & F2 & F3 & F4 & F5).
      split; [apply Hin; exact H1|]. split; [specialize (Hcnt _ H1); lia|].
      split; [intros Hn; apply Htl; auto|].
      split; [exact F1|]. rewrite F2, F3, F4. repeat split; try assumption.
      intros j Hj. rewrite F5. apply H8. exact Hj.
    - (* P6 *) destruct H as (H1 & H2 & H2' & H3 & H4 & H5 & H6 & H8).
      destruct (Hpr n eq_refl H3) as (F1 & F2 & F3 & F4 & F5).
      split; [apply Hin; exact H1|]. split; [specialize (Hcnt _ H1); lia|].
      split; [intros Hn; apply Htl; auto|].
      split; [exact F1|]. rewrite F2, F3, F4. repeat split; try assumption.
      intros j Hj. rewrite F5. apply H8. exact Hj.
    - (* P7 *) destruct H as (H1 & H2 & H3). split; [apply Hin; exact H1|]. split; [|exact H3].
      rewrite Hnx; [exact H2|exact H1|congruence].
    - (* P6a *) destruct H as (H3 & H4). destruct (Hpr n eq_refl H3) as (F1 & F2 & F3 & F4 & F5).
      split; [exact F1|]. rewrite F2. exact H4.
    - destruct H as (H3 & H4 & H5). destruct (Hpr n eq_refl H3) as (F1 & F2 & F3 & F4 & F5).
      split; [exact F1|]. rewrite F2, F3. split; assumption.
    - destruct H as (H3 & H4 & H5). destruct (Hpr n eq_refl H3) as (F1 & F2 & F3 & F4 & F5).
      split; [exact F1|]. rewrite F2, F3. split; assumption.
    - (* P9 *) destruct H as [H1 H2]. split; [apply Hin; exact H1|]. rewrite Hnx; assumption.
    - (* P10 *) destruct H as (H1 & H2 & H3). split; [apply Hin; exact H1|]. split; [|exact H3].
      rewrite Hnx; [exact H2|exact H1|congruence].
    - (* D6 *) destruct H as [H1 H2]. split; [apply Hold; exact H1|]. specialize (Hcnt _ (Hio _ H1)). lia.
    - (* D6t *) destruct H as (H1 & H2 & H3 & H4). split; [apply Hold; exact H1|].
      split; [specialize (Hcnt _ (Hio _ H1)); lia|]. split; [|exact H4].
      rewrite Hnx; [exact H3|apply Hio; exact H1|congruence].
    - (* D7 *) destruct H as (H1 & H2 & H3 & H4 & H5). split; [apply Hold; exact H1|].
      split; [specialize (Hcnt _ (Hio _ H1)); lia|]. split; [|split; [exact H4|apply Htne; assumption]].
      rewrite Hnx; [exact H3|apply Hio; exact H1|congruence].
  Qed.

  Lemma priv_upd f t p :
    (forall t1 t2 n, priv (f t1) = Some n -> priv (f t2) = Some n -> t1 = t2) ->
    (priv p = None \/ priv p = priv (f t) \/ (forall n, priv p = Some n -> forall t', priv (f t') <> Some n)) ->
    forall t1 t2 n, priv (upd f t p t1) = Some n -> priv (upd f t p t2) = Some n -> t1 = t2.
  Proof using HE HM.
    intros HU Hp a b n Ha Hb.
    destruct (Nat.eq_dec a t) as [->|Ha']; destruct (Nat.eq_dec b t) as [->|Hb']; [reflexivity| | |].
    - rewrite upd_same in Ha. rewrite upd_other in Hb by exact Hb'.
      destruct Hp as [Hp|[Hp|Hp]]; [congruence| |exfalso; exact (Hp n Ha b Hb)].
      rewrite Hp in Ha. exfalso. apply Hb'. exact (HU _ _ _ Hb Ha).
    - rewrite upd_same in Hb. rewrite upd_other in Ha by exact Ha'.
      destruct Hp as [Hp|[Hp|Hp]]; [congruence| |exfalso; exact (Hp n Hb a Ha)].
      rewrite Hp in Hb. exfalso. apply Ha'. exact (HU _ _ _ Ha Hb).
    - rewrite upd_other in Ha by assumption. rewrite upd_other in Hb by assumption. exact (HU _ _ _ Ha Hb).
  Qed.

  (** consequences of the chain part *)
  Lemma old_in_nodes st h :
    (exists rest, g_nodes st = g_retired st ++ head st :: rest /\ forall n, In n rest -> popi st n = 0) ->
    in_old st h -> In h (g_nodes st).
  Proof using HE HM.
    intros (rest & -> & _) Hh. unfold in_old in Hh. apply in_app_or in Hh. apply in_or_app.
    destruct Hh as [Hh|[<-|[]]]; [left; exact Hh|right; left; reflexivity].
  Qed.

  Lemma retired_in_nodes st h :
    (exists rest, g_nodes st = g_retired st ++ head st :: rest /\ forall n, In n rest -> popi st n = 0) ->
    In h (g_retired st) -> In h (g_nodes st).
  Proof using HE HM. intros (rest & -> & _) Hh. apply in_or_app. left. exact Hh. Qed.

  Lemma tail_in_nodes st :
    (exists l0, g_nodes st = l0 ++ [tail st] \/ exists x, g_nodes st = l0 ++ [tail st; x]) -> In (tail st) (g_nodes st).
  Proof using HE HM. intros (l0 & [->|[x ->]]); apply in_or_app; right; left; reflexivity. Qed.

  Lemma head_in_old st : in_old st (head st).
  Proof using HE HM. unfold in_old. apply in_or_app. right. left. reflexivity. Qed.

  Lemma old_not_rest st rest h :
    NoDup (g_nodes st) -> g_nodes st = g_retired st ++ head st :: rest -> in_old st h -> ~ In h rest.
  Proof using HE HM.
    intros Hnd He Hh. rewrite He in Hnd.
    replace (g_retired st ++ head st :: rest) with ((g_retired st ++ [head st]) ++ rest) in Hnd
      by (rewrite <- app_assoc; reflexivity).
    eapply NoDup_app_notin; eauto.
  Qed.

  Lemma priv_fresh st t n : TA st (th st t) -> priv (th st t) = Some n -> fresh_node st n.
  Proof using HE HM. destruct (th st t); cbn [TA priv]; intros H Hp; inversion Hp; subst; tauto. Qed.

  Ltac frame_side :=
    match goal with
    | |- incl _ _ => first [apply incl_refl | apply incl_appl; apply incl_refl]
    | |- forall n, In n _ -> pa _ _ <= pa _ _ /\ pd _ _ <= pd _ _ => intros; unfold pa, pd; prj; split; apply N.le_refl
    | |- forall h, in_old _ h -> in_old _ h => intros ? ?; assumption
    | |- forall h, in_old _ h -> tail _ <> h -> tail _ <> h => intros ? ? ?; assumption
    | |- forall n, In n _ -> _ <> 0 -> _ = _ => intros; reflexivity
    | |- forall n, In n _ -> _ = 0 -> _ = n -> _ = n => intros; assumption
    | |- forall n, priv _ = Some n -> fresh_node _ n -> _ => intros ? ? ?; unfold fresh_node in *; prj; repeat split; first [tauto | lia | reflexivity | (intros; reflexivity)]
    | _ => idtac
    end.

  Ltac hb := repeat match goal with
    | H : (_ =? _) = true |- _ => apply N.eqb_eq in H
    | H : (_ =? _) = false |- _ => apply N.eqb_neq in H
    | H : (_ <? _) = true |- _ => apply N.ltb_lt in H
    | H : (_ <? _) = false |- _ => apply N.ltb_ge in H
    end.

  Ltac eqbs := repeat match goal with |- context [?a =? ?b] => destruct (N.eqb_spec a b); subst end.

  (* the private node of another thread is not touched *)
  Ltac priv_frame Hpriv Hne :=
    let n0 := fresh "n0" in let Hp0 := fresh "Hp0" in let Hf0 := fresh "Hf0" in let Hq := fresh "Hq" in
    intros n0 Hp0 Hf0;
    match goal with Hpc : th ?s ?t = _ |- _ =>
      pose proof (fun H => Hne (Hpriv _ t n0 Hp0 H)) as Hq; rewrite Hpc in Hq; cbn [priv] in Hq
    end;
    unfold fresh_node in *; prj; unfold setf, setf2; eqbs;
    repeat split; try tauto; try lia; try (exfalso; apply Hq; reflexivity); try (intros; reflexivity).

  Lemma tick_step_le x : tk x <= tk (x + S).
  Proof using HE HM. apply tick_mono. lia. Qed.

  Lemma nodes_nonempty st : lpath (nnext st) (g_nodes st) -> exists n, In n (g_nodes st).
  Proof using HE HM. intros H. inversion H; eexists; left; reflexivity. Qed.

  Lemma last_two (l0 l1 : list N) a b c : l0 ++ [a] = l1 ++ [b; c] -> a = c /\ l0 = l1 ++ [b].
  Proof using HE HM.
    intros H. change (l1 ++ [b; c]) with (l1 ++ [b] ++ [c]) in H. rewrite app_assoc in H.
    apply app_inj_tail in H. destruct H as [H1 H2]. split; [exact H2|exact H1].
  Qed.

  (** the tail has a successor: it is the second-last node and the successor is the last one *)
  Lemma tail_lag st nx :
    lpath (nnext st) (g_nodes st) ->
    (exists l0, g_nodes st = l0 ++ [tail st] \/ exists x, g_nodes st = l0 ++ [tail st; x]) ->
    nnext st (tail st) = nx -> nx <> 0 ->
    exists l0, g_nodes st = l0 ++ [tail st; nx].
  Proof using HE HM.
    intros Hp (l0 & [He|[x He]]) Hn Hz.
    - exfalso. pose proof (MsqInv.lpath_last_null _ _ Hp) as Hl. rewrite He in Hl. rewrite last_last in Hl. congruence.
    - exists l0. rewrite He in Hp. apply MsqInv.lpath_suffix in Hp; [|discriminate].
      inversion Hp as [|a b r Ha Hab Hr]; subst. rewrite He. reflexivity.
  Qed.

  (** the successor of the tail is younger than every retired node and the head, as long as the tail itself is not retired *)
  Lemma tail_succ_young st n :
    lpath (nnext st) (g_nodes st) -> NoDup (g_nodes st) ->
    (exists rest, g_nodes st = g_retired st ++ head st :: rest /\ forall n, In n rest -> popi st n = 0) ->
    (exists l0, g_nodes st = l0 ++ [tail st] \/ exists x, g_nodes st = l0 ++ [tail st; x]) ->
    ~ In (tail st) (g_retired st) ->
    nnext st (tail st) = n -> n <> 0 -> forall h, in_old st h -> n <> h.
  Proof using HE HM.
    intros Hp Hnd (rest & He & _) Htl Htnr Hn Hz h Hh Heq. subst h.
    destruct (tail_lag st n Hp Htl Hn Hz) as [l0 El].
    apply (old_not_rest st rest n Hnd He Hh).
    assert (Hin : In (tail st) (head st :: rest)).
    { assert (Hi : In (tail st) (g_nodes st)) by (rewrite El; apply in_or_app; right; left; reflexivity).
      rewrite He in Hi. apply in_app_or in Hi. destruct Hi as [Hi|Hi]; [contradiction|exact Hi]. }
    rewrite He in Hnd, El. destruct Hin as [Hh0|Hr].
    - rewrite Hh0 in El, Hnd. apply app_inj_nodup in El; [|exact Hnd]. destruct El as [_ ->]. left; reflexivity.
    - apply in_split in Hr. destruct Hr as (r1 & r2 & ->).
      replace (g_retired st ++ head st :: r1 ++ tail st :: r2) with ((g_retired st ++ head st :: r1) ++ tail st :: r2) in *
        by (rewrite <- app_assoc; reflexivity).
      apply app_inj_nodup in El; [|exact Hnd]. destruct El as [_ ->].
      apply in_or_app. right. right. left. reflexivity.
  Qed.

  Lemma InvA_step s a s' es : InvA s -> step E R s a = Some (s', es) -> g_ovf s' = false -> InvA s'.
  Proof using HE HM.
    intros HI H. step_cases H t.
    all: intros Hov; pose proof HI as [Hpath Hnd Hlt Hhead Htail Hal Hfull Hret Htnr Hthr Hpriv]; pose proof (Hthr t) as Ht;
      match goal with Hpc : th _ _ = _ |- _ => rewrite Hpc in Ht; cbn [TA] in Ht; unfold fresh_node in Ht end.
    all: hb.
    all: prj_in Hov; try (apply orb_false_ovf in Hov; destruct Hov as [Hov Hw]; rewrite Hw in * ).
    all: constructor; prj; try assumption.
    all: try (apply priv_upd; [exact Hpriv|];
              match goal with Hpc : th _ _ = _ |- _ => rewrite Hpc; cbn [priv]; first [left; reflexivity | right; left; reflexivity] end).
    all: try (apply threads_upd; [intros t' Hne; first [exact (Hthr t') | refine (TA_frame s _ _ _ _ _ _ _ _ _ (fun h => old_in_nodes s h Hhead) (Hthr t')); frame_side] | cbn [TA]; prj; try exact I; try assumption; try tauto]).
    (* generic goal shapes *)
    all: try match goal with
      | |- forall n, In n (g_nodes _) -> n < nalloc _ + 1 => intros n0 Hn0; specialize (Hlt n0 Hn0); lia
      | |- forall n, priv (th _ _) = Some n -> fresh_node _ n -> _ => solve [priv_frame Hpriv Hne]
      | |- forall n, In n (g_nodes _) -> pa _ n <= pa _ n /\ pd _ n <= pd _ n =>
        intros n0 Hn0; unfold pa, pd; prj; unfold setf; eqbs; split; first [apply N.le_refl | apply tick_step_le | (specialize (Hlt n0 Hn0); lia) | tauto]
      | |- forall n, In n (g_nodes _) -> al _ /\ al _ =>
        intros n0 Hn0; destruct (Hal n0 Hn0) as [A1 A2]; specialize (Hlt n0 Hn0); unfold setf; eqbs; split;
        first [assumption | (apply aligned_step; assumption) | lia | tauto]
      | |- forall n, In n (g_nodes _) -> _ <> 0 -> E + 1 <= pa _ n =>
        let F := fresh "F" in let L := fresh "L" in
        intros n0 Hn0; pose proof (Hlt n0 Hn0) as L; pose proof (Hfull n0 Hn0) as F; unfold pa in *; prj; unfold setf in *; eqbs; intros Hz0;
        first [lia | tauto | (apply F; exact Hz0) | (etransitivity; [apply F; exact Hz0|apply tick_step_le]) ]
      | |- forall n, In n (g_retired _) -> E + 1 <= pd _ n =>
        let F := fresh "F" in let L := fresh "L" in
        intros n0 Hn0; pose proof (Hlt n0 (retired_in_nodes s n0 Hhead Hn0)) as L; pose proof (Hret n0 Hn0) as F; unfold pd in *; prj; unfold setf; eqbs;
        first [lia | exact F | (etransitivity; [exact F|apply tick_step_le]) ]
      end.
    - (* P1 *) apply tail_in_nodes; exact Htail.
    - (* P2 -> P3 *) split; [exact Ht|]. unfold pa; prj. rewrite setf_same. destruct (Hal t0 Ht) as [A1 _].
      match goal with Hb : (MAXI E <=? _) = true |- _ => rewrite maxi_le in Hb by exact A1; apply N.leb_le in Hb end.
      destruct (aligned_step _ A1) as [_ ->]. lia.
    - (* P4 alloc: path *) eapply MsqInv.lpath_ext; [exact Hpath|]. intros x Hx. apply setf_other. specialize (Hlt x Hx). lia.
    - destruct Hhead as (rest & He & Hr). exists rest. split; [exact He|]. intros n0 Hn0.
      rewrite setf_other; [apply Hr; exact Hn0|].
      assert (Hin : In n0 (g_nodes s)) by (rewrite He; apply in_or_app; right; right; exact Hn0).
      specialize (Hlt n0 Hin). lia.
    - intros n0 Hn0. specialize (Hlt n0 Hn0). unfold pa, pd; prj. rewrite !setf_other by lia. split; apply N.le_refl.
    - intros n0 Hn0 _. specialize (Hlt n0 Hn0). apply setf_other. lia.
    - destruct Ht as (H1 & H2 & H3). destruct (nodes_nonempty s Hpath) as [x Hx]. pose proof (Hlt x Hx). pose proof (Hlt t0 H1).
      unfold pa, fresh_node; prj. rewrite !setf_same. rewrite !(setf_other _ _ _ t0) by lia.
      repeat split; try assumption; try lia.
      intros Hc. specialize (Hlt _ Hc). lia.
    - apply priv_upd; [exact Hpriv|]. right; right. cbn [priv]. intros n0 Hn0 t' Hc. inversion Hn0; subst.
      pose proof (priv_fresh s t' _ (Hthr t') Hc) as (_ & Hl & _). lia.
    - destruct Ht as (H1 & H2 & H3 & H4 & H5 & H6 & H7 & H8 & H9). unfold fresh_node, pa in *; prj.
      repeat split; try tauto; try lia.
      intros j Hj. destruct (N.eq_dec j i) as [->|Hji]; [rewrite setf2_same; unfold ctor_ent; destruct (N.eqb_spec i 0); congruence|].
      rewrite setf2_other by (right; exact Hji). apply H9. lia.
    - destruct Ht as (H1 & H2 & H3 & H4 & H5 & H6 & H7 & H8 & H9). unfold fresh_node, pa in *; prj.
      repeat split; try tauto; try lia.
      intros j Hj. destruct (N.eq_dec j i) as [->|Hji]; [rewrite setf2_same; unfold ctor_ent; destruct (N.eqb_spec i 0); congruence|].
      rewrite setf2_other by (right; exact Hji). apply H9. lia.
    - destruct Ht as (H1 & H2 & H3 & H4 & H5 & H6 & H7 & H8 & H9). unfold fresh_node, pa in *; prj.
      repeat split; try tauto; try lia.
      intros j Hj. destruct (N.eq_dec j i) as [->|Hji]; [rewrite setf2_same; unfold ctor_ent; destruct (N.eqb_spec i 0); congruence|].
      rewrite setf2_other by (right; exact Hji). apply H9. lia.
    - destruct Ht as (H1 & H2 & H3 & H4 & H5 & H6 & H7 & H8 & H9). unfold fresh_node, pa in *; prj.
      repeat split; try tauto; try lia.
      intros j Hj. destruct (N.eq_dec j i) as [->|Hji]; [rewrite setf2_same; unfold ctor_ent; destruct (N.eqb_spec i 0); congruence|].
      rewrite setf2_other by (right; exact Hji). apply H9. lia.
    - (* P6 link *) destruct Ht as (H1 & H2 & H3 & (H4 & H4' & H4'') & H5 & H6 & H7 & H8).
      apply (MsqInv.lpath_snoc _ _ Hpath t0 n); assumption.
    - apply MsqInv.NoDup_snoc; [exact Hnd|tauto].
    - intros n0 Hn0. apply in_app_or in Hn0. destruct Hn0 as [Hn0|[<-|[]]]; [apply Hlt; exact Hn0|tauto].
    - destruct Hhead as (rest & He & Hr). exists (rest ++ [n]). split; [rewrite He, <- app_assoc; reflexivity|].
      intros n0 Hn0. apply in_app_or in Hn0. destruct Hn0 as [Hn0|[<-|[]]]; [apply Hr; exact Hn0|tauto].
    - destruct Ht as (H1 & H2 & H3 & H4 & H5 & H6 & H7 & H8).
      destruct (MsqInv.lpath_last _ _ Hpath t0 H1 ltac:(assumption)) as [l1 El].
      exists l1. right. exists n. rewrite El, <- app_assoc. rewrite H3 by assumption. reflexivity.
    - intros n0 Hn0. apply in_app_or in Hn0. destruct Hn0 as [Hn0|[<-|[]]]; [apply Hal; exact Hn0|].
      destruct Ht as (H1 & H2 & H3 & H4 & H5 & H6 & H7 & H8). rewrite H5, H6. split; [apply aligned_SS|apply aligned_0].
    - destruct Ht as (H1 & H2 & H3 & (H4 & H4' & H4'') & H5 & H6 & H7 & H8).
      intros n0 Hn0 Hz0. unfold pa; prj. unfold setf in Hz0. destruct (N.eqb_spec n0 t0) as [->|Hd]; [exact H2|].
      apply in_app_or in Hn0. destruct Hn0 as [Hn0|[<-|[]]]; [apply Hfull; assumption|congruence].
    - intros n0 Hn0 Hz0. apply setf_other. intros ->. congruence.
    - destruct Ht as (H1 & H2 & H3 & (H4 & H4' & H4'') & H5 & H6 & H7 & H8).
      intros n0 Hp0 Hf0. assert (Hd : n0 <> n).
      { intros ->. apply Hne. apply (Hpriv t' t n Hp0). match goal with Hpc : th _ _ = _ |- _ => rewrite Hpc end. reflexivity. }
      destruct Hf0 as (F1 & F2 & F3). assert (Hd' : n0 <> t0) by (intros ->; contradiction).
      unfold fresh_node; prj. rewrite setf_other by exact Hd'. repeat split; try assumption; try reflexivity.
      intros Hc. apply in_app_or in Hc. destruct Hc as [Hc|[Hc|[]]]; [contradiction|congruence].
    - destruct Ht as (H1 & H2 & H3 & (H4 & H4' & H4'') & H5 & H6 & H7 & H8).
      split; [apply in_or_app; left; exact H1|]. split; [apply setf_same|exact H4].
    - (* P6 lost *) unfold fresh_node; prj. tauto.
    - (* P7 tail *) destruct Ht as (H1 & H2 & H3). subst t0.
      destruct (tail_lag s n Hpath Htail H2 H3) as [l0 El]. exists (l0 ++ [tail s]). left. rewrite El, <- app_assoc. reflexivity.
    - destruct Ht as (H1 & H2 & H3). subst t0. intros Hc.
      apply (tail_succ_young s n Hpath Hnd Hhead Htail Htnr H2 H3 n); [apply in_or_app; left; exact Hc|reflexivity].
    - destruct Ht as (H1 & H2 & H3). intros n0 Hn0 Hz0 He. congruence.
    - destruct Ht as (H1 & H2 & H3). subst t0. prj. intros h0 Hh0 _.
      exact (tail_succ_young s n Hpath Hnd Hhead Htail Htnr H2 H3 h0 Hh0).
    - (* P6a *) unfold fresh_node; prj. rewrite setf_same. tauto.
    - (* P10 tail *) destruct Ht as (H1 & H2 & H3). subst t0.
      destruct (tail_lag s nx Hpath Htail H2 H3) as [l0 El]. exists (l0 ++ [tail s]). left. rewrite El, <- app_assoc. reflexivity.
    - destruct Ht as (H1 & H2 & H3). subst t0. intros Hc.
      apply (tail_succ_young s nx Hpath Hnd Hhead Htail Htnr H2 H3 nx); [apply in_or_app; left; exact Hc|reflexivity].
    - destruct Ht as (H1 & H2 & H3). intros n0 Hn0 Hz0 He. congruence.
    - destruct Ht as (H1 & H2 & H3). subst t0. prj. intros h0 Hh0 _.
      exact (tail_succ_young s nx Hpath Hnd Hhead Htail Htnr H2 H3 h0 Hh0).
    - (* D1 *) unfold in_old; prj. apply in_or_app. right. left. reflexivity.
    - destruct Hhead as (rest & He & Hr). exists rest. split; [exact He|]. intros n0 Hn0.
      rewrite setf_other; [apply Hr; exact Hn0|]. intros ->. exact (old_not_rest s rest h Hnd He Ht Hn0).
    - pose proof (old_in_nodes s h Hhead Ht). priv_frame Hpriv Hne.
    - split; [exact Ht|]. pose proof (old_in_nodes s h Hhead Ht) as Hin. unfold pd; prj. rewrite setf_same.
      destruct (Hal h Hin) as [_ A1].
      match goal with Hb : (MAXI E <=? _) = true |- _ => rewrite maxi_le in Hb by exact A1; apply N.leb_le in Hb end.
      destruct (aligned_step _ A1) as [_ ->]. lia.
    - destruct Hhead as (rest & He & Hr). exists rest. split; [exact He|]. intros n0 Hn0.
      rewrite setf_other; [apply Hr; exact Hn0|]. intros ->. exact (old_not_rest s rest h Hnd He Ht Hn0).
    - pose proof (old_in_nodes s h Hhead Ht). priv_frame Hpriv Hne.
    - exact (old_in_nodes s h Hhead Ht).
    - (* D6t tail *) destruct Ht as (H1 & H2 & H3 & H4). subst h.
      destruct (tail_lag s nx Hpath Htail H3 H4) as [l0 El]. exists (l0 ++ [tail s]). left. rewrite El, <- app_assoc. reflexivity.
    - destruct Ht as (H1 & H2 & H3 & H4). subst h. intros Hc.
      apply (tail_succ_young s nx Hpath Hnd Hhead Htail Htnr H3 H4 nx); [apply in_or_app; left; exact Hc|reflexivity].
    - destruct Ht as (H1 & H2 & H3 & H4). intros n0 Hn0 Hz0 He. congruence.
    - destruct Ht as (H1 & H2 & H3 & H4). subst h. prj. intros h0 Hh0 _.
      exact (tail_succ_young s nx Hpath Hnd Hhead Htail Htnr H3 H4 h0 Hh0).
    - destruct Ht as (H1 & H2 & H3 & H4). subst h. repeat split; try assumption.
      exact (tail_succ_young s nx Hpath Hnd Hhead Htail Htnr H3 H4 _ H1).
    - (* D7 head *) destruct Ht as (H1 & H2 & H3 & H4 & H5). subst h.
      destruct Hhead as (rest & He & Hr). pose proof Hpath as Hp2. rewrite He in Hp2.
      apply MsqInv.lpath_suffix in Hp2; [|discriminate].
      destruct (MsqInv.lpath_hd_next _ _ _ Hp2 ltac:(congruence)) as [r' Er]. subst rest.
      exists r'. split; [rewrite He, <- app_assoc, H3; reflexivity|]. intros n0 Hn0. apply Hr. right. exact Hn0.
    - destruct Ht as (H1 & H2 & H3 & H4 & H5). intros n0 Hn0. apply in_app_or in Hn0.
      destruct Hn0 as [Hn0|[<-|[]]]; [apply Hret; exact Hn0|exact H2].
    - destruct Ht as (H1 & H2 & H3 & H4 & H5). intros Hc. apply in_app_or in Hc.
      destruct Hc as [Hc|[Hc|[]]]; [exact (Htnr Hc)|exact (H5 (eq_sym Hc))].
    - intros h0 Hh0. unfold in_old in *; prj. subst h. apply in_or_app. left. exact Hh0.
  Qed.

  Lemma InvA_init : InvA init.
  Proof using HE HM.
    constructor; cbn [init head tail popi pushi ent nnext nalloc tokv th g_pushed g_popped g_fate g_nodes g_retired g_ptk g_dtk g_ovf].
    - apply MsqInv.lp_one; [discriminate|reflexivity].
    - constructor; [intros []|constructor].
    - intros n [<-|[]]. reflexivity.
    - exists []. split; [reflexivity|]. intros n [].
    - exists []. left. reflexivity.
    - intros n _. split; apply aligned_0.
    - intros n _ Hc. exfalso. apply Hc. reflexivity.
    - intros n [].
    - intros [].
    - intros t. exact I.
    - intros t1 t2 n Hc. discriminate Hc.
  Qed.

  Theorem InvA_reach s : reach init (step E R) s -> g_ovf s = false -> InvA s.
  Proof using HE HM.
    intros Hr. induction Hr as [|s a s' es Hr IH Hst]; intros Hov.
    - exact InvA_init.
    - eapply InvA_step; [apply IH; eapply ovf_sticky; eauto|exact Hst|exact Hov].
  Qed.
End LayerA.
