(** Node destructor of xenium::ramalhete_queue (gen/RamalheteNodeGen.v): with S = step_size =
    [C_step_size entries_per_node] (1 if 11 divides entries_per_node, else 11), exactly the tickets in
    [pop_idx/S, min(push_idx/S, entries_per_node)) are deleted, each exactly once; and within one node
    distinct tickets use distinct entries (S is coprime to entries_per_node). *)
From Coq Require Import NArith ZArith Lia Bool List.
From XV Require Import Base.Word gen.RamalheteNodeGen.
Import ListNotations.
Local Open Scope N_scope.

(** [tickets lo hi] = [lo; lo+1; ...; hi-1]  (empty if hi <= lo). *)
Fixpoint tickets_from (lo : N) (n : nat) : list N :=
  match n with O => [] | S n' => lo :: tickets_from (N.succ lo) n' end.
Definition tickets (lo hi : N) : list N := tickets_from lo (N.to_nat (hi - lo)).

(** one [delete_value] of ticket [j]: the counter of slot [(S*j) mod E] is incremented *)
Definition del_step (E : N) (m : mem_t) (j : N) : mem_t :=
  mset m 0 ((C_step_size E * j) mod E) (wadd 64 (mget m 0 ((C_step_size E * j) mod E)) 1).

Lemma tickets_from_In : forall n lo j, In j (tickets_from lo n) <-> lo <= j < lo + N.of_nat n.
Proof.
  induction n as [|n IH]; intros lo j; cbn [tickets_from In].
  - lia.
  - rewrite IH. lia.
Qed.

Lemma tickets_In lo hi j : In j (tickets lo hi) <-> lo <= j < hi.
Proof. unfold tickets. rewrite tickets_from_In. lia. Qed.

Lemma tickets_nil lo hi : hi <= lo -> tickets lo hi = [].
Proof. intros H. unfold tickets. replace (hi - lo) with 0 by lia. reflexivity. Qed.

Lemma tickets_cons lo hi : lo < hi -> tickets lo hi = lo :: tickets (N.succ lo) hi.
Proof.
  intros H. unfold tickets.
  replace (N.to_nat (hi - lo)) with (S (N.to_nat (hi - N.succ lo))) by lia.
  reflexivity.
Qed.

Lemma tickets_from_NoDup : forall n lo, NoDup (tickets_from lo n).
Proof.
  induction n as [|n IH]; intros lo; cbn [tickets_from]; constructor.
  - rewrite tickets_from_In. lia.
  - apply IH.
Qed.

Lemma tickets_NoDup lo hi : NoDup (tickets lo hi).
Proof. apply tickets_from_NoDup. Qed.

Lemma pow2_32 : 2 ^ 32 = 4294967296. Proof. reflexivity. Qed.
Lemma pow2_31 : 2 ^ 31 = 2147483648. Proof. reflexivity. Qed.

(** * The step size *)
Lemma step_cases E : C_step_size E = 1 \/ C_step_size E = 11.
Proof. unfold C_step_size. destruct (wmod E 11 =? 0); [left|right]; reflexivity. Qed.

Lemma step_pos E : 0 < C_step_size E.
Proof. destruct (step_cases E) as [->| ->]; lia. Qed.

Lemma step_1 E : E mod 11 = 0 -> C_step_size E = 1.
Proof. intros H. unfold C_step_size, wmod. rewrite H. reflexivity. Qed.

Lemma step_11 E : E mod 11 <> 0 -> C_step_size E = 11.
Proof.
  intros H. unfold C_step_size, wmod. destruct (N.eqb_spec (E mod 11) 0); [contradiction|reflexivity].
Qed.

(** 11 is prime: a divisor of 11 is 1 or 11 *)
Lemma divide_11 g : N.divide g 11 -> g = 1 \/ g = 11.
Proof.
  intros Hd. assert (Hle : g <= 11) by (apply N.divide_pos_le; [lia|exact Hd]).
  destruct Hd as [k Hk].
  assert (Hc : g = 0 \/ g = 1 \/ g = 2 \/ g = 3 \/ g = 4 \/ g = 5 \/ g = 6 \/ g = 7 \/ g = 8 \/
               g = 9 \/ g = 10 \/ g = 11) by lia.
  repeat (destruct Hc as [->|Hc]; [lia|]). subst g. lia.
Qed.

(** the step is coprime to the node size *)
Lemma step_coprime E : 0 < E -> N.gcd (C_step_size E) E = 1.
Proof.
  intros HE. destruct (N.eq_dec (E mod 11) 0) as [Hm|Hm].
  - rewrite (step_1 E Hm). apply N.gcd_1_l.
  - rewrite (step_11 E Hm).
    destruct (divide_11 (N.gcd 11 E) (N.gcd_divide_l 11 E)) as [Hg|Hg]; [exact Hg|].
    exfalso. apply Hm. apply N.mod_divide; [lia|]. rewrite <- Hg. apply N.gcd_divide_r.
Qed.

(** * The loop *)
Lemma node_loop_spec E pop push hi :
  C_step_size E * E < 2 ^ 32 -> hi <= E ->
  forall fuel j mem, (N.to_nat (hi - j) < fuel)%nat ->
  exists i', x_node_loop E fuel pop push (C_step_size E * hi) mem (C_step_size E * j)
             = Some (fold_left (del_step E) (tickets j hi) mem, i').
Proof.
  intros HE Hhi. rewrite pow2_32 in HE.
  assert (HS := step_pos E).
  induction fuel as [|f IH]; intros j mem Hf; [lia|].
  cbn [x_node_loop].
  destruct (N.ltb_spec (C_step_size E * j) (C_step_size E * hi)) as [Hlt|Hge].
  - assert (Hj : j < hi) by nia.
    rewrite (wadd_small 32) by (rewrite pow2_32; nia).
    replace (C_step_size E * j + C_step_size E) with (C_step_size E * N.succ j) by lia.
    rewrite (tickets_cons j hi Hj). cbn [fold_left].
    unfold wmod.
    apply IH. lia.
  - rewrite tickets_nil by nia. cbn [fold_left]. eexists. reflexivity.
Qed.

Lemma C_max_idx_eq E : C_step_size E * E < 2 ^ 32 -> C_max_idx E = C_step_size E * E.
Proof. intros H. unfold C_max_idx, wmul. apply N.mod_small. exact H. Qed.

(** General form (minimal side conditions: only [max_idx] must not wrap). *)
Theorem node_dtor_spec_gen E fuel p q mem :
  C_step_size E * E < 2 ^ 32 -> (N.to_nat E < fuel)%nat ->
  node_dtor E fuel (C_step_size E * p) (C_step_size E * q) mem
  = Some (fold_left (del_step E) (tickets p (N.min q E)) mem).
Proof.
  intros HE Hf. unfold node_dtor. rewrite C_max_idx_eq by exact HE.
  assert (HS := step_pos E).
  replace (N.min (C_step_size E * q) (C_step_size E * E)) with (C_step_size E * N.min q E)
    by (destruct (N.le_ge_cases q E); [rewrite !N.min_l|rewrite !N.min_r]; nia).
  destruct (node_loop_spec E (C_step_size E * p) (C_step_size E * q) (N.min q E) HE ltac:(lia)
              fuel p mem ltac:(lia))
    as [i' ->].
  reflexivity.
Qed.

(** (a) *)
Theorem node_dtor_spec E fuel p q mem :
  1 <= E -> C_step_size E * E < 2 ^ 32 -> (N.to_nat E < fuel)%nat ->
  node_dtor E fuel (C_step_size E * p) (C_step_size E * q) mem
  = Some (fold_left (fun m j => mset m 0 ((C_step_size E * j) mod E)
                                 (wadd 64 (mget m 0 ((C_step_size E * j) mod E)) 1))
                    (tickets p (N.min q E)) mem).
Proof. intros _ HE Hf. apply node_dtor_spec_gen; assumption. Qed.

(** (c) *)
Theorem node_dtor_total E fuel p q mem :
  1 <= E -> C_step_size E * E < 2 ^ 32 -> (N.to_nat E < fuel)%nat ->
  node_dtor E fuel (C_step_size E * p) (C_step_size E * q) mem <> None.
Proof.
  intros H1 H2 H3. rewrite (node_dtor_spec E fuel p q mem H1 H2 H3). discriminate.
Qed.

(** * Distinct tickets of one node use distinct entries (what the repaired [step_size] is about) *)
Definition slot (E j : N) : N := (C_step_size E * j) mod E.

Lemma slot_inj_le E j1 j2 :
  0 < E -> j1 <= j2 -> j2 < E -> slot E j1 = slot E j2 -> j1 = j2.
Proof.
  unfold slot. intros HE0 Hle Hlt He.
  assert (Hg := step_coprime E HE0).
  assert (HE : E <> 0) by lia.
  set (s := C_step_size E) in *. clearbody s.
  assert (Hd1 := N.div_mod (s * j1) E HE). assert (Hd2 := N.div_mod (s * j2) E HE).
  rewrite He in Hd1.
  set (d1 := s * j1 / E) in *. set (d2 := s * j2 / E) in *.
  set (r := (s * j2) mod E) in *. clearbody d1 d2 r.
  assert (Hdiv : N.divide E (s * (j2 - j1))).
  { exists (d2 - d1). rewrite N.mul_sub_distr_r. nia. }
  apply N.gauss in Hdiv; [|rewrite N.gcd_comm; exact Hg].
  destruct (N.eq_0_gt_0_cases (j2 - j1)) as [Hz|Hp]; [lia|].
  apply N.divide_pos_le in Hdiv; [lia|exact Hp].
Qed.

Lemma slot_inj E j1 j2 :
  0 < E -> j1 < E -> j2 < E -> slot E j1 = slot E j2 -> j1 = j2.
Proof.
  intros Hg H1 H2 He. destruct (N.le_ge_cases j1 j2) as [Hle|Hle].
  - apply (slot_inj_le E); assumption.
  - symmetry. apply (slot_inj_le E); [assumption|assumption|assumption|symmetry; assumption].
Qed.

(** the repaired code: within one node, distinct tickets use distinct entries, for EVERY node size *)
Theorem slots_distinct : forall E j1 j2,
  0 < E -> C_step_size E * E < 2 ^ 32 -> j1 < E -> j2 < E ->
  (C_step_size E * j1) mod E = (C_step_size E * j2) mod E -> j1 = j2.
Proof. intros E j1 j2 HE _ H1 H2 He. apply (slot_inj E); assumption. Qed.

(** the code before the repair (step_size = 11 unconditionally): two tickets of one node share an
    entry as soon as 11 divides the node size *)
Theorem old_step_collides : exists E j1 j2,
  0 < E /\ j1 < E /\ j2 < E /\ j1 <> j2 /\ (11 * j1) mod E = (11 * j2) mod E.
Proof. exists 11, 0, 1. repeat split; try reflexivity. discriminate. Qed.

(** * (b) consumed / out-of-range tickets are untouched, live tickets are deleted exactly once *)
Lemma NoDup_map_inj_on {A B} (f : A -> B) (l : list A) :
  (forall x y, In x l -> In y l -> f x = f y -> x = y) -> NoDup l -> NoDup (map f l).
Proof.
  induction l as [|a l IH]; intros Hinj Hnd; cbn [map]; [constructor|].
  inversion Hnd as [|a' l' Hna Hnd']; subst. constructor.
  - intros Hin. apply in_map_iff in Hin. destruct Hin as [x [Hfx Hx]].
    assert (x = a) by (apply Hinj; [right; exact Hx|left; reflexivity|exact Hfx]).
    subst. contradiction.
  - apply IH; [|exact Hnd']. intros x y Hx Hy. apply Hinj; right; assumption.
Qed.

Lemma del_step_get E m j b k :
  mget (del_step E m j) b k
  = if andb (b =? 0) (k =? slot E j) then wadd 64 (mget m 0 (slot E j)) 1 else mget m b k.
Proof. reflexivity. Qed.

Lemma fold_del_other E l : forall m b k,
  b <> 0 \/ ~ In k (map (slot E) l) ->
  mget (fold_left (del_step E) l m) b k = mget m b k.
Proof.
  induction l as [|j l IH]; intros m b k H; cbn [fold_left]; [reflexivity|].
  rewrite IH.
  - rewrite del_step_get.
    destruct (N.eqb_spec b 0) as [Hb|Hb]; [|reflexivity].
    destruct (N.eqb_spec k (slot E j)) as [Hk|Hk]; [|reflexivity].
    exfalso. destruct H as [H|H]; [contradiction|]. apply H. left. symmetry. exact Hk.
  - destruct H as [H|H]; [left; exact H|right]. intros Hin. apply H. right. exact Hin.
Qed.

Lemma fold_del_hit E l : NoDup (map (slot E) l) -> forall m k,
  In k (map (slot E) l) ->
  mget (fold_left (del_step E) l m) 0 k = wadd 64 (mget m 0 k) 1.
Proof.
  induction l as [|j l IH]; intros Hnd m k Hin; [destruct Hin|].
  cbn [map] in Hnd. inversion Hnd as [|a' l' Hna Hnd']; subst.
  cbn [fold_left]. destruct (N.eq_dec k (slot E j)) as [->|Hne].
  - rewrite fold_del_other by (right; exact Hna).
    rewrite del_step_get. rewrite !N.eqb_refl. reflexivity.
  - destruct Hin as [Hin|Hin]; [congruence|].
    rewrite IH by assumption. rewrite del_step_get.
    destruct (N.eqb_spec k (slot E j)); [contradiction|].
    rewrite andb_false_r. reflexivity.
Qed.

Theorem node_dtor_consumed_untouched E fuel p q mem :
  1 <= E -> C_step_size E * E < 2 ^ 32 -> (N.to_nat E < fuel)%nat ->
  exists mem', node_dtor E fuel (C_step_size E * p) (C_step_size E * q) mem = Some mem' /\
    (* consumed tickets (< p) and tickets never pushed / beyond the node are untouched *)
    (forall j, j < E -> j < p \/ N.min q E <= j ->
       mget mem' 0 ((C_step_size E * j) mod E) = mget mem 0 ((C_step_size E * j) mod E)) /\
    (* every live ticket is deleted exactly once *)
    (forall j, p <= j < N.min q E ->
       mget mem' 0 ((C_step_size E * j) mod E) = wadd 64 (mget mem 0 ((C_step_size E * j) mod E)) 1) /\
    (forall j, p <= j < N.min q E -> mget mem 0 ((C_step_size E * j) mod E) < 2 ^ 64 - 1 ->
       mget mem' 0 ((C_step_size E * j) mod E) = mget mem 0 ((C_step_size E * j) mod E) + 1) /\
    (* nothing else is written *)
    (forall b k, b <> 0 -> mget mem' b k = mget mem b k).
Proof.
  intros H1 H2 Hf. assert (Hg : 0 < E) by lia.
  eexists. split; [apply node_dtor_spec; assumption|].
  fold (del_step E). fold (slot E).
  assert (Hnd : NoDup (map (slot E) (tickets p (N.min q E)))).
  { apply NoDup_map_inj_on; [|apply tickets_NoDup].
    intros x y Hx Hy. rewrite tickets_In in Hx, Hy. apply slot_inj; [exact Hg|lia|lia]. }
  assert (Hhit : forall j, p <= j < N.min q E ->
     mget (fold_left (del_step E) (tickets p (N.min q E)) mem) 0 (slot E j)
     = wadd 64 (mget mem 0 (slot E j)) 1).
  { intros j Hj. apply fold_del_hit; [exact Hnd|].
    apply in_map_iff. exists j. split; [reflexivity|]. apply tickets_In. exact Hj. }
  split; [|split; [|split]].
  - intros j HjE Hj. change ((C_step_size E * j) mod E) with (slot E j).
    apply fold_del_other. right. intros Hin.
    apply in_map_iff in Hin. destruct Hin as [j' [Hs Hj']]. rewrite tickets_In in Hj'.
    assert (j' = j) by (apply (slot_inj E); [exact Hg|lia|exact HjE|exact Hs]). lia.
  - intros j Hj. change ((C_step_size E * j) mod E) with (slot E j). apply Hhit. exact Hj.
  - intros j Hj Hc. change ((C_step_size E * j) mod E) with (slot E j) in *.
    rewrite Hhit by exact Hj. apply wadd_small. lia.
  - intros b k Hb. apply fold_del_other. left. exact Hb.
Qed.
