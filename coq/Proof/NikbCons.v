(** nikolaev_bounded_queue model: the conservation and order theorems derived from the invariant layers
    (Proof/NikbWf.v, NikbOwn.v, NikbVal.v).  Everything is stated for capacity 2^k (k <= 40), any
    pop_retries R, any number of threads, any schedule (sequentially consistent interleavings), for states
    in which no counter has wrapped ([g_ovf st = false]: head / tail below 2^62, thresholds above -2^62). *)
From Coq Require Import NArith List Bool Lia PeanoNat Permutation.
From XV Require Import Base.Word Conc.Lts Conc.Ev gen.ScqGen Proof.ScqIndex Model.NikbDefs
  Proof.NikbArith Proof.NikbBase Proof.NikbWf Proof.NikbOwn Proof.NikbVal Proof.NikbSafe.
Import ListNotations.
Local Open Scope N_scope.

Set Default Proof Using "All".
Section Cons.
  Variable k R : N.
  Hypothesis Hk : k <= 40.
  Notation cap := (2 ^ k).
  Notation step := (step cap R).
  Notation Inv1 := (Inv1 k).
  Notation Inv2 := (Inv2 k).
  Notation Inv3 := (Inv3 k).
  Notation slot := (slot k).
  Notation eidx := (eidx k).
  Notation ecyc := (ecyc k).

  (** * every dequeue ticket below head has been handed out *)
  Definition A3 (st : state) : Prop := forall q H, 2 * H + 2 <= rhead (rg st q) -> g_dq (rg st q) H <> DNone.

  Lemma A3_step s a s' es : Inv1 s -> A3 s -> step s a = Some (s', es) -> g_ovf s' = false -> A3 s'.
  Proof.
    intros H1 HA Hst Hov. pose proof H1 as [HW HT1].
    unfold NikbDefs.step, step_gen in Hst. destruct a as [t o|t].
    - destruct (th s t) eqn:E; try discriminate. inversion Hst; subst; clear Hst. exact HA.
    - destruct (th s t) as [|[v|tp]|q x|q x|q x hd att|q x hd e|q x hd att e|q x hd att e enew|q x hd|q x|q x tl hd|q x tl|q x
                           |q x idx gk|q x idx gk tl|q x idx gk tl e|q x idx gk tl e|q x idx gk|q x idx gk] eqn:E; try discriminate.
      all: try (destruct (HW q) as ([Hh2 Hhlt] & _)).
      all: unfold mark_left, mark_skip in Hst.
      all: repeat match type of Hst with context [if ?c then _ else _] => destruct c end.
      all: try destruct q.
      all: inversion Hst; subst; clear Hst; sim.
      all: try exact HA.
      all: intros q' H; destruct q'; sim; try apply HA.
      all: try rewrite (wadd2_small _ Hhlt).
      all: unfold setf; match goal with |- context [if ?a =? ?b then _ else _] => destruct (N.eqb_spec a b) as [Heq|Hneq] end.
      all: try (intros; discriminate).
      all: try apply HA.
      all: intros Hle; apply HA; lia.
  Qed.

  Lemma A3_reach s : reach (init cap) step s -> g_ovf s = false -> A3 s.
  Proof.
    intros Hr. induction Hr as [|s a s' es Hr IH Hst]; intros Hov.
    - intros q H. destruct q; cbn [init rgs rhead]; lia.
    - eapply A3_step; [|apply IH; eapply ovf_sticky; eauto|exact Hst|exact Hov].
      apply (Inv123_reach k R Hk); [exact Hr|eapply ovf_sticky; eauto].
  Qed.

  Definition good (s : state) : Prop := reach (init cap) step s /\ g_ovf s = false.

  Lemma good_inv s : good s -> Inv1 s /\ Inv2 s /\ Inv3 s /\ A3 s.
  Proof. intros [Hr Ho]. destruct (Inv123_reach k R Hk s Hr Ho) as (A & B & C). ssplit; try assumption. apply A3_reach; assumption. Qed.

  Lemma good_inv4 s : good s -> Inv4 k s.
  Proof. intros [Hr Ho]. apply (Inv4_reach k R Hk s Hr Ho). Qed.

  (** * no stranding (the repaired code): an index is never published with a ticket whose dequeue ticket was given up *)
  Theorem nikb_never_stranded s q T : good s -> ~ stranded (rg s q) T.
  Proof. intros Hg (i & Hp & Hl). apply (i4ns k s (good_inv4 s Hg) q T i Hl Hp). Qed.

  (** so a published index has been taken, or an operation in progress holds its dequeue ticket inside its do-loop, or
      it is still in its slot and its dequeue ticket has not been handed out yet (head <= ticket: a future dequeue
      ticket will reach it) *)
  Theorem nikb_published_fate s q T i : good s -> g_eq (rg s q) T = EPub i ->
    g_dq (rg s q) T = DTaken i \/
    (exists u, g_dq (rg s q) T = DHeld u /\ dtk (th s u) = Some (q, 2 * T)) \/
    (g_dq (rg s q) T = DNone /\ rhead (rg s q) <= 2 * T /\ eidx (slot s q T) = i /\ ecyc (slot s q T) = T / nn cap).
  Proof.
    intros Hg Hp. destruct (good_inv s Hg) as ([HW _] & (HR & _) & _ & HA3). destruct (HR q) as [_ _ c1 _ _ _ _ s5 s6].
    destruct (g_dq (rg s q) T) as [|u|j|] eqn:E.
    - right. right. destruct (s5 T i Hp) as [_ [Ht|(_ & X & Y)]]; [rewrite E in Ht; discriminate|].
      ssplit; [reflexivity| |exact X|exact Y]. destruct (HW q) as ([Hh2 _] & _).
      destruct (N.le_gt_cases (rhead (rg s q)) (2 * T)) as [Hle|Hgt]; [exact Hle|exfalso].
      apply (HA3 q T); [lia|exact E].
    - right. left. exists u. split; [reflexivity|apply c1; exact E].
    - left. specialize (s6 T j E). rewrite Hp in s6. inversion s6. reflexivity.
    - exfalso. apply (nikb_never_stranded s q T Hg). exists i. split; assumption.
  Qed.

  (** * index conservation *)

  (** where index i is: [g_own] is right *)
  Theorem nikb_index_place s i : good s -> i < cap ->
    match g_own s i with
    | OFree T => 2 * T < 2 ^ 62 /\ eidx (slot s RF T) = i /\ ecyc (slot s RF T) = T / nn cap /\
                 g_eq (rf s) T = EPub i /\ (forall j, g_dq (rf s) T <> DTaken j)
    | OFull T => 2 * T < 2 ^ 62 /\ eidx (slot s RA T) = i /\ ecyc (slot s RA T) = T / nn cap /\
                 g_eq (ra s) T = EPub i /\ (forall j, g_dq (ra s) T <> DTaken j)
    | OWrite t => hidx (th s t) = Some (RA, i)
    | ORead t => hidx (th s t) = Some (RF, i)
    end.
  Proof.
    intros Hg Hi. destruct (good_inv s Hg) as (I1 & (HR & HT & HO) & I3 & _).
    destruct (g_own s i) as [T|t|T|t] eqn:E.
    - destruct (HR RF) as [_ _ _ _ s2 _ s4 _ _]. destruct (s4 i T Hi E) as (X & Y & Z).
      assert (Y' : eidx (slot s RF T) < cap) by (rewrite Y; exact Hi).
      destruct (s2 T X Y' Z) as (P & _ & Q). rewrite Y in P. ssplit; assumption.
    - apply (HO i t RA). exact E.
    - destruct (HR RA) as [_ _ _ _ s2 _ s4 _ _]. destruct (s4 i T Hi E) as (X & Y & Z).
      assert (Y' : eidx (slot s RA T) < cap) by (rewrite Y; exact Hi).
      destruct (s2 T X Y' Z) as (P & _ & Q). rewrite Y in P. ssplit; assumption.
    - apply (HO i t RF). exact E.
  Qed.

  (** and nothing else holds i: every slot that contains i (for the ticket of its cycle) and every thread that
      holds i is the recorded place *)
  Theorem nikb_slot_owner s q T : good s -> 2 * T < 2 ^ 62 ->
    eidx (slot s q T) < cap -> ecyc (slot s q T) = T / nn cap -> g_own s (eidx (slot s q T)) = inring q T.
  Proof.
    intros Hg HT Hi Hc. destruct (good_inv s Hg) as (I1 & (HR & _) & _). destruct (HR q) as [_ _ _ _ s2 _ _ _ _].
    apply (s2 T HT Hi Hc).
  Qed.

  Theorem nikb_holder_owner s t q i : good s -> hidx (th s t) = Some (q, i) -> g_own s i = held q t /\ i < cap.
  Proof.
    intros Hg Hh. destruct (good_inv s Hg) as (I1 & (_ & HT & _) & _). destruct (HT t) as (_ & _ & C & _). apply C. exact Hh.
  Qed.

  (** no two threads access the same storage cell: the cell of index i is written / read only by the thread at
      an enqueue program point carrying i ([hidx]), and that thread is unique *)
  Theorem nikb_exclusive_cell s t1 t2 q1 q2 i : good s ->
    hidx (th s t1) = Some (q1, i) -> hidx (th s t2) = Some (q2, i) -> t1 = t2 /\ q1 = q2.
  Proof.
    intros Hg H1 H2. destruct (nikb_holder_owner s t1 q1 i Hg H1) as [A _]. destruct (nikb_holder_owner s t2 q2 i Hg H2) as [B _].
    rewrite A in B. apply held_inj in B. tauto.
  Qed.

  (** an index held by a thread is in no slot; an index is in at most one slot of the two rings *)
  Theorem nikb_held_not_in_ring s t q i q' T : good s -> hidx (th s t) = Some (q, i) -> 2 * T < 2 ^ 62 ->
    ecyc (slot s q' T) = T / nn cap -> eidx (slot s q' T) <> i.
  Proof.
    intros Hg Hh HT Hc He. destruct (nikb_holder_owner s t q i Hg Hh) as [A Hi].
    assert (B := nikb_slot_owner s q' T Hg HT ltac:(rewrite He; exact Hi) Hc). rewrite He, A in B.
    symmetry in B. apply (inring_held _ _ _ _ B).
  Qed.

  Theorem nikb_one_slot s q T q' T' : good s -> 2 * T < 2 ^ 62 -> 2 * T' < 2 ^ 62 ->
    eidx (slot s q T) < cap -> ecyc (slot s q T) = T / nn cap -> ecyc (slot s q' T') = T' / nn cap ->
    eidx (slot s q' T') = eidx (slot s q T) -> q' = q /\ T' = T.
  Proof.
    intros Hg HT HT' Hi Hc Hc' He.
    assert (A := nikb_slot_owner s q T Hg HT Hi Hc).
    assert (B := nikb_slot_owner s q' T' Hg HT' ltac:(rewrite He; exact Hi) Hc'). rewrite He, A in B.
    apply inring_inj in B. destruct B; split; congruence.
  Qed.

  (** physical form: every entry of a ring's array that holds an index is the slot of exactly one ticket *)
  Lemma phys_surj j : j < nn cap -> exists p, p < nn cap /\ phys cap (2 * p) = j.
  Proof.
    intros Hj. rewrite (nn_eq k Hk) in *. destruct (remap_index_surj (k + 1) j ltac:(lia) Hj) as (p & Hp & E).
    exists p. split; [exact Hp|]. unfold phys. rewrite (shift_eq k Hk), (nn_eq k Hk). exact E.
  Qed.

  Theorem nikb_array_entry_owner s q j : good s -> j < nn cap -> eidx (rdata (rg s q) j) < cap ->
    exists T, 2 * T < 2 ^ 62 /\ phys cap (2 * T) = j /\ g_own s (eidx (rdata (rg s q) j)) = inring q T.
  Proof.
    intros Hg Hj Hi. destruct (good_inv s Hg) as ([HW _] & _). destruct (HW q) as (_ & _ & _ & Hd).
    destruct (phys_surj j Hj) as (p & Hp & Ep). set (e := rdata (rg s q) j) in *.
    assert (Hc : ecyc e < CB k).
    { destruct (Hd j) as [[Hc|[_ Hb]] _]; [exact Hc|]. fold e in Hb. exfalso. apply (lt_cap_ne_bot k R Hk _ Hi Hb). }
    assert (Hn := nn_pos k Hk). assert (HM := M_CB k Hk).
    set (T := ecyc e * nn cap + p).
    assert (HT : 2 * T < 2 ^ 62) by (unfold T; nia).
    assert (Hdiv : T / nn cap = ecyc e) by (unfold T; rewrite N.div_add_l by lia; rewrite N.div_small by exact Hp; lia).
    assert (Hmod : T mod nn cap = p) by (unfold T; rewrite N.add_comm, N.mod_add by lia; apply N.mod_small; exact Hp).
    assert (Hph : phys cap (2 * T) = j) by (rewrite (phys_tick k Hk), Hmod; exact Ep).
    exists T. ssplit; [exact HT|exact Hph|].
    assert (Hsl : slot s q T = e) by (unfold NikbOwn.slot; rewrite Hph; reflexivity).
    rewrite <- Hsl. apply nikb_slot_owner; [exact Hg|exact HT|rewrite Hsl; exact Hi|rewrite Hsl; symmetry; exact Hdiv].
  Qed.

  Theorem nikb_array_no_duplicate s q j q' j' : good s -> j < nn cap -> j' < nn cap ->
    eidx (rdata (rg s q) j) < cap -> eidx (rdata (rg s q') j') = eidx (rdata (rg s q) j) -> q' = q /\ j' = j.
  Proof.
    intros Hg Hj Hj' Hi He.
    destruct (nikb_array_entry_owner s q j Hg Hj Hi) as (T & _ & Hp & Ho).
    destruct (nikb_array_entry_owner s q' j' Hg Hj' ltac:(rewrite He; exact Hi)) as (T' & _ & Hp' & Ho').
    rewrite He, Ho in Ho'. apply inring_inj in Ho'. destruct Ho' as [-> ->]. split; [reflexivity|congruence].
  Qed.

  (** * values *)
  Theorem nikb_values s : good s ->
    NoDup (map fst (g_in s)) /\ NoDup (map fst (g_out s)) /\ incl (g_out s) (g_in s) /\
    NoDup (map fst (g_ok s)) /\ incl (g_ok s) (g_in s) /\
    NoDup (map fst (g_ret s)) /\ incl (g_ret s) (g_out s).
  Proof.
    intros Hg. destruct (good_inv s Hg) as (_ & _ & I3 & _). destruct I3.
    ssplit; try assumption.
    - intros [H v] Hx. apply (v3 H v Hx).
    - intros [H v] Hx. apply (vok H v Hx).
    - intros [H v] Hx. apply (vret H v Hx).
  Qed.

  Lemma nodup_key_eq (l : list (N * N)) a v w : NoDup (map fst l) -> In (a, v) l -> In (a, w) l -> v = w.
  Proof.
    induction l as [|[a' v'] l IH]; cbn [map fst In]; intros Hn H1 H2; [contradiction|].
    inversion Hn as [|? ? Hni Hn']; subst.
    destruct H1 as [H1|H1], H2 as [H2|H2].
    - congruence.
    - inversion H1; subst. exfalso. apply Hni. apply in_map_iff. exists (a, w). split; [reflexivity|exact H2].
    - inversion H2; subst. exfalso. apply Hni. apply in_map_iff. exists (a, v). split; [reflexivity|exact H1].
    - apply IH; assumption.
  Qed.

  (** a published value has been taken out or is still in the cell whose index is in the allocated ring;
      a value in the allocated ring was published and has not been taken *)
  Theorem nikb_published_taken_or_in_ring s T v : good s -> In (T, v) (g_in s) ->
    In (T, v) (g_out s) \/ exists i, i < cap /\ g_own s i = OFull T /\ store s i = v.
  Proof.
    intros Hg Hin. destruct (good_inv s Hg) as (I1 & (HR & _) & I3 & _). destruct I3.
    destruct (v2 T v Hin) as [i Hp]. destruct (HR RA) as [_ a2 _ _ s2 _ _ s5 _].
    destruct (s5 T i Hp) as [Hi [Ht|(Hnt & Hsi & Hsc)]].
    - left. destruct (v4 T i Ht) as [w Hw]. destruct (v3 T w Hw) as [Hw' _].
      rewrite (nodup_key_eq _ T v w v2n Hin Hw'). exact Hw.
    - right. exists i. assert (HT : 2 * T < 2 ^ 62).
      { assert (Hne : g_eq (ra s) T <> ENone) by (rewrite Hp; discriminate). specialize (a2 T Hne).
        destruct I1 as [HW _]. destruct (HW RA) as (_ & [_ Hlt] & _). lia. }
      destruct (s2 T HT ltac:(rewrite Hsi; exact Hi) Hsc) as (_ & Ho & _). rewrite Hsi in Ho. cbn [inring] in Ho.
      ssplit; [exact Hi|exact Ho|]. apply (nodup_key_eq _ T _ _ v2n); [apply v1; assumption|exact Hin].
  Qed.

  Theorem nikb_in_ring_published s i T : good s -> i < cap -> g_own s i = OFull T ->
    In (T, store s i) (g_in s) /\ forall v, ~ In (T, v) (g_out s).
  Proof.
    intros Hg Hi Ho. destruct (good_inv s Hg) as (I1 & I2 & I3 & _). destruct I3.
    split; [apply v1; assumption|]. intros v Hin. destruct (v3 T v Hin) as [_ [j Hj]].
    pose proof (nikb_index_place s i Hg Hi) as Hp. rewrite Ho in Hp. destruct Hp as (_ & _ & _ & _ & Hnt). apply (Hnt j Hj).
  Qed.

  (** the same as one equation between multisets, in EVERY state: what was published = what was taken + what is in
      the cells whose index is in the allocated ring (listed with their tickets, i.e. their ring order) *)
  Definition ring_pairs (s : state) : list (N * N) :=
    flat_map (fun i => match g_own s (N.of_nat i) with OFull T => [(T, store s (N.of_nat i))] | _ => [] end) (seq 0 (N.to_nat cap)).

  Lemma in_ring_pairs s T v : In (T, v) (ring_pairs s) <-> exists i, i < cap /\ g_own s i = OFull T /\ store s i = v.
  Proof.
    unfold ring_pairs. rewrite in_flat_map. split.
    - intros (j & Hj & Hin). apply in_seq in Hj. exists (N.of_nat j). split; [lia|].
      destruct (g_own s (N.of_nat j)) as [T'|t|T'|t]; try contradiction. destruct Hin as [Hin|[]]. inversion Hin; subst. split; reflexivity.
    - intros (i & Hi & Ho & Hv). exists (N.to_nat i). split; [apply in_seq; lia|]. rewrite N2Nat.id, Ho. left. rewrite Hv. reflexivity.
  Qed.

  Lemma nodup_pairs_of_keys (l : list (N * N)) : NoDup (map fst l) -> NoDup l.
  Proof. apply NoDup_map_inv. Qed.

  Lemma NoDup_app_aux {A} (l1 l2 : list A) : NoDup l1 -> NoDup l2 -> (forall x, In x l1 -> In x l2 -> False) -> NoDup (l1 ++ l2).
  Proof.
    induction l1 as [|a l1 IH]; intros H1 H2 Hd; cbn [app]; [exact H2|]. inversion H1 as [|? ? Hni H1']; subst. constructor.
    - rewrite in_app_iff. intros [Hx|Hx]; [contradiction|]. apply (Hd a); [left; reflexivity|exact Hx].
    - apply IH; [exact H1'|exact H2|]. intros x Hx Hy. apply (Hd x); [right; exact Hx|exact Hy].
  Qed.

  Lemma nodup_flat_map_single {A} (f : A -> list (N * N)) (l : list A) :
    NoDup l -> (forall a, In a l -> NoDup (f a)) ->
    (forall a b x, In a l -> In b l -> In x (f a) -> In x (f b) -> a = b) -> NoDup (flat_map f l).
  Proof.
    induction l as [|a l IH]; intros Hn Hf Hd; cbn [flat_map]; [constructor|]. inversion Hn as [|? ? Hni Hn']; subst.
    apply NoDup_app_aux.
    - apply Hf. left. reflexivity.
    - apply IH; [exact Hn'|intros b Hb; apply Hf; right; exact Hb|intros b c x Hb Hc; apply Hd; right; assumption].
    - intros x Hx Hy. apply in_flat_map in Hy. destruct Hy as (b & Hb & Hxb).
      assert (a = b) by (apply (Hd a b x); [left; reflexivity|right; exact Hb|exact Hx|exact Hxb]). subst b. contradiction.
  Qed.

  Theorem nikb_published_eq_taken_plus_ring s : good s -> Permutation (g_in s) (g_out s ++ ring_pairs s).
  Proof.
    intros Hg. destruct (nikb_values s Hg) as (N1 & N2 & I1 & _).
    apply NoDup_Permutation.
    - apply nodup_pairs_of_keys. exact N1.
    - apply NoDup_app_aux.
      + apply nodup_pairs_of_keys. exact N2.
      + unfold ring_pairs. apply nodup_flat_map_single; [apply seq_NoDup| |].
        * intros j _. destruct (g_own s (N.of_nat j)); try constructor; [intros []|constructor].
        * intros a b [T v] Ha Hb Hxa Hxb. apply in_seq in Ha. apply in_seq in Hb.
          destruct (g_own s (N.of_nat a)) as [Ta|ta|Ta|ta] eqn:Ea; try contradiction.
          destruct (g_own s (N.of_nat b)) as [Tb|tb|Tb|tb] eqn:Eb; try contradiction.
          destruct Hxa as [Hxa|[]]. destruct Hxb as [Hxb|[]]. inversion Hxa; subst. inversion Hxb; subst.
          pose proof (nikb_index_place s (N.of_nat a) Hg ltac:(lia)) as Pa. rewrite Ea in Pa.
          pose proof (nikb_index_place s (N.of_nat b) Hg ltac:(lia)) as Pb. rewrite Eb in Pb.
          destruct Pa as (_ & Pa & _). destruct Pb as (_ & Pb & _). rewrite Pa in Pb. lia.
      + intros [T v] Hout Hring. apply in_ring_pairs in Hring. destruct Hring as (i & Hi & Ho & _).
        destruct (nikb_in_ring_published s i T Hg Hi Ho) as [_ Hn]. apply (Hn v Hout).
    - intros [T v]. rewrite in_app_iff, in_ring_pairs. split.
      + intros Hin. apply (nikb_published_taken_or_in_ring s T v Hg Hin).
      + intros [Hout|(i & Hi & Ho & Hv)]; [apply I1; exact Hout|]. subst v. apply (nikb_in_ring_published s i T Hg Hi Ho).
  Qed.

  (** * FIFO: ticket order of the allocated ring *)

  (** what a try_pop takes with ticket H is what a try_push published with ticket H; tickets are unique *)
  Theorem nikb_fifo_by_ticket s H v : good s -> In (H, v) (g_out s) ->
    In (H, v) (g_in s) /\ (forall w, In (H, w) (g_in s) -> w = v) /\ (forall w, In (H, w) (g_out s) -> w = v).
  Proof.
    intros Hg Hin. destruct (nikb_values s Hg) as (N1 & N2 & I1 & _). pose proof (I1 _ Hin) as Hi.
    ssplit; [exact Hi| |]; intros w Hw; [apply (nodup_key_eq _ H w v N1 Hw Hi)|apply (nodup_key_eq _ H w v N2 Hw Hin)].
  Qed.

  (** no overtaking: when the value of ticket T2 has been taken, every published value with a smaller ticket T1 has
      been taken or is being taken (a try_pop in progress holds dequeue ticket T1 and is inside the do-loop) *)
  Theorem nikb_fifo_order s T1 v1 T2 v2 : good s -> In (T1, v1) (g_in s) -> In (T2, v2) (g_out s) -> T1 < T2 ->
    In (T1, v1) (g_out s) \/
    (exists u, g_dq (ra s) T1 = DHeld u /\ dtk (th s u) = Some (RA, 2 * T1)).
  Proof.
    intros Hg Hin Hout Hlt. destruct (good_inv s Hg) as (I1 & (HR & _) & I3 & HA3). destruct I3 as [i1 i2 i2n i3 i3n i4 iok iokn iret iretn ib1 ib2 it_].
    destruct (i3 T2 v2 Hout) as [_ [j2 Ht2]]. destruct (HR RA) as [a1 _ _ _ _ _ _ _ _].
    assert (Hh : 2 * T2 + 2 <= rhead (ra s)) by (apply a1; rewrite Ht2; discriminate).
    destruct (i2 T1 v1 Hin) as [i Hp].
    destruct (nikb_published_fate s RA T1 i Hg Hp) as [E|[Hh'|(_ & Hle & _)]]; [left|right; exact Hh'|lia].
    destruct (i4 T1 i E) as [w Hw]. destruct (i3 T1 w Hw) as [Hw' _].
    rewrite (nodup_key_eq _ T1 v1 w i2n Hin Hw'). exact Hw.
  Qed.

  (** tickets respect real time: everything published is below tail, everything taken is below head, so an
      operation that starts later obtains a larger ticket *)
  Theorem nikb_ticket_below_counter s : good s ->
    (forall T v, In (T, v) (g_in s) -> 2 * T + 2 <= rtail (ra s)) /\
    (forall H v, In (H, v) (g_out s) -> 2 * H + 2 <= rhead (ra s)).
  Proof.
    intros Hg. destruct (good_inv s Hg) as (I1 & (HR & _) & I3 & _). destruct I3. destruct (HR RA) as [a1 a2 _ _ _ _ _ _ _].
    split.
    - intros T v Hin. destruct (v2 T v Hin) as [i Hi]. apply a2. rewrite Hi. discriminate.
    - intros H v Hin. destruct (v3 H v Hin) as [_ [i Hi]]. apply a1. rewrite Hi. discriminate.
  Qed.

  (** * verdicts *)

  (** where a failing answer comes from: 'full' ([0]) is the failure of the dequeue on the free ring, 'empty'
      ([3]) the failure of the dequeue on the allocated ring; a dequeue fails at the first threshold test (D0:
      threshold < 0), at the threshold decrement inside the loop (D7: old value <= 0) or after the final
      check of tail against its own ticket (D6 -> catchup C1/C2 -> D8) *)
  Theorem nikb_fail_sources s u s' es r : step s (Step u) = Some (s', es) -> In (ERet u r) es -> r = [0] \/ r = [3] ->
    exists q x, r = match q with RF => [0] | RA => [3] end /\
      ((th s u = D0 q x /\ lt0 (rthr (rg s q)) = true) \/
       (th s u = D7 q x /\ sle 64 (rthr (rg s q)) 0 = true) \/
       th s u = D8 q x).
  Proof.
    intros Hst Hin Hr. unfold NikbDefs.step, step_gen in Hst.
    destruct (th s u) as [|[v|tp]|q x|q x|q x hd att|q x hd e|q x hd att e|q x hd att e enew|q x hd|q x|q x tl hd|q x tl|q x
                         |q x idx gk|q x idx gk tl|q x idx gk tl e|q x idx gk tl e|q x idx gk|q x idx gk] eqn:E; try discriminate.
    all: repeat match type of Hst with context [if ?c then _ else _] => destruct c eqn:? end.
    all: try destruct q.
    all: inversion Hst; subst; clear Hst; cbn [In app] in Hin.
    all: repeat (destruct Hin as [Hin|Hin]; [try discriminate Hin|]); try contradiction.
    all: inversion Hin; subst; destruct Hr as [Hr|Hr]; try discriminate Hr.
    all: try (exists RF, x; split; [reflexivity|tauto]); try (exists RA, x; split; [reflexivity|tauto]).
  Qed.

  (** the program points after the final check are reached only through it *)
  Theorem nikb_fail_path s u s' es : step s (Step u) = Some (s', es) ->
    (forall q x, th s' u = D8 q x -> (exists tl hd, th s u = C1 q x tl hd) \/ (exists tl, th s u = C2 q x tl)) /\
    (forall q x tl, th s' u = C2 q x tl -> exists tl0 hd, th s u = C1 q x tl0 hd) /\
    (forall q x tl hd, th s' u = C1 q x tl hd ->
       (exists hd0, th s u = D6 q x hd0 /\ hd = wadd 64 hd0 2 /\ tl = rtail (rg s q) /\ gt0 (diff tl hd) = false) \/
       (th s u = C2 q x tl /\ hd = rhead (rg s q))).
  Proof.
    intros Hst. unfold NikbDefs.step, step_gen in Hst.
    destruct (th s u) as [|[v|tp]|q x|q x|q x hd att|q x hd e|q x hd att e|q x hd att e enew|q x hd|q x|q x tl hd|q x tl|q x
                         |q x idx gk|q x idx gk tl|q x idx gk tl e|q x idx gk tl e|q x idx gk|q x idx gk] eqn:E; try discriminate.
    all: unfold mark_left, mark_skip in Hst.
    all: try (destruct (dq_eval_cases cap q x hd att (rdata (rg s q) (phys cap hd))) as [[C1 Ee]|[C1 [[C2 [[C3 Ee]|[C3 [[C4 Ee]|[C4 Ee]]]]]|[C2 Ee]]]]; rewrite Ee in Hst).
    all: try (destruct (en_eval_cases cap q x idx gk tl (rdata (rg s q) (phys cap tl))) as [(C1 & C2 & Ee)|[(C1 & C2 & C3 & Ee)|Ee]]; rewrite Ee in Hst).
    all: cbn [leaves skips] in Hst.
    all: repeat match type of Hst with context [if ?c then _ else _] => destruct c eqn:? end.
    all: try destruct q.
    all: inversion Hst; subst; clear Hst; sim; rewrite ?upd_same.
    all: ssplit; intros; try discriminate.
    all: try match goal with H : _ = D8 _ _ |- _ => inversion H; subst; clear H end.
    all: try match goal with H : _ = C2 _ _ _ |- _ => inversion H; subst; clear H end.
    all: try match goal with H : _ = C1 _ _ _ _ |- _ => inversion H; subst; clear H end.
    all: eauto 8.
  Qed.

  (** what the final check sees.  At the instant thread u, holding (given-up) dequeue ticket hd of ring q, loads
      tail and finds it not beyond its own ticket, tail <= head: every index published in ring q has an
      enqueue ticket below head, i.e. its dequeue ticket has been handed out already: the index has been taken,
      or is being taken by an operation in progress that holds the ticket inside its do-loop *)
  Theorem nikb_final_check s u q x hd : good s -> th s u = D6 q x hd ->
    gt0 (diff (rtail (rg s q)) (wadd 64 hd 2)) = false ->
    rtail (rg s q) <= hd + 2 /\ hd + 2 <= rhead (rg s q) /\
    forall T i, g_eq (rg s q) T = EPub i ->
      2 * T + 2 <= rhead (rg s q) /\
      (g_dq (rg s q) T = DTaken i \/
       (exists u', g_dq (rg s q) T = DHeld u' /\ dtk (th s u') = Some (q, 2 * T))).
  Proof.
    intros Hg Hpc Hchk. destruct (good_inv s Hg) as ([HW HT1] & (HR & _) & _ & HA3).
    pose proof (HT1 u) as Hu. rewrite Hpc in Hu. cbn [T1] in Hu. destruct Hu as [[Hhd2 Hhdlt] Hhle].
    destruct (HW q) as ([_ Hhlt] & [_ Htlt] & _).
    rewrite (wadd2_small hd Hhdlt) in Hchk. rewrite diff_gt0 in Hchk by lia. apply N.ltb_ge in Hchk.
    ssplit; [exact Hchk|exact Hhle|]. intros T i Hp. destruct (HR q) as [_ a2 _ _ _ _ _ _ _].
    assert (Hlt : 2 * T + 2 <= rtail (rg s q)) by (apply a2; rewrite Hp; discriminate).
    split; [lia|]. destruct (nikb_published_fate s q T i Hg Hp) as [E|[Hh'|(_ & Hle & _)]]; [left; exact E|right; exact Hh'|lia].
  Qed.

  (** C05 'empty' (final-check path): at that instant every published value has been taken or is being taken by a
      try_pop in progress: the queue is empty, counting the operations in progress *)
  Theorem nikb_empty_final_check s u x hd : good s -> th s u = D6 RA x hd ->
    gt0 (diff (rtail (ra s)) (wadd 64 hd 2)) = false ->
    forall T v, In (T, v) (g_in s) ->
      In (T, v) (g_out s) \/ (exists u', g_dq (ra s) T = DHeld u' /\ dtk (th s u') = Some (RA, 2 * T)).
  Proof.
    intros Hg Hpc Hchk T v Hin. destruct (nikb_final_check s u RA x hd Hg Hpc Hchk) as (_ & _ & Hall).
    destruct (good_inv s Hg) as (_ & _ & I3 & _). destruct I3 as [i1 i2 i2n i3 i3n i4 iok iokn iret iretn ib1 ib2 it_].
    destruct (i2 T v Hin) as [i Hp]. destruct (Hall T i Hp) as [_ [Ht|Hh]]; [left|right; exact Hh].
    destruct (i4 T i Ht) as [w Hw]. destruct (i3 T w Hw) as [Hw' _]. rewrite (nodup_key_eq _ T v w i2n Hin Hw'). exact Hw.
  Qed.

  (** C05 'full' (final-check path): at that instant every storage index is in the allocated ring, or held by an
      operation in progress (being written / being read), or being taken out of the free ring by a try_push in
      progress: the queue is full, counting every operation in progress as occupying one slot *)
  Theorem nikb_full_final_check s u x hd : good s -> th s u = D6 RF x hd ->
    gt0 (diff (rtail (rf s)) (wadd 64 hd 2)) = false ->
    forall i, i < cap ->
      match g_own s i with
      | OFull _ => True
      | OWrite t => hidx (th s t) = Some (RA, i)
      | ORead t => hidx (th s t) = Some (RF, i)
      | OFree T => exists u', g_dq (rf s) T = DHeld u' /\ dtk (th s u') = Some (RF, 2 * T)
      end.
  Proof.
    intros Hg Hpc Hchk i Hi. destruct (nikb_final_check s u RF x hd Hg Hpc Hchk) as (_ & _ & Hall).
    pose proof (nikb_index_place s i Hg Hi) as Hp. destruct (g_own s i) as [T|t|T|t]; try exact I; try exact Hp.
    destruct Hp as (_ & _ & _ & Hpub & Hnt). destruct (Hall T i Hpub) as [_ [Ht|Hh]]; [exfalso; apply (Hnt i Ht)|exact Hh].
  Qed.
End Cons.

(** * closed statements (hypotheses spelled out) for Properties/Properties_C05_nikb.v *)
Section Closed.
  Variable k R : N.
  Hypothesis Hk : k <= 40.
  Variable s : state.
  Hypothesis Hr : reach (init (2 ^ k)) (step (2 ^ k) R) s.
  Hypothesis Ho : g_ovf s = false.
  Let Hg : good k R s := conj Hr Ho.

  Definition c_index_place := fun i => nikb_index_place k R Hk s i Hg.
  Definition c_slot_owner := fun q T => nikb_slot_owner k R Hk s q T Hg.
  Definition c_holder_owner := fun t q i => nikb_holder_owner k R Hk s t q i Hg.
  Definition c_exclusive_cell := fun t1 t2 q1 q2 i => nikb_exclusive_cell k R Hk s t1 t2 q1 q2 i Hg.
  Definition c_held_not_in_ring := fun t q i q' T => nikb_held_not_in_ring k R Hk s t q i q' T Hg.
  Definition c_array_entry_owner := fun q j => nikb_array_entry_owner k R Hk s q j Hg.
  Definition c_array_no_duplicate := fun q j q' j' => nikb_array_no_duplicate k R Hk s q j q' j' Hg.
  Definition c_values := nikb_values k R Hk s Hg.
  Definition c_published_taken_or_in_ring := fun T v => nikb_published_taken_or_in_ring k R Hk s T v Hg.
  Definition c_in_ring_published := fun i T => nikb_in_ring_published k R Hk s i T Hg.
  Definition c_published_eq_taken_plus_ring := nikb_published_eq_taken_plus_ring k R Hk s Hg.
  Definition c_fifo_by_ticket := fun H v => nikb_fifo_by_ticket k R Hk s H v Hg.
  Definition c_fifo_order := fun T1 v1 T2 v2 => nikb_fifo_order k R Hk s T1 v1 T2 v2 Hg.
  Definition c_ticket_below_counter := nikb_ticket_below_counter k R Hk s Hg.
  Definition c_final_check := fun u q x hd => nikb_final_check k R Hk s u q x hd Hg.
  Definition c_empty_final_check := fun u x hd => nikb_empty_final_check k R Hk s u x hd Hg.
  Definition c_full_final_check := fun u x hd => nikb_full_final_check k R Hk s u x hd Hg.
  Definition c_never_stranded := fun q T => nikb_never_stranded k R Hk s q T Hg.
  Definition c_published_fate := fun q T i => nikb_published_fate k R Hk s q T i Hg.
  Definition c_safe_layer := good_inv4 k R Hk s Hg.
End Closed.
