(** Reference-count accounting of the lock-free reference counting model (Model/LfrcDefs.v): one step preserves
    [I_refs] (for every node: the ghost list of references has no duplicates, lists exactly the references that are
    held - cells, guards, owners - and ref_count = 2 * its length + claim bit).  Also the tactics shared by the other
    preservation proofs (Proof/LfrcNodes.v, LfrcOwn.v, LfrcFree.v).  No axioms. *)
From Coq Require Import NArith List Bool Arith Lia PeanoNat.
From XV Require Import Conc.Lts Conc.Ev Model.LfrcDefs Proof.LfrcBase.
Import ListNotations.

Ltac on := cbn [own_ok ownr_ok owned holds gnode cbit is_new has_ref bad_q live4 isfree alive_ok who_ref].
Ltac on_in H := cbn [own_ok ownr_ok owned holds gnode cbit is_new has_ref bad_q live4 isfree alive_ok who_ref] in H.

(* the case analysis of a step of thread t with the shape and ownership facts of its program point *)
Ltac leaves HI H t :=
  let Hs := fresh "Hs" in let Ho := fresh "Ho" in
  pose proof (I_sh _ _ HI t) as Hs; pose proof (I_own _ _ HI t) as Ho;
  unfold_step H; step_split H;
  bool_eqs; destruct Hs as (Hs & Hg & Hp); fn_in Hs; fn_in Hp; on_in Ho.

Lemma cbit_01 x : cbit x = 0 \/ cbit x = 1.
Proof. destruct x; cbn; auto. Qed.


(* the three parts of the reference invariant for node m, given the description (ND', LEN, IN') of the new list *)
Ltac thr_split u t :=
  destruct (Nat.eq_dec u t) as [->|?]; [rewrite ?upd_same | rewrite ?upd_other by assumption].

Ltac holds_fin E t :=
  let r := fresh "r" in intros r;
  destruct r as [c'|u g'|u]; cbn [holds]; prj;
  [ | thr_split u t | thr_split u t ];
  rewrite ?E; on; prj; upd_split; subst; on;
  try solve [tauto | intuition congruence];
  repeat match goal with Hx : gd _ _ = _ |- _ => rewrite Hx in * end; cbn [gnode] in *;
  try solve [discriminate | tauto | intuition congruence].


Ltac side E := cbn [holds]; rewrite ?E; on; prj;
  repeat match goal with Hx : gd _ _ = _ |- _ => rewrite Hx end; cbn [gnode];
  try solve [intuition congruence].

Ltac list_lemma HI E :=
  match goal with
  | |- context [filter (fun x => negb (ref_eqb x ?r0)) (g_refs ?s ?n0)] =>
    change (filter (fun x => negb (ref_eqb x r0)) (g_refs s n0)) with (delr r0 (g_refs s n0));
    let NDn := fresh "NDn" in let INn := fresh "INn" in let RCn := fresh "RCn" in
    destruct (I_refs _ _ HI n0) as (NDn & INn & RCn);
    let HIn := fresh "HIn" in
    assert (HIn : In r0 (g_refs s n0)) by (apply INn; side E);
    let ND' := fresh "ND'" in let LEN := fresh "LEN" in let IN' := fresh "IN'" in
    destruct (refs_del (g_refs s n0) r0 NDn HIn) as (ND' & LEN & IN')
  | |- context [map (fun x => if ref_eqb x ?r0 then ?r1 else x) (g_refs ?s ?n0)] =>
    change (map (fun x => if ref_eqb x r0 then r1 else x) (g_refs s n0)) with (repr r0 r1 (g_refs s n0));
    let NDn := fresh "NDn" in let INn := fresh "INn" in let RCn := fresh "RCn" in
    destruct (I_refs _ _ HI n0) as (NDn & INn & RCn);
    let HIn := fresh "HIn" in let HNi := fresh "HNi" in
    assert (HIn : In r0 (g_refs s n0)) by (apply INn; side E);
    assert (HNi : ~ In r1 (g_refs s n0)) by (rewrite INn; side E);
    let ND' := fresh "ND'" in let LEN := fresh "LEN" in let IN' := fresh "IN'" in
    destruct (refs_rep (g_refs s n0) r0 r1 NDn HIn HNi) as (ND' & LEN & IN')
  | |- context [?r0 :: g_refs ?s ?n0] =>
    let NDn := fresh "NDn" in let INn := fresh "INn" in let RCn := fresh "RCn" in
    destruct (I_refs _ _ HI n0) as (NDn & INn & RCn);
    let HNi := fresh "HNi" in
    assert (HNi : ~ In r0 (g_refs s n0)) by (first [ match goal with Hnil : g_refs s n0 = [] |- _ => rewrite Hnil; intros [] end | rewrite INn; side E]);
    let ND' := fresh "ND'" in let LEN := fresh "LEN" in let IN' := fresh "IN'" in
    destruct (refs_add (g_refs s n0) r0 NDn HNi) as (ND' & LEN & IN')
  end.

Lemma fhead_free ns s p : Inv ns s -> fhead s = Some p -> g_ns s p = NFree.
Proof.
  intros HI H. destruct (I_fl _ _ HI) as (_ & F & Hh & _). apply F. rewrite Hh in H.
  destruct (g_fl s); cbn in H; [discriminate|]. injection H as ->. left. reflexivity.
Qed.

Ltac ns_facts RC := repeat match goal with Hx : g_ns _ _ = _ |- _ => rewrite Hx in RC end.

Lemma P_refs_step ns s t s' es : Inv ns s -> step ns s (Step t) = Some (s', es) ->
  forall n, NoDup (g_refs s' n) /\ (forall r, In r (g_refs s' n) <-> holds s' r n) /\
            rc s' n = 2 * length (g_refs s' n) + cbit (g_ns s' n).
Proof.
  intros HI H. leaves HI H t.
  all: assert (Hna : g_ns s (nalloc s) = NNone) by (apply (I_alloc _ _ HI); lia).
  all: try match goal with Hx : fhead _ = Some _ |- _ => pose proof (fhead_free _ _ _ HI Hx) end.
  all: intros m; destruct (I_refs _ _ HI m) as (ND & IN & RC); prj.
  (* nothing but the program counter changes *)
  all: try solve [split; [exact ND|split; [|exact RC]]; intros rfx; rewrite IN; clear IN; revert rfx; holds_fin E t].
  all: repeat match goal with H : _ /\ _ |- _ => destruct H end; subst; prj_hyps; rewrite ?upd_same in *; prj_hyps; cbn [guard_of] in *.
  all: try discriminate.
  (* the list of m does not change *)
  all: try solve [upd_split; subst; rewrite ?Hna in *; on; ns_facts RC; on_in RC;
                  (split; [exact ND|split; [|first [exact RC|lia]]]; intros rfx; rewrite IN; clear IN; revert rfx; holds_fin E t)].
  (* a node from the heap has no references yet; the published node is not the unlinked one *)
  all: try match goal with
       | Ho : g_ns ?s ?n = NNew _ |- _ =>
         let X := fresh "Hnil" in assert (X : g_refs s n = []) by (apply (I_new _ _ HI); rewrite Ho; exact I)
       | Ho : g_ns ?s ?n1 = NFresh _, E0 : cells ?s ?c = Some ?n0 |- _ =>
         let X := fresh "Hne" in
         assert (X : n0 <> n1) by (intros ->; pose proof (I_j1 _ _ HI _ _ E0); congruence);
         rewrite (upd_other _ n1 _ n0 X)
       end.
  (* the list of one node changes *)
  all: try solve [list_lemma HI E; upd_split; subst; rewrite ?Hna in *; on;
    (split; [assumption | split;
    [ intros rfx; try rewrite IN'; rewrite IN; clear IN; revert rfx; holds_fin E t
    | ns_facts RC; on_in RC; try (match type of RC with context [cbit ?x] => pose proof (cbit_01 x) end); unfold dec_new in *;
      repeat match goal with |- context [if ?b then _ else _] => destruct b eqn:? end; bool_eqs;
      try match goal with Hnil : g_refs _ _ = [] |- _ => rewrite Hnil in * end; cbn [length] in *; lia ]]) ].
  all: try solve [list_lemma HI E; list_lemma HI E; upd_split; subst; rewrite ?Hna in *; on;
    (split; [assumption | split;
    [ intros rfx; try rewrite IN'; try rewrite IN'0; rewrite IN; clear IN; revert rfx; holds_fin E t
    | ns_facts RC; on_in RC; cbn [length] in *; lia ]]) ].
Qed.

Lemma P_refs_start ns s t o s' es : Inv ns s -> step ns s (Start t o) = Some (s', es) ->
  forall n, NoDup (g_refs s' n) /\ (forall r, In r (g_refs s' n) <-> holds s' r n) /\
            rc s' n = 2 * length (g_refs s' n) + cbit (g_ns s' n).
Proof.
  intros HI H. unfold step in H. step_split H.
  all: intros m; destruct (I_refs _ _ HI m) as (ND & IN & RC); prj.
  all: split; [exact ND|split; [|exact RC]]; intros rfx; rewrite IN; clear IN; revert rfx; holds_fin E t.
Qed.
