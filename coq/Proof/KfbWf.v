(** kirsch_bounded_kfifo_queue (C06), invariant layer 1: head / tail and every local copy are segment starts,
    local copies are not newer than the shared word (version tags only grow), scan indices stay inside the
    segment.  Also the step-inversion tactic [brk] used by all layers.  No axioms, no admits. *)
From Coq Require Import NArith List Bool Lia PeanoNat.
From XV Require Import Base.Word Conc.Lts Conc.Ev Model.KfbDefs.
From XV Require Import Proof.KfbArith.
Import ListNotations.
Local Open Scope N_scope.

Ltac sim := cbn [set_th set_head set_tail set_slot set_in set_out set_ok draw alloc
                 head tail slot bval nalloc th g_in g_out g_ok g_hist g_nch fst snd] in *.

Lemma iw_eqb_spec a b : reflect (a = b) (iw_eqb a b).
Proof.
  destruct a as [a1 a2], b as [b1 b2]. unfold iw_eqb. cbn [fst snd].
  destruct (N.eqb_spec a1 b1); destruct (N.eqb_spec a2 b2); cbn; constructor; congruence.
Qed.
Lemma sw_eqb_spec a b : reflect (a = b) (sw_eqb a b).
Proof. exact (iw_eqb_spec a b). Qed.

Lemma setf_same {X} (f : N -> X) i v : setf f i v i = v.
Proof. unfold setf. rewrite N.eqb_refl. reflexivity. Qed.
Lemma setf_other {X} (f : N -> X) i v j : j <> i -> setf f i v j = f j.
Proof. unfold setf. intros H. destruct (N.eqb_spec j i); [contradiction|reflexivity]. Qed.

(** destruct the conditions of a step *)
Ltac brk H :=
  repeat match type of H with
  | context [if iw_eqb ?a ?b then _ else _] => destruct (iw_eqb_spec a b)
  | context [if sw_eqb ?a ?b then _ else _] => destruct (sw_eqb_spec a b)
  | context [if negb (?a =? ?b) then _ else _] => destruct (N.eqb_spec a b); cbn [negb] in H
  | context [if ?a =? ?b then _ else _] => destruct (N.eqb_spec a b)
  | context [if ?a <? ?b then _ else _] => destruct (N.ltb_spec a b)
  | context [if in_valid_region ?a ?b ?c then _ else _] => destruct (in_valid_region a b c) eqn:?
  | context [if not_in_valid_region ?a ?b ?c then _ else _] => destruct (not_in_valid_region a b c) eqn:?
  end.

Set Default Proof Using "All".
Section L1.
  Variables k segs : N.
  Hypothesis Hk : 1 <= k.
  Hypothesis Hs : 1 <= segs.
  Notation step := (step k segs).
  Notation sg := (sg k).
  Notation wfi := (wfi k segs).
  Notation qsize := (qsize k segs).

  Definition wfw (w : iw) : Prop := wfi (fst w).
  Definition iw_mono (a b : iw) : Prop := b = a \/ snd a < snd b.
  Definition hle (st : state) (w : iw) : Prop := wfw w /\ iw_mono w (head st).
  Definition tle (st : state) (w : iw) : Prop := wfw w /\ iw_mono w (tail st).
  Definition inseg (w : iw) (j : N) : Prop := j < qsize /\ sg j = sg (fst w).

  Definition T1 (st : state) (p : pc) : Prop :=
    match p with
    | P2 b tl => tle st tl
    | PF b tl hd ri i => tle st tl /\ hle st hd /\ ri < k /\ i < k
    | P3 b tl j otag | P4 b tl j otag => tle st tl /\ inseg tl j
    | P3n b tl hd | PQ b tl hd | PHC b tl hd | PH b tl hd => tle st tl /\ hle st hd
    | PS b tl hd i => tle st tl /\ hle st hd /\ i < k
    | PT b tl => tle st tl
    | C1 b tl j tg | C2 b tl j tg => wfw tl /\ inseg tl j
    | C3 b tl j tg hc | C5 b tl j tg hc => wfw tl /\ inseg tl j /\ hle st hc
    | C4 b tl j tg hc tc => wfw tl /\ inseg tl j /\ hle st hc /\ tle st tc
    | C6 b j tg => j < qsize
    | D2 hd => hle st hd
    | DF hd tl ri i => hle st hd /\ tle st tl /\ ri < k /\ i < k
    | D3 hd tl j p tg | DT hd tl j p tg => hle st hd /\ tle st tl /\ inseg hd j /\ p <> 0
    | D3n hd tl | DE hd tl => hle st hd /\ tle st tl
    | D4 hd j p tg => wfw hd /\ inseg hd j /\ p <> 0
    | DH hd => hle st hd
    | _ => True
    end.

  Definition Inv1 (st : state) : Prop :=
    wfw (head st) /\ wfw (tail st) /\ (forall j, fst (slot st j) <> 0 -> j < qsize) /\ forall t, T1 st (th st t).

  Lemma iw_mono_refl a : iw_mono a a. Proof. left. reflexivity. Qed.
  Lemma iw_mono_trans a b c : iw_mono a b -> iw_mono b c -> iw_mono a c.
  Proof. unfold iw_mono. intros [->|H1] [->|H2]; auto. right. lia. Qed.

  Lemma T1_stable st st' p :
    iw_mono (head st) (head st') -> iw_mono (tail st) (tail st') -> T1 st p -> T1 st' p.
  Proof.
    intros Hh Ht.
    assert (HH : forall w, hle st w -> hle st' w) by (intros w [A B]; split; [exact A|eapply iw_mono_trans; eauto]).
    assert (TT : forall w, tle st w -> tle st' w) by (intros w [A B]; split; [exact A|eapply iw_mono_trans; eauto]).
    destruct p; cbn [T1]; intuition.
  Qed.

  Lemma adv_mono w : iw_mono w (adv k segs w). Proof. right. unfold adv. cbn. lia. Qed.
  Lemma bump_mono w : iw_mono w (bump w). Proof. right. unfold bump. cbn. lia. Qed.
  Lemma adv_wfw w : wfw w -> wfw (adv k segs w).
  Proof. unfold wfw, adv. cbn [fst]. intros H. apply (adv_wf k segs Hk Hs _ H). Qed.
  Lemma hle_head st : wfw (head st) -> hle st (head st). Proof. intros; split; [assumption|apply iw_mono_refl]. Qed.
  Lemma tle_tail st : wfw (tail st) -> tle st (tail st). Proof. intros; split; [assumption|apply iw_mono_refl]. Qed.

  Lemma Inv1_init : Inv1 init.
  Proof.
    unfold Inv1, init, wfw. cbn [head tail slot th fst snd].
    split; [apply (wfi_0 k segs Hk Hs)|]. split; [apply (wfi_0 k segs Hk Hs)|].
    split; [intros j H; congruence|intros t; exact I].
  Qed.

  Ltac others Hall t :=
    let t' := fresh "t'" in intros t'; sim; destruct (Nat.eq_dec t' t) as [->|Hne];
    [rewrite upd_same | rewrite upd_other by exact Hne;
       eapply T1_stable; [| |apply Hall]; sim;
       first [apply iw_mono_refl | apply adv_mono | apply bump_mono | (subst; apply adv_mono) | (subst; apply bump_mono)]].

  Lemma Inv1_step s a s' es : Inv1 s -> step s a = Some (s', es) -> Inv1 s'.
  Proof.
    intros (Hh & Ht & Hsl & Hall) Hst. unfold KfbDefs.step in Hst.
    destruct a as [t o|t r].
    - destruct (th s t) eqn:E; try discriminate. inversion Hst; subst; clear Hst.
      unfold Inv1; sim. split; [assumption|]. split; [assumption|]. split; [assumption|].
      intros t'. destruct (Nat.eq_dec t' t) as [->|Hne]; [rewrite upd_same; exact I|rewrite upd_other by exact Hne].
      eapply T1_stable; [| |apply Hall]; apply iw_mono_refl.
    - pose proof (Hall t) as Hme.
      destruct (th s t) as [|[v|]|b|b tl|b tl hd ri i|b tl j otag|b tl hd|b tl j otag|b tl hd|b tl hd i|b tl hd|b tl hd|b tl
                            |b tl j tg|b tl j tg|b tl j tg hc|b tl j tg hc tc|b tl j tg hc|b j tg
                            | |hd|hd tl ri i|hd tl j p tg|hd tl|hd tl j p tg|hd j p tg|hd tl|hd] eqn:E;
        try discriminate; cbn [T1] in Hme; brk Hst; inversion Hst; subst; clear Hst; unfold Inv1; sim.
      all: (split; [first [assumption | apply adv_wfw; assumption ]|]).
      all: (split; [first [assumption | apply adv_wfw; assumption ]|]).
      all: (split; [try assumption|]).
      all: try (others Hall t).
      all: cbn [T1].
      all: unfold hle, tle in *; sim.
      all: repeat match goal with H : _ /\ _ |- _ => destruct H end.
      all: try match goal with |- context [fidx k segs (fst ?w) ?ri ?i] =>
             let A := fresh in let B := fresh in let C := fresh in
             assert (wfi (fst w)) as A by assumption; destruct (fidx_in k segs Hk Hs (fst w) ri i A) as (_ & B & C) end.
      all: try match goal with |- context [sidx k segs (fst ?w) ?i] =>
             let A := fresh in let B := fresh in let C := fresh in
             assert (wfi (fst w)) as A by assumption; destruct (sidx_in k segs Hk Hs (fst w) i A ltac:(assumption)) as (_ & B & C) end.
      all: unfold inseg in *.
      all: repeat match goal with |- _ /\ _ => split end; try assumption; try lia; try apply iw_mono_refl.
      all: try (apply N.mod_lt; lia).
      all: try (destruct (_ =? _); cbn [T1]; repeat match goal with |- _ /\ _ => split end; try assumption; try lia; try apply iw_mono_refl).
      all: intros j0; unfold setf; destruct (N.eqb_spec j0 j) as [->|Hn]; cbn [fst]; [intros; try congruence; try lia; try assumption | apply Hsl].
  Qed.

  Theorem Inv1_reach st : reach init step st -> Inv1 st.
  Proof. apply inv_rule; [exact Inv1_init|]. intros s a s' es. apply Inv1_step. Qed.
End L1.
