(** The epoch argument of the quiescent state based reclamation model (Model/QsbrDefs.v).
    global_epoch and local_epoch hold epochs modulo 3; [g_gepc] counts the advances of global_epoch, [g_lepc b] is the
    value of [g_gepc] when the owner of control block b last published its local epoch.
    [E0]  global_epoch = g_gepc mod 3;
    [P1]  for every thread that owns a control block and has published its epoch ([synced]: the CAS of
          ensure_has_control_block succeeded): local_epoch = g_lepc mod 3 and  g_lepc <= g_gepc <= g_lepc + 1
          - THE GLOBAL EPOCH IS AT MOST ONE AHEAD OF EVERY REGISTERED THREAD (inside a region or not) -, and the epoch
          it carries through quiescent_state / try_update_epoch / adopt_orphans is consistent with both ([epc]);
    [PB]  the scan invariant that makes [P1] inductive: while the global epoch still is the scanner's epoch, every
          control block the scanner has already passed belongs to no registered thread with an older epoch.
    All hold in every reachable state ([EI_reach]).  No axioms. *)
From Coq Require Import NArith ZArith List Bool Arith Lia PeanoNat.
From XV Require Import Conc.Lts Conc.Ev Model.QsbrDefs Proof.QsbrBase.
Import ListNotations.
Local Open Scope N_scope.

(** linear arithmetic with mod 3 *)
Ltac mlia := zify; Z.to_euclidean_division_equations; lia.

(** * Epochs *)
Definition synced (p : pc) : bool := match p with C7 _ | C8 _ _ | C9 _ _ => false | _ => true end.
Definition epc (p : pc) (L G : N) : Prop :=
  match p with
  | Q2 _ e => e = L mod 3 \/ (e = (L + 1) mod 3 /\ G = L + 1)
  | S1 _ e | S2 _ e _ _ | S3 _ e _ _ | G1 _ e | G2 _ e | G3 _ e => e = L mod 3
  | G4 _ e | G5 _ e => e = L mod 3 /\ G = L + 1
  | Q9 _ e => e = (L + 1) mod 3 /\ G = L + 1
  | _ => True
  end.
Definition scan_of (p : pc) : option (list N) :=
  match p with
  | S2 _ _ p0 rest | S3 _ _ p0 rest => Some (p0 :: rest)
  | G1 _ _ | G2 _ _ | G3 _ _ => Some []
  | _ => None
  end.
Definition c9_of (p : pc) : option N := match p with C9 _ e => Some e | _ => None end.

Definition E0 (s : state) : Prop := gep s = g_gepc s mod 3.
Definition P1 (s : state) (u : nat) : Prop :=
  forall b, cb (tl s u) = Some b ->
    (synced (th s u) = true ->
       g_lepc s b <= g_gepc s /\ g_gepc s <= g_lepc s b + 1 /\ blocal s b = g_lepc s b mod 3 /\ epc (th s u) (g_lepc s b) (g_gepc s)) /\
    (forall e, c9_of (th s u) = Some e -> blocal s b = e).
Definition PB (s : state) : Prop :=
  forall w bw u b rem, scan_of (th s w) = Some rem -> cb (tl s w) = Some bw -> g_gepc s = g_lepc s bw ->
    cb (tl s u) = Some b -> synced (th s u) = true -> ~ In b rem -> g_lepc s bw <= g_lepc s b.

Ltac efn := cbn [synced epc scan_of c9_of].
Ltac efn_in H := cbn [synced epc scan_of c9_of] in H.

Lemma step_gepc ns s t s' es : step ns s (Step t) = Some (s', es) ->
  (g_gepc s' = g_gepc s /\ gep s' = gep s) \/
  (exists k e, th s t = G3 k e /\ gep s = e /\ g_gepc s' = g_gepc s + 1 /\ gep s' = (e + 1) mod 3).
Proof.
  intros H. unfold_step H. cbv zeta in H. step_split H. all: bool_eqs; prj; try (left; split; reflexivity).
  right. eauto 8.
Qed.

Lemma start_same ns s t o s' es : step ns s (Start t o) = Some (s', es) ->
  th s t = Idle /\ s' = set_pc t (th s' t) s /\
  (th s' t = X0 \/ th s' t = X1 \/ th s' t = X4 \/ exists o, th s' t = Begin o).
Proof.
  intros H. unfold step, step_gen in H. step_split H. all: prj; rewrite ?upd_same.
  all: repeat split; try reflexivity; try assumption; eauto.
  all: destruct (xstart_cases (rl (tl s t))) as [Ex|Ex]; rewrite Ex; auto.
Qed.

Lemma E0_step ns s a s' es : E0 s -> step ns s a = Some (s', es) -> E0 s'.
Proof.
  unfold E0. intros I H. destruct a as [t o|t].
  - destruct (start_same _ _ _ _ _ _ H) as (_ & -> & _). prj. exact I.
  - destruct (step_gepc _ _ _ _ _ H) as [[-> ->]|(k & e & _ & He & -> & ->)]; [exact I|]. subst e. rewrite I. mlia.
Qed.

Ltac same_cb :=
  repeat match goal with
  | E : cb ?x = Some ?n, H : cb ?x = Some ?b |- _ =>
    lazymatch b with n => fail | _ => rewrite E in H; injection H as <- end
  | E : cb ?x = None, H : cb ?x = Some _ |- _ => rewrite E in H; discriminate H
  end.

Lemma scan_synced p rem : scan_of p = Some rem -> synced p = true.
Proof. destruct p; cbn; intros; try discriminate; reflexivity. Qed.
Lemma P1_other ns s t s' es u : T0 ns s -> O0 s -> E0 s -> (forall x, P1 s x) -> PB s -> step ns s (Step t) = Some (s', es) -> u <> t -> P1 s' u.
Proof.
  intros T O E I B H Hne b Hb. destruct (step_frame _ _ _ _ _ H) as (Fth & Fb & _).
  destruct (Fth u Hne) as [Eth Etl]. rewrite Eth, Etl in *.
  destruct (o_own s O u b Hb) as [Ho _].
  destruct (Fb b (owner_untouched _ _ _ _ O Ho Hne)) as (_ & El & Ec & _). rewrite El, Ec.
  destruct (I u b Hb) as (I1 & I2). split; [|exact I2].
  intros Hs. destruct (I1 Hs) as (A1 & A2 & A3 & A4).
  destruct (step_gepc _ _ _ _ _ H) as [[-> _]|(k & e & Hpc & He & -> & _)]; [auto|].
  (* t advances the global epoch: u was passed by its scan *)
  destruct (cb (tl s t)) as [bt|] eqn:Ebt.
  2:{ exfalso. apply (ts_need _ _ _ (T t)); [rewrite Hpc; reflexivity|exact Ebt]. }
  destruct (I t bt Ebt) as (J1 & _). rewrite Hpc in J1. destruct (J1 eq_refl) as (K1 & K2 & K3 & K4). efn_in K4.
  assert (Hg : g_gepc s = g_lepc s bt).
  { unfold E0 in E. mlia. }
  assert (Hle : g_lepc s bt <= g_lepc s b).
  { eapply (B t bt u b []); eauto. rewrite Hpc. reflexivity. }
  repeat split; try lia; try assumption.
  destruct (th s u); cbn in A4 |- *; try exact Logic.I; try assumption; try lia.
Qed.

Lemma P1_self ns s t s' es : O0 s -> E0 s -> tshape ns (th s t) (tl s t) -> P1 s t -> step ns s (Step t) = Some (s', es) -> P1 s' t.
Proof.
  intros O E0s T I H. unfold E0 in E0s. unfold_step H. cbv zeta in H. step_split H.
  all: bool_eqs; unfold P1; prj; rewrite ?upd_same; prj; prj_hyps; rewrite ?upd_same in *; prj_hyps.
  all: unfold P1 in I; try match goal with E : th _ _ = _ |- _ => try rewrite E in I; try rewrite E in T end.
  all: intros b0 Hb0; same_cb.
  all: try (match goal with E : cb (tl _ _) = Some ?n |- _ => pose proof (I n E) as (I1 & I2); efn_in I1; efn_in I2 end).
  all: try solve [xn; efn; split; intros; try discriminate; cleanup; inj_some; split_updN_all; repeat split; first [assumption | discriminate | lia | congruence | mlia | auto]].
  all: solve [exfalso; pose proof (ts_no _ _ _ T eq_refl); congruence].
Qed.

Lemma scan_has_cb ns p x rem : tshape ns p x -> scan_of p = Some rem -> cb x <> None.
Proof. intros T H. apply (ts_need _ _ _ T). destruct p; cbn in H; try discriminate; reflexivity. Qed.

Lemma PB_frame ns s t s' es w u : O0 s -> T0 ns s -> (forall x, P1 s x) -> PB s -> step ns s (Step t) = Some (s', es) ->
  w <> t -> u <> t ->
  forall bw b rem, scan_of (th s' w) = Some rem -> cb (tl s' w) = Some bw -> g_gepc s' = g_lepc s' bw ->
    cb (tl s' u) = Some b -> synced (th s' u) = true -> ~ In b rem -> g_lepc s' bw <= g_lepc s' b.
Proof.
  intros O T I B H Hw Hu bw b rem Hs Hbw Hg Hb Hsy Hn.
  destruct (step_frame _ _ _ _ _ H) as (Fth & Fb & _).
  destruct (Fth w Hw) as [Ew Etlw]. destruct (Fth u Hu) as [Eu Etl]. rewrite Ew in Hs. rewrite Eu in Hsy. rewrite Etl in Hb. rewrite Etlw in Hbw.
  destruct (o_own s O u b Hb) as [Ho _]. destruct (o_own s O w bw Hbw) as [How _].
  destruct (Fb b (owner_untouched _ _ _ _ O Ho Hu)) as (_ & _ & El & _). rewrite El.
  destruct (Fb bw (owner_untouched _ _ _ _ O How Hw)) as (_ & _ & Elw & _). rewrite Elw in *.
  destruct (step_gepc _ _ _ _ _ H) as [[Eg _]|(k & e & Hpc & _ & Eg & _)]; rewrite Eg in Hg.
  - eapply B; eauto.
  - exfalso. destruct (I w bw Hbw) as (I1 & _). destruct (I1 (scan_synced _ _ Hs)) as (A1 & _). lia.
Qed.

Lemma PB_w ns s t s' es : O0 s -> T0 ns s -> (forall x, P1 s x) -> PB s -> step ns s (Step t) = Some (s', es) ->
  forall bw u b rem, scan_of (th s' t) = Some rem -> cb (tl s' t) = Some bw -> g_gepc s' = g_lepc s' bw ->
    cb (tl s' u) = Some b -> synced (th s' u) = true -> ~ In b rem -> g_lepc s' bw <= g_lepc s' b.
Proof.
  intros O T I B H. pose proof (I t) as It. unfold P1 in It. unfold_step H. cbv zeta in H. step_split H.
  all: bool_eqs; prj; rewrite ?upd_same; prj; prj_hyps; rewrite ?upd_same in *; prj_hyps.
  all: intros bw u b0 rem0 Hs; efn_in Hs; try discriminate Hs.
  all: try solve [xn; efn_in Hs; discriminate Hs].
  all: intros Hbw Hg Hb Hsy Hn; inj_some.
  all: try subst rem0.
  all: pose proof (proj2 (o_own s O u b0 Hb)) as Hin.
  all: (destruct (Nat.eq_dec u t) as [->|Hut]; [rewrite ?upd_same in *; same_cb; apply N.le_refl | rewrite ?upd_other in * by assumption]).
  (* S1: every control block of a registered thread is in the list *)
  all: try solve [exfalso; match goal with X : blist _ = _ |- _ => rewrite X in Hin end; first [contradiction | destruct Hin]].
  (* same remaining list *)
  all: try solve [eapply (B t bw u b0 _); [rewrite E; reflexivity|exact Hbw|exact Hg|exact Hb|exact Hsy|exact Hn]].
  (* the block p is passed *)
  all: match goal with E : th _ _ = S2 _ _ ?p _ |- _ => destruct (N.eq_dec b0 p) as [->|Hbp] | E : th _ _ = S3 _ _ ?p _ |- _ => destruct (N.eq_dec b0 p) as [->|Hbp] end.
  all: try solve [eapply (B t bw u b0 _); [rewrite E; reflexivity|exact Hbw|exact Hg|exact Hb|exact Hsy|]; intros [X|X]; [congruence|first [contradiction|destruct X|apply Hn; exact X|apply Hn; right; exact X]]].
  (* S3: a block that is not active has no owner *)
  all: try solve [exfalso; destruct (o_own s O u _ Hb) as [Ho _]; destruct (o_rev s O _ _ Ho) as (_ & Hst & _); congruence].
  (* S2: the block's local epoch is not the old epoch *)
  all: destruct (It bw Hbw) as (J1 & _); destruct (J1 eq_refl) as (_ & _ & _ & J4); efn_in J4;
       destruct (I u _ Hb) as (K1 & _); destruct (K1 Hsy) as (K2 & K3 & K4 & _); mlia.
Qed.

Lemma PB_u ns s t s' es : O0 s -> T0 ns s -> (forall x, P1 s x) -> PB s -> step ns s (Step t) = Some (s', es) ->
  forall w bw b rem, w <> t -> scan_of (th s w) = Some rem -> cb (tl s w) = Some bw -> g_gepc s' = g_lepc s bw ->
    cb (tl s' t) = Some b -> synced (th s' t) = true -> ~ In b rem -> g_lepc s bw <= g_lepc s' b.
Proof.
  intros O T I B H w bw b0 rem0 Hw Hs Hbw.
  assert (Hle : g_lepc s bw <= g_gepc s).
  { destruct (I w bw Hbw) as (I1 & _). destruct (I1 (scan_synced _ _ Hs)) as (A1 & _). exact A1. }
  pose proof (B w bw t b0 rem0 Hs Hbw) as X. specialize (T t).
  unfold_step H. cbv zeta in H. step_split H.
  all: bool_eqs; prj; rewrite ?upd_same; prj; prj_hyps; rewrite ?upd_same in *; prj_hyps.
  all: try match goal with E : th _ _ = _ |- _ => try rewrite E in X; try rewrite E in T end.
  all: intros Hg Hb Hsy Hn; efn_in Hsy; efn_in X; same_cb.
  all: try discriminate Hsy.
  all: try solve [split_updN_all; first [discriminate | lia | eapply X; solve [eauto | congruence]]].
  all: try solve [xn; efn_in Hsy; first [discriminate | eapply X; solve [eauto | congruence]]].
Qed.

Definition EI (s : state) : Prop := E0 s /\ (forall x, P1 s x) /\ PB s.

Lemma start_pc_facts p : (p = X0 \/ p = X1 \/ p = X4 \/ exists o, p = Begin o) ->
  synced p = true /\ (forall L G, epc p L G) /\ scan_of p = None /\ c9_of p = None.
Proof. intros [->|[->|[->|[o ->]]]]; cbn; auto. Qed.

Section ReachE.
Variables (ns : nat) (nc : N).

Lemma EI_init : EI (init nc).
Proof.
  split; [reflexivity|]. split; [intros x b Hb; cbn in Hb; discriminate|intros w bw u b rem Hs; cbn in Hs; discriminate].
Qed.

Lemma EI_start s t o s' es : EI s -> step ns s (Start t o) = Some (s', es) -> EI s'.
Proof.
  intros (E & I & B) H. destruct (start_same _ _ _ _ _ _ H) as (Hidle & Es & Hp).
  destruct (start_pc_facts _ Hp) as (F1 & F2 & F3 & F4).
  rewrite Es. split; [exact E|]. split.
  - intros u b Hb. prj. prj_in Hb. destruct (I u b Hb) as (I1 & I2).
    destruct (Nat.eq_dec u t) as [->|Hne]; [rewrite upd_same|rewrite upd_other by exact Hne; auto].
    rewrite Hidle in I1, I2. split; [intros _; destruct (I1 eq_refl) as (A1 & A2 & A3 & _); auto|].
    intros e He. rewrite F4 in He. discriminate.
  - intros w bw u b rem Hs Hbw Hg Hb Hsy Hn. prj. prj_in Hs. prj_in Hbw. prj_in Hg. prj_in Hb. prj_in Hsy.
    assert (Hw : w <> t). { intros ->. rewrite upd_same in Hs. congruence. }
    rewrite upd_other in Hs by exact Hw.
    eapply (B w bw u b rem); eauto.
    destruct (Nat.eq_dec u t) as [->|Hne]; [rewrite Hidle; reflexivity|rewrite upd_other in Hsy by exact Hne; exact Hsy].
Qed.

Lemma EI_step s a s' es : T0 ns s -> O0 s -> EI s -> step ns s a = Some (s', es) -> EI s'.
Proof.
  intros T O (E & I & B) H. destruct a as [t o|t]; [eapply EI_start; [|exact H]; unfold EI; auto|].
  split; [eapply E0_step; eauto|]. split.
  - intros u. destruct (Nat.eq_dec u t) as [->|Hne]; [eapply P1_self; eauto|eapply P1_other; eauto].
  - intros w bw u b rem Hs Hbw Hg Hb Hsy Hn.
    destruct (Nat.eq_dec w t) as [->|Hw]; [eapply (PB_w _ _ _ _ _ O T I B H); eauto|].
    destruct (Nat.eq_dec u t) as [->|Hu].
    + destruct (step_frame _ _ _ _ _ H) as (Fth & Fb & _). destruct (Fth w Hw) as [Ew Etw]. rewrite Ew in Hs. rewrite Etw in Hbw.
      destruct (o_own s O w bw Hbw) as [How _].
      destruct (Fb bw (owner_untouched _ _ _ _ O How Hw)) as (_ & _ & Elw & _). rewrite Elw in *.
      eapply (PB_u _ _ _ _ _ O T I B H); eauto.
    + eapply (PB_frame _ _ _ _ _ w u O T I B H); eauto.
Qed.

Lemma EI_reach s : reachable ns nc s -> EI s.
Proof.
  apply (inv_rule_aux _ _ _ _ _ (fun s => T0 ns s /\ O0 s) EI).
  - intros s0 Hr. split; [apply (T0_reach ns nc); exact Hr|apply (O0_reach ns nc); exact Hr].
  - exact EI_init.
  - intros s0 a s1 es [J1 J2] _ I H. eapply EI_step; eauto.
Qed.
End ReachE.
