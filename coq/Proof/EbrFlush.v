(** The flush of the epoch based reclamation model (Model/EbrDefs.v), the liveness half of C02 as a bounded solo run:
    a thread that enters critical regions again and again (the repl operation of the harness' teardown) frees, within
    SEVEN operations, every node that sits in an orphan list or in one of its own retire lists, provided no thread is
    inside a critical region ([ebr_no_leak_at_quiescence]).  The proof executes the model symbolically, one lemma per
    atomic step ([st_*]), one per phase ([ph_*]: enter, scan - by induction over the thread block list -, advance,
    update, finish), one per operation ([round]: the three cases local epoch behind / current without scan /
    current with scan), and composes seven operations.  No axioms. *)
From Coq Require Import NArith List Bool Arith Lia PeanoNat Setoid.
From XV Require Import Conc.Lts Conc.Ev Conc.Solo Model.EbrDefs Proof.EbrBase Proof.EbrEpoch Proof.EbrNodes Proof.EbrTags Proof.EbrGuards.
Import ListNotations.
Local Open Scope N_scope.

(** * The flush: one thread entering critical regions again and again *)
Definition idle (s : state) (t : nat) : bool := match th s t with Idle => true | _ => false end.

Section Flush.
Variables (ns : nat) (nc : N) (t : nat) (c : N).
Notation K := (KRepl c true).
Notation sstep := (fun s s' => exists es, idle s t = false /\ step ns s (Step t) = Some (s', es)).

(** the individual steps of the solo run *)
Ltac stp := unfold step; cbv zeta;
  repeat match goal with H : th _ _ = _ |- _ => rewrite H end;
  repeat match goal with H : cb _ = _ |- _ => rewrite H end; cbn [cell_of opcode fst snd].

Lemma st_begin s : th s t = Begin (ORepl c) -> step ns s (Step t) = Some (set_pc t (A1 K) s, [EStart t 0 [c]]).
Proof. intros H. stp. reflexivity. Qed.

Lemma st_A1 s n0 b : th s t = A1 K -> cells s c = Some n0 -> cb (tl s t) = Some b -> nest (tl s t) = O ->
  step ns s (Step t) = Some (set_pc t (E1 K) (set_tl t (wt_nest 1 (tl s t)) s), [ELoad t (L_cell c) mo_rlx (vptr (Some n0))]).
Proof. intros H H1 H2 H3. stp. rewrite H1. unfold enter. rewrite H2. unfold enter_cb. rewrite H3. reflexivity. Qed.

Lemma st_E1 s b : th s t = E1 K -> cb (tl s t) = Some b ->
  step ns s (Step t) = Some (set_pc t (E2 K) (w_bflag (updN (bflag s) b true) s), [EStore t (L_bflag b) mo_rlx (VInt 1)]).
Proof. intros H H1. stp. reflexivity. Qed.

Lemma st_E2 s : th s t = E2 K -> step ns s (Step t) = Some (set_pc t (E3 K) s, [EFence t mo_sc]).
Proof. intros H. stp. reflexivity. Qed.

Lemma st_E3 s : th s t = E3 K -> step ns s (Step t) = Some (set_pc t (E4 K (gep s)) s, [ELoad t L_gep mo_acq (VInt (gep s))]).
Proof. intros H. stp. reflexivity. Qed.

Lemma st_E4a s b e : th s t = E4 K e -> cb (tl s t) = Some b -> blocal s b <> e ->
  step ns s (Step t) = Some (set_pc t (U1 K e) (set_tl t (wt_ces false (tl s t)) s), [ELoad t (L_blocal b) mo_rlx (VInt (blocal s b))]).
Proof. intros H H1 H2. stp. destruct (N.eqb_spec (blocal s b) e); [contradiction|]. reflexivity. Qed.

Lemma st_E4b s b e : th s t = E4 K e -> cb (tl s t) = Some b -> blocal s b = e -> ces (tl s t) = false ->
  step ns s (Step t) = Some (set_pc t (A2 K) (set_tl t (wt_ces true (tl s t)) s), [ELoad t (L_blocal b) mo_rlx (VInt (blocal s b))]).
Proof. intros H H1 H2 H3. stp. rewrite H2, N.eqb_refl, H3. reflexivity. Qed.

Lemma st_E4c s b e : th s t = E4 K e -> cb (tl s t) = Some b -> blocal s b = e -> ces (tl s t) = true ->
  step ns s (Step t) = Some (set_pc t (S1 K e) (set_tl t (wt_ces false (tl s t)) s), [ELoad t (L_blocal b) mo_rlx (VInt (blocal s b))]).
Proof. intros H H1 H2 H3. stp. rewrite H2, N.eqb_refl, H3. reflexivity. Qed.

Lemma st_G1 s e : th s t = G1 K e -> gep s = e ->
  step ns s (Step t) = Some (set_pc t (G2 K e) s, [ELoad t L_gep mo_rlx (VInt (gep s))]).
Proof. intros H H1. stp. rewrite H1, N.eqb_refl. reflexivity. Qed.

Lemma st_G2 s e : th s t = G2 K e -> step ns s (Step t) = Some (set_pc t (G3 K e) s, [EFence t mo_acq]).
Proof. intros H. stp. reflexivity. Qed.

Lemma st_G3 s e : th s t = G3 K e ->
  step ns s (Step t) = Some (set_pc t (if is_nil (orph s ((e + 1) mod 3)) then G5 K e [] else G4 K e) s,
                             [ELoad t (L_orph ((e + 1) mod 3)) mo_rlx (vptr (hd_opt (orph s ((e + 1) mod 3))))]).
Proof. intros H. stp. destruct (is_nil _); reflexivity. Qed.

Lemma st_G4 s e : th s t = G4 K e ->
  step ns s (Step t) = Some (set_pc t (G5 K e (orph s ((e + 1) mod 3)))
      (move_all (orph s ((e + 1) mod 3)) (PFlight t) (w_orph (updN (orph s) ((e + 1) mod 3) []) s)),
      [ERmw t (L_orph ((e + 1) mod 3)) mo_acq (vptr (hd_opt (orph s ((e + 1) mod 3)))) (VInt 0)]).
Proof. intros H. stp. reflexivity. Qed.

Lemma st_G5 s e l : th s t = G5 K e l -> gep s = e ->
  step ns s (Step t) = Some (set_pc t (U1 K (e + 1)) (free_all l (w_gep (e + 1) s)), ERmw t L_gep mo_rel (VInt e) (VInt (e + 1)) :: free_evs t l).
Proof. intros H H1. stp. rewrite H1, N.eqb_refl. reflexivity. Qed.

Lemma st_U1 s b new : th s t = U1 K new -> cb (tl s t) = Some b ->
  step ns s (Step t) = Some (set_pc t (U2 K new (blocal s b)) s, [ELoad t (L_blocal b) mo_rlx (VInt (blocal s b))]).
Proof. intros H H1. stp. reflexivity. Qed.

Lemma st_U2 s b new old : th s t = U2 K new old -> cb (tl s t) = Some b ->
  step ns s (Step t) =
  Some (set_pc t (A2 K)
          (set_tl t (wt_lidx (if is_nil (uslots new old) then lidx (tl s t) else new mod 3)
                       (wt_rl (fun i => if memN i (uslots new old) then [] else rl (tl s t) i) (tl s t)))
             (free_all (flat_map (rl (tl s t)) (uslots new old)) (w_blocal (updN (blocal s) b new) s))),
        EStore t (L_blocal b) mo_rlx (VInt new) :: free_evs t (flat_map (rl (tl s t)) (uslots new old))).
Proof. intros H H1. stp. reflexivity. Qed.

Lemma st_S1 s e : th s t = S1 K e ->
  step ns s (Step t) = Some (set_pc t (match blist s with [] => G1 K e | p :: rest => S2 K e p rest end) s,
                             [ELoad t L_head mo_acq (vptr (hd_opt (blist s)))]).
Proof. intros H. stp. unfold scan_next. destruct (blist s); reflexivity. Qed.

Lemma st_S2f s e p rest : th s t = S2 K e p rest -> bflag s p = false ->
  step ns s (Step t) = Some (set_pc t (match rest with [] => G1 K e | q :: r => S2 K e q r end) s,
                             [ELoad t (L_bflag p) mo_rlx (vbool false)]).
Proof. intros H H1. stp. rewrite H1. unfold scan_next. destruct rest; reflexivity. Qed.

Lemma st_S2t s e p rest : th s t = S2 K e p rest -> bflag s p = true ->
  step ns s (Step t) = Some (set_pc t (S3 K e p rest) s, [ELoad t (L_bflag p) mo_rlx (vbool true)]).
Proof. intros H H1. stp. rewrite H1. reflexivity. Qed.

Lemma st_S3 s e p rest : th s t = S3 K e p rest -> blocal s p = e ->
  step ns s (Step t) = Some (set_pc t (match rest with [] => G1 K e | q :: r => S2 K e q r end) s,
                             [ELoad t (L_blocal p) mo_rlx (VInt (blocal s p))]).
Proof. intros H H1. stp. rewrite H1, N.eqb_refl. cbn [negb]. unfold scan_next. destruct rest; reflexivity. Qed.

Lemma st_A2 s n0 : th s t = A2 K -> cells s c = Some n0 ->
  step ns s (Step t) =
  Some (set_pc t (R3 c (Some n0) (Some (nalloc s)))
          (w_nalloc (nalloc s + 1) (w_nextid (nextid s + 1) (w_nid (updN (nid s) (nalloc s) (nextid s))
             (w_g_life (updN (g_life s) (nalloc s) (LFresh t)) s)))),
        [ELoad t (L_cell c) mo_acq (vptr (Some n0))] ++ [EAlloc t (nalloc s) node_size]).
Proof. intros H H1. stp. rewrite H1. unfold to_cas. reflexivity. Qed.

Lemma st_R3 s n0 n1 b : th s t = R3 c (Some n0) (Some n1) -> cells s c = Some n0 -> cb (tl s t) = Some b -> nest (tl s t) = 1%nat ->
  exists s', step ns s (Step t) = Some (s', [ERmw t (L_cell c) mo_acqrel (vptr (Some n0)) (vptr (Some n1))]) /\
    th s' t = LV (LFin r_ok) /\ tl s' t = wt_nest O (wt_rl (updN (rl (tl s t)) (lidx (tl s t)) (n0 :: rl (tl s t) (lidx (tl s t)))) (tl s t)) /\
    gep s' = gep s /\ blist s' = blist s /\ bflag s' = bflag s /\ blocal s' = blocal s /\ orph s' = orph s /\
    cells s' c = Some n1 /\ g_where s' = updN (g_where s) n0 (PList t (lidx (tl s t))).
Proof.
  intros H H1 H2 H3. eexists. split.
  - stp. rewrite H1. cbn [oeqb]. rewrite N.eqb_refl. unfold leave. prj. rewrite upd_same. prj. rewrite H3. cbn [pred Nat.eqb]. reflexivity.
  - prj. rewrite !upd_same. prj. repeat split; try reflexivity. apply updN_same.
Qed.

Lemma st_LV s b : th s t = LV (LFin r_ok) -> cb (tl s t) = Some b ->
  step ns s (Step t) = Some (set_pc t Idle (w_bflag (updN (bflag s) b false) s), [EStore t (L_bflag b) mo_rel (VInt 0)] ++ [ERet t r_ok]).
Proof. intros H H1. stp. reflexivity. Qed.

Definition ssteps (n : nat) (s s' : state) : Prop := solo_steps (step ns) Step idle t n s s'.

Ltac sst L :=
  eapply solo_S; [ unfold idle; prj; rewrite ?upd_same; try match goal with H : th ?s ?t = _ |- context [th ?s ?t] => rewrite H end; reflexivity
                 | eapply L; prj; rewrite ?upd_same; prj; try eassumption; try reflexivity
                 | ].

(** start of the operation up to the load of the global epoch in do_enter_critical *)
Lemma ph_enter s b n0 : th s t = Idle -> cb (tl s t) = Some b -> nest (tl s t) = O -> cells s c = Some n0 ->
  exists s1 s', step ns s (Start t (ORepl c)) = Some (s1, []) /\ ssteps 5 s1 s' /\
    th s' t = E4 K (gep s) /\ tl s' t = wt_nest 1 (tl s t) /\ bflag s' = updN (bflag s) b true /\
    gep s' = gep s /\ blist s' = blist s /\ blocal s' = blocal s /\ orph s' = orph s /\ cells s' = cells s /\ g_where s' = g_where s.
Proof.
  intros H H1 H2 H3. eexists _, _. split; [unfold step; rewrite H; reflexivity|]. split.
  - unfold ssteps. sst st_begin. sst st_A1. sst st_E1. sst st_E2. sst st_E3. apply solo_O.
  - prj. rewrite !upd_same. prj. repeat split; reflexivity.
Qed.

Definition Same (s s' : state) : Prop :=
  tl s' t = tl s t /\ gep s' = gep s /\ blist s' = blist s /\ bflag s' = bflag s /\ blocal s' = blocal s /\
  orph s' = orph s /\ cells s' = cells s /\ g_where s' = g_where s.

(** the scan of the thread block list: every other thread is outside its critical region *)
Lemma ph_scan_l e b : forall l s, bflag s b = true -> blocal s b = e -> (forall p, In p l -> p = b \/ bflag s p = false) ->
  th s t = (match l with [] => G1 K e | p :: rest => S2 K e p rest end) ->
  exists n s', ssteps n s s' /\ th s' t = G1 K e /\ Same s s'.
Proof.
  induction l as [|p rest IH]; intros s Hb He Hl Hpc.
  - exists O, s. split; [apply solo_O|]. split; [exact Hpc|]. repeat split; reflexivity.
  - destruct (Hl p (or_introl eq_refl)) as [->|Hf].
    + destruct (IH (set_pc t (match rest with [] => G1 K e | q :: r => S2 K e q r end) (set_pc t (S3 K e b rest) s))) as (n & s' & Hs & Hp & Hsame).
      * exact Hb.
      * exact He.
      * intros q Hq. apply Hl. right. exact Hq.
      * prj. apply upd_same.
      * exists (S (S n)), s'. split; [|split; [exact Hp|exact Hsame]].
        unfold ssteps. sst st_S2t. sst st_S3. exact Hs.
    + destruct (IH (set_pc t (match rest with [] => G1 K e | q :: r => S2 K e q r end) s)) as (n & s' & Hs & Hp & Hsame).
      * exact Hb.
      * exact He.
      * intros q Hq. apply Hl. right. exact Hq.
      * prj. apply upd_same.
      * exists (S n), s'. split; [|split; [exact Hp|exact Hsame]].
        unfold ssteps. sst st_S2f. exact Hs.
Qed.

Lemma ph_scan s e b : th s t = S1 K e -> bflag s b = true -> blocal s b = e -> (forall p, In p (blist s) -> p = b \/ bflag s p = false) ->
  exists n s', ssteps n s s' /\ th s' t = G1 K e /\ Same s s'.
Proof.
  intros Hpc Hb He Hl.
  destruct (ph_scan_l e b (blist s) (set_pc t (match blist s with [] => G1 K e | p :: rest => S2 K e p rest end) s)) as (n & s' & Hs & Hp & Hsame); try assumption.
  - prj. apply upd_same.
  - exists (S n), s'. split; [|split; [exact Hp|exact Hsame]]. unfold ssteps. sst st_S1. exact Hs.
Qed.

(** update_global_epoch(e, e+1): the orphans of slot (e+1) mod 3 are adopted and, the CAS succeeding, freed *)
Lemma ph_adv s e : th s t = G1 K e -> gep s = e ->
  exists n s', ssteps n s s' /\ th s' t = U1 K (e + 1) /\ gep s' = e + 1 /\ tl s' t = tl s t /\
    blist s' = blist s /\ bflag s' = bflag s /\ blocal s' = blocal s /\ cells s' = cells s /\
    (forall n, g_where s' n = if memN n (orph s ((e + 1) mod 3)) then PFreed else g_where s n) /\
    (forall i, orph s' i = if i =? (e + 1) mod 3 then [] else orph s i).
Proof.
  intros Hpc Hg. destruct (is_nil (orph s ((e + 1) mod 3))) eqn:En.
  - apply is_nil_true in En. eexists _, _. split.
    + unfold ssteps. sst st_G1. sst st_G2. sst st_G3. prj. rewrite En. cbn [is_nil]. sst st_G5. apply solo_O.
    + prj. rewrite !upd_same. prj. repeat split; try reflexivity.
      * intros n. rewrite En. reflexivity.
      * intros i. destruct (N.eqb_spec i ((e + 1) mod 3)) as [->|]; [exact En|reflexivity].
  - eexists _, _. split.
    + unfold ssteps. sst st_G1. sst st_G2. sst st_G3. prj. rewrite En. sst st_G4. sst st_G5. apply solo_O.
    + prj. rewrite !upd_same. prj. repeat split; try reflexivity.
      all: try (intros n; destruct (memN n (orph s ((e + 1) mod 3))); reflexivity).
      all: try (intros i; unfold updN; reflexivity).
Qed.

(** update_local_epoch(new) *)
Lemma ph_upd s b new : th s t = U1 K new -> cb (tl s t) = Some b ->
  exists s', ssteps 2 s s' /\ th s' t = A2 K /\
    tl s' t = wt_lidx (if is_nil (uslots new (blocal s b)) then lidx (tl s t) else new mod 3)
                (wt_rl (fun i => if memN i (uslots new (blocal s b)) then [] else rl (tl s t) i) (tl s t)) /\
    gep s' = gep s /\ blist s' = blist s /\ bflag s' = bflag s /\ blocal s' = updN (blocal s) b new /\ cells s' = cells s /\ orph s' = orph s /\
    (forall n, g_where s' n = if memN n (flat_map (rl (tl s t)) (uslots new (blocal s b))) then PFreed else g_where s n).
Proof.
  intros Hpc Hcb. eexists. split.
  - unfold ssteps. sst st_U1. sst st_U2. apply solo_O.
  - prj. rewrite !upd_same. prj. repeat split; reflexivity.
Qed.

(** the rest of repl: second load of the cell, new node, CAS, retire, leave_critical *)
Lemma ph_fin s b n0 : th s t = A2 K -> cells s c = Some n0 -> cb (tl s t) = Some b -> nest (tl s t) = 1%nat ->
  exists s', ssteps 3 s s' /\ th s' t = Idle /\
    tl s' t = wt_nest O (wt_rl (updN (rl (tl s t)) (lidx (tl s t)) (n0 :: rl (tl s t) (lidx (tl s t)))) (tl s t)) /\
    gep s' = gep s /\ blist s' = blist s /\ bflag s' = updN (bflag s) b false /\ blocal s' = blocal s /\ orph s' = orph s /\
    cells s' c = Some (nalloc s) /\ g_where s' = updN (g_where s) n0 (PList t (lidx (tl s t))).
Proof.
  intros Hpc Hc Hcb Hn.
  destruct (st_R3 (set_pc t (R3 c (Some n0) (Some (nalloc s)))
          (w_nalloc (nalloc s + 1) (w_nextid (nextid s + 1) (w_nid (updN (nid s) (nalloc s) (nextid s))
             (w_g_life (updN (g_life s) (nalloc s) (LFresh t)) s))))) n0 (nalloc s) b) as (s2 & Hst & H1 & H2 & H3 & H4 & H5 & H6 & H7 & H8 & H9).
  { prj. apply upd_same. } { exact Hc. } { exact Hcb. } { exact Hn. }
  prj_in H2. prj_in H3. prj_in H4. prj_in H5. prj_in H6. prj_in H7. prj_in H9.
  eexists. split.
  - unfold ssteps. sst st_A2.
    eapply solo_S; [unfold idle; prj; rewrite upd_same; reflexivity | exact Hst |].
    eapply solo_S; [unfold idle; rewrite H1; reflexivity | eapply st_LV; [exact H1 | rewrite H2; exact Hcb] |]. apply solo_O.
  - prj. rewrite !upd_same. prj. rewrite H2, H3, H4, H5, H6, H7, H8, H9. repeat split; reflexivity.
Qed.

Notation reachable := (reach (init nc) (step ns)).

Lemma ssteps_reach n s s' : ssteps n s s' -> reachable s -> reachable s'.
Proof. induction 1 as [|n s s1 es s' Hi Hst Hs IH]; intros Hr; [exact Hr|]. apply IH. eapply reach_step; eauto. Qed.

Lemma ssteps_app n m s s1 s2 : ssteps n s s1 -> ssteps m s1 s2 -> ssteps (n + m) s s2.
Proof. apply solo_steps_app. Qed.

Lemma uslots_succ e : uslots (e + 1) e = [(e + 1) mod 3].
Proof. unfold uslots. replace (e + 1 - e) with 1 by lia. reflexivity. Qed.

(** one flush operation = one repl on cell c, executed solo *)
Definition solo_op (s s' : state) : Prop :=
  exists s1 n, step ns s (Start t (ORepl c)) = Some (s1, []) /\ ssteps n s1 s' /\ idle s' t = true.

Record Quiet (s : state) (b : N) : Prop := {
  q_reach : reachable s;
  q_idle : th s t = Idle;
  q_cb : cb (tl s t) = Some b;
  q_nest : nest (tl s t) = O;
  q_flags : forall p, In p (blist s) -> bflag s p = false;
  q_cell : exists n0, cells s c = Some n0 }.

Definition Summary (s s' : state) (b : N) : Prop :=
  (forall n, g_where s n = PFreed -> g_where s' n = PFreed) /\
  (forall i n, g_where s n = POrph i -> g_where s' n = POrph i \/ g_where s' n = PFreed) /\
  (forall i n, g_where s n = PList t i -> g_where s' n = PList t i \/ g_where s' n = PFreed) /\
  ( (blocal s b <> gep s /\ gep s' = gep s /\ blocal s' b = gep s /\ ces (tl s' t) = false)
  \/ (blocal s b = gep s /\ ces (tl s t) = false /\ gep s' = gep s /\ blocal s' b = gep s /\ ces (tl s' t) = true)
  \/ (blocal s b = gep s /\ ces (tl s t) = true /\ gep s' = gep s + 1 /\ blocal s' b = gep s + 1 /\ ces (tl s' t) = false /\
      (forall n, g_where s n = POrph ((gep s + 1) mod 3) -> g_where s' n = PFreed) /\
      (forall n, g_where s n = PList t ((gep s + 1) mod 3) -> g_where s' n = PFreed)) ).

(** the published node of the cell is not retired *)
Lemma cell_where s n0 : reachable s -> cells s c = Some n0 -> g_where s n0 = PNone.
Proof.
  intros Hr Hc. pose proof (N0_reach ns nc s Hr) as I. pose proof (n_cell s I c n0 Hc) as L.
  destruct (wh_not_ret _ _ _ (n_where s I n0)) as [W _]; [rewrite L; intros; discriminate|exact W].
Qed.

Lemma round s b : Quiet s b -> exists s', solo_op s s' /\ Quiet s' b /\ Summary s s' b.
Proof.
  intros [Hr Hidle Hcb Hnest Hfl [n0 Hcell]].
  pose proof (cell_where s n0 Hr Hcell) as Hw0.
  pose proof (O0_reach ns nc s Hr) as O. destruct (o_own s O t b Hcb) as [_ Hbin].
  destruct (ph_enter s b n0 Hidle Hcb Hnest Hcell) as (s1 & s2 & Hst & Hs12 & Hpc2 & Htl2 & Hbf2 & Hg2 & Hbl2 & Hlo2 & Hor2 & Hce2 & Hwh2).
  assert (Hcb2 : cb (tl s2 t) = Some b) by (rewrite Htl2; exact Hcb).
  destruct (N.eq_dec (blocal s b) (gep s)) as [Heq|Hne].
  - destruct (ces (tl s t)) eqn:Eces.
    + (* C: a scan is due: it succeeds, the epoch is advanced, the orphans of the new slot and the own list of that slot are freed *)
      pose (s3 := set_pc t (S1 K (gep s)) (set_tl t (wt_ces false (tl s2 t)) s2)).
      assert (Hst3 : step ns s2 (Step t) = Some (s3, [ELoad t (L_blocal b) mo_rlx (VInt (blocal s2 b))])).
      { unfold s3. eapply st_E4c; [exact Hpc2|exact Hcb2|rewrite Hlo2; exact Heq|rewrite Htl2; exact Eces]. }
      destruct (ph_scan s3 (gep s) b) as (k4 & s4 & Hs34 & Hpc4 & Htl4 & Hg4 & Hbl4 & Hbf4 & Hlo4 & Hor4 & Hce4 & Hwh4).
      { unfold s3. prj. apply upd_same. } { unfold s3. prj. rewrite Hbf2. apply updN_same. } { unfold s3. prj. rewrite Hlo2. exact Heq. }
      { unfold s3. prj. intros p Hp. rewrite Hbl2 in Hp. rewrite Hbf2. destruct (N.eq_dec p b) as [->|Hpb]; [left; reflexivity|right].
        rewrite updN_other by exact Hpb. apply Hfl. exact Hp. }
      unfold s3 in Htl4, Hg4, Hbl4, Hbf4, Hlo4, Hor4, Hce4, Hwh4. prj_in Htl4. prj_in Hg4. prj_in Hbl4. prj_in Hbf4. prj_in Hlo4. prj_in Hor4. prj_in Hce4. prj_in Hwh4.
      rewrite !upd_same in Htl4. prj_in Htl4.
      destruct (ph_adv s4 (gep s)) as (k5 & s5 & Hs45 & Hpc5 & Hg5 & Htl5 & Hbl5 & Hbf5 & Hlo5 & Hce5 & Hwh5 & Hor5).
      { exact Hpc4. } { rewrite Hg4. exact Hg2. }
      destruct (ph_upd s5 b (gep s + 1)) as (s6 & Hs56 & Hpc6 & Htl6 & Hg6 & Hbl6 & Hbf6 & Hlo6 & Hce6 & Hor6 & Hwh6).
      { exact Hpc5. } { rewrite Htl5, Htl4. prj. exact Hcb2. }
      assert (Hb5 : blocal s5 b = gep s) by (rewrite Hlo5, Hlo4, Hlo2; exact Heq).
      rewrite Hb5, uslots_succ in Htl6, Hwh6. cbn [is_nil flat_map] in Htl6, Hwh6. rewrite app_nil_r in Hwh6.
      destruct (ph_fin s6 b n0) as (s' & Hs6 & Hpc' & Htl' & Hg' & Hbl' & Hbf' & Hlo' & Hor' & Hce' & Hwh').
      { exact Hpc6. } { rewrite Hce6, Hce5, Hce4, Hce2. exact Hcell. } { rewrite Htl6. prj. rewrite Htl5, Htl4. prj. exact Hcb2. }
      { rewrite Htl6. prj. rewrite Htl5, Htl4. prj. rewrite Htl2. reflexivity. }
      pose proof (N0_reach ns nc s Hr) as I0.
      exists s'. split; [|split].
      * exists s1, (5 + (1 + (k4 + (k5 + (2 + 3)))))%nat. split; [exact Hst|]. split; [|unfold idle; rewrite Hpc'; reflexivity].
        eapply ssteps_app; [exact Hs12|]. eapply solo_S; [unfold idle; rewrite Hpc2; reflexivity | exact Hst3 |].
        eapply ssteps_app; [exact Hs34|]. eapply ssteps_app; [exact Hs45|]. eapply ssteps_app; [exact Hs56|exact Hs6].
      * constructor.
        -- eapply ssteps_reach; [exact Hs6|]. eapply ssteps_reach; [exact Hs56|]. eapply ssteps_reach; [exact Hs45|]. eapply ssteps_reach; [exact Hs34|].
           eapply reach_step; [|exact Hst3]. eapply ssteps_reach; [exact Hs12|]. eapply reach_step; [exact Hr|exact Hst].
        -- exact Hpc'.
        -- rewrite Htl', Htl6. prj. rewrite Htl5, Htl4. prj. rewrite Htl2. prj. exact Hcb.
        -- rewrite Htl'. reflexivity.
        -- intros p Hp. rewrite Hbl', Hbl6, Hbl5, Hbl4, Hbl2 in Hp. rewrite Hbf', Hbf6, Hbf5, Hbf4, Hbf2.
           destruct (updN_cases (updN (bflag s) b true) b false p) as [[_ ->]|[Hpb ->]]; [reflexivity|].
           rewrite updN_other by exact Hpb. apply Hfl. exact Hp.
        -- eexists. exact Hce'.
      * unfold Summary. rewrite Hwh', Hg', Hg6, Hg5, Hlo', Hlo6, Htl', Htl6. prj. rewrite ?Htl5, ?Htl4. prj. rewrite ?Htl2. prj.
        assert (Hw5 : forall n, g_where s5 n = if memN n (orph s ((gep s + 1) mod 3)) then PFreed else g_where s n).
        { intros n. rewrite Hwh5, Hor4, Hor2, Hwh4, Hwh2. reflexivity. }
        assert (Hw6 : forall n, g_where s6 n = if memN n (rl (tl s t) ((gep s + 1) mod 3)) then PFreed else g_where s5 n).
        { intros n. rewrite Hwh6, Htl5, Htl4. prj. rewrite Htl2. prj. reflexivity. }
        assert (Hn0 : forall pl n, g_where s6 n <> PNone -> updN (g_where s6) n0 pl n = g_where s6 n).
        { intros pl n Hn. apply updN_other. intros ->. apply Hn. rewrite Hw6, Hw5.
          destruct (memN n0 (rl _ _)) eqn:M1; [exfalso; apply memN_In in M1; apply (n_list s I0 t _ n0) in M1; congruence|].
          destruct (memN n0 (orph _ _)) eqn:M2; [exfalso; apply memN_In in M2; apply (n_orph s I0 _ n0) in M2; congruence|exact Hw0]. }
        assert (Hmono : forall n pl, g_where s n = pl -> pl <> PNone -> g_where s6 n = pl \/ g_where s6 n = PFreed).
        { intros n pl Hn Hpl. rewrite Hw6, Hw5. destruct (memN n (rl _ _)); [right; reflexivity|]. destruct (memN n (orph _ _)); [right; reflexivity|left; exact Hn]. }
        split; [intros n Hn; destruct (Hmono n _ Hn ltac:(discriminate)) as [X|X]; rewrite Hn0; congruence|].
        split; [intros i n Hn; destruct (Hmono n _ Hn ltac:(discriminate)) as [X|X]; rewrite Hn0; [left; exact X|congruence|right; exact X|congruence]|].
        split; [intros i n Hn; destruct (Hmono n _ Hn ltac:(discriminate)) as [X|X]; rewrite Hn0; [left; exact X|congruence|right; exact X|congruence]|].
        right. right. repeat split; try assumption; try reflexivity.
        -- apply updN_same.
        -- intros n Hn. assert (X : g_where s6 n = PFreed).
           { rewrite Hw6, Hw5. destruct (memN n (rl _ _)); [reflexivity|]. apply (n_orph s I0) in Hn. apply memN_In in Hn. rewrite Hn. reflexivity. }
           rewrite Hn0; congruence.
        -- intros n Hn. assert (X : g_where s6 n = PFreed).
           { rewrite Hw6. apply (n_list s I0) in Hn. apply memN_In in Hn. rewrite Hn. reflexivity. }
           rewrite Hn0; congruence.
    + (* B: the epoch is current and no scan is due *)
      pose (s3 := set_pc t (A2 K) (set_tl t (wt_ces true (tl s2 t)) s2)).
      destruct (ph_fin s3 b n0) as (s' & Hs3 & Hpc' & Htl' & Hg' & Hbl' & Hbf' & Hlo' & Hor' & Hce' & Hwh').
      { unfold s3. prj. apply upd_same. } { unfold s3. prj. rewrite Hce2. exact Hcell. }
      { unfold s3. prj. rewrite upd_same. prj. exact Hcb2. } { unfold s3. prj. rewrite upd_same. prj. rewrite Htl2. reflexivity. }
      unfold s3 in *. prj_in Htl'. prj_in Hg'. prj_in Hbl'. prj_in Hbf'. prj_in Hlo'. prj_in Hor'. prj_in Hwh'. rewrite !upd_same in Htl'. prj_in Htl'.
      exists s'. split; [|split].
      * exists s1, (5 + (1 + 3))%nat. split; [exact Hst|]. split; [|unfold idle; rewrite Hpc'; reflexivity].
        eapply ssteps_app; [exact Hs12|]. eapply solo_S; [unfold idle; rewrite Hpc2; reflexivity | eapply st_E4b; [exact Hpc2|exact Hcb2|rewrite Hlo2; exact Heq|rewrite Htl2; exact Eces] | exact Hs3].
      * constructor.
        -- eapply ssteps_reach; [exact Hs3|]. eapply reach_step; [|eapply st_E4b; [exact Hpc2|exact Hcb2|rewrite Hlo2; exact Heq|rewrite Htl2; exact Eces]].
           eapply ssteps_reach; [exact Hs12|]. eapply reach_step; [exact Hr|exact Hst].
        -- exact Hpc'.
        -- rewrite Htl', Htl2. prj. exact Hcb.
        -- rewrite Htl'. reflexivity.
        -- intros p Hp. rewrite Hbl', Hbl2 in Hp. rewrite Hbf', Hbf2. destruct (updN_cases (updN (bflag s) b true) b false p) as [[_ ->]|[Hpb ->]]; [reflexivity|].
           rewrite updN_other by exact Hpb. apply Hfl. exact Hp.
        -- eexists. exact Hce'.
      * unfold Summary. rewrite Hwh', Hwh2, Hg', Hg2, Hlo', Hlo2, Htl', Htl2. prj.
        assert (Hn0 : forall pl n, g_where s n <> PNone -> updN (g_where s) n0 pl n = g_where s n).
        { intros pl n Hn. apply updN_other. intros ->. contradiction. }
        split; [intros n Hn; rewrite Hn0; [exact Hn|congruence]|].
        split; [intros i n Hn; rewrite Hn0; [left; exact Hn|congruence]|].
        split; [intros i n Hn; rewrite Hn0; [left; exact Hn|congruence]|].
        right. left. repeat split; try assumption; reflexivity.
  - (* A: the local epoch is behind: update_local_epoch(global epoch) *)
      pose (s3 := set_pc t (U1 K (gep s)) (set_tl t (wt_ces false (tl s2 t)) s2)).
      assert (Hst3 : step ns s2 (Step t) = Some (s3, [ELoad t (L_blocal b) mo_rlx (VInt (blocal s2 b))])).
      { unfold s3. eapply st_E4a; [exact Hpc2|exact Hcb2|rewrite Hlo2; exact Hne]. }
      destruct (ph_upd s3 b (gep s)) as (s4 & Hs34 & Hpc4 & Htl4 & Hg4 & Hbl4 & Hbf4 & Hlo4 & Hce4 & Hor4 & Hwh4).
      { unfold s3. prj. apply upd_same. } { unfold s3. prj. rewrite upd_same. prj. exact Hcb2. }
      unfold s3 in Htl4, Hg4, Hbl4, Hbf4, Hlo4, Hce4, Hor4, Hwh4. prj_in Htl4. prj_in Hg4. prj_in Hbl4. prj_in Hbf4. prj_in Hlo4. prj_in Hce4. prj_in Hor4. prj_in Hwh4.
      rewrite !upd_same in Htl4. prj_in Htl4. rewrite !upd_same in Hwh4. prj_in Hwh4.
      destruct (ph_fin s4 b n0) as (s' & Hs4 & Hpc' & Htl' & Hg' & Hbl' & Hbf' & Hlo' & Hor' & Hce' & Hwh').
      { exact Hpc4. } { rewrite Hce4, Hce2. exact Hcell. } { rewrite Htl4. prj. exact Hcb2. } { rewrite Htl4. prj. rewrite Htl2. reflexivity. }
      exists s'. split; [|split].
      * exists s1, (5 + (1 + (2 + 3)))%nat. split; [exact Hst|]. split; [|unfold idle; rewrite Hpc'; reflexivity].
        eapply ssteps_app; [exact Hs12|]. eapply solo_S; [unfold idle; rewrite Hpc2; reflexivity | exact Hst3 |].
        eapply ssteps_app; [exact Hs34|exact Hs4].
      * constructor.
        -- eapply ssteps_reach; [exact Hs4|]. eapply ssteps_reach; [exact Hs34|]. eapply reach_step; [|exact Hst3].
           eapply ssteps_reach; [exact Hs12|]. eapply reach_step; [exact Hr|exact Hst].
        -- exact Hpc'.
        -- rewrite Htl', Htl4, Htl2. prj. exact Hcb.
        -- rewrite Htl'. reflexivity.
        -- intros p Hp. rewrite Hbl', Hbl4, Hbl2 in Hp. rewrite Hbf', Hbf4, Hbf2. destruct (updN_cases (updN (bflag s) b true) b false p) as [[_ ->]|[Hpb ->]]; [reflexivity|].
           rewrite updN_other by exact Hpb. apply Hfl. exact Hp.
        -- eexists. exact Hce'.
      * unfold Summary. rewrite Hwh', Hg', Hg4, Hg2, Hlo', Hlo4, Hlo2, Htl', Htl4, Htl2. prj.
        assert (Hn0 : forall pl n, g_where s4 n <> PNone -> updN (g_where s4) n0 pl n = g_where s4 n).
        { intros pl n Hn. apply updN_other. intros ->. apply Hn. rewrite Hwh4.
          destruct (memN n0 _) eqn:M; [|rewrite Hwh2; exact Hw0].
          exfalso. apply memN_In in M. apply in_flat_map in M. destruct M as (i & _ & M). rewrite Htl2 in M. prj_in M.
          apply (n_list s (N0_reach ns nc s Hr) t i n0) in M. congruence. }
        assert (Hmono : forall n pl, g_where s n = pl -> pl <> PNone -> g_where s4 n = pl \/ g_where s4 n = PFreed).
        { intros n pl Hn Hpl. rewrite Hwh4. destruct (memN n _); [right; reflexivity|left; rewrite Hwh2; exact Hn]. }
        split; [intros n Hn; destruct (Hmono n _ Hn ltac:(discriminate)) as [X|X]; rewrite Hn0; congruence|].
        split; [intros i n Hn; destruct (Hmono n _ Hn ltac:(discriminate)) as [X|X]; rewrite Hn0; [left; exact X|congruence|right; exact X|congruence]|].
        split; [intros i n Hn; destruct (Hmono n _ Hn ltac:(discriminate)) as [X|X]; rewrite Hn0; [left; exact X|congruence|right; exact X|congruence]|].
        left. repeat split; try assumption; try reflexivity. apply updN_same.
Qed.

(** [flush k]: k flush operations one after the other, the thread running alone *)
Fixpoint flush (k : nat) (s s' : state) : Prop :=
  match k with O => s' = s | S m => exists s1, solo_op s s1 /\ flush m s1 s' end.

Lemma flush_app k m s s1 s2 : flush k s s1 -> flush m s1 s2 -> flush (k + m) s s2.
Proof. revert s. induction k as [|k IH]; intros s H1 H2; cbn in *; [subst; exact H2|]. destruct H1 as (x & Hx & H1). exists x. split; [exact Hx|]. eapply IH; eauto. Qed.

Definition Keep (s s' : state) : Prop :=
  (forall n, g_where s n = PFreed -> g_where s' n = PFreed) /\
  (forall i n, g_where s n = POrph i -> g_where s' n = POrph i \/ g_where s' n = PFreed) /\
  (forall i n, g_where s n = PList t i -> g_where s' n = PList t i \/ g_where s' n = PFreed).
Definition FreedSlot (j : N) (s s' : state) : Prop :=
  forall n, g_where s n = POrph j \/ g_where s n = PList t j -> g_where s' n = PFreed.

Lemma Keep_refl s : Keep s s.
Proof. repeat split; auto. Qed.
Lemma Keep_trans s1 s2 s3 : Keep s1 s2 -> Keep s2 s3 -> Keep s1 s3.
Proof.
  intros (A1 & A2 & A3) (B1 & B2 & B3). repeat split.
  - auto.
  - intros i n H. destruct (A2 i n H) as [X|X]; [apply B2; exact X|right; apply B1; exact X].
  - intros i n H. destruct (A3 i n H) as [X|X]; [apply B3; exact X|right; apply B1; exact X].
Qed.
(** what was freed (or is about to be) in an earlier part of the flush stays freed *)
Lemma FreedSlot_pre j s1 s2 s3 : Keep s1 s2 -> FreedSlot j s2 s3 -> Keep s2 s3 -> FreedSlot j s1 s3.
Proof.
  intros (A1 & A2 & A3) F (B1 & _). intros n [H|H].
  - destruct (A2 j n H) as [X|X]; [apply F; left; exact X|apply B1; exact X].
  - destruct (A3 j n H) as [X|X]; [apply F; right; exact X|apply B1; exact X].
Qed.
Lemma FreedSlot_post j s1 s2 s3 : FreedSlot j s1 s2 -> Keep s2 s3 -> FreedSlot j s1 s3.
Proof. intros F (B1 & _) n H. apply B1. apply F. exact H. Qed.

Lemma Summary_Keep s s' b : Summary s s' b -> Keep s s'.
Proof. intros (A1 & A2 & A3 & _). repeat split; assumption. Qed.

(** two operations from a state whose local epoch is current and where no scan is due: the second one scans, advances the epoch and frees slot (e+1) mod 3 *)
Lemma pairB s b : Quiet s b -> blocal s b = gep s -> ces (tl s t) = false ->
  exists s2, flush 2 s s2 /\ Quiet s2 b /\ blocal s2 b = gep s2 /\ ces (tl s2 t) = false /\ gep s2 = gep s + 1 /\
    Keep s s2 /\ FreedSlot ((gep s + 1) mod 3) s s2.
Proof.
  intros Q Hl Hc.
  destruct (round s b Q) as (s1 & Ho1 & Q1 & S1). pose proof (Summary_Keep _ _ _ S1) as K1.
  destruct S1 as (_ & _ & _ & [(X & _)|[(_ & _ & Hg1 & Hl1 & Hc1)|(_ & X & _)]]); [contradiction| |congruence].
  destruct (round s1 b Q1) as (s2 & Ho2 & Q2 & S2). pose proof (Summary_Keep _ _ _ S2) as K2.
  destruct S2 as (_ & _ & _ & [(X & _)|[(_ & X & _)|(_ & _ & Hg2 & Hl2 & Hc2 & F1 & F2)]]); [rewrite Hl1, Hg1 in X; contradiction|congruence|].
  exists s2. split; [exists s1; split; [exact Ho1|exists s2; split; [exact Ho2|reflexivity]]|].
  split; [exact Q2|]. rewrite Hg1 in *.
  split; [congruence|]. split; [exact Hc2|]. split; [exact Hg2|]. split; [eapply Keep_trans; eauto|].
  assert (F : FreedSlot ((gep s + 1) mod 3) s1 s2) by (intros n [H|H]; [apply F1|apply F2]; exact H).
  exact (FreedSlot_pre _ _ _ _ K1 F K2).
Qed.

Lemma residues e i : i < 3 -> i = (e + 1) mod 3 \/ i = (e + 2) mod 3 \/ i = (e + 3) mod 3.
Proof.
  intros Hi. rewrite (N.add_mod e 1 3), (N.add_mod e 2 3), (N.add_mod e 3 3) by discriminate.
  pose proof (N.mod_lt e 3 ltac:(discriminate)) as H. set (m := e mod 3) in *.
  assert (Hm : m = 0 \/ m = 1 \/ m = 2) by lia. assert (Hi' : i = 0 \/ i = 1 \/ i = 2) by lia.
  destruct Hm as [-> | [-> | ->]], Hi' as [-> | [-> | ->]]; cbn; auto.
Qed.

Lemma tripleB s b : Quiet s b -> blocal s b = gep s -> ces (tl s t) = false ->
  exists s6, flush 6 s s6 /\ Quiet s6 b /\ blocal s6 b = gep s6 /\ ces (tl s6 t) = false /\ Keep s s6 /\
    FreedSlot ((gep s + 1) mod 3) s s6 /\ FreedSlot ((gep s + 2) mod 3) s s6 /\ FreedSlot ((gep s + 3) mod 3) s s6.
Proof.
  intros Q Hl Hc.
  destruct (pairB s b Q Hl Hc) as (s2 & Hf2 & Q2 & Hl2 & Hc2 & Hg2 & K2 & F2).
  destruct (pairB s2 b Q2 Hl2 Hc2) as (s4 & Hf4 & Q4 & Hl4 & Hc4 & Hg4 & K4 & F4).
  destruct (pairB s4 b Q4 Hl4 Hc4) as (s6 & Hf6 & Q6 & Hl6 & Hc6 & Hg6 & K6 & F6).
  exists s6. split; [exact (flush_app 2 4 _ _ _ Hf2 (flush_app 2 2 _ _ _ Hf4 Hf6))|].
  split; [exact Q6|]. split; [exact Hl6|]. split; [exact Hc6|].
  pose proof (Keep_trans _ _ _ K2 K4) as K24. pose proof (Keep_trans _ _ _ K4 K6) as K46.
  split; [exact (Keep_trans _ _ _ K24 K6)|]. split; [|split].
  - exact (FreedSlot_post _ _ _ _ F2 K46).
  - replace (gep s + 2) with (gep s2 + 1) by lia. exact (FreedSlot_post _ _ _ _ (FreedSlot_pre _ _ _ _ K2 F4 K4) K6).
  - replace (gep s + 3) with (gep s4 + 1) by lia. exact (FreedSlot_pre _ _ _ _ K24 F6 K6).
Qed.

(** [ebr_no_leak_at_quiescence] (C02, the liveness half as a bounded solo run): in a reachable state in which thread t is
    between operations and holds no guard and no thread is inside a critical region (every control block of the list has
    is_in_critical_region = false), SEVEN flush operations of t - each one acquires a guard on cell c (entering a critical
    region), replaces the node and retires the old one, exactly what the teardown of harness/h_recl.cpp does - free every
    node that sits in an orphan list or in a retire list of t (and keep freed what was freed).  Seven = one operation to
    catch up with the global epoch, then three times (one operation without scan, one with scan that advances the epoch):
    the scan frequency of the harness configuration is 1.  Every operation finishes when the thread runs alone. *)
Theorem ebr_no_leak_at_quiescence s b : Quiet s b ->
  exists s', flush 7 s s' /\ Quiet s' b /\
    forall n, (g_where s n = PFreed \/ exists i, g_where s n = POrph i \/ g_where s n = PList t i) -> g_where s' n = PFreed.
Proof.
  intros Q.
  assert (Hall : forall s', Keep s s' -> FreedSlot ((gep s + 1) mod 3) s s' -> FreedSlot ((gep s + 2) mod 3) s s' -> FreedSlot ((gep s + 3) mod 3) s s' ->
                 forall n, (g_where s n = PFreed \/ exists i, g_where s n = POrph i \/ g_where s n = PList t i) -> g_where s' n = PFreed).
  { intros s' (K1 & _) F1 F2 F3 n [H|(i & H)]; [apply K1; exact H|].
    assert (Hi : i < 3).
    { pose proof (tag_reach ns nc s (q_reach _ _ Q) n) as G. unfold tag_ok in G.
      destruct H as [H|H]; rewrite H in G; [destruct G as (t' & r & _ & <- & _)|destruct G as (b' & t' & r & _ & _ & <- & _)]; apply N.mod_lt; discriminate. }
    destruct (residues (gep s) i Hi) as [-> | [-> | ->]]; [apply F1|apply F2|apply F3]; exact H. }
  destruct (round s b Q) as (s1 & Ho1 & Q1 & S1). pose proof (Summary_Keep _ _ _ S1) as K1.
  destruct S1 as (_ & _ & _ & [(Hne & Hg1 & Hl1 & Hc1)|[(Hl & Hc & Hg1 & Hl1 & Hc1)|(Hl & Hc & Hg1 & Hl1 & Hc1 & F1 & F2)]]).
  - (* the local epoch was behind *)
    destruct (tripleB s1 b Q1 ltac:(congruence) Hc1) as (s7 & Hf & Q7 & _ & _ & K7 & G1 & G2 & G3).
    exists s7. split; [exists s1; split; [exact Ho1|exact Hf]|]. split; [exact Q7|].
    rewrite Hg1 in G1, G2, G3. apply Hall; [exact (Keep_trans _ _ _ K1 K7)| | |]; eapply FreedSlot_pre; eauto using Keep_refl.
    all: eapply Keep_refl.
  - (* current, no scan due: three pairs, and one more operation *)
    destruct (tripleB s b Q Hl Hc) as (s6 & Hf & Q6 & _ & _ & K6 & G1 & G2 & G3).
    destruct (round s6 b Q6) as (s7 & Ho7 & Q7 & S7). pose proof (Summary_Keep _ _ _ S7) as K7.
    exists s7. split; [exact (flush_app 6 1 _ _ _ Hf (ex_intro _ s7 (conj Ho7 eq_refl)))|]. split; [exact Q7|].
    apply Hall; [exact (Keep_trans _ _ _ K6 K7)| | |]; eapply FreedSlot_post; eauto.
  - (* current, scan due: this operation advances; two pairs; one more pair *)
    assert (F : FreedSlot ((gep s + 1) mod 3) s s1) by (intros n [H|H]; [apply F1|apply F2]; exact H).
    destruct (pairB s1 b Q1 ltac:(congruence) Hc1) as (s3 & Hf3 & Q3 & Hl3 & Hc3 & Hg3 & K3 & F3).
    destruct (pairB s3 b Q3 Hl3 Hc3) as (s5 & Hf5 & Q5 & Hl5 & Hc5 & Hg5 & K5 & F5).
    destruct (pairB s5 b Q5 Hl5 Hc5) as (s7 & Hf7 & Q7 & _ & _ & _ & K7 & _).
    exists s7. split; [exists s1; split; [exact Ho1|exact (flush_app 2 4 _ _ _ Hf3 (flush_app 2 2 _ _ _ Hf5 Hf7))]|]. split; [exact Q7|].
    pose proof (Keep_trans _ _ _ K1 K3) as K13. pose proof (Keep_trans _ _ _ K5 K7) as K57. pose proof (Keep_trans _ _ _ K3 K57) as K37.
    apply Hall; [exact (Keep_trans _ _ _ K13 K57)| | |].
    + exact (FreedSlot_post _ _ _ _ F K37).
    + replace (gep s + 2) with (gep s1 + 1) by lia. exact (FreedSlot_post _ _ _ _ (FreedSlot_pre _ _ _ _ K1 F3 K3) K57).
    + replace (gep s + 3) with (gep s3 + 1) by lia. exact (FreedSlot_post _ _ _ _ (FreedSlot_pre _ _ _ _ K13 F5 K5) K7).
Qed.
End Flush.
