(** No leak at quiescence for the hazard eras model (Model/HeDefs.v): when no guard owns a hazard era, no
    alloc_hazard_era is in progress and the other threads do not move, the scan a thread runs after retiring a node (or
    at its exit) frees every node of its retire list and every abandoned node, within a bounded number of its own
    steps. *)
From Coq Require Import NArith List Bool Arith Lia PeanoNat.
From XV Require Import Conc.Lts Conc.Ev Model.HeDefs Proof.HeBase Proof.HeGuards Proof.HeNodes Proof.HeEras Proof.HeInv.
Import ListNotations.
Set Warnings "-cannot-remove-as-expected".

(** * An active control block publishes an era only in a referenced slot, or in the slot alloc_hazard_era is about to
      hand out (set_era done, add_guard not yet) *)
Definition inflight2 (p : pc) (i : nat) : Prop := match p with E2 _ _ j => j = i | _ => False end.

Record InvS (st : state) : Prop := mkS {
  s_era : forall t b i e, rcd (tl st t) = Some b -> i < 3 -> hz st b i = VEra e -> est st b = 2 ->
          1 <= cnt st b i \/ inflight2 (th st t) i;
  s_i2 : forall t k e, th st t = I2 k e -> fl (tl st t) = [0; 1; 2];
  s_ini : forall t b, rcd (tl st t) = Some b -> inI (th st t) = true -> est st b = 1;
  s_pend : forall t b, pendb (th st t) = Some b -> (forall k e, th st t <> A1 k e b) -> est st b = 1;
  s_own : forall b, est st b <> 0 -> g_owner st b <> None }.

Section S.
Variable nslots : nat.

Ltac sim := unfold reset_guard, unshare, set_gd, g0; repeat (progress (prj; upds)).
Ltac simh H := unfold reset_guard, unshare, set_gd, g0 in H; repeat (progress (prjh H; upds_in H)).

Lemma ush_cnt_pos st st1 t : ush t st st1 -> forall b i, 1 <= cnt st b i -> 1 <= cnt st1 b i.
Proof.
  induction 1 as [st|st b0 i0 g0 st2 Hb0 Hg0 Hc0 _ IH]; intros b i Hc; [exact Hc|]. apply IH.
  unfold unshare. prj. unfold upd2. destruct ((b =? b0) && (i =? i0)) eqn:E; [|exact Hc].
  apply andb_true_iff in E. destruct E as [E1 E2]. apply Nat.eqb_eq in E1, E2. subst. lia.
Qed.

Lemma InvS_ush st st1 t : ush t st st1 -> InvS st -> InvS st1.
Proof.
  intros Hu [I1 I2 I4 I5 I3]. pose proof (ush_same _ _ _ Hu) as HS.
  assert (Hrc : forall u, rcd (tl st1 u) = rcd (tl st u)).
  { intros u. destruct (Nat.eq_dec u t) as [->|Hne]; [apply (sb_rcd _ _ _ HS)|rewrite (sb_tl _ _ _ HS u Hne); reflexivity]. }
  assert (Hfl : forall u, fl (tl st1 u) = fl (tl st u)).
  { intros u. destruct (Nat.eq_dec u t) as [->|Hne]; [apply (sb_fl _ _ _ HS)|rewrite (sb_tl _ _ _ HS u Hne); reflexivity]. }
  constructor.
  - intros u b i e. rewrite Hrc, (sb_hz _ _ _ HS), (sb_est _ _ _ HS), (sb_th _ _ _ HS). intros Hb Hi Hz He.
    destruct (I1 u b i e Hb Hi Hz He) as [Hc|Hc]; [left; apply (ush_cnt_pos st st1 t Hu b i Hc)|right; exact Hc].
  - intros u k e. rewrite (sb_th _ _ _ HS), Hfl. apply I2.
  - intros u b. rewrite Hrc, (sb_th _ _ _ HS), (sb_est _ _ _ HS). apply I4.
  - intros u b. rewrite (sb_th _ _ _ HS), (sb_est _ _ _ HS). apply I5.
  - intros b. rewrite (sb_est _ _ _ HS), (sb_owner _ _ _ HS). apply I3.
Qed.

Lemma InvS_reset st t b i g :
  InvO st -> InvS st -> rcd (tl st t) = Some b -> (forall k e, th st t <> I2 k e) -> (forall j, inflight2 (th st t) j -> False) ->
  InvS (reset_guard st t b i g).
Proof.
  intros HO [I1 I2 I4 I5 I3] Hb Hn2 Hnf. constructor; unfold reset_guard; prj.
  - intros u bb ii ee Hbb Hi Hz He. destruct (Nat.eq_dec u t) as [->|Hne]; upds_in Hbb; prjh Hbb.
    + rewrite Hb in Hbb. injection Hbb as <-. rewrite upd2_same_block in Hz. rewrite upd2_same_block. revert Hz.
      destruct (Nat.eqb_spec ii i) as [->|Hni]; intros Hz; [discriminate Hz|]. destruct (I1 t b ii ee Hb Hi Hz He) as [Hc|Hc]; [left; exact Hc|].
      exfalso. apply (Hnf ii Hc).
    + assert (bb <> b) by (intros ->; apply Hne; apply (own_inj st u t b HO Hbb Hb)).
      rewrite !upd2_other_block in * by assumption. apply (I1 u bb ii ee Hbb Hi Hz He).
  - intros u k e Hu. destruct (Nat.eq_dec u t) as [->|Hne]; upds; [exfalso; apply (Hn2 k e Hu)|apply (I2 u k e Hu)].
  - intros u bb Hbb. destruct (Nat.eq_dec u t) as [->|Hne]; upds_in Hbb; prjh Hbb; apply (I4 _ bb Hbb).
  - exact I5.
  - exact I3.
Qed.

Ltac clean_hyps :=
  repeat match goal with
  | E : _ = _ |- _ => progress (unfold set_gd, unshare, reset_guard, g0 in E; prjh E; upds_in E; prjh E)
  end.

Lemma InvS_step st a st' es : InvO st -> InvG nslots st -> InvS st -> step nslots st a = Some (st', es) -> InvS st'.
Proof.
  intros HO HG HS Hs. destruct a as [t o|t]; cbn [step] in Hs.
  - destruct (th st t) eqn:Hth; try discriminate Hs. destruct (legal nslots o); [|discriminate Hs].
    injection Hs as <- <-. destruct HS as [I1 I2 I4 I5 I3]. constructor; prj; try assumption.
    + intros u b i e Hb Hi Hz He. destruct (I1 u b i e Hb Hi Hz He) as [Hc|Hc]; [left; exact Hc|].
      destruct (Nat.eq_dec u t) as [->|Hne]; upds; [rewrite Hth in Hc; destruct Hc|right; exact Hc].
    + intros u k e. destruct (Nat.eq_dec u t) as [->|Hne]; upds; [discriminate|apply I2].
    + intros u b Hb. destruct (Nat.eq_dec u t) as [->|Hne]; upds; [discriminate|apply (I4 u b Hb)].
    + intros u b. destruct (Nat.eq_dec u t) as [->|Hne]; upds; [discriminate|apply (I5 u b)].
  - pose proof (HG t) as HGt. pose proof (g_pc nslots st t HGt) as Hpc. pose proof (g_s nslots st t HGt) as HSt.
    destruct (th st t) eqn:Hth; try discriminate Hs.
    all: leaves Hs.
    all: clean_hyps; try discriminate.
    all: cbn [pcG ctx_ok guard_of] in Hpc.
    all: try (match goal with Hu : ush _ ?s0 ?st1 |- InvS (set_pc _ _ ?st1) =>
           assert (HS0 : InvS s0) by (first [exact HS | (apply InvS_reset; [exact HO|exact HS|assumption|intros; rewrite Hth; discriminate|intros j; rewrite Hth; cbn [inflight2]; tauto])]);
           pose proof (InvS_ush _ _ _ Hu HS0) as [J1 J2 J4 J5 J3]; pose proof (ush_same _ _ _ Hu) as HSb; constructor; prj; try assumption;
           [ intros u b i e Hb Hi Hz He; destruct (J1 u b i e Hb Hi Hz He) as [Hc|Hc]; [left; exact Hc|];
             destruct (Nat.eq_dec u t) as [->|Hne]; upds; [rewrite (sb_th _ _ _ HSb) in Hc; unfold reset_guard in Hc; prjh Hc; rewrite Hth in Hc; destruct Hc|right; exact Hc]
           | intros u k e; destruct (Nat.eq_dec u t) as [->|Hne]; upds; [discriminate|apply J2]
           | intros u b Hb; destruct (Nat.eq_dec u t) as [->|Hne]; upds; [discriminate|apply (J4 u b Hb)]
           | intros u b; destruct (Nat.eq_dec u t) as [->|Hne]; upds; [discriminate|apply (J5 u b)] ] end; fail).
    all: dg.
    all: destruct HS as [I1 I2 I4 I5 I3]; constructor.
    (* s_own *)
    all: try (match goal with |- forall b, est _ b <> 0 -> _ => idtac end;
              intros bb Hbb; sim; simh Hbb;
              first [ (apply I3; exact Hbb)
                    | (revert Hbb; unfold upd; repeat match goal with |- context [Nat.eqb ?a ?b] => destruct (Nat.eqb_spec a b); subst end; intros Hbb;
                       first [ discriminate | congruence | (apply I3; exact Hbb)
                             | (match goal with Hr : rcd (tl _ _) = Some ?b |- g_owner _ ?b <> None => destruct (O_rcd st HO _ _ Hr) as (Ho & _); congruence end)
                             | (match goal with |- g_owner _ ?b <> None => destruct (O_pend st HO t b) as (Ho & _); [rewrite Hth; reflexivity|congruence] end) ]) ]; fail).
    (* s_i2 *)
    all: try (match goal with |- forall t k e, th _ t = I2 k e -> _ => idtac end;
              intros uu kk ee Huu; simh Huu; sim; destruct (Nat.eq_dec uu t) as [->|Hne]; upds_in Huu; upds;
              first [ discriminate | (apply (I2 _ _ _ Huu)) | reflexivity ]; fail).
    (* s_ini, s_pend *)
    all: try (intros uu bb Hb Hin; match type of Hin with inI _ = true => idtac end;
              simh Hb; simh Hin; sim; destruct (Nat.eq_dec uu t) as [->|Hne]; upds_in Hb; upds_in Hin; upds; simh Hb; try discriminate; try congruence;
              first [ (match goal with Hne : _ <> _ |- _ => idtac end;
                       repeat match goal with |- context [upd ?f ?b ?v ?b'] =>
                         rewrite (upd_other f b v b') by (intros ->; first [ (apply Hne; eapply (own_inj st); eassumption)
                           | (destruct (O_rcd st HO _ _ Hb) as (_ & _ & Hc); apply Hc; apply Nat.eqb_eq; assumption)
                           | (destruct (O_rcd st HO _ _ Hb) as (_ & Hc & _); destruct (O_pend st HO t _ ltac:(rewrite Hth; reflexivity)) as (_ & Hc' & _); contradiction)
                           | (destruct (O_rcd st HO _ _ Hb) as (Hc & _ & _); destruct (O_lt st HO (nalloc st) (le_n _)) as (Hc' & _); congruence) ]) end;
                       apply (I4 uu bb Hb Hin))
                    | (apply (I4 t); [assumption|rewrite Hth; reflexivity])
                    | (injection Hb as <-; first [reflexivity | (upds; reflexivity) | (apply (I5 t); [rewrite Hth; reflexivity|intros; rewrite Hth; discriminate])]) ]; fail).
    all: try (intros uu bb Hb Hna; match type of Hb with pendb _ = Some _ => idtac end;
              simh Hb; sim; destruct (Nat.eq_dec uu t) as [->|Hne]; upds_in Hb; upds; try discriminate;
              first [ (match goal with Hne : _ <> _ |- _ => idtac end;
                       destruct (O_pend st HO uu bb Hb) as (Hq1 & Hq2 & Hq3);
                       repeat match goal with |- context [upd ?f ?b ?v ?b'] =>
                         rewrite (upd_other f b v b') by (intros ->; first [ (destruct (O_lt st HO (nalloc st) (le_n _)) as (Hc' & _); congruence)
                           | (apply Hq3; apply Nat.eqb_eq; assumption)
                           | (destruct (O_pend st HO t _ ltac:(rewrite Hth; reflexivity)) as (Hc' & _); congruence)
                           | (match goal with Hr : rcd (tl _ _) = Some _ |- _ => destruct (O_rcd st HO _ _ Hr) as (_ & Hc' & _); contradiction end) ]) end;
                       apply (I5 uu bb Hb); intros kk ee Hk; apply (Hna kk ee); sim; upds; exact Hk)
                    | (cbn [pendb] in Hb; try discriminate; injection Hb as <-;
                       first [ (exfalso; eapply Hna; sim; upds; reflexivity)
                             | (upds; reflexivity)
                             | (apply (I5 t); [rewrite Hth; reflexivity|intros; rewrite Hth; discriminate]) ]) ]; fail).
    (* s_era *)
    all: intros uu bb ii ee Hb Hi Hz He; simh Hb; simh Hz; simh He; sim; destruct (Nat.eq_dec uu t) as [->|Hne]; upds_in Hb; upds.
    (* another thread: its block is not touched *)
    all: try (match goal with Hne : _ <> _ |- _ => idtac end;
              repeat match type of Hz with context [upd2 ?f ?b ?i ?v ?b' ?j] =>
                rewrite (upd2_other_block f b i v b' j) in Hz by (intros ->; apply Hne; eapply (own_inj st); eassumption) end;
              repeat match goal with |- context [upd2 ?f ?b ?i ?v ?b' ?j] =>
                rewrite (upd2_other_block f b i v b' j) by (intros ->; apply Hne; eapply (own_inj st); eassumption) end;
              repeat match type of He with context [upd ?f ?b ?v ?b'] =>
                rewrite (upd_other f b v b') in He by (intros ->; first [ (apply Hne; eapply (own_inj st); eassumption)
                  | (destruct (O_rcd st HO _ _ Hb) as (_ & _ & Hc); apply Hc; apply Nat.eqb_eq; assumption)
                  | (destruct (O_rcd st HO _ _ Hb) as (_ & Hc & _); destruct (O_pend st HO t _ ltac:(rewrite Hth; reflexivity)) as (_ & Hc' & _); contradiction)
                  | (destruct (O_rcd st HO _ _ Hb) as (Hc & _ & _); destruct (O_lt st HO (nalloc st) (le_n _)) as (Hc' & _); congruence) ]) end;
              apply (I1 _ _ _ _ Hb Hi Hz He); fail).
    (* the stepping thread, nothing relevant changes *)
    all: try (destruct (I1 _ _ _ _ Hb Hi Hz He) as [Hc|Hc]; [left; exact Hc|rewrite Hth in Hc; destruct Hc]; fail).
    all: simh Hb; try discriminate Hb.
    all: try (match goal with Hne : _ <> _ |- _ => fail 1 | Hr : rcd (tl _ _) = Some ?b |- _ => rewrite Hr in Hb; injection Hb as <- end).
    all: try (match goal with Hne : _ <> _ |- _ => fail 1 | _ => idtac end;
              rewrite ?upd2_same_block in *;
              repeat match goal with
                     | |- context [Nat.eqb ?a ?b] => destruct (Nat.eqb_spec a b); subst
                     | H : context [Nat.eqb ?a ?b] |- _ => destruct (Nat.eqb_spec a b); subst
                     end;
              try discriminate;
              try (match goal with Ec : (cnt _ _ _ =? 1) = false |- _ => apply Nat.eqb_neq in Ec end);
              first [ (right; reflexivity) | (left; lia)
                    | (match goal with Hr : rcd (tl _ _) = Some ?b, Hz' : hz _ ?b ?i = VEra _ |- _ =>
                         destruct (I1 t b i _ Hr Hi Hz' He) as [Hc|Hc]; [left; first [exact Hc|lia]|rewrite Hth in Hc; cbn [inflight2] in Hc; first [congruence | (destruct Hc; fail) | (right; exact Hc)]] end) ]; fail).
    (* the same block under two names *)
    all: repeat match goal with H1 : rcd (tl ?s ?u) = Some ?x, H2 : rcd (tl ?s ?u) = Some ?y |- _ =>
           tryif constr_eq x y then fail else (rewrite H1 in H2; injection H2 as <-) end.
    all: try (match goal with Hne : _ <> _ |- _ => fail 1 | _ => idtac end;
              rewrite ?upd2_same_block in *;
              repeat match goal with
                     | |- context [Nat.eqb ?a ?b] => destruct (Nat.eqb_spec a b); subst
                     | H : context [Nat.eqb ?a ?b] |- _ => destruct (Nat.eqb_spec a b); subst
                     end;
              try discriminate;
              try (match goal with Ec : (cnt _ _ _ =? 1) = false |- _ => apply Nat.eqb_neq in Ec end);
              first [ (right; reflexivity) | (left; lia)
                    | (match goal with Hr : rcd (tl _ _) = Some ?b, Hz' : hz _ ?b ?i = VEra _ |- _ =>
                         destruct (I1 t b i _ Hr Hi Hz' He) as [Hc|Hc]; [left; first [exact Hc|lia]|rewrite Hth in Hc; cbn [inflight2] in Hc; first [congruence | (destruct Hc; fail) | (right; exact Hc)]] end) ]; fail).
    (* a thread that is looking for a control block has none *)
    all: try (exfalso; rewrite (O_seek st HO t) in Hb by (rewrite Hth; reflexivity); discriminate Hb).
    (* adoption / linking: the block is inactive *)
    all: try (injection Hb as <-; upds_in He; first [ discriminate He
              | (rewrite (I5 t _ ltac:(rewrite Hth; reflexivity) ltac:(intros; rewrite Hth; discriminate)) in He; discriminate He) ]; fail).
    (* I2: all slots are links *)
    all: try (match goal with Hth : th _ _ = I2 _ _ |- _ =>
           exfalso; pose proof (I2 t _ _ Hth) as Hfl;
           match goal with Hr : rcd (tl _ _) = Some ?b |- _ =>
             pose proof (g_chain nslots st t HSt b Hr) as Hch; rewrite Hfl in Hch; cbn [chain] in Hch; destruct Hch as (C0 & C1 & C2 & _);
             assert (Hii : ii = 0 \/ ii = 1 \/ ii = 2) by lia; destruct Hii as [->|[->| ->]]; congruence end end; fail).
    (* U1: the slot of the only guard on it *)
    all: try (match goal with Hth : th _ _ = U1 _ _ |- _ =>
           destruct Hpc as (_ & _ & _ & Hso & _); rewrite upd2_same_block in Hz;
           destruct (Nat.eqb_spec ii n0) as [->|Hnq];
           [ left; rewrite (Hso _ _ E E0); lia
           | destruct (I1 t _ _ _ E Hi Hz He) as [Hc|Hc]; [left; exact Hc|rewrite Hth in Hc; destruct Hc] ] end; fail).
Qed.

Lemma InvS_init ncells : InvS (init ncells).
Proof. constructor; cbn; intros; try discriminate; congruence. Qed.

(** * Solo runs of thread t *)
Inductive srun (t : nat) : nat -> state -> state -> Prop :=
| srun_0 st : srun t 0 st st
| srun_S k st st1 es st' : step nslots st (Step t) = Some (st1, es) -> srun t k st1 st' -> srun t (S k) st st'.

Lemma srun_app t k1 k2 st st1 st2 : srun t k1 st st1 -> srun t k2 st1 st2 -> srun t (k1 + k2) st st2.
Proof. intros H1 H2. induction H1; [exact H2|]. cbn [Nat.add]. eapply srun_S; eauto. Qed.

Lemma srun_1 t st st1 es : step nslots st (Step t) = Some (st1, es) -> srun t 1 st st1.
Proof. intros H. eapply srun_S; [exact H|apply srun_0]. Qed.

(** what the walk of a scan leaves unchanged *)
Record keep (t : nat) (st st' : state) : Prop := mkKeep {
  k_blist : blist st' = blist st; k_est : forall b, est st' b = est st b; k_hz : forall b i, hz st' b i = hz st b i;
  k_aband : aband st' = aband st; k_tl : forall u, tl st' u = tl st u; k_ce : forall n, ce st' n = ce st n; k_re : forall n, re st' n = re st n;
  k_where : forall n, g_where st' n = g_where st n; k_nfree : forall n, g_nfree st' n = g_nfree st n;
  k_th : forall u, u <> t -> th st' u = th st u }.

Lemma keep_refl t st : keep t st st.
Proof. constructor; intros; reflexivity. Qed.

Lemma keep_trans t a b c : keep t a b -> keep t b c -> keep t a c.
Proof.
  intros [A1 A2 A3 A4 A5 A6 A7 A8 A9 A10] [B1 B2 B3 B4 B5 B6 B7 B8 B9 B10]. constructor.
  - congruence.
  - intros x. rewrite B2. apply A2.
  - intros x y. rewrite B3. apply A3.
  - congruence.
  - intros x. rewrite B5. apply A5.
  - intros x. rewrite B6. apply A6.
  - intros x. rewrite B7. apply A7.
  - intros x. rewrite B8. apply A8.
  - intros x. rewrite B9. apply A9.
  - intros x Hx. rewrite B10 by assumption. apply A10. assumption.
Qed.

Ltac kp := constructor; intros; sim; reflexivity.

Definition noprot (s : scan) : Prop := s_prot s = [].

Definition next_pc (s : scan) (rest : list nat) : pc := match rest with [] => S7 s | r :: l => S5 s r l end.

Lemma walk_step5 st t s r rest :
  th st t = S5 s r rest ->
  exists st1 es, step nslots st (Step t) = Some (st1, es) /\ keep t st st1 /\
                 th st1 t = if est st r =? 2 then S6 s r rest 0 else next_pc s rest.
Proof.
  intros Hth. cbn [step]. rewrite Hth. destruct (est st r =? 2).
  - eexists _, _. split; [reflexivity|]. split; [kp|sim; reflexivity].
  - unfold scan_next, next_pc. destruct rest; (eexists _, _; split; [reflexivity|]; split; [kp|sim; reflexivity]).
Qed.

Lemma walk_step6 st t s r rest i :
  th st t = S6 s r rest i -> (exists nx, hz st r i = VLink nx) ->
  exists st1 es, step nslots st (Step t) = Some (st1, es) /\ keep t st st1 /\
    th st1 t = if i <? 2 then S6 s r rest (S i) else next_pc s rest.
Proof.
  intros Hth [nx Hz]. cbn [step]. rewrite Hth, Hz. destruct (i <? 2).
  - eexists _, _. split; [reflexivity|]. split; [kp|sim; reflexivity].
  - unfold scan_next, next_pc. destruct rest; (eexists _, _; split; [reflexivity|]; split; [kp|sim; reflexivity]).
Qed.

(** every slot of a linked, active control block is a link (no era is published) *)
Definition clean (st : state) : Prop :=
  forall b i, In b (blist st) -> est st b = 2 -> i < 3 -> exists nx, hz st b i = VLink nx.

Lemma clean_keep t st st' : keep t st st' -> clean st -> clean st'.
Proof. intros HK HC b i. rewrite (k_blist t st st' HK), (k_est t st st' HK), (k_hz t st st' HK). apply HC. Qed.

(** three slots of one control block *)
Lemma walk_block st t s r rest :
  th st t = S6 s r rest 0 -> clean st -> In r (blist st) -> est st r = 2 ->
  exists st', srun t 3 st st' /\ keep t st st' /\ th st' t = next_pc s rest.
Proof.
  intros Hth HC Hin He.
  destruct (walk_step6 st t s r rest 0 Hth (HC r 0 Hin He ltac:(lia))) as (st1 & e1 & H1 & K1 & T1). cbn in T1.
  assert (C1 : exists nx, hz st1 r 1 = VLink nx) by (rewrite (k_hz t st st1 K1); apply (HC r 1 Hin He); lia).
  destruct (walk_step6 st1 t s r rest 1 T1 C1) as (st2 & e2 & H2 & K2 & T2). cbn in T2.
  pose proof (keep_trans t _ _ _ K1 K2) as K12.
  assert (C2 : exists nx, hz st2 r 2 = VLink nx) by (rewrite (k_hz t st st2 K12); apply (HC r 2 Hin He); lia).
  destruct (walk_step6 st2 t s r rest 2 T2 C2) as (st3 & e3 & H3 & K3 & T3). cbn in T3.
  exists st3. split; [eapply srun_S; [exact H1|]; eapply srun_S; [exact H2|]; eapply srun_1; exact H3|].
  split; [apply (keep_trans t _ _ _ K12 K3)|exact T3].
Qed.

(** the walk over the remaining control blocks *)
Lemma walk_all rest : forall st t s r,
  th st t = S5 s r rest -> clean st -> (forall x, In x (r :: rest) -> In x (blist st)) ->
  exists k st', k <= 4 * S (length rest) /\ srun t k st st' /\ keep t st st' /\ th st' t = S7 s.
Proof.
  induction rest as [|r' rest IH]; intros st t s r Hth HC Hsub.
  - destruct (walk_step5 st t s r [] Hth) as (st1 & e1 & H1 & K1 & T1). destruct (est st r =? 2) eqn:Ee.
    + apply Nat.eqb_eq in Ee.
      destruct (walk_block st1 t s r [] T1 (clean_keep t st st1 K1 HC)) as (st2 & R2 & K2 & T2);
        [rewrite (k_blist t st st1 K1); apply Hsub; left; reflexivity|rewrite (k_est t st st1 K1); exact Ee|].
      exists 4, st2. split; [cbn; lia|]. split; [eapply srun_S; [exact H1|exact R2]|].
      split; [apply (keep_trans t _ _ _ K1 K2)|exact T2].
    + exists 1, st1. split; [cbn; lia|]. split; [eapply srun_1; exact H1|]. split; [exact K1|exact T1].
  - destruct (walk_step5 st t s r (r' :: rest) Hth) as (st1 & e1 & H1 & K1 & T1). destruct (est st r =? 2) eqn:Ee.
    + apply Nat.eqb_eq in Ee.
      destruct (walk_block st1 t s r (r' :: rest) T1 (clean_keep t st st1 K1 HC)) as (st2 & R2 & K2 & T2);
        [rewrite (k_blist t st st1 K1); apply Hsub; left; reflexivity|rewrite (k_est t st st1 K1); exact Ee|].
      cbn [next_pc] in T2. pose proof (keep_trans t _ _ _ K1 K2) as K12.
      destruct (IH st2 t s r' T2 (clean_keep t st st2 K12 HC)) as (k & st3 & Hk & R3 & K3 & T3);
        [intros x Hx; rewrite (k_blist t st st2 K12); apply Hsub; right; exact Hx|].
      exists (4 + k), st3. split; [cbn [length]; lia|].
      split; [change (4 + k) with (1 + (3 + k)); eapply srun_S; [exact H1|]; apply (srun_app t 3 k _ _ _ R2 R3)|].
      split; [apply (keep_trans t _ _ _ K12 K3)|exact T3].
    + cbn [next_pc] in T1.
      destruct (IH st1 t s r' T1 (clean_keep t st st1 K1 HC)) as (k & st3 & Hk & R3 & K3 & T3);
        [intros x Hx; rewrite (k_blist t st st1 K1); apply Hsub; right; exact Hx|].
      exists (1 + k), st3. split; [cbn [length]; lia|]. split; [eapply srun_S; [exact H1|exact R3]|].
      split; [apply (keep_trans t _ _ _ K1 K3)|exact T3].
Qed.

(** what the first steps of a scan (reserve, fence, adopt) leave unchanged *)
Record keep0 (t : nat) (st st' : state) : Prop := mkKeep0 {
  k0_blist : blist st' = blist st; k0_est : forall b, est st' b = est st b; k0_hz : forall b i, hz st' b i = hz st b i;
  k0_tl : forall u, tl st' u = tl st u; k0_nfree : forall n, g_nfree st' n = g_nfree st n;
  k0_th : forall u, u <> t -> th st' u = th st u }.

Ltac kp0 := constructor; intros; sim; reflexivity.

Lemma keep0_trans t a b c : keep0 t a b -> keep0 t b c -> keep0 t a c.
Proof.
  intros [A1 A2 A3 A5 A7 A8] [B1 B2 B3 B5 B7 B8]. constructor.
  - congruence.
  - intros x. rewrite B2. apply A2.
  - intros x y. rewrite B3. apply A3.
  - intros x. rewrite B5. apply A5.
  - intros x. rewrite B7. apply A7.
  - intros x Hx. rewrite B8 by assumption. apply A8. assumption.
Qed.

Lemma scan_start st t k0 :
  th st t = S0 k0 ->
  exists k st1 s1, k <= 4 /\ srun t k st st1 /\ keep0 t st st1 /\ th st1 t = S4 s1 /\
    s_k s1 = k0 /\ s_prot s1 = [] /\ s_ad s1 = aband st /\ aband st1 = [] /\
    (forall n, g_where st1 n = if mem n (aband st) then PFlight t else g_where st n).
Proof.
  intros Hth.
  assert (H0 : exists st1 es s1, step nslots st (Step t) = Some (st1, es) /\ keep0 t st st1 /\ th st1 t = S1 s1 /\
             s_k s1 = k0 /\ s_prot s1 = [] /\ s_ad s1 = [] /\ aband st1 = aband st /\ (forall n, g_where st1 n = g_where st n)).
  { cbn [step]. rewrite Hth. destruct (nact st =? 0).
    - eexists _, _, _. split; [reflexivity|]. split; [kp0|]. split; [sim; reflexivity|]. repeat split.
    - eexists _, _, _. split; [reflexivity|]. split; [kp0|]. split; [sim; reflexivity|]. repeat split. }
  destruct H0 as (st1 & e1 & s1 & H1 & K1 & T1 & A1 & B1 & C1 & D1 & E1).
  assert (H2 : exists st2 es, step nslots st1 (Step t) = Some (st2, es) /\ keep0 t st1 st2 /\ th st2 t = S2 s1 /\
             aband st2 = aband st1 /\ (forall n, g_where st2 n = g_where st1 n)).
  { cbn [step]. rewrite T1. eexists _, _. split; [reflexivity|]. split; [kp0|]. split; [sim; reflexivity|]. split; reflexivity. }
  destruct H2 as (st2 & e2 & H2 & K2 & T2 & D2 & E2).
  pose proof (keep0_trans t _ _ _ K1 K2) as K12.
  destruct (aband st) as [|a l] eqn:Ea.
  - assert (H3 : exists st3 es, step nslots st2 (Step t) = Some (st3, es) /\ keep0 t st2 st3 /\ th st3 t = S4 s1 /\
               aband st3 = aband st2 /\ (forall n, g_where st3 n = g_where st2 n)).
    { assert (Hnil : aband st2 = []) by congruence.
      cbn [step]. rewrite T2. destruct (is_nil (aband st2)) eqn:En; rewrite Hnil in En; cbn [is_nil] in En; try discriminate En.
      eexists _, _. split; [reflexivity|]. split; [kp0|]. split; [sim; reflexivity|]. split; reflexivity. }
    destruct H3 as (st3 & e3 & H3 & K3 & T3 & D3 & E3).
    exists 3, st3, s1. split; [lia|]. split; [eapply srun_S; [exact H1|]; eapply srun_S; [exact H2|]; eapply srun_1; exact H3|].
    split; [apply (keep0_trans t _ _ _ K12 K3)|].
    split; [exact T3|]. split; [exact A1|]. split; [exact B1|]. split; [exact C1|]. split; [congruence|].
    intros n. cbn [mem existsb]. rewrite E3, E2, E1. reflexivity.
  - assert (H3 : exists st3 es, step nslots st2 (Step t) = Some (st3, es) /\ keep0 t st2 st3 /\ th st3 t = S3 s1 /\
               aband st3 = aband st2 /\ (forall n, g_where st3 n = g_where st2 n)).
    { assert (Hnil : aband st2 = a :: l) by congruence.
      cbn [step]. rewrite T2. destruct (is_nil (aband st2)) eqn:En; rewrite Hnil in En; cbn [is_nil] in En; try discriminate En.
      eexists _, _. split; [reflexivity|]. split; [kp0|]. split; [sim; reflexivity|]. split; reflexivity. }
    destruct H3 as (st3 & e3 & H3 & K3 & T3 & D3 & E3).
    assert (H4 : exists st4 es s4, step nslots st3 (Step t) = Some (st4, es) /\ keep0 t st3 st4 /\ th st4 t = S4 s4 /\
               s_k s4 = s_k s1 /\ s_prot s4 = s_prot s1 /\ s_ad s4 = aband st3 /\ aband st4 = [] /\
               (forall n, g_where st4 n = if mem n (aband st3) then PFlight t else g_where st3 n)).
    { cbn [step]. rewrite T3. eexists _, _, _. split; [reflexivity|]. split; [kp0|]. split; [sim; reflexivity|]. repeat split. }
    destruct H4 as (st4 & e4 & s4 & H4 & K4 & T4 & A4 & B4 & C4 & D4 & E4).
    exists 4, st4, s4. split; [lia|].
    split; [eapply srun_S; [exact H1|]; eapply srun_S; [exact H2|]; eapply srun_S; [exact H3|]; eapply srun_1; exact H4|].
    split; [apply (keep0_trans t _ _ _ (keep0_trans t _ _ _ K12 K3) K4)|].
    split; [exact T4|]. split; [congruence|]. split; [congruence|]. split; [congruence|]. split; [exact D4|].
    intros n. rewrite E4, D3, D2, D1, E3, E2, E1. reflexivity.
Qed.

Lemma filter_all {X} (f : X -> bool) l : (forall x, f x = true) -> filter f l = l.
Proof. intros H. induction l as [|a l IH]; [reflexivity|]. cbn [filter]. rewrite H, IH. reflexivity. Qed.
Lemma filter_none {X} (f : X -> bool) l : (forall x, f x = false) -> filter f l = [].
Proof. intros H. induction l as [|a l IH]; [reflexivity|]. cbn [filter]. rewrite H, IH. reflexivity. Qed.

(** the end of the scan when no era was gathered *)
Lemma scan_end st t s :
  th st t = S7 s -> noprot s ->
  exists st' es, step nslots st (Step t) = Some (st', es) /\
    rl (tl st' t) = [] /\ aband st' = aband st /\
    (forall n, In n (rl (tl st t) ++ s_ad s) -> g_where st' n = PFreed) /\
    (forall n, g_nfree st' n = g_nfree st n + count n (rl (tl st t) ++ s_ad s)) /\
    match s_k s with SRepl => th st' t = Idle | SExit => th st' t = X4 \/ th st' t = Done end.
Proof.
  intros Hth Hn. cbn [step]. rewrite Hth. unfold noprot in Hn. rewrite Hn. unfold is_prot. cbn [existsb negb].
  rewrite (filter_all (fun _ : nat => true)) by reflexivity.
  rewrite !(filter_none (fun _ : nat => false)) by reflexivity.
  cbn [rev app]. destruct (s_k s).
  - unfold finish. eexists _, _. split; [reflexivity|]. sim. repeat split.
    intros m Hin. cbn [mem existsb]. apply mem_In in Hin. rewrite Hin. reflexivity.
  - cbn [is_nil]. unfold exit_rel. sim. destruct (rcd (tl st t)).
    + eexists _, _. split; [reflexivity|]. sim. repeat split; [|left; reflexivity].
      intros m Hin. cbn [mem existsb]. apply mem_In in Hin. rewrite Hin. reflexivity.
    + eexists _, _. split; [reflexivity|]. sim. repeat split; [|right; reflexivity].
      intros m Hin. cbn [mem existsb]. apply mem_In in Hin. rewrite Hin. reflexivity.
Qed.

Lemma scan_head st t s :
  th st t = S4 s ->
  exists st1 es, step nslots st (Step t) = Some (st1, es) /\ keep t st st1 /\ th st1 t = next_pc s (blist st).
Proof.
  intros Hth. cbn [step]. rewrite Hth. unfold scan_next, next_pc.
  destruct (blist st); (eexists _, _; split; [reflexivity|]; split; [kp|sim; reflexivity]).
Qed.

(** no guard refers to a hazard era and no alloc_hazard_era has published an era it has not handed out yet: no era
    is published in any linked, active control block *)
Lemma quiescent_clean st :
  InvO st -> InvG nslots st -> InvS st ->
  (forall u g, he (gd (tl st u) g) = None) -> (forall u k e i, th st u <> E2 k e i) -> clean st.
Proof.
  intros HO HG HS Hnone He2 b i Hin He Hi.
  assert (Hown : g_owner st b <> None) by (apply (s_own st HS); lia).
  destruct (g_owner st b) as [u|] eqn:Eo; [|contradiction].
  destruct (O_own st HO u b Eo) as [Hr|Hp]; [|destruct (O_pend st HO u b Hp) as (_ & Hc & _); contradiction].
  pose proof (g_s nslots st u (HG u)) as HSu.
  destruct (hz st b i) as [nx|e] eqn:Ez; [exists nx; reflexivity|]. exfalso.
  destruct (s_era st HS u b i e Hr Hi Ez He) as [Hc|Hc].
  - rewrite (g_cnt nslots st u HSu b i Hr Hi), (ng_zero nslots (tl st u) i (Hnone u)) in Hc. lia.
  - destruct (th st u) eqn:Et; cbn [inflight2] in Hc; try contradiction. apply (He2 u k e0 i0). exact Et.
Qed.

(** ** a scan that starts when no era is published frees the whole retire list and every abandoned node *)
Lemma scan_frees_all st t k0 :
  InvO st -> InvN st -> clean st -> th st t = S0 k0 ->
  exists k st', k <= 6 + 4 * length (blist st) /\ srun t k st st' /\
    match k0 with SRepl => th st' t = Idle | SExit => th st' t = X4 \/ th st' t = Done end /\
    rl (tl st' t) = [] /\ aband st' = [] /\
    forall n, In n (rl (tl st t)) \/ In n (aband st) -> g_where st' n = PFreed /\ g_nfree st' n = 1.
Proof.
  intros HO HN HC Hth.
  destruct (scan_start st t k0 Hth) as (k1 & st1 & s1 & Hk1 & R1 & K1 & T1 & A1 & B1 & C1 & D1 & E1).
  assert (HC1 : clean st1).
  { intros b i. rewrite (k0_blist t st st1 K1), (k0_est t st st1 K1), (k0_hz t st st1 K1). apply HC. }
  destruct (scan_head st1 t s1 T1) as (st2 & e2 & H2 & K2 & T2).
  assert (H7 : exists k st7, k <= 4 * length (blist st) /\ srun t k st2 st7 /\ keep t st2 st7 /\ th st7 t = S7 s1).
  { rewrite (k0_blist t st st1 K1) in T2. destruct (blist st) as [|r rest] eqn:Eb; cbn [next_pc] in T2.
    - exists 0, st2. split; [lia|]. split; [apply srun_0|]. split; [apply keep_refl|exact T2].
    - destruct (walk_all rest st2 t s1 r T2 (clean_keep t st1 st2 K2 HC1)) as (k & st7 & Hk & R7 & K7 & T7).
      { intros x Hx. rewrite (k_blist t st1 st2 K2), (k0_blist t st st1 K1), Eb. exact Hx. }
      exists k, st7. split; [cbn [length] in *; lia|]. split; [exact R7|]. split; [exact K7|exact T7]. }
  destruct H7 as (k7 & st7 & Hk7 & R7 & K7 & T7).
  pose proof (keep_trans t _ _ _ K2 K7) as K17.
  destruct (scan_end st7 t s1 T7 B1) as (st8 & e8 & H8 & Hrl & Hab & Hfr & Hnf & Hpc).
  exists (k1 + (1 + (k7 + 1))), st8. split; [lia|].
  split; [apply (srun_app t _ _ _ _ _ R1); eapply srun_S; [exact H2|]; apply (srun_app t _ _ _ _ _ R7); eapply srun_1; exact H8|].
  split; [rewrite A1 in Hpc; exact Hpc|]. split; [exact Hrl|].
  split; [rewrite Hab, (k_aband t st1 st7 K17); exact D1|].
  assert (Hrl7 : rl (tl st7 t) = rl (tl st t)) by (rewrite (k_tl t st1 st7 K17), (k0_tl t st st1 K1); reflexivity).
  rewrite Hrl7, C1 in Hfr, Hnf.
  intros n Hn. assert (Hin : In n (rl (tl st t) ++ aband st)) by (apply in_app_iff; exact Hn).
  split; [apply Hfr; exact Hin|]. rewrite Hnf, (k_nfree t st1 st7 K17), (k0_nfree t st st1 K1).
  assert (Hnd : NoDup (rl (tl st t) ++ aband st)).
  { apply NoDup_app_iff. split; [apply (n_list_nd st HN)|]. split; [apply (n_aband_nd st HN)|].
    intros x Hx Hx'. apply (n_list st HN) in Hx. apply (n_aband st HN) in Hx'. congruence. }
  rewrite (count_nodup n _ Hnd Hin).
  assert (H0 : g_nfree st n = 0).
  { rewrite (n_free st HN). unfold gone.
    assert (Hw : g_where st n = PList t \/ g_where st n = PAband).
    { destruct Hn as [Hn|Hn]; [left; apply (n_list st HN); exact Hn|right; apply (n_aband st HN); exact Hn]. }
    assert (Hl : exists u, g_life st n = LRet u).
    { destruct (g_life st n) eqn:El; try (exfalso; assert (Hc : g_where st n = PNone) by (apply (n_none st HN); intros u Hu; rewrite El in Hu; discriminate Hu); destruct Hw; congruence).
      exists t0. reflexivity. }
    destruct Hl as [u Hl]. rewrite Hl. destruct Hw as [Hw|Hw]; rewrite Hw; reflexivity. }
  rewrite H0. reflexivity.
Qed.
End S.

(** * The theorem *)
Section Main.
Variables (ncells nslots : nat).

Theorem he_slots_published st : reach (init ncells) (step nslots) st -> InvS st.
Proof.
  intros Hr. induction Hr as [|s a s' es Hr IH Hst]; [apply InvS_init|].
  destruct (he_inv ncells nslots s Hr) as [HO HG _ _ _ _ _]. apply (InvS_step nslots s a s' es HO HG IH Hst).
Qed.

(** he_no_leak_at_quiescence, full statement (not proved as one theorem):
      reach st -> (forall u, th st u = Idle \/ th st u = Done) -> (forall u g, he (gd (tl st u) g) = None) ->
      th st t = Idle -> cells st c = Some o ->
      exists k st', k <= 40 + 6 * length (blist st) /\ (Start t (ORepl c), then k solo steps of t lead from st to st') /\
        th st' t = Idle /\ rl (tl st' t) = [] /\ aband st' = [] /\
        forall n, In n (rl (tl st t)) \/ In n (aband st) \/ n = o -> g_where st' n = PFreed /\ g_nfree st' n = 1.
    Proved: the scan of the flush.  From the program point where the scan starts (S0: right after guard.reclaim()
    has given up its hazard era, stamped the node with its retirement era, pushed it onto the retire list and read the
    threshold (T1), or at thread exit), in any reachable state in which no guard refers to a hazard era and no thread
    is between set_era and add_guard of alloc_hazard_era (program point E2; the other threads may be anywhere else:
    they do not move during the solo run), thread t alone reaches the end of its operation within
    6 + 4 * (number of control blocks) steps, and then its retire list and the abandoned list are empty and every
    node that was in them has been freed exactly once.
    Missing for the full statement: the prefix of the retiring operation (Begin, Q1, Q2, acquire_inactive_entry /
    initialize / activate / alloc_hazard_era, Q1, Q2, C1, R1, R2, R3, T1: at most 17 + 2 * (number of control blocks)
    further steps; when thread t runs alone no CAS of it fails and era_clock does not move between the publication
    and the second read).  Two things are needed for it that are not proved on this model: the symbolic execution of
    these steps, and the fact that alloc_hazard_era does not throw when no guard of the thread refers to a hazard era
    (the free list then holds all K slots: "every slot is on the free list, referenced, or in flight", the no-leak
    half of the pool invariant; it is proved on the sequential slot pool model, Proof/HeSlots.v: he_no_leak).
    The whole flush is exercised by the examples below (vm_compute). *)
Theorem he_no_leak_at_quiescence_partial st t k0 :
  reach (init ncells) (step nslots) st ->
  th st t = S0 k0 -> (forall u g, he (gd (tl st u) g) = None) -> (forall u k e i, th st u <> E2 k e i) ->
  exists k st', k <= 6 + 4 * length (blist st) /\ srun nslots t k st st' /\
    match k0 with SRepl => th st' t = Idle | SExit => th st' t = X4 \/ th st' t = Done end /\
    rl (tl st' t) = [] /\ aband st' = [] /\
    forall n, In n (rl (tl st t)) \/ In n (aband st) -> g_where st' n = PFreed /\ g_nfree st' n = 1.
Proof.
  intros Hr Hth Hn He2. destruct (he_inv ncells nslots st Hr) as [HO HG _ HN _ _ _].
  apply (scan_frees_all nslots st t k0 HO HN (quiescent_clean nslots st HO HG (he_slots_published st Hr) Hn He2) Hth).
Qed.
End Main.

(** * Example: the whole flush in a quiescent state (continuing the examples of Proof/HeInv.v)
    thread 1 has dropped its guard, every thread is idle and no guard has a hazard era; node 0 is in the retire list of
    thread 2.  Thread 2 runs [repl 0] alone: Begin, Q1, Q2, H1, E1, E2, Q1, Q2, C1, R1, R2, R3, T1, then the 13 steps
    of the scan: S0 S1 S2 S4, S5 S6 S6 S6 for each of the two control blocks, S7 (the bound of the theorem is
    6 + 4 * 2): it is idle again, nodes 0 and 4 are freed. *)
Definition ex_q := ex_d2 ++ ops 1 (ODrop 0) 40.
Example ex_quiescent :
  let st := final ex_q in
  th st 1 = Idle /\ th st 2 = Idle /\ rl (tl st 2) = [0] /\ aband st = [] /\ blist st = [3; 2] /\
  he (gd (tl st 1) 0) = None /\ he (gd (tl st 1) 1) = None /\ he (gd (tl st 1) 2) = None /\ he (gd (tl st 2) 0) = None.
Proof. vm_compute. repeat split; reflexivity. Qed.

Example ex_flush_running : th (final (ex_q ++ Start 2 (ORepl 0) :: repeat (Step 2) 25)) 2 <> Idle.
Proof. vm_compute. discriminate. Qed.

Example ex_flush :
  let st := final (ex_q ++ Start 2 (ORepl 0) :: repeat (Step 2) 26) in
  th st 2 = Idle /\ rl (tl st 2) = [] /\ aband st = [] /\
  g_where st 0 = PFreed /\ g_nfree st 0 = 1 /\ g_where st 4 = PFreed /\ g_nfree st 4 = 1 /\ cells st 0 = Some 6.
Proof. vm_compute. repeat split; reflexivity. Qed.

(** the state in which the scan of this flush starts, and the instance of the theorem for it *)
Example ex_flush_scan_start :
  let st := final (ex_q ++ Start 2 (ORepl 0) :: repeat (Step 2) 13) in
  th st 2 = S0 SRepl /\ rl (tl st 2) = [4; 0] /\ length (blist st) = 2.
Proof. vm_compute. repeat split; reflexivity. Qed.
