(** vyukov_hash_map bucket model with iterators: the extension chain, the free list and item ownership.
    Generic lemmas come from Proof/VhmBase.v and Proof/VhmMem.v. *)
From Coq Require Import NArith List Bool Lia PeanoNat.
From XV Require Import Base.Word Conc.Lts Conc.Ev gen.BucketStateGen Proof.BucketState.
From XV Require Import Proof.VhmBase Proof.VhmMem Proof.VhmItBase Model.VhmItDefs.
Import ListNotations.
Local Open Scope N_scope.

(** the extension item a thread owns exclusively: popped from the free list and not yet linked into the
    chain, or unlinked from the chain and not yet pushed onto the free list *)
Definition pc_own (p : pc) : option N :=
  match p with
  | A7 _ _ _ _ n | IXSK _ _ _ _ n | IXSV _ _ _ _ n | IXH _ _ _ _ n | IXSN _ _ _ _ n _ | IXSH _ _ _ _ n => Some n
  | XA9 _ _ _ _ x | XXU _ _ _ x _ | F1 _ _ _ x | F2 _ _ _ x | F3 _ _ _ x | F4 _ _ _ x _ | F5 _ _ _ x
  | EX3 (It _ _ x _) _ _ _ | EA9 _ _ _ x
  | IF1 _ _ x _ | IF2 _ _ x _ | IF3 _ _ x _ | IF4 _ _ x _ _ | IF5 _ _ x _ => Some x
  | _ => None
  end.

(** the predecessor link of do_extract *)
Definition link_ok (st : state) (p x : N) : Prop :=
  (p = 0 /\ bhead st = x) \/ (p <> 0 /\ In p (g_chain st) /\ xnext st p = x).

(** facts of the holder of the bucket lock about the chain *)
Definition pc_ch (st : state) (p : pc) : Prop :=
  match p with
  | IXK _ _ _ _ x | IXV _ _ _ _ x | IXN _ _ _ _ x | XXM _ _ _ x => In x (g_chain st)
  | IXSN _ _ _ _ _ h => h = bhead st
  | IXSH _ _ _ _ n => xnext st n = bhead st
  | XA1 _ _ _ _ _ x | XA2 _ _ _ _ _ x | XA3 _ _ _ _ _ x _ | XA4 _ _ _ _ _ x _ _ | XA5 _ _ _ _ _ x _ | XA6 _ _ _ _ _ x
  | XA7 _ _ _ _ _ x => x = bhead st /\ x <> 0
  | XA8 _ _ _ _ _ x nx => x = bhead st /\ x <> 0 /\ nx = xnext st x
  | XB1 _ _ _ _ _ | XB2 _ _ _ _ _ | XB3 _ _ _ _ _ _ | XB4 _ _ _ _ _ _ _ | XB5 _ _ _ _ _ _ | XB6 _ _ _ _ _ => bhead st = 0
  | XXK _ _ _ p x | XXV _ _ _ p x | XXN _ _ _ p x _ => In x (g_chain st) /\ link_ok st p x
  | XXP _ _ _ p x _ nx => In x (g_chain st) /\ link_ok st p x /\ nx = xnext st x
  | ItIdle (It _ _ x p) | BeginI _ (It _ _ x p) | SK _ _ (It _ _ x p) | SV _ _ (It _ _ x p) _ | EK (It _ _ x p) | EV (It _ _ x p) _
  | R1 (It _ _ x p) | N1 _ (It _ _ x p) | EX1 (It _ _ x p) _ _
  | IF1 (It _ _ x p) _ _ _ | IF2 (It _ _ x p) _ _ _ | IF3 (It _ _ x p) _ _ _ | IF4 (It _ _ x p) _ _ _ _ | IF5 (It _ _ x p) _ _ _
  | IF6 (It _ _ x p) _ _ _ => x <> 0 -> In x (g_chain st) /\ link_ok st p x
  | EX2 (It _ _ x p) _ _ nx => In x (g_chain st) /\ link_ok st p x /\ nx = xnext st x
  | EX3 (It _ _ _ p) _ _ nx => nx <> 0 -> In nx (g_chain st) /\ link_ok st p nx
  | FXK _ _ p x => In x (g_chain st) /\ link_ok st p x
  | FXN _ _ x => In x (g_chain st)
  | EA1 _ _ _ h | EA2 _ _ _ h | EA3 _ _ _ h _ | EA4 _ _ _ h _ _ | EA5 _ _ _ h _ | EA6 _ _ _ h | EA7 _ _ _ h => h = bhead st /\ h <> 0
  | EA8 _ _ _ h nx => h = bhead st /\ h <> 0 /\ nx = xnext st h
  | EB1 _ _ _ | EB2 _ _ _ | EB3 _ _ _ _ | EB4 _ _ _ _ _ | EB5 _ _ _ _ | EB6 _ _ _ => bhead st = 0
  | _ => True
  end.

(** facts of the holder of the extension bucket's lock about the free list *)
Definition pc_fr (st : state) (p : pc) : Prop :=
  match p with
  | A5 _ _ _ _ n => n = xhead st /\ n <> 0
  | A6 _ _ _ _ n nx => n = xhead st /\ n <> 0 /\ nx = xnext st n
  | F4 _ _ _ _ h => h = xhead st
  | F5 _ _ _ x => xnext st x = xhead st
  | IF4 _ _ _ _ h => h = xhead st
  | IF5 _ _ x _ => xnext st x = xhead st
  | _ => True
  end.

Definition pc_dup (p : pc) : bool := match p with XA7 _ _ _ _ _ _ | XA8 _ _ _ _ _ _ _ | EA7 _ _ _ _ | EA8 _ _ _ _ _ => true | _ => false end.
Definition pc_limbo (p : pc) : N := match p with XA9 _ _ _ _ x | XXU _ _ _ x _ | EX3 (It _ _ x _) _ _ _ | EA9 _ _ _ x => x | _ => 0 end.

Record Mem (st : state) : Prop := mkMem {
  M_chd : bhead st = hd 0 (g_chain st);
  M_clk : linksto (xnext st) (g_chain st) 0;
  M_cnd : NoDup (g_chain st);
  M_cok : forall x, In x (g_chain st) -> item_ok x;
  M_fhd : xhead st = hd 0 (g_free st);
  M_flk : linksto (xnext st) (g_free st) 0;
  M_fnd : NoDup (g_free st);
  M_fok : forall x, In x (g_free st) -> item_ok x;
  M_disj : forall x, In x (g_chain st) -> In x (g_free st) -> False;
  M_own : forall t x, pc_own (th st t) = Some x -> item_ok x /\ ~ In x (g_chain st) /\ ~ In x (g_free st);
  M_inj : forall t t' x, t <> t' -> pc_own (th st t) = Some x -> pc_own (th st t') = Some x -> False;
  M_fl0 : g_owner st = None -> g_dup st = false /\ g_limbo st = 0;
  M_fl : forall t, g_owner st = Some t -> g_dup st = pc_dup (th st t) /\ g_limbo st = pc_limbo (th st t);
  M_ch : forall t, pc_ch st (th st t);
  M_fr : forall t, pc_fr st (th st t)
}.

Lemma ch_unlocked p : pc_bst p = None -> forall st, pc_ch st p.
Proof. destruct p; repeat match goal with i : itpos |- _ => destruct i end; cbn [pc_bst pc_ch]; try discriminate; intros; exact I. Qed.
Lemma fr_unlocked p : xlocked_pc p = false -> forall st, pc_fr st p.
Proof. destruct p; repeat match goal with i : itpos |- _ => destruct i end; cbn [xlocked_pc pc_fr]; try discriminate; intros; exact I. Qed.

Lemma ch_frame st st' p : pc_ch st p -> bhead st = hd 0 (g_chain st) ->
  bhead st' = bhead st -> g_chain st' = g_chain st ->
  (forall y, In y (g_chain st) \/ pc_own p = Some y -> xnext st' y = xnext st y) -> pc_ch st' p.
Proof.
  intros H E0 E1 E2 E3.
  assert (Hc : forall y, In y (g_chain st) -> xnext st' y = xnext st y) by (intros y Hy; apply E3; left; exact Hy).
  assert (Hl : forall q x, link_ok st q x -> link_ok st' q x).
  { intros q x [H1|(H1 & H2 & H3)]; [left; rewrite E1; exact H1|right]. rewrite E2, Hc by exact H2. tauto. }
  destruct p; repeat match goal with i : itpos |- _ => destruct i end; cbn [pc_ch pc_own] in *; rewrite ?E1, ?E2; try exact H.
  all: try (intros Hx; specialize (H Hx)).
  all: repeat match goal with H0 : _ /\ _ |- _ => destruct H0 end.
  all: subst; rsplit; auto.
  all: try (rewrite E3 by (right; reflexivity); assumption).
  all: try (rewrite Hc by (first [assumption | apply hd_in; congruence]); auto; congruence).
Qed.

Lemma fr_frame st st' p : pc_fr st p -> xhead st' = xhead st ->
  (forall y, (y = xhead st /\ y <> 0) \/ pc_own p = Some y -> xnext st' y = xnext st y) -> pc_fr st' p.
Proof.
  intros H E1 E3. destruct p; repeat match goal with i : itpos |- _ => destruct i end; cbn [pc_fr pc_own] in *; rewrite ?E1; try exact H.
  all: repeat match goal with H0 : _ /\ _ |- _ => destruct H0 end.
  all: subst; rsplit; auto.
  all: try (rewrite E3 by (right; reflexivity); assumption).
  all: try (rewrite E3 by (left; tauto); reflexivity).
Qed.

Lemma Mem_init : Mem init.
Proof.
  constructor; cbn; try reflexivity; try (intros; discriminate); try tauto; try (intros; exact I).
  - constructor.
  - repeat constructor; cbn; intuition discriminate.
  - unfold item_ok. intros x H. repeat (destruct H as [<-|H]; [lia|]). destruct H.
Qed.

Lemma next_ne_self nx l x : NoDup l -> ~ In 0 l -> linksto nx l 0 -> In x l -> nx x <> x.
Proof.
  intros Hnd H0 HL Hx E. pose proof (from_next nx l x Hnd H0 HL Hx) as Hf. rewrite E in Hf.
  destruct (from_in x l Hx) as [r Hr]. rewrite Hr in Hf. cbn [tl] in Hf.
  assert (Hlen : length (x :: r) = length r) by (rewrite Hf at 1; reflexivity). cbn [length] in Hlen. lia.
Qed.

Section VhmItMem.
  Variable xoff : N.
  Notation step := (step xoff).

  Ltac split_t' t' :=
    intros t'; match goal with |- context [upd ?f ?t ?p t'] => destruct (upd_cases f t p t') as [[-> E]|[Hne E]]; rewrite E; clear E end.

  Lemma Mem_step_lists st a st' es : Lk st -> Mem st -> step st a = Some (st', es) ->
    bhead st' = hd 0 (g_chain st') /\ linksto (xnext st') (g_chain st') 0 /\ NoDup (g_chain st') /\
    (forall x, In x (g_chain st') -> item_ok x) /\
    xhead st' = hd 0 (g_free st') /\ linksto (xnext st') (g_free st') 0 /\ NoDup (g_free st') /\
    (forall x, In x (g_free st') -> item_ok x) /\
    (forall x, In x (g_chain st') -> In x (g_free st') -> False).
  Proof.
    intros HI HM H. step_inv H; st_simpl.
    all: try (split; [exact (M_chd _ HM)|split; [exact (M_clk _ HM)|split; [exact (M_cnd _ HM)|split; [exact (M_cok _ HM)|
              split; [exact (M_fhd _ HM)|split; [exact (M_flk _ HM)|split; [exact (M_fnd _ HM)|split; [exact (M_fok _ HM)|exact (M_disj _ HM)]]]]]]]]).
    all: pose proof (M_ch _ HM t) as Hch; rewrite Epc in Hch; cbn [pc_ch] in Hch.
    all: pose proof (M_fr _ HM t) as Hfr; rewrite Epc in Hfr; cbn [pc_fr] in Hfr.
    all: try (pose proof (M_own _ HM t) as Hown'; rewrite Epc in Hown'; cbn [pc_own] in Hown'; specialize (Hown' _ eq_refl)).
    all: pose proof (M_chd _ HM) as Hchd; pose proof (M_clk _ HM) as Hclk; pose proof (M_cnd _ HM) as Hcnd;
         pose proof (M_cok _ HM) as Hcok; pose proof (M_fhd _ HM) as Hfhd; pose proof (M_flk _ HM) as Hflk;
         pose proof (M_fnd _ HM) as Hfnd; pose proof (M_fok _ HM) as Hfok; pose proof (M_disj _ HM) as Hdj.
    - (* A6: pop *)
      destruct Hfr as (-> & Hnz & ->). destruct (g_free st) as [|n r] eqn:Ef; cbn [hd] in Hfhd; [congruence|].
      rewrite Hfhd in *. cbn [tl linksto] in *. destruct Hflk as [Hn Hflk]. inversion Hfnd; subst.
      rsplit; try assumption.
      + intros y Hy. apply Hfok. right. exact Hy.
      + intros y Hy Hy'. apply (Hdj y Hy). right. exact Hy'.
    - (* IXSN: store to the next field of the new item *)
      destruct Hown' as (Hok & Hnc & Hnf).
      rsplit; try assumption; (eapply linksto_ext; [|eassumption]); intros y Hy; apply setf_other; intros ->; contradiction.
    - (* IXSH: link the new item *)
      destruct Hown' as (Hok & Hnc & Hnf).
      rsplit; try assumption.
      + reflexivity.
      + cbn [linksto]. split; [rewrite Hch; exact Hchd | exact Hclk].
      + constructor; assumption.
      + intros y [<-|Hy]; [exact Hok | apply Hcok; exact Hy].
      + intros y [<-|Hy] Hy'; [contradiction | exact (Hdj y Hy Hy')].
    - (* XA8: unlink the head *)
      destruct Hch as (-> & Hnz & ->). destruct (g_chain st) as [|x rr] eqn:Ec; cbn [hd] in Hchd; [congruence|].
      rewrite Hchd in *. cbn [tl linksto] in *. destruct Hclk as [Hn Hclk]. inversion Hcnd; subst.
      rsplit; try assumption.
      + intros y Hy. apply Hcok. right. exact Hy.
      + intros y Hy Hy'. apply (Hdj y); [right; exact Hy | exact Hy'].
    - (* XXP, predecessor = head *)
      b2p. subst p. destruct Hch as (Hx & [(_ & Hl)|(Hc & _)] & ->); [|contradiction].
      destruct (g_chain st) as [|x' rr] eqn:Ec; [destruct Hx|]. cbn [hd] in Hchd. assert (x' = x) by congruence. subst x'.
      cbn [linksto] in Hclk. destruct Hclk as [Hn Hclk]. inversion Hcnd; subst.
      rewrite remx_hd by assumption.
      rsplit; try assumption.
      + intros y Hy. apply Hcok. right. exact Hy.
      + intros y Hy Hy'. apply (Hdj y); [right; exact Hy | exact Hy'].
    - (* XXP, predecessor = an item *)
      b2p. destruct Hch as (Hx & [(Hc & _)|(_ & Hp & Hl)] & ->); [contradiction|]. subst x.
      assert (H0 : ~ In 0 (g_chain st)) by (intros Hc; apply Hcok in Hc; unfold item_ok in Hc; lia).
      assert (Hnz : xnext st p <> 0) by (intros Hc; rewrite Hc in Hx; contradiction).
      destruct (unlink_mid (xnext st) (g_chain st) p Hcnd H0 Hclk Hp Hnz) as [U1 U2].
      rsplit; try assumption.
      + congruence.
      + apply NoDup_remx. exact Hcnd.
      + intros y Hy. apply in_remx in Hy. apply Hcok. tauto.
      + eapply linksto_ext; [|exact Hflk]. intros y Hy. apply setf_other. intros ->. exact (Hdj p Hp Hy).
      + intros y Hy Hy'. apply in_remx in Hy. apply (Hdj y); tauto.
    - (* F4: store to the next field of the item that is being freed *)
      destruct Hown' as (Hok & Hnc & Hnf).
      rsplit; try assumption; (eapply linksto_ext; [|eassumption]); intros y Hy; apply setf_other; intros ->; contradiction.
    - (* F5: push *)
      destruct Hown' as (Hok & Hnc & Hnf).
      rsplit; try assumption.
      + reflexivity.
      + cbn [linksto]. split; [rewrite Hfr; exact Hfhd | exact Hflk].
      + constructor; assumption.
      + intros y [<-|Hy]; [exact Hok | apply Hfok; exact Hy].
      + intros y Hy [<-|Hy']; [contradiction | exact (Hdj y Hy Hy')].
    - (* EX2, predecessor = head *)
      b2p. subst p. destruct Hch as (Hx & [(_ & Hl)|(Hc & _)] & ->); [|contradiction].
      destruct (g_chain st) as [|x' rr] eqn:Ec; [destruct Hx|]. cbn [hd] in Hchd. assert (x' = x) by congruence. subst x'.
      cbn [linksto] in Hclk. destruct Hclk as [Hn Hclk]. inversion Hcnd; subst.
      rewrite remx_hd by assumption.
      rsplit; try assumption.
      + intros y Hy. apply Hcok. right. exact Hy.
      + intros y Hy Hy'. apply (Hdj y); [right; exact Hy | exact Hy'].
    - (* EX2, predecessor = an item *)
      b2p. destruct Hch as (Hx & [(Hc & _)|(_ & Hp & Hl)] & ->); [contradiction|]. subst x.
      assert (H0 : ~ In 0 (g_chain st)) by (intros Hc; apply Hcok in Hc; unfold item_ok in Hc; lia).
      assert (Hnz : xnext st p <> 0) by (intros Hc; rewrite Hc in Hx; contradiction).
      destruct (unlink_mid (xnext st) (g_chain st) p Hcnd H0 Hclk Hp Hnz) as [U1 U2].
      rsplit; try assumption.
      + congruence.
      + apply NoDup_remx. exact Hcnd.
      + intros y Hy. apply in_remx in Hy. apply Hcok. tauto.
      + eapply linksto_ext; [|exact Hflk]. intros y Hy. apply setf_other. intros ->. exact (Hdj p Hp Hy).
      + intros y Hy Hy'. apply in_remx in Hy. apply (Hdj y); tauto.
    - (* EA8: unlink the head *)
      destruct Hch as (-> & Hnz & ->). destruct (g_chain st) as [|hh rr] eqn:Ec; cbn [hd] in Hchd; [congruence|].
      rewrite Hchd in *. cbn [tl linksto] in *. destruct Hclk as [Hn Hclk]. inversion Hcnd; subst.
      rsplit; try assumption.
      + intros y Hy. apply Hcok. right. exact Hy.
      + intros y Hy Hy'. apply (Hdj y); [right; exact Hy | exact Hy'].
    - (* IF4 *)
      destruct Hown' as (Hok & Hnc & Hnf).
      rsplit; try assumption; (eapply linksto_ext; [|eassumption]); intros y Hy; apply setf_other; intros ->; contradiction.
    - (* IF5 *)
      destruct Hown' as (Hok & Hnc & Hnf).
      rsplit; try assumption.
      + reflexivity.
      + cbn [linksto]. split; [rewrite Hfr; exact Hfhd | exact Hflk].
      + constructor; assumption.
      + intros y [<-|Hy]; [exact Hok | apply Hfok; exact Hy].
      + intros y Hy [<-|Hy']; [contradiction | exact (Hdj y Hy Hy')].
  Qed.

  Lemma Mem_step_own st a st' es : Lk st -> Mem st -> step st a = Some (st', es) ->
    forall t' x, pc_own (th st' t') = Some x -> item_ok x /\ ~ In x (g_chain st') /\ ~ In x (g_free st').
  Proof.
    intros HI HM H. step_inv H; st_simpl.
    all: split_t' t'.
    all: try exact (M_own _ HM t').
    all: cbn [pc_own]; try discriminate.
    all: try (intros y Hy; apply (M_own _ HM t); rewrite Epc; exact Hy).
    all: pose proof (M_ch _ HM t) as Hch; rewrite Epc in Hch; cbn [pc_ch] in Hch.
    all: pose proof (M_fr _ HM t) as Hfr; rewrite Epc in Hfr; cbn [pc_fr] in Hfr.
    all: try (pose proof (M_own _ HM t) as Hown'; rewrite Epc in Hown'; cbn [pc_own] in Hown'; specialize (Hown' _ eq_refl)).
    all: pose proof (M_chd _ HM) as Hchd; pose proof (M_clk _ HM) as Hclk; pose proof (M_cnd _ HM) as Hcnd;
         pose proof (M_cok _ HM) as Hcok; pose proof (M_fhd _ HM) as Hfhd; pose proof (M_flk _ HM) as Hflk;
         pose proof (M_fnd _ HM) as Hfnd; pose proof (M_fok _ HM) as Hfok; pose proof (M_disj _ HM) as Hdj.
    - (* A6 -> A7 *)
      intros y Hy. injection Hy as <-. destruct Hfr as (-> & Hnz & ->).
      destruct (g_free st) as [|n rr] eqn:Ef; cbn [hd] in Hfhd; [congruence|]. rewrite Hfhd in *. cbn [tl].
      inversion Hfnd; subst. rsplit; [apply Hfok; left; reflexivity | intros Hc; apply (Hdj _ Hc); left; reflexivity | assumption].
    - intros y Hy. destruct (M_own _ HM t' y Hy) as (H1 & H2 & H3). rsplit; try assumption.
      intros Hc. apply H3. destruct (g_free st); [exact Hc | right; exact Hc].
    - (* IXSH *)
      intros y Hy. destruct (M_own _ HM t' y Hy) as (H1 & H2 & H3). rsplit; try assumption.
      intros [<-|Hc]; [|contradiction]. apply (M_inj _ HM t t' n); [congruence | rewrite Epc; reflexivity | exact Hy].
    - (* XA8 -> XA9 *)
      intros y Hy. injection Hy as <-. destruct Hch as (-> & Hnz & ->).
      destruct (g_chain st) as [|x rr] eqn:Ec; cbn [hd] in Hchd; [congruence|]. rewrite Hchd in *. cbn [tl].
      inversion Hcnd; subst. rsplit; [apply Hcok; left; reflexivity | assumption | intros Hc; eapply Hdj; [left; reflexivity|exact Hc]].
    - intros y Hy. destruct (M_own _ HM t' y Hy) as (H1 & H2 & H3). rsplit; try assumption.
      intros Hc. apply H2. destruct (g_chain st); [exact Hc | right; exact Hc].
    - (* XXP -> XXU *)
      intros y Hy. injection Hy as <-. destruct Hch as (Hx & _).
      rsplit; [apply Hcok; exact Hx | rewrite in_remx; tauto | intros Hc; exact (Hdj x Hx Hc)].
    - intros y Hy. destruct (M_own _ HM t' y Hy) as (H1 & H2 & H3). rsplit; try assumption. rewrite in_remx. tauto.
    - intros y Hy. injection Hy as <-. destruct Hch as (Hx & _).
      rsplit; [apply Hcok; exact Hx | rewrite in_remx; tauto | intros Hc; exact (Hdj x Hx Hc)].
    - intros y Hy. destruct (M_own _ HM t' y Hy) as (H1 & H2 & H3). rsplit; try assumption. rewrite in_remx. tauto.
    - (* F5 *)
      intros y Hy. destruct (M_own _ HM t' y Hy) as (H1 & H2 & H3). rsplit; try assumption.
      intros [<-|Hc]; [|contradiction]. apply (M_inj _ HM t t' x); [congruence | rewrite Epc; reflexivity | exact Hy].
    - (* EX2 -> EX3 *)
      intros y Hy. injection Hy as <-. destruct Hch as (Hx & _).
      rsplit; [apply Hcok; exact Hx | rewrite in_remx; tauto | intros Hc; exact (Hdj x Hx Hc)].
    - intros y Hy. destruct (M_own _ HM t' y Hy) as (H1 & H2 & H3). rsplit; try assumption. rewrite in_remx. tauto.
    - intros y Hy. injection Hy as <-. destruct Hch as (Hx & _).
      rsplit; [apply Hcok; exact Hx | rewrite in_remx; tauto | intros Hc; exact (Hdj x Hx Hc)].
    - intros y Hy. destruct (M_own _ HM t' y Hy) as (H1 & H2 & H3). rsplit; try assumption. rewrite in_remx. tauto.
    - (* EA8 -> EA9 *)
      intros y Hy. injection Hy as <-. destruct Hch as (-> & Hnz & ->).
      destruct (g_chain st) as [|hh rr] eqn:Ec; cbn [hd] in Hchd; [congruence|]. rewrite Hchd in *. cbn [tl].
      inversion Hcnd; subst. rsplit; [apply Hcok; left; reflexivity | assumption | intros Hc; eapply Hdj; [left; reflexivity|exact Hc]].
    - intros y Hy. destruct (M_own _ HM t' y Hy) as (H1 & H2 & H3). rsplit; try assumption.
      intros Hc. apply H2. destruct (g_chain st); [exact Hc | right; exact Hc].
    - (* IF5 *)
      intros y Hy. destruct (M_own _ HM t' y Hy) as (H1 & H2 & H3). rsplit; try assumption.
      intros [<-|Hc]; [|contradiction]. apply (M_inj _ HM t t' fx); [congruence | rewrite Epc; reflexivity | exact Hy].
  Qed.

  Lemma Mem_step_inj st a st' es : Lk st -> Mem st -> step st a = Some (st', es) ->
    forall t1 t2 x, t1 <> t2 -> pc_own (th st' t1) = Some x -> pc_own (th st' t2) = Some x -> False.
  Proof.
    intros HI HM H. step_inv H; st_simpl.
    all: intros t1 t2 y Hne12.
    all: match goal with |- context [upd ?f ?t ?p _] =>
           destruct (upd_cases f t p t1) as [[Et1 E1]|[Hne1 E1]]; rewrite E1; clear E1;
           destruct (upd_cases f t p t2) as [[Et2 E2]|[Hne2 E2]]; rewrite E2; clear E2 end.
    all: try congruence.
    all: try exact (M_inj _ HM t1 t2 y Hne12).
    all: cbn [pc_own]; try discriminate.
    all: try (intros H1 H2; apply (M_inj _ HM t1 t2 y Hne12); [rewrite Et1, Epc; exact H1 | exact H2]).
    all: try (intros H1 H2; apply (M_inj _ HM t1 t2 y Hne12); [exact H1 | rewrite Et2, Epc; exact H2]).
    all: pose proof (M_ch _ HM t) as Hch; rewrite Epc in Hch; cbn [pc_ch] in Hch.
    all: pose proof (M_fr _ HM t) as Hfr; rewrite Epc in Hfr; cbn [pc_fr] in Hfr.
    all: pose proof (M_chd _ HM) as Hchd; pose proof (M_fhd _ HM) as Hfhd.
    all: intros H1 H2.
    all: try (injection H1 as <-; destruct (M_own _ HM _ _ H2) as (_ & Hc & Hf)).
    all: try (injection H2 as <-; destruct (M_own _ HM _ _ H1) as (_ & Hc & Hf)).
    all: try (destruct Hfr as (-> & Hnz & _); apply Hf; apply hd_in; [exact Hfhd | exact Hnz]).
    all: try (destruct Hch as (-> & Hnz & _); apply Hc; apply hd_in; [exact Hchd | exact Hnz]).
    all: try (destruct Hch as (Hx & _); contradiction).
  Qed.

  Lemma Mem_step_fl st a st' es : Lk st -> Mem st -> step st a = Some (st', es) ->
    (g_owner st' = None -> g_dup st' = false /\ g_limbo st' = 0) /\
    (forall t', g_owner st' = Some t' -> g_dup st' = pc_dup (th st' t') /\ g_limbo st' = pc_limbo (th st' t')).
  Proof.
    intros HI HM H. step_inv H; st_simpl.
    all: split; [|split_t' t'].
    all: try exact (M_fl0 _ HM); try exact (M_fl _ HM t').
    all: try discriminate.
    all: try (intros _; split; reflexivity).
    all: try (intros Ho; injection Ho as Ho; congruence).
    all: try (intros Ho; pose proof (M_fl _ HM t Ho) as Hf; rewrite Epc in Hf; cbn [pc_dup pc_limbo] in *; exact Hf).
    all: try (assert (Hown : g_owner st = Some t) by
               (apply (Lk_own _ HI); rewrite Epc; cbn [pc_bst];
                repeat match goal with E : ?c = _ |- context [if ?c then _ else _] => rewrite E end; discriminate)).
    all: try (intros Ho; congruence).
    all: try (pose proof (M_fl _ HM t Hown) as Hf; rewrite Epc in Hf; cbn [pc_dup pc_limbo] in *; intros _; tauto).
    all: try (intros Ho; pose proof (M_fl _ HM t Ho) as Hf; rewrite Epc in Hf; cbn [pc_dup pc_limbo] in *; tauto).
    all: intros _; cbn [pc_dup pc_limbo]; apply (M_fl0 _ HM).
    all: pose proof (Lk_bit _ HI) as Hbit; pose proof (Lk_wf _ HI t) as Hwf; rewrite Epc in Hwf; cbn [pc_wf] in Hwf.
    all: b2p; match goal with E : bst _ = ?x |- _ => subst x end; destruct (g_owner st); [intuition congruence | reflexivity].
  Qed.

  Lemma Mem_step_ch st a st' es : Lk st -> Mem st -> step st a = Some (st', es) -> forall t', pc_ch st' (th st' t').
  Proof.
    intros HI HM H. step_inv H; st_simpl.
    all: split_t' t'.
    all: try exact I.
    (* another thread *)
    all: try (destruct (pc_bst (th st t')) eqn:Eb; [|apply ch_unlocked; exact Eb];
              assert (Ho' : g_owner st = Some t') by (apply (Lk_own _ HI); rewrite Eb; discriminate);
              first [ assert (Hown : g_owner st = Some t) by (apply (Lk_own _ HI); rewrite Epc; discriminate); congruence
                    | apply (ch_frame st); [exact (M_ch _ HM t') | exact (M_chd _ HM) | reflexivity | reflexivity |]; st_simpl;
                      try (intros; reflexivity) ]).
    all: pose proof (M_ch _ HM t) as Hch; rewrite Epc in Hch; cbn [pc_ch] in Hch.
    all: pose proof (M_chd _ HM) as Hchd; pose proof (M_clk _ HM) as Hclk; pose proof (M_cnd _ HM) as Hcnd;
         pose proof (M_cok _ HM) as Hcok.
    all: assert (H0 : ~ In 0 (g_chain st)) by (intros Hc; apply Hcok in Hc; unfold item_ok in Hc; lia).
    all: cbn [pc_ch]; unfold link_ok in *; st_simpl; b2p.
    all: try tauto.
    all: try (apply hd_in; assumption).
    all: try (apply linksto_next_in; assumption).
    all: pose proof (Lk_wf _ HI t) as Hwf; rewrite Epc in Hwf; cbn [pc_wf it_wf it_elem] in Hwf.
    all: try solve [intros Hx; exfalso; tauto].
    - rewrite setf_same. exact Hch.
    - split; [apply hd_in; assumption | left; split; reflexivity].
    - split; [apply linksto_next_in; assumption | right].
      assert (x <> 0) by (intros ->; tauto). tauto.
    - (* F4 by another thread while t' holds the bucket lock *)
      intros y Hy. apply setf_other. intros ->.
      pose proof (M_own _ HM t x) as Hx. rewrite Epc in Hx. destruct (Hx eq_refl) as (_ & Hxc & _).
      destruct Hy as [Hy|Hy]; [contradiction|].
      apply (M_inj _ HM t t' x); [congruence | rewrite Epc; reflexivity | exact Hy].
    - (* FH *) split; [apply hd_in; assumption | left; split; reflexivity].
    - (* FXN *) split; [apply linksto_next_in; assumption | right].
      assert (x <> 0) by (intros ->; tauto). tauto.
    - (* N1 *) intros Hnz. destruct Hwf as [_ Hx]. destruct (Hch Hx) as [Hxc _].
      split; [apply linksto_next_in; assumption | right; tauto].
    - (* N2 *) intros Hnz. split; [apply hd_in; assumption | left; split; reflexivity].
    - (* EX1 *) destruct Hwf as [_ Hx]. destruct (Hch Hx) as [Hxc Hl]. tauto.
    - (* EX2, head *) intros Hnz. subst p. destruct Hch as (Hx & _ & ->).
      assert (Hne : xnext st x <> x) by (apply (next_ne_self (xnext st) (g_chain st)); assumption).
      split; [apply in_remx; split; [apply linksto_next_in; assumption | exact Hne] | left; split; reflexivity].
    - (* EX2, item *) intros Hnz. destruct Hch as (Hx & [(Hc & _)|(_ & Hp & Hpx)] & ->); [contradiction|].
      assert (Hne : xnext st x <> x) by (apply (next_ne_self (xnext st) (g_chain st)); assumption).
      assert (Hxp : p <> x) by (intros ->; apply Hne; exact Hpx).
      split; [apply in_remx; split; [apply linksto_next_in; assumption | exact Hne] | right].
      rewrite setf_same. rsplit; [assumption | apply in_remx; tauto | reflexivity].
    - (* EB7 *) intros Hnz. split; [apply hd_in; assumption | left; split; reflexivity].
    - (* IF4 by the lock holder *) intros Hx. destruct (Hch Hx) as [Hxc [Hl|(Hp & Hpc & Hpx)]]; (split; [exact Hxc|]); [left; exact Hl | right].
      pose proof (M_own _ HM t fx) as Ho. rewrite Epc in Ho. destruct (Ho eq_refl) as (_ & Hfc & _).
      rewrite setf_other by (intros ->; contradiction). tauto.
  Qed.

  Lemma Mem_step_fr st a st' es : Lk st -> Mem st -> step st a = Some (st', es) -> forall t', pc_fr st' (th st' t').
  Proof.
    intros HI HM H. step_inv H; st_simpl.
    all: split_t' t'.
    all: try exact I.
    (* another thread *)
    all: try (destruct (xlocked_pc (th st t')) eqn:Eb; [|apply fr_unlocked; exact Eb];
              assert (Ho' : g_xowner st = Some t') by (apply (Lk_xown _ HI); exact Eb);
              first [ assert (Hown : g_xowner st = Some t) by (apply (Lk_xown _ HI); rewrite Epc; reflexivity); congruence
                    | apply (fr_frame st); [exact (M_fr _ HM t') | reflexivity |]; st_simpl;
                      try (intros; reflexivity) ]).
    all: pose proof (M_fr _ HM t) as Hfr; rewrite Epc in Hfr; cbn [pc_fr] in Hfr.
    all: pose proof (M_fhd _ HM) as Hfhd.
    all: cbn [pc_fr]; st_simpl; b2p.
    - tauto.
    - tauto.
    - intros y Hy. apply setf_other. intros ->.
      pose proof (M_own _ HM t n) as Hx. rewrite Epc in Hx. destruct (Hx eq_refl) as (_ & _ & Hxf).
      destruct Hy as [[Hy Hnz]|Hy]; [apply Hxf; apply hd_in; congruence|].
      apply (M_inj _ HM t t' n); [congruence | rewrite Epc; reflexivity | exact Hy].
    - intros y Hy. apply setf_other. intros ->.
      pose proof (M_ch _ HM t) as Hch. rewrite Epc in Hch. cbn [pc_ch] in Hch. destruct Hch as (_ & [(Hc & _)|(_ & Hp & _)] & _); [contradiction|].
      destruct Hy as [[Hy Hnz]|Hy]; [apply (M_disj _ HM p Hp); apply hd_in; congruence|].
      destruct (M_own _ HM t' p Hy) as (_ & Hc & _). contradiction.
    - reflexivity.
    - rewrite setf_same. exact Hfr.
    - (* EX2 *) intros y Hy. apply setf_other. intros ->.
      pose proof (M_ch _ HM t) as Hch. rewrite Epc in Hch. cbn [pc_ch] in Hch. destruct Hch as (_ & [(Hc & _)|(_ & Hp & _)] & _); [contradiction|].
      destruct Hy as [[Hy Hnz]|Hy]; [apply (M_disj _ HM p Hp); apply hd_in; congruence|].
      destruct (M_own _ HM t' p Hy) as (_ & Hc & _). contradiction.
    - reflexivity.
    - rewrite setf_same. exact Hfr.
  Qed.

  Lemma Mem_step st a st' es : Lk st -> Mem st -> step st a = Some (st', es) -> Mem st'.
  Proof.
    intros HI HM H.
    destruct (Mem_step_lists _ _ _ _ HI HM H) as (H1 & H2 & H3 & H4 & H5 & H6 & H7 & H8 & H9).
    destruct (Mem_step_fl _ _ _ _ HI HM H) as (H10 & H11).
    constructor; try assumption.
    - exact (Mem_step_own _ _ _ _ HI HM H).
    - exact (Mem_step_inj _ _ _ _ HI HM H).
    - exact (Mem_step_ch _ _ _ _ HI HM H).
    - exact (Mem_step_fr _ _ _ _ HI HM H).
  Qed.

  Theorem Mem_reach st : reach init step st -> Mem st.
  Proof.
    apply (inv_rule_aux _ _ _ init step Lk Mem).
    - apply Lk_reach.
    - exact Mem_init.
    - intros s a s' es HJ _ HM Hs. exact (Mem_step _ _ _ _ HJ HM Hs).
  Qed.
End VhmItMem.
