(** kirsch_kfifo_queue (C06 / C07 / C02, unbounded), invariant layer 4 (ownership of the segments): the chain
    has no duplicates; the retired segments are exactly the linked segments head_ has left, each retired once;
    a segment released by its allocator (lost link CAS) was never linked and belongs to nobody.
    No axioms, no admits. *)
From Coq Require Import NArith List Bool Lia PeanoNat ZifyBool ZifyNat ZifyN.
From XV Require Import Base.Word Conc.Lts Conc.Ev Model.KfqDefs.
From XV Require Import Proof.KfqWf Proof.KfqOwn.
Import ListNotations.
Local Open Scope N_scope.

Set Default Proof Using "All".
Section L4.
  Variable k : N.
  Hypothesis Hk : 1 <= k.
  Notation step := (step k).
  Notation InvA := (InvA k).

  Record InvR (st : state) : Prop := {
    r_nd : NoDup (g_segs st);
    r_ret : forall x, In x (g_retired st) <-> linked st x /\ x < fst (head st);
    r_rnd : NoDup (g_retired st);
    r_fr : forall x, In x (g_freed st) -> ~ linked st x /\ 2 <= x < nalloc st /\ forall t, aseg (th st t) <> Some x;
    r_fnd : NoDup (g_freed st) }.

  Lemma InvR_init : InvR init.
  Proof.
    constructor; cbn [init g_segs g_retired g_freed head fst].
    - constructor; [intros []|constructor].
    - intros x. unfold linked. cbn. split; [intros []|]. intros [[<-|[]] H]. lia.
    - constructor.
    - intros x [].
    - constructor.
  Qed.

  Lemma InvR_local s s' t p' :
    InvR s -> g_segs s' = g_segs s -> g_retired s' = g_retired s -> g_freed s' = g_freed s ->
    fst (head s') = fst (head s) -> nalloc s <= nalloc s' -> th s' = upd (th s) t p' ->
    (aseg p' = None \/ aseg p' = aseg (th s t) \/ aseg p' = Some (nalloc s)) -> InvR s'.
  Proof.
    intros I E1 E2 E3 E4 E5 Et Ha. destruct I. constructor; unfold linked in *; rewrite ?E1, ?E2, ?E3, ?E4; try assumption.
    intros x Hx. destruct (r_fr0 x Hx) as (A & B & C). split; [exact A|]. split; [lia|].
    intros t0. rewrite Et. unfold upd. destruct (Nat.eqb_spec t0 t) as [->|]; [|apply C].
    destruct Ha as [Ha|[Ha|Ha]]; rewrite Ha; [discriminate|apply C|]. intros Q. inversion Q. lia.
  Qed.

  Lemma InvR_step s a s' es : InvA s -> InvR s -> step s a = Some (s', es) -> InvR s'.
  Proof.
    intros IA I Hst. unfold KfqDefs.step in Hst. destruct a as [t o|t r].
    - destruct (th s t) eqn:E; try discriminate. inversion Hst; subst; clear Hst.
      eapply (InvR_local _ _ t _ I); sim; try reflexivity; try lia. left; reflexivity.
    - pose proof (a_th k s IA t) as Hme.
      destruct (th s t) eqn:E; try discriminate; try (match goal with o : op |- _ => destruct o end);
        cbn [TA] in Hme; brk Hst; inversion Hst; subst; clear Hst.
      all: try (eapply (InvR_local _ _ t _ I); sim; try reflexivity; try lia; rewrite ?E; cbn [aseg]; rewrite ?(aseg_kpc k Hk); auto; fail).
      + (* A4 link *) destruct Hme as ((Lx & Tl) & B & C & D & F).
        assert (Hx : fst tl = glast s).
        { destruct (N.eq_dec (fst tl) (glast s)) as [Q|Q]; [exact Q|]. destruct (a_succ k s IA (fst tl) Lx Q) as (n0 & Q1 & _). rewrite C in Q1. inversion Q1. }
        pose proof (a_max k s IA _ (a_head k s IA)) as Hhl.
        assert (Hnl : ~ linked s n) by (apply (a_fresh k s IA t); rewrite E; reflexivity).
        destruct I. constructor; unfold linked in *; sim.
        * apply NoDup_snoc; assumption.
        * intros x. rewrite r_ret0, in_app_iff. cbn. split; [intros [A1 A2]; auto|]. intros [[A1|[<-|[]]] A2]; [auto|lia].
        * assumption.
        * intros x Hx0. destruct (r_fr0 x Hx0) as (A1 & A2 & A3). split; [|split; [exact A2|]].
          -- rewrite in_app_iff. cbn. intros [Q|[<-|[]]]; [contradiction|]. apply (A3 t). rewrite E. reflexivity.
          -- intros t0. unfold upd. destruct (Nat.eqb_spec t0 t) as [->|]; [cbn; discriminate|apply A3].
        * assumption.
      + (* A4 release *) destruct Hme as ((Lx & Tl) & B & C & D & F).
        assert (Hnl : ~ linked s n) by (apply (a_fresh k s IA t); rewrite E; reflexivity).
        destruct I. constructor; unfold linked in *; sim; try assumption.
        * intros x. rewrite in_app_iff. cbn. intros [Hx0|[<-|[]]].
          -- destruct (r_fr0 x Hx0) as (A1 & A2 & A3). split; [exact A1|split; [exact A2|]].
             intros t0. unfold upd. destruct (Nat.eqb_spec t0 t) as [->|]; [rewrite (aseg_kpc k Hk); discriminate|apply A3].
          -- split; [exact Hnl|]. split; [pose proof (a_lt k s IA _ Lx); lia|]. intros t0. unfold upd.
             destruct (Nat.eqb_spec t0 t) as [->|Hne]; [rewrite (aseg_kpc k Hk); discriminate|].
             intros Q. apply Hne. apply (a_own k s IA t0 t n Q). rewrite E. reflexivity.
        * apply NoDup_snoc; [assumption|]. intros Q. destruct (r_fr0 n Q) as (_ & _ & A3). apply (A3 t). rewrite E. reflexivity.
      + (* H7 *) destruct Hme as ((A & B & C & D & D') & F).
        pose proof (tail_le_last k Hk s IA) as Htl.
        destruct (a_succ k s IA (fst (head s)) A ltac:(lia)) as (n & Q & Ln & Hlt & Hmin).
        rewrite Q in D. subst hn. destruct I. constructor; unfold linked in *; sim; try assumption.
        * intros x. rewrite in_app_iff, r_ret0. cbn. split.
          -- intros [[A1 A2]|[<-|[]]]; [split; [exact A1|lia]|split; [exact A|exact Hlt]].
          -- intros [A1 A2]. destruct (N.lt_ge_cases (fst (head s)) x) as [W|W]; [specialize (Hmin x A1 W); lia|].
             destruct (N.eq_dec x (fst (head s))) as [->|Hne]; [right; left; reflexivity|left; split; [exact A1|lia]].
        * apply NoDup_snoc; [assumption|]. rewrite r_ret0. intros [_ W]. lia.
        * intros x Hx0. destruct (r_fr0 x Hx0) as (A1 & A2 & A3). split; [exact A1|split; [exact A2|]].
          intros t0. unfold upd. destruct (Nat.eqb_spec t0 t) as [->|]; [cbn; discriminate|apply A3].
  Qed.

  Theorem InvR_reach st : reach init step st -> InvR st.
  Proof.
    apply (inv_rule_aux _ _ _ init step InvA InvR).
    - apply InvA_reach; assumption.
    - exact InvR_init.
    - intros s a s' es J _ I Hst. eapply InvR_step; eauto.
  Qed.
End L4.
