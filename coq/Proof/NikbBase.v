(** nikolaev_bounded_queue model: simplification tactics, function-update lemmas, the case analysis of
    the two loop bodies ([dq_eval], [en_eval]) and monotonicity of the no-wrap flag. *)
From Coq Require Import NArith List Bool Lia PeanoNat.
From XV Require Import Base.Word Conc.Lts Conc.Ev gen.ScqGen Model.NikbDefs Proof.NikbArith.
Import ListNotations.
Local Open Scope N_scope.

Ltac sim := cbn [rgs store th g_own g_in g_out g_ok g_ret g_ebusy g_dbusy g_ovf rhead rthr rtail rdata g_eq g_dq
                 w_rg w_store w_th w_own w_in w_out w_ok w_ret w_ebusy w_dbusy w_ovf
                 r_head r_thr r_tail r_data r_eq r_dq rid_eqb other fst snd] in *.
Ltac simg := cbn [rgs store th g_own g_in g_out g_ok g_ret g_ebusy g_dbusy g_ovf rhead rthr rtail rdata g_eq g_dq
                 w_rg w_store w_th w_own w_in w_out w_ok w_ret w_ebusy w_dbusy w_ovf
                 r_head r_thr r_tail r_data r_eq r_dq rid_eqb other fst snd].

(** split syntactic conjunctions only (no unfolding) *)
Ltac ssplit := repeat match goal with |- _ /\ _ => split end.

Lemma setf_same {X} (f : N -> X) i v : setf f i v i = v.
Proof. unfold setf. rewrite N.eqb_refl. reflexivity. Qed.
Lemma setf_other {X} (f : N -> X) i v j : j <> i -> setf f i v j = f j.
Proof. unfold setf. intros H. destruct (N.eqb_spec j i); [contradiction|reflexivity]. Qed.

Lemma rid_eqb_spec a b : reflect (a = b) (rid_eqb a b).
Proof. destruct a, b; cbn; constructor; congruence. Qed.
Lemma rid_eqb_refl a : rid_eqb a a = true. Proof. destruct a; reflexivity. Qed.
Lemma other_neq q : other q <> q. Proof. destruct q; discriminate. Qed.
Lemma other_other q : other (other q) = q. Proof. destruct q; reflexivity. Qed.
Lemma neq_other q q' : q' <> q -> q' = other q. Proof. destruct q, q'; intros H; try reflexivity; exfalso; apply H; reflexivity. Qed.

Definition idle (s : state) (t : nat) : bool := match th s t with Idle => true | _ => false end.

Section Base.
  Variable cap R : N.

  (** the outcomes of the do-loop body of dequeue for an entry e *)
  Lemma dq_eval_cases q x hd att e :
    (cyc cap e =? cyc cap hd) = true /\ dq_eval cap q x hd att e = D3 q x hd e \/
    (cyc cap e =? cyc cap hd) = false /\
      ((N.lor e (nn cap) =? cyc cap e) = false /\
         ((e =? N.ldiff e (nn cap)) = true /\ dq_eval cap q x hd att e = D6 q x hd \/
          (e =? N.ldiff e (nn cap)) = false /\
             (lt0 (diff (cyc cap e) (cyc cap hd)) = true /\ dq_eval cap q x hd att e = D5 q x hd att e (N.ldiff e (nn cap)) \/
              lt0 (diff (cyc cap e) (cyc cap hd)) = false /\ dq_eval cap q x hd att e = D6 q x hd)) \/
       (N.lor e (nn cap) =? cyc cap e) = true /\ dq_eval cap q x hd att e = D4 q x hd att e).
  Proof.
    unfold dq_eval. destruct (cyc cap e =? cyc cap hd); [left; split; reflexivity|right; split; [reflexivity|]].
    destruct (N.lor e (nn cap) =? cyc cap e); cbn [negb]; [right; split; reflexivity|left; split; [reflexivity|]].
    destruct (e =? N.ldiff e (nn cap)); [left; split; reflexivity|right; split; [reflexivity|]].
    destruct (lt0 (diff (cyc cap e) (cyc cap hd))); [left|right]; split; reflexivity.
  Qed.

  Lemma en_eval_cases q x idx gk tl e :
    lt0 (diff (cyc cap e) (cyc cap tl)) = true /\ (e =? cyc cap e) = true /\ en_eval cap q x idx gk tl e = E4 q x idx gk tl e \/
    lt0 (diff (cyc cap e) (cyc cap tl)) = true /\ (e =? cyc cap e) = false /\ (e =? N.lxor (cyc cap e) (nn cap)) = true /\
       en_eval cap q x idx gk tl e = E3 q x idx gk tl e \/
    en_eval cap q x idx gk tl e = E1 q x idx gk.
  Proof.
    unfold en_eval. destruct (lt0 (diff (cyc cap e) (cyc cap tl))); [|right; right; reflexivity].
    destruct (e =? cyc cap e); [left; repeat split; reflexivity|].
    destruct (e =? N.lxor (cyc cap e) (nn cap)); [right; left; repeat split; reflexivity|right; right; reflexivity].
  Qed.

  Lemma orb_false_2 a b : a || b = false -> a = false /\ b = false.
  Proof. destruct a, b; cbn; intros; try discriminate; split; reflexivity. Qed.

  Lemma mark_left_ovf st q hd p : g_ovf (mark_left st q hd p) = g_ovf st.
  Proof. unfold mark_left. destruct (leaves p); reflexivity. Qed.

  Lemma mark_skip_ovf st q tl p : g_ovf (mark_skip st q tl p) = g_ovf st.
  Proof. unfold mark_skip. destruct (skips p); reflexivity. Qed.

  Lemma ovf_sticky s a s' es : step cap R s a = Some (s', es) -> g_ovf s' = false -> g_ovf s = false.
  Proof.
    unfold step, step_gen. destruct a as [t o|t].
    - destruct (th s t); try discriminate. intros H; inversion H; subst. sim. auto.
    - destruct (th s t) as [|[v|tp]|q x|q x|q x hd att|q x hd e|q x hd att e|q x hd att e enew|q x hd|q x|q x tl hd|q x tl|q x
                           |q x idx gk|q x idx gk tl|q x idx gk tl e|q x idx gk tl e|q x idx gk|q x idx gk]; try discriminate.
      all: repeat match goal with |- context [if ?c then _ else _] => destruct c end.
      all: try destruct q.
      all: intros H; inversion H; subst; clear H; sim; rewrite ?mark_left_ovf, ?mark_skip_ovf; intros Ho; try exact Ho.
      all: apply orb_false_2 in Ho; tauto.
  Qed.
End Base.
