(** The memory orders GENERATED from xenium/vyukov_bounded_queue.hpp (gen/VyukovOrders.v, tools/vyukovorders.py)
    satisfy the side condition of the weak-memory theorems of WM/VyukovWMProof.v; the theorems instantiated
    with them. *)
From Coq Require Import Arith NArith List Bool.
From XV Require Import WM.View WM.VyukovWM WM.VyukovWMProof gen.VyukovOrders.

Lemma gen_orders_ok : orders_ok gen_orders = true.
Proof. vm_compute; reflexivity. Qed.

(** the generated record is the one written down by hand in the model *)
Lemma gen_orders_xenium : gen_orders = xenium_orders.
Proof. reflexivity. Qed.

Definition source_weak_correct cap (Hc : 2 <= cap) := vyukov_weak_correct cap gen_orders Hc gen_orders_ok.
Definition source_pop_reads_push cap (Hc : 2 <= cap) s t pos m :=
  vyukov_pop_reads_push_wm cap Hc gen_orders s t pos m gen_orders_ok.
Definition source_histories cap (Hc : 2 <= cap) s := vyukov_histories_wm cap Hc gen_orders s gen_orders_ok.
Definition source_race_free cap (Hc : 2 <= cap) s := vyukov_race_free_wm cap Hc gen_orders s gen_orders_ok.
Definition source_fail_justified cap (Hc : 2 <= cap) s :=
  vyukov_fail_justified_wm cap Hc gen_orders s gen_orders_ok.
