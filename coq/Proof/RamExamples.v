(** Ramalhete queue model: executable examples (run + vm_compute) and the refuted readings. *)
From Coq Require Import NArith List Bool Lia PeanoNat.
From XV Require Import Base.Word Conc.Lts Conc.Ev Conc.Solo gen.RamalheteNodeGen Model.RamDefs
  Proof.RamBase Proof.RamTickets Proof.RamCons Proof.RamInv Proof.RamSolo.
Import ListNotations.
Local Open Scope N_scope.

Definition steps (t : nat) (n : nat) : list action := repeat (Step t) n.
Definition end_of (E R : N) (acts : list action) : state := fst (fst (run (step E R) init acts)).

(** * The order of the entry CASes is not the order in which the values leave.
    E = 2: pusher 1 takes ticket 0 and stops, pusher 2 takes ticket 1, stores its value and returns,
    then pusher 1 stores its value; a pop returns the value of ticket 0 = the value stored LAST.
    (Both pushes overlap, so ticket order is a legal linearization; CAS order is not one.) *)
Definition cas_order_acts : list action :=
  [Start 1%nat (OPush 10)] ++ steps 1 3 ++ [Start 2%nat (OPush 20)] ++ steps 2 4 ++ steps 1 1 ++
  [Start 3%nat OPop] ++ steps 3 7.

Example cas_order_run :
  let st := end_of 2 0 cas_order_acts in
  g_ovf st = false /\ g_pushed st = [3; 2] /\ g_popped st = [2] /\ tokv st 2 = 10 /\ tokv st 3 = 20 /\
  g_ptk st = [(1, 0); (1, 1)] /\ g_dtk st = [(1, 0)] /\ pushed_seq 2 st = [2; 3] /\ contents 2 st = [3] /\
  (forall t, In t [1; 2; 3]%nat -> th st t = Idle).
Proof. vm_compute. repeat split; try reflexivity. intros t [<-|[<-|[<-|[]]]]; reflexivity. Qed.

Lemma ram_cas_order_refuted :
  ~ (forall st, reach init (step 2 0) st -> g_ovf st = false -> exists r, g_pushed st = g_popped st ++ r).
Proof.
  intros H. destruct (H (end_of 2 0 cas_order_acts) (run_reach _ _ _ _ _ _)) as [r Hr]; [vm_compute; reflexivity|].
  vm_compute in Hr. discriminate Hr.
Qed.

(** * 'empty' while a filled, unconsumed ticket exists during the whole call.
    E = 1: pusher 1 takes ticket 0; popper 2 claims ticket 0 and stops before reading it; pusher 1
    stores its value; popper 3 runs its whole pop alone: pop_idx = push_idx and next = null: 'empty',
    although ticket 0 is filled and not consumed in every state of the call.  The value belongs to
    popper 2 (which later returns it): the call of 3 overlaps the call of 2, which is linearized first. *)
Definition naive_prefix : list action :=
  [Start 1%nat (OPush 10)] ++ steps 1 3 ++ [Start 2%nat OPop] ++ steps 2 5 ++ steps 1 1.
Definition naive_call : list action := [Start 3%nat OPop] ++ steps 3 5.

Fixpoint states_along (E R : N) (s : state) (acts : list action) : list state :=
  s :: match acts with
       | [] => []
       | a :: r => match step E R s a with Some (s', _) => states_along E R s' r | None => states_along E R s r end
       end.

Lemma ram_empty_naive_refuted :
  let s1 := end_of 1 0 naive_prefix in
  let r := run (step 1 0) s1 naive_call in
  reach init (step 1 0) s1 /\ th s1 3%nat = Idle /\
  snd r = 0%nat /\ In (ERet 3%nat [0]) (snd (fst r)) /\ th (fst (fst r)) 3%nat = Idle /\ g_ovf (fst (fst r)) = false /\
  (forall s, In s (states_along 1 0 s1 naive_call) -> g_fate s 1 0 = FFilled 2 /\ contents 1 s <> []) /\
  (* the claimant finishes afterwards and returns the value *)
  In (ERet 2%nat [1; 10]) (snd (fst (run (step 1 0) (fst (fst r)) (steps 2 2)))).
Proof.
  cbv zeta. split; [apply run_reach|]. split; [vm_compute; reflexivity|]. split; [vm_compute; reflexivity|].
  split; [vm_compute; tauto|]. split; [vm_compute; reflexivity|]. split; [vm_compute; reflexivity|]. split.
  - assert (H : forallb (fun s => match g_fate s 1 0, contents 1 s with FFilled 2, _ :: _ => true | _, _ => false end)
                        (states_along 1 0 (end_of 1 0 naive_prefix) naive_call) = true) by (vm_compute; reflexivity).
    intros s Hs. pose proof (proj1 (forallb_forall _ _) H s Hs) as Hx. cbv beta in Hx.
    destruct (g_fate s 1 0) as [|b| |b]; try discriminate Hx.
    destruct b as [|p]; try discriminate Hx. destruct p as [p|p|]; try discriminate Hx. destruct p; try discriminate Hx.
    destruct (contents 1 s); [discriminate Hx|]. split; [reflexivity|discriminate].
  - vm_compute. tauto.
Qed.

(** * A popper overtakes a pusher: the ticket is poisoned, the pusher moves on (here: into a new node) *)
Definition poison_acts : list action :=
  [Start 1%nat (OPush 10)] ++ steps 1 3 ++ [Start 2%nat OPop] ++ steps 2 7 ++ steps 1 1.

Example poison_run :
  let st := end_of 1 0 poison_acts in
  g_ovf st = false /\ g_fate st 1 0 = FPoisoned /\ ent st 1 0 = CTaken /\ th st 1%nat = P1 2 /\ th st 2%nat = D1 /\
  g_pushed st = [] /\ g_ptk st = [(1, 0)] /\ g_dtk st = [(1, 0)].
Proof. vm_compute. repeat split; reflexivity. Qed.

Example poison_run_end :
  let st := end_of 1 0 (poison_acts ++ steps 1 7 ++ steps 2 4 ++ [Start 2%nat OPop] ++ steps 2 14) in
  g_ovf st = false /\ g_nodes st = [1; 3] /\ g_retired st = [1] /\ head st = 3 /\ tail st = 3 /\
  g_fate st 3 0 = FConsumed 2 /\ g_pushed st = [2] /\ g_popped st = [2] /\ contents 1 st = [] /\
  g_ptk st = [(1, 0); (3, 0)] /\ g_dtk st = [(1, 0); (3, 0)] /\ th st 1%nat = Idle /\ th st 2%nat = Idle.
Proof. vm_compute. repeat split; reflexivity. Qed.

(** * Two pushers race to link a node (E = 1): the loser resets push_idx of its node, deletes it, moves on *)
Definition link_race_acts : list action :=
  [Start 1%nat (OPush 10)] ++ steps 1 4 ++                      (* 10 in the initial node *)
  [Start 2%nat (OPush 20)] ++ steps 2 6 ++                      (* node 4 allocated and filled, before the link CAS *)
  [Start 3%nat (OPush 30)] ++ steps 3 8 ++                      (* node 6 linked, push 30 done *)
  steps 2 1.                                                    (* link CAS of 2 fails *)

Example link_race_run :
  let st := end_of 1 0 link_race_acts in
  g_ovf st = false /\ th st 2%nat = P6a 3 4 /\ g_nodes st = [1; 6] /\ g_pushed st = [2; 5] /\ nnext st 1 = 6 /\ tail st = 6.
Proof. vm_compute. repeat split; reflexivity. Qed.

Example link_race_end :
  let st := end_of 1 0 (link_race_acts ++ steps 2 11) in
  g_ovf st = false /\ th st 2%nat = Idle /\ g_nodes st = [1; 6; 7] /\ g_pushed st = [2; 5; 3] /\
  contents 1 st = [2; 5; 3] /\ pushi st 4 = 0.
Proof. vm_compute. repeat split; reflexivity. Qed.

(** * head would overtake tail (E = 1): pusher 2 links a node and stops before its tail CAS; a popper drains
    the old node and hands over to the next one.  With the tail CAS (16) in pop the popper first swings
    _tail off the old node, then advances head and retires the old node: _tail never points to a retired
    node ([ram_tail_not_retired]); the stopped pusher's own tail CAS will fail. *)
Definition tail_retired_acts : list action :=
  [Start 1%nat (OPush 10)] ++ steps 1 4 ++ [Start 2%nat (OPush 20)] ++ steps 2 7 ++
  [Start 3%nat OPop] ++ steps 3 8 ++ [Start 3%nat OPop] ++ steps 3 7.

Example tail_swung_by_pop_run :
  let st := end_of 1 0 (tail_retired_acts ++ steps 3 1) in
  g_ovf st = false /\ th st 2%nat = P7 1 4 /\ g_nodes st = [1; 4] /\ g_retired st = [1] /\ head st = 4 /\ tail st = 4 /\
  g_popped st = [2] /\ contents 1 st = [3].
Proof. vm_compute. repeat split; reflexivity. Qed.

Lemma tail_swung_by_pop_example :
  let st := end_of 1 0 (tail_retired_acts ++ steps 3 1) in
  reach init (step 1 0) st /\
  g_ovf st = false /\ th st 2%nat = P7 1 4 /\ g_nodes st = [1; 4] /\ g_retired st = [1] /\ head st = 4 /\ tail st = 4.
Proof. split; [apply run_reach|]. pose proof tail_swung_by_pop_run as H. cbv zeta in H. tauto. Qed.

(** the code BEFORE the repair ([step_gen E R true]: no tail CAS in pop): on the same schedule the old node is
    retired while _tail still points to it (in the real code with hazard_eras a later push reaches the
    reclaimed node through _tail) *)
Definition end_of_old (E R : N) (acts : list action) : state := fst (fst (run (step_gen E R true) init acts)).

Example tail_retired_run_old :
  let st := end_of_old 1 0 tail_retired_acts in
  g_ovf st = false /\ th st 2%nat = P7 1 4 /\ g_nodes st = [1; 4] /\ g_retired st = [1] /\ head st = 4 /\ tail st = 1 /\
  g_popped st = [2] /\ contents 1 st = [3].
Proof. vm_compute. repeat split; reflexivity. Qed.

Lemma ram_tail_not_retired_old_refuted :
  ~ (forall st, reach init (step_gen 1 0 true) st -> forall n, In n (g_retired st) -> tail st <> n).
Proof.
  intros H. apply (H (end_of_old 1 0 tail_retired_acts) (run_reach _ _ _ _ _ _) 1); vm_compute; [left|]; reflexivity.
Qed.

(** * Solo runs *)
Example solo_push_fresh : exists s, solo_run (step 2 1) Step idle 1 100 0 (end_of 2 1 [Start 1%nat (OPush 7)]) = Done s 4.
Proof. eexists. vm_compute. reflexivity. Qed.

(** a pop running alone against a stopped pusher (E = 2, R = 1): re-reads once, poisons ticket 0, finds the queue empty *)
Example solo_pop_stalled_pusher :
  exists s, solo_run (step 2 1) Step idle 2 100 0 (end_of 2 1 ([Start 1%nat (OPush 7)] ++ steps 1 3 ++ [Start 2%nat OPop])) = Done s 12
            /\ g_fate s 1 0 = FPoisoned.
Proof. eexists. vm_compute. split; reflexivity. Qed.
