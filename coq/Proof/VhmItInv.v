(** vyukov_hash_map bucket model with iterators: the lock-free reader (try_get_value) also under erase(iterator),
    and the final theorems (C10 for the extended model, C11). *)
From Coq Require Import NArith List Bool Lia PeanoNat.
From XV Require Import Base.Word Conc.Lts Conc.Ev gen.BucketStateGen Proof.BucketState.
From XV Require Import Proof.VhmBase Proof.VhmMem Proof.VhmItBase Proof.VhmItMem Proof.VhmItAbs Model.VhmItDefs.
Import ListNotations.
Local Open Scope N_scope.

(** the version counter did not wrap around: fewer than 2^27 removals so far *)
Definition Bnd (st : state) : Prop := g_nver st < 2 ^ 27.

(** no version increment since the reader's last load of the state *)
Definition Cur (st : state) (t : nat) : Prop := g_rv st t = g_nver st.
(** a removal is past its linearization point and its version increment has not been stored yet *)
Definition pend (st : state) : Prop := mk st <> 0 \/ g_limbo st <> 0.
(** where a reader can stand: on an item of the chain or on the item that was just unlinked *)
Definition POS (st : state) (x : N) : Prop := In x (g_chain st) \/ (x <> 0 /\ x = g_limbo st).

Definition esc (st : state) (t : nat) (k : N) : Prop :=
  In None (g_obs st t) \/ (lookup k (g_map st) = None /\ pend st).
Definition slotw (st : state) (s k i : N) : Prop :=
  exists j, i <= j /\ j < bs_item_count s /\ j + 1 <> mk st /\ akey st j = k.
Definition chainw (st : state) (k : N) : Prop := exists y, In y (lchain st) /\ xkey st y = k.
Definition succw (st : state) (k x : N) : Prop :=
  exists y, In y (from (xnext st x) (g_chain st)) /\ In y (lchain st) /\ xkey st y = k.
Definition J (st : state) (t : nat) (k x : N) : Prop := xkey st x = k -> In (Some (xval st x)) (g_obs st t).

Definition RB (st : state) (t : nat) (s : N) : Prop :=
  g_rv st t <= g_nver st /\ bs_version s = g_rv st t mod 2 ^ 27 /\ bs_item_count s <= 3.

(** unconditional part *)
Definition RU (st : state) (t : nat) (p : pc) : Prop :=
  match p with
  | GK _ s i | GV _ s i | GD _ s i _ | GS _ s i _ => RB st t s /\ i < bs_item_count s
  | GH _ s | GXV _ s _ | GXD _ s _ _ | GXS _ s _ _ | GXC _ s _ | GE _ s => RB st t s
  | GXK _ s x | GXN _ s x => RB st t s /\ x <> 0
  | _ => True
  end.
(** part that holds as long as the version has not changed *)
Definition RK (st : state) (t : nat) (p : pc) : Prop :=
  match p with
  | GK k s i => bs_item_count s <= ic st /\ (esc st t k \/ slotw st s k i \/ chainw st k)
  | GV k s i => bs_item_count s <= ic st /\ (esc st t k \/ slotw st s k i \/ chainw st k) /\
                (mk st = i + 1 \/ akey st i = k)
  | GD k s i v | GS k s i v =>
    bs_item_count s <= ic st /\ (esc st t k \/ slotw st s k i \/ chainw st k) /\
    (mk st = i + 1 \/ (akey st i = k /\ aval st i = v))
  | GH k s => esc st t k \/ chainw st k
  | GXK k s x => POS st x /\ J st t k x /\ (esc st t k \/ xkey st x = k \/ succw st k x)
  | GXV k s x => POS st x /\ In (Some (xval st x)) (g_obs st t)
  | GXD k s x v | GXS k s x v => In (Some v) (g_obs st t)
  | GXN k s x => POS st x /\ (esc st t k \/ succw st k x)
  | GXC k s y => (y = 0 /\ esc st t k) \/
                 (y <> 0 /\ POS st y /\ J st t k y /\ (esc st t k \/ xkey st y = k \/ succw st k y))
  | GE k s => esc st t k
  | _ => True
  end.
Definition RI (st : state) (t : nat) (p : pc) : Prop := RU st t p /\ (Cur st t -> RK st t p).

(** the unlinked item keeps pointing into the chain *)
Definition Lim (st : state) : Prop :=
  g_limbo st <> 0 -> ~ In (g_limbo st) (g_chain st) /\
                     (xnext st (g_limbo st) = 0 \/ In (xnext st (g_limbo st)) (g_chain st)).

(** results of the completed reader calls: the value returned (or 'absent') is what [g_map] associated
    with the key at one of the steps of the call *)
Definition hist_ok_r (h : hrec) : Prop :=
  match h_op h with
  | OGet _ => (exists v, h_res h = [4; 1; v] /\ In (Some v) (h_obs h)) \/ (h_res h = [4; 0] /\ In None (h_obs h))
  | _ => True
  end.

Lemma in_snoc {X} (l : list X) (a b : X) : In a (l ++ [b]) <-> In a l \/ a = b.
Proof. rewrite in_app_iff. cbn. intuition. Qed.

Lemma nil_not_0 st : Mem st -> ~ In 0 (g_chain st).
Proof. intros HM Hc. apply (M_cok _ HM) in Hc. unfold item_ok in Hc. lia. Qed.

(** the successor of a chain item is never the head of the chain *)
Lemma next_not_hd nx l x : NoDup l -> linksto nx l 0 -> ~ In 0 l -> In x l -> nx x <> hd 0 l.
Proof.
  intros Hnd HL H0 Hx E. destruct l as [|a l]; [destruct Hx|]. cbn [hd] in E.
  assert (Hin : In (nx x) (a :: l)) by (rewrite E; left; reflexivity).
  (* nx x = a: then from (nx x) = whole list = tl (from x ...) which is shorter *)
  pose proof (from_next nx (a :: l) x Hnd H0 HL Hx) as Hf. rewrite E, from_hd in Hf.
  assert (Hlen : (length (tl (from x (a :: l))) < length (a :: l))%nat).
  { destruct (from_in x (a :: l) Hx) as [r Hr]. rewrite Hr. cbn [tl].
    assert (Hle : (length (from x (a :: l)) <= length (a :: l))%nat).
    { clear. generalize (a :: l). intros l0. induction l0 as [|b l0 IH]; cbn [from length]; [lia|].
      destruct (b =? x); cbn [length]; lia. }
    rewrite Hr in Hle. cbn [length] in *. lia. }
  rewrite <- Hf in Hlen. lia.
Qed.

Lemma lchain_sub st y : In y (lchain st) -> In y (g_chain st).
Proof. unfold lchain. destruct (g_dup st); [|tauto]. destruct (g_chain st); [tauto|]. cbn [tl]. intros H. right. exact H. Qed.

(** * what the steps of the other threads guarantee to a reader as long as the version does not change *)
Record Env (st st' : state) : Prop := mkEnv {
  En_ic : ic st <= ic st';
  En_slot : forall j, j < ic st -> j + 1 <> mk st -> j + 1 <> mk st' ->
            akey st' j = akey st j /\ aval st' j = aval st j;
  En_mk : mk st <> 0 -> mk st' = mk st;
  En_mk_lp : forall j, j < ic st -> j + 1 <> mk st -> j + 1 = mk st' -> lookup (akey st j) (g_map st') = None;
  En_pend : pend st -> pend st' /\ forall k, lookup k (g_map st) = None -> lookup k (g_map st') = None;
  En_pos : forall x, POS st x -> POS st' x /\ xkey st' x = xkey st x /\ xval st' x = xval st x;
  En_lch : forall y, In y (lchain st) -> In y (lchain st') \/ (lookup (xkey st y) (g_map st') = None /\ pend st');
  En_succ : forall x y, POS st x -> In y (from (xnext st x) (g_chain st)) -> In y (lchain st') ->
            In y (from (xnext st' x) (g_chain st'))
}.

Lemma RK_env st st' t p : Env st st' -> g_obs st' t = g_obs st t -> RU st t p -> RK st t p -> RK st' t p.
Proof.
  intros HE Eo HU HK.
  assert (Hesc : forall k, esc st t k -> esc st' t k).
  { intros k [H|[H1 H2]]; [left; rewrite Eo; exact H | right]. destruct (En_pend _ _ HE H2) as [H3 H4]. auto. }
  assert (Hmkpend : forall j, j + 1 = mk st' -> pend st') by (intros j Hj; left; lia).
  assert (Hslot : forall s k i, bs_item_count s <= ic st -> slotw st s k i -> esc st' t k \/ slotw st' s k i).
  { intros s k i Hic (j & H1 & H2 & H3 & H4). destruct (N.eq_dec (j + 1) (mk st')) as [E|E].
    - left. right. split; [|eapply Hmkpend; exact E]. rewrite <- H4. apply (En_mk_lp _ _ HE); [lia | exact H3 | exact E].
    - right. exists j. destruct (En_slot _ _ HE j ltac:(lia) H3 E) as [E1 _]. rewrite E1. auto. }
  assert (Hch : forall k, chainw st k -> esc st' t k \/ chainw st' k).
  { intros k (y & H1 & H2). destruct (En_lch _ _ HE y H1) as [H|[H3 H4]].
    - right. exists y. split; [exact H|]. destruct (En_pos _ _ HE y (or_introl (lchain_sub _ _ H1))) as (_ & -> & _). exact H2.
    - left. right. rewrite <- H2. auto. }
  assert (Hsu : forall k x, POS st x -> succw st k x -> esc st' t k \/ succw st' k x).
  { intros k x Hx (y & H1 & H2 & H3). destruct (En_lch _ _ HE y H2) as [H|[H4 H5]].
    - right. exists y. split; [apply (En_succ _ _ HE x y Hx H1 H)|]. split; [exact H|].
      destruct (En_pos _ _ HE y (or_introl (lchain_sub _ _ H2))) as (_ & -> & _). exact H3.
    - left. right. rewrite <- H3. auto. }
  assert (Hfa : forall i k (P : Prop), i < ic st -> (mk st = i + 1 \/ (akey st i = k /\ P)) ->
                 (mk st' = i + 1 \/ (akey st i = k /\ P /\ i + 1 <> mk st /\ i + 1 <> mk st'))).
  { intros i k P Hi [H|[H1 H2]].
    - left. rewrite (En_mk _ _ HE); [exact H | lia].
    - destruct (N.eq_dec (mk st) (i + 1)) as [E|E]; [left; rewrite (En_mk _ _ HE); [exact E | lia]|].
      destruct (N.eq_dec (mk st') (i + 1)) as [E'|E']; [left; exact E'|]. right. repeat split; auto. }
  pose proof (En_ic _ _ HE) as Hic.
  destruct p; cbn [RK RU] in *; try exact I.
  - (* GK *) destruct HK as [H1 H2]. split; [lia|]. destruct H2 as [H|[H|H]]; [auto | destruct (Hslot _ _ _ H1 H); auto | destruct (Hch _ H); auto].
  - (* GV *) destruct HK as (H1 & H2 & H3). destruct HU as [_ Hi]. split; [lia|]. split.
    + destruct H2 as [H|[H|H]]; [auto | destruct (Hslot _ _ _ H1 H); auto | destruct (Hch _ H); auto].
    + assert (H3' : mk st = i + 1 \/ (akey st i = k /\ True)) by tauto.
      destruct (Hfa i k True ltac:(lia) H3') as [H|(H4 & _ & H5 & H6)]; [left; exact H|right].
      destruct (En_slot _ _ HE i ltac:(lia) H5 H6) as [-> _]. exact H4.
  - (* GD *) destruct HK as (H1 & H2 & H3). destruct HU as [_ Hi]. split; [lia|]. split.
    + destruct H2 as [H|[H|H]]; [auto | destruct (Hslot _ _ _ H1 H); auto | destruct (Hch _ H); auto].
    + destruct (Hfa i k (aval st i = v) ltac:(lia) H3) as [H|(H4 & H7 & H5 & H6)]; [left; exact H|right].
      destruct (En_slot _ _ HE i ltac:(lia) H5 H6) as [-> ->]. auto.
  - (* GS *) destruct HK as (H1 & H2 & H3). destruct HU as [_ Hi]. split; [lia|]. split.
    + destruct H2 as [H|[H|H]]; [auto | destruct (Hslot _ _ _ H1 H); auto | destruct (Hch _ H); auto].
    + destruct (Hfa i k (aval st i = v) ltac:(lia) H3) as [H|(H4 & H7 & H5 & H6)]; [left; exact H|right].
      destruct (En_slot _ _ HE i ltac:(lia) H5 H6) as [-> ->]. auto.
  - (* GH *) destruct HK as [H|H]; [auto | destruct (Hch _ H); auto].
  - (* GXK *) destruct HK as (H1 & H2 & H3). destruct (En_pos _ _ HE x H1) as (P1 & P2 & P3). split; [exact P1|]. split.
    + unfold J in *. rewrite P2, P3, Eo. exact H2.
    + rewrite P2. destruct H3 as [H|[H|H]]; [auto | auto | destruct (Hsu _ _ H1 H); auto].
  - (* GXV *) destruct HK as (H1 & H2). destruct (En_pos _ _ HE x H1) as (P1 & P2 & P3). split; [exact P1|]. rewrite P3, Eo. exact H2.
  - (* GXD *) rewrite Eo. exact HK.
  - (* GXS *) rewrite Eo. exact HK.
  - (* GXN *) destruct HK as (H1 & H2). destruct (En_pos _ _ HE x H1) as (P1 & P2 & P3). split; [exact P1|].
    destruct H2 as [H|H]; [auto | destruct (Hsu _ _ H1 H); auto].
  - (* GXC *) destruct HK as [[H0 H]|(H0 & H1 & H2 & H3)]; [left; auto|right]. split; [exact H0|].
    destruct (En_pos _ _ HE x H1) as (P1 & P2 & P3). split; [exact P1|]. split.
    + unfold J in *. rewrite P2, P3, Eo. exact H2.
    + rewrite P2. destruct H3 as [H|[H|H]]; [auto | auto | destruct (Hsu _ _ H1 H); auto].
  - (* GE *) auto.
Qed.

Lemma pend_eq st st' : mk st' = mk st -> g_limbo st' = g_limbo st -> (pend st' <-> pend st).
Proof. unfold pend. intros -> ->. tauto. Qed.

(** steps that leave the logical content alone *)
Lemma Env_same st st' : ic st' = ic st -> mk st' = mk st -> g_map st' = g_map st -> g_chain st' = g_chain st ->
  g_dup st' = g_dup st -> g_limbo st' = g_limbo st ->
  (forall j, j < ic st -> j + 1 <> mk st -> akey st' j = akey st j /\ aval st' j = aval st j) ->
  (forall x, POS st x -> xkey st' x = xkey st x /\ xval st' x = xval st x /\ xnext st' x = xnext st x) -> Env st st'.
Proof.
  intros Eic Emk Em Ec Ed El Hs Hx.
  assert (Hl : lchain st' = lchain st) by (unfold lchain; rewrite Ed, Ec; reflexivity).
  constructor.
  - lia.
  - intros j H1 H2 _. apply Hs; assumption.
  - intros _. exact Emk.
  - intros j _ H1 H2. congruence.
  - intros H. split; [apply (pend_eq _ _ Emk El); exact H | intros k; rewrite Em; tauto].
  - intros x H. destruct (Hx x H) as (H1 & H2 & _). split; [|tauto]. unfold POS in *. rewrite Ec, El. exact H.
  - intros y H. left. rewrite Hl. exact H.
  - intros x y H1 H2 _. destruct (Hx x H1) as (_ & _ & ->). rewrite Ec. exact H2.
Qed.

(** insertion into the array (unlocking store) *)
Lemma Env_ins_slot st st' : ic st' = ic st + 1 -> mk st' = mk st -> mk st = 0 -> g_limbo st = 0 ->
  akey st' = akey st -> aval st' = aval st -> xkey st' = xkey st -> xval st' = xval st -> xnext st' = xnext st ->
  g_chain st' = g_chain st -> g_dup st' = g_dup st -> g_limbo st' = g_limbo st -> Env st st'.
Proof.
  intros Eic Emk Hmk Hl Ea Eb Exk Exv Exn Ec Ed El.
  assert (Hlc : lchain st' = lchain st) by (unfold lchain; rewrite Ed, Ec; reflexivity).
  assert (Hnp : ~ pend st) by (unfold pend; lia).
  constructor.
  - lia.
  - intros j _ _ _. rewrite Ea, Eb. tauto.
  - intros _. exact Emk.
  - intros j _ _ H. lia.
  - intros H. contradiction.
  - intros x H. rewrite Exk, Exv. split; [|tauto]. unfold POS in *. rewrite Ec, El. exact H.
  - intros y H. left. rewrite Hlc. exact H.
  - intros x y _ H _. rewrite Exn, Ec. exact H.
Qed.

(** insertion of an extension item (store to head) *)
Lemma Env_ins_item st st' n : Mem st -> ic st' = ic st -> mk st' = mk st -> mk st = 0 -> g_limbo st = 0 ->
  akey st' = akey st -> aval st' = aval st -> xkey st' = xkey st -> xval st' = xval st -> xnext st' = xnext st ->
  g_chain st' = n :: g_chain st -> ~ In n (g_chain st) -> n <> 0 ->
  g_dup st' = false -> g_dup st = false -> g_limbo st' = g_limbo st -> Env st st'.
Proof.
  intros HM Eic Emk Hmk Hl Ea Eb Exk Exv Exn Ec Hn Hnz Ed' Ed El.
  assert (Hnp : ~ pend st) by (unfold pend; lia).
  constructor.
  - lia.
  - intros j _ _ _. rewrite Ea, Eb. tauto.
  - intros _. exact Emk.
  - intros j _ _ H. lia.
  - intros H. contradiction.
  - intros x H. rewrite Exk, Exv. split; [|tauto]. unfold POS in *. rewrite Ec, El. destruct H as [H|H]; [left; right; exact H | right; exact H].
  - intros y H. left. rewrite lchain_nodup in * by assumption. rewrite Ec. right. exact H.
  - intros x y Hx H _. rewrite Exn, Ec. rewrite from_cons_ne; [exact H|].
    destruct Hx as [Hx|[Hx1 Hx2]]; [|congruence]. intros E.
    destruct (N.eq_dec (xnext st x) 0) as [E0|E0]; [congruence|].
    apply Hn. rewrite E. apply linksto_next_in; [apply nil_not_0; exact HM | exact (M_clk _ HM) | exact Hx | exact E0].
Qed.

(** removal from the array: store of the delete marker *)
Lemma Env_mark st st' i : ic st' = ic st -> mk st = 0 -> g_limbo st = 0 -> mk st' = i + 1 ->
  akey st' = akey st -> aval st' = aval st -> xkey st' = xkey st -> xval st' = xval st -> xnext st' = xnext st ->
  g_chain st' = g_chain st -> g_dup st' = g_dup st -> g_limbo st' = g_limbo st ->
  g_map st' = rem (akey st i) (g_map st) -> Env st st'.
Proof.
  intros Eic Hmk Hl Emk Ea Eb Exk Exv Exn Ec Ed El Em.
  assert (Hlc : lchain st' = lchain st) by (unfold lchain; rewrite Ed, Ec; reflexivity).
  assert (Hnp : ~ pend st) by (unfold pend; lia).
  constructor.
  - lia.
  - intros j _ _ _. rewrite Ea, Eb. tauto.
  - intros H. contradiction.
  - intros j _ _ H. assert (j = i) by lia. subst j. rewrite Em, lookup_rem, N.eqb_refl. reflexivity.
  - intros H. contradiction.
  - intros x H. rewrite Exk, Exv. split; [|tauto]. unfold POS in *. rewrite Ec, El. exact H.
  - intros y H. left. rewrite Hlc. exact H.
  - intros x y _ H _. rewrite Exn, Ec. exact H.
Qed.

(** a removal that back-filled from the chain unlinks the copied head item *)
Lemma Env_xa8 st st' e r : Mem st -> ic st' = ic st -> mk st' = mk st -> mk st = 0 -> g_limbo st = 0 ->
  akey st' = akey st -> aval st' = aval st -> xkey st' = xkey st -> xval st' = xval st -> xnext st' = xnext st ->
  g_chain st = e :: r -> g_chain st' = r -> g_dup st = true -> g_dup st' = false -> g_limbo st' = e ->
  g_map st' = g_map st -> Env st st'.
Proof.
  intros HM Eic Emk Hmk Hl Ea Eb Exk Exv Exn Ec Ec' Ed Ed' El Em.
  assert (Hlc : lchain st' = lchain st) by (unfold lchain; rewrite Ed, Ed', Ec, Ec'; reflexivity).
  assert (Hnp : ~ pend st) by (unfold pend; lia).
  assert (He : e <> 0) by (intros ->; apply (nil_not_0 _ HM); rewrite Ec; left; reflexivity).
  constructor.
  - lia.
  - intros j _ _ _. rewrite Ea, Eb. tauto.
  - intros _. exact Emk.
  - intros j _ _ H. lia.
  - intros H. contradiction.
  - intros x H. rewrite Exk, Exv. split; [|tauto]. unfold POS in *. rewrite Ec', El. rewrite Ec, Hl in H.
    destruct H as [[<-|H]|[H1 H2]]; [right; auto | left; exact H | congruence].
  - intros y H. left. rewrite Hlc. exact H.
  - intros x y Hx H _. rewrite Exn, Ec'. rewrite Ec in H. rewrite from_cons_ne in H; [exact H|].
    destruct Hx as [Hx|[Hx1 Hx2]]; [|congruence]. intros E.
    apply (next_not_hd (xnext st) (g_chain st) x); [exact (M_cnd _ HM) | exact (M_clk _ HM) | apply nil_not_0; exact HM | exact Hx |].
    rewrite Ec. cbn [hd]. symmetry. exact E.
Qed.


(** the item an eraser has unlinked is not owned by anybody else *)
Lemma limbo_owned st : Lk st -> Mem st -> g_limbo st <> 0 ->
  exists u, g_owner st = Some u /\ pc_own (th st u) = Some (g_limbo st) /\ pc_bst (th st u) <> None.
Proof.
  intros HI HM Hl. destruct (g_owner st) as [u|] eqn:Eo; [|destruct (M_fl0 _ HM Eo) as [_ Hl0]; congruence].
  exists u. split; [reflexivity|]. destruct (M_fl _ HM u Eo) as [_ Hlu]. pose proof (Lk_pc _ HI u Eo) as Hb.
  rewrite Hlu in *. destruct (th st u); repeat match goal with i : itpos |- _ => destruct i end; cbn [pc_limbo pc_own pc_bst] in *; try congruence; split; congruence.
Qed.

Lemma pred_unique nx l a b : NoDup l -> ~ In 0 l -> linksto nx l 0 -> In a l -> In b l ->
  nx a = nx b -> nx a <> 0 -> a = b.
Proof.
  induction l as [|c r IH]; intros Hnd H0 HL Ha Hb E Hnz; [destruct Ha|].
  inversion Hnd as [|c' r' Hnc Hnd']; subst. cbn [linksto] in HL. destruct HL as [Hc HL].
  assert (H0' : ~ In 0 r) by (intros H; apply H0; right; exact H).
  destruct Ha as [<-|Ha]; destruct Hb as [<-|Hb]; try reflexivity.
  - exfalso. apply (next_not_hd nx r b Hnd' HL H0' Hb). congruence.
  - exfalso. apply (next_not_hd nx r a Hnd' HL H0' Ha). congruence.
  - apply IH; assumption.
Qed.

(** removal of an extension item: store to the predecessor's link *)
Lemma Env_unlink st st' p x : Mem st -> ic st' = ic st -> mk st' = mk st -> mk st = 0 -> g_limbo st = 0 ->
  akey st' = akey st -> aval st' = aval st -> xkey st' = xkey st -> xval st' = xval st ->
  In x (g_chain st) -> link_ok st p x ->
  xnext st' = (if p =? 0 then xnext st else setf (xnext st) p (xnext st x)) ->
  g_chain st' = remx x (g_chain st) -> g_dup st = false -> g_dup st' = false -> g_limbo st' = x ->
  g_map st' = rem (xkey st x) (g_map st) -> Env st st'.
Proof.
  intros HM Eic Emk Hmk Hl Ea Eb Exk Exv Hx Hlk Exn Ec Ed Ed' El Em.
  assert (Hnp : ~ pend st) by (unfold pend; lia).
  pose proof (nil_not_0 _ HM) as H0. pose proof (M_cnd _ HM) as Hnd. pose proof (M_clk _ HM) as HL.
  assert (Hxz : x <> 0) by (intros ->; contradiction).
  assert (Hpend' : pend st') by (right; rewrite El; exact Hxz).
  assert (Hfx : from x (g_chain st) = x :: from (xnext st x) (g_chain st)).
  { destruct (from_in _ _ Hx) as [r Hr]. rewrite (from_next _ _ _ Hnd H0 HL Hx), Hr. reflexivity. }
  assert (Hnx : xnext st x <> x).
  { intros E. assert (Hd : NoDup (from x (g_chain st))).
    { clear -Hnd. induction (g_chain st) as [|a l IH]; cbn [from]; [constructor|]. destruct (a =? x); [exact Hnd|].
      apply IH. inversion Hnd; assumption. }
    rewrite Hfx in Hd. inversion Hd as [|? ? Hni _]; subst. apply Hni. rewrite E.
    destruct (from_in _ _ Hx) as [r Hr]. rewrite Hr. left. reflexivity. }
  constructor.
  - lia.
  - intros j _ _ _. rewrite Ea, Eb. tauto.
  - intros _. exact Emk.
  - intros j _ _ H. lia.
  - intros H. contradiction.
  - intros y H. rewrite Exk, Exv. split; [|tauto]. unfold POS in *. rewrite Ec, El.
    destruct H as [H|[H1 H2]]; [|congruence]. destruct (N.eq_dec y x) as [->|Hne]; [right; auto | left; apply in_remx; auto].
  - intros y H. rewrite lchain_nodup in * by assumption. rewrite Ec. destruct (N.eq_dec y x) as [->|Hne].
    + right. split; [|exact Hpend']. rewrite Em, lookup_rem, N.eqb_refl. reflexivity.
    + left. apply in_remx. auto.
  - intros y0 z Hy0 Hz Hz'. rewrite lchain_nodup in Hz' by assumption. rewrite Ec in *. apply in_remx in Hz'. destruct Hz' as [Hz1 Hz2].
    destruct Hy0 as [Hy0|[Hy1 Hy2]]; [|congruence].
    assert (Hcase : (p <> 0 /\ y0 = p) \/ xnext st' y0 = xnext st y0).
    { rewrite Exn. destruct (N.eqb_spec p 0) as [Ep|Ep]; [right; reflexivity|].
      destruct (N.eq_dec y0 p) as [->|Hne]; [left; auto | right; apply setf_other; exact Hne]. }
    destruct Hcase as [[Hp ->]|En].
    + (* the predecessor: its link now skips x *)
      destruct Hlk as [[Hp0 _]|(_ & Hpc & Hpx)]; [contradiction|].
      rewrite Exn. destruct (N.eqb_spec p 0) as [Ep|_]; [contradiction|]. rewrite setf_same.
      rewrite Hpx, Hfx in Hz. destruct Hz as [Hz|Hz]; [congruence|].
      rewrite from_remx by exact Hnx. apply in_remx. auto.
    + rewrite En. assert (Hw : xnext st y0 <> x).
      { intros E. destruct Hlk as [[Hp0 Hh]|(Hp0 & Hpc & Hpx)].
        - apply (next_not_hd (xnext st) (g_chain st) y0 Hnd HL H0 Hy0). rewrite <- (M_chd _ HM). congruence.
        - assert (y0 = p) by (apply (pred_unique (xnext st) (g_chain st)); try assumption; congruence).
          subst y0. rewrite Exn in En. destruct (N.eqb_spec p 0) as [Ep|_]; [contradiction|]. rewrite setf_same in En. congruence. }
      rewrite from_remx by exact Hw. apply in_remx. auto.
Qed.

Lemma lookup_wit st k v : G st -> lookup k (g_map st) = Some v ->
  (exists j, vslot st j /\ akey st j = k /\ aval st j = v) \/ (exists y, In y (lchain st) /\ xkey st y = k /\ xval st y = v).
Proof. intros HG H. apply (G_map _ HG) in H. exact H. Qed.

(** every item of the physical chain (also a head that is a copy of a slot) carries a pair of [g_map] *)
Lemma item_lookup st y : G st -> In y (g_chain st) -> lookup (xkey st y) (g_map st) = Some (xval st y).
Proof.
  intros HG Hy. apply (G_map _ HG). unfold item_has, lchain. destruct (g_dup st) eqn:Ed.
  - destruct (g_chain st) as [|e r] eqn:Ec; [destruct Hy|]. destruct Hy as [<-|Hy].
    + left. destruct (G_dup _ HG Ed) as (j & J1 & J2 & J3). rewrite Ec in J2, J3. cbn [hd] in *. exists j. split; [exact J1 | split; assumption].
    + right. exists y. cbn [tl]. split; [exact Hy | split; reflexivity].
  - right. exists y. split; [exact Hy | split; reflexivity].
Qed.

Lemma succw_next st k x : Mem st -> succw st k x ->
  In (xnext st x) (g_chain st) /\ (xkey st (xnext st x) = k \/ succw st k (xnext st x)).
Proof.
  intros HM (w & H1 & H2 & H3). set (y := xnext st x) in *.
  destruct (in_dec N.eq_dec y (g_chain st)) as [Hy|Hy]; [|rewrite (from_notin _ _ Hy) in H1; destruct H1].
  split; [exact Hy|]. destruct (from_in _ _ Hy) as [r Hr].
  pose proof (from_next (xnext st) (g_chain st) y (M_cnd _ HM) (nil_not_0 _ HM) (M_clk _ HM) Hy) as Hf.
  rewrite Hr in H1, Hf. cbn [tl] in Hf. destruct H1 as [<-|H1]; [left; exact H3|right].
  exists w. rewrite Hf. auto.
Qed.

Lemma from_hd0 (l : list N) x : x = hd 0 l -> In x l -> from x l = l.
Proof. destruct l as [|a l]; [intros _ []|]. cbn [hd]. intros -> _. apply from_hd. Qed.

Lemma chainw_hd st k : Mem st -> chainw st k -> bhead st <> 0 ->
  xkey st (bhead st) = k \/ succw st k (bhead st).
Proof.
  intros HM (w & H1 & H2) Hnz. pose proof (M_chd _ HM) as Hh.
  assert (Hb : In (bhead st) (g_chain st)) by (apply hd_in; assumption).
  pose proof (from_next (xnext st) (g_chain st) (bhead st) (M_cnd _ HM) (nil_not_0 _ HM) (M_clk _ HM) Hb) as Hf.
  pose proof (lchain_sub _ _ H1) as Hw. rewrite (from_hd0 _ _ Hh Hb) in Hf.
  destruct (g_chain st) as [|e r] eqn:Ec; [destruct Hb|]. cbn [hd tl] in *.
  destruct Hw as [Hw|Hw]; [left; congruence|right].
  exists w. unfold succw. rewrite Ec, Hf. auto.
Qed.

Section VhmItInv.
  Variable xoff : N.
  Notation step := (step xoff).

  Ltac split_t' t' :=
    intros t'; match goal with |- context [upd ?f ?t ?p t'] => destruct (upd_cases f t p t') as [[-> E]|[Hne E]]; rewrite E; clear E end.

  Ltac prep3 HI HM HA t Epc :=
    pose proof (Lk_wf _ HI t) as Hwf; rewrite Epc in Hwf; cbn [pc_wf it_wf it_elem] in Hwf;
    pose proof (M_ch _ HM t) as Hch; rewrite Epc in Hch; cbn [pc_ch] in Hch;
    pose proof (HA t) as Hab; rewrite Epc in Hab; cbn [pc_abs] in Hab;
    try (assert (Hown : g_owner _ = Some t) by
           (apply (Lk_own _ HI); rewrite Epc; cbn [pc_bst];
            repeat match goal with E : ?c = _ |- context [if ?c then _ else _] => rewrite E end; discriminate);
         pose proof (Lk_pc _ HI t Hown) as Hbst; rewrite Epc in Hbst; cbn [pc_bst] in Hbst;
         repeat match goal with E : ?c = _ |- _ => match type of Hbst with context [if c then _ else _] => rewrite E in Hbst end end;
         injection Hbst as Hbst;
         pose proof (M_fl _ HM t Hown) as Hfl; rewrite Epc in Hfl; cbn [pc_dup pc_limbo] in Hfl; destruct Hfl as [Hdup Hlimbo]).

  Ltac icmk := unfold ic, mk; st_simpl_goal;
    try match goal with Hb : _ = bst _ |- _ => rewrite <- ?Hb end; try congruence.

  Ltac esame := apply Env_same; [ | | reflexivity | reflexivity | reflexivity | reflexivity
                              | intros; split; reflexivity | intros; rsplit; reflexivity].
  Ltac esame1 := apply Env_same; [ | | reflexivity | reflexivity | reflexivity | reflexivity
                              | | intros; rsplit; reflexivity].
  Ltac esame2 := apply Env_same; [ | | reflexivity | reflexivity | reflexivity | reflexivity
                              | intros; split; reflexivity | ].

  Lemma step_env st a st' es : Lk st -> Mem st -> Abs st -> step st a = Some (st', es) ->
    g_nver st' = g_nver st + 1 \/ (g_nver st' = g_nver st /\ Env st st').
  Proof.
    intros HI HM (HG & HA & _) H. step_inv H; st_simpl.
    all: try (left; reflexivity).
    all: right; (split; [reflexivity|]).
    all: try (apply Env_same; [reflexivity | reflexivity | reflexivity | reflexivity | reflexivity | reflexivity
                              | intros; split; reflexivity | intros; rsplit; reflexivity]).
    all: prep3 HI HM HA t Epc.
    all: repeat match goal with E : ?c = _, H : context [if ?c then _ else _] |- _ => rewrite E in H end.
    all: try (assert (Hwfs : wf_s s) by tauto;
              destruct (wf_fields s Hwfs) as (FL1 & FL2 & FM & FN1 & FN2 & FC1 & FC2 & FV1 & FV2 & FS & FI & FD)).
    all: unfold mark in *.
    all: try (assert (Hicst : ic st = bs_item_count s /\ mk st = 0) by (unfold ic, mk; rewrite <- Hbst; split; [exact FL1 | exact FL2]);
              destruct Hicst as [Hicst Hmk0]).
    all: pose proof (M_cnd _ HM) as Hcnd; pose proof (M_chd _ HM) as Hchd.
    - (* L3 *) b2p. subst s. esame. apply ic_locked. apply mk_locked.
    - b2p. subst s. esame. apply ic_locked. apply mk_locked.
    - (* IUold *) esame; icmk.
    - (* ISK *) esame1; [icmk | icmk |]. intros j Hj _. st_simpl. rewrite Hicst in Hj. rewrite setf_other by lia. split; reflexivity.
    - (* ISV *) esame1; [icmk | icmk |]. intros j Hj _. st_simpl. rewrite Hicst in Hj. rewrite setf_other by lia. split; reflexivity.
    - (* IUnew *) destruct Hwf as [_ Hlt]. destruct (FI Hlt) as [FI1 FI2].
      apply Env_ins_slot; try reflexivity; try assumption; icmk.
    - (* IXSK *) esame2; [icmk | icmk |]. intros y Hy. st_simpl.
      pose proof (M_own _ HM t n) as Ho. rewrite Epc in Ho. destruct (Ho eq_refl) as (Hok & Hnc & _).
      assert (y <> n) by (intros ->; destruct Hy as [Hy|[Hy1 Hy2]]; [contradiction | congruence]).
      rewrite setf_other by assumption. rsplit; reflexivity.
    - (* IXSV *) esame2; [icmk | icmk |]. intros y Hy. st_simpl.
      pose proof (M_own _ HM t n) as Ho. rewrite Epc in Ho. destruct (Ho eq_refl) as (Hok & Hnc & _).
      assert (y <> n) by (intros ->; destruct Hy as [Hy|[Hy1 Hy2]]; [contradiction | congruence]).
      rewrite setf_other by assumption. rsplit; reflexivity.
    - (* IXSN *) esame2; [icmk | icmk |]. intros y Hy. st_simpl.
      pose proof (M_own _ HM t n) as Ho. rewrite Epc in Ho. destruct (Ho eq_refl) as (Hok & Hnc & _).
      assert (y <> n) by (intros ->; destruct Hy as [Hy|[Hy1 Hy2]]; [contradiction | congruence]).
      rewrite setf_other by assumption. rsplit; reflexivity.
    - (* IXSH *)
      pose proof (M_own _ HM t n) as Ho. rewrite Epc in Ho. destruct (Ho eq_refl) as (Hok & Hnc & _).
      apply (Env_ins_item st _ n); try reflexivity; try assumption; try icmk. unfold item_ok in Hok. lia.
    - (* IUnew2 *) esame; icmk.
    - (* X3 *) b2p. subst s. esame. apply ic_locked. apply mk_locked.
    - (* XA1 *) destruct Hwf as [_ Hi]. destruct (FM i Hi) as [FM1 FM2]. destruct Hab as [Hab1 Hab2]. subst k.
      apply (Env_mark st _ i); try reflexivity; try assumption; icmk.
    - (* XA4 *) destruct Hwf as [_ Hi]. destruct (FM i Hi) as [FM1 FM2].
      esame1; [icmk | icmk |]. intros j _ Hj. unfold mk in Hj. rewrite <- Hbst, FM2 in Hj. st_simpl.
      rewrite setf_other by lia. split; reflexivity.
    - (* XA5 *) destruct Hwf as [_ Hi]. destruct (FM i Hi) as [FM1 FM2].
      esame1; [icmk | icmk |]. intros j _ Hj. unfold mk in Hj. rewrite <- Hbst, FM2 in Hj. st_simpl.
      rewrite setf_other by lia. split; reflexivity.
    - (* XA8 *) destruct Hch as (Hx & Hnz & Hnx). destruct (g_chain st) as [|x' rr] eqn:Ec; cbn [hd] in Hchd; [congruence|].
      assert (x' = x) by congruence. subst x'.
      apply (Env_xa8 st _ x rr); try reflexivity; try assumption; try icmk.
    - (* XB1 *) destruct Hwf as (_ & Hi & _). destruct (FM i Hi) as [FM1 FM2]. destruct Hab as [Hab1 Hab2]. subst k.
      apply (Env_mark st _ i); try reflexivity; try assumption; icmk.
    - (* XB4 *) destruct Hwf as (_ & Hi & _). destruct (FM i Hi) as [FM1 FM2].
      esame1; [icmk | icmk |]. intros j _ Hj. unfold mk in Hj. rewrite <- Hbst, FM2 in Hj. st_simpl.
      rewrite setf_other by lia. split; reflexivity.
    - (* XB5 *) destruct Hwf as (_ & Hi & _). destruct (FM i Hi) as [FM1 FM2].
      esame1; [icmk | icmk |]. intros j _ Hj. unfold mk in Hj. rewrite <- Hbst, FM2 in Hj. st_simpl.
      rewrite setf_other by lia. split; reflexivity.
    - (* XXP, head *) b2p. subst p. destruct Hab as [Hab1 Hab2]. destruct Hch as (Hx & Hlk & Hnx). subst k nx.
      apply (Env_unlink st _ 0 x); try reflexivity; try assumption; icmk.
    - (* XXP, item *) b2p. destruct Hab as [Hab1 Hab2]. destruct Hch as (Hx & Hlk & Hnx). subst k nx.
      apply (Env_unlink st _ p x); try reflexivity; try assumption; try icmk.
      st_simpl_goal. destruct (N.eqb_spec p 0); [contradiction | reflexivity].
    - (* XU *) esame; icmk.
    - (* F4 *) esame2; [icmk | icmk |]. intros y Hy. st_simpl.
      pose proof (M_own _ HM t x) as Ho. rewrite Epc in Ho. destruct (Ho eq_refl) as (Hok & Hnc & _).
      assert (y <> x).
      { intros ->. destruct Hy as [Hy|[Hy1 Hy2]]; [contradiction|].
        assert (Hl : g_limbo st <> 0) by congruence.
        destruct (limbo_owned _ HI HM Hl) as (u & Hou & Hpo & Hpb).
        apply (M_inj _ HM t u x); [|rewrite Epc; reflexivity | rewrite Hy2; exact Hpo].
        intros ->. rewrite Epc in Hpb. apply Hpb. reflexivity. }
      rewrite setf_other by assumption. rsplit; reflexivity.
    - (* FL3 *) b2p. subst s. esame. apply ic_locked. apply mk_locked.
    - b2p. subst s. esame. apply ic_locked. apply mk_locked.
    - (* FU *) esame; icmk.
    - (* MN2: the lock of this bucket *) b2p. subst s1. esame. apply ic_locked. apply mk_locked.
    - (* MN3 from this bucket *) esame; icmk; [symmetry; apply ic_locked | symmetry; apply mk_locked].
    - esame; icmk; [symmetry; apply ic_locked | symmetry; apply mk_locked].
    - esame; icmk; [symmetry; apply ic_locked | symmetry; apply mk_locked].
    - (* EX2, head *) b2p. subst p. destruct Hab as [Hab1 Hab2]. destruct Hch as (Hx & Hlk & Hnx). subst w nx.
      apply (Env_unlink st _ 0 x); try reflexivity; try assumption; icmk.
    - (* EX2, item *) b2p. destruct Hab as [Hab1 Hab2]. destruct Hch as (Hx & Hlk & Hnx). subst w nx.
      apply (Env_unlink st _ p x); try reflexivity; try assumption; try icmk.
      st_simpl_goal. destruct (N.eqb_spec p 0); [contradiction | reflexivity].
    - (* EA1 *) destruct Hwf as (_ & Hi & _). destruct (FM idx Hi) as [FM1 FM2]. destruct Hab as [Hab1 Hab2]. subst w.
      apply (Env_mark st _ idx); try reflexivity; try assumption; icmk.
    - (* EA4 *) destruct Hwf as (_ & Hi & _). destruct (FM idx Hi) as [FM1 FM2].
      esame1; [icmk | icmk |]. intros j _ Hj. unfold mk in Hj. rewrite <- Hbst, FM2 in Hj. st_simpl.
      rewrite setf_other by lia. split; reflexivity.
    - (* EA5 *) destruct Hwf as (_ & Hi & _). destruct (FM idx Hi) as [FM1 FM2].
      esame1; [icmk | icmk |]. intros j _ Hj. unfold mk in Hj. rewrite <- Hbst, FM2 in Hj. st_simpl.
      rewrite setf_other by lia. split; reflexivity.
    - (* EA8 *) destruct Hch as (Hx & Hnz & Hnx). destruct (g_chain st) as [|x' rr] eqn:Ec; cbn [hd] in Hchd; [congruence|].
      assert (x' = h) by congruence. subst x'.
      apply (Env_xa8 st _ h rr); try reflexivity; try assumption; try icmk.
    - (* EB1 *) destruct Hwf as (_ & Hi & _). destruct (FM idx Hi) as [FM1 FM2]. destruct Hab as [Hab1 Hab2]. subst w.
      apply (Env_mark st _ idx); try reflexivity; try assumption; icmk.
    - (* EB4 *) destruct Hwf as (_ & Hi & _). destruct (FM idx Hi) as [FM1 FM2].
      esame1; [icmk | icmk |]. intros j _ Hj. unfold mk in Hj. rewrite <- Hbst, FM2 in Hj. st_simpl.
      rewrite setf_other by lia. split; reflexivity.
    - (* EB5 *) destruct Hwf as (_ & Hi & _). destruct (FM idx Hi) as [FM1 FM2].
      esame1; [icmk | icmk |]. intros j _ Hj. unfold mk in Hj. rewrite <- Hbst, FM2 in Hj. st_simpl.
      rewrite setf_other by lia. split; reflexivity.
    - (* IF4: the lock holder frees the item it unlinked; the version has been incremented since *)
      esame2; [icmk | icmk |]. intros y Hy. st_simpl.
      pose proof (M_own _ HM t fx) as Ho. rewrite Epc in Ho. destruct (Ho eq_refl) as (Hok & Hnc & _).
      assert (y <> fx) by (intros ->; destruct Hy as [Hy|[Hy1 Hy2]]; [contradiction | congruence]).
      rewrite setf_other by assumption. rsplit; reflexivity.
    - (* R1 *) esame; icmk.
  Qed.

  Lemma step_other st a st' es : step st a = Some (st', es) ->
    exists t, (forall t', t' <> t -> th st' t' = th st t' /\ g_obs st' t' = g_obs st t' /\ g_rv st' t' = g_rv st t') /\
              (a = Step t \/ exists o, a = Start t o).
  Proof.
    intros H. step_inv H; st_simpl; exists t; (split; [|eauto]); intros t' Hne; rewrite ?upd_other by exact Hne; auto.
  Qed.

  Lemma nver_mono st a st' es : step st a = Some (st', es) -> g_nver st <= g_nver st'.
  Proof. intros H. step_inv H; st_simpl; lia. Qed.

  Lemma Lim_step st a st' es : Lk st -> Mem st -> Lim st -> step st a = Some (st', es) -> Lim st'.
  Proof.
    intros HI HM HL H. pose proof (Mem_step xoff _ _ _ _ HI HM H) as HM'. unfold Lim in *. step_inv H; st_simpl.
    all: try exact HL.
    all: try (intros Hc; exfalso; apply Hc; reflexivity).
    all: pose proof (M_ch _ HM t) as Hch; rewrite Epc in Hch; cbn [pc_ch] in Hch.
    all: pose proof (M_cnd _ HM) as Hcnd; pose proof (M_chd _ HM) as Hchd; pose proof (M_clk _ HM) as Hclk;
         pose proof (nil_not_0 _ HM) as H0.
    - (* IXSN *) intros Hc. exfalso. apply Hc.
      assert (Hown : g_owner st = Some t) by (apply (Lk_own _ HI); rewrite Epc; discriminate).
      destruct (M_fl _ HM t Hown) as [_ Hl]. rewrite Epc in Hl. exact Hl.
    - (* IXSH *) intros Hc. exfalso. apply Hc.
      assert (Hown : g_owner st = Some t) by (apply (Lk_own _ HI); rewrite Epc; discriminate).
      destruct (M_fl _ HM t Hown) as [_ Hl]. rewrite Epc in Hl. exact Hl.
    - (* XA8 *) intros _. destruct Hch as (Hx & Hnz & Hnx). destruct (g_chain st) as [|x' rr] eqn:Ec; cbn [hd] in Hchd; [congruence|].
      assert (x' = x) by congruence. subst x'. cbn [tl linksto] in *. destruct Hclk as [Hn Hclk]. inversion Hcnd; subst.
      split; [assumption|]. rewrite Hn. destruct rr as [|y rr']; [left; reflexivity | right; left; reflexivity].
    - (* XXP head *) intros _. b2p. subst p. destruct Hch as (Hx & [(_ & Hh)|(Hc & _)] & Hnx); [|contradiction].
      destruct (g_chain st) as [|x' rr] eqn:Ec; [destruct Hx|]. cbn [hd] in Hchd. assert (x' = x) by congruence. subst x'.
      cbn [linksto] in Hclk. destruct Hclk as [Hn Hclk]. inversion Hcnd; subst. rewrite remx_hd by assumption.
      split; [assumption|]. rewrite Hn. destruct rr as [|y rr']; [left; reflexivity | right; left; reflexivity].
    - (* XXP item *) intros _. b2p. destruct Hch as (Hx & [(Hc & _)|(_ & Hp & Hpx)] & Hnx); [contradiction|].
      assert (Hne : xnext st x <> x) by (apply (next_ne_self (xnext st) (g_chain st)); assumption).
      assert (Hxp : x <> p) by (intros ->; contradiction).
      rewrite setf_other by exact Hxp. split; [rewrite in_remx; tauto|].
      destruct (N.eq_dec (xnext st x) 0) as [E|E]; [left; exact E|right]. apply in_remx. split; [|exact Hne].
      apply linksto_next_in; assumption.
    - (* F4 *) intros Hl. destruct (limbo_owned _ HI HM Hl) as (u & Ho & Hpo & Hpb).
      assert (Hne : g_limbo st <> x).
      { intros E. apply (M_inj _ HM t u x); [|rewrite Epc; reflexivity | rewrite <- E; exact Hpo].
        intros ->. rewrite Epc in Hpb. apply Hpb. reflexivity. }
      rewrite setf_other by exact Hne. exact (HL Hl).
    - (* EX2 head *) intros _. b2p. subst p. destruct Hch as (Hx & [(_ & Hh)|(Hc & _)] & Hnx); [|contradiction].
      destruct (g_chain st) as [|x' rr] eqn:Ec; [destruct Hx|]. cbn [hd] in Hchd. assert (x' = x) by congruence. subst x'.
      cbn [linksto] in Hclk. destruct Hclk as [Hn Hclk]. inversion Hcnd; subst. rewrite remx_hd by assumption.
      split; [assumption|]. rewrite Hn. destruct rr as [|y rr']; [left; reflexivity | right; left; reflexivity].
    - (* EX2 item *) intros _. b2p. destruct Hch as (Hx & [(Hc & _)|(_ & Hp & Hpx)] & Hnx); [contradiction|].
      assert (Hne : xnext st x <> x) by (apply (next_ne_self (xnext st) (g_chain st)); assumption).
      assert (Hxp : x <> p) by (intros ->; contradiction).
      rewrite setf_other by exact Hxp. split; [rewrite in_remx; tauto|].
      destruct (N.eq_dec (xnext st x) 0) as [E|E]; [left; exact E|right]. apply in_remx. split; [|exact Hne].
      apply linksto_next_in; assumption.
    - (* EA8 *) intros _. destruct Hch as (Hx & Hnz & Hnx). destruct (g_chain st) as [|x' rr] eqn:Ec; cbn [hd] in Hchd; [congruence|].
      assert (x' = h) by congruence. subst x'. cbn [tl linksto] in *. destruct Hclk as [Hn Hclk]. inversion Hcnd; subst.
      split; [assumption|]. rewrite Hn. destruct rr as [|y rr']; [left; reflexivity | right; left; reflexivity].
    - (* IF4 *) intros Hl. destruct (limbo_owned _ HI HM Hl) as (u & Ho & Hpo & Hpb).
      assert (Hne : g_limbo st <> fx).
      { intros E. assert (Hut : u = t).
        { destruct (Nat.eq_dec u t) as [E'|E']; [exact E'|]. exfalso.
          apply (M_inj _ HM t u fx); [congruence | rewrite Epc; reflexivity | rewrite <- E; exact Hpo]. }
        subst u. destruct (M_fl _ HM t Ho) as [_ Hlt]. rewrite Epc in Hlt. cbn [pc_limbo] in Hlt. congruence. }
      rewrite setf_other by exact Hne. exact (HL Hl).
  Qed.

  Theorem Lim_reach st : reach init step st -> Lim st.
  Proof.
    apply (inv_rule_aux _ _ _ init step (fun s => Lk s /\ Mem s) Lim).
    - intros s Hr. split; [apply (Lk_reach xoff); exact Hr | apply (Mem_reach xoff); exact Hr].
    - intros H. cbn in H. contradiction.
    - intros s a s' es [HI HM] _ HL Hs. exact (Lim_step _ _ _ _ HI HM HL Hs).
  Qed.

  Lemma RU_mono st st' t p : g_rv st' t = g_rv st t -> g_nver st <= g_nver st' -> RU st t p -> RU st' t p.
  Proof. intros E1 E2 H. destruct p; cbn [RU] in *; unfold RB in *; rewrite ?E1; try exact H; intuition lia. Qed.

  Lemma RI_other st a st' es t' : Lk st -> Mem st -> Abs st -> step st a = Some (st', es) ->
    th st' t' = th st t' -> g_obs st' t' = g_obs st t' -> g_rv st' t' = g_rv st t' ->
    RI st t' (th st t') -> RI st' t' (th st' t').
  Proof.
    intros HI HM HA Hs Eth Eo Er [HU HK]. rewrite Eth. pose proof (nver_mono _ _ _ _ Hs) as Hmono.
    split; [apply (RU_mono st); assumption|]. intros HC. unfold Cur in *.
    destruct (step_env _ _ _ _ HI HM HA Hs) as [Hb|[Hv HE]].
    - rewrite Er, Hb in HC. destruct (th st t'); cbn [RK]; try exact I; exfalso; cbn [RU] in HU; unfold RB in HU; intuition lia.
    - apply (RK_env st); try assumption. apply HK. congruence.
  Qed.

  Lemma RI_own st a st' es t : Lk st -> Mem st -> Abs st -> Lim st -> (a = Step t \/ exists o, a = Start t o) ->
    RI st t (th st t) -> step st a = Some (st', es) -> RI st' t (th st' t).
  Proof.
    intros HI HM (HG & HA & _) HL Ha HR H.
    assert (Ht : forall u, (a = Step u \/ exists o, a = Start u o) -> u = t) by (intros u [->|[o ->]]; destruct Ha as [E|[o' E]]; congruence).
    clear Ha. step_inv H; st_simpl.
    all: assert (t0 = t) by (apply Ht; eauto); subst t0; clear Ht.
    all: rewrite ?upd_same.
    all: try (split; [exact I | intros _; exact I]).
    all: rewrite Epc in HR; destruct HR as [HU HK]; cbn [RU RK] in HU, HK.
    all: unfold RI, Cur in *; cbn [RU RK]; unfold RB, esc, J in *; st_simpl; rewrite ?upd_same; b2p.
    all: match goal with HG0 : G ?s0 |- _ => repeat match goal with
         | |- context [ic ?x] => lazymatch x with s0 => fail | _ => change (ic x) with (ic s0) end
         | |- context [mk ?x] => lazymatch x with s0 => fail | _ => change (mk x) with (mk s0) end
         | |- context [pend ?x] => lazymatch x with s0 => fail | _ => change (pend x) with (pend s0) end
         | |- context [slotw ?x] => lazymatch x with s0 => fail | _ => change (slotw x) with (slotw s0) end
         | |- context [chainw ?x] => lazymatch x with s0 => fail | _ => change (chainw x) with (chainw s0) end
         | |- context [succw ?x] => lazymatch x with s0 => fail | _ => change (succw x) with (succw s0) end
         | |- context [POS ?x] => lazymatch x with s0 => fail | _ => change (POS x) with (POS s0) end
         end end.
    all: (split; [try solve [intuition lia]|]).
    all: try (intros HC; specialize (HK HC)).
    - (* G2 -> GK 0 *) rsplit; try lia; first [exact (Lk_ver _ HI) | exact (Lk_ic _ HI)].
    - unfold ic. split; [lia|]. destruct (lookup k (g_map st)) as [v0|] eqn:EL; [|left; left; apply in_snoc; auto].
      right. destruct (lookup_wit _ _ _ HG EL) as [(j & [J1 J2] & J3 & _)|(y & Y1 & Y2 & _)]; [left | right; exists y; auto].
      exists j. unfold ic in J1. rsplit; try assumption; lia.
    - (* G2 -> GH *) rsplit; try lia; first [exact (Lk_ver _ HI) | exact (Lk_ic _ HI)].
    - destruct (lookup k (g_map st)) as [v0|] eqn:EL; [|left; left; apply in_snoc; auto].
      right. destruct (lookup_wit _ _ _ HG EL) as [(j & [J1 J2] & J3 & _)|(y & Y1 & Y2 & _)]; [unfold ic in J1; lia | exists y; auto].
    - (* GK match *) destruct HK as (H1 & H2). rsplit; [exact H1 | | right; exact Ei].
      destruct H2 as [[H|H]|H]; [left; left; apply in_snoc; auto | left; right; exact H | right; exact H].
    - (* GK next slot *) destruct HK as (H1 & H2). split; [exact H1|].
      destruct H2 as [[H|H]|[(j & J1 & J2 & J3 & J4)|H]]; [left; left; apply in_snoc; auto | left; right; exact H | | right; right; exact H].
      right. left. exists j. rsplit; try assumption. assert (j <> i) by (intros ->; contradiction). lia.
    - (* GK -> GH *) destruct HK as (H1 & H2).
      destruct H2 as [[H|H]|[(j & J1 & J2 & J3 & J4)|H]]; [left; left; apply in_snoc; auto | left; right; exact H | | right; exact H].
      exfalso. assert (j = i) by lia. subst j. contradiction.
    - (* GV *) destruct HK as (H1 & H2 & H3). rsplit; [exact H1 | | tauto].
      destruct H2 as [[H|H]|H]; [left; left; apply in_snoc; auto | left; right; exact H | right; exact H].
    - (* GD *) destruct HK as (H1 & H2 & H3). rsplit; [exact H1 | | tauto].
      destruct H2 as [[H|H]|H]; [left; left; apply in_snoc; auto | left; right; exact H | right; exact H].
    - (* GS continue -> GK *) destruct HK as (H1 & H2 & H3). split; [exact H1|].
      destruct H2 as [[H|H]|[(j & J1 & J2 & J3 & J4)|H]]; [left; left; apply in_snoc; auto | left; right; exact H | | right; right; exact H].
      right. left. exists j. rsplit; try assumption. unfold mk in J3. assert (j <> i) by lia. lia.
    - (* GS continue -> GH *) destruct HK as (H1 & H2 & H3).
      destruct H2 as [[H|H]|[(j & J1 & J2 & J3 & J4)|H]]; [left; left; apply in_snoc; auto | left; right; exact H | | right; exact H].
      exfalso. unfold mk in J3. lia.
    - (* GH -> GE *) destruct HK as [[H|H]|(y & Y1 & _)]; [left; apply in_snoc; auto | right; exact H |].
      exfalso. apply lchain_sub in Y1. rewrite (chain_nil _ HM Ei) in Y1. destruct Y1.
    - (* GH -> GXK *) assert (Hb : In (bhead st) (g_chain st)) by (apply hd_in; [exact (M_chd _ HM) | exact Ei]).
      rsplit; [left; exact Hb | |].
      + intros Hk. apply in_snoc. right. rewrite <- Hk. symmetry. apply item_lookup; assumption.
      + destruct HK as [[H|H]|H]; [left; left; apply in_snoc; auto | left; right; exact H | right].
        apply chainw_hd; assumption.
    - (* GXK match *) destruct HK as (H1 & H2 & H3). split; [exact H1|]. apply in_snoc. left. apply H2. exact Ei.
    - (* GXK no match *) destruct HK as (H1 & H2 & H3). split; [exact H1|].
      destruct H3 as [[H|H]|[H|H]]; [left; left; apply in_snoc; auto | left; right; exact H | contradiction | right; exact H].
    - (* GXV *) destruct HK as (H1 & H2). apply in_snoc. left. exact H2.
    - (* GXD *) apply in_snoc. left. exact HK.
    - (* GXN -> GXC *) destruct HK as (H1 & H2). destruct HU as [_ Hxz].
      assert (Hy : xnext st x = 0 \/ In (xnext st x) (g_chain st)).
      { destruct H1 as [H1|[_ H1]].
        - destruct (N.eq_dec (xnext st x) 0) as [E|E]; [left; exact E|right].
          apply linksto_next_in; [apply nil_not_0; exact HM | exact (M_clk _ HM) | exact H1 | exact E].
        - subst x. apply HL. exact Hxz. }
      destruct (N.eq_dec (xnext st x) 0) as [E|E].
      + left. split; [exact E|]. destruct H2 as [[H|H]|H]; [left; apply in_snoc; auto | right; exact H |].
        exfalso. destruct (succw_next _ _ _ HM H) as [Hc _]. rewrite E in Hc. exact (nil_not_0 _ HM Hc).
      + right. destruct Hy as [Hy|Hy]; [contradiction|]. rsplit; [exact E | left; exact Hy | |].
        * intros Hk. apply in_snoc. right. rewrite <- Hk. symmetry. apply item_lookup; assumption.
        * destruct H2 as [[H|H]|H]; [left; left; apply in_snoc; auto | left; right; exact H | right].
          apply succw_next; assumption.
    - (* GXC -> GE *) destruct HK as [[_ H]|(H & _)]; [|contradiction].
      destruct H as [H|H]; [left; apply in_snoc; auto | right; exact H].
    - (* GXC -> GXK *) destruct HK as [[H _]|(_ & H1 & H2 & H3)]; [contradiction|]. rsplit; [exact H1 | |].
      + intros Hk. apply in_snoc. left. apply H2. exact Hk.
      + destruct H3 as [[H|H]|H]; [left; left; apply in_snoc; auto | left; right; exact H | right; exact H].
  Qed.

  Definition Inv0 (st : state) : Prop := Lk st /\ Mem st /\ Abs st /\ Lim st.

  Lemma Inv0_reach st : reach init step st -> Inv0 st.
  Proof.
    intros Hr. split; [apply (Lk_reach xoff); exact Hr|]. split; [apply (Mem_reach xoff); exact Hr|].
    split; [apply (Abs_reach xoff); exact Hr | apply Lim_reach; exact Hr].
  Qed.

  Theorem RI_reach st : reach init step st -> forall t, RI st t (th st t).
  Proof.
    apply (inv_rule_aux _ _ _ init step Inv0 (fun s => forall t, RI s t (th s t))).
    - exact Inv0_reach.
    - intros t. cbn. split; [exact I | intros _; exact I].
    - intros s a s' es (HI & HM & HA & HL) _ HR Hs t'.
      destruct (step_other _ _ _ _ Hs) as (t & Ho & Ha).
      destruct (Nat.eq_dec t' t) as [->|Hne].
      + exact (RI_own _ _ _ _ t HI HM HA HL Ha (HR t) Hs).
      + destruct (Ho t' Hne) as (E1 & E2 & E3). exact (RI_other _ _ _ _ t' HI HM HA Hs E1 E2 E3 (HR t')).
  Qed.

  Lemma cur_of_version st t s : Lk st -> Bnd st -> RB st t s -> bs_version s = bs_version (bst st) -> Cur st t.
  Proof.
    intros HI HB (H1 & H2 & _) E. unfold Cur, Bnd in *. rewrite H2, (Lk_ver _ HI) in E.
    rewrite !N.mod_small in E by lia. exact E.
  Qed.

  Lemma hist_r_step st a st' es : Inv0 st -> (forall t, RI st t (th st t)) ->
    (Bnd st -> forall h, In h (g_hist st) -> hist_ok_r h) ->
    step st a = Some (st', es) -> Bnd st' -> forall h, In h (g_hist st') -> hist_ok_r h.
  Proof.
    intros (HI & HM & (HG & HA & _) & HL) HR HH H HB'.
    assert (HB : Bnd st) by (pose proof (nver_mono _ _ _ _ H); unfold Bnd in *; lia). specialize (HH HB). clear HB'.
    step_inv H; st_simpl.
    all: try exact HH.
    all: intros h Hh; apply in_app_or in Hh; destruct Hh as [Hh|[<-|[]]]; [apply HH; exact Hh|].
    all: unfold hist_ok_r, ins_op, del_op; cbn [h_op h_res h_obs]; try (destruct a; exact I); try (destruct e; exact I).
    all: rewrite ?upd_same.
    all: try exact I.
    all: try solve [pose proof (HA t) as Hab; rewrite Epc in Hab; cbn [pc_abs] in Hab; destruct Hab as [Hop _];
                    destruct o; cbn [itop] in Hop; try contradiction; exact I].
    all: pose proof (HR t) as [HU HK]; rewrite Epc in HU, HK; cbn [RU RK] in HU, HK; b2p.
    - (* GS returns v *) destruct HU as [HU Hi]. pose proof (cur_of_version _ _ _ HI HB HU Ec) as HC.
      destruct (HK HC) as (H1 & _ & [H3|[H3 H4]]); [unfold mk in H3; contradiction|].
      left. exists v. split; [reflexivity|]. apply in_snoc. right. symmetry. apply (G_map _ HG). left. exists i.
      unfold vslot, mk. split; [split; [lia | intros E; apply Ec0; symmetry; exact E] | auto].
    - (* GXS returns v *) pose proof (cur_of_version _ _ _ HI HB HU Ec) as HC.
      left. exists v. split; [reflexivity|]. apply in_snoc. left. exact (HK HC).
    - (* GE returns absent *) pose proof (cur_of_version _ _ _ HI HB HU Ec) as HC.
      right. split; [reflexivity|]. apply in_snoc. destruct (HK HC) as [H|[H _]]; [left; exact H | right; symmetry; exact H].
  Qed.

  Theorem hist_r_reach st : reach init step st -> Bnd st -> forall h, In h (g_hist st) -> hist_ok_r h.
  Proof.
    apply (inv_rule_aux _ _ _ init step (fun s => Inv0 s /\ forall t, RI s t (th s t))
             (fun s => Bnd s -> forall h, In h (g_hist s) -> hist_ok_r h)).
    - intros s Hr. split; [apply Inv0_reach; exact Hr | apply RI_reach; exact Hr].
    - intros _ h [].
    - intros s a s' es [H0 HR] _ HH Hs. exact (hist_r_step _ _ _ _ H0 HR HH Hs).
  Qed.

  (** * Final statements *)

  (** ** structure *)
  Definition slots (n : N) : list N := map N.of_nat (seq 0 (N.to_nat n)).
  Lemma in_slots n j : In j (slots n) <-> j < n.
  Proof.
    unfold slots. rewrite in_map_iff. split.
    - intros (i & <- & Hi). apply in_seq in Hi. lia.
    - intros H. exists (N.to_nat j). split; [apply Nnat.N2Nat.id | apply in_seq; lia].
  Qed.
  (** the pairs the bucket holds: array slots below item_count, then the extension chain *)
  Definition pairs (st : state) : list (N * N) :=
    map (fun j => (akey st j, aval st j)) (slots (ic st)) ++ map (fun x => (xkey st x, xval st x)) (g_chain st).

  (** When nobody holds the bucket lock: lock bit and delete marker are clear, [g_map] associates exactly the
      pairs of the slots [0, item_count) and of the chain, and no key occurs at two places. *)
  Theorem vhm_structure st : reach init step st -> g_owner st = None ->
    bs_is_locked (bst st) = false /\ bs_delete_marker (bst st) = 0 /\
    (forall k v, lookup k (g_map st) = Some v <-> In (k, v) (pairs st)) /\
    (forall j j', j < ic st -> j' < ic st -> akey st j = akey st j' -> j = j') /\
    (forall x x', In x (g_chain st) -> In x' (g_chain st) -> xkey st x = xkey st x' -> x = x') /\
    (forall j x, j < ic st -> In x (g_chain st) -> akey st j <> xkey st x) /\
    (g_chain st <> [] -> ic st = 3).
  Proof.
    intros Hr Ho. destruct (Inv0_reach _ Hr) as (HI & HM & (HG & _) & _).
    pose proof (Lk_bit _ HI) as Hb. rewrite Ho in Hb. pose proof (Lk_mk _ HI Ho) as Hmk.
    destruct (M_fl0 _ HM Ho) as [Hd _]. pose proof (lchain_nodup _ Hd) as Hl.
    assert (Hv : forall j, vslot st j <-> j < ic st) by (intros j; unfold vslot, mk; rewrite Hmk; lia).
    rsplit; try assumption.
    - intros k v. rewrite (G_map _ HG). unfold pairs, slot_has, item_has. rewrite in_app_iff, !in_map_iff, Hl. split.
      + intros [(j & H1 & H2 & H3)|(x & H1 & H2 & H3)].
        * left. exists j. split; [congruence|]. apply in_slots. apply (proj1 (Hv j)). exact H1.
        * right. exists x. split; [congruence | exact H1].
      + intros [(j & H1 & H2)|(x & H1 & H2)].
        * left. exists j. injection H1 as <- <-. apply in_slots in H2. apply (proj2 (Hv j)) in H2. auto.
        * right. exists x. injection H1 as <- <-. auto.
    - intros j j' H1 H2. apply (G_us _ HG); apply Hv; assumption.
    - rewrite <- Hl. apply (G_ux _ HG).
    - rewrite <- Hl. intros j x H1. apply (G_usx _ HG). apply Hv. exact H1.
    - apply (G_full _ HG).
  Qed.

  (** the chain of the bucket and the free list are the duplicate-free lists [g_chain] / [g_free] linked through
      the next fields from bucket.head / the extension bucket's head, they are disjoint, and an item that a
      thread has popped or unlinked (and not yet linked / pushed) is in neither of them *)
  Theorem vhm_lists st : reach init step st ->
    bhead st = hd 0 (g_chain st) /\ linksto (xnext st) (g_chain st) 0 /\ NoDup (g_chain st) /\
    xhead st = hd 0 (g_free st) /\ linksto (xnext st) (g_free st) 0 /\ NoDup (g_free st) /\
    (forall x, In x (g_chain st) -> In x (g_free st) -> False) /\
    (forall x, In x (g_chain st) \/ In x (g_free st) -> 1 <= x <= 10) /\
    (forall t x, pc_own (th st t) = Some x -> ~ In x (g_chain st) /\ ~ In x (g_free st)).
  Proof.
    intros Hr. destruct (Inv0_reach _ Hr) as (_ & HM & _).
    rsplit; try apply HM.
    all: try (intros x [H|H]; [apply (M_cok _ HM) | apply (M_fok _ HM)]; exact H).
    all: try (intros t x H; apply (M_own _ HM) in H; tauto).
  Qed.

  (** the lock: the lock bit is set iff a thread is between its acquire-CAS and its unlocking store, there is at
      most one such thread, and the version field counts the version increments *)
  Theorem vhm_lock st : reach init step st ->
    (bs_is_locked (bst st) = true <-> exists t, pc_bst (th st t) <> None) /\
    (forall t t', pc_bst (th st t) <> None -> pc_bst (th st t') <> None -> t = t') /\
    bs_version (bst st) = g_nver st mod 2 ^ 27.
  Proof.
    intros Hr. pose proof (Lk_reach xoff _ Hr) as HI. rsplit.
    - rewrite (Lk_bit _ HI). split.
      + destruct (g_owner st) as [t|] eqn:Eo; [|discriminate]. intros _. exists t. rewrite (Lk_pc _ HI t Eo). discriminate.
      + intros [t Ht]. rewrite (Lk_own _ HI t Ht). reflexivity.
    - intros t t'. apply (vhmit_mutex xoff); exact Hr.
    - exact (Lk_ver _ HI).
  Qed.

  (** ** the version rule: what may change without a version increment
      Every step either increments the version (and [g_nver]) or satisfies [Env]:
      the item count does not decrease; a valid slot (below the item count, not marked) keeps key and value unless
      this step marks it, and marking it removes its key from [g_map]; the marker stays;
      an item of the chain (or the item that was just unlinked) keeps key and value and stays chain-or-unlinked
      (it is not pushed to the free list or reused); an item leaves the chain only together with its key leaving
      [g_map]; what a reader could reach from its position through next links stays reachable. *)
  Theorem vhm_version_rule st a st' es : reach init step st -> step st a = Some (st', es) ->
    g_nver st' = g_nver st + 1 \/ (g_nver st' = g_nver st /\ Env st st').
  Proof. intros Hr Hs. destruct (Inv0_reach _ Hr) as (HI & HM & HA & _). exact (step_env _ _ _ _ HI HM HA Hs). Qed.

  (** ** writers *)
  (** [g_map] changes only at a step of a writer that records in [g_lp] what [g_map] associated with its key just
      before: insertion of an absent... (the linearization points) *)
  Theorem vhm_lp_step st a st' es : step st a = Some (st', es) ->
    g_map st' = g_map st \/
    exists t k, a = Step t /\ g_lp st' t = Some (lookup k (g_map st)) /\
      ((exists v, g_map st' = (k, v) :: g_map st) \/ g_map st' = rem k (g_map st)).
  Proof.
    intros H. step_inv H; st_simpl; try (left; reflexivity); right; match goal with |- context [VhmDefs.lookup ?k0 (g_map _)] => exists t, k0 end; rewrite ?upd_same; (split; [reflexivity|]); (split; [reflexivity|]); eauto.
  Qed.

  (** emplace / get_or_emplace return 'new' iff the key was absent at the linearization point (else the value
      found, for get_or_emplace), erase / extract return 'ok' iff it was present, extract returns its value *)
  Theorem vhm_writers st : reach init step st -> forall h, In h (g_hist st) -> hist_ok_w h.
  Proof. intros Hr. destruct (Inv0_reach _ Hr) as (_ & _ & (_ & _ & HH) & _). exact HH. Qed.

  (** ** readers *)
  (** [g_obs t] is: what [g_map] associated with the key at every step of t's current try_get_value call *)
  Definition get_key (p : pc) : option N :=
    match p with
    | G1 k | G2 k | GK k _ _ | GV k _ _ | GD k _ _ _ | GS k _ _ _ | GH k _ | GXK k _ _ | GXV k _ _ | GXD k _ _ _
    | GXS k _ _ _ | GXN k _ _ | GXC k _ _ | GE k _ => Some k
    | _ => None
    end.
  Theorem vhm_obs_step st a st' es t : step st a = Some (st', es) ->
    match get_key (th st t) with
    | Some k => a = Step t /\ g_obs st' t = g_obs st t ++ [lookup k (g_map st)] \/ (a <> Step t /\ g_obs st' t = g_obs st t)
    | None => g_obs st' t = g_obs st t \/ (g_obs st' t = [] /\ exists k, th st t = Begin (OGet k))
    end.
  Proof.
    intros H. step_inv H; st_simpl.
    all: destruct (Nat.eq_dec t t0) as [->|Hne]; [rewrite ?upd_same, ?Epc | rewrite ?upd_other by exact Hne].
    all: cbn [get_key].
    all: try (left; split; reflexivity).
    all: try (left; reflexivity).
    all: try (right; split; [reflexivity | eexists; reflexivity]).
    all: destruct (get_key (th st t)); [right; split; [congruence | reflexivity] | left; reflexivity].
  Qed.

  (** C10, readers: a completed try_get_value(k) that returned v observed [g_map k = v] at one of its steps, one
      that returned 'absent' observed k absent at one of its steps (as long as the 27-bit version counter has
      not wrapped around: fewer than 2^27 removals) *)
  Theorem vhm_readers st : reach init step st -> Bnd st ->
    forall h k, In h (g_hist st) -> h_op h = OGet k ->
    (exists v, h_res h = [4; 1; v] /\ In (Some v) (h_obs h)) \/ (h_res h = [4; 0] /\ In None (h_obs h)).
  Proof.
    intros Hr HB h k Hh Ho. pose proof (hist_r_reach _ Hr HB h Hh) as H. unfold hist_ok_r in H. rewrite Ho in H. exact H.
  Qed.

  (** ** the reader statement over executions (independent of the ghost [g_obs]) *)
  (** [exec s h]: [s] is reachable and [h] lists the states visited before, most recent first *)
  Inductive exec : state -> list state -> Prop :=
  | exec_init : exec init []
  | exec_step : forall s h a s' es, exec s h -> step s a = Some (s', es) -> exec s' (s :: h).

  Lemma exec_reach s h : exec s h -> reach init step s.
  Proof. induction 1 as [|s h a s' es _ IH Hs]; [apply reach_init | eapply reach_step; eauto]. Qed.

  (** own steps of a reader keep the key *)
  Lemma get_key_step st a t st' es k : step st a = Some (st', es) -> a = Step t -> get_key (th st' t) = Some k ->
    th st t = Begin (OGet k) \/ get_key (th st t) = Some k.
  Proof.
    intros H Ea. step_inv H; try discriminate Ea; injection Ea as ->.
    all: st_simpl; rewrite ?upd_same; cbn [get_key]; try discriminate; intros E; try (injection E as <-).
    all: try (right; rewrite Epc; reflexivity).
    all: try (left; reflexivity).
    all: try (left; exact Epc).
  Qed.

  Lemma begin_get_obs st a t st' es k : step st a = Some (st', es) -> a = Step t -> th st t = Begin (OGet k) -> g_obs st' t = [].
  Proof.
    intros H Ea. step_inv H; try discriminate Ea; injection Ea as ->.
    all: st_simpl; rewrite ?upd_same; try congruence. all: reflexivity.
  Qed.

  Lemma start_pc st a t o st' es : step st a = Some (st', es) -> a = Start t o -> get_key (th st' t) = None.
  Proof. intros H Ea. step_inv H; try discriminate Ea. all: injection Ea as -> ->; st_simpl; rewrite upd_same; reflexivity. Qed.

  (** every recorded observation is the association of the key in a state of the execution at which (and since
      which) the thread has been inside this call *)
  Definition obs_ok (s : state) (h : list state) : Prop :=
    forall t k, get_key (th s t) = Some k -> forall o, In o (g_obs s t) ->
    exists m, (m < length h)%nat /\ lookup k (g_map (nth m h s)) = o /\
              forall m', (m' <= m)%nat -> get_key (th (nth m' h s) t) = Some k.

  Lemma obs_ok_exec s h : exec s h -> obs_ok s h.
  Proof.
    induction 1 as [|s h a s' es He IH Hs].
    - intros t k Hk. cbn in Hk. discriminate.
    - intros t k Hk o Ho.
      assert (Hshift : forall o0, get_key (th s t) = Some k -> In o0 (g_obs s t) ->
                exists m, (m < length (s :: h))%nat /\ lookup k (g_map (nth m (s :: h) s')) = o0 /\
                          forall m', (m' <= m)%nat -> get_key (th (nth m' (s :: h) s') t) = Some k).
      { intros o0 Hk0 Ho0. destruct (IH t k Hk0 o0 Ho0) as (m & M1 & M2 & M3). exists (S m). cbn [length nth].
        split; [lia|]. split; [rewrite (nth_indep h s' s) by exact M1; exact M2|].
        intros [|m'] Hm'; [exact Hk0|]. rewrite (nth_indep h s' s) by lia. apply M3. lia. }
      pose proof (vhm_obs_step _ _ _ _ t Hs) as Hobs.
      destruct (step_other _ _ _ _ Hs) as (u & Hu & Ha).
      destruct (Nat.eq_dec t u) as [->|Hne].
      + destruct Ha as [->|[o' ->]].
        * destruct (get_key_step _ _ _ _ _ _ Hs eq_refl Hk) as [Hb|Hk0].
          -- rewrite (begin_get_obs _ _ _ _ _ _ Hs eq_refl Hb) in Ho. destruct Ho.
          -- rewrite Hk0 in Hobs. destruct Hobs as [[_ Hobs]|[Hc _]]; [|congruence]. rewrite Hobs in Ho.
             apply in_snoc in Ho. destruct Ho as [Ho| ->]; [apply Hshift; assumption|].
             exists 0%nat. cbn [length nth]. split; [lia|]. split; [reflexivity|]. intros m' Hm'. assert (m' = 0)%nat by lia. subst m'. exact Hk0.
        * (* a Start action of this thread: it was idle *)
          rewrite (start_pc _ _ _ _ _ _ Hs eq_refl) in Hk. discriminate.
      + destruct (Hu t Hne) as (E1 & E2 & _). rewrite E1 in Hk. rewrite E2 in Ho. apply Hshift; assumption.
  Qed.

  Lemma ret_hist st a t st' es k r : step st a = Some (st', es) -> a = Step t -> get_key (th st t) = Some k ->
    In (ERet t r) es ->
    exists w, In (mkH t (OGet k) r w (g_obs st t ++ [lookup k (g_map st)])) (g_hist st').
  Proof.
    intros H Ea. step_inv H; try discriminate Ea; injection Ea as ->.
    all: rewrite Epc; cbn [get_key]; try discriminate; intros E; injection E as <-.
    all: cbn [In app]; intros Hr; repeat (destruct Hr as [Hr|Hr]; try discriminate Hr); try contradiction.
    all: injection Hr as <-; st_simpl; rewrite ?upd_same; eexists; apply in_snoc; right; reflexivity.
  Qed.

  (** C10, the main theorem: in every execution, a try_get_value(k) call of thread t that returns r at the step
      s -> s' has a state [sm] of the execution, at which and since which t has been inside this call, where
      [g_map] associated k with the returned value (r = [4;1;v]), resp. where k was absent (r = [4;0]) *)
  Theorem vhm_try_get_value_linearizable s h a t k s' es r :
    exec s h -> step s a = Some (s', es) -> a = Step t -> get_key (th s t) = Some k -> In (ERet t r) es -> Bnd s' ->
    exists m, (m <= length h)%nat /\
      (forall m', (m' <= m)%nat -> get_key (th (nth m' (s :: h) s) t) = Some k) /\
      ((exists v, r = [4; 1; v] /\ lookup k (g_map (nth m (s :: h) s)) = Some v) \/
       (r = [4; 0] /\ lookup k (g_map (nth m (s :: h) s)) = None)).
  Proof.
    intros He Hs Ea Hk Hr HB.
    destruct (ret_hist _ _ _ _ _ _ _ Hs Ea Hk Hr) as [w Hh].
    assert (Hreach : reach init step s') by (eapply reach_step; [apply (exec_reach _ _ He) | exact Hs]).
    pose proof (vhm_readers _ Hreach HB _ k Hh eq_refl) as Hres. cbn [h_res h_obs] in Hres.
    assert (Hwit : forall o, In o (g_obs s t ++ [lookup k (g_map s)]) ->
              exists m, (m <= length h)%nat /\ (forall m', (m' <= m)%nat -> get_key (th (nth m' (s :: h) s) t) = Some k) /\
                        lookup k (g_map (nth m (s :: h) s)) = o).
    { intros o Ho. apply in_snoc in Ho. destruct Ho as [Ho| ->].
      - destruct (obs_ok_exec _ _ He t k Hk o Ho) as (m & M1 & M2 & M3). exists (S m). cbn [nth]. split; [lia|]. split; [|exact M2].
        intros [|m'] Hm'; [exact Hk | apply M3; lia].
      - exists 0%nat. cbn [nth]. split; [lia|]. split; [|reflexivity]. intros m' Hm'. assert (m' = 0)%nat by lia. subst m'. exact Hk. }
    destruct Hres as [(v & E & Hin)|[E Hin]]; destruct (Hwit _ Hin) as (m & M1 & M2 & M3); exists m; (split; [exact M1|]); (split; [exact M2|]).
    - left. exists v. auto.
    - right. auto.
  Qed.

  (** * C11: iterators *)

  (** exclusivity: while a thread's iterator is positioned (also between operations: [ItIdle]) the bucket is locked
      with the iterator's state word and no other thread is between a lock acquisition and its unlocking store -
      in particular no other iterator is positioned and no writer is inside the bucket *)
  Theorem vhmit_iterator_exclusive st t s idx x p : reach init step st -> th st t = ItIdle (It s idx x p) ->
    bst st = bs_locked s /\ bs_is_locked (bst st) = true /\ g_owner st = Some t /\
    forall t', t' <> t -> pc_bst (th st t') = None.
  Proof.
    intros Hr Ht. pose proof (Lk_reach xoff _ Hr) as HI.
    assert (Ho : g_owner st = Some t) by (apply (Lk_own _ HI); rewrite Ht; discriminate).
    pose proof (Lk_pc _ HI t Ho) as Hb. rewrite Ht in Hb. cbn [pc_bst] in Hb. injection Hb as Hb.
    rsplit; [congruence | rewrite (Lk_bit _ HI), Ho; reflexivity | exact Ho |].
    intros t' Hne. destruct (pc_bst (th st t')) eqn:E; [|reflexivity]. exfalso. apply Hne.
    assert (Ho' : g_owner st = Some t') by (apply (Lk_own _ HI); rewrite E; discriminate). congruence.
  Qed.

  (** a positioned iterator stands on an element of the bucket: an array slot below the item count or an item of
      the extension chain (with its predecessor link), and the bucket word it will write back is well formed *)
  Theorem vhmit_iterator_position st t s idx x p : reach init step st -> th st t = ItIdle (It s idx x p) ->
    (x = 0 -> idx < bs_item_count s) /\ (x <> 0 -> In x (g_chain st) /\ link_ok st p x) /\
    bs_item_count s = ic st /\ bs_is_locked s = false /\ bs_delete_marker s = 0.
  Proof.
    intros Hr Ht. destruct (Inv0_reach _ Hr) as (HI & HM & _).
    pose proof (Lk_wf _ HI t) as Hw. rewrite Ht in Hw. cbn [pc_wf it_wf it_elem] in Hw. destruct Hw as [(Hs & _) He].
    pose proof (M_ch _ HM t) as Hc. rewrite Ht in Hc. cbn [pc_ch] in Hc.
    destruct (vhmit_iterator_exclusive _ _ _ _ _ _ Hr Ht) as (Hb & _).
    rsplit; [exact He | exact Hc | unfold ic; rewrite Hb; symmetry; apply ic_locked | apply Hs | apply Hs].
  Qed.

  (** erase(iterator) removes exactly the current pair: at its linearization point the pair (w, v) that the
      operation read at the iterator's position is in [g_map], and [g_map] loses exactly the key w *)
  Theorem vhmit_erase_removes_current st t st' es : reach init step st -> step st (Step t) = Some (st', es) ->
    match th st t with
    | EX2 (It s idx x p) w v nx =>
      xkey st x = w /\ xval st x = v /\ lookup w (g_map st) = Some v /\ g_map st' = rem w (g_map st)
    | EA1 (It s idx x p) w v _ | EB1 (It s idx x p) w v =>
      akey st idx = w /\ aval st idx = v /\ lookup w (g_map st) = Some v /\ g_map st' = rem w (g_map st)
    | EB6 (It s idx x p) w v =>
      idx = bs_item_count s - 1 ->
      akey st idx = w /\ aval st idx = v /\ lookup w (g_map st) = Some v /\ g_map st' = rem w (g_map st)
    | _ => True
    end.
  Proof.
    intros Hr Hs. destruct (Inv0_reach _ Hr) as (HI & HM & (HG & HA & _) & _).
    destruct (th st t) eqn:Epc; try exact I; destruct i as [s idx x p].
    all: prep3 HI HM HA t Epc.
    all: assert (Hwfs : wf_s s) by tauto; destruct (wf_fields s Hwfs) as (FL1 & FL2 & FM & _).
    - (* EX2 *) destruct Hab as [H1 H2]. destruct Hch as (Hx & _).
      rsplit; try assumption; [rewrite <- H2; apply own_item; assumption|].
      cbn [step] in Hs. rewrite Epc in Hs. injection Hs as <- _. st_simpl_goal. reflexivity.
    - (* EA1 *) destruct Hab as [H1 H2]. destruct Hwf as (_ & Hi & _).
      assert (Hl : lookup w (g_map st) = Some v).
      { rewrite <- H2. apply own_slot; [exact HG | unfold mk; rewrite <- Hbst; exact FL2 | unfold ic; rewrite <- Hbst, FL1; exact Hi | exact H1]. }
      rsplit; try assumption. cbn [step] in Hs. rewrite Epc in Hs. injection Hs as <- _. st_simpl_goal. reflexivity.
    - (* EB1 *) destruct Hab as [H1 H2]. destruct Hwf as (_ & Hi & _).
      assert (Hl : lookup w (g_map st) = Some v).
      { rewrite <- H2. apply own_slot; [exact HG | unfold mk; rewrite <- Hbst; exact FL2 | unfold ic; rewrite <- Hbst, FL1; exact Hi | exact H1]. }
      rsplit; try assumption. cbn [step] in Hs. rewrite Epc in Hs. injection Hs as <- _. st_simpl_goal. reflexivity.
    - (* EB6 *) intros Ei. destruct Hwf as (_ & Hi & _).
      destruct (N.eqb_spec idx (bs_item_count s - 1)) as [_|Hn]; [|contradiction].
      destruct Hab as [H1 H2].
      assert (Hl : lookup w (g_map st) = Some v).
      { rewrite <- H2. apply own_slot; [exact HG | unfold mk; rewrite <- Hbst; exact FL2 | unfold ic; rewrite <- Hbst, FL1; exact Hi | exact H1]. }
      rsplit; try assumption. cbn [step] in Hs. rewrite Epc in Hs.
      destruct (N.eqb_spec idx (bs_item_count s - 1)) as [_|Hn]; [|contradiction].
      destruct (idx =? _) in Hs; injection Hs as <- _; st_simpl_goal; reflexivity.
  Qed.

  (** results of erase(iterator): unless the iterator was at the end, the erased key was present (with the value
      the operation read) at the linearization point *)
  Theorem vhmit_erase_results st : reach init step st -> forall h, In h (g_hist st) -> h_op h = OIte ->
    h_res h = [6; 2] \/ exists v, h_wit h = Some (Some v).
  Proof.
    intros Hr h Hh Ho. destruct (Inv0_reach _ Hr) as (_ & _ & (_ & _ & HH) & _).
    specialize (HH h Hh). unfold hist_ok_w in HH. rewrite Ho in HH. exact HH.
  Qed.

  (** after reset (and after find() returned end(), after ++ / erase moved past the last bucket): when every thread
      is idle with its iterator at end(), every bucket lock is released *)
  Theorem vhmit_locks_released st : reach init step st -> (forall t, th st t = Idle) ->
    bs_is_locked (bst st) = false /\ g_owner st = None /\ forall b, obst st b = 0.
  Proof.
    intros Hr Hi. pose proof (Lk_reach xoff _ Hr) as HI.
    assert (Ho : g_owner st = None).
    { destruct (g_owner st) as [t|] eqn:E; [|reflexivity]. pose proof (Lk_pc _ HI t E) as Hb. rewrite Hi in Hb. discriminate. }
    rsplit; [rewrite (Lk_bit _ HI), Ho; reflexivity | exact Ho |].
    intros b. rewrite (Lk_obit _ HI b). destruct (g_ob st b) as [t|] eqn:E; [|reflexivity].
    pose proof (Lk_opc _ HI t b E) as Hb. rewrite Hi in Hb. discriminate.
  Qed.

  (** reset releases the lock: the step of [R1] stores the iterator's state word (unlocked) and ends the operation *)
  Theorem vhmit_reset_unlocks st t i st' es : reach init step st -> th st t = R1 i -> step st (Step t) = Some (st', es) ->
    bs_is_locked (bst st') = false /\ g_owner st' = None /\ th st' t = Idle.
  Proof.
    intros Hr Ht Hs. pose proof (Lk_reach xoff _ Hr) as HI.
    pose proof (Lk_wf _ HI t) as Hw. rewrite Ht in Hw. destruct i as [s idx x p]. cbn [pc_wf it_wf] in Hw. destruct Hw as [((_ & Hl & _) & _) _].
    cbn [step] in Hs. rewrite Ht in Hs. injection Hs as <- _. st_simpl_goal. rewrite upd_same. auto.
  Qed.
End VhmItInv.

(** * Examples (run + vm_compute) on reachable states of the model with iterators *)
Module VhmItExamples.
  Definition steps (t : nat) (n : nat) : list action := repeat (Step t) n.
  Definition ins0 (k : N) : list action := Start 0%nat (OIns k (10 * k)) :: steps 0 30.
  (** thread 0 inserts 1..5: array 1 2 3, chain 5 (item 9) -> 4 (item 10) *)
  Definition setup : list action := ins0 1 ++ ins0 2 ++ ins0 3 ++ ins0 4 ++ ins0 5.
  Definition stof (acts : list action) : state := fst (fst (run (step 8256) init acts)).

  (** thread 1 calls try_get_value(5) and is stopped when it stands on item 9 (key 5);
      thread 2 positions its iterator on key 5 (it = find(5)): the bucket stays locked after the operation *)
  Definition a1 := setup ++ [Start 1%nat (OGet 5)] ++ steps 1 7.
  Definition a2 := a1 ++ [Start 2%nat (OItf 5)] ++ steps 2 30.
  Example ex_iterator_positioned :
    (th (stof a2) 1%nat, th (stof a2) 2%nat, bst (stof a2), g_owner (stof a2)) =
    (GXK 5 6 9, ItIdle (It 6 3 9 0), 7, Some 2%nat).
  Proof. vm_compute. reflexivity. Qed.

  (** erase(it): item 9 is unlinked and freed, the version is incremented while the lock stays held (39 = locked,
      3 items, version 1), the iterator moves to the next element (key 4 in item 10); result "5>4=40" *)
  Definition a3 := a2 ++ [Start 2%nat OIte] ++ steps 2 40.
  Example ex_iterator_erase :
    (th (stof a3) 1%nat, th (stof a3) 2%nat, bst (stof a3), g_owner (stof a3), g_chain (stof a3), g_free (stof a3), g_map (stof a3),
     map (fun h => (h_op h, h_res h, h_wit h)) (filter (fun h => Nat.eqb (h_t h) 2) (g_hist (stof a3)))) =
    (GXK 5 6 9, ItIdle (It 38 3 10 0), 39, Some 2%nat, [10], [9; 8; 7; 6; 5; 4; 3; 2; 1], [(4, 40); (3, 30); (2, 20); (1, 10)],
     [(OItf 5, [5; 1; 5; 50], None); (OIte, [6; 1; 5; 4; 40], Some (Some 50))]).
  Proof. vm_compute. reflexivity. Qed.

  (** the reader continues on the freed item while the iterator still holds the lock: its version validation fails,
      it starts over and answers 'absent' *)
  Definition a4 := a3 ++ steps 1 40.
  Example ex_reader_not_misled :
    (th (stof a4) 1%nat, th (stof a4) 2%nat, bst (stof a4),
     map (fun h => (h_op h, h_res h)) (filter (fun h => Nat.eqb (h_t h) 1) (g_hist (stof a4)))) =
    (Idle, ItIdle (It 38 3 10 0), 39, [(OGet 5, [4; 0])]).
  Proof. vm_compute. reflexivity. Qed.

  (** reset releases the lock and writes back the incremented version *)
  Definition a5 := a4 ++ [Start 2%nat OItr] ++ steps 2 5.
  Example ex_reset_unlocks : (th (stof a5) 2%nat, bst (stof a5), g_owner (stof a5)) = (Idle, 38, None).
  Proof. vm_compute. reflexivity. Qed.

  (** a writer that arrives while the iterator is positioned spins (re-reads data_block and the state) until the reset *)
  Definition c3 := a2 ++ [Start 3%nat (OIns 6 60)] ++ steps 3 50.
  Example ex_writer_waits : th (stof c3) 3%nat = L2 false 6 60.
  Proof. vm_compute. reflexivity. Qed.
  Definition c4 := c3 ++ [Start 2%nat OItr] ++ steps 2 5 ++ steps 3 50.
  Example ex_writer_proceeds :
    (th (stof c4) 2%nat, th (stof c4) 3%nat, bst (stof c4), g_owner (stof c4), g_map (stof c4)) =
    (Idle, Idle, 6, None, [(6, 60); (5, 50); (4, 40); (3, 30); (2, 20); (1, 10)]).
  Proof. vm_compute. reflexivity. Qed.
End VhmItExamples.
