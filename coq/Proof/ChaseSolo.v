(** C16 for xenium::chase_work_stealing_deque: try_push, try_pop and try_steal finish within an
    explicit number of solo steps from EVERY reachable state, for both array policies.
    All three operations are loop free except for [grow] (Growing policy), which copies the
    [grow_moves] list computed when the new bucket is allocated: at most [capacity + 1] pairs of
    (load, store).  No axioms, no admits. *)
From Coq Require Import NArith List Bool Lia PeanoNat.
From XV Require Import Base.Word Conc.Lts Conc.Ev Conc.Solo gen.GrowingArrayGen Model.ChaseDefs.
Import ListNotations.
Local Open Scope N_scope.

Definition idle (s : state) (t : nat) : bool := match th s t with Idle => true | _ => false end.

(** remaining solo steps (upper bound) of a thread at program point [p]; [g] = growing policy,
    [capn] = current capacity *)
Definition pc_mu (g : bool) (capn : nat) (p : pc) : nat :=
  match p with
  | Idle => 0
  | Begin (OPush _) => if g then 12 + 2 * capn else 5
  | Pu1 _ => if g then 11 + 2 * capn else 4
  | Pu2 _ _ => if g then 10 + 2 * capn else 3
  | Pu3 _ _ _ => 9 + 2 * capn
  | PuCanGrow _ _ _ => 8 + 2 * capn
  | PuGrow0 _ _ _ => 7 + 2 * capn
  | PuGrowLd _ _ _ todo => 2 * length todo + 4
  | PuGrowSt _ _ _ _ todo => 2 * length todo + 3
  | PuGrowEnd _ _ _ => 4
  | Pu4 _ _ => 3
  | Pu5 _ _ _ => 2
  | Pu6 _ _ => 1
  | Begin OPop => if g then 9 else 8
  | Po1 => if g then 8 else 7
  | Po2 _ => if g then 7 else 6
  | Po3 _ => if g then 6 else 5
  | Po4 _ => 5
  | Po5 _ _ => 4
  | Po6 _ _ => 3
  | Po7 _ _ _ => 2
  | Po8 _ _ => 1
  | Begin OSteal => if g then 6 else 5
  | St1 => if g then 5 else 4
  | St2 _ => if g then 4 else 3
  | St3 _ => 3
  | St4 _ _ => 2
  | St5 _ _ => 1
  end%nat.

Definition chase_bound (pol : policy) (s : state) (t : nat) : nat :=
  pc_mu (is_growing pol) (N.to_nat (capacity (sh s))) (th s t).

(** the copy list of an unfinished grow is never empty (the model's [PuGrowLd]/[PuGrowSt] steps are
    disabled on an empty list) *)
Definition grow_ok (p : pc) : Prop :=
  match p with
  | PuGrowLd _ _ _ todo | PuGrowSt _ _ _ _ todo => todo <> []
  | _ => True
  end.

(** program points that exist only with the Growing policy *)
Definition grow_pc (p : pc) : bool :=
  match p with
  | Pu3 _ _ _ | PuCanGrow _ _ _ | PuGrow0 _ _ _ | PuGrowLd _ _ _ _ | PuGrowSt _ _ _ _ _
  | PuGrowEnd _ _ _ | Pu4 _ _ | Po4 _ | St3 _ => true
  | _ => false
  end.

Lemma grow_moves_from_len fuel i bot m nm : (length (grow_moves_from fuel i bot m nm) <= fuel)%nat.
Proof.
  revert i. induction fuel as [|f IH]; intros i; cbn [grow_moves_from]; [cbn; lia|].
  destruct (i <? bot); [|cbn; lia].
  destruct (negb (N.land i m =? N.land i nm)); [|cbn; lia].
  cbn [length]. specialize (IH (wadd 64 i 1)). lia.
Qed.

Lemma grow_moves_len c b t : (length (grow_moves c b t) <= S (N.to_nat c))%nat.
Proof. unfold grow_moves. apply grow_moves_from_len. Qed.

Ltac split_ifs H :=
  repeat match type of H with
  | context [if ?c then _ else _] => let E := fresh "E" in destruct c eqn:E
  end.

Section Chase.
  Variable pol : policy.

  Lemma chase_pc_inv (Q : pc -> Prop) :
    Q Idle -> (forall o, Q (Begin o)) ->
    (forall st t st' es, Q (th st t) -> step pol st (Step t) = Some (st', es) -> Q (th st' t)) ->
    forall s, reach (init pol) (step pol) s -> forall t, Q (th s t).
  Proof.
    intros QI QB QS. apply (inv_rule _ _ _ (init pol) (step pol) (fun s => forall t, Q (th s t))).
    - intros t. exact QI.
    - intros st a st' es IH Hst t'. destruct a as [t o|t].
      + cbn [step] in Hst. destruct (th st t) eqn:E; try discriminate.
        split_ifs Hst; try discriminate; inversion Hst; subst; cbn [th].
        unfold upd. destruct (Nat.eqb t' t); [apply QB|apply IH].
      + destruct (Nat.eq_dec t' t) as [->|Hne].
        * eapply QS; [apply IH|exact Hst].
        * assert (th st' t' = th st t') as ->; [|apply IH].
          cbn [step] in Hst. destruct (th st t) eqn:E; try discriminate;
            repeat match type of Hst with
            | context [let '(_, _) := opcode ?o in _] => destruct o; cbn [opcode] in Hst
            | context [match grow_moves ?c ?b ?tp with _ => _ end] => destruct (grow_moves c b tp)
            | context [match ?l with [] => _ | _ => _ end] => destruct l as [|[? ?] ?]
            | context [if ?c then _ else _] => destruct c
            end; try discriminate; inversion Hst; subst; cbn [th]; apply upd_other; exact Hne.
  Qed.

  Ltac step_cases Hst E :=
    cbn [step] in Hst; rewrite E in Hst;
    repeat match type of Hst with
    | context [let '(_, _) := opcode ?o in _] => destruct o; cbn [opcode] in Hst
    | context [match grow_moves ?c ?b ?tp with _ => _ end] => destruct (grow_moves c b tp) eqn:?
    | context [match ?l with [] => _ | _ => _ end] => destruct l as [|[? ?] ?]
    | context [if ?c then _ else _] => destruct c eqn:?
    end; try discriminate; inversion Hst; subst; cbn [th]; rewrite upd_same.

  Lemma chase_grow_ok s : reach (init pol) (step pol) s -> forall t, grow_ok (th s t).
  Proof.
    apply chase_pc_inv; [exact I|intros; exact I|].
    intros st t st' es HQ Hst. destruct (th st t) eqn:E; step_cases Hst E; cbn [grow_ok]; try exact I; discriminate.
  Qed.

  (** * Every step of a thread that is not idle is enabled and decreases the measure *)
  Lemma chase_solo_step s t :
    reach (init pol) (step pol) s -> idle s t = false ->
    exists s' es, step pol s (Step t) = Some (s', es) /\ reach (init pol) (step pol) s' /\
                  (chase_bound pol s' t < chase_bound pol s t)%nat.
  Proof.
    intros Hr Hi. pose proof (chase_grow_ok s Hr t) as Hg.
    assert (Hen : exists s' es, step pol s (Step t) = Some (s', es)).
    { unfold idle in Hi. cbn [step]. destruct (th s t) eqn:E; try discriminate; cbn [grow_ok] in Hg;
        repeat match goal with
        | |- context [let '(_, _) := opcode ?o in _] => destruct o; cbn [opcode]
        | |- context [match grow_moves ?c ?b ?tp with _ => _ end] => destruct (grow_moves c b tp)
        | |- context [match ?l with [] => _ | _ => _ end] => destruct l as [|[? ?] ?]
        | |- context [if ?c then _ else _] => destruct c
        end; try congruence; eauto. }
    destruct Hen as (s' & es & Hst). exists s', es. split; [exact Hst|]. split; [eapply reach_step; eauto|].
    unfold chase_bound. unfold idle in Hi.
    destruct (th s t) eqn:E; try discriminate; step_cases Hst E;
      cbn [pc_mu sh capacity set_top set_bottom set_cap set_buckets set_mem length];
      try (destruct (is_growing pol)); try lia.
    - (* PuGrow0: the freshly computed copy list has at most capacity + 1 entries *)
      match goal with H : grow_moves ?c ?b ?tp = _ |- _ => pose proof (grow_moves_len c b tp) as Hl; rewrite H in Hl end.
      cbn [length] in Hl. lia.
    - match goal with H : grow_moves ?c ?b ?tp = _ |- _ => pose proof (grow_moves_len c b tp) as Hl; rewrite H in Hl end.
      cbn [length] in Hl. lia.
  Qed.

  Theorem chase_solo s t :
    reach (init pol) (step pol) s ->
    finishes_within (step pol) Step idle t (chase_bound pol s t) s.
  Proof.
    intros Hr.
    apply (finishes_by_measure _ _ _ (step pol) Step idle (reach (init pol) (step pol)) (fun s => chase_bound pol s t) t);
      [|exact Hr].
    intros s0 Hr0 Hi0. exact (chase_solo_step s0 t Hr0 Hi0).
  Qed.

  Theorem chase_never_stuck s t :
    reach (init pol) (step pol) s -> never_stuck (step pol) Step idle t s.
  Proof. intros Hr. eapply finishes_never_stuck. apply chase_solo. exact Hr. Qed.

  (** a thread about to start: after [Start t o] it finishes within the bound for [Begin o] *)
  Theorem chase_solo_start s t o s' es :
    reach (init pol) (step pol) s -> step pol s (Start t o) = Some (s', es) ->
    finishes_within (step pol) Step idle t
      (pc_mu (is_growing pol) (N.to_nat (capacity (sh s))) (Begin o)) s'.
  Proof.
    intros Hr Hst. assert (Hr' : reach (init pol) (step pol) s') by (eapply reach_step; eauto).
    pose proof (chase_solo s' t Hr') as H. unfold chase_bound in H.
    cbn [step] in Hst. destruct (th s t); try discriminate. split_ifs Hst; try discriminate.
    inversion Hst; subst. cbn [th sh] in H. rewrite upd_same in H. exact H.
  Qed.
End Chase.

(** * Fixed policy: the bound is a constant: try_push 5, try_steal 5, try_pop 8 (START step included) *)
Lemma chase_fixed_no_grow_pc c s :
  reach (init (Fixed c)) (step (Fixed c)) s -> forall t, grow_pc (th s t) = false.
Proof.
  apply (chase_pc_inv (Fixed c) (fun p => grow_pc p = false)); [reflexivity|reflexivity|].
  intros st t st' es HQ Hst. cbn [step is_growing] in Hst.
  destruct (th st t) eqn:E; try discriminate HQ; try discriminate Hst;
    repeat match type of Hst with
    | context [let '(_, _) := opcode ?o in _] => destruct o; cbn [opcode] in Hst
    | context [if ?c then _ else _] => destruct c eqn:?
    end; try discriminate; inversion Hst; subst; cbn [th]; rewrite upd_same; reflexivity.
Qed.

Definition fixed_op_bound (p : pc) : nat :=
  match p with
  | Idle => 0
  | Begin (OPush _) | Pu1 _ | Pu2 _ _ | Pu5 _ _ _ | Pu6 _ _ => 5
  | Begin OSteal | St1 | St2 _ | St4 _ _ | St5 _ _ => 5
  | _ => 8
  end.

Theorem chase_fixed_solo c s t :
  reach (init (Fixed c)) (step (Fixed c)) s ->
  finishes_within (step (Fixed c)) Step idle t (fixed_op_bound (th s t)) s.
Proof.
  intros Hr. eapply finishes_within_mono; [|apply chase_solo; exact Hr].
  unfold chase_bound. cbn [is_growing]. pose proof (chase_fixed_no_grow_pc c s Hr t) as Hg.
  destruct (th s t) as [| [?| |] | | | | | | | | | | | | | | | | | | | | | | | | ]; cbn [pc_mu fixed_op_bound grow_pc] in *; try discriminate; lia.
Qed.

Corollary chase_fixed_solo_8 c s t :
  reach (init (Fixed c)) (step (Fixed c)) s ->
  finishes_within (step (Fixed c)) Step idle t 8 s.
Proof.
  intros Hr. eapply finishes_within_mono; [|apply chase_fixed_solo; exact Hr].
  destruct (th s t) as [| [?| |] | | | | | | | | | | | | | | | | | | | | | | | | ]; cbn [fixed_op_bound]; lia.
Qed.

(** * Growing policy: [12 + 2 * capacity] for try_push (grow copies at most capacity + 1 items with
    one load and one store each), 9 for try_pop, 6 for try_steal *)
Definition growing_op_bound (capn : nat) (p : pc) : nat :=
  match p with
  | Idle => 0
  | Begin OPop | Po1 | Po2 _ | Po3 _ | Po4 _ | Po5 _ _ | Po6 _ _ | Po7 _ _ _ | Po8 _ _ => 9
  | Begin OSteal | St1 | St2 _ | St3 _ | St4 _ _ | St5 _ _ => 6
  | PuGrowLd _ _ _ todo | PuGrowSt _ _ _ _ todo => 2 * length todo + 4
  | _ => 12 + 2 * capn
  end.

Theorem chase_growing_solo mn mx s t :
  reach (init (Growing mn mx)) (step (Growing mn mx)) s ->
  finishes_within (step (Growing mn mx)) Step idle t
    (growing_op_bound (N.to_nat (capacity (sh s))) (th s t)) s.
Proof.
  intros Hr. eapply finishes_within_mono; [|apply chase_solo; exact Hr].
  unfold chase_bound. cbn [is_growing].
  destruct (th s t) as [| [?| |] | | | | | | | | | | | | | | | | | | | | | | | | ]; cbn [pc_mu growing_op_bound]; lia.
Qed.

(** * Growing policy, bound in terms of the configuration only

    With [mincap = 2^a <= maxcap = 2^b] (b <= 62) the capacity is always a power of two between the
    two, only the owner is ever inside try_push / try_pop, and an unfinished grow copies at most
    [capacity + 1] entries: every operation finishes within [12 + 2 * maxcap] solo steps. *)
Definition nonowner_pc (p : pc) : bool :=
  match p with
  | Idle | Begin OSteal | St1 | St2 _ | St3 _ | St4 _ _ | St5 _ _ => true
  | _ => false
  end.

Definition grow_c (capn mx : N) (p : pc) : Prop :=
  match p with
  | PuGrow0 _ _ _ => capn < mx
  | PuGrowLd _ _ c todo | PuGrowSt _ _ c _ todo => c = capn /\ c < mx /\ (length todo <= S (N.to_nat c))%nat
  | PuGrowEnd _ _ c => c = capn /\ c < mx
  | _ => True
  end.

Section GrowCap.
  Variables a b : N.
  Hypothesis Hab : a <= b.
  Hypothesis Hb : b <= 62.
  Let mn := 2 ^ a.
  Let mx := 2 ^ b.
  Let pol := Growing mn mx.

  Record KG (s : state) : Prop := mkKG {
    kg_own : forall t, t <> owner -> nonowner_pc (th s t) = true;
    kg_cap : exists j, a <= j /\ j <= b /\ capacity (sh s) = 2 ^ j;
    kg_grow : grow_c (capacity (sh s)) mx (th s owner)
  }.

  Lemma wmul_pow2 j : j < b -> wmul 64 (2 ^ j) 2 = 2 ^ (j + 1).
  Proof.
    intros Hj. unfold wmul. rewrite N.pow_add_r, N.pow_1_r. apply N.mod_small.
    replace (2 ^ j * 2) with (2 ^ (j + 1)) by (rewrite N.pow_add_r, N.pow_1_r; reflexivity).
    apply N.pow_lt_mono_r; lia.
  Qed.

  Lemma length_tl_le (A : Type) (x : A) (l : list A) n : (length (x :: l) <= S n)%nat -> (length l <= S n)%nat.
  Proof. cbn [length]. lia. Qed.

  Lemma KG_reach s : reach (init pol) (step pol) s -> KG s.
  Proof.
    apply (inv_rule _ _ _ (init pol) (step pol) KG).
    - constructor; cbn [init th sh capacity init_cap pol]; [reflexivity| |exact I].
      exists a. repeat split; [lia|exact Hab].
    - intros st act st' es [Hown Hcap Hgrow] Hst. destruct act as [t o|t].
      + cbn [step] in Hst. destruct (th st t) eqn:E; try discriminate.
        destruct (match o with OSteal => true | _ => Nat.eqb t owner end) eqn:Eo; try discriminate.
        inversion Hst; subst; clear Hst. constructor; cbn [th sh].
        * intros t' Hne. unfold upd. destruct (Nat.eqb_spec t' t) as [->|]; [|apply Hown; exact Hne].
          destruct o; try reflexivity; apply Nat.eqb_eq in Eo; contradiction.
        * exact Hcap.
        * unfold upd. destruct (Nat.eqb_spec owner t) as [<-|]; [exact I|exact Hgrow].
      + destruct (Nat.eq_dec t owner) as [->|Hne].
        * (* the owner moves *)
          cbn [step] in Hst. cbn [is_growing max_cap pol] in Hst.
          destruct (th st owner) eqn:E; try discriminate; cbn [grow_c] in Hgrow;
            repeat match type of Hst with
            | context [let '(_, _) := opcode ?o in _] => destruct o; cbn [opcode] in Hst
            | context [match grow_moves ?c ?b ?tp with _ => _ end] => destruct (grow_moves c b tp) eqn:Egm
            | context [match ?l with [] => _ | _ => _ end] => destruct l as [|[? ?] ?]
            | context [if ?c then _ else _] => destruct c eqn:?
            end; try discriminate; inversion Hst; subst; clear Hst;
            (constructor; cbn [th sh capacity set_top set_bottom set_cap set_buckets set_mem];
             [ intros t' Hne'; rewrite upd_other by exact Hne'; apply Hown; exact Hne'
             | try exact Hcap
             | rewrite upd_same; cbn [grow_c]; try exact I ]).
          -- (* PuCanGrow -> PuGrow0 *) apply N.ltb_lt. assumption.
          -- (* PuGrow0 -> PuGrowEnd *) split; [reflexivity|exact Hgrow].
          -- (* PuGrow0 -> PuGrowLd *) split; [reflexivity|]. split; [exact Hgrow|].
             rewrite <- Egm. apply grow_moves_len.
          -- (* PuGrowLd -> PuGrowSt *) exact Hgrow.
          -- (* PuGrowSt -> PuGrowEnd *) destruct Hgrow as (? & ? & ?). split; assumption.
          -- (* PuGrowSt -> PuGrowLd *) destruct Hgrow as (? & ? & Hl). split; [assumption|]. split; [assumption|].
             apply length_tl_le in Hl. exact Hl.
          -- (* PuGrowEnd: capacity doubles *)
             destruct Hgrow as [-> Hlt]. destruct Hcap as (j & Ha & Hjb & Hj). rewrite Hj in *.
             assert (j < b) by (apply (N.pow_lt_mono_r_iff 2); [lia|exact Hlt]).
             exists (j + 1). rewrite wmul_pow2 by assumption. repeat split; lia.
        * (* a thief moves *)
          pose proof (Hown t Hne) as Hp. cbn [step] in Hst. cbn [is_growing pol] in Hst.
          destruct (th st t) as [| [?| |] | | | | | | | | | | | | | | | | | | | | | | | | ] eqn:E; try discriminate Hp;
            try discriminate Hst;
            repeat match type of Hst with
            | context [if ?c then _ else _] => destruct c eqn:?
            end; inversion Hst; subst; clear Hst;
            (constructor; cbn [th sh capacity set_top];
             [ intros t' Hne'; unfold upd; destruct (Nat.eqb_spec t' t) as [->|]; [reflexivity|apply Hown; exact Hne']
             | exact Hcap
             | rewrite upd_other by (intros X; apply Hne; symmetry; exact X); exact Hgrow ]).
  Qed.

  Theorem chase_growing_solo_max s t :
    reach (init pol) (step pol) s ->
    finishes_within (step pol) Step idle t (12 + 2 * N.to_nat mx) s.
  Proof.
    intros Hr. eapply finishes_within_mono; [|apply chase_solo; exact Hr].
    destruct (KG_reach s Hr) as [Hown Hcap Hgrow].
    assert (Hle : capacity (sh s) <= mx).
    { destruct Hcap as (j & _ & Hjb & ->). apply N.pow_le_mono_r; lia. }
    unfold chase_bound. cbn [is_growing pol].
    destruct (Nat.eq_dec t owner) as [->|Hne].
    - destruct (th s owner) as [| [?| |] | | | | | | | | | | | | | | | | | | | | | | | | ];
        cbn [pc_mu grow_c] in *; try lia.
    - specialize (Hown t Hne).
      destruct (th s t) as [| [?| |] | | | | | | | | | | | | | | | | | | | | | | | | ];
        cbn [pc_mu nonowner_pc] in *; try discriminate; lia.
  Qed.
End GrowCap.
