(** Layer V / E of the hazard eras model (Model/HeDefs.v):
    [InvV]: the ghost [gv] of a guard is false only while the guard's own hazard era is being re-used for a new era
    (the guard then still has its hazard era);
    [InvE]: era_clock dominates every construction era and is larger than every retirement era; a node whose
    address an acquire has loaded was reachable then: if it is retired, its retirement era is not smaller than the era
    the guard has published ([prev_era]). *)
From Coq Require Import NArith List Bool Arith Lia PeanoNat.
From XV Require Import Conc.Lts Conc.Ev Model.HeDefs Proof.HeBase Proof.HeGuards Proof.HeNodes.
Import ListNotations.
Set Warnings "-cannot-remove-as-expected".

Definition good (l : life) : Prop := l <> LNone /\ (forall u, l <> LFresh u) /\ l <> LDropped.

Lemma good_pub c : good (LPub c). Proof. repeat split; intros; discriminate. Qed.
Lemma good_unl t : good (LUnl t). Proof. repeat split; intros; discriminate. Qed.
Lemma good_ret t : good (LRet t). Proof. repeat split; intros; discriminate. Qed.

Section V.
Variable nslots : nat.

Definition InvV (st : state) : Prop :=
  forall t g, gv (gd (tl st t) g) = false -> in_acq nslots (th st t) g /\ he (gd (tl st t) g) <> None.

Ltac sim := unfold reset_guard, unshare, set_gd, g0; repeat (progress (prj; upds)).
Ltac simh H := unfold reset_guard, unshare, set_gd, g0 in H; repeat (progress (prjh H; upds_in H)).

Lemma InvV_ush st st1 t : ush t st st1 -> InvV st -> InvV st1.
Proof.
  intros Hu HV u g Hg. pose proof (ush_same _ _ _ Hu) as HS. rewrite (sb_th _ _ _ HS).
  destruct (Nat.eq_dec u t) as [->|Hne]; [|rewrite (sb_tl _ _ _ HS u Hne) in *; apply HV; exact Hg].
  destruct (sb_gd _ _ _ HS g) as [E|[E _]]; rewrite E in *; [apply HV; exact Hg|discriminate Hg].
Qed.

Lemma InvV_reset st t b i g : InvV st -> InvV (reset_guard st t b i g).
Proof.
  intros HV tq gq Hq. simh Hq. sim. destruct (Nat.eq_dec tq t) as [->|Hne]; upds_in Hq; upds; [|apply HV; exact Hq].
  prjh Hq. prj. destruct (Nat.eq_dec gq g) as [->|Hng]; upds_in Hq; upds; [discriminate Hq|apply HV; exact Hq].
Qed.

Lemma InvV_step st a st' es : InvG nslots st -> InvV st -> step nslots st a = Some (st', es) -> InvV st'.
Proof.
  intros HG HV Hs. destruct a as [t o|t]; cbn [step] in Hs.
  - destruct (th st t) eqn:Hth; try discriminate Hs. destruct (legal nslots o); [|discriminate Hs].
    injection Hs as <- <-. intros t' g Hg. simh Hg. destruct (HV t' g Hg) as [H1 H2]. sim.
    destruct (Nat.eq_dec t' t) as [->|Hne]; upds; [rewrite Hth in H1; destruct H1|split; assumption].
  - destruct (th st t) eqn:Hth; try discriminate Hs.
    all: leaves Hs.
    all: try (match goal with Hu : ush _ ?s0 ?st1 |- InvV (set_pc _ _ ?st1) =>
           assert (HV0 : InvV s0) by (first [exact HV | (apply InvV_reset; exact HV)]);
           pose proof (InvV_ush _ _ _ Hu HV0) as HV1; pose proof (ush_same _ _ _ Hu) as HSb;
           intros tq gq Hq; simh Hq; sim; destruct (HV1 tq gq Hq) as [Hx Hy];
           destruct (Nat.eq_dec tq t) as [->|?]; upds; [|split; assumption];
           rewrite (sb_th _ _ _ HSb) in Hx; unfold reset_guard in Hx; prjh Hx; rewrite Hth in Hx; destruct Hx end; fail).
    all: intros tq gq Hq; destruct (Nat.eq_dec tq t) as [->|Hne]; [|dg; simh Hq; sim; apply HV; exact Hq].
    all: dg; simh Hq; sim; unfold in_acq; cbn [acq_of guard_of].
    all: try (destruct (HV t gq Hq) as [Hx Hy]; rewrite Hth in Hx; unfold in_acq in Hx; cbn [acq_of guard_of] in Hx;
              first [ (split; assumption) | (destruct Hx; fail) ]; fail).
    all: try (match type of Hq with context [upd _ ?g _ ?x] =>
           destruct (Nat.eq_dec x g) as [->|?]; upds_in Hq; prjh Hq; upds; prj; try discriminate Hq;
           try (split; [reflexivity|discriminate]);
           destruct (HV t gq Hq) as [Hx Hy]; rewrite Hth in Hx; unfold in_acq in Hx; cbn [acq_of guard_of] in Hx;
           first [ (split; assumption) | (destruct Hx; fail) | congruence | (split; [assumption|congruence]) ] end; fail).
    all: exfalso; destruct (HV t gq Hq) as [Hx Hy]; rewrite Hth in Hx; unfold in_acq in Hx; cbn [acq_of] in Hx; subst gq.
    all: try congruence.
    all: pose proof (g_pc _ _ _ (HG t)) as Hpc; rewrite Hth in Hpc; cbn [pcG] in Hpc; destruct Hpc as (_ & _ & Hn); apply Hy; apply Hn.
Qed.

Lemma InvV_init ncells : InvV (init ncells).
Proof. intros t g H. cbn in H. discriminate. Qed.
End V.

(** * Layer E: eras *)
Definition pcE (st : state) (p : pc) : Prop :=
  match p with
  | Q2 _ prev n => good (g_life st n) /\ forall u, g_life st n = LRet u -> prev <= re st n
  | _ => True
  end.

Record InvE (st : state) : Prop := mkE {
  e_ce : forall n, ce st n <= clock st;
  e_re : forall n u, g_life st n = LRet u -> re st n < clock st;
  e_pc : forall t, pcE st (th st t) }.

Lemma InvE_gen st st' :
  InvE st -> clock st <= clock st' ->
  (forall n, ce st' n = ce st n \/ ce st' n <= clock st') ->
  (forall n, good (g_life st n) -> good (g_life st' n)) ->
  (forall n u, g_life st' n = LRet u ->
     (g_life st n = LRet u /\ re st' n = re st n) \/ (re st' n = clock st /\ clock st' = S (clock st))) ->
  (forall t k prev p, th st t = Q2 k prev p -> prev <= clock st) ->
  (forall t, th st' t = th st t \/ pcE st' (th st' t)) ->
  InvE st'.
Proof.
  intros [I1 I2 I3] Hc Hce Hl Hre Hq Hpc. constructor.
  - intros n. destruct (Hce n) as [->|H]; [specialize (I1 n); lia|exact H].
  - intros n u H. destruct (Hre n u H) as [[H1 ->]|[-> H2]]; [specialize (I2 n u H1); lia|lia].
  - intros t. destruct (Hpc t) as [E|H]; [|exact H]. rewrite E. specialize (I3 t).
    destruct (th st t) eqn:Et; cbn [pcE] in *; try exact I. destruct I3 as [G1 G2]. split; [apply Hl; exact G1|].
    intros u H. destruct (Hre p u H) as [[H1 ->]|[-> H2]]; [apply (G2 u H1)|apply (Hq t k prev p Et)].
Qed.

Section E.
Variable nslots : nat.

Ltac sim := unfold reset_guard, unshare, set_gd, g0; repeat (progress (prj; upds)).
Ltac eqs := repeat (unfold upd; match goal with |- context [Nat.eqb ?a ?b] => destruct (Nat.eqb_spec a b); subst end).

Lemma InvE_ush st st1 t : ush t st st1 -> InvE st -> InvE st1.
Proof.
  intros Hu [I1 I2 I3]. pose proof (ush_same _ _ _ Hu) as HS.
  constructor; rewrite ?(sb_ce _ _ _ HS), ?(sb_clock _ _ _ HS), ?(sb_life _ _ _ HS), ?(sb_re _ _ _ HS), ?(sb_th _ _ _ HS); try assumption.
  intros u. specialize (I3 u). destruct (th st u); cbn [pcE] in *; try exact I. rewrite (sb_life _ _ _ HS), (sb_re _ _ _ HS). exact I3.
Qed.

Lemma q2_prev st t k prev p : InvG nslots st -> th st t = Q2 k prev p -> prev <= clock st.
Proof. intros HG Ht. pose proof (g_pc _ _ _ (HG t)) as H. rewrite Ht in H. cbn [pcG] in H. tauto. Qed.

Lemma InvE_step st a st' es : InvG nslots st -> InvN st -> InvE st -> step nslots st a = Some (st', es) -> InvE st'.
Proof.
  intros HG HN HE Hs. destruct a as [t o|t]; cbn [step] in Hs.
  - destruct (th st t) eqn:Hth; try discriminate Hs. destruct (legal nslots o); [|discriminate Hs].
    injection Hs as <- <-. apply (InvE_gen st);
      [exact HE|prj; lia|intros; left; reflexivity|intros nn Hn; exact Hn|intros nn uu Hn; left; split; [exact Hn|reflexivity]
      |intros tt kk pp nn Hq; apply (q2_prev st tt kk pp nn HG Hq)|].
    intros u. prj. destruct (Nat.eq_dec u t) as [->|Hne]; upds; [right; exact I|left; reflexivity].
  - pose proof (n_pc st HN t) as Hpn. destruct (th st t) eqn:Hth; try discriminate Hs.
    all: leaves Hs.
    all: try (match goal with Hu : ush _ ?s0 ?st1 |- InvE (set_pc _ _ ?st1) =>
           assert (HE0 : InvE s0) by (first [exact HE | (destruct HE as [J1 J2 J3]; constructor; unfold reset_guard; prj; assumption)]);
           pose proof (InvE_ush _ _ _ Hu HE0) as HE1; pose proof (ush_same _ _ _ Hu) as HSb;
           destruct HE1 as [J1 J2 J3]; constructor; prj; try assumption;
           intros u; destruct (Nat.eq_dec u t) as [->|?]; upds; [exact I|apply J3] end; fail).
    all: dg.
    all: try (apply (InvE_gen st);
              [ exact HE | sim; lia | intros; sim; left; reflexivity | intros nn Hn; sim; exact Hn
              | intros nn uu Hn; sim; left; split; [exact Hn|reflexivity]
              | intros tt kk pp nn Hq; apply (q2_prev st tt kk pp nn HG Hq)
              | intros uu; sim; destruct (Nat.eq_dec uu t) as [->|?]; upds; [right; exact I|left; reflexivity] ]; fail).
    all: destruct Hpn as [Hpn _]; cbn [pcn] in Hpn.
    all: try (apply (InvE_gen st);
              [ exact HE | sim; lia
              | intros nn; sim; first [ (left; reflexivity) | (eqs; [right; lia|left; reflexivity]) ]
              | intros nn Hg; sim; revert Hg; eqs; intros Hg;
                first [ exact Hg | (repeat split; intros; discriminate)
                      | (exfalso; destruct Hg as (Hg1 & Hg2 & Hg3); first [ (apply Hg1; apply (n_lt st HN); lia) | (eapply Hg2; eassumption) ]) ]
              | intros nn uu Hn; sim; revert Hn; sim; eqs; intros Hn;
                first [ (left; split; [exact Hn|reflexivity]) | discriminate | (right; split; reflexivity) ]
              | intros tt kk pp nn Hq; apply (q2_prev st tt kk pp nn HG Hq)
              | intros uu; sim; destruct (Nat.eq_dec uu t) as [->|?]; upds; [right|left; reflexivity] ];
              cbn [pcE]; try exact I).
    prj. rewrite (n_cell st HN _ _ E). split; [apply good_pub|intros u Hu; discriminate Hu].
Qed.

Lemma InvE_init ncells : InvE (init ncells).
Proof. constructor; cbn; intros; try lia; try exact I; destruct (n <? ncells); discriminate. Qed.
End E.
