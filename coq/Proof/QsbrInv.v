(** The theorems about the quiescent state based reclamation model (Model/QsbrDefs.v = xenium::reclamation::
    quiescent_state_based under the generic client of harness/h_recl.cpp), assembled from the layers
    Proof/QsbrBase.v (thread-local shape, control-block ownership), QsbrEpoch.v (epoch window, scan invariant),
    QsbrNodes.v (where a retired block is), QsbrTags.v (when it may be freed), QsbrGuards.v (guards), and examples on
    concrete reachable states.  [reach (init nc) (step ns)]: any number of threads, nc cells, ns guard slots per
    thread, any programs, any schedule.  No axioms. *)
From Coq Require Import NArith ZArith List Bool Arith Lia PeanoNat Setoid.
From XV Require Import Conc.Lts Conc.Ev Model.QsbrDefs Proof.QsbrBase Proof.QsbrEpoch Proof.QsbrNodes Proof.QsbrTags Proof.QsbrGuards Proof.QsbrFlush.
Import ListNotations.
Local Open Scope N_scope.

Section Theorems.
Variables (ns : nat) (nc : N).
Notation reachable := (reach (init nc) (step ns)).

(** * C01 *)

(** [qsbr_safe]: a node held by a guard_ptr (a persistent guard of the client, or the guard of a running repl / clear;
    the holder is inside a region) has not been freed and was not dropped, and no dereference ever hit a destroyed node *)
Theorem qsbr_safe st : reachable st ->
  (forall u n, holds st u n -> g_nfree st n = O /\ g_where st n <> PFreed /\ g_life st n <> LDropped) /\
  g_uaf st = false.
Proof.
  intros Hr. split; [|apply (uaf_reach ns nc); exact Hr].
  intros u n Hh.
  destruct (guard_not_freed ns st u n (T0_reach ns nc st Hr) (O0_reach ns nc st Hr) (EI_reach ns nc st Hr) (N0_reach ns nc st Hr)
              (G0_reach ns nc st Hr) (GI_reach ns nc st Hr u n Hh) Hh) as (H1 & H2 & H3).
  auto.
Qed.

(** [qsbr_epoch_window]: global_epoch is the number of advances modulo 3, and for every registered thread (it owns a
    control block and has published its epoch: inside a region or not) local_epoch is its unbounded epoch modulo 3 and
    the global epoch is at most ONE ahead of it *)
Theorem qsbr_epoch_window st : reachable st ->
  gep st = g_gepc st mod 3 /\
  forall u b, cb (tl st u) = Some b -> synced (th st u) = true ->
    g_lepc st b <= g_gepc st /\ g_gepc st <= g_lepc st b + 1 /\ blocal st b = g_lepc st b mod 3.
Proof.
  intros Hr. destruct (EI_reach ns nc st Hr) as (E & P & _). split; [exact E|].
  intros u b Hb Hs. destruct (P u b Hb) as (P1' & _). destruct (P1' Hs) as (A1 & A2 & A3 & _). auto.
Qed.

(** [qsbr_free_epoch], the precise epoch statement:
    - a node retired by a thread whose local epoch was r while the global epoch was g (r <= g <= r + 1) is freed only when
      the global epoch is >= g + 2;
    - AN ORPHAN CREATED AT GLOBAL EPOCH g (thread exit) IS FREED ONLY WHEN THE GLOBAL EPOCH IS >= g + 2, its target epoch is
      (g + 2) mod 3 = (g + number_epochs - 1) mod number_epochs, and everything it carries is freed no earlier (the tag of
      what it carries is at most its own);
    - a thread that still holds a guard on a retired node entered its region at an epoch <= g, and the global epoch is
      still <= g + 1: two advances beyond g need that thread to pass a quiescent state.
    With the target g + 1 instead of g + 2 the second clause (hence [qsbr_safe]) is false: see
    [qsbr_orphan_target_wrong_refuted] below. *)
Theorem qsbr_free_epoch st : reachable st ->
  (forall n t r g, g_life st n = LRet t r g -> r <= g /\ g <= r + 1 /\ (g_where st n = PFreed -> g + 2 <= g_gepc st)) /\
  (forall o t g, g_life st o = LOrph t g -> otgt st o = (g + 2) mod 3 /\ (g_where st o = PFreed -> g + 2 <= g_gepc st) /\
     (forall n, g_where st n = PIn o -> tagof (g_life st n) <= g + 2)) /\
  (forall u n t r g b, holds st u n -> g_life st n = LRet t r g -> cb (tl st u) = Some b -> g_lepc st b <= g /\ g_gepc st <= g + 1).
Proof.
  intros Hr. pose proof (G0_reach ns nc st Hr) as G. pose proof (N0_reach ns nc st Hr) as I.
  pose proof (T0_reach ns nc st Hr) as T. destruct (EI_reach ns nc st Hr) as (E & P & _).
  split; [|split].
  - intros n t r g L. destruct (g_ret st G n t r g L) as (A1 & A2 & A3). split; [exact A1|]. split; [exact A2|].
    intros W. pose proof (g_freed st G n W) as F. rewrite L in F. exact F.
  - intros o t g L. destruct (g_orph st G o t g L) as [A1 A2]. split; [exact A2|]. split.
    + intros W. pose proof (g_freed st G o W) as F. rewrite L in F. exact F.
    + intros n W. pose proof (g_in st G n o W) as F. rewrite L in F. exact F.
  - intros u n t r g b Hh L C.
    destruct (GI_reach ns nc st Hr u n Hh) as [(c & L')|[(t' & L')|(t' & r' & g' & b' & L' & C' & B)]]; try congruence.
    rewrite L in L'. injection L' as <- <- <-. rewrite C in C'. injection C' as <-.
    destruct (holds_shape _ _ _ _ (T u) Hh) as (_ & _ & _ & _ & _ & Hsy).
    destruct (P u b C) as (P1' & _). destruct (P1' Hsy) as (B1 & B2 & _). split; lia.
Qed.

(** * C02, safety half *)

(** [qsbr_exactly_once]: a block is freed at most once and only after it was retired (a node) or created as an orphan;
    a retired block is in exactly one place, which the ghost [g_where] names: retire list [i] of one thread, the hand of
    one exiting thread (the orphan it is about to publish), the global abandoned list, inside one orphan, or freed -
    and it is an element of that list (nothing is dropped, in particular not by the hand-over at thread exit nor by
    adoption) and of no other (nothing is duplicated); the lists are duplicate free. *)
Theorem qsbr_exactly_once st : reachable st ->
  (forall n, (g_nfree st n <= 1)%nat) /\
  (forall n, g_nfree st n = 1%nat <-> g_where st n = PFreed) /\
  (forall n, g_where st n <> PNone <-> (exists t r g, g_life st n = LRet t r g) \/ (exists t g, g_life st n = LOrph t g)) /\
  (forall u i n, In n (rl (tl st u) i) <-> g_where st n = PList u i) /\
  (forall n, In n (aband st) <-> g_where st n = PAband) /\
  (forall u n, hand (th st u) = Some n <-> g_where st n = PHand u) /\
  (forall o n, In n (ocont st o) <-> g_where st n = PIn o) /\
  (forall u i, NoDup (rl (tl st u) i)) /\ NoDup (aband st) /\ (forall o, NoDup (ocont st o)).
Proof.
  intros Hr. pose proof (N0_reach ns nc st Hr) as I.
  assert (W := n_where st I).
  assert (Hretd : forall l, retd l = true <-> (exists t r g, l = LRet t r g) \/ (exists t g, l = LOrph t g)).
  { intros l. destruct l; cbn; split; intros H; try discriminate; try reflexivity; eauto;
      destruct H as [(t0 & r0 & g0 & H)|(t0 & g0 & H)]; discriminate. }
  split; [|split; [|split; [|split; [|split; [|split; [|split; [|split; [|split]]]]]]]]; try apply I.
  - intros n. specialize (W n). destruct (g_where st n); cbn in W; destruct W as [_ ->]; lia.
  - intros n. specialize (W n). split; intros H.
    + destruct (g_where st n); cbn in W; destruct W as [_ W]; try reflexivity; rewrite W in H; discriminate.
    + rewrite H in W. cbn in W. apply W.
  - intros n. specialize (W n). rewrite <- Hretd. split.
    + intros H. destruct (g_where st n); cbn in W; destruct W as [W _]; try exact W. congruence.
    + intros L H. rewrite H in W. cbn in W. destruct W as [W _]. congruence.
Qed.

(** the region_guard object a continuation is about to delete *)
Definition kc_of (p : pc) : option lcont :=
  match p with
  | Q1 k | Q2 k _ | S1 k _ | S2 k _ _ _ | S3 k _ _ _ | G1 k _ | G2 k _ | G3 k _ | G4 k _ | G5 k _ | Q9 k _ => Some k
  | _ => None
  end.
Definition rgfree (s : state) (t : nat) (n : N) : Prop :=
  rg (tl s t) = Some n \/ (exists r, kc_of (th s t) = Some (LFin r (Some n))) \/ kc_of (th s t) = Some (LExit (Some n)).

(** the same at the level of the FREE events of one step: a FREE is the client's delete of its own never published node
    (lost CAS of repl), the client's delete of its region_guard object, or the reclaimer's delete of a retired block
    that had not been freed before *)
Theorem qsbr_free_event st a st' es : reachable st -> step ns st a = Some (st', es) ->
  forall t n, In (EFree t n) es ->
    (g_life st n = LFresh t /\ g_life st' n = LDropped) \/ rgfree st t n \/
    (retd (g_life st n) = true /\ g_nfree st n = O /\ g_nfree st' n = 1%nat).
Proof.
  intros Hr H t0 n Hin.
  pose proof (N0_reach ns nc st Hr) as I.
  destruct a as [t o|t]; [destruct (start_same _ _ _ _ _ _ H) as (_ & _ & _); unfold step, step_gen in H; step_split H; destruct Hin|].
  unfold_step H. cbv zeta in H. step_split H.
  all: bool_eqs; unfold free_opt in Hin; cbn [In app map] in Hin; rewrite ?in_app_iff in Hin; cbn [In] in Hin.
  all: repeat match goal with H : _ \/ _ |- _ => destruct H end; try discriminate; try contradiction.
  all: repeat match goal with H : In _ (match ?fr with Some _ => _ | None => _ end) |- _ => destruct fr; cbn [In] in H; [destruct H as [H|[]]|destruct H] end.
  all: try match goal with H : In (EFree _ _) (free_evs _ _) |- _ => unfold free_evs in H; apply in_map_iff in H; destruct H as (m & Hm & Hl); injection Hm as Ht0 Hn0; subst m; subst t0 end.
  all: try match goal with H : EFree _ _ = EFree _ _ |- _ => injection H as Ht0 Hn0; subst t0; try subst n end.
  all: try solve [left; split; [apply (n_fresh1 st I t); rewrite E; reflexivity | prj; rewrite ?updN_same; reflexivity]].
  all: try solve [right; left; unfold rgfree; rewrite E; cbn [kc_of]; eauto].
  all: right; right; destruct (fl_alive st t _ I n Hl) as (A1 & A2 & _); split; [exact A1|]; split; [exact A2|]; prj;
       rewrite A2, (count_nodup n _ (fl_nodup st t _ I)); apply memN_In in Hl; rewrite Hl; reflexivity.
Qed.
End Theorems.

(** * Examples (executable runs of the model; the same schedules were replayed on the real code, build/h_qsbr) *)
(** one operation of thread t run to completion: more [Step]s than it needs ([run] skips the surplus) *)
Definition opn (t : nat) (o : op) : list action := Start t o :: repeat (Step t) 45.
Definition runq (toff : N) (ns : nat) (nc : N) (acts : list action) : state := fst (fst (run (step_gen toff ns) (init nc) acts)).
Definition run2 (acts : list action) : state := runq 2 1 2 acts.

(** thread 1 replaces node 0 of cell 0 (retired at local epoch 0, global epoch 0; its quiescent state advances the epoch to
    1) and exits: retire list 0 goes into an orphan (block 4) created at global epoch 1 with target epoch (1 + 2) mod 3 = 0;
    thread 2 (it reuses the control block) replaces node 1, adopts the orphan when it advances the epoch to 2 and exits with
    the orphan still in its retire list 0: its orphan (block 6, created at epoch 2, target 1) swallows the first one ... *)
Definition ex1_a : list action := opn 1 (ORepl 0) ++ opn 1 OExit.
Definition ex1_b : list action := opn 2 (ORepl 1) ++ opn 2 OExit.
(** ... thread 3 adopts it when it advances to epoch 3 (into its list 1) and frees everything when it announces epoch 4 *)
Definition ex1_c : list action := opn 3 (ORead 0) ++ opn 3 (ORead 0).

Example ex1_orphan_created_at_exit :
  let st := run2 ex1_a in
  aband st = [4] /\ g_life st 4 = LOrph 1 1 /\ otgt st 4 = 0 /\ ocont st 4 = [0] /\ g_where st 0 = PIn 4 /\ g_life st 0 = LRet 1 0 0 /\
  g_where st 4 = PAband /\ cb (tl st 1%nat) = None /\ bstate st 2 = 0 /\ g_gepc st = 1 /\ g_nfree st 0 = O.
Proof. vm_compute. repeat split; reflexivity. Qed.

Example ex1_orphan_of_an_orphan :
  let st := run2 (ex1_a ++ ex1_b) in
  aband st = [6] /\ g_life st 6 = LOrph 2 2 /\ otgt st 6 = 1 /\ ocont st 6 = [0; 4; 1] /\ ocont st 4 = [] /\
  g_where st 0 = PIn 6 /\ g_where st 4 = PIn 6 /\ g_where st 1 = PIn 6 /\ g_life st 1 = LRet 2 1 1 /\ g_gepc st = 2 /\ g_nfree st 0 = O.
Proof. vm_compute. repeat split; reflexivity. Qed.

Example ex1_adopted_and_freed :
  let st3 := run2 (ex1_a ++ ex1_b ++ opn 3 (ORead 0)) in
  let st4 := run2 (ex1_a ++ ex1_b ++ ex1_c) in
  g_gepc st3 = 3 /\ aband st3 = [] /\ g_where st3 6 = PList 3 1 /\ g_where st3 0 = PIn 6 /\
  g_gepc st4 = 4 /\ g_where st4 0 = PFreed /\ g_where st4 4 = PFreed /\ g_where st4 1 = PFreed /\ g_where st4 6 = PFreed /\
  g_nfree st4 0 = 1%nat /\ g_nfree st4 6 = 1%nat /\ g_uaf st4 = false.
Proof. vm_compute. repeat split; reflexivity. Qed.

(** A reader that keeps a guard across another thread's exit.  Thread 1 registers at epoch 0 and holds node 1; thread 2 advances
    the epoch to 1; thread 3 registers at epoch 1 and holds node 0; thread 2 replaces node 0 (retired at local epoch 1, global
    epoch 1), cannot advance (thread 1 is still at epoch 0) and exits: orphan 6, created at global epoch 1.  Thread 1 drops its
    guard (catching up to epoch 1), then advances the epoch to 2 and adopts the orphan. *)
Definition ex2 : list action :=
  opn 1 (OHold 1 0) ++ opn 2 (ORead 0) ++ opn 3 (OHold 0 0) ++ opn 2 (ORepl 0) ++ opn 2 OExit ++
  opn 1 (ODrop 0) ++ opn 1 (ORead 1) ++ opn 3 (ODeref 0).

(** the code (target epoch 1 + 2 = 3, i.e. list 0): the orphan sits in list 0 of thread 1 until epoch 3, which thread 3
    (local epoch 1, still holding node 0) prevents: the guarded node is alive *)
Example ex2_guard_across_exit :
  let st := run2 ex2 in
  g_gepc st = 2 /\ g_life st 6 = LOrph 2 1 /\ otgt st 6 = 0 /\ g_where st 6 = PList 1 0 /\ g_where st 0 = PIn 6 /\
  gs (tl st 3%nat) 0%nat = Some 0 /\ g_nfree st 0 = O /\ g_uaf st = false.
Proof. vm_compute. repeat split; reflexivity. Qed.

(** ... and is freed, two epochs after the orphan was created, once thread 3 has dropped its guard *)
Example ex2_freed_after_drop :
  let st := run2 (ex2 ++ opn 3 (ODrop 0) ++ opn 3 (ORead 1) ++ opn 1 (ORead 1) ++ opn 1 (ORead 1)) in
  g_where st 0 = PFreed /\ g_where st 6 = PFreed /\ g_nfree st 0 = 1%nat /\ 3 <= g_gepc st /\ g_uaf st = false.
Proof. vm_compute. repeat split; try reflexivity. discriminate. Qed.

(** [qsbr_orphan_target_wrong_refuted]: the same schedule on the variant of the model whose orphans get the target epoch
    global_epoch + 1 instead of global_epoch + number_epochs - 1 (the line two seeded changes touched): the orphan created
    at epoch 1 has target 2, thread 1 adopts it when it advances the epoch to 2 and deletes it in the same quiescent state:
    node 0 is freed while thread 3 holds a guard on it, and the dereference hits the destroyed node.  So [qsbr_safe] and
    the orphan clause of [qsbr_free_epoch] (freed only at epoch >= g + 2) fail for that variant. *)
Lemma qsbr_orphan_target_wrong_refuted :
  exists acts, let st := runq 1 1 2 acts in
    reach (init 2) (step_gen 1 1) st /\
    holds st 3 0 /\ g_where st 0 = PFreed /\ g_nfree st 0 = 1%nat /\ g_uaf st = true /\
    g_life st 6 = LOrph 2 1 /\ g_where st 6 = PFreed /\ g_gepc st = 2.
Proof.
  exists ex2. split; [apply run_reach|]. split; [left; exists 0%nat; vm_compute; reflexivity|]. vm_compute. repeat split; reflexivity.
Qed.

(** * C02, liveness half as a bounded solo run: [QsbrFlush.qsbr_no_leak_at_quiescence]
    (stated and proved in Proof/QsbrFlush.v; repeated in Properties/Properties_C01_qsbr.v) *)
Check qsbr_no_leak_at_quiescence.

(** the flush on a concrete state: after [ex1_a ++ ex1_b] (nodes 0 and 1 and the first orphan sit inside the abandoned orphan 6,
    both retiring threads have exited) thread 3 runs flush operations on cell 0 (the first one also registers it): everything
    is freed after four of them - here already after two, the bound is for the worst case *)
Definition flush_ops (t : nat) (c : N) (k : nat) : list action := concat (repeat (opn t (ORead c)) k).
Example ex3_flush :
  let st1 := run2 (ex1_a ++ ex1_b ++ flush_ops 3 0 1) in
  let st4 := run2 (ex1_a ++ ex1_b ++ flush_ops 3 0 4) in
  g_where st1 0 = PIn 6 /\ g_where st1 6 = PList 3 1 /\
  g_where st4 0 = PFreed /\ g_where st4 1 = PFreed /\ g_where st4 4 = PFreed /\ g_where st4 6 = PFreed /\ aband st4 = [] /\ g_uaf st4 = false.
Proof. vm_compute. repeat split; reflexivity. Qed.

(** [qsbr_no_leak_idle_thread_refuted]: "a bounded solo flush frees everything when NO THREAD IS INSIDE A REGION" is FALSE for
    quiescent state based reclamation (by design, not a defect): a thread that is registered (it owns a control block) and sits
    outside any region blocks the epoch as soon as it is one behind.  Thread 1 registers with one read (global epoch 1 afterwards)
    and goes idle; thread 2 replaces node 1 (retired at epoch 1, the epoch gets to 2).  Every thread is between operations and
    outside any region - and no number of flush operations of thread 2 gets the epoch beyond 2 (thread 1 still announces 1):
    node 1 stays in retire list 1 of thread 2 (shown for 4 and for 12 operations).  Hence the hypothesis of
    [qsbr_no_leak_at_quiescence]: every other control block is released. *)
Definition ex4 : list action := opn 1 (ORead 0) ++ opn 2 (ORepl 1).
Lemma qsbr_no_leak_idle_thread_refuted :
  let st := run2 ex4 in
  reach (init 2) (step 1) st /\
  (forall u, th st u = Idle /\ nest (tl st u) = O /\ (forall sl, gs (tl st u) sl = None)) /\
  g_where st 1 = PList 2 1 /\ g_gepc st = 2 /\
  (let st4 := run2 (ex4 ++ flush_ops 2 0 4) in g_where st4 1 = PList 2 1 /\ g_gepc st4 = 2 /\ th st4 2%nat = Idle) /\
  (let st12 := run2 (ex4 ++ flush_ops 2 0 12) in g_where st12 1 = PList 2 1 /\ g_gepc st12 = 2 /\ th st12 2%nat = Idle).
Proof.
  split; [apply run_reach|]. split.
  - intros u. destruct u as [|[|[|u]]]; vm_compute; repeat split; reflexivity.
  - vm_compute. repeat split; reflexivity.
Qed.

(** the hypothesis of the flush theorem holds in that state (it is not vacuous): thread 3 owns the only control block *)
Example ex3_quiet : Quiet 1 2 3 0 (run2 (ex1_a ++ ex1_b ++ flush_ops 3 0 1)) 2.
Proof.
  constructor; [apply run_reach| | | | |]; try (vm_compute; reflexivity).
  - intros p Hp. vm_compute in Hp. destruct Hp as [<-|[]]. left. reflexivity.
  - eexists. vm_compute. reflexivity.
Qed.
