(** vyukov_hash_map with several buckets and grow: the abstract map [g_map] is exactly what the buckets of the
    current block hold, every key in the bucket its hash selects; what the holder of a bucket lock knows; the
    migration invariant of do_grow; results of the writers. *)
From Coq Require Import NArith List Bool Lia PeanoNat.
From XV Require Import Base.Word Conc.Lts Conc.Ev gen.BucketStateGen Proof.BucketState Model.VhmGrowDefs Proof.VhmGrowBase.
From XV Require Proof.VhmBase Proof.VhmAbs.
Import ListNotations.
Local Open Scope N_scope.

Definition ic (st : state) (b j : N) : N := bs_item_count (bst st b j).
Definition mk (st : state) (b j : N) : N := bs_delete_marker (bst st b j).
(** a valid array slot: below the item count and not the slot that is being removed / overwritten *)
Definition vslot (st : state) (b j i : N) : Prop := i < ic st b j /\ i + 1 <> mk st b j.
Definition slot_has (st : state) (b j k v : N) : Prop := exists i, vslot st b j i /\ akey st b j i = k /\ aval st b j i = v.
Definition absent (st : state) (k : N) : Prop := lookup k (g_map st) = None.

Section VhmGrowAbs.
  Variable hash : N -> N.
  Notation step := (step hash).
  Notation Lk := (Lk hash).

  (** number of buckets of the current block, bucket of a key *)
  Definition nb_ (st : state) : N := bcnt st (db st).
  Definition hb (st : state) (k : N) : N := hash k mod nb_ st.

  (** [g_map] = the valid slots of the current block; every key sits in the bucket its hash selects, once *)
  Record G (st : state) : Prop := mkG {
    G_map : forall k v, lookup k (g_map st) = Some v <-> slot_has st (db st) (hb st k) k v;
    G_hash : forall j i, j < nb_ st -> vslot st (db st) j i -> hb st (akey st (db st) j i) = j;
    G_us : forall j i i', j < nb_ st -> vslot st (db st) j i -> vslot st (db st) j i' ->
           akey st (db st) j i = akey st (db st) j i' -> i = i'
  }.

  Lemma lookup_none_iff st k : G st -> (lookup k (g_map st) = None <-> forall v, ~ slot_has st (db st) (hb st k) k v).
  Proof.
    intros HG. split.
    - intros H v Hc. apply (G_map _ HG) in Hc. congruence.
    - intros H. destruct (lookup k (g_map st)) as [v|] eqn:E; [|reflexivity]. exfalso. apply (H v). apply (G_map _ HG). exact E.
  Qed.

  (** [G] only depends on the words and the valid slots of the current block *)
  Lemma G_ext st st' : G st -> db st' = db st -> bcnt st' (db st) = bcnt st (db st) -> g_map st' = g_map st ->
    (forall j, ic st' (db st) j = ic st (db st) j /\ mk st' (db st) j = mk st (db st) j) ->
    (forall j i, vslot st (db st) j i -> akey st' (db st) j i = akey st (db st) j i /\ aval st' (db st) j i = aval st (db st) j i) ->
    G st'.
  Proof.
    intros HG Ed Eb Em Hw Hs.
    assert (En : nb_ st' = nb_ st) by (unfold nb_; rewrite Ed, Eb; reflexivity).
    assert (Eh : forall k, hb st' k = hb st k) by (intros k; unfold hb; rewrite En; reflexivity).
    assert (Hv : forall j i, vslot st' (db st) j i <-> vslot st (db st) j i).
    { intros j i. unfold vslot. destruct (Hw j) as [-> ->]. tauto. }
    assert (Hsh : forall j k v, slot_has st' (db st) j k v <-> slot_has st (db st) j k v).
    { intros j k v. split; intros (i & H1 & H2 & H3); exists i.
      - apply Hv in H1. destruct (Hs j i H1) as [E1 E2]. rewrite <- E1, <- E2. tauto.
      - destruct (Hs j i H1) as [E1 E2]. rewrite E1, E2. apply Hv in H1. tauto. }
    constructor; rewrite ?Ed, ?En.
    - intros k v. rewrite Em, Eh, Hsh. apply (G_map _ HG).
    - intros j i Hj H1. apply Hv in H1. rewrite Eh. destruct (Hs j i H1) as [-> _]. apply (G_hash _ HG); assumption.
    - intros j i i' Hj H1 H2. apply Hv in H1. apply Hv in H2. destruct (Hs j i H1) as [-> _]. destruct (Hs j i' H2) as [-> _].
      apply (G_us _ HG); assumption.
  Qed.

  (** a step that only touches bucket [j0] of the current block *)
  Record only (st st' : state) (j0 : N) : Prop := mkOnly {
    o_db : db st' = db st;
    o_bc : bcnt st' (db st) = bcnt st (db st);
    o_w : forall j, j <> j0 -> ic st' (db st) j = ic st (db st) j /\ mk st' (db st) j = mk st (db st) j;
    o_s : forall j i, j <> j0 -> akey st' (db st) j i = akey st (db st) j i /\ aval st' (db st) j i = aval st (db st) j i
  }.

  Lemma only_other st st' j0 j k v : only st st' j0 -> j <> j0 -> (slot_has st' (db st) j k v <-> slot_has st (db st) j k v).
  Proof.
    intros HO Hne. destruct (o_w _ _ _ HO j Hne) as [E1 E2].
    split; intros (i & [H1 H2] & H3 & H4); exists i; destruct (o_s _ _ _ HO j i Hne) as [E3 E4]; unfold vslot in *.
    - rewrite <- E1, <- E2, <- E3, <- E4. tauto.
    - rewrite E1, E2, E3, E4. tauto.
  Qed.

  (** insertion into the array: the unlocking store publishes slot [c] of bucket [j0] *)
  Lemma G_ins_slot st st' j0 c k v : G st -> only st st' j0 -> j0 < nb_ st -> hb st k = j0 ->
    mk st (db st) j0 = 0 -> ic st (db st) j0 = c -> ic st' (db st) j0 = c + 1 -> mk st' (db st) j0 = 0 ->
    (forall i, akey st' (db st) j0 i = akey st (db st) j0 i /\ aval st' (db st) j0 i = aval st (db st) j0 i) ->
    akey st (db st) j0 c = k -> aval st (db st) j0 c = v -> lookup k (g_map st) = None -> g_map st' = (k, v) :: g_map st -> G st'.
  Proof.
    intros HG HO Hj0 Hk0 Hmk Hic Hic' Hmk' Hsl Hk Hv Habs Em.
    pose proof (o_db _ _ _ HO) as Ed. pose proof (o_bc _ _ _ HO) as Eb.
    assert (En : nb_ st' = nb_ st) by (unfold nb_; rewrite Ed, Eb; reflexivity).
    assert (Eh : forall k, hb st' k = hb st k) by (intros k'; unfold hb; rewrite En; reflexivity).
    assert (Hvs : forall i, vslot st' (db st) j0 i <-> vslot st (db st) j0 i \/ i = c).
    { intros i. unfold vslot. rewrite Hic', Hmk', Hic, Hmk. lia. }
    assert (Hnv : ~ vslot st (db st) j0 c) by (unfold vslot; lia).
    pose proof (proj1 (lookup_none_iff _ k HG) Habs) as Hno. rewrite Hk0 in Hno.
    constructor; rewrite ?Ed, ?En.
    - intros k0 v0. rewrite Em, VhmBase.lookup_cons, Eh. destruct (N.eqb_spec k k0) as [<-|Hne].
      + rewrite Hk0. split.
        * intros E. injection E as <-. exists c. rewrite Hvs. destruct (Hsl c) as [-> ->]. tauto.
        * intros (i & H1 & H2 & H3). apply Hvs in H1. destruct (Hsl i) as [E1 E2]. rewrite E1 in H2. rewrite E2 in H3.
          destruct H1 as [H1| ->]; [|congruence]. exfalso. apply (Hno v0). exists i. tauto.
      + rewrite (G_map _ HG). destruct (N.eq_dec (hb st k0) j0) as [E0|Hn0].
        * rewrite E0. split; intros (i & H1 & H2 & H3); exists i; destruct (Hsl i) as [E1 E2].
          -- rewrite Hvs, E1, E2. tauto.
          -- rewrite E1 in H2. rewrite E2 in H3. apply Hvs in H1. destruct H1 as [H1| ->]; [tauto | congruence].
        * symmetry. apply (only_other _ _ j0); assumption.
    - intros j i Hj H1. rewrite Eh. destruct (N.eq_dec j j0) as [->|Hne].
      + destruct (Hsl i) as [-> _]. apply Hvs in H1. destruct H1 as [H1| ->]; [apply (G_hash _ HG); assumption | congruence].
      + destruct (o_s _ _ _ HO j i Hne) as [-> _]. apply (G_hash _ HG); [exact Hj|]. unfold vslot in *. destruct (o_w _ _ _ HO j Hne) as [<- <-]. exact H1.
    - intros j i i' Hj H1 H2. destruct (N.eq_dec j j0) as [->|Hne].
      + destruct (Hsl i) as [-> _]. destruct (Hsl i') as [-> _]. apply Hvs in H1. apply Hvs in H2.
        destruct H1 as [H1| ->]; destruct H2 as [H2| ->]; intros E; try reflexivity.
        * apply (G_us _ HG j0); assumption.
        * exfalso. apply (Hno (aval st (db st) j0 i)). exists i. rewrite E, Hk. tauto.
        * exfalso. apply (Hno (aval st (db st) j0 i')). exists i'. rewrite <- E, Hk. tauto.
      + destruct (o_s _ _ _ HO j i Hne) as [-> _]. destruct (o_s _ _ _ HO j i' Hne) as [-> _].
        unfold vslot in *. destruct (o_w _ _ _ HO j Hne) as [E1 E2]. rewrite E1, E2 in H1, H2. apply (G_us _ HG); assumption.
  Qed.

  (** generic form: the obligations are local to bucket [j0] *)
  Lemma G_bucket st st' j0 : G st -> only st st' j0 -> j0 < nb_ st ->
    (forall k v, hb st k = j0 -> (lookup k (g_map st') = Some v <-> slot_has st' (db st) j0 k v)) ->
    (forall k, hb st k <> j0 -> lookup k (g_map st') = lookup k (g_map st)) ->
    (forall i, vslot st' (db st) j0 i -> hb st (akey st' (db st) j0 i) = j0) ->
    (forall i i', vslot st' (db st) j0 i -> vslot st' (db st) j0 i' -> akey st' (db st) j0 i = akey st' (db st) j0 i' -> i = i') ->
    G st'.
  Proof.
    intros HG HO Hj0 Hm Hm' Hh Hu.
    pose proof (o_db _ _ _ HO) as Ed. pose proof (o_bc _ _ _ HO) as Eb.
    assert (En : nb_ st' = nb_ st) by (unfold nb_; rewrite Ed, Eb; reflexivity).
    assert (Eh : forall k, hb st' k = hb st k) by (intros k'; unfold hb; rewrite En; reflexivity).
    constructor; rewrite ?Ed, ?En.
    - intros k v. rewrite Eh. destruct (N.eq_dec (hb st k) j0) as [E0|Hn0].
      + rewrite E0. apply Hm. exact E0.
      + rewrite (Hm' k Hn0), (G_map _ HG). symmetry. apply (only_other _ _ j0); assumption.
    - intros j i Hj H1. rewrite Eh. destruct (N.eq_dec j j0) as [->|Hne]; [apply Hh; exact H1|].
      destruct (o_s _ _ _ HO j i Hne) as [-> _]. apply (G_hash _ HG); [exact Hj|]. unfold vslot in *. destruct (o_w _ _ _ HO j Hne) as [<- <-]. exact H1.
    - intros j i i' Hj H1 H2. destruct (N.eq_dec j j0) as [->|Hne]; [apply Hu; assumption|].
      destruct (o_s _ _ _ HO j i Hne) as [-> _]. destruct (o_s _ _ _ HO j i' Hne) as [-> _].
      unfold vslot in *. destruct (o_w _ _ _ HO j Hne) as [E1 E2]. rewrite E1, E2 in H1, H2. apply (G_us _ HG); assumption.
  Qed.

  (** removal from the array: the store of the delete marker hides slot [i] *)
  Lemma G_mark st st' j0 i k : G st -> only st st' j0 -> j0 < nb_ st -> hb st k = j0 ->
    mk st (db st) j0 = 0 -> i < ic st (db st) j0 -> mk st' (db st) j0 = i + 1 -> ic st' (db st) j0 = ic st (db st) j0 ->
    (forall x, akey st' (db st) j0 x = akey st (db st) j0 x /\ aval st' (db st) j0 x = aval st (db st) j0 x) ->
    akey st (db st) j0 i = k -> g_map st' = rem k (g_map st) -> G st'.
  Proof.
    intros HG HO Hj0 Hk0 Hmk Hi Hmk' Hic Hsl Hk Em.
    assert (Hvs : forall x, vslot st' (db st) j0 x <-> vslot st (db st) j0 x /\ x <> i).
    { intros x. unfold vslot. rewrite Hic, Hmk', Hmk. lia. }
    assert (Hvi : vslot st (db st) j0 i) by (unfold vslot; lia).
    apply (G_bucket st st' j0); try assumption.
    - intros k0 v0 E0. rewrite Em, VhmBase.lookup_rem. destruct (N.eqb_spec k0 k) as [->|Hne].
      + split; [discriminate|]. intros (x & H1 & H2 & H3). exfalso. apply Hvs in H1. destruct H1 as [H1 H1']. apply H1'.
        destruct (Hsl x) as [E1 _]. rewrite E1 in H2. apply (G_us _ HG j0); try assumption. congruence.
      + rewrite (G_map _ HG), E0. split; intros (x & H1 & H2 & H3); exists x; destruct (Hsl x) as [E1 E2].
        * rewrite Hvs, E1, E2. split; [split; [exact H1 | intros ->; congruence] | tauto].
        * rewrite E1 in H2. rewrite E2 in H3. apply Hvs in H1. tauto.
    - intros k0 Hn0. rewrite Em, VhmBase.lookup_rem. destruct (N.eqb_spec k0 k) as [->|Hne]; [contradiction | reflexivity].
    - intros x H1. apply Hvs in H1. destruct (Hsl x) as [-> _]. apply (G_hash _ HG); tauto.
    - intros x x' H1 H2. apply Hvs in H1. apply Hvs in H2. destruct (Hsl x) as [-> _]. destruct (Hsl x') as [-> _]. apply (G_us _ HG j0); tauto.
  Qed.

  (** unlocking store of a removal that back-filled slot [i] from the last slot *)
  Lemma G_dec_moved st st' j0 i : G st -> only st st' j0 -> j0 < nb_ st ->
    mk st (db st) j0 = i + 1 -> i < ic st (db st) j0 - 1 -> ic st' (db st) j0 = ic st (db st) j0 - 1 -> mk st' (db st) j0 = 0 ->
    (forall x, akey st' (db st) j0 x = akey st (db st) j0 x /\ aval st' (db st) j0 x = aval st (db st) j0 x) ->
    akey st (db st) j0 i = akey st (db st) j0 (ic st (db st) j0 - 1) ->
    aval st (db st) j0 i = aval st (db st) j0 (ic st (db st) j0 - 1) -> g_map st' = g_map st -> G st'.
  Proof.
    intros HG HO Hj0 Hmk Hi Hic Hmk' Hsl Hk Hv Em.
    set (c := ic st (db st) j0 - 1) in *.
    assert (Hvs : forall x, vslot st' (db st) j0 x <-> (vslot st (db st) j0 x /\ x <> c) \/ x = i).
    { intros x. unfold vslot. rewrite Hic, Hmk', Hmk. lia. }
    assert (Hvc : vslot st (db st) j0 c) by (unfold vslot; lia).
    apply (G_bucket st st' j0); try assumption.
    - intros k0 v0 E0. rewrite Em, (G_map _ HG), E0. split.
      + intros (x & H1 & H2 & H3). destruct (N.eq_dec x c) as [->|Hne].
        * exists i. rewrite Hvs. destruct (Hsl i) as [-> ->]. split; [right; reflexivity | split; congruence].
        * exists x. rewrite Hvs. destruct (Hsl x) as [-> ->]. tauto.
      + intros (x & H1 & H2 & H3). destruct (Hsl x) as [E1 E2]. rewrite E1 in H2. rewrite E2 in H3. apply Hvs in H1. destruct H1 as [[H1 _]| ->].
        * exists x. tauto.
        * exists c. split; [exact Hvc | split; congruence].
    - intros k0 _. rewrite Em. reflexivity.
    - intros x H1. apply Hvs in H1. destruct (Hsl x) as [-> _]. destruct H1 as [[H1 _]| ->]; [apply (G_hash _ HG); assumption|].
      rewrite Hk. apply (G_hash _ HG); assumption.
    - intros x x' H1 H2. apply Hvs in H1. apply Hvs in H2. destruct (Hsl x) as [-> _]. destruct (Hsl x') as [-> _].
      destruct H1 as [[H1 H1']| ->]; destruct H2 as [[H2 H2']| ->]; intros E; try reflexivity.
      + apply (G_us _ HG j0); assumption.
      + exfalso. apply H1'. apply (G_us _ HG j0); try assumption. congruence.
      + exfalso. apply H2'. apply (G_us _ HG j0); try assumption. congruence.
  Qed.

  (** unlocking store of a removal of the last slot *)
  Lemma G_dec_last st st' j0 i k : G st -> only st st' j0 -> j0 < nb_ st -> hb st k = j0 ->
    mk st (db st) j0 = 0 -> 0 < ic st (db st) j0 -> i = ic st (db st) j0 - 1 -> ic st' (db st) j0 = ic st (db st) j0 - 1 -> mk st' (db st) j0 = 0 ->
    (forall x, akey st' (db st) j0 x = akey st (db st) j0 x /\ aval st' (db st) j0 x = aval st (db st) j0 x) ->
    akey st (db st) j0 i = k -> g_map st' = rem k (g_map st) -> G st'.
  Proof.
    intros HG HO Hj0 Hk0 Hmk Hpos Hi Hic Hmk' Hsl Hk Em.
    assert (Hvs : forall x, vslot st' (db st) j0 x <-> vslot st (db st) j0 x /\ x <> i).
    { intros x. unfold vslot. rewrite Hic, Hmk', Hmk. lia. }
    assert (Hvi : vslot st (db st) j0 i) by (unfold vslot; lia).
    apply (G_bucket st st' j0); try assumption.
    - intros k0 v0 E0. rewrite Em, VhmBase.lookup_rem. destruct (N.eqb_spec k0 k) as [->|Hne].
      + split; [discriminate|]. intros (x & H1 & H2 & H3). exfalso. apply Hvs in H1. destruct H1 as [H1 H1']. apply H1'.
        destruct (Hsl x) as [E1 _]. rewrite E1 in H2. apply (G_us _ HG j0); try assumption. congruence.
      + rewrite (G_map _ HG), E0. split; intros (x & H1 & H2 & H3); exists x; destruct (Hsl x) as [E1 E2].
        * rewrite Hvs, E1, E2. split; [split; [exact H1 | intros ->; congruence] | tauto].
        * rewrite E1 in H2. rewrite E2 in H3. apply Hvs in H1. tauto.
    - intros k0 Hn0. rewrite Em, VhmBase.lookup_rem. destruct (N.eqb_spec k0 k) as [->|Hne]; [contradiction | reflexivity].
    - intros x H1. apply Hvs in H1. destruct (Hsl x) as [-> _]. apply (G_hash _ HG); tauto.
    - intros x x' H1 H2. apply Hvs in H1. apply Hvs in H2. destruct (Hsl x) as [-> _]. destruct (Hsl x') as [-> _]. apply (G_us _ HG j0); tauto.
  Qed.

  (** * what the holder of a bucket lock knows *)
  Definition pc_abs (st : state) (t : nat) (p : pc) : Prop :=
    match p with
    | IK _ k _ b j _ i => forall i', i' < i -> akey st b j i' <> k
    | IV _ k _ b j _ i => akey st b j i = k
    | IUold a k _ _ _ _ r => exists r', lookup k (g_map st) = Some r' /\ (a = true -> r' = r)
    | ISK _ k _ _ _ _ => absent st k
    | ISV _ k _ b j s => absent st k /\ akey st b j (bs_item_count s) = k
    | IUnew _ k v b j s => absent st k /\ akey st b j (bs_item_count s) = k /\ aval st b j (bs_item_count s) = v
    | X1 _ _ | X2 _ _ _ _ | X3 _ _ _ _ _ => g_lp st t = None
    | XK _ k b j _ i => forall i', i' < i -> akey st b j i' <> k
    | XV _ k b j _ i => akey st b j i = k
    | XH _ k b j _ i r | XB1 _ k b j _ i r => akey st b j i = k /\ aval st b j i = r
    | XB2 _ _ _ _ _ _ r => g_lp st t = Some (Some r)
    | XB3 _ _ b j s _ r kk => g_lp st t = Some (Some r) /\ kk = akey st b j (bs_item_count s - 1)
    | XB4 _ _ b j s _ r kk vv =>
      g_lp st t = Some (Some r) /\ kk = akey st b j (bs_item_count s - 1) /\ vv = aval st b j (bs_item_count s - 1)
    | XB5 _ _ b j s i r vv =>
      g_lp st t = Some (Some r) /\ akey st b j i = akey st b j (bs_item_count s - 1) /\ vv = aval st b j (bs_item_count s - 1)
    | XB6 _ k b j s i r =>
      if i =? bs_item_count s - 1 then akey st b j i = k /\ aval st b j i = r
      else g_lp st t = Some (Some r) /\ akey st b j i = akey st b j (bs_item_count s - 1) /\
           aval st b j i = aval st b j (bs_item_count s - 1)
    | XHH _ k _ _ _ | XU _ k _ _ _ => absent st k
    | _ => True
    end.

  (** * the migration invariant of do_grow *)
  (** item [y] of old bucket [j] has been moved when the loop stands at item [x] of old bucket [i] *)
  Definition moved (i x j y : N) : Prop := j < i \/ (j = i /\ y < x).

  Record mig (st : state) (ob nb n i x : N) : Prop := mkMig {
    M_cnt : forall jn, jn < dbl n -> ic st nb jn <= (if jn mod n <? i then 3 else if jn mod n =? i then x else 0);
    M_fwd : forall j y, moved i x j y -> j < n -> y < ic st ob j ->
            exists z, z < ic st nb (hash (akey st ob j y) mod dbl n) /\
                      akey st nb (hash (akey st ob j y) mod dbl n) z = akey st ob j y /\
                      aval st nb (hash (akey st ob j y) mod dbl n) z = aval st ob j y;
    M_bwd : forall jn z, jn < dbl n -> z < ic st nb jn ->
            exists j y, moved i x j y /\ j < n /\ y < ic st ob j /\
                        akey st nb jn z = akey st ob j y /\ aval st nb jn z = aval st ob j y /\
                        hash (akey st nb jn z) mod dbl n = jn;
    M_us : forall jn z z', jn < dbl n -> z < ic st nb jn -> z' < ic st nb jn -> akey st nb jn z = akey st nb jn z' -> z = z'
  }.

  Definition pc_mig (st : state) (p : pc) : Prop :=
    match p with
    | DGL _ _ nb _ _ | DGC _ _ nb _ _ _ => forall jn, ic st nb jn = 0
    | DMS _ ob nb n i => mig st ob nb n i 0
    | DMK _ ob nb n i cn x => mig st ob nb n i x /\ cn = ic st ob i /\ x < cn
    | DMN _ ob nb n i cn x kk jn =>
      mig st ob nb n i x /\ cn = ic st ob i /\ x < cn /\ kk = akey st ob i x /\ jn = hash kk mod dbl n
    | DMV _ ob nb n i cn x kk jn ns =>
      mig st ob nb n i x /\ cn = ic st ob i /\ x < cn /\ kk = akey st ob i x /\ jn = hash kk mod dbl n /\ ns = bst st nb jn
    | DMSK _ ob nb n i cn x kk jn ns vv =>
      mig st ob nb n i x /\ cn = ic st ob i /\ x < cn /\ kk = akey st ob i x /\ jn = hash kk mod dbl n /\ ns = bst st nb jn /\
      vv = aval st ob i x
    | DMSV _ ob nb n i cn x jn ns vv =>
      mig st ob nb n i x /\ cn = ic st ob i /\ x < cn /\ jn = hash (akey st ob i x) mod dbl n /\ ns = bst st nb jn /\
      vv = aval st ob i x /\ akey st nb jn (bs_item_count ns) = akey st ob i x
    | DMSS _ ob nb n i cn x jn ns =>
      mig st ob nb n i x /\ cn = ic st ob i /\ x < cn /\ jn = hash (akey st ob i x) mod dbl n /\ ns = bst st nb jn /\
      akey st nb jn (bs_item_count ns) = akey st ob i x /\ aval st nb jn (bs_item_count ns) = aval st ob i x
    | DMH _ ob nb n i => mig st ob nb n (i + 1) 0
    | DP1 _ ob nb n => mig st ob nb n n 0
    | _ => True
    end.

  (** results of the completed writer calls against the value [g_map] gave the key at the linearization point;
      erase / extract that found item_count = 0 before taking the lock have no linearization point of their own
      ([h_wit] = None): they are covered like the readers, see Proof/VhmGrowInv.v *)
  Definition hist_ok_w (h : hrec) : Prop :=
    match h_op h with
    | OIns _ _ => (h_res h = [0; 1] /\ h_wit h = Some None) \/ (h_res h = [0; 0] /\ exists r, h_wit h = Some (Some r))
    | OGetIns _ v => (h_res h = [1; 1; v] /\ h_wit h = Some None) \/ (exists r, h_res h = [1; 0; r] /\ h_wit h = Some (Some r))
    | ODel _ => (h_res h = [2; 1] /\ exists r, h_wit h = Some (Some r)) \/ (h_res h = [2; 0] /\ (h_wit h = Some None \/ h_wit h = None))
    | OExt _ => (exists r, h_res h = [3; 1; r] /\ h_wit h = Some (Some r)) \/ (h_res h = [3; 0] /\ (h_wit h = Some None \/ h_wit h = None))
    | OGet _ => True
    end.

  Definition Abs (st : state) : Prop :=
    G st /\ (forall t, pc_abs st t (th st t)) /\ (forall t, pc_mig st (th st t)) /\ (forall h, In h (g_hist st) -> hist_ok_w h).

  Lemma mod_dbl a n : 0 < n -> (a mod dbl n) mod n = a mod n.
  Proof.
    intros Hn. unfold dbl. rewrite (N.mul_comm 2 n), N.mod_mul_r by lia.
    rewrite N.mul_comm, N.mod_add by lia. apply N.mod_mod. lia.
  Qed.

  (** the grower holds every bucket of the old block: markers are clear there *)
  Lemma grower_mk st t ob nb n j : Lk st -> pc_blocks (th st t) = Some (ob, nb, n) -> holds (th st t) ob j -> mk st ob j = 0.
  Proof.
    intros HI Hb Hh. apply (K_mk _ _ HI). intros u Hu. pose proof (K_hold _ _ HI _ _ _ Hh) as Ht.
    assert (u = t) by congruence. subst u. destruct (th st t); cbn [pc_blocks] in Hb; try discriminate Hb; reflexivity.
  Qed.

  (** the old bucket an item is moved out of determines the new bucket modulo the old bucket count *)
  Lemma mig_target st t ob nb n i x : Lk st -> G st -> pc_blocks (th st t) = Some (ob, nb, n) -> holds (th st t) ob i ->
    x < ic st ob i -> i < n -> (hash (akey st ob i x) mod dbl n) mod n = i /\ hash (akey st ob i x) mod dbl n < dbl n /\ 0 < n.
  Proof.
    intros HI HG Hb Hh Hx Hi. pose proof (K_gw _ _ HI t) as Hgw.
    assert (Hg : ob = db st /\ n = bcnt st ob).
    { destruct (th st t); cbn [pc_blocks] in Hb; try discriminate Hb; injection Hb as -> -> ->; cbn [pc_gw pc_blocks] in Hgw; tauto. }
    destruct Hg as [-> ->]. split; [|split; [apply N.mod_lt; unfold dbl; lia | lia]].
    rewrite mod_dbl by lia. apply (G_hash _ HG); [exact Hi|]. split; [exact Hx|].
    rewrite (grower_mk st t _ nb _ i HI Hb Hh). lia.
  Qed.

  Lemma MC_of st : Lk st -> G st -> (forall t, pc_mig st (th st t)) -> MC st.
  Proof.
    intros HI HG HM t c ob nb n i cn x jn ns Epc. pose proof (HM t) as Hm. rewrite Epc in Hm. cbn [pc_mig] in Hm.
    destruct Hm as (Hmig & -> & Hx & -> & -> & _). split; [reflexivity|].
    pose proof (K_wf _ _ HI t) as Hwf. rewrite Epc in Hwf. cbn [pc_wf] in Hwf.
    destruct (mig_target st t ob nb n i x HI HG) as (T1 & T2 & T3); [rewrite Epc; reflexivity | rewrite Epc; cbn [holds]; split; [reflexivity | exact Hwf] | exact Hx | exact Hwf |].
    pose proof (M_cnt _ _ _ _ _ _ Hmig _ T2) as Hc. rewrite T1, N.ltb_irrefl, N.eqb_refl in Hc.
    pose proof (K_ic _ _ HI ob i). unfold ic in *. lia.
  Qed.

  (** publication of the new block: it holds exactly the pairs of the old one, every key in its new bucket *)
  Lemma G_publish st st' ob nb n : G st -> ob = db st -> n = bcnt st ob -> 0 < n -> bcnt st nb = dbl n -> mig st ob nb n n 0 ->
    (forall j, j < n -> mk st ob j = 0) -> (forall jn, mk st nb jn = 0) ->
    db st' = nb -> bcnt st' = bcnt st -> bst st' = bst st -> akey st' = akey st -> aval st' = aval st -> g_map st' = g_map st -> G st'.
  Proof.
    intros HG -> -> Hn Hbn HM Hmo Hmn Ed Eb Es Ea Ev Em.
    assert (En : nb_ st' = dbl (bcnt st (db st))) by (unfold nb_; rewrite Ed, Eb; exact Hbn).
    assert (Eh : forall k, hb st' k = hash k mod dbl (bcnt st (db st))) by (intros k; unfold hb; rewrite En; reflexivity).
    assert (Hv : forall jn z, vslot st' nb jn z <-> z < ic st nb jn).
    { intros jn z. unfold vslot, ic, mk. rewrite Es. fold (mk st nb jn). rewrite Hmn. lia. }
    assert (Hvo : forall j y, j < bcnt st (db st) -> (vslot st (db st) j y <-> y < ic st (db st) j)).
    { intros j y Hj. unfold vslot. rewrite (Hmo j Hj). lia. }
    constructor; rewrite ?Ed, ?En.
    - intros k v. rewrite Em, Eh, (G_map _ HG). unfold slot_has. rewrite Ea, Ev.
      assert (Hj : hb st k < bcnt st (db st)) by (apply N.mod_lt; unfold nb_; lia). split.
      + intros (y & H1 & H2 & H3). apply (Hvo _ _ Hj) in H1.
        destruct (M_fwd _ _ _ _ _ _ HM (hb st k) y) as (z & Z1 & Z2 & Z3); [left; exact Hj | exact Hj | exact H1 |].
        rewrite H2 in Z1, Z2, Z3. exists z. rewrite Hv. split; [exact Z1 | split; congruence].
      + intros (z & H1 & H2 & H3). apply Hv in H1.
        destruct (M_bwd _ _ _ _ _ _ HM (hash k mod dbl (bcnt st (db st))) z) as (j & y & _ & B2 & B3 & B4 & B5 & _); [apply N.mod_lt; unfold dbl; lia | exact H1 |].
        assert (Hvs : vslot st (db st) j y) by (apply Hvo; assumption).
        pose proof (G_hash _ HG j y B2 Hvs) as Hh. rewrite <- B4, H2 in Hh. rewrite Hh. exists y. split; [exact Hvs | split; congruence].
    - intros jn z Hjn H1. apply Hv in H1. rewrite Eh, Ea.
      destruct (M_bwd _ _ _ _ _ _ HM jn z Hjn H1) as (j & y & _ & _ & _ & _ & _ & B6). exact B6.
    - intros jn z z' Hjn H1 H2. apply Hv in H1. apply Hv in H2. rewrite Ea. apply (M_us _ _ _ _ _ _ HM); assumption.
  Qed.

  Ltac wsame j := let j' := fresh "j'" in let Hnj := fresh "Hnj" in
    intros j'; unfold ic, mk; st_simpl_goal; destruct (N.eq_dec j' j) as [->|Hnj];
    [rewrite setf2_same | rewrite setf2_other by (right; exact Hnj); split; reflexivity].

  Ltac split_t' t' :=
    intros t'; match goal with |- context [upd ?f ?t ?p t'] => destruct (VhmBase.upd_cases f t p t') as [[-> E]|[Hne E]]; rewrite E; clear E end.

  Ltac prep2 HI HA HM t Epc :=
    pose proof (K_wf _ _ HI t) as Hwf; rewrite Epc in Hwf; cbn [pc_wf] in Hwf;
    pose proof (K_gw _ _ HI t) as Hgw; rewrite Epc in Hgw; cbn [pc_gw pc_blocks] in Hgw;
    pose proof (HA t) as Hab; rewrite Epc in Hab; cbn [pc_abs] in Hab;
    pose proof (HM t) as Hmg; rewrite Epc in Hmg; cbn [pc_mig] in Hmg;
    try (destruct (holder_facts hash _ t _ _ _ HI ltac:(rewrite Epc; reflexivity) ltac:(rewrite Epc; reflexivity)) as (Hb & Ho & Hcur & Hjlt & Hfz));
    try (pose proof (K_ref _ _ HI t) as Href; rewrite Epc in Href; cbn [pc_ref] in Href; specialize (Href _ _ _ eq_refl)).

  Lemma G_step st a st' es : Lk st -> G st -> (forall t, pc_abs st t (th st t)) -> (forall t, pc_mig st (th st t)) ->
    step st a = Some (st', es) -> G st'.
  Proof.
    intros HI HG HA HM H. step_inv H; st_simpl.
    all: try (apply (G_ext st); [exact HG | reflexivity | reflexivity | reflexivity | intros; split; reflexivity | intros; split; reflexivity]).
    all: prep2 HI HA HM t Epc.
    all: try (assert (Hwfs : wf_s s) by tauto;
              destruct (VhmAbs.wf_fields s Hwfs) as (FL1 & FL2 & FM & FN1 & FN2 & FC1 & FC2 & FV1 & FV2 & FS & FI & FD)).
    all: repeat match goal with E : ?c = _, H : context [if ?c then _ else _] |- _ => rewrite E in H end.
    all: unfold VhmBase.mark in *.
    all: try (assert (Hicst : ic st b j = bs_item_count s) by
               (unfold ic; rewrite Hb; first [exact FL1 | apply FM; tauto | exact FN1])).
    all: try subst b.
    all: pose proof (K_db _ _ HI) as (D1 & D2 & D3 & D4).
    - (* L3 *) b2p. subst s. destruct (acq_facts hash st t _ _ _ HI ltac:(rewrite Epc; reflexivity) Hwf) as (_ & -> & _).
      apply (G_ext st); [exact HG | reflexivity | reflexivity | reflexivity | wsame j; split; [apply bs_locked_item_count | apply bs_locked_delete_marker] | intros; split; reflexivity].
    - b2p. subst s. destruct (acq_facts hash st t _ _ _ HI ltac:(rewrite Epc; reflexivity) Hwf) as (_ & -> & _).
      apply (G_ext st); [exact HG | reflexivity | reflexivity | reflexivity | wsame j; split; [apply bs_locked_item_count | apply bs_locked_delete_marker] | intros; split; reflexivity].
    - (* IUold *) apply (G_ext st); [exact HG | reflexivity | reflexivity | reflexivity | wsame j; rewrite Hb; split; congruence | intros; split; reflexivity].
    - (* ISK *) apply (G_ext st); [exact HG | reflexivity | reflexivity | reflexivity | intros; split; reflexivity |].
      intros j' i' [Hv _]. st_simpl_goal. rewrite setf3_other; [split; reflexivity|].
      destruct (N.eq_dec j' j) as [->|]; [|auto]. right. right. rewrite Hicst in Hv. lia.
    - (* ISV *) apply (G_ext st); [exact HG | reflexivity | reflexivity | reflexivity | intros; split; reflexivity |].
      intros j' i' [Hv _]. st_simpl_goal. rewrite setf3_other; [split; reflexivity|].
      destruct (N.eq_dec j' j) as [->|]; [|auto]. right. right. rewrite Hicst in Hv. lia.
    - (* IUnew *) destruct Hwf as [_ Hlt]. destruct (FI Hlt) as [FI1 FI2]. destruct Hab as (Hab1 & Hab2 & Hab3). destruct Href as [_ Hj].
      apply (G_ins_slot st _ j (bs_item_count s) k v); try assumption; try reflexivity.
      + constructor; try reflexivity.
        * intros j' Hn. unfold ic, mk. st_simpl_goal. rewrite setf2_other by auto. split; reflexivity.
        * intros; split; reflexivity.
      + unfold hb, nb_. symmetry. exact Hj.
      + unfold mk. rewrite Hb. exact FL2.
      + unfold ic. st_simpl_goal. rewrite setf2_same. exact FI1.
      + unfold mk. st_simpl_goal. rewrite setf2_same. exact FI2.
      + intros; split; reflexivity.
    - (* GR2 *) apply (G_ext st); [exact HG | reflexivity | reflexivity | reflexivity | wsame j; rewrite Hb; split; congruence | intros; split; reflexivity].
    - apply (G_ext st); [exact HG | reflexivity | reflexivity | reflexivity | wsame j; rewrite Hb; split; congruence | intros; split; reflexivity].
    - (* DG1 *) apply (G_ext st); [exact HG | reflexivity | st_simpl_goal; apply setf1_other; lia | reflexivity | |].
      + intros j'. unfold ic, mk. st_simpl_goal. rewrite clr2_other by lia. split; reflexivity.
      + intros j' i' _. st_simpl_goal. rewrite !clr3_other by lia. split; reflexivity.
    - (* DGC *) b2p. subst s. destruct Hgw as (-> & _).
      apply (G_ext st); [exact HG | reflexivity | reflexivity | reflexivity | wsame i; split; [apply bs_locked_item_count | apply bs_locked_delete_marker] | intros; split; reflexivity].
    - b2p. subst s. destruct Hgw as (-> & _).
      apply (G_ext st); [exact HG | reflexivity | reflexivity | reflexivity | wsame i; split; [apply bs_locked_item_count | apply bs_locked_delete_marker] | intros; split; reflexivity].
    - (* DMSK *) destruct Hgw as (-> & _ & _ & Hnb & _).
      apply (G_ext st); [exact HG | reflexivity | reflexivity | reflexivity | intros; split; reflexivity |].
      intros j' i' _. st_simpl_goal. rewrite setf3_other by (left; congruence). split; reflexivity.
    - (* DMSV *) destruct Hgw as (-> & _ & _ & Hnb & _).
      apply (G_ext st); [exact HG | reflexivity | reflexivity | reflexivity | intros; split; reflexivity |].
      intros j' i' _. st_simpl_goal. rewrite setf3_other by (left; congruence). split; reflexivity.
    - (* DMSS *) destruct Hgw as (-> & _ & _ & Hnb & _).
      apply (G_ext st); [exact HG | reflexivity | reflexivity | reflexivity | | intros; split; reflexivity].
      intros j'. unfold ic, mk. st_simpl_goal. rewrite setf2_other by (left; congruence). split; reflexivity.
    - destruct Hgw as (-> & _ & _ & Hnb & _).
      apply (G_ext st); [exact HG | reflexivity | reflexivity | reflexivity | | intros; split; reflexivity].
      intros j'. unfold ic, mk. st_simpl_goal. rewrite setf2_other by (left; congruence). split; reflexivity.
    - (* DP1 *) destruct Hgw as (G1 & G2 & G3 & G4 & G5 & G6 & G7).
      apply (G_publish st _ ob nb n); try assumption; try reflexivity.
      + subst n ob. exact D3.
      + intros j' Hj'. apply (grower_mk st t ob nb n); [exact HI | rewrite Epc; reflexivity | rewrite Epc; cbn [holds]; auto].
      + intros jn. apply (K_mk _ _ HI). intros u Hu. destruct (own_cur hash _ _ _ _ HI Hu). congruence.
    - (* X3 *) b2p. subst s. destruct (acq_facts hash st t _ _ _ HI ltac:(rewrite Epc; reflexivity) ltac:(tauto)) as (_ & -> & _).
      apply (G_ext st); [exact HG | reflexivity | reflexivity | reflexivity | wsame j; split; [apply bs_locked_item_count | apply bs_locked_delete_marker] | intros; split; reflexivity].
    - (* XB1 *) destruct Hwf as (_ & Hi & _). destruct (FM i Hi) as [FM1 FM2]. destruct Hab as [Hab1 Hab2]. destruct Href as [_ Hj].
      apply (G_mark st _ j i k); try assumption; try reflexivity.
      + constructor; try reflexivity.
        * intros j' Hn. unfold ic, mk. st_simpl_goal. rewrite setf2_other by auto. split; reflexivity.
        * intros; split; reflexivity.
      + unfold hb, nb_. symmetry. exact Hj.
      + unfold mk. rewrite Hb. exact FL2.
      + lia.
      + unfold mk. st_simpl_goal. rewrite setf2_same. exact FM2.
      + unfold ic. st_simpl_goal. rewrite setf2_same, Hb. congruence.
      + intros; split; reflexivity.
    - (* XB4 *) destruct Hwf as (_ & Hi & _). destruct (FM i Hi) as [FM1 FM2].
      apply (G_ext st); [exact HG | reflexivity | reflexivity | reflexivity | intros; split; reflexivity |].
      intros j' i' [_ Hv]. st_simpl_goal. rewrite setf3_other; [split; reflexivity|].
      destruct (N.eq_dec j' j) as [->|]; [|auto]. right. right. unfold mk in Hv. rewrite Hb, FM2 in Hv. lia.
    - (* XB5 *) destruct Hwf as (_ & Hi & _). destruct (FM i Hi) as [FM1 FM2].
      apply (G_ext st); [exact HG | reflexivity | reflexivity | reflexivity | intros; split; reflexivity |].
      intros j' i' [_ Hv]. st_simpl_goal. rewrite setf3_other; [split; reflexivity|].
      destruct (N.eq_dec j' j) as [->|]; [|auto]. right. right. unfold mk in Hv. rewrite Hb, FM2 in Hv. lia.
    - (* XB6, last slot *) b2p. destruct Hwf as [_ Hi]. destruct (FD ltac:(lia)) as [FD1 FD2]. destruct Hab as [Hab1 Hab2]. destruct Href as [_ Hj].
      apply (G_dec_last st _ j i k); try assumption; try reflexivity.
      + constructor; try reflexivity.
        * intros j' Hn. unfold ic, mk. st_simpl_goal. rewrite setf2_other by auto. split; reflexivity.
        * intros; split; reflexivity.
      + unfold hb, nb_. symmetry. exact Hj.
      + unfold mk. rewrite Hb. exact FL2.
      + lia.
      + lia.
      + unfold ic. st_simpl_goal. rewrite setf2_same, Hb, FL1. exact FD1.
      + unfold mk. st_simpl_goal. rewrite setf2_same. exact FD2.
      + intros; split; reflexivity.
    - (* XB6, back-filled slot *) b2p. destruct Hwf as [_ Hi]. destruct (FM i Hi) as [FM1 FM2]. destruct (FD ltac:(lia)) as [FD1 FD2].
      destruct Hab as (_ & Hab1 & Hab2).
      apply (G_dec_moved st _ j i); try assumption; try reflexivity.
      + constructor; try reflexivity.
        * intros j' Hn. unfold ic, mk. st_simpl_goal. rewrite setf2_other by auto. split; reflexivity.
        * intros; split; reflexivity.
      + unfold mk. rewrite Hb. exact FM2.
      + lia.
      + unfold ic. st_simpl_goal. rewrite setf2_same, Hb, FM1. exact FD1.
      + unfold mk. st_simpl_goal. rewrite setf2_same. exact FD2.
      + intros; split; reflexivity.
      + rewrite Hicst. exact Hab1.
      + rewrite Hicst. exact Hab2.
    - (* XU *) apply (G_ext st); [exact HG | reflexivity | reflexivity | reflexivity | wsame j; rewrite Hb; split; congruence | intros; split; reflexivity].
  Qed.

  (** * frames: what the steps of other threads leave alone *)
  Lemma holds_of_bkt p b j : pc_bkt p = Some (b, j) -> holds p b j.
  Proof. destruct p; cbn [holds pc_bkt]; intros H; try discriminate H; exact H. Qed.

  Lemma rs_of_blocks p x : pc_blocks p = Some x -> rs_pc p = true.
  Proof. destruct p; cbn [pc_blocks rs_pc]; intros H; try discriminate H; reflexivity. Qed.

  (** a bucket another thread holds is not touched *)
  Lemma other_same st a st' es t t' b j : Lk st -> Lk st' -> step st a = Some (st', es) ->
    a = Step t \/ (exists o, a = Start t o) -> t' <> t -> holds (th st t') b j -> th st' t' = th st t' -> same_bkt st st' b j.
  Proof.
    intros HI HI' Hs Ha Hne Hh Eth.
    pose proof (K_hold _ _ HI _ _ _ Hh) as Ho. rewrite <- Eth in Hh. pose proof (K_hold _ _ HI' _ _ _ Hh) as Ho'.
    destruct (K_cur _ _ HI _ _ _ ltac:(rewrite <- Eth; exact Hh)) as [Hb Hj].
    destruct (step_frame hash _ _ _ _ HI Hs b j) as [H|[(t0 & E & H)|[(t0 & ob & n & E & H)|(t0 & c & E & H1 & H2)]]]; [exact H | exfalso ..].
    - assert (t0 = t) by (destruct Ha as [->|[o ->]]; congruence). subst t0. destruct H; congruence.
    - pose proof (K_gw _ _ HI t0) as Hg. destruct (th st t0); cbn [pc_blocks] in H; try discriminate H; injection H as -> -> ->;
        cbn [pc_gw pc_blocks] in Hg; destruct Hg as (G1 & _ & _ & G4 & _); congruence.
    - pose proof (K_db _ _ HI). subst b. lia.
  Qed.

  Lemma db_change st a st' es : step st a = Some (st', es) ->
    db st' = db st \/ exists t c ob nb n, a = Step t /\ th st t = DP1 c ob nb n.
  Proof. intros H. step_inv H; st_simpl; try (left; reflexivity). right. eauto 8. Qed.

  (** the block do_grow is filling is not touched by anybody else *)
  Lemma other_new st a st' es t t' ob nb n jn : Lk st -> Lk st' -> step st a = Some (st', es) ->
    a = Step t \/ (exists o, a = Start t o) -> t' <> t -> pc_blocks (th st t') = Some (ob, nb, n) -> same_bkt st st' nb jn.
  Proof.
    intros HI HI' Hs Ha Hne Hb.
    assert (Hnb : nb <> db st /\ nb < nalloc st).
    { pose proof (K_gw _ _ HI t') as Hg. destruct (th st t'); cbn [pc_blocks] in Hb; try discriminate Hb; injection Hb as -> -> ->;
        cbn [pc_gw pc_blocks] in Hg; destruct Hg as (G1 & _ & G3 & G4 & _); (split; [congruence | exact G3]). }
    assert (Hrs : rs_pc (th st t') = true) by (eapply rs_of_blocks; exact Hb).
    destruct (step_frame hash _ _ _ _ HI Hs nb jn) as [H|[(t0 & E & H)|[(t0 & ob0 & n0 & E & H)|(t0 & c & E & H1 & H2)]]]; [exact H | exfalso ..].
    - assert (t0 = t) by (destruct Ha as [->|[o ->]]; congruence). subst t0. destruct H as [H|H].
      + destruct (own_cur hash _ _ _ _ HI H). tauto.
      + destruct (own_cur hash _ _ _ _ HI' H) as [Hc _].
        (* the stepping thread is not the resizer, so data_block did not change *)
        assert (Hd : db st' = db st).
        { destruct (db_change _ _ _ _ Hs) as [Hd|(t1 & c & ob1 & nb1 & n1 & E1 & E2)]; [exact Hd|].
          assert (t1 = t) by (destruct Ha as [->|[o ->]]; congruence). subst t1.
          exfalso. apply Hne. symmetry. apply (rs_unique hash st); [exact HI | rewrite E2; reflexivity | exact Hrs]. }
        rewrite Hd in Hc. tauto.
    - assert (t0 = t) by (destruct Ha as [->|[o ->]]; congruence). subst t0. apply Hne. symmetry.
      apply (rs_unique hash st); [exact HI | eapply rs_of_blocks; exact H | exact Hrs].
    - assert (t0 = t) by (destruct Ha as [->|[o ->]]; congruence). subst t0. apply Hne. symmetry.
      apply (rs_unique hash st); [exact HI | rewrite H1; reflexivity | exact Hrs].
  Qed.

  (** [g_map] changes only for a key whose bucket (in the current block) the stepping thread holds *)
  Lemma map_frame st a st' es : Lk st -> step st a = Some (st', es) -> forall k',
    lookup k' (g_map st') = lookup k' (g_map st) \/ exists t, a = Step t /\ g_own st (db st) (hb st k') = Some t.
  Proof.
    intros HI H. step_inv H; st_simpl; intros k'; try (left; reflexivity).
    all: destruct (holder_facts hash _ t _ _ _ HI ltac:(rewrite Epc; reflexivity) ltac:(rewrite Epc; reflexivity)) as (Hb & Ho & Hcur & Hjlt & Hfz).
    all: pose proof (K_ref _ _ HI t) as Href; rewrite Epc in Href; cbn [pc_ref] in Href; destruct (Href _ _ _ eq_refl) as [_ Hj]; subst b.
    all: rewrite ?VhmBase.lookup_cons, ?VhmBase.lookup_rem.
    all: destruct (N.eq_dec k' k) as [->|Hne]; [right; exists t; split; [reflexivity|]; unfold hb, nb_; rewrite <- Hj; exact Ho | left].
    all: try (destruct (N.eqb_spec k k'); [congruence | reflexivity]).
    all: try (destruct (N.eqb_spec k' k); [congruence | reflexivity]).
  Qed.

  Lemma abs_frame st st' t p : pc_abs st t p -> g_lp st' t = g_lp st t ->
    (forall b j k, pc_bkt p = Some (b, j) -> pc_ref p = Some (b, j, k) ->
       (forall i, akey st' b j i = akey st b j i /\ aval st' b j i = aval st b j i) /\ lookup k (g_map st') = lookup k (g_map st)) ->
    pc_abs st' t p.
  Proof.
    intros H El Hf.
    destruct p; cbn [pc_abs pc_bkt pc_ref] in *; unfold absent in *; rewrite ?El; try exact H.
    all: destruct (Hf _ _ _ eq_refl eq_refl) as [Hs Hm]; rewrite ?Hm.
    all: repeat match goal with |- context [akey ?s1 ?b ?j ?i] => rewrite (proj1 (Hs i)) end.
    all: repeat match goal with |- context [aval ?s1 ?b ?j ?i] => rewrite (proj2 (Hs i)) end.
    all: try exact H.
    all: intros i' Hi'; rewrite (proj1 (Hs i')); apply H; exact Hi'.
  Qed.

  Lemma step_other st a st' es : step st a = Some (st', es) ->
    exists t, (a = Step t \/ exists o, a = Start t o) /\
              forall t', t' <> t -> th st' t' = th st t' /\ g_lp st' t' = g_lp st t' /\ g_rv st' t' = g_rv st t'.
  Proof.
    intros H. step_inv H; st_simpl; exists t; (split; [eauto|]); intros t' Hne; rewrite ?upd_other by exact Hne; auto.
  Qed.

  Lemma abs_other st a st' es t t' : Lk st -> Lk st' -> step st a = Some (st', es) ->
    a = Step t \/ (exists o, a = Start t o) -> t' <> t -> th st' t' = th st t' -> g_lp st' t' = g_lp st t' ->
    pc_abs st t' (th st t') -> pc_abs st' t' (th st t').
  Proof.
    intros HI HI' Hs Ha Hne Eth El H. apply (abs_frame st); [exact H | exact El|].
    intros b j k Hb Hr. pose proof (holds_of_bkt _ _ _ Hb) as Hh. split.
    - exact (proj1 (proj2 (other_same _ _ _ _ t t' b j HI HI' Hs Ha Hne Hh Eth))).
    - destruct (map_frame _ _ _ _ HI Hs k) as [E|(t0 & E & Ho)]; [exact E | exfalso].
      assert (t0 = t) by (destruct Ha as [->|[o ->]]; congruence). subst t0.
      destruct (K_cur _ _ HI _ _ _ Hh) as [-> _]. destruct (K_ref _ _ HI t' _ _ _ Hr) as [_ Hj].
      pose proof (K_hold _ _ HI _ _ _ Hh) as Ho'. unfold hb, nb_ in Ho. rewrite <- Hj in Ho. congruence.
  Qed.

  (** a key whose bucket holds no valid slot with it is absent; a valid slot of the own bucket is in [g_map] *)
  Lemma own_slot st j i k : G st -> j < nb_ st -> hb st k = j -> mk st (db st) j = 0 -> i < ic st (db st) j -> akey st (db st) j i = k ->
    lookup k (g_map st) = Some (aval st (db st) j i).
  Proof.
    intros HG Hj Hk Hmk Hi Ha. apply (G_map _ HG). rewrite Hk. exists i. unfold vslot. rewrite Hmk. split; [split; [exact Hi | lia] | split; [exact Ha | reflexivity]].
  Qed.
  Lemma own_absent st j k : G st -> hb st k = j -> (forall i, i < ic st (db st) j -> akey st (db st) j i <> k) -> lookup k (g_map st) = None.
  Proof.
    intros HG Hk Hs. apply (lookup_none_iff _ _ HG). rewrite Hk. intros v (i & [H1 _] & H2 & _). exact (Hs i H1 H2).
  Qed.

  Lemma abs_own st a st' es t : Lk st -> G st -> (forall t, pc_abs st t (th st t)) ->
    a = Step t \/ (exists o, a = Start t o) -> step st a = Some (st', es) -> pc_abs st' t (th st' t).
  Proof.
    intros HI HG HA Ha H.
    assert (Ht : forall u, (a = Step u \/ exists o, a = Start u o) -> u = t) by (intros u [->|[o ->]]; destruct Ha as [E|[o' E]]; congruence).
    clear Ha. step_inv H; st_simpl.
    all: assert (t0 = t) by (apply Ht; eauto); subst t0; clear Ht.
    all: rewrite ?upd_same; cbn [pc_abs]; try exact I.
    all: unfold absent in *; st_simpl; rewrite ?upd_same.
    all: pose proof (K_wf _ _ HI t) as Hwf; rewrite Epc in Hwf; cbn [pc_wf] in Hwf.
    all: pose proof (HA t) as Hab; rewrite Epc in Hab; cbn [pc_abs] in Hab; unfold absent in Hab.
    all: try (destruct (holder_facts hash _ t _ _ _ HI ltac:(rewrite Epc; reflexivity) ltac:(rewrite Epc; reflexivity)) as (Hb & Ho & Hcur & Hjlt & Hfz)).
    all: try (pose proof (K_ref _ _ HI t) as Href; rewrite Epc in Href; cbn [pc_ref] in Href; destruct (Href _ _ _ eq_refl) as [_ Hj]; clear Href).
    all: repeat match goal with E : ?c = _, H : context [if ?c then _ else _] |- _ => rewrite E in H end.
    all: repeat match goal with E : ?c = _ |- context [if ?c then _ else _] => rewrite E end.
    all: b2p.
    all: try exact Hab; try tauto; try reflexivity; try congruence.
    all: rewrite ?setf3_same.
    all: try (assert (Hwfs : wf_s s) by tauto; destruct (VhmAbs.wf_fields s Hwfs) as (FL1 & FL2 & FM & _)).
    all: unfold VhmBase.mark in *.
    all: try (assert (Hicst : ic st b j = bs_item_count s /\ mk st b j = 0) by (unfold ic, mk; rewrite Hb; split; [exact FL1 | exact FL2]);
              destruct Hicst as [Hicst Hmk0]).
    all: try (subst b; assert (Hhb : hb st k = j) by (unfold hb, nb_; symmetry; exact Hj)).
    all: try (assert (Hjn : j < nb_ st) by exact Hjlt).
    - (* L3 -> IK *) intros i' Hi'. lia.
    - (* L3 -> ISK *) destruct (acq_facts hash st t _ _ _ HI ltac:(rewrite Epc; reflexivity) ltac:(rewrite Ec; exact Hwf)) as (_ & -> & _).
      apply (own_absent st j); [exact HG | unfold hb, nb_; symmetry; exact Hj |]. intros i' Hi'. unfold ic in Hi'. rewrite Ec in Hi'. lia.
    - (* IK -> IUold *) exists (aval st (db st) j i). split; [|intros; discriminate]. apply own_slot; try assumption. rewrite Hicst. tauto.
    - (* IK next *) intros i' Hi'. destruct (N.eq_dec i' i) as [->|]; [assumption | apply Hab; lia].
    - (* IK -> ISK *) apply (own_absent st j); [exact HG | exact Hhb |]. intros i' Hi'. rewrite Hicst in Hi'.
      destruct (N.eq_dec i' i) as [->|]; [assumption | apply Hab; lia].
    - (* IV -> IUold *) exists (aval st (db st) j i). split; [|reflexivity]. apply own_slot; try assumption. rewrite Hicst. tauto.
    - (* ISK -> ISV *) split; [exact Hab | reflexivity].
    - (* ISV -> IUnew *) destruct Hab. auto.
    - (* X3 -> XK *) intros i' Hi'. lia.
    - (* XK next *) intros i' Hi'. destruct (N.eq_dec i' i) as [->|]; [assumption | apply Hab; lia].
    - (* XK -> XHH *) apply (own_absent st j); [exact HG | exact Hhb |]. intros i' Hi'. rewrite Hicst in Hi'.
      destruct (N.eq_dec i' i) as [->|]; [assumption | apply Hab; lia].
    - (* XH -> XB6 *) destruct (N.eqb_spec i (bs_item_count s - 1)); [exact Hab | contradiction].
    - (* XB1 -> XB2 *) f_equal. destruct Hab as [Hk Hv]. rewrite <- Hv. apply own_slot; try assumption. rewrite Hicst. tauto.
    - (* XB4 -> XB5 *) destruct Hab as (H1 & H2 & H3). rewrite setf3_other by (right; right; intros Hc; symmetry in Hc; tauto). auto.
    - (* XB5 -> XB6 *) destruct Hab as (H1 & H2 & H3). destruct (N.eqb_spec i (bs_item_count s - 1)); [tauto|].
      rewrite setf3_other by (right; right; intros Hc; symmetry in Hc; tauto). auto.
  Qed.

  Lemma hist_step st a st' es : Lk st -> G st -> (forall t, pc_abs st t (th st t)) ->
    (forall h, In h (g_hist st) -> hist_ok_w h) ->
    step st a = Some (st', es) -> forall h, In h (g_hist st') -> hist_ok_w h.
  Proof.
    intros HI HG HA HH H. step_inv H; st_simpl.
    all: try exact HH.
    all: intros h Hh; apply in_app_or in Hh; destruct Hh as [Hh|[<-|[]]]; [apply HH; exact Hh|].
    all: pose proof (K_wf _ _ HI t) as Hwf; rewrite Epc in Hwf; cbn [pc_wf] in Hwf.
    all: pose proof (HA t) as Hab; rewrite Epc in Hab; cbn [pc_abs] in Hab; unfold absent in Hab.
    all: try (destruct (holder_facts hash _ t _ _ _ HI ltac:(rewrite Epc; reflexivity) ltac:(rewrite Epc; reflexivity)) as (Hb & Ho & Hcur & Hjlt & Hfz)).
    all: try (pose proof (K_ref _ _ HI t) as Href; rewrite Epc in Href; cbn [pc_ref] in Href; destruct (Href _ _ _ eq_refl) as [_ Hj]; clear Href).
    all: repeat match goal with E : ?c = _, H : context [if ?c then _ else _] |- _ => rewrite E in H end.
    all: unfold hist_ok_w, ins_op, ins_res, del_op, del_res; cbn [h_op h_res h_wit]; rewrite ?upd_same.
    all: try (assert (Hwfs : wf_s s) by tauto; destruct (VhmAbs.wf_fields s Hwfs) as (FL1 & FL2 & FM & _)).
    all: unfold VhmBase.mark in *.
    all: try (assert (Hicst : ic st b j = bs_item_count s /\ mk st b j = 0) by (unfold ic, mk; rewrite Hb; split; [exact FL1 | exact FL2]);
              destruct Hicst as [Hicst Hmk0]).
    all: try (subst b; assert (Hhb : hb st k = j) by (unfold hb, nb_; symmetry; exact Hj)).
    all: repeat match goal with H : _ /\ _ |- _ => destruct H | H : exists _, _ |- _ => destruct H end; b2p.
    all: try (match goal with Hv : aval ?st0 ?b0 ?j0 ?i = ?r, Hk : akey ?st0 ?b0 ?j0 ?i = ?k |- _ =>
               assert (Hsome : lookup k (g_map st0) = Some r) by
               (rewrite <- Hv; apply own_slot; try assumption; rewrite Hicst; lia) end).
    all: try destruct a; try destruct e; cbn [b2n]; try exact I.
    all: repeat match goal with
         | Hq : lookup ?k ?m = _ |- context [lookup ?k ?m] => rewrite Hq
         | Hq : g_lp ?s ?t = _ |- context [g_lp ?s ?t] => rewrite Hq end.
    all: try solve [left; split; [reflexivity | first [reflexivity | eexists; reflexivity]]].
    all: try solve [right; split; [reflexivity | first [reflexivity | eexists; reflexivity | left; reflexivity | right; reflexivity]]].
    all: try solve [left; eexists; split; reflexivity].
    all: try solve [right; eexists; split; [reflexivity | first [reflexivity | match goal with Hq : true = true -> _ |- _ => rewrite <- (Hq eq_refl) end; reflexivity]]].
  Qed.

  (** * the migration *)
  Lemma mig_ext st st' ob nb n i x : mig st ob nb n i x -> 0 < n ->
    (forall j, j < n -> ic st' ob j = ic st ob j /\
                        forall y, y < ic st ob j -> akey st' ob j y = akey st ob j y /\ aval st' ob j y = aval st ob j y) ->
    (forall jn, jn < dbl n -> ic st' nb jn = ic st nb jn /\
                              forall z, z < ic st nb jn -> akey st' nb jn z = akey st nb jn z /\ aval st' nb jn z = aval st nb jn z) ->
    mig st' ob nb n i x.
  Proof.
    intros HM Hn Ho Hw.
    assert (Hd : forall a, a mod dbl n < dbl n) by (intros a; apply N.mod_lt; unfold dbl; lia).
    constructor.
    - intros jn Hjn. rewrite (proj1 (Hw jn Hjn)). apply (M_cnt _ _ _ _ _ _ HM); exact Hjn.
    - intros j y Hmv Hj Hy. destruct (Ho j Hj) as [E1 E2]. rewrite E1 in Hy. destruct (E2 y Hy) as [-> ->].
      destruct (M_fwd _ _ _ _ _ _ HM j y Hmv Hj Hy) as (z & Z1 & Z2 & Z3).
      destruct (Hw _ (Hd (hash (akey st ob j y)))) as [E3 E4]. exists z. rewrite E3. destruct (E4 z Z1) as [-> ->]. auto.
    - intros jn z Hjn Hz. destruct (Hw jn Hjn) as [E3 E4]. rewrite E3 in Hz. destruct (E4 z Hz) as [-> ->].
      destruct (M_bwd _ _ _ _ _ _ HM jn z Hjn Hz) as (j & y & B1 & B2 & B3 & B4 & B5 & B6).
      destruct (Ho j B2) as [E1 E2]. destruct (E2 y B3) as [E5 E6]. exists j, y. rewrite E1, E5, E6. auto 7.
    - intros jn z z' Hjn Hz Hz'. destruct (Hw jn Hjn) as [E3 E4]. rewrite E3 in Hz, Hz'.
      destruct (E4 z Hz) as [-> _]. destruct (E4 z' Hz') as [-> _]. apply (M_us _ _ _ _ _ _ HM); assumption.
  Qed.

  Lemma mig_start st ob nb n : (forall jn, ic st nb jn = 0) -> mig st ob nb n 0 0.
  Proof.
    intros H. constructor.
    - intros jn _. rewrite H. lia.
    - intros j y [Hc|[_ Hc]]; lia.
    - intros jn z _ Hz. rewrite H in Hz. lia.
    - intros jn z z' _ Hz. rewrite H in Hz. lia.
  Qed.

  Lemma mig_next st ob nb n i x : mig st ob nb n i x -> ic st ob i <= x -> x <= 3 -> mig st ob nb n (i + 1) 0.
  Proof.
    intros HM Hx H3. constructor.
    - intros jn Hjn. pose proof (M_cnt _ _ _ _ _ _ HM jn Hjn) as Hc.
      destruct (N.ltb_spec (jn mod n) i); destruct (N.ltb_spec (jn mod n) (i + 1)); destruct (N.eqb_spec (jn mod n) i);
        destruct (N.eqb_spec (jn mod n) (i + 1)); lia.
    - intros j y Hmv Hj Hy. apply (M_fwd _ _ _ _ _ _ HM); try assumption. unfold moved in *.
      destruct (N.eq_dec j i) as [->|]; [right; split; [reflexivity | lia] | left; lia].
    - intros jn z Hjn Hz. destruct (M_bwd _ _ _ _ _ _ HM jn z Hjn Hz) as (j & y & B1 & B2). exists j, y. split; [|exact B2].
      unfold moved in *. left. lia.
    - apply (M_us _ _ _ _ _ _ HM).
  Qed.

  (** the store that increments the item count of the new bucket publishes item [x] of old bucket [i] there *)
  Lemma mig_ins st st' ob nb n i x jn : mig st ob nb n i x -> 0 < n -> i < n -> x < ic st ob i ->
    jn = hash (akey st ob i x) mod dbl n -> jn mod n = i ->
    (forall j y, j < n -> y < ic st ob j -> akey st ob j y = akey st ob i x -> j = i /\ y = x) ->
    akey st nb jn (ic st nb jn) = akey st ob i x -> aval st nb jn (ic st nb jn) = aval st ob i x ->
    ic st' nb jn = ic st nb jn + 1 ->
    (forall jn', jn' <> jn -> ic st' nb jn' = ic st nb jn') -> (forall j, ic st' ob j = ic st ob j) ->
    akey st' = akey st -> aval st' = aval st -> mig st' ob nb n i (x + 1).
  Proof.
    intros HM Hn Hi Hx Hjn Hjm Hu Hk Hv Hic Hic' Hico Ea Ev.
    assert (Hd : jn < dbl n) by (subst jn; apply N.mod_lt; unfold dbl; lia).
    assert (Hc0 : ic st nb jn <= x).
    { pose proof (M_cnt _ _ _ _ _ _ HM jn Hd) as Hc. rewrite Hjm, N.ltb_irrefl, N.eqb_refl in Hc. exact Hc. }
    constructor; rewrite ?Ea, ?Ev.
    - intros jn' Hjn'. destruct (N.eq_dec jn' jn) as [->|Hne].
      + rewrite Hic, Hjm, N.ltb_irrefl, N.eqb_refl. lia.
      + rewrite (Hic' jn' Hne). pose proof (M_cnt _ _ _ _ _ _ HM jn' Hjn') as Hc.
        destruct (jn' mod n <? i); [exact Hc|]. destruct (jn' mod n =? i); lia.
    - intros j y Hmv Hj Hy. rewrite Hico in Hy. destruct Hmv as [Hmv|[Hji Hmv]]; [|subst j].
      + destruct (M_fwd _ _ _ _ _ _ HM j y (or_introl Hmv) Hj Hy) as (z & Z1 & Z2). exists z. split; [|exact Z2].
        destruct (N.eq_dec (hash (akey st ob j y) mod dbl n) jn) as [E|Hne]; [rewrite E in *; rewrite Hic; lia | rewrite (Hic' _ Hne); exact Z1].
      + destruct (N.eq_dec y x) as [->|Hne].
        * exists (ic st nb jn). rewrite <- Hjn. rewrite Hic. split; [lia | auto].
        * assert (Hm' : moved i x i y) by (right; split; [reflexivity | lia]).
          destruct (M_fwd _ _ _ _ _ _ HM i y Hm' Hj Hy) as (z & Z1 & Z2). exists z. split; [|exact Z2].
          destruct (N.eq_dec (hash (akey st ob i y) mod dbl n) jn) as [E|Hne']; [rewrite E in *; rewrite Hic; lia | rewrite (Hic' _ Hne'); exact Z1].
    - intros jn' z Hjn' Hz. destruct (N.eq_dec jn' jn) as [->|Hne].
      + rewrite Hic in Hz. destruct (N.eq_dec z (ic st nb jn)) as [->|Hnz].
        * exists i, x. rewrite Hico, Hk, Hv. split; [right; split; [reflexivity | lia]|]. rewrite <- Hjn. auto 6.
        * destruct (M_bwd _ _ _ _ _ _ HM jn z Hd ltac:(lia)) as (j & y & B1 & B2). exists j, y. rewrite Hico. split; [|exact B2].
          destruct B1 as [B1|[-> B1]]; [left; exact B1 | right; split; [reflexivity | lia]].
      + rewrite (Hic' _ Hne) in Hz. destruct (M_bwd _ _ _ _ _ _ HM jn' z Hjn' Hz) as (j & y & B1 & B2). exists j, y. rewrite Hico. split; [|exact B2].
        destruct B1 as [B1|[-> B1]]; [left; exact B1 | right; split; [reflexivity | lia]].
    - intros jn' z z' Hjn' Hz Hz'. destruct (N.eq_dec jn' jn) as [->|Hne].
      + rewrite Hic in Hz, Hz'.
        assert (Hold : forall w, w < ic st nb jn -> akey st nb jn w <> akey st ob i x).
        { intros w Hw E. destruct (M_bwd _ _ _ _ _ _ HM jn w Hd Hw) as (j & y & B1 & B2 & B3 & B4 & _).
          rewrite E in B4. destruct (Hu j y B2 B3 (eq_sym B4)) as [-> ->]. destruct B1 as [B1|[_ B1]]; lia. }
        destruct (N.eq_dec z (ic st nb jn)) as [->|Hnz]; destruct (N.eq_dec z' (ic st nb jn)) as [->|Hnz']; intros E; try reflexivity.
        * exfalso. apply (Hold z' ltac:(lia)). congruence.
        * exfalso. apply (Hold z ltac:(lia)). congruence.
        * apply (M_us _ _ _ _ _ _ HM jn); try assumption; lia.
      + rewrite (Hic' _ Hne) in Hz, Hz'. apply (M_us _ _ _ _ _ _ HM jn'); assumption.
  Qed.

  Lemma pc_mig_frame st st' p ob nb n : pc_blocks p = Some (ob, nb, n) -> 0 < n -> pc_wf p -> pc_mig st p ->
    (forall j, holds p ob j -> same_bkt st st' ob j) -> (forall jn, same_bkt st st' nb jn) -> pc_mig st' p.
  Proof.
    intros Hb Hn Hwf H Ho Hw.
    assert (Hicn : forall jn, ic st' nb jn = ic st nb jn) by (intros jn; unfold ic; rewrite (proj1 (Hw jn)); reflexivity).
    destruct p; cbn [pc_blocks] in Hb; try discriminate Hb; injection Hb as -> -> ->; cbn [pc_mig pc_wf holds] in *.
    1, 2: intros q; rewrite Hicn; apply H.
    all: assert (Hico : forall j, j < n -> ic st' ob j = ic st ob j) by
           (intros j1 Hj1; unfold ic; rewrite (proj1 (Ho j1 (conj eq_refl Hj1))); reflexivity).
    all: assert (Hext : forall i x, mig st ob nb n i x -> mig st' ob nb n i x) by
           (intros i0 x0 HM; apply (mig_ext st); [exact HM | exact Hn
            | intros j1 Hj1; split; [apply Hico; exact Hj1 | intros y1 _; apply (proj1 (proj2 (Ho j1 (conj eq_refl Hj1))))]
            | intros q1 _; split; [apply Hicn | intros z1 _; apply (proj1 (proj2 (Hw q1)))]]).
    all: repeat match goal with H0 : _ /\ _ |- _ => destruct H0 end; subst.
    all: rsplit; try (apply Hext; assumption); try assumption; try reflexivity.
    all: rewrite ?Hico by assumption; try reflexivity; try assumption.
    all: try (unfold ic in *; rewrite ?(proj1 (Hw _)); reflexivity).
    all: try reflexivity; try assumption.
    all: pose proof (proj1 (proj2 (Ho _ (conj eq_refl Hwf)))) as Hs.
    all: rewrite ?(proj1 (Hs _)), ?(proj2 (Hs _)).
    all: rewrite ?(proj1 (proj1 (proj2 (Hw _)) _)), ?(proj2 (proj1 (proj2 (Hw _)) _)).
    all: try reflexivity; try assumption.
  Qed.

  Lemma pc_mig_trivial st p : pc_blocks p = None -> pc_mig st p.
  Proof. destruct p; cbn [pc_blocks pc_mig]; intros H; try discriminate H; exact I. Qed.

  Lemma blocks_facts st t ob nb n : Lk st -> pc_blocks (th st t) = Some (ob, nb, n) ->
    ob = db st /\ n = bcnt st ob /\ nb < nalloc st /\ nb <> ob /\ g_frozen st nb = false /\ 1 <= nb /\ bcnt st nb = dbl n /\ 0 < n.
  Proof.
    intros HI Hb. pose proof (K_gw _ _ HI t) as Hg. pose proof (K_db _ _ HI) as (D1 & D2 & D3 & D4).
    destruct (th st t); cbn [pc_blocks] in Hb; try discriminate Hb; injection Hb as -> -> ->; cbn [pc_gw pc_blocks] in Hg;
      destruct Hg as (G1 & G2 & G3 & G4 & G5 & G6 & G7); subst; rsplit; auto.
  Qed.

  Lemma mig_other st a st' es t t' : Lk st -> Lk st' -> step st a = Some (st', es) ->
    a = Step t \/ (exists o, a = Start t o) -> t' <> t -> th st' t' = th st t' ->
    pc_mig st (th st t') -> pc_mig st' (th st t').
  Proof.
    intros HI HI' Hs Ha Hne Eth H. destruct (pc_blocks (th st t')) as [[[ob nb] n]|] eqn:Hb; [|apply pc_mig_trivial; exact Hb].
    destruct (blocks_facts _ _ _ _ _ HI Hb) as (_ & _ & _ & _ & _ & _ & _ & Hn).
    apply (pc_mig_frame st st' _ ob nb n); try assumption.
    - apply (K_wf _ _ HI).
    - intros j Hh. exact (other_same _ _ _ _ t t' ob j HI HI' Hs Ha Hne Hh Eth).
    - intros jn. exact (other_new _ _ _ _ t t' ob nb n jn HI HI' Hs Ha Hne Hb).
  Qed.

  Lemma mig_eq st st' ob nb n i x : 0 < n -> bst st' = bst st -> akey st' = akey st -> aval st' = aval st ->
    mig st ob nb n i x -> mig st' ob nb n i x.
  Proof.
    intros Hn Eb Ea Ev HM. apply (mig_ext st); [exact HM | exact Hn | |].
    - intros q _. unfold ic. rewrite Eb, Ea, Ev. split; [reflexivity|]. intros. split; reflexivity.
    - intros q _. unfold ic. rewrite Eb, Ea, Ev. split; [reflexivity|]. intros. split; reflexivity.
  Qed.

  (** keys of the old block are pairwise distinct (the grower holds all its buckets) *)
  Lemma old_unique st t ob nb n i x : Lk st -> G st -> pc_blocks (th st t) = Some (ob, nb, n) ->
    (forall j, j < n -> holds (th st t) ob j) -> i < n -> x < ic st ob i ->
    forall j y, j < n -> y < ic st ob j -> akey st ob j y = akey st ob i x -> j = i /\ y = x.
  Proof.
    intros HI HG Hb Hh Hi Hx j y Hj Hy E. destruct (blocks_facts _ _ _ _ _ HI Hb) as (-> & -> & _).
    assert (Hv : forall j' y', j' < bcnt st (db st) -> y' < ic st (db st) j' -> vslot st (db st) j' y').
    { intros j' y' Hj' Hy'. split; [exact Hy'|]. rewrite (grower_mk st t _ nb _ j' HI Hb (Hh j' Hj')). lia. }
    pose proof (G_hash _ HG j y Hj (Hv _ _ Hj Hy)) as H1. pose proof (G_hash _ HG i x Hi (Hv _ _ Hi Hx)) as H2.
    rewrite E, H2 in H1. subst j. split; [reflexivity|]. apply (G_us _ HG i); auto.
  Qed.

  Lemma mig_own st a st' es t : Lk st -> G st -> (forall t, pc_mig st (th st t)) ->
    a = Step t \/ (exists o, a = Start t o) -> step st a = Some (st', es) -> pc_mig st' (th st' t).
  Proof.
    intros HI HG HM Ha H.
    assert (Ht : forall u, (a = Step u \/ exists o, a = Start u o) -> u = t) by (intros u [->|[o ->]]; destruct Ha as [E|[o' E]]; congruence).
    clear Ha. step_inv H; st_simpl.
    all: assert (t0 = t) by (apply Ht; eauto); subst t0; clear Ht.
    all: rewrite ?upd_same; cbn [pc_mig]; try exact I.
    all: pose proof (K_wf _ _ HI t) as Hwf; rewrite Epc in Hwf; cbn [pc_wf] in Hwf.
    all: pose proof (HM t) as Hmg; rewrite Epc in Hmg; cbn [pc_mig] in Hmg.
    all: try (destruct (blocks_facts st t _ _ _ HI ltac:(rewrite Epc; reflexivity)) as (B1 & B2 & B3 & B4 & B5 & B6 & B7 & B8)).
    all: b2p.
    - (* DG1 *) intros q. unfold ic. st_simpl_goal. rewrite clr2_same. apply word0.
    - exact Hmg.
    - exact Hmg.
    - (* DGC -> DMS *) apply mig_start. intros q. unfold ic. st_simpl_goal. rewrite setf2_other by auto. apply Hmg.
    - intros q. unfold ic. st_simpl_goal. rewrite setf2_other by auto. apply Hmg.
    - exact Hmg.
    - (* DMS -> DMH *) apply (mig_eq st); try reflexivity; try assumption. apply (mig_next st _ _ _ i 0); [exact Hmg | unfold ic; lia | lia].
    - (* DMS -> DMK *) rsplit; [apply (mig_eq st); try reflexivity; assumption | reflexivity | lia].
    - (* DMK *) destruct Hmg as (M1 & M2 & M3). rsplit; try assumption; try reflexivity. apply (mig_eq st); try reflexivity; assumption.
    - (* DMN *) destruct Hmg as (M1 & M2 & M3 & M4 & M5). rsplit; try assumption; try reflexivity. apply (mig_eq st); try reflexivity; assumption.
    - (* DMV *) destruct Hmg as (M1 & M2 & M3 & M4 & M5 & M6). rsplit; try assumption; try reflexivity. apply (mig_eq st); try reflexivity; assumption.
    - (* DMSK *) destruct Hmg as (M1 & M2 & M3 & M4 & M5 & M6 & M7). st_simpl_goal. unfold ic. st_simpl_goal.
      rewrite setf3_same, setf3_other by auto. subst kk. rsplit; try assumption; try reflexivity.
      apply (mig_ext st); [exact M1 | exact B8 | |].
      + intros q _. unfold ic. st_simpl_goal. split; [reflexivity|]. intros y _. rewrite setf3_other by auto. split; reflexivity.
      + intros q _. unfold ic. st_simpl_goal. split; [reflexivity|]. intros z Hz. split; [|reflexivity]. apply setf3_other.
        destruct (N.eq_dec q jn) as [->|]; [|auto]. right. right. subst ns. lia.
    - (* DMSV *) destruct Hmg as (M1 & M2 & M3 & M4 & M5 & M6 & M7). st_simpl_goal. unfold ic. st_simpl_goal.
      rewrite setf3_same, setf3_other by auto. rsplit; try assumption; try reflexivity.
      apply (mig_ext st); [exact M1 | exact B8 | |].
      + intros q _. unfold ic. st_simpl_goal. split; [reflexivity|]. intros y _. rewrite setf3_other by auto. split; reflexivity.
      + intros q _. unfold ic. st_simpl_goal. split; [reflexivity|]. intros z Hz. split; [reflexivity|]. apply setf3_other.
        destruct (N.eq_dec q jn) as [->|]; [|auto]. right. right. subst ns. lia.
    - (* DMSS -> DMH *) destruct Hmg as (M1 & M2 & M3 & M4 & M5 & M6 & M7).
      assert (Hins : mig (go (wst st nb jn (bs_inc_item_count ns)) t (DMH c ob nb n i)) ob nb n i (x + 1)).
      { destruct (MC_of st HI HG HM _ _ _ _ _ _ _ _ _ _ Epc) as [_ Hc].
        assert (Hh : forall j, j < n -> holds (th st t) ob j) by (intros j0 Hj0; rewrite Epc; cbn [holds]; auto).
        destruct (mig_target st t ob nb n i x HI HG ltac:(rewrite Epc; reflexivity) (Hh i Hwf) ltac:(lia) Hwf) as (T1 & T2 & T3).
        apply (mig_ins st _ ob nb n i x jn); try assumption; try reflexivity.
        - lia.
        - rewrite M4. exact T1.
        - apply (old_unique st t ob nb n); try assumption; [rewrite Epc; reflexivity | lia].
        - subst ns. exact M6.
        - subst ns. exact M7.
        - unfold ic. st_simpl_goal. rewrite setf2_same. subst ns. apply bs_inc_item_count_item_count; [apply (K_lt _ _ HI) | exact Hc].
        - intros q Hq. unfold ic. st_simpl_goal. rewrite setf2_other by auto. reflexivity.
        - intros q. unfold ic. st_simpl_goal. rewrite setf2_other by auto. reflexivity. }
      apply (mig_next _ _ _ _ i (x + 1)); [exact Hins | unfold ic; st_simpl_goal; rewrite setf2_other by auto; fold (ic st ob i); lia |].
      pose proof (K_ic _ _ HI ob i). unfold ic in *. lia.
    - (* DMSS -> DMK *) destruct Hmg as (M1 & M2 & M3 & M4 & M5 & M6 & M7).
      rsplit; [| unfold ic; st_simpl_goal; rewrite setf2_other by auto; exact M2 | lia].
      destruct (MC_of st HI HG HM _ _ _ _ _ _ _ _ _ _ Epc) as [_ Hc].
      assert (Hh : forall j, j < n -> holds (th st t) ob j) by (intros j0 Hj0; rewrite Epc; cbn [holds]; auto).
      destruct (mig_target st t ob nb n i x HI HG ltac:(rewrite Epc; reflexivity) (Hh i Hwf) ltac:(lia) Hwf) as (T1 & T2 & T3).
      apply (mig_ins st _ ob nb n i x jn); try assumption; try reflexivity.
      + lia.
      + rewrite M4. exact T1.
      + apply (old_unique st t ob nb n); try assumption; [rewrite Epc; reflexivity | lia].
      + subst ns. exact M6.
      + subst ns. exact M7.
      + unfold ic. st_simpl_goal. rewrite setf2_same. subst ns. apply bs_inc_item_count_item_count; [apply (K_lt _ _ HI) | exact Hc].
      + intros q Hq. unfold ic. st_simpl_goal. rewrite setf2_other by auto. reflexivity.
      + intros q. unfold ic. st_simpl_goal. rewrite setf2_other by auto. reflexivity.
    - (* DMH -> DP1 *) apply (mig_eq st); try reflexivity; try assumption. rewrite Ei in Hmg. exact Hmg.
    - (* DMH -> DMS *) apply (mig_eq st); try reflexivity; assumption.
  Qed.

  (** * the invariant *)
  Definition Inv0 (st : state) : Prop := Lk st /\ Abs st.

  Lemma G_init cap : G (init cap).
  Proof.
    constructor; cbn.
    - intros k v. split; [discriminate|]. intros (i & [Hi _] & _). unfold ic in Hi. cbn in Hi. lia.
    - intros j i _ [Hi _]. unfold ic in Hi. cbn in Hi. lia.
    - intros j i i' _ [Hi _]. unfold ic in Hi. cbn in Hi. lia.
  Qed.

  Lemma Inv0_init cap : 0 < cap -> Inv0 (init cap).
  Proof.
    intros Hc. split; [apply Lk_init; exact Hc|]. split; [apply G_init|]. split; [intros t; exact I|]. split; [intros t; exact I | intros h []].
  Qed.

  Lemma Inv0_step st a st' es : Inv0 st -> step st a = Some (st', es) -> Inv0 st'.
  Proof.
    intros (HI & HG & HA & HM & HH) Hs.
    assert (HI' : Lk st') by (apply (Lk_step hash _ _ _ _ HI (MC_of _ HI HG HM) Hs)).
    split; [exact HI'|]. split; [exact (G_step _ _ _ _ HI HG HA HM Hs)|].
    destruct (step_other _ _ _ _ Hs) as (t & Ha & Hoth).
    split; [|split].
    - intros t'. destruct (Nat.eq_dec t' t) as [->|Hne].
      + exact (abs_own _ _ _ _ t HI HG HA Ha Hs).
      + destruct (Hoth t' Hne) as (E1 & E2 & _). rewrite E1. exact (abs_other _ _ _ _ t t' HI HI' Hs Ha Hne E1 E2 (HA t')).
    - intros t'. destruct (Nat.eq_dec t' t) as [->|Hne].
      + exact (mig_own _ _ _ _ t HI HG HM Ha Hs).
      + destruct (Hoth t' Hne) as (E1 & _). rewrite E1. exact (mig_other _ _ _ _ t t' HI HI' Hs Ha Hne E1 (HM t')).
    - exact (hist_step _ _ _ _ HI HG HA HH Hs).
  Qed.

  Theorem Inv0_reach cap st : 0 < cap -> reach (init cap) step st -> Inv0 st.
  Proof. intros Hc. apply inv_rule; [apply Inv0_init; exact Hc | intros s a s' es; apply Inv0_step]. Qed.
End VhmGrowAbs.
