(** nikolaev_bounded_queue model, invariant layer 1: the words are well formed (counters even and
    below 2^62, thresholds in range, entries = (cycle, safe, index) with a cycle below the bound or the
    initial all-ones word), local copies of head / tail are tickets that were handed out, the local
    entry copies satisfy what the code tested.  All under [g_ovf = false]. *)
From Coq Require Import NArith List Bool Lia PeanoNat.
From XV Require Import Base.Word Conc.Lts Conc.Ev gen.ScqGen Model.NikbDefs Proof.NikbArith Proof.NikbBase.
Import ListNotations.
Local Open Scope N_scope.

Definition ctr (w : N) : Prop := w = 2 * (w / 2) /\ w < 2 ^ 62.

Lemma ctr_add2 w : ctr w -> w + 2 < 2 ^ 62 -> ctr (w + 2).
Proof.
  intros [He Hl] H. split; [|exact H].
  replace (w + 2) with (w + 1 * 2) by lia. rewrite N.div_add by lia. lia.
Qed.
Lemma ctr_0 : ctr 0. Proof. split; [reflexivity|reflexivity]. Qed.
Lemma ctr_land1 w : ctr w -> N.land w 1 = 0.
Proof.
  intros [He _]. change 1 with (N.ones 1). rewrite N.land_ones. change (2 ^ 1) with 2.
  rewrite He. rewrite N.mul_comm. apply N.mod_mul. lia.
Qed.
Lemma ctr_double T : 2 * T < 2 ^ 62 -> ctr (2 * T).
Proof. intros H. split; [|exact H]. rewrite (N.mul_comm 2 T), N.div_mul by lia. lia. Qed.

Set Default Proof Using "All".
Section L1.
  Variable k R : N.
  Hypothesis Hk : k <= 40.
  Notation cap := (2 ^ k).
  Notation step := (step cap R).
  Notation ecyc := (ecyc k).
  Notation eidx := (eidx k).
  Notation esafe := (esafe k).
  Notation bot := (bot k).
  Notation CB := (CB k).
  Notation cmax := (cmax k).
  Notation clt := (clt k).

  Definition wfi (i : N) : Prop := i < cap \/ i = bot.
  Definition wfe (e : N) : Prop := (ecyc e < CB \/ (ecyc e = cmax /\ eidx e = bot)) /\ wfi (eidx e).

  Definition RW (r : ring) : Prop :=
    ctr (rhead r) /\ ctr (rtail r) /\ thr_ok k (rthr r) /\ forall j, wfe (rdata r j).

  Definition T1 (st : state) (p : pc) : Prop :=
    match p with
    | D2 q x hd _ | D6 q x hd => ctr hd /\ hd + 2 <= rhead (rg st q)
    | D3 q x hd e => ctr hd /\ hd + 2 <= rhead (rg st q) /\ wfe e /\ ecyc e = ecyc hd
    | D4 q x hd att e => ctr hd /\ hd + 2 <= rhead (rg st q) /\ wfe e /\ eidx e = bot
    | D5 q x hd att e enew =>
      ctr hd /\ hd + 2 <= rhead (rg st q) /\ wfe e /\ clt e (ecyc hd) = true /\
      ((enew = N.ldiff e (nn cap) /\ eidx e <> bot) \/ (enew = bot_word false cap hd e /\ eidx e = bot))
    | C1 q x tl hd => ctr tl /\ ctr hd /\ tl <= hd /\ hd <= rhead (rg st q)
    | C2 q x tl => ctr tl
    | E1 q x idx gk => wfi idx
    | E2 q x idx gk tl => wfi idx /\ ctr tl /\ tl + 2 <= rtail (rg st q)
    | E3 q x idx gk tl e | E4 q x idx gk tl e =>
      wfi idx /\ ctr tl /\ tl + 2 <= rtail (rg st q) /\ wfe e /\ eidx e = bot /\ clt e (ecyc tl) = true
    | _ => True
    end.

  Definition Inv1 (st : state) : Prop := (forall q, RW (rg st q)) /\ forall t, T1 st (th st t).

  Lemma T1_stable st st' p :
    (forall q, rhead (rg st q) <= rhead (rg st' q) /\ rtail (rg st q) <= rtail (rg st' q)) -> T1 st p -> T1 st' p.
  Proof.
    intros H. destruct p; cbn [T1]; try tauto;
      match goal with q : rid |- _ => destruct (H q) as [Hh Ht] end; intuition lia.
  Qed.

  Lemma wfe_ones64 : wfe ones64.
  Proof.
    split; [right; split; [apply (ecyc_ones64 k Hk)|apply (eidx_ones64 k Hk)]|right; apply (eidx_ones64 k Hk)].
  Qed.

  Lemma wfe_cycle_ok e : wfe e -> ecyc e < CB \/ ecyc e = cmax.
  Proof. intros [[H|[H _]] _]; auto. Qed.

  Lemma wfi_le i : wfi i -> i <= bot.
  Proof. assert (Hb := cap_lt_bot k Hk). intros [H|H]; lia. Qed.

  (** the initial free ring *)
  Lemma free_data_spec j : free_data cap j = ones64 \/ exists i, i < cap /\ free_data cap j = nn cap + i.
  Proof.
    unfold free_data.
    assert (G : forall l f, (forall j, f j = ones64 \/ exists i, i < cap /\ f j = nn cap + i) ->
                (forall i, In i l -> N.of_nat i < cap) ->
                forall j, fold_left (fun f i => setf f (phys cap (2 * N.of_nat i)) (nn cap + N.of_nat i)) l f j = ones64 \/
                          exists i, i < cap /\ fold_left (fun f i => setf f (phys cap (2 * N.of_nat i)) (nn cap + N.of_nat i)) l f j = nn cap + i).
    { induction l as [|a l IH]; intros f Hf Hl j0; cbn [fold_left]; [apply Hf|].
      apply IH.
      - intros j1. unfold setf. destruct (j1 =? _); [right; exists (N.of_nat a); split; [apply Hl; left; reflexivity|reflexivity]|apply Hf].
      - intros i Hi. apply Hl. right. exact Hi. }
    apply G.
    - intros; left; reflexivity.
    - intros i Hi. apply in_seq in Hi. lia.
  Qed.

  Lemma nn_plus_enc i : i < cap -> nn cap + i = enc k 0 true i.
  Proof.
    intros Hi. assert (Hb := cap_lt_bot k Hk).
    unfold enc. rewrite N.shiftl_0_l, N.lor_0_l, (nn_eq k Hk).
    assert (Hd : N.land (2 ^ (k + 1)) i = 0).
    { apply N.bits_inj. intros b. rewrite N.land_spec, N.bits_0.
      destruct (N.eq_dec b (k + 1)) as [->|Hne].
      - replace (N.testbit i (k + 1)) with false; [apply andb_false_r|]. symmetry.
        destruct (N.eq_dec i 0) as [->|Hnz]; [apply N.bits_0|].
        apply N.bits_above_log2. apply N.log2_lt_pow2; [lia|]. unfold NikbArith.bot in Hb. rewrite <- pow2_pred_ones in Hb. lia.
      - rewrite N.pow2_bits_false by lia. reflexivity. }
    rewrite <- N.lxor_lor by exact Hd. rewrite <- N.add_nocarry_lxor by exact Hd. reflexivity.
  Qed.

  Lemma f_nn_i i : i < cap -> ecyc (nn cap + i) = 0 /\ eidx (nn cap + i) = i.
  Proof.
    intros Hi. assert (Hb := cap_lt_bot k Hk). rewrite (nn_plus_enc i Hi).
    destruct (f_enc k Hk 0 true i ltac:(lia)) as (A & B & C). split; assumption.
  Qed.

  Lemma wfe_nn_i i : i < cap -> wfe (nn cap + i).
  Proof.
    intros Hi. destruct (f_nn_i i Hi) as [A C].
    split; [left; rewrite A; apply pow2_pos|left; rewrite C; exact Hi].
  Qed.

  Lemma Inv1_init : Inv1 (init cap).
  Proof.
    split; [|intros t; exact I].
    intros [|]; cbn [init rgs]; unfold RW; cbn [rhead rtail rthr rdata].
    - split; [apply ctr_0|]. split; [apply ctr_0|]. split; [right; split; [vm_compute; discriminate|reflexivity]|]. intros j. apply wfe_ones64.
    - split; [apply ctr_0|]. assert (Hc := cap3_small k Hk). assert (Hp := cap_pos k Hk).
      split; [apply ctr_double; lia|]. split; [left; lia|].
      intros j. destruct (free_data_spec j) as [->|(i & Hi & ->)]; [apply wfe_ones64|apply wfe_nn_i; exact Hi].
  Qed.

  Lemma Inv1_intro s s' t p :
    Inv1 s -> (forall q, RW (rg s' q)) ->
    (forall q, rhead (rg s q) <= rhead (rg s' q) /\ rtail (rg s q) <= rtail (rg s' q)) ->
    th s' = upd (th s) t p -> T1 s' p -> Inv1 s'.
  Proof.
    intros [HR HT] HR' Hm Hth Hp. split; [exact HR'|]. intros t'. rewrite Hth.
    destruct (Nat.eq_dec t' t) as [->|Hne]; [rewrite upd_same; exact Hp|rewrite upd_other by exact Hne].
    eapply T1_stable; [exact Hm|apply HT].
  Qed.

  Lemma RW_upd (f : rid -> ring) q r' : RW r' -> (forall q', RW (f q')) ->
    forall q', RW (if rid_eqb q' q then r' else f q').
  Proof. intros H1 H2 q'. destruct (rid_eqb q' q); [exact H1|apply H2]. Qed.

  Lemma mono_upd (f : rid -> ring) q r' : rhead (f q) <= rhead r' -> rtail (f q) <= rtail r' ->
    forall q', rhead (f q') <= rhead (if rid_eqb q' q then r' else f q') /\ rtail (f q') <= rtail (if rid_eqb q' q then r' else f q').
  Proof. intros H1 H2 q'. destruct (rid_eqb_spec q' q) as [->|]; [split; assumption|split; lia]. Qed.

  Lemma mono_refl (f : rid -> ring) : forall q', rhead (f q') <= rhead (f q') /\ rtail (f q') <= rtail (f q').
  Proof. intros; split; lia. Qed.

  Lemma ctr_ovf_false w : ctr_ovf w = false -> w < 2 ^ 62.
  Proof. unfold ctr_ovf. intros H. apply N.leb_gt in H. exact H. Qed.

  Lemma rg_mark_left st q hd p q' :
    rg (mark_left st q hd p) q' = if leaves p && rid_eqb q' q then r_dq (rg st q) (setf (g_dq (rg st q)) (hd / 2) DLeft) else rg st q'.
  Proof. unfold mark_left. destruct (leaves p); sim; reflexivity. Qed.
  Lemma th_mark_left st q hd p : th (mark_left st q hd p) = th st.
  Proof. unfold mark_left. destruct (leaves p); reflexivity. Qed.

  Lemma RW_mark st q hd p : (forall q', RW (rg st q')) -> forall q', RW (rg (mark_left st q hd p) q').
  Proof.
    intros H q'. rewrite rg_mark_left. destruct (leaves p && rid_eqb q' q); [|apply H].
    destruct (H q) as (A & B & C & D). unfold RW. sim. exact (conj A (conj B (conj C D))).
  Qed.
  Lemma mono_mark st q hd p : forall q', rhead (rg st q') <= rhead (rg (mark_left st q hd p) q') /\ rtail (rg st q') <= rtail (rg (mark_left st q hd p) q').
  Proof. intros q'. rewrite rg_mark_left. destruct (leaves p), q, q'; cbn; split; lia. Qed.
  Lemma rhead_mark st q hd p q' : rhead (rg (mark_left st q hd p) q') = rhead (rg st q').
  Proof. rewrite rg_mark_left. destruct (leaves p), q, q'; reflexivity. Qed.
  Lemma rtail_mark st q hd p q' : rtail (rg (mark_left st q hd p) q') = rtail (rg st q').
  Proof. rewrite rg_mark_left. destruct (leaves p), q, q'; reflexivity. Qed.

  Lemma rg_mark_skip st q tl p q' :
    rg (mark_skip st q tl p) q' = if skips p && rid_eqb q' q then r_eq (rg st q) (setf (g_eq (rg st q)) (tl / 2) ESkip) else rg st q'.
  Proof. unfold mark_skip. destruct (skips p); sim; reflexivity. Qed.
  Lemma th_mark_skip st q tl p : th (mark_skip st q tl p) = th st.
  Proof. unfold mark_skip. destruct (skips p); reflexivity. Qed.
  Lemma RW_skip st q tl p : (forall q', RW (rg st q')) -> forall q', RW (rg (mark_skip st q tl p) q').
  Proof.
    intros H q'. rewrite rg_mark_skip. destruct (skips p && rid_eqb q' q); [|apply H].
    destruct (H q) as (A & B & C & D). unfold RW. sim. exact (conj A (conj B (conj C D))).
  Qed.
  Lemma mono_skip st q tl p : forall q', rhead (rg st q') <= rhead (rg (mark_skip st q tl p) q') /\ rtail (rg st q') <= rtail (rg (mark_skip st q tl p) q').
  Proof. intros q'. rewrite rg_mark_skip. destruct (skips p), q, q'; cbn; split; lia. Qed.
  Lemma rhead_skip st q tl p q' : rhead (rg (mark_skip st q tl p) q') = rhead (rg st q').
  Proof. rewrite rg_mark_skip. destruct (skips p), q, q'; reflexivity. Qed.
  Lemma rtail_skip st q tl p q' : rtail (rg (mark_skip st q tl p) q') = rtail (rg st q').
  Proof. rewrite rg_mark_skip. destruct (skips p), q, q'; reflexivity. Qed.

  (** what the loop body of dequeue establishes for the next program point *)
  Lemma T1_dq_eval st q x hd att e :
    ctr hd -> hd + 2 <= rhead (rg st q) -> wfe e -> T1 st (dq_eval cap q x hd att e).
  Proof.
    intros Hc Hh He.
    destruct (dq_eval_cases cap q x hd att e) as [[C1 ->]|[C1 [[C2 [[C3 ->]|[C3 [[C4 ->]|[C4 ->]]]]]|[C2 ->]]]]; cbn [T1].
    - ssplit; try assumption. rewrite (cyc_eqb k Hk) in C1. apply N.eqb_eq in C1. exact C1.
    - split; assumption.
    - ssplit; try assumption.
      + rewrite (cyc_lt_diff k Hk) in C4; [exact C4|apply wfe_cycle_ok; exact He|apply Hc].
      + left. split; [reflexivity|]. rewrite (is_bot_eqb k Hk) in C2. apply N.eqb_neq in C2. exact C2.
    - split; assumption.
    - ssplit; try assumption. rewrite (is_bot_eqb k Hk) in C2. apply N.eqb_eq in C2. exact C2.
  Qed.

  Lemma T1_en_eval st q x idx gk tl e :
    wfi idx -> ctr tl -> tl + 2 <= rtail (rg st q) -> wfe e -> T1 st (en_eval cap q x idx gk tl e).
  Proof.
    intros Hi Hc Ht He.
    destruct (en_eval_cases cap q x idx gk tl e) as [(C1 & C2 & Ee)|[(C1 & C2 & C3 & Ee)|Ee]]; rewrite Ee; cbn [T1].
    - ssplit; try assumption.
      + rewrite (safe_bot_eqb k Hk) in C2. apply andb_true_iff in C2. destruct C2 as [_ C2]. apply N.eqb_eq in C2. exact C2.
      + rewrite (cyc_lt_diff k Hk) in C1; [exact C1|apply wfe_cycle_ok; exact He|apply Hc].
    - ssplit; try assumption.
      + rewrite (unsafe_bot_eqb k Hk) in C3. apply andb_true_iff in C3. destruct C3 as [_ C3]. apply N.eqb_eq in C3. exact C3.
      + rewrite (cyc_lt_diff k Hk) in C1; [exact C1|apply wfe_cycle_ok; exact He|apply Hc].
    - exact Hi.
  Qed.

  Lemma thr_ok_dec old : thr_ok k old -> thr_ovf (wsub 64 old 1) = false -> thr_ok k (wsub 64 old 1).
  Proof.
    intros H Ho. rewrite (thr_dec k Hk) in * by exact H.
    assert (E64 : 2 ^ 64 = 18446744073709551616) by reflexivity.
    assert (E63 : 2 ^ 63 = 9223372036854775808) by reflexivity.
    assert (E62 : 2 ^ 62 = 4611686018427387904) by reflexivity.
    destruct (N.eqb_spec old 0) as [->|Hnz].
    - right. split; [vm_compute; discriminate|reflexivity].
    - unfold thr_ovf in Ho. unfold thr_ok in *. assert (Hc := cap3_small k Hk).
      destruct H as [H|H]; [left; lia|]. right.
      apply andb_false_iff in Ho. destruct Ho as [Ho|Ho]; [apply N.leb_gt in Ho; lia|apply N.ltb_ge in Ho; lia].
  Qed.

  Lemma wfe_data_upd (f : N -> N) j e : (forall j', wfe (f j')) -> wfe e -> forall j', wfe (setf f j e j').
  Proof. intros Hf He j'. unfold setf. destruct (j' =? j); [exact He|apply Hf]. Qed.

  Ltac ovf_split Hov :=
    sim; apply orb_false_2 in Hov; let Ho := fresh "Ho" in destruct Hov as [Hov Ho].

  Lemma Inv1_step s a s' es : Inv1 s -> step s a = Some (s', es) -> g_ovf s' = false -> Inv1 s'.
  Proof.
    intros HI Hst Hov. pose proof HI as [HR HT]. unfold NikbDefs.step, step_gen in Hst. destruct a as [t o|t].
    - destruct (th s t) eqn:E; try discriminate. inversion Hst; subst; clear Hst.
      eapply (Inv1_intro s _ t (Begin o) HI); sim; [exact HR|apply mono_refl|reflexivity|exact I].
    - pose proof (HT t) as Hme.
      destruct (th s t) as [|[v|tp]|q x|q x|q x hd att|q x hd e|q x hd att e|q x hd att e enew|q x hd|q x|q x tl hd|q x tl|q x
                           |q x idx gk|q x idx gk tl|q x idx gk tl e|q x idx gk tl e|q x idx gk|q x idx gk] eqn:E; try discriminate;
        cbn [T1] in Hme.
      + (* Begin push *) inversion Hst; subst; clear Hst.
        eapply (Inv1_intro s _ t _ HI); sim; [exact HR|apply mono_refl|reflexivity|exact I].
      + (* Begin pop *) inversion Hst; subst; clear Hst.
        eapply (Inv1_intro s _ t _ HI); sim; [exact HR|apply mono_refl|reflexivity|exact I].
      + (* D0 *) destruct (lt0 (rthr (rg s q))); inversion Hst; subst; clear Hst;
        (eapply (Inv1_intro s _ t _ HI); sim; [exact HR|apply mono_refl|reflexivity|exact I]).
      + (* D1 *) inversion Hst; subst; clear Hst. ovf_split Hov. apply ctr_ovf_false in Ho.
        destruct (HR q) as (Hh & Htl & Hthr & Hd). rewrite (wadd2_small _ (proj2 Hh)) in *.
        eapply (Inv1_intro s _ t _ HI); sim.
        * apply RW_upd; [|exact HR]. unfold RW; sim. ssplit; try assumption. apply ctr_add2; assumption.
        * apply mono_upd; sim; lia.
        * reflexivity.
        * cbn [T1]. sim. rewrite rid_eqb_refl. sim. split; [exact Hh|lia].
      + (* D2 *) inversion Hst; subst; clear Hst. sim. rewrite mark_left_ovf in Hov.
        destruct Hme as [Hc Hh]. destruct (HR q) as (_ & _ & _ & Hd).
        eapply (Inv1_intro s _ t _ HI).
        * sim. apply RW_mark. exact HR.
        * sim. apply mono_mark.
        * sim. rewrite th_mark_left. reflexivity.
        * eapply T1_stable; [|apply (T1_dq_eval s); [exact Hc|exact Hh|apply Hd]].
          intros q'. sim. rewrite rhead_mark, rtail_mark. split; lia.
      + (* D3 *) destruct Hme as (Hc & Hh & He & Hcy). destruct (HR q) as (Hhd & Htl & Hthr & Hd).
        assert (Hnew : wfe (N.lor (rdata (rg s q) (phys cap hd)) (vmask cap))).
        { destruct (f_take k Hk (rdata (rg s q) (phys cap hd))) as (A & B & C). destruct (Hd (phys cap hd)) as [Hx _].
          split; [rewrite A, C; destruct Hx as [Hx|[Hx _]]; [left; exact Hx|right; split; [exact Hx|reflexivity]]|right; exact C]. }
        assert (Hidx : wfi (N.land e (vmask cap))) by (rewrite (land_vmask k Hk); apply He).
        destruct q; inversion Hst; subst; clear Hst; sim;
        (eapply (Inv1_intro s _ t _ HI); sim;
         [apply RW_upd; [|exact HR]; unfold RW; sim; ssplit; try assumption; apply wfe_data_upd; assumption
         |apply mono_upd; sim; lia|reflexivity|exact Hidx]).
      + (* D4 *) inversion Hst; subst; clear Hst. sim. rewrite mark_left_ovf in Hov.
        destruct Hme as (Hc & Hh & He & Hb). destruct (HR q) as (Hhd & Htl & _ & Hd).
        eapply (Inv1_intro s _ t _ HI).
        * sim. apply RW_mark. exact HR.
        * sim. apply mono_mark.
        * sim. rewrite th_mark_left. reflexivity.
        * eapply T1_stable with (st := s); [intros q'; sim; rewrite rhead_mark, rtail_mark; split; lia|].
          destruct (gt0 _ && _); cbn [T1]; [split; assumption|].
          destruct (lt0 (diff (cyc cap e) (cyc cap hd))) eqn:Hlt; cbn [T1]; [|split; assumption].
          ssplit; try assumption.
          -- rewrite (cyc_lt_diff k Hk) in Hlt; [exact Hlt|apply wfe_cycle_ok; exact He|apply Hc].
          -- right. split; [reflexivity|exact Hb].
      + (* D5 *) destruct Hme as (Hc & Hh & He & Hlt & Hnew). destruct (HR q) as (Hhd & Htl & Hthr & Hd).
        destruct (rdata (rg s q) (phys cap hd) =? e); inversion Hst; subst; clear Hst; sim.
        * assert (Hwn : wfe enew).
          { destruct Hnew as [[-> Hnb]|[-> Hb]].
            - destruct (f_unsafe k Hk e) as (A & B & C). destruct He as [Hx Hy]. split; rewrite ?A, ?C; assumption.
            - destruct (f_botw k Hk hd e) as (A & B & C). split; [left; rewrite A; apply (ecyc_ctr k Hk); apply Hc|right; exact C]. }
          eapply (Inv1_intro s _ t _ HI); sim;
          [apply RW_upd; [|exact HR]; unfold RW; sim; ssplit; try assumption; apply wfe_data_upd; assumption
          |apply mono_upd; sim; lia|reflexivity|cbn [T1]; sim; rewrite rid_eqb_refl; sim; split; assumption].
        * rewrite mark_left_ovf in Hov.
          eapply (Inv1_intro s _ t _ HI).
          -- sim. apply RW_mark. exact HR.
          -- sim. apply mono_mark.
          -- sim. rewrite th_mark_left. reflexivity.
          -- eapply T1_stable; [|apply (T1_dq_eval s); [exact Hc|exact Hh|apply Hd]].
             intros q'. sim. rewrite rhead_mark, rtail_mark. split; lia.
      + (* D6 *) destruct Hme as [Hc Hh]. destruct (HR q) as (Hhd & Htl & Hthr & Hd).
        assert (Hlt : hd + 2 < 2 ^ 62) by (destruct Hhd; lia).
        rewrite (wadd2_small hd (proj2 Hc)) in Hst.
        destruct (gt0 (diff (rtail (rg s q)) (hd + 2))) eqn:Hg; inversion Hst; subst; clear Hst; sim;
        (eapply (Inv1_intro s _ t _ HI); sim; [exact HR|apply mono_refl|reflexivity|cbn [T1]; try exact I]).
        rewrite diff_gt0 in Hg by (try apply Htl; lia). apply N.ltb_ge in Hg.
        ssplit; [exact Htl|apply ctr_add2; assumption|exact Hg|exact Hh].
      + (* D7 *) destruct (HR q) as (Hhd & Htl & Hthr & Hd).
        destruct (sle 64 (rthr (rg s q)) 0); inversion Hst; subst; clear Hst; ovf_split Hov;
        (eapply (Inv1_intro s _ t _ HI); sim;
         [apply RW_upd; [|exact HR]; unfold RW; sim; ssplit; try assumption; apply thr_ok_dec; assumption
         |apply mono_upd; sim; lia|reflexivity|exact I]).
      + (* C1 *) destruct Hme as (Hct & Hch & Hle & Hhr). destruct (HR q) as (Hhd & Htl & Hthr & Hd).
        destruct (N.eqb_spec (rtail (rg s q)) tl) as [Heq|Hne]; inversion Hst; subst; clear Hst.
        * ovf_split Hov. rewrite (ctr_land1 _ Htl), N.lor_0_r in *.
          eapply (Inv1_intro s _ t _ HI); sim;
          [apply RW_upd; [|exact HR]; unfold RW; sim; ssplit; assumption
          |apply mono_upd; sim; lia|reflexivity|exact I].
        * eapply (Inv1_intro s _ t _ HI); sim; [exact HR|apply mono_refl|reflexivity|exact Htl].
      + (* C2 *) destruct (HR q) as (Hhd & Htl & Hthr & Hd).
        destruct (lt0 (diff tl (rhead (rg s q)))) eqn:Hl; inversion Hst; subst; clear Hst; sim;
        (eapply (Inv1_intro s _ t _ HI); sim; [exact HR|apply mono_refl|reflexivity|cbn [T1]; try exact I]).
        rewrite diff_lt0 in Hl by (try apply Hhd; apply Hme). apply N.ltb_lt in Hl.
        ssplit; [exact Hme|exact Hhd|lia|sim; lia].
      + (* D8 *) destruct (HR q) as (Hhd & Htl & Hthr & Hd).
        inversion Hst; subst; clear Hst; ovf_split Hov.
        eapply (Inv1_intro s _ t _ HI); sim;
         [apply RW_upd; [|exact HR]; unfold RW; sim; ssplit; try assumption; apply thr_ok_dec; assumption
         |apply mono_upd; sim; lia|reflexivity|exact I].
      + (* E1 *) destruct (HR q) as (Hhd & Htl & Hthr & Hd).
        destruct q; inversion Hst; subst; clear Hst; ovf_split Hov; apply ctr_ovf_false in Ho;
        rewrite (wadd2_small _ (proj2 Htl)) in *;
        (eapply (Inv1_intro s _ t _ HI); sim;
         [apply RW_upd; [|exact HR]; unfold RW; sim; ssplit; try assumption; apply ctr_add2; assumption
         |apply mono_upd; sim; lia|reflexivity|cbn [T1]; sim; ssplit; [exact Hme|exact Htl|lia]]).
      + (* E2 *) inversion Hst; subst; clear Hst. destruct Hme as (Hi & Hc & Ht). destruct (HR q) as (_ & _ & _ & Hd).
        eapply (Inv1_intro s _ t _ HI); sim; [apply RW_skip; exact HR|apply mono_skip|rewrite th_mark_skip; reflexivity|].
        eapply T1_stable; [|apply (T1_en_eval s); [exact Hi|exact Hc|exact Ht|apply Hd]].
        intros q'. sim. rewrite rhead_skip, rtail_skip. split; lia.
      + (* E3 *) destruct (gt0 (diff (rhead (rg s q)) tl)); inversion Hst; subst; clear Hst;
        (eapply (Inv1_intro s _ t _ HI); sim; [apply RW_skip; exact HR|apply mono_skip|rewrite ?th_mark_skip; reflexivity|]);
        (eapply T1_stable with (st := s); [intros q'; sim; rewrite rhead_skip, rtail_skip; split; lia|cbn [T1]; tauto]).
      + (* E4 *) destruct Hme as (Hi & Hc & Ht & He & Hb & Hlt). destruct (HR q) as (Hhd & Htl & Hthr & Hd).
        destruct (rdata (rg s q) (phys cap tl) =? e).
        * assert (Hwn : wfe (enq_word false cap tl idx)).
          { destruct (f_enq k Hk tl idx (wfi_le _ Hi)) as (A & B & C).
            split; [left; rewrite A; apply (ecyc_ctr k Hk); apply Hc|rewrite C; exact Hi]. }
          destruct q; inversion Hst; subst; clear Hst; sim;
          (eapply (Inv1_intro s _ t _ HI); sim;
           [apply RW_upd; [|exact HR]; unfold RW; sim; ssplit; try assumption; apply wfe_data_upd; assumption
           |apply mono_upd; sim; lia|reflexivity|exact I]).
        * inversion Hst; subst; clear Hst.
          eapply (Inv1_intro s _ t _ HI); sim; [apply RW_skip; exact HR|apply mono_skip|rewrite th_mark_skip; reflexivity|].
          eapply T1_stable; [|apply (T1_en_eval s); [exact Hi|exact Hc|exact Ht|apply Hd]].
          intros q'. sim. rewrite rhead_skip, rtail_skip. split; lia.
      + (* E5 *) destruct (rthr (rg s q) =? thr_full cap); [destruct q|]; inversion Hst; subst; clear Hst;
        (eapply (Inv1_intro s _ t _ HI); sim; [exact HR|apply mono_refl|reflexivity|exact I]).
      + (* E6 *) destruct (HR q) as (Hhd & Htl & Hthr & Hd).
        assert (Hf : thr_ok k (thr_full cap)).
        { left. unfold thr_full, nn. assert (Hp := cap_pos k Hk). lia. }
        destruct q; inversion Hst; subst; clear Hst; sim;
        (eapply (Inv1_intro s _ t _ HI); sim;
         [apply RW_upd; [|exact HR]; unfold RW; sim; ssplit; assumption
         |apply mono_upd; sim; lia|reflexivity|exact I]).
  Qed.

  Theorem Inv1_reach s : reach (init cap) step s -> g_ovf s = false -> Inv1 s.
  Proof.
    intros Hr. induction Hr as [|s a s' es Hr IH Hst]; intros Hov.
    - apply Inv1_init.
    - eapply Inv1_step; [apply IH; eapply ovf_sticky; eauto|exact Hst|exact Hov].
  Qed.
End L1.
