(** Correctness invariants of the Harris-Michael hash map model (Model/HmmDefs.v), for every bucket count,
    both memoization modes and every hash function: structure of the bucket chains (finite, acyclic, ordered
    by the predicate [greater_or_equal] the code uses, every node in the bucket its hash selects, marks are
    permanent, retired = unlinked), abstraction ([g_abs] = key/value pairs of the unmarked reachable nodes,
    union over the buckets), linearization (results of the completed operations agree with [g_abs] at their
    linearization points).  All theorems hold for every reachable state (any number of threads, any program,
    any schedule).  The generic list lemmas of Proof/HmlInv.v are reused. *)
From Coq Require Import NArith List Bool Lia ZifyBool PeanoNat Sorted FinFun.
From XV Require Import Base.Word Conc.Lts Conc.Ev Model.HmmDefs.
From XV Require Proof.HmlInv.
Import ListNotations.
Local Open Scope N_scope.

Notation linksto := HmlInv.linksto.
Notation linksto_app := HmlInv.linksto_app.
Notation linksto_ext := HmlInv.linksto_ext.
Notation SS_app_inv := HmlInv.SS_app_inv.
Notation SS_app := HmlInv.SS_app.
Notation SS_cons_inv := HmlInv.SS_cons_inv.
Notation SS_cons := HmlInv.SS_cons.
Notation SS_NoDup := HmlInv.SS_NoDup.
Notation SS_ext := HmlInv.SS_ext.
Notation NoDup_snoc := HmlInv.NoDup_snoc.
Notation eq_comm_iff := HmlInv.eq_comm_iff.
Notation bounded_nodup_length := HmlInv.bounded_nodup_length.

(** * Generic lemmas *)

Lemma setf_same {X} (f : N -> X) i v : setf f i v i = v.
Proof. unfold setf. rewrite N.eqb_refl. reflexivity. Qed.
Lemma setf_other {X} (f : N -> X) i v j : j <> i -> setf f i v j = f j.
Proof. unfold setf. intros H. destruct (N.eqb_spec j i); [contradiction|reflexivity]. Qed.

Lemma threads_upd {X} (P : nat -> X -> Prop) f t p :
  (forall t', t' <> t -> P t' (f t')) -> P t p -> forall t', P t' (upd f t p t').
Proof.
  intros Ho Hp t'. destruct (Nat.eq_dec t' t) as [->|Hne].
  - rewrite upd_same. exact Hp.
  - rewrite upd_other by exact Hne. apply Ho. exact Hne.
Qed.

(** the prefix of [c] up to and including [sv] *)
Fixpoint upto (sv : N) (c : list N) : list N :=
  match c with
  | [] => []
  | a :: r => if a =? sv then [a] else a :: upto sv r
  end.

Lemma upto_app_in sv c1 c2 : In sv c1 -> upto sv (c1 ++ c2) = upto sv c1.
Proof.
  induction c1 as [|a c1 IH]; intros Hin; [destruct Hin|]. cbn [app upto].
  destruct (N.eqb_spec a sv) as [_|Hne]; [reflexivity|]. f_equal. apply IH.
  destruct Hin as [Hin | Hin]; [contradiction | exact Hin].
Qed.
Lemma upto_app_notin sv c1 c2 : ~ In sv c1 -> upto sv (c1 ++ c2) = c1 ++ upto sv c2.
Proof.
  induction c1 as [|a c1 IH]; intros Hn; [reflexivity|]. cbn [app upto].
  destruct (N.eqb_spec a sv) as [He|Hne]; [exfalso; apply Hn; left; exact He|]. f_equal. apply IH.
  intros Hc. apply Hn. right. exact Hc.
Qed.
Lemma upto_head sv a r : In a (upto sv (a :: r)).
Proof. cbn [upto]. destruct (a =? sv); left; reflexivity. Qed.
Lemma upto_incl sv c : incl (upto sv c) c.
Proof.
  induction c as [|a c IH]; intros x Hx; [exact Hx|]. cbn [upto] in Hx. destruct (a =? sv).
  - destruct Hx as [<- | []]. left. reflexivity.
  - destruct Hx as [<- | Hx]; [left; reflexivity | right; apply IH; exact Hx].
Qed.
Lemma upto_self sv c : In sv c -> In sv (upto sv c).
Proof.
  induction c as [|a c IH]; intros Hin; [destruct Hin|]. cbn [upto]. destruct (N.eqb_spec a sv) as [->|Hne].
  - left. reflexivity.
  - right. apply IH. destruct Hin as [Hin | Hin]; [contradiction | exact Hin].
Qed.

Lemma lookup_in k v l : lookup k l = Some v -> In (k, v) l.
Proof.
  induction l as [|[k' v'] l IH]; cbn [lookup]; [discriminate|].
  destruct (N.eqb_spec k' k) as [->|Hne]; intros H; [injection H as ->; left; reflexivity | right; apply IH; exact H].
Qed.
Lemma lookup_none k l : lookup k l = None <-> ~ In k (keys l).
Proof.
  unfold keys. induction l as [|[k' v'] l IH]; cbn [lookup map In fst]; [tauto|].
  destruct (N.eqb_spec k' k) as [->|Hne]; [split; [discriminate | intros H; exfalso; apply H; left; reflexivity]|].
  rewrite IH. tauto.
Qed.
Lemma lookup_nodup k v l : NoDup (keys l) -> In (k, v) l -> lookup k l = Some v.
Proof.
  unfold keys. induction l as [|[k' v'] l IH]; cbn [lookup map In fst]; intros Hnd Hin; [destruct Hin|].
  inversion Hnd as [|a r Ha Hr]; subst. destruct Hin as [Hin | Hin].
  - injection Hin as -> ->. rewrite N.eqb_refl. reflexivity.
  - destruct (N.eqb_spec k' k) as [->|Hne]; [|apply IH; assumption].
    exfalso. apply Ha. apply in_map_iff. exists (k, v). split; [reflexivity | exact Hin].
Qed.
Lemma in_keys k l : In k (keys l) <-> exists v, In (k, v) l.
Proof.
  unfold keys. rewrite in_map_iff. split.
  - intros ([k' v] & E & Hin). cbn [fst] in E. subst k'. exists v. exact Hin.
  - intros (v & Hin). exists (k, v). split; [reflexivity | exact Hin].
Qed.
Lemma memk_true k l : memk k l = true <-> In k (keys l).
Proof.
  unfold memk. destruct (lookup k l) as [v|] eqn:E.
  - split; [intros _|reflexivity]. apply in_keys. exists v. apply lookup_in. exact E.
  - apply lookup_none in E. split; [discriminate | contradiction].
Qed.
Lemma in_remk k p l : In p (remk k l) <-> In p l /\ fst p <> k.
Proof.
  unfold remk. rewrite filter_In. split; intros [H1 H2]; (split; [exact H1|]).
  - intros E. rewrite E, N.eqb_refl in H2. discriminate.
  - destruct (N.eqb_spec (fst p) k); [contradiction|reflexivity].
Qed.
Lemma keys_remk k l : keys (remk k l) = filter (fun j => negb (j =? k)) (keys l).
Proof.
  unfold keys, remk. induction l as [|[k' v'] l IH]; [reflexivity|]. cbn [filter map fst].
  destruct (k' =? k); cbn [negb map fst]; rewrite IH; reflexivity.
Qed.
Lemma memb_true k l : memb k l = true <-> In k l.
Proof.
  unfold memb. rewrite existsb_exists. split.
  - intros (x & Hx & He). apply N.eqb_eq in He. subst. exact Hx.
  - intros H. exists k. split; [exact H | apply N.eqb_refl].
Qed.
Lemma apply_lin_snoc l e : apply_lin (l ++ [e]) = apply_lev (apply_lin l) e.
Proof. unfold apply_lin. rewrite fold_left_app. reflexivity. Qed.

Definition ins_nodes (l : list lev) : list N :=
  flat_map (fun e => match e with LIns _ _ _ n => [n] | LDel _ _ _ _ => [] end) l.
Definition del_nodes (l : list lev) : list N :=
  flat_map (fun e => match e with LDel _ _ n _ => [n] | LIns _ _ _ _ => [] end) l.
Lemma ins_nodes_in l n : In n (ins_nodes l) <-> exists t k v, In (LIns t k v n) l.
Proof.
  unfold ins_nodes. rewrite in_flat_map. split.
  - intros (e & He & Hn). destruct e as [t k v n' | t k n' i]; [|destruct Hn].
    destruct Hn as [<- | []]. exists t, k, v. exact He.
  - intros (t & k & v & H). exists (LIns t k v n). split; [exact H | left; reflexivity].
Qed.
Lemma del_nodes_in l n : In n (del_nodes l) <-> exists t k i, In (LDel t k n i) l.
Proof.
  unfold del_nodes. rewrite in_flat_map. split.
  - intros (e & He & Hn). destruct e as [t k v n' | t k n' i]; [destruct Hn|].
    destruct Hn as [<- | []]. exists t, k, i. exact He.
  - intros (t & k & i & H). exists (LDel t k n i). split; [exact H | left; reflexivity].
Qed.
Lemma ins_nodes_app l1 l2 : ins_nodes (l1 ++ l2) = ins_nodes l1 ++ ins_nodes l2.
Proof. apply flat_map_app. Qed.
Lemma del_nodes_app l1 l2 : del_nodes (l1 ++ l2) = del_nodes l1 ++ del_nodes l2.
Proof. apply flat_map_app. Qed.

Section Inv.
  Variable nb : N.
  Variable memo : bool.
  Variable lex : bool.
  Variable hf : N -> N.

  Notation bucket_of := (bucket_of nb hf).
  Notation nh := (nh memo hf).
  Notation gef := (gef memo lex).
  Notation step := (step nb memo lex hf).
  Notation step0 := (step0 nb memo lex hf).
  Notation init := (init nb).
  Notation m_alloc := (m_alloc hf).

  (** bucket of a node *)
  Definition bk (m : mem) (x : N) : N := bucket_of (nkey m x).
  (** [x <= y] in the order used by the code: y.greater_or_equal(hash of x, key of x) *)
  Definition le2 (m : mem) (x y : N) : bool := gef m (nh m x) (nkey m x) y.

  Lemma gef_refl m x : le2 m x x = true.
  Proof. unfold le2, HmmDefs.gef, HmmDefs.nh. destruct memo, lex; rewrite ?N.eqb_refl; lia. Qed.
  Lemma gef_trans m h k x y : gef m h k x = true -> le2 m x y = true -> gef m h k y = true.
  Proof.
    unfold le2, HmmDefs.gef, HmmDefs.nh. destruct memo, lex; try lia.
    destruct (N.eqb_spec (nhash m x) h), (N.eqb_spec (nhash m y) (nhash m x)), (N.eqb_spec (nhash m y) h); lia.
  Qed.
  (** two nodes that are [<=] each other carry the same key *)
  Lemma gef_antisym m x y : le2 m x y = true -> le2 m y x = true -> nkey m x = nkey m y.
  Proof.
    unfold le2, HmmDefs.gef, HmmDefs.nh. destruct memo, lex; try lia.
    destruct (N.eqb_spec (nhash m y) (nhash m x)), (N.eqb_spec (nhash m x) (nhash m y)); lia.
  Qed.
  Lemma gef_frame m m' h k x : nkey m' x = nkey m x -> nhash m' x = nhash m x -> gef m' h k x = gef m h k x.
  Proof. unfold HmmDefs.gef. intros -> ->. reflexivity. Qed.
  Lemma nh_frame m m' x : nkey m' x = nkey m x -> nhash m' x = nhash m x -> nh m' x = nh m x.
  Proof. unfold HmmDefs.nh. intros -> ->. reflexivity. Qed.
  (** a node whose key is the searched one (with its hash) is greater or equal *)
  Lemma gef_key m k x : nkey m x = k -> nhash m x = hf k -> gef m (hf k) k x = true.
  Proof. unfold HmmDefs.gef. intros -> ->. destruct memo, lex; rewrite ?N.eqb_refl; lia. Qed.

  (** order of a bucket chain: the sentinel 0 comes first; a later node is not [<=] an earlier one *)
  Definition R (m : mem) (x y : N) : Prop := y <> 0 /\ (x = 0 \/ le2 m y x = false).

  Lemma R_irr m x : ~ R m x x.
  Proof. intros [H1 [H2 | H2]]; [contradiction | rewrite gef_refl in H2; discriminate]. Qed.

  (** nodes that are or were linked: in the chain of their bucket, or retired *)
  Definition known (m : mem) (cs : N -> list N) (x : N) : Prop := In x (cs (bk m x)) \/ In x (g_retired m).

  (** all nodes of the chain up to [sv] are below (h, k): not greater_or_equal *)
  Definition pre (m : mem) (c : list N) (h k sv : N) : Prop :=
    In sv c -> forall x, In x (upto sv c) -> x <> 0 -> gef m h k x = false.

  (** global part, relative to the chains [cs b] = the nodes reachable from [buckets[b]] *)
  Record G (m : mem) (cs : N -> list N) : Prop := mkG {
    G_links : forall b, linksto (pnext m b) (0 :: cs b) 0;
    G_sorted : forall b, StronglySorted (R m) (0 :: cs b);
    G_bk : forall b x, In x (cs b) -> bk m x = b;
    G_ret_nodup : NoDup (g_retired m);
    G_ret_nz : ~ In 0 (g_retired m);
    G_disj : forall b x, In x (cs b) -> In x (g_retired m) -> False;
    G_bound : forall x, known m cs x -> x < nalloc m;
    G_pos : 0 < nalloc m;
    G_marked_known : forall x, nmark m x = true -> known m cs x;
    G_ret_marked : forall x, In x (g_retired m) -> nmark m x = true;
    G_closed : forall x, known m cs x -> nnext m x = 0 \/ (known m cs (nnext m x) /\ bk m (nnext m x) = bk m x);
    G_hash : forall x, x <> 0 -> x < nalloc m -> nhash m x = hf (nkey m x);
    G_abs_nodup : NoDup (keys (g_abs m));
    G_abs : forall k v, In (k, v) (g_abs m) <->
              exists x, In x (cs (bucket_of k)) /\ nmark m x = false /\ nkey m x = k /\ nval m x = v;
    G_fold : g_abs m = apply_lin (g_lin m);
    G_lins : forall t k v n, In (LIns t k v n) (g_lin m) -> known m cs n /\ nkey m n = k /\ nval m n = v;
    G_ldel : forall t k n i, In (LDel t k n i) (g_lin m) -> nmark m n = true /\ nkey m n = k;
    G_lins_nodup : NoDup (ins_nodes (g_lin m));
    G_ldel_nodup : NoDup (del_nodes (g_lin m));
    G_marked_del : forall x, nmark m x = true -> In x (del_nodes (g_lin m));
    G_known_ins : forall x, known m cs x -> In x (ins_nodes (g_lin m))
  }.

  (** [sv] stands for a [prev] pointer of a thread working in bucket [b] on (h, k) *)
  Definition okref (m : mem) (cs : N -> list N) (b sv : N) : Prop := sv = 0 \/ (known m cs sv /\ bk m sv = b).
  Definition okprev (m : mem) (cs : N -> list N) (b h k sv : N) : Prop :=
    okref m cs b sv /\ pre m (0 :: cs b) h k sv.
  Definition oknode (m : mem) (cs : N -> list N) (b x : N) : Prop := x <> 0 /\ known m cs x /\ bk m x = b.
  Definition oknx (m : mem) (cs : N -> list N) (b x : N) : Prop := x = 0 \/ oknode m cs b x.
  (** the node an inserting thread owns and has not linked yet *)
  Definition fresh (m : mem) (cs : N -> list N) (key n : N) : Prop :=
    n <> 0 /\ n < nalloc m /\ ~ known m cs n /\ nkey m n = key.

  Definition is_some2 (w : option (option N)) : Prop := exists v, w = Some (Some v).

  (** the iterator variable (b, sv, cur) of a thread *)
  Definition IT0 (m : mem) (cs : N -> list N) (ib isv icur : N) : Prop :=
    okref m cs ib isv /\
    (icur <> 0 -> pre m (0 :: cs ib) (nh m icur) (nkey m icur) isv /\ oknode m cs ib icur).

  Definition cont_ok (m : mem) (cs : N -> list N) (w : option (option N)) (ib icur : N) (c : fk) (b h key : N) : Prop :=
    match c with
    | KIns n v => fresh m cs key n /\ nval m n = v
    | KGet n v => n = 0 \/ (fresh m cs key n /\ nval m n = v)
    | KDel2 => is_some2 w
    | KItN o | KItE o => icur = o /\ o <> 0 /\ nmark m o = true /\ key = nkey m o /\ b = ib
    | _ => True
    end.
  Definition fcom (m : mem) (cs : N -> list N) (w : option (option N)) (ib icur : N) (c : fk) (b h key : N) : Prop :=
    h = hf key /\ b = bucket_of key /\ cont_ok m cs w ib icur c b h key.

  (** per-thread part; [w] is the thread's [g_lp], (ib, isv, icur) its iterator variable *)
  Definition Tw (m : mem) (cs : N -> list N) (w : option (option N)) (ib isv icur : N) (p : pc) : Prop :=
    match p with
    | Idle | Begin _ | MB _ _ => True
    | F1 c b h key start => fcom m cs w ib icur c b h key /\ okprev m cs b h key start
    | F2 c b h key start sv nx =>
      fcom m cs w ib icur c b h key /\ okprev m cs b h key start /\ okprev m cs b h key sv /\ oknx m cs b nx
    | F3 c b h key start sv cur =>
      fcom m cs w ib icur c b h key /\ okprev m cs b h key start /\ okprev m cs b h key sv /\ oknode m cs b cur
    | F4 c b h key start sv cur =>
      fcom m cs w ib icur c b h key /\ okprev m cs b h key start /\ okprev m cs b h key sv /\ oknode m cs b cur /\
      nmark m cur = true
    | F5 c b h key start sv cur nx =>
      fcom m cs w ib icur c b h key /\ okprev m cs b h key start /\ okprev m cs b h key sv /\ oknode m cs b cur /\
      nmark m cur = true /\ nnext m cur = nx
    | F6 c b h key start sv cur nx _ =>
      fcom m cs w ib icur c b h key /\ okprev m cs b h key start /\ okprev m cs b h key sv /\ oknode m cs b cur /\
      (is_del2 c = false -> nkey m cur = key -> exists v, w = Some (Some v) /\ v = nval m cur) /\ oknx m cs b nx
    | E1 g n v b h key sv cur =>
      (fresh m cs key n /\ nval m n = v) /\ h = hf key /\ b = bucket_of key /\ okprev m cs b h key sv /\
      (cur <> 0 -> oknode m cs b cur /\ gef m h key cur = true /\ nkey m cur <> key)
    | E2 g n v b h key sv cur =>
      (fresh m cs key n /\ nval m n = v) /\ h = hf key /\ b = bucket_of key /\ okprev m cs b h key sv /\
      (cur <> 0 -> oknode m cs b cur /\ gef m h key cur = true /\ nkey m cur <> key) /\ nnext m n = cur
    | D1 b h key sv cur nx =>
      h = hf key /\ b = bucket_of key /\ okprev m cs b h key sv /\ oknode m cs b cur /\ nkey m cur = key /\ oknx m cs b nx
    | D2 b h key sv cur nx =>
      h = hf key /\ b = bucket_of key /\ okprev m cs b h key sv /\ oknode m cs b cur /\ nkey m cur = key /\
      nmark m cur = true /\ nnext m cur = nx /\ is_some2 w
    | N1 | X1 => icur <> 0
    | N2 nx | X2 nx => icur <> 0 /\ oknx m cs ib nx
    | X3 nx => icur <> 0 /\ nmark m icur = true /\ nnext m icur = nx
    end.

  Definition T (st : state) (cs : N -> list N) (t : nat) : Prop :=
    let i := its st t in
    Tw (sm st) cs (g_lp st t) (it_b i) (it_sv i) (it_cur i) (th st t) /\ IT0 (sm st) cs (it_b i) (it_sv i) (it_cur i).

  Definition fresh_of_k (c : fk) : option N :=
    match c with KIns n _ => Some n | KGet n _ => if n =? 0 then None else Some n | _ => None end.
  Definition fresh_of (p : pc) : option N :=
    match p with
    | F1 c _ _ _ _ | F2 c _ _ _ _ _ _ | F3 c _ _ _ _ _ _ | F4 c _ _ _ _ _ _ | F5 c _ _ _ _ _ _ _ | F6 c _ _ _ _ _ _ _ _ => fresh_of_k c
    | E1 _ n _ _ _ _ _ _ | E2 _ n _ _ _ _ _ _ => Some n
    | _ => None
    end.

  (** unlinked new nodes of different threads are different *)
  Definition U (f : nat -> pc) : Prop :=
    forall t t' n, t <> t' -> fresh_of (f t) = Some n -> fresh_of (f t') = Some n -> False.

  Definition Inv (st : state) : Prop :=
    exists cs, G (sm st) cs /\ (forall t, T st cs t) /\ U (th st).

  Lemma U_upd f t p : U f ->
    (forall n, fresh_of p = Some n -> forall t', t' <> t -> fresh_of (f t') <> Some n) ->
    U (upd f t p).
  Proof.
    intros HU Hp a b n Hab Ha Hb.
    destruct (Nat.eq_dec a t) as [->|Ha']; destruct (Nat.eq_dec b t) as [->|Hb'].
    - congruence.
    - rewrite upd_same in Ha. rewrite upd_other in Hb by exact Hb'. exact (Hp n Ha b Hb' Hb).
    - rewrite upd_same in Hb. rewrite upd_other in Ha by exact Ha'. exact (Hp n Hb a Ha' Ha).
    - rewrite upd_other in Ha by assumption. rewrite upd_other in Hb by assumption.
      exact (HU a b n Hab Ha Hb).
  Qed.

  Lemma U_upd_same f t p : U f -> (fresh_of p = None \/ fresh_of p = fresh_of (f t)) -> U (upd f t p).
  Proof.
    intros HU Hp. apply U_upd; [exact HU|]. intros n Hn t' Hne Hc.
    destruct Hp as [Hp|Hp]; [congruence|]. rewrite Hp in Hn. exact (HU t' t n Hne Hc Hn).
  Qed.

  (** ** monotonicity of the memory between two states (with chains [cs], [cs']);
      [sp] is a node excepted from the preservation of unlinked new nodes (0 if none) *)
  Record mono (m : mem) (cs : N -> list N) (m' : mem) (cs' : N -> list N) (sp : N) : Prop := mkMono {
    M_known : forall x, known m cs x -> known m' cs' x;
    M_key : forall x, x < nalloc m -> nkey m' x = nkey m x /\ nval m' x = nval m x /\ nhash m' x = nhash m x;
    M_mark : forall x, nmark m x = true -> nmark m' x = true /\ nnext m' x = nnext m x;
    M_alloc : nalloc m <= nalloc m';
    M_fresh : forall n, n < nalloc m -> ~ known m cs n -> n <> sp ->
              ~ known m' cs' n /\ nnext m' n = nnext m n;
    M_pre : forall b h k sv, okref m cs b sv -> pre m (0 :: cs b) h k sv -> pre m' (0 :: cs' b) h k sv
  }.

  Section Stable.
    Variables (m : mem) (cs : N -> list N) (m' : mem) (cs' : N -> list N) (sp : N).
    Hypothesis HG : G m cs.
    Hypothesis HM : mono m cs m' cs' sp.

    Lemma st_key x : known m cs x -> nkey m' x = nkey m x /\ nval m' x = nval m x /\ nhash m' x = nhash m x.
    Proof. intros Hk. apply (M_key _ _ _ _ _ HM). apply (G_bound _ _ HG). exact Hk. Qed.
    Lemma st_bk x : known m cs x -> bk m' x = bk m x.
    Proof. intros Hk. unfold bk. rewrite (proj1 (st_key x Hk)). reflexivity. Qed.
    Lemma st_gef h k x : known m cs x -> gef m' h k x = gef m h k x.
    Proof. intros Hk. destruct (st_key x Hk) as (H1 & _ & H3). apply gef_frame; assumption. Qed.
    Lemma st_nh x : known m cs x -> nh m' x = nh m x.
    Proof. intros Hk. destruct (st_key x Hk) as (H1 & _ & H3). apply nh_frame; assumption. Qed.

    Lemma okref_mono b sv : okref m cs b sv -> okref m' cs' b sv.
    Proof.
      intros [H | [H1 H2]]; [left; exact H | right]. split; [apply (M_known _ _ _ _ _ HM); exact H1|].
      rewrite st_bk; assumption.
    Qed.
    Lemma okprev_mono b h k sv : okprev m cs b h k sv -> okprev m' cs' b h k sv.
    Proof. intros [H1 H2]. split; [apply okref_mono; exact H1 | apply (M_pre _ _ _ _ _ HM); assumption]. Qed.
    Lemma oknode_mono b x : oknode m cs b x -> oknode m' cs' b x.
    Proof.
      intros (H0 & H1 & H2). split; [exact H0|]. split; [apply (M_known _ _ _ _ _ HM); exact H1|].
      rewrite st_bk; assumption.
    Qed.
    Lemma oknx_mono b x : oknx m cs b x -> oknx m' cs' b x.
    Proof. intros [H | H]; [left; exact H | right; apply oknode_mono; exact H]. Qed.
    Lemma fresh_mono key n : n <> sp -> fresh m cs key n ->
      fresh m' cs' key n /\ nnext m' n = nnext m n /\ nval m' n = nval m n.
    Proof.
      intros Hsp (Hnz & Hlt & Hnk & Hkey).
      destruct (M_fresh _ _ _ _ _ HM n Hlt Hnk Hsp) as [Hnk' Hnx].
      destruct (M_key _ _ _ _ _ HM n Hlt) as (H1 & H2 & _).
      split; [|split; assumption]. split; [exact Hnz|]. split; [pose proof (M_alloc _ _ _ _ _ HM); lia|].
      split; [exact Hnk' | congruence].
    Qed.
    Lemma IT0_mono ib isv icur : IT0 m cs ib isv icur -> IT0 m' cs' ib isv icur.
    Proof.
      intros [H1 H2]. split; [apply okref_mono; exact H1|]. intros Hnz. destruct (H2 Hnz) as [H3 H4].
      split; [|apply oknode_mono; exact H4]. destruct H4 as (_ & H5 & _).
      rewrite st_nh, (proj1 (st_key _ H5)) by exact H5. apply (M_pre _ _ _ _ _ HM); assumption.
    Qed.

    Lemma cont_ok_mono w ib icur c b h key :
      (forall n, fresh_of_k c = Some n -> n <> sp) ->
      cont_ok m cs w ib icur c b h key -> (icur <> 0 -> known m cs icur) -> cont_ok m' cs' w ib icur c b h key.
    Proof.
      intros Hsp H Hic. destruct c as [n v|n v| | | | | |o|o]; cbn [cont_ok fresh_of_k] in *; try exact I; try exact H.
      - destruct H as [H1 H2]. destruct (fresh_mono key n (Hsp _ eq_refl) H1) as (H3 & _ & H4). split; [exact H3 | congruence].
      - destruct H as [H | [H1 H2]]; [left; exact H | right].
        assert (Hne : n <> sp). { apply Hsp. destruct (N.eqb_spec n 0) as [->|_]; [destruct H1 as [H1 _]; contradiction | reflexivity]. }
        destruct (fresh_mono key n Hne H1) as (H3 & _ & H4). split; [exact H3 | congruence].
      - destruct H as (H1 & H2 & H3 & H4 & H5). subst o. specialize (Hic H2).
        repeat split; try assumption; [apply (M_mark _ _ _ _ _ HM); exact H3 | rewrite (proj1 (st_key _ Hic)); exact H4].
      - destruct H as (H1 & H2 & H3 & H4 & H5). subst o. specialize (Hic H2).
        repeat split; try assumption; [apply (M_mark _ _ _ _ _ HM); exact H3 | rewrite (proj1 (st_key _ Hic)); exact H4].
    Qed.

    (** generic stability of the per-thread part *)
    Lemma Tw_stable w ib isv icur p :
      (forall n, fresh_of p = Some n -> n <> sp) -> (icur <> 0 -> known m cs icur) ->
      Tw m cs w ib isv icur p -> Tw m' cs' w ib isv icur p.
    Proof.
      intros Hsp Hic HT.
      assert (Hfc : forall c b h key, (forall n, fresh_of_k c = Some n -> n <> sp) ->
                fcom m cs w ib icur c b h key -> fcom m' cs' w ib icur c b h key).
      { intros c b h key Hs (H1 & H2 & H3). split; [exact H1|]. split; [exact H2|]. eapply cont_ok_mono; eauto. }
      assert (Hkey : forall b x, oknode m cs b x -> nkey m' x = nkey m x /\ nval m' x = nval m x).
      { intros b x (_ & Hk & _). destruct (st_key x Hk) as (H1 & H2 & _). auto. }
      assert (Hcur : forall b h key cur, (cur <> 0 -> oknode m cs b cur /\ gef m h key cur = true /\ nkey m cur <> key) ->
                (cur <> 0 -> oknode m' cs' b cur /\ gef m' h key cur = true /\ nkey m' cur <> key)).
      { intros b h key cur H Hnz. destruct (H Hnz) as (H1 & H2 & H3). split; [apply oknode_mono; exact H1|].
        destruct H1 as (_ & Hk & _). rewrite st_gef by exact Hk. rewrite (proj1 (st_key _ Hk)). auto. }
      pose proof okprev_mono as Hop. pose proof oknode_mono as Hon. pose proof oknx_mono as Hnx.
      destruct p; cbn [Tw fresh_of] in *; try exact I.
      - (* F1 *) destruct HT as (H1 & H2). auto.
      - (* F2 *) destruct HT as (H1 & H2 & H3 & H4). auto 6.
      - (* F3 *) destruct HT as (H1 & H2 & H3 & H4). auto 6.
      - (* F4 *) destruct HT as (H1 & H2 & H3 & H4 & H5).
        split; [auto|]. split; [auto|]. split; [auto|]. split; [auto|]. apply (M_mark _ _ _ _ _ HM). exact H5.
      - (* F5 *) destruct HT as (H1 & H2 & H3 & H4 & H5 & H6).
        destruct (M_mark _ _ _ _ _ HM _ H5) as [H7 H8].
        split; [auto|]. split; [auto|]. split; [auto|]. split; [auto|]. split; [exact H7 | congruence].
      - (* F6 *) destruct HT as (H1 & H2 & H3 & H4 & H5 & H9).
        split; [auto|]. split; [auto|]. split; [auto|]. split; [auto|]. split; [|auto].
        destruct (Hkey _ _ H4) as [Hk1 Hk2]. rewrite Hk1, Hk2. exact H5.
      - (* E1 *) destruct HT as ((H1 & H1v) & H2 & H3 & H4 & H5).
        destruct (fresh_mono key n (Hsp _ eq_refl) H1) as (H6 & _ & H6v).
        split; [split; [exact H6 | congruence]|]. eauto 8.
      - (* E2 *) destruct HT as ((H1 & H1v) & H2 & H3 & H4 & H5 & H7).
        destruct (fresh_mono key n (Hsp _ eq_refl) H1) as (H6 & H8 & H6v).
        split; [split; [exact H6 | congruence]|]. split; [exact H2|]. split; [exact H3|]. split; [auto|]. split; [eauto | congruence].
      - (* D1 *) destruct HT as (H1 & H2 & H3 & H4 & H5 & H6).
        split; [exact H1|]. split; [exact H2|]. split; [auto|]. split; [auto|]. split; [|auto].
        rewrite (proj1 (Hkey _ _ H4)). exact H5.
      - (* D2 *) destruct HT as (H1 & H2 & H3 & H4 & H5 & H6 & H7 & H8).
        destruct (M_mark _ _ _ _ _ HM _ H6) as [H9 H10].
        split; [exact H1|]. split; [exact H2|]. split; [auto|]. split; [auto|].
        split; [rewrite (proj1 (Hkey _ _ H4)); exact H5|]. split; [exact H9|]. split; [congruence | exact H8].
      - (* N1 *) exact HT.
      - (* N2 *) destruct HT as [H1 H2]. auto.
      - (* X1 *) exact HT.
      - (* X2 *) destruct HT as [H1 H2]. auto.
      - (* X3 *) destruct HT as (H1 & H2 & H3). destruct (M_mark _ _ _ _ _ HM _ H2) as [H4 H5].
        split; [exact H1|]. split; [exact H4 | congruence].
    Qed.
  End Stable.

  Lemma mono_refl m cs : mono m cs m cs 0.
  Proof. constructor; auto. lia. Qed.

  (** * Facts about the chains *)

  Lemma split_facts (nx : N -> N) (Rel : N -> N -> Prop) c sv :
    linksto nx c 0 -> StronglySorted Rel c -> NoDup c -> In sv c ->
    exists c1 c2, c = c1 ++ sv :: c2 /\ nx sv = hd 0 c2 /\
      linksto nx c1 sv /\ linksto nx c2 0 /\
      StronglySorted Rel c1 /\ StronglySorted Rel c2 /\
      (forall x, In x c1 -> Rel x sv) /\ (forall y, In y c2 -> Rel sv y) /\
      (forall x y, In x c1 -> In y c2 -> Rel x y) /\
      ~ In sv c1 /\ ~ In sv c2.
  Proof.
    intros HL HS HN Hin. destruct (in_split _ _ Hin) as (c1 & c2 & E). exists c1, c2.
    rewrite E in HL, HS, HN. apply linksto_app in HL. cbn [hd HmlInv.linksto] in HL. destruct HL as (HL1 & HL2 & HL3).
    apply SS_app_inv in HS. destruct HS as (HS1 & HS2 & HS3).
    apply SS_cons_inv in HS2. destruct HS2 as [HS2 HS4].
    apply NoDup_remove_2 in HN.
    split; [exact E|]. split; [exact HL2|]. split; [exact HL1|]. split; [exact HL3|].
    split; [exact HS1|]. split; [exact HS2|].
    split; [intros x Hx; apply HS3; [exact Hx | left; reflexivity]|].
    split; [exact HS4|].
    split; [intros x y Hx Hy; apply HS3; [exact Hx | right; exact Hy]|].
    split; intros Hc; apply HN; apply in_or_app; [left | right]; exact Hc.
  Qed.

  Lemma G_nodup m cs b : G m cs -> NoDup (0 :: cs b).
  Proof. intros HG. eapply SS_NoDup; [apply (R_irr m) | exact (G_sorted _ _ HG b)]. Qed.

  Lemma chain_nz m cs b x : G m cs -> In x (cs b) -> x <> 0.
  Proof.
    intros HG Hx. pose proof (G_sorted _ _ HG b) as HS. apply SS_cons_inv in HS. destruct HS as [_ HS].
    exact (proj1 (HS _ Hx)).
  Qed.

  Lemma known_chain m cs b x : G m cs -> In x (cs b) -> known m cs x.
  Proof. intros HG Hx. left. rewrite (G_bk _ _ HG b x Hx). exact Hx. Qed.

  Lemma known_nz m cs x : G m cs -> known m cs x -> x <> 0.
  Proof.
    intros HG [H | H]; [eapply chain_nz; eassumption|]. intros ->. exact (G_ret_nz _ _ HG H).
  Qed.

  Lemma chain_bound m cs b x : G m cs -> In x (cs b) -> x < nalloc m.
  Proof. intros HG Hx. apply (G_bound _ _ HG). eapply known_chain; eassumption. Qed.

  Lemma unmarked_in_chain m cs x : G m cs -> known m cs x -> nmark m x = false -> In x (cs (bk m x)).
  Proof.
    intros HG [Hk | Hk] Hm; [exact Hk|]. rewrite (G_ret_marked _ _ HG _ Hk) in Hm. discriminate.
  Qed.

  Lemma pmark_nz m x : x <> 0 -> pmark m x = nmark m x.
  Proof. intros H. unfold pmark. destruct (N.eqb_spec x 0); [contradiction | reflexivity]. Qed.
  Lemma pnext_nz m b x : x <> 0 -> pnext m b x = nnext m x.
  Proof. intros H. unfold pnext. destruct (N.eqb_spec x 0); [contradiction | reflexivity]. Qed.

  Lemma ref_in_chain m cs b sv : G m cs -> okref m cs b sv -> pmark m sv = false -> In sv (0 :: cs b).
  Proof.
    intros HG [-> | [Hk Hb]] Hm; [left; reflexivity|]. right. rewrite <- Hb.
    apply unmarked_in_chain; [exact HG | exact Hk|]. rewrite <- pmark_nz; [exact Hm | eapply known_nz; eassumption].
  Qed.

  Lemma node_in_chain m cs b x : G m cs -> oknode m cs b x -> nmark m x = false -> In x (cs b).
  Proof. intros HG (_ & Hk & Hb) Hm. rewrite <- Hb. apply unmarked_in_chain; assumption. Qed.

  Lemma okref_chain m cs b sv : G m cs -> In sv (0 :: cs b) -> okref m cs b sv.
  Proof.
    intros HG [<- | H]; [left; reflexivity | right]. split; [eapply known_chain; eassumption | exact (G_bk _ _ HG b sv H)].
  Qed.
  Lemma oknode_chain m cs b x : G m cs -> In x (cs b) -> oknode m cs b x.
  Proof.
    intros HG H. split; [eapply chain_nz; eassumption|]. split; [eapply known_chain; eassumption | exact (G_bk _ _ HG b x H)].
  Qed.

  Lemma chain_split m cs b sv : G m cs -> In sv (0 :: cs b) ->
    exists c1 c2, 0 :: cs b = c1 ++ sv :: c2 /\ pnext m b sv = hd 0 c2 /\
      linksto (pnext m b) c1 sv /\ linksto (pnext m b) c2 0 /\
      StronglySorted (R m) c1 /\ StronglySorted (R m) c2 /\
      (forall x, In x c1 -> R m x sv) /\ (forall y, In y c2 -> R m sv y) /\
      (forall x y, In x c1 -> In y c2 -> R m x y) /\
      ~ In sv c1 /\ ~ In sv c2.
  Proof.
    intros HG Hin. apply split_facts; [exact (G_links _ _ HG b) | exact (G_sorted _ _ HG b) | exact (G_nodup _ _ b HG) | exact Hin].
  Qed.

  Lemma chain_next_in m cs b x : G m cs -> In x (0 :: cs b) -> pnext m b x <> 0 -> In (pnext m b x) (cs b).
  Proof.
    intros HG Hin Hnz. destruct (chain_split _ _ _ _ HG Hin) as (c1 & c2 & E & Hn & _).
    destruct c2 as [|y r]; cbn [hd] in Hn; [contradiction|].
    assert (H : In y (0 :: cs b)) by (rewrite E; apply in_or_app; right; right; left; reflexivity).
    rewrite Hn. destruct H as [H | H]; [congruence | exact H].
  Qed.

  (** the successor of a linked or retired node is null or a node of the same bucket *)
  Lemma closed_nx m cs b x : G m cs -> oknode m cs b x -> oknx m cs b (nnext m x).
  Proof.
    intros HG (Hnz & Hk & Hb). destruct (G_closed _ _ HG x Hk) as [H | [H1 H2]]; [left; exact H | right].
    split; [eapply known_nz; eassumption|]. split; [exact H1 | congruence].
  Qed.
  Lemma closed_ref m cs b sv : G m cs -> okref m cs b sv -> pmark m sv = false -> oknx m cs b (pnext m b sv).
  Proof.
    intros HG Hr Hm. pose proof (ref_in_chain _ _ _ _ HG Hr Hm) as Hin.
    destruct (N.eq_dec (pnext m b sv) 0) as [Hz|Hz]; [left; exact Hz | right].
    apply oknode_chain; [exact HG|]. apply chain_next_in; assumption.
  Qed.

  Lemma chain_key_inj m cs b x y : G m cs -> In x (cs b) -> In y (cs b) -> nkey m x = nkey m y -> x = y.
  Proof.
    intros HG Hx Hy Hk.
    assert (Hle : forall a c, In a (cs b) -> In c (cs b) -> nkey m a = nkey m c -> le2 m a c = true).
    { intros a c Ha Hc E. unfold le2, HmmDefs.nh, HmmDefs.gef.
      rewrite (G_hash _ _ HG a), (G_hash _ _ HG c), E;
        try (eapply chain_nz; eassumption); try (eapply chain_bound; eassumption). destruct memo, lex; rewrite ?N.eqb_refl; lia. }
    destruct (chain_split _ _ _ _ HG (or_intror Hx)) as (c1 & c2 & E & _ & _ & _ & _ & _ & HR1 & HR2 & _).
    assert (Hy' : In y (c1 ++ x :: c2)) by (rewrite <- E; right; exact Hy).
    apply in_app_or in Hy'. destruct Hy' as [Hy' | [Hy' | Hy']].
    - destruct (HR1 _ Hy') as [_ [H0 | Hlt]]; [exfalso; exact (chain_nz _ _ _ _ HG Hy H0)|].
      rewrite Hle in Hlt; [discriminate | assumption | assumption | exact Hk].
    - exact Hy'.
    - destruct (HR2 _ Hy') as [_ [H0 | Hlt]]; [exfalso; exact (chain_nz _ _ _ _ HG Hx H0)|].
      rewrite Hle in Hlt; [discriminate | assumption | assumption | symmetry; exact Hk].
  Qed.

  (** the searched key is not in the chain when the prefix up to [sv] is below it and the successor of [sv]
      is null or greater *)
  Lemma not_in_chain m cs b sv cur key : G m cs -> In sv (0 :: cs b) -> pnext m b sv = cur ->
    pre m (0 :: cs b) (hf key) key sv -> (cur <> 0 -> gef m (hf key) key cur = true /\ nkey m cur <> key) ->
    forall x, In x (cs b) -> nkey m x <> key.
  Proof.
    intros HG Hin Hn Hpre Hhi x Hx Hxk.
    assert (Hxnz : x <> 0) by (eapply chain_nz; eassumption).
    assert (Hge : gef m (hf key) key x = true).
    { apply gef_key; [exact Hxk|]. rewrite (G_hash _ _ HG x Hxnz), Hxk; [reflexivity | eapply chain_bound; eassumption]. }
    destruct (chain_split _ _ _ _ HG Hin) as (c1 & c2 & E & Hn' & _ & _ & _ & HS2 & _ & HR2 & _ & Hsv1 & _).
    specialize (Hpre Hin). rewrite E, (upto_app_notin _ _ _ Hsv1) in Hpre. cbn [upto] in Hpre. rewrite N.eqb_refl in Hpre.
    assert (Hx' : In x (c1 ++ sv :: c2)) by (rewrite <- E; right; exact Hx).
    apply in_app_or in Hx'. destruct Hx' as [Hx' | [Hx' | Hx']].
    - rewrite Hpre in Hge; [discriminate | apply in_or_app; left; exact Hx' | exact Hxnz].
    - rewrite Hpre in Hge; [discriminate | apply in_or_app; right; left; exact Hx' | exact Hxnz].
    - destruct c2 as [|y r]; [destruct Hx'|]. cbn [hd] in Hn'. rewrite Hn in Hn'. subst y.
      destruct (HR2 cur (or_introl eq_refl)) as [Hcnz _]. destruct (Hhi Hcnz) as [Hc1 Hc2].
      destruct Hx' as [<- | Hx']; [contradiction|].
      apply SS_cons_inv in HS2. destruct HS2 as [_ HS2]. destruct (HS2 _ Hx') as [_ [H0 | Hlt]]; [contradiction|].
      (* x <= cur would follow from (h,k) <= cur and x carrying (h,k) *)
      unfold le2 in Hlt. replace (nh m x) with (hf key) in Hlt.
      + rewrite Hxk, Hc1 in Hlt. discriminate.
      + unfold HmmDefs.nh. rewrite Hxk. destruct memo; [|reflexivity].
        rewrite (G_hash _ _ HG x Hxnz), Hxk; [reflexivity | eapply chain_bound; eassumption].
  Qed.

  Lemma abs_in m cs x : G m cs -> In x (cs (bk m x)) -> nmark m x = false -> In (nkey m x, nval m x) (g_abs m).
  Proof. intros HG H1 H3. apply (G_abs _ _ HG). exists x. auto. Qed.

  Lemma abs_lookup m cs x : G m cs -> In x (cs (bk m x)) -> nmark m x = false -> lookup (nkey m x) (g_abs m) = Some (nval m x).
  Proof. intros HG H1 H3. apply lookup_nodup; [exact (G_abs_nodup _ _ HG) | eapply abs_in; eassumption]. Qed.

  Lemma absent m cs b sv cur key : G m cs -> b = bucket_of key -> In sv (0 :: cs b) -> pnext m b sv = cur ->
    pre m (0 :: cs b) (hf key) key sv -> (cur <> 0 -> gef m (hf key) key cur = true /\ nkey m cur <> key) ->
    lookup key (g_abs m) = None.
  Proof.
    intros HG -> Hsv Hn Hpre Hhi. apply lookup_none. intros Hc. apply in_keys in Hc. destruct Hc as (v & Hc).
    apply (G_abs _ _ HG) in Hc. destruct Hc as (x & H1 & _ & H4 & _).
    exact (not_in_chain _ _ _ _ _ _ HG Hsv Hn Hpre Hhi x H1 H4).
  Qed.

  (** sortedness gives the prefix property for every node of the chain behind [sv] *)
  Lemma pre_sorted m cs b sv y : G m cs -> In sv (0 :: cs b) -> In y (cs b) ->
    (forall c1 c2, 0 :: cs b = c1 ++ sv :: c2 -> In y c2) -> pre m (0 :: cs b) (nh m y) (nkey m y) sv.
  Proof.
    intros HG Hsv Hy Hafter _ x Hx Hxnz.
    destruct (chain_split _ _ _ _ HG Hsv) as (c1 & c2 & E & _ & _ & _ & _ & _ & _ & HR2 & HR3 & Hsv1 & _).
    specialize (Hafter _ _ E). rewrite E, (upto_app_notin _ _ _ Hsv1) in Hx. cbn [upto] in Hx. rewrite N.eqb_refl in Hx.
    apply in_app_or in Hx. destruct Hx as [Hx | [<- | []]].
    - destruct (HR3 _ _ Hx Hafter) as [_ [H0 | H]]; [contradiction | exact H].
    - destruct (HR2 _ Hafter) as [_ [H0 | H]]; [contradiction | exact H].
  Qed.

  (** * Fields of the transformed memories *)

  Lemma sp_nkey m b sv v : nkey (set_prev m b sv v) = nkey m.
  Proof. unfold set_prev. destruct (sv =? 0); reflexivity. Qed.
  Lemma sp_nval m b sv v : nval (set_prev m b sv v) = nval m.
  Proof. unfold set_prev. destruct (sv =? 0); reflexivity. Qed.
  Lemma sp_nhash m b sv v : nhash (set_prev m b sv v) = nhash m.
  Proof. unfold set_prev. destruct (sv =? 0); reflexivity. Qed.
  Lemma sp_nmark m b sv v : nmark (set_prev m b sv v) = nmark m.
  Proof. unfold set_prev. destruct (sv =? 0); reflexivity. Qed.
  Lemma sp_nalloc m b sv v : nalloc (set_prev m b sv v) = nalloc m.
  Proof. unfold set_prev. destruct (sv =? 0); reflexivity. Qed.
  Lemma sp_nnext m b sv v x : nnext (set_prev m b sv v) x = if negb (sv =? 0) && (x =? sv) then v else nnext m x.
  Proof. unfold set_prev. destruct (sv =? 0); cbn [nnext negb andb]; [reflexivity|]. unfold setf. reflexivity. Qed.
  Lemma sp_pnext_same m b sv v : pnext (set_prev m b sv v) b sv = v.
  Proof.
    unfold pnext, set_prev. destruct (N.eqb_spec sv 0) as [->|H]; cbn [bhead nnext]; apply setf_same.
  Qed.
  Lemma sp_pnext_other m b sv v b' x : (x <> sv \/ (sv = 0 /\ b' <> b)) -> pnext (set_prev m b sv v) b' x = pnext m b' x.
  Proof.
    intros H. unfold pnext, set_prev. destruct (N.eqb_spec sv 0) as [->|Hsv]; cbn [bhead nnext].
    - destruct (N.eqb_spec x 0) as [->|Hx]; [|reflexivity]. apply setf_other. destruct H as [H | [_ H]]; [contradiction | exact H].
    - destruct (N.eqb_spec x 0) as [->|Hx]; [reflexivity|]. apply setf_other. destruct H as [H | [H _]]; [exact H | contradiction].
  Qed.

  Definition link_nkey m t b sv n : nkey (m_link m t b sv n) = nkey m := sp_nkey m b sv n.
  Definition link_nval m t b sv n : nval (m_link m t b sv n) = nval m := sp_nval m b sv n.
  Definition link_nhash m t b sv n : nhash (m_link m t b sv n) = nhash m := sp_nhash m b sv n.
  Definition link_nmark m t b sv n : nmark (m_link m t b sv n) = nmark m := sp_nmark m b sv n.
  Definition link_nalloc m t b sv n : nalloc (m_link m t b sv n) = nalloc m := sp_nalloc m b sv n.
  Definition unlink_nkey m b sv cur nx : nkey (m_unlink m b sv cur nx) = nkey m := sp_nkey m b sv nx.
  Definition unlink_nval m b sv cur nx : nval (m_unlink m b sv cur nx) = nval m := sp_nval m b sv nx.
  Definition unlink_nhash m b sv cur nx : nhash (m_unlink m b sv cur nx) = nhash m := sp_nhash m b sv nx.
  Definition unlink_nmark m b sv cur nx : nmark (m_unlink m b sv cur nx) = nmark m := sp_nmark m b sv nx.
  Definition unlink_nalloc m b sv cur nx : nalloc (m_unlink m b sv cur nx) = nalloc m := sp_nalloc m b sv nx.
  Lemma link_pnext m t b sv n b' x : pnext (m_link m t b sv n) b' x = pnext (set_prev m b sv n) b' x.
  Proof. reflexivity. Qed.
  Lemma unlink_pnext m b sv cur nx b' x : pnext (m_unlink m b sv cur nx) b' x = pnext (set_prev m b sv nx) b' x.
  Proof. reflexivity. Qed.
  Lemma link_nnext m t b sv n x : nnext (m_link m t b sv n) x = nnext (set_prev m b sv n) x.
  Proof. reflexivity. Qed.
  Lemma unlink_nnext m b sv cur nx x : nnext (m_unlink m b sv cur nx) x = nnext (set_prev m b sv nx) x.
  Proof. reflexivity. Qed.

  (** [R], [bk], [gef], [pre] depend on keys and hashes only *)
  Lemma R_ext m m' : nkey m' = nkey m -> nhash m' = nhash m -> forall x y, R m' x y <-> R m x y.
  Proof. intros E1 E2 x y. unfold R, le2, HmmDefs.nh, HmmDefs.gef. rewrite E1, E2. tauto. Qed.
  Lemma bk_ext m m' : nkey m' = nkey m -> forall x, bk m' x = bk m x.
  Proof. intros E x. unfold bk. rewrite E. reflexivity. Qed.
  Lemma pre_ext m m' c h k sv : nkey m' = nkey m -> nhash m' = nhash m -> pre m' c h k sv <-> pre m c h k sv.
  Proof. intros E1 E2. unfold pre, HmmDefs.gef. rewrite E1, E2. tauto. Qed.
  Lemma known_ext m m' cs : nkey m' = nkey m -> g_retired m' = g_retired m -> forall x, known m' cs x <-> known m cs x.
  Proof. intros E1 E2 x. unfold known, bk. rewrite E1, E2. tauto. Qed.

  Lemma hd_zero_cons (c1 : list N) sv c2 l mid : c1 ++ sv :: c2 = 0 :: l -> c1 ++ sv :: mid = 0 :: tl (c1 ++ sv :: mid).
  Proof. destruct c1 as [|a c1]; cbn [app tl]; intros E; injection E as -> _; reflexivity. Qed.

  (** * Preservation of the global part by the memory-changing steps *)

  Lemma alloc_step m cs k v : G m cs -> G (m_alloc m k v) cs /\ mono m cs (m_alloc m k v) cs 0.
  Proof.
    intros HG. set (n := nalloc m). set (m' := m_alloc m k v).
    assert (Hk : forall x, x <> n -> nkey m' x = nkey m x) by (intros x Hq; subst m'; cbn [HmmDefs.m_alloc nkey]; apply setf_other; exact Hq).
    assert (Hv : forall x, x <> n -> nval m' x = nval m x) by (intros x Hq; subst m'; cbn [HmmDefs.m_alloc nval]; apply setf_other; exact Hq).
    assert (Hh : forall x, x <> n -> nhash m' x = nhash m x) by (intros x Hq; subst m'; cbn [HmmDefs.m_alloc nhash]; apply setf_other; exact Hq).
    assert (Hx : forall x, x <> n -> nnext m' x = nnext m x) by (intros x Hq; subst m'; cbn [HmmDefs.m_alloc nnext]; apply setf_other; exact Hq).
    assert (Hmk : forall x, x <> n -> nmark m' x = nmark m x) by (intros x Hq; subst m'; cbn [HmmDefs.m_alloc nmark]; apply setf_other; exact Hq).
    assert (Hmn : nmark m' n = false) by (subst m'; cbn [HmmDefs.m_alloc nmark]; apply setf_same).
    assert (Hpos : 0 <> n) by (pose proof (G_pos _ _ HG); subst n; lia).
    assert (Hne : forall x, known m cs x -> x <> n). { intros x Hkx. apply (G_bound _ _ HG) in Hkx. subst n. lia. }
    assert (Hinc : forall b x, In x (cs b) -> x <> n). { intros b x Hin. apply Hne. eapply known_chain; eassumption. }
    assert (Hinc0 : forall b x, In x (0 :: cs b) -> x <> n).
    { intros b x [<- | Hin]; [exact Hpos | eapply Hinc; eassumption]. }
    assert (Hbk : forall x, x <> n -> bk m' x = bk m x) by (intros x Hxn; unfold bk; rewrite Hk by exact Hxn; reflexivity).
    assert (Hkn : forall x, known m' cs x <-> known m cs x).
    { intros x. unfold known. change (g_retired m') with (g_retired m). destruct (N.eq_dec x n) as [->|Hxn].
      - split; intros [H | H]; exfalso.
        + exact (Hinc _ _ H eq_refl).
        + apply (Hne n); [right; exact H | reflexivity].
        + exact (Hinc _ _ H eq_refl).
        + apply (Hne n); [right; exact H | reflexivity].
      - rewrite Hbk by exact Hxn. tauto. }
    assert (Hpn : forall b x, x <> n -> pnext m' b x = pnext m b x).
    { intros b x Hxn. unfold pnext. destruct (x =? 0); [reflexivity | apply Hx; exact Hxn]. }
    assert (Hgef : forall h k0 x, x <> n -> gef m' h k0 x = gef m h k0 x) by (intros; apply gef_frame; auto).
    assert (Hle : forall x y, x <> n -> y <> n -> le2 m' x y = le2 m x y).
    { intros x y H1 H2. unfold le2. rewrite (nh_frame m m' x), Hk by auto. apply Hgef. exact H2. }
    split.
    - constructor.
      + intros b. eapply linksto_ext; [|exact (G_links _ _ HG b)]. intros x Hin. apply Hpn. eapply Hinc0; eassumption.
      + intros b. eapply SS_ext; [|exact (G_sorted _ _ HG b)]. intros x y Hin Hiny [H1 H2]. split; [exact H1|].
        destruct H2 as [H2 | H2]; [left; exact H2 | right]. rewrite Hle; [exact H2 | eapply Hinc0; eassumption | eapply Hinc0; eassumption].
      + intros b x Hin. rewrite Hbk by (eapply Hinc; eassumption). exact (G_bk _ _ HG b x Hin).
      + exact (G_ret_nodup _ _ HG).
      + exact (G_ret_nz _ _ HG).
      + exact (G_disj _ _ HG).
      + intros x Hkx. apply Hkn in Hkx. apply (G_bound _ _ HG) in Hkx. subst m'; cbn [HmmDefs.m_alloc nalloc]. lia.
      + subst m'; cbn [HmmDefs.m_alloc nalloc]. lia.
      + intros x Hm. apply Hkn. apply (G_marked_known _ _ HG). destruct (N.eq_dec x n) as [->|Hxn]; [congruence|].
        rewrite <- Hmk by exact Hxn. exact Hm.
      + intros x Hin. rewrite Hmk; [apply (G_ret_marked _ _ HG); exact Hin | apply Hne; right; exact Hin].
      + intros x Hkx. apply Hkn in Hkx. rewrite Hx by (apply Hne; exact Hkx).
        destruct (G_closed _ _ HG x Hkx) as [H | [H1 H2]]; [left; exact H | right].
        split; [apply Hkn; exact H1|]. rewrite !Hbk; [exact H2 | apply Hne; exact Hkx | apply Hne; exact H1].
      + intros x Hnz Hlt. destruct (N.eq_dec x n) as [->|Hxn].
        * subst m'; cbn [HmmDefs.m_alloc nhash nkey]. rewrite !setf_same. reflexivity.
        * rewrite Hh, Hk by exact Hxn. apply (G_hash _ _ HG); [exact Hnz|]. subst m'; cbn [HmmDefs.m_alloc nalloc] in Hlt. subst n. lia.
      + exact (G_abs_nodup _ _ HG).
      + intros k0 v0. change (g_abs m') with (g_abs m). rewrite (G_abs _ _ HG). split; intros (x & H1 & H2 & H3 & H4); exists x;
          (split; [exact H1|]); pose proof (Hinc _ _ H1) as Hxn; rewrite Hmk, Hk, Hv in * by exact Hxn; auto.
      + exact (G_fold _ _ HG).
      + intros t k0 v0 n0 Hin. destruct (G_lins _ _ HG _ _ _ _ Hin) as (H1 & H2 & H3).
        split; [apply Hkn; exact H1|]. rewrite Hk, Hv by (apply Hne; exact H1). auto.
      + intros t k0 n0 i Hin. destruct (G_ldel _ _ HG _ _ _ _ Hin) as [H1 H2].
        assert (n0 <> n) by (apply Hne, (G_marked_known _ _ HG); exact H1). rewrite Hmk, Hk by assumption. auto.
      + exact (G_lins_nodup _ _ HG).
      + exact (G_ldel_nodup _ _ HG).
      + intros x Hm. apply (G_marked_del _ _ HG). destruct (N.eq_dec x n) as [->|Hxn]; [congruence|].
        rewrite <- Hmk by exact Hxn. exact Hm.
      + intros x Hkx. apply (G_known_ins _ _ HG). apply Hkn. exact Hkx.
    - constructor.
      + intros x Hkx. apply Hkn. exact Hkx.
      + intros x Hlt. assert (x <> n) by (subst n; lia). rewrite Hk, Hv, Hh by assumption. auto.
      + intros x Hm. assert (x <> n) by (apply Hne, (G_marked_known _ _ HG); exact Hm).
        rewrite Hmk, Hx by assumption. auto.
      + subst m'; cbn [HmmDefs.m_alloc nalloc]. lia.
      + intros n0 Hlt Hnk _. split; [rewrite Hkn; exact Hnk|]. apply Hx. subst n. lia.
      + intros b h k0 sv _ Hpre Hin x Hxin Hxnz. rewrite Hgef; [apply Hpre; assumption|].
        apply (Hinc0 b). apply (upto_incl sv). exact Hxin.
  Qed.

  (** store to the next field of an unlinked new node *)
  Lemma store_step m cs n v : G m cs -> n <> 0 -> ~ known m cs n -> G (m_store m n v) cs /\ mono m cs (m_store m n v) cs n.
  Proof.
    intros HG Hnz Hnk. set (m' := m_store m n v).
    assert (Hx : forall x, x <> n -> nnext m' x = nnext m x) by (intros x Hq; subst m'; cbn [m_store nnext]; apply setf_other; exact Hq).
    assert (Hne : forall x, known m cs x -> x <> n) by (intros x Hkx ->; contradiction).
    assert (Hpn : forall b x, x <> n -> pnext m' b x = pnext m b x).
    { intros b x Hxn. unfold pnext. destruct (x =? 0); [reflexivity | apply Hx; exact Hxn]. }
    assert (Hinc0 : forall b x, In x (0 :: cs b) -> x <> n).
    { intros b x [<- | Hin]; [intros E; apply Hnz; symmetry; exact E | apply Hne; eapply known_chain; eassumption]. }
    split.
    - destruct HG. constructor; try assumption.
      + intros b. eapply linksto_ext; [|apply G_links0]. intros x Hin. apply Hpn. eapply Hinc0; eassumption.
      + intros x Hkx. change (known m cs x) in Hkx. rewrite Hx by (apply Hne; exact Hkx). apply G_closed0. exact Hkx.
    - constructor.
      + intros x Hkx. exact Hkx.
      + intros x _. auto.
      + intros x Hm. split; [exact Hm|]. apply Hx. apply Hne. apply (G_marked_known _ _ HG). exact Hm.
      + subst m'; cbn [m_store nalloc]. lia.
      + intros n0 _ Hn0 Hne0. split; [exact Hn0 | apply Hx; exact Hne0].
      + intros b h k sv _ Hpre. exact Hpre.
  Qed.

  Lemma upto_insert (c1 : list N) sv n c2 sv0 x : sv0 <> n -> In sv0 (c1 ++ sv :: c2) ->
    In x (upto sv0 (c1 ++ sv :: n :: c2)) ->
    In x (upto sv0 (c1 ++ sv :: c2)) \/
    (x = n /\ exists a r, c2 = a :: r /\ In a (upto sv0 (c1 ++ sv :: c2))).
  Proof.
    intros Hne Hin Hx. destruct (in_dec N.eq_dec sv0 c1) as [H1 | H1].
    - left. rewrite upto_app_in in * by exact H1. exact Hx.
    - rewrite upto_app_notin in * by exact H1. cbn [upto] in *.
      destruct (N.eqb_spec sv sv0) as [E | E]; [left; exact Hx|].
      cbn [upto] in Hx. destruct (N.eqb_spec n sv0) as [E2 | _]; [exfalso; apply Hne; symmetry; exact E2|].
      apply in_app_or in Hx. destruct Hx as [Hx | [Hx | [Hx | Hx]]].
      + left. apply in_or_app. left. exact Hx.
      + left. apply in_or_app. right. left. exact Hx.
      + right. split; [symmetry; exact Hx|].
        apply in_app_or in Hin. destruct Hin as [Hin | [Hin | Hin]]; [contradiction | contradiction|].
        destruct c2 as [|a r]; [destruct Hin|]. exists a, r. split; [reflexivity|].
        apply in_or_app. right. right. apply upto_head.
      + left. apply in_or_app. right. right. exact Hx.
  Qed.

  Lemma upto_remove (c1 : list N) sv d c3 sv0 x : sv0 <> d ->
    In x (upto sv0 (c1 ++ sv :: c3)) -> In x (upto sv0 (c1 ++ sv :: d :: c3)).
  Proof.
    intros Hne Hx. destruct (in_dec N.eq_dec sv0 c1) as [H1 | H1].
    - rewrite upto_app_in in * by exact H1. exact Hx.
    - rewrite upto_app_notin in * by exact H1. cbn [upto] in *.
      destruct (N.eqb_spec sv sv0) as [E | E]; [exact Hx|].
      cbn [upto]. destruct (N.eqb_spec d sv0) as [E2 | _]; [exfalso; apply Hne; symmetry; exact E2|].
      apply in_app_or in Hx. apply in_or_app. destruct Hx as [Hx | [Hx | Hx]]; [left; exact Hx | right; left; exact Hx | right; right; right; exact Hx].
  Qed.

  Lemma tl_in_ins (c1 : list N) sv c2 l n x : c1 ++ sv :: c2 = 0 :: l ->
    (In x (tl (c1 ++ sv :: n :: c2)) <-> x = n \/ In x l).
  Proof.
    destruct c1 as [|a c1]; cbn [app tl]; intros E; injection E as -> <-.
    - cbn [In]. rewrite (eq_comm_iff n x). tauto.
    - rewrite !in_app_iff. cbn [In]. rewrite (eq_comm_iff n x). tauto.
  Qed.
  Lemma tl_in_del (c1 : list N) sv d c3 l x : c1 ++ sv :: d :: c3 = 0 :: l ->
    (In x l <-> x = d \/ In x (tl (c1 ++ sv :: c3))).
  Proof.
    destruct c1 as [|a c1]; cbn [app tl]; intros E; injection E as -> <-.
    - cbn [In]. rewrite (eq_comm_iff d x). tauto.
    - rewrite !in_app_iff. cbn [In]. rewrite (eq_comm_iff d x). tauto.
  Qed.

  (** a write to the prev pointer (b, sv) does not touch the chains of the other buckets *)
  Lemma sp_other_bucket m cs b sv v b' x : G m cs -> In sv (0 :: cs b) -> b' <> b -> In x (0 :: cs b') ->
    pnext (set_prev m b sv v) b' x = pnext m b' x.
  Proof.
    intros HG Hsv Hb Hx. apply sp_pnext_other. destruct (N.eq_dec sv 0) as [Hz|Hz]; [right; auto | left].
    intros ->. destruct Hsv as [Hsv | Hsv]; [congruence|]. destruct Hx as [Hx | Hx]; [congruence|].
    apply Hb. rewrite <- (G_bk _ _ HG _ _ Hx). exact (G_bk _ _ HG _ _ Hsv).
  Qed.

  Lemma nh_hash m cs x : G m cs -> x <> 0 -> x < nalloc m -> nh m x = hf (nkey m x).
  Proof. intros HG H1 H2. unfold HmmDefs.nh. destruct memo; [apply (G_hash _ _ HG); assumption | reflexivity]. Qed.

  (** the successful link CAS of emplace_or_get / get_or_emplace (linearization point of a successful insert) *)
  Lemma link_step m cs t b sv n cur key :
    G m cs -> fresh m cs key n -> bucket_of key = b -> nnext m n = cur ->
    In sv (0 :: cs b) -> pmark m sv = false -> pnext m b sv = cur ->
    pre m (0 :: cs b) (hf key) key sv ->
    (cur <> 0 -> gef m (hf key) key cur = true /\ nkey m cur <> key) ->
    lookup key (g_abs m) = None /\
    exists cs', G (m_link m t b sv n) cs' /\ mono m cs (m_link m t b sv n) cs' n /\
      (forall b' x, In x (cs' b') <-> (b' = b /\ x = n) \/ In x (cs b')).
  Proof.
    intros HG (Hnnz & Hnlt & Hnk & Hnkey) Hb Hnn Hsv Hsvm Hsvn Hpre Hhi.
    assert (Habsent : lookup key (g_abs m) = None) by exact (absent m cs b sv cur key HG (eq_sym Hb) Hsv Hsvn Hpre Hhi).
    split; [exact Habsent|].
    set (m' := m_link m t b sv n).
    destruct (chain_split _ _ _ _ HG Hsv) as (c1 & c2 & E & Hn' & HL1 & HL2 & HS1 & HS2 & HR1 & HR2 & HR3 & Hsv1 & Hsv2).
    rewrite Hsvn in Hn'.
    set (newc := c1 ++ sv :: n :: c2).
    assert (E' : newc = 0 :: tl newc) by (symmetry in E; exact (hd_zero_cons _ _ _ _ (n :: c2) E)).
    set (cs' := setf cs b (tl newc)).
    exists cs'.
    assert (Hbkn : bk m n = b) by (unfold bk; rewrite Hnkey; exact Hb).
    assert (Hnhn : nh m n = hf key) by (rewrite (nh_hash _ _ _ HG Hnnz Hnlt), Hnkey; reflexivity).
    assert (Hnc : forall b', ~ In n (cs b')) by (intros b' Hc; apply Hnk; eapply known_chain; eassumption).
    assert (Hnc0 : ~ In n (0 :: cs b)) by (intros [Hc | Hc]; [apply Hnnz; symmetry; exact Hc | exact (Hnc _ Hc)]).
    assert (Hnsv : n <> sv) by (intros ->; contradiction).
    assert (Hcsb : 0 :: cs' b = newc) by (subst cs'; rewrite setf_same; symmetry; exact E').
    assert (Hcso : forall b', b' <> b -> cs' b' = cs b') by (intros b' Hne; subst cs'; apply setf_other; exact Hne).
    assert (Hin : forall b' x, In x (cs' b') <-> (b' = b /\ x = n) \/ In x (cs b')).
    { intros b' x. destruct (N.eq_dec b' b) as [->|Hne].
      - subst cs'. rewrite setf_same. subst newc. rewrite (tl_in_ins c1 sv c2 (cs b) n x (eq_sym E)). tauto.
      - rewrite Hcso by exact Hne. split; [auto | intros [[H _] | H]; [contradiction | exact H]]. }
    assert (Ek : nkey m' = nkey m) by apply link_nkey.
    assert (Ev : nval m' = nval m) by apply link_nval.
    assert (Eh : nhash m' = nhash m) by apply link_nhash.
    assert (Em : nmark m' = nmark m) by apply link_nmark.
    assert (Ea : nalloc m' = nalloc m) by apply link_nalloc.
    assert (Hbk : forall x, bk m' x = bk m x) by (apply bk_ext; exact Ek).
    assert (Hkn : forall x, known m' cs' x <-> x = n \/ known m cs x).
    { intros x. unfold known. rewrite Hbk. change (g_retired m') with (g_retired m). rewrite Hin. split.
      - intros [[[_ H] | H] | H]; auto.
      - intros [-> | [H | H]]; auto. }
    assert (Hsvm' : sv <> 0 -> nmark m sv = false) by (intros H; rewrite <- pmark_nz by exact H; exact Hsvm).
    assert (Hnx : forall x, (sv <> 0 -> x <> sv) -> nnext m' x = nnext m x).
    { intros x Hx. subst m'. rewrite link_nnext, sp_nnext. destruct (N.eqb_spec sv 0) as [_|Hz]; [reflexivity|].
      cbn [negb andb]. destruct (N.eqb_spec x sv) as [Hc|_]; [exfalso; exact (Hx Hz Hc) | reflexivity]. }
    assert (Hpsame : pnext m' b sv = n) by (subst m'; rewrite link_pnext; apply sp_pnext_same).
    assert (Hpo : forall x, x <> sv -> pnext m' b x = pnext m b x).
    { intros x Hx. subst m'. rewrite link_pnext. apply sp_pnext_other. left. exact Hx. }
    assert (Hc2 : forall y, In y c2 -> y <> 0 /\ le2 m y n = false).
    { intros y Hy. destruct (HR2 _ Hy) as [Hynz _]. split; [exact Hynz|].
      destruct c2 as [|y0 r]; [destruct Hy|]. cbn [hd] in Hn'. subst y0.
      destruct (HR2 cur (or_introl eq_refl)) as [Hcnz _]. destruct (Hhi Hcnz) as [Hge Hkne].
      assert (Hncur : le2 m n cur = true) by (unfold le2; rewrite Hnhn, Hnkey; exact Hge).
      destruct (le2 m y n) eqn:Hyn; [exfalso | reflexivity].
      destruct Hy as [<- | Hy].
      - apply Hkne. rewrite <- Hnkey. exact (gef_antisym m cur n Hyn Hncur).
      - apply SS_cons_inv in HS2. destruct HS2 as [_ HS2]. destruct (HS2 _ Hy) as [_ [H0 | Hlt]]; [contradiction|].
        unfold le2 in Hlt. rewrite (gef_trans m _ _ n cur Hyn Hncur) in Hlt. discriminate. }
    assert (Hupn : forall x, In x c1 \/ x = sv -> x <> 0 -> le2 m n x = false).
    { intros x Hx Hxnz. unfold le2. rewrite Hnhn, Hnkey. apply (Hpre Hsv); [|exact Hxnz].
      rewrite E, (upto_app_notin _ _ _ Hsv1). cbn [upto]. rewrite N.eqb_refl. apply in_or_app.
      destruct Hx as [Hx | ->]; [left; exact Hx | right; left; reflexivity]. }
    assert (HRe : forall x y, R m x y -> R m' x y) by (intros x y; apply R_ext; assumption).
    split; [|split; [|exact Hin]].
    - constructor.
      + intros b'. destruct (N.eq_dec b' b) as [->|Hne].
        * rewrite Hcsb. subst newc. apply linksto_app. cbn [hd HmlInv.linksto]. split; [|split; [|split]].
          -- eapply linksto_ext; [|exact HL1]. intros x Hx. apply Hpo. intros ->. contradiction.
          -- exact Hpsame.
          -- rewrite (pnext_nz m' b n Hnnz), Hnx by (intros _; exact Hnsv). congruence.
          -- eapply linksto_ext; [|exact HL2]. intros x Hx. apply Hpo. intros ->. contradiction.
        * rewrite Hcso by exact Hne. eapply linksto_ext; [|exact (G_links _ _ HG b')]. intros x Hx.
          subst m'. rewrite link_pnext. eapply sp_other_bucket; eassumption.
      + intros b'. destruct (N.eq_dec b' b) as [->|Hne].
        * rewrite Hcsb. subst newc. eapply SS_ext; [intros x y _ _; apply HRe|].
          assert (Hsvn' : R m sv n).
          { split; [exact Hnnz|]. destruct (N.eq_dec sv 0) as [H0 | H0]; [left; exact H0 | right; apply Hupn; auto]. }
          apply SS_app; [exact HS1 | |].
          -- apply SS_cons; [apply SS_cons; [exact HS2|]|].
             ++ intros y Hy. destruct (Hc2 _ Hy) as [H1 H2]. split; [exact H1 | right; exact H2].
             ++ intros y [<- | Hy]; [exact Hsvn' | apply HR2; exact Hy].
          -- intros x y Hx [<- | [<- | Hy]]; [apply HR1; exact Hx | | apply HR3; assumption].
             split; [exact Hnnz|]. destruct (N.eq_dec x 0) as [H0 | H0]; [left; exact H0 | right; apply Hupn; auto].
        * rewrite Hcso by exact Hne. eapply SS_ext; [intros x y _ _; apply HRe | exact (G_sorted _ _ HG b')].
      + intros b' x Hx. rewrite Hbk. apply Hin in Hx. destruct Hx as [[-> ->] | Hx]; [exact Hbkn | exact (G_bk _ _ HG _ _ Hx)].
      + exact (G_ret_nodup _ _ HG).
      + exact (G_ret_nz _ _ HG).
      + intros b' x Hx Hr. apply Hin in Hx. destruct Hx as [[_ ->] | Hx].
        * apply Hnk. right. exact Hr.
        * exact (G_disj _ _ HG _ _ Hx Hr).
      + intros x Hx. apply Hkn in Hx. rewrite Ea. destruct Hx as [-> | Hx]; [exact Hnlt | apply (G_bound _ _ HG); exact Hx].
      + rewrite Ea. exact (G_pos _ _ HG).
      + intros x Hx. rewrite Em in Hx. apply Hkn. right. apply (G_marked_known _ _ HG). exact Hx.
      + intros x Hx. rewrite Em. apply (G_ret_marked _ _ HG). exact Hx.
      + intros x Hx. rewrite !Hbk. destruct (N.eq_dec sv 0) as [Hsz | Hsz]; [|destruct (N.eq_dec x sv) as [->|Hxsv]].
        * (* prev is the bucket head: no next field changed *)
          rewrite Hnx by (intros H; contradiction). apply Hkn in Hx. destruct Hx as [-> | Hx].
          -- rewrite Hnn. destruct (N.eq_dec cur 0) as [Hz|Hz]; [left; exact Hz | right].
             assert (Hcin : In cur (cs b)) by (rewrite <- Hsvn; apply chain_next_in; [exact HG | exact Hsv | congruence]).
             split; [apply Hkn; right; eapply known_chain; eassumption|]. rewrite Hbkn. exact (G_bk _ _ HG _ _ Hcin).
          -- destruct (G_closed _ _ HG x Hx) as [H | [H1 H2]]; [left; exact H | right]. split; [apply Hkn; right; exact H1 | exact H2].
        * right. replace (nnext m' sv) with n by (rewrite <- (pnext_nz m' b sv Hsz); symmetry; exact Hpsame).
          split; [apply Hkn; left; reflexivity|]. rewrite Hbkn. symmetry. destruct Hsv as [Hsv | Hsv]; [congruence | exact (G_bk _ _ HG _ _ Hsv)].
        * rewrite Hnx by (intros _; exact Hxsv). apply Hkn in Hx. destruct Hx as [-> | Hx].
          -- rewrite Hnn. destruct (N.eq_dec cur 0) as [Hz|Hz]; [left; exact Hz | right].
             assert (Hcin : In cur (cs b)) by (rewrite <- Hsvn; apply chain_next_in; [exact HG | exact Hsv | congruence]).
             split; [apply Hkn; right; eapply known_chain; eassumption|]. rewrite Hbkn. exact (G_bk _ _ HG _ _ Hcin).
          -- destruct (G_closed _ _ HG x Hx) as [H | [H1 H2]]; [left; exact H | right]. split; [apply Hkn; right; exact H1 | exact H2].
      + intros x H1 H2. rewrite Eh, Ek. rewrite Ea in H2. apply (G_hash _ _ HG); assumption.
      + change (keys (g_abs m')) with (nkey m n :: keys (g_abs m)). constructor; [|exact (G_abs_nodup _ _ HG)].
        rewrite Hnkey. apply lookup_none. exact Habsent.
      + intros k0 v0. change (g_abs m') with ((nkey m n, nval m n) :: g_abs m). cbn [In]. rewrite (G_abs _ _ HG), Em, Ek, Ev. split.
        * intros [Hp | (x & H1 & H2 & H3 & H4)].
          -- injection Hp as <- <-. exists n. split; [apply Hin; left; split; [rewrite Hnkey; exact Hb | reflexivity]|].
             split; [|auto]. destruct (nmark m n) eqn:Hm; [|reflexivity]. exfalso. apply Hnk. apply (G_marked_known _ _ HG). exact Hm.
          -- exists x. split; [apply Hin; right; exact H1 | auto].
        * intros (x & H1 & H2 & H3 & H4). apply Hin in H1. destruct H1 as [[_ ->] | H1].
          -- left. congruence.
          -- right. exists x. auto.
      + change (g_abs m') with ((nkey m n, nval m n) :: g_abs m). change (g_lin m') with (g_lin m ++ [LIns t (nkey m n) (nval m n) n]).
        rewrite apply_lin_snoc. cbn [apply_lev]. f_equal. exact (G_fold _ _ HG).
      + intros t0 k0 v0 n0 Hi. change (g_lin m') with (g_lin m ++ [LIns t (nkey m n) (nval m n) n]) in Hi.
        apply in_app_or in Hi. rewrite Ek, Ev. destruct Hi as [Hi | [Hi | []]].
        * destruct (G_lins _ _ HG _ _ _ _ Hi) as (H1 & H2 & H3). split; [apply Hkn; right; exact H1 | auto].
        * injection Hi as <- <- <- <-. split; [apply Hkn; left; reflexivity | auto].
      + intros t0 k0 n0 i Hi. change (g_lin m') with (g_lin m ++ [LIns t (nkey m n) (nval m n) n]) in Hi.
        apply in_app_or in Hi. rewrite Em, Ek. destruct Hi as [Hi | [Hi | []]]; [exact (G_ldel _ _ HG _ _ _ _ Hi) | discriminate Hi].
      + change (g_lin m') with (g_lin m ++ [LIns t (nkey m n) (nval m n) n]). rewrite ins_nodes_app. cbn [ins_nodes flat_map app].
        apply NoDup_snoc; [exact (G_lins_nodup _ _ HG)|]. intros Hc. apply ins_nodes_in in Hc. destruct Hc as (t0 & k0 & v0 & Hc).
        apply Hnk. exact (proj1 (G_lins _ _ HG _ _ _ _ Hc)).
      + change (g_lin m') with (g_lin m ++ [LIns t (nkey m n) (nval m n) n]). rewrite del_nodes_app. cbn [del_nodes flat_map app].
        rewrite app_nil_r. exact (G_ldel_nodup _ _ HG).
      + intros x Hx. rewrite Em in Hx. change (g_lin m') with (g_lin m ++ [LIns t (nkey m n) (nval m n) n]). rewrite del_nodes_app.
        apply in_or_app. left. apply (G_marked_del _ _ HG). exact Hx.
      + intros x Hx. change (g_lin m') with (g_lin m ++ [LIns t (nkey m n) (nval m n) n]). rewrite ins_nodes_app. apply in_or_app.
        apply Hkn in Hx. destruct Hx as [-> | Hx]; [right; left; reflexivity | left; apply (G_known_ins _ _ HG); exact Hx].
    - constructor.
      + intros x Hx. apply Hkn. right. exact Hx.
      + intros x _. rewrite Ek, Ev, Eh. auto.
      + intros x Hx. rewrite Em. split; [exact Hx|]. apply Hnx. intros Hz ->. rewrite (Hsvm' Hz) in Hx. discriminate.
      + rewrite Ea. lia.
      + intros n0 _ Hn0 Hne. split.
        * intros Hc. apply Hkn in Hc. destruct Hc as [Hc | Hc]; contradiction.
        * apply Hnx. intros Hz ->. apply Hn0. destruct Hsv as [Hsv | Hsv]; [congruence | eapply known_chain; eassumption].
      + intros b' h k sv0 Href Hp. destruct (N.eq_dec b' b) as [->|Hne].
        * rewrite Hcsb. apply (pre_ext m m'); [exact Ek | exact Eh|]. intros Hin0 x Hx Hxnz.
          assert (Hsv0n : sv0 <> n).
          { intros ->. destruct Href as [H | [H _]]; [contradiction | contradiction]. }
          assert (Hsv0c : In sv0 (c1 ++ sv :: c2)).
          { subst newc. rewrite in_app_iff in *. cbn [In] in *. destruct Hin0 as [H | [H | [H | H]]]; auto.
            exfalso. apply Hsv0n. symmetry. exact H. }
          subst newc. destruct (upto_insert _ _ _ _ _ _ Hsv0n Hsv0c Hx) as [Hold | (-> & a & r & Ec2 & Ha)].
          -- rewrite <- E in Hold, Hsv0c. exact (Hp Hsv0c x Hold Hxnz).
          -- rewrite <- E in Ha, Hsv0c. subst c2. cbn [hd] in Hn'. subst a.
             destruct (HR2 cur (or_introl eq_refl)) as [Hcnz _]. destruct (Hhi Hcnz) as [Hge _].
             assert (Hncur : le2 m n cur = true) by (unfold le2; rewrite Hnhn, Hnkey; exact Hge).
             pose proof (Hp Hsv0c cur Ha Hcnz) as Hf.
             destruct (gef m h k n) eqn:Hg; [|reflexivity]. rewrite (gef_trans m h k n cur Hg Hncur) in Hf. discriminate.
        * rewrite Hcso by exact Hne. apply (pre_ext m m'); assumption.
  Qed.

  (** the successful mark CAS of erase(key) / erase(iterator) (linearization point of a successful erase) *)
  Lemma mark_step m cs t cur it : G m cs -> In cur (cs (bk m cur)) -> nmark m cur = false ->
    G (m_mark m t cur it) cs /\ mono m cs (m_mark m t cur it) cs 0 /\
    lookup (nkey m cur) (g_abs m) = Some (nval m cur).
  Proof.
    intros HG Hcur Hcm. set (m' := m_mark m t cur it).
    assert (Hcnz : cur <> 0) by (eapply chain_nz; eassumption).
    assert (Hmk : forall x, nmark m' x = true <-> x = cur \/ nmark m x = true).
    { intros x. subst m'; cbn [m_mark nmark]. unfold setf. destruct (N.eqb_spec x cur); [tauto|]. split; [auto|]. intros [H | H]; [contradiction | exact H]. }
    assert (Hmf : forall x, nmark m' x = false <-> x <> cur /\ nmark m x = false).
    { intros x. subst m'; cbn [m_mark nmark]. unfold setf. destruct (N.eqb_spec x cur) as [->|Hne]; [split; [discriminate | intros [H _]; contradiction] | tauto]. }
    assert (Hkn : forall x, known m' cs x <-> known m cs x) by (intros x; reflexivity).
    split; [|split].
    - constructor.
      + exact (G_links _ _ HG).
      + exact (G_sorted _ _ HG).
      + exact (G_bk _ _ HG).
      + exact (G_ret_nodup _ _ HG).
      + exact (G_ret_nz _ _ HG).
      + exact (G_disj _ _ HG).
      + exact (G_bound _ _ HG).
      + exact (G_pos _ _ HG).
      + intros x Hx. apply Hmk in Hx. destruct Hx as [-> | Hx]; [left; exact Hcur | apply (G_marked_known _ _ HG); exact Hx].
      + intros x Hx. apply Hmk. right. apply (G_ret_marked _ _ HG). exact Hx.
      + exact (G_closed _ _ HG).
      + exact (G_hash _ _ HG).
      + change (g_abs m') with (remk (nkey m cur) (g_abs m)). rewrite keys_remk. apply NoDup_filter. exact (G_abs_nodup _ _ HG).
      + intros k0 v0. change (g_abs m') with (remk (nkey m cur) (g_abs m)). rewrite in_remk, (G_abs _ _ HG). cbn [fst].
        change (nkey m') with (nkey m). change (nval m') with (nval m). split.
        * intros [(x & H1 & H2 & H3 & H4) Hne]. exists x. split; [exact H1|]. split; [|auto].
          apply Hmf. split; [congruence | exact H2].
        * intros (x & H1 & H2 & H3 & H4). apply Hmf in H2. destruct H2 as [Hxc H2]. split; [exists x; auto|].
          intros ->. apply Hxc. apply (chain_key_inj m cs (bucket_of (nkey m cur))); [exact HG | exact H1 | exact Hcur | exact H3].
      + change (g_abs m') with (remk (nkey m cur) (g_abs m)). change (g_lin m') with (g_lin m ++ [LDel t (nkey m cur) cur it]).
        rewrite apply_lin_snoc. cbn [apply_lev]. f_equal. exact (G_fold _ _ HG).
      + intros t0 k0 v0 n0 Hi. change (g_lin m') with (g_lin m ++ [LDel t (nkey m cur) cur it]) in Hi.
        apply in_app_or in Hi. destruct Hi as [Hi | [Hi | []]]; [exact (G_lins _ _ HG _ _ _ _ Hi) | discriminate Hi].
      + intros t0 k0 n0 i Hi. change (g_lin m') with (g_lin m ++ [LDel t (nkey m cur) cur it]) in Hi.
        apply in_app_or in Hi. destruct Hi as [Hi | [Hi | []]].
        * destruct (G_ldel _ _ HG _ _ _ _ Hi) as [H1 H2]. split; [apply Hmk; right; exact H1 | exact H2].
        * injection Hi as <- <- <- <-. split; [apply Hmk; left; reflexivity | reflexivity].
      + change (g_lin m') with (g_lin m ++ [LDel t (nkey m cur) cur it]). rewrite ins_nodes_app. cbn [ins_nodes flat_map app].
        rewrite app_nil_r. exact (G_lins_nodup _ _ HG).
      + change (g_lin m') with (g_lin m ++ [LDel t (nkey m cur) cur it]). rewrite del_nodes_app. cbn [del_nodes flat_map app].
        apply NoDup_snoc; [exact (G_ldel_nodup _ _ HG)|]. intros Hc. apply del_nodes_in in Hc. destruct Hc as (t0 & k0 & i0 & Hc).
        rewrite (proj1 (G_ldel _ _ HG _ _ _ _ Hc)) in Hcm. discriminate.
      + intros x Hx. change (g_lin m') with (g_lin m ++ [LDel t (nkey m cur) cur it]). rewrite del_nodes_app. apply in_or_app.
        apply Hmk in Hx. destruct Hx as [-> | Hx]; [right; left; reflexivity | left; apply (G_marked_del _ _ HG); exact Hx].
      + intros x Hx. change (g_lin m') with (g_lin m ++ [LDel t (nkey m cur) cur it]). rewrite ins_nodes_app. apply in_or_app.
        left. apply (G_known_ins _ _ HG). exact Hx.
    - constructor.
      + intros x Hx. exact Hx.
      + intros x _. auto.
      + intros x Hx. split; [apply Hmk; right; exact Hx | reflexivity].
      + change (nalloc m') with (nalloc m). lia.
      + intros n0 _ Hn0 _. split; [exact Hn0 | reflexivity].
      + intros b h k sv _ Hp. exact Hp.
    - eapply abs_lookup; eassumption.
  Qed.

  (** a successful unlink CAS (by the erasing thread, by a helping find or by erase(iterator)) followed by reclaim *)
  Lemma unlink_step m cs b sv cur nx : G m cs -> In sv (0 :: cs b) -> pmark m sv = false -> pnext m b sv = cur ->
    cur <> 0 -> nmark m cur = true -> nnext m cur = nx ->
    exists cs', G (m_unlink m b sv cur nx) cs' /\ mono m cs (m_unlink m b sv cur nx) cs' 0 /\
      In cur (cs b) /\ ~ In cur (cs' b) /\ ~ In cur (g_retired m) /\
      (forall b' x, In x (cs b') <-> (b' = b /\ x = cur) \/ In x (cs' b')) /\
      pnext (m_unlink m b sv cur nx) b sv = nx.
  Proof.
    intros HG Hsv Hsvm Hsvn Hcnz Hcm Hcn. set (m' := m_unlink m b sv cur nx).
    destruct (chain_split _ _ _ _ HG Hsv) as (c1 & c2 & E & Hn' & HL1 & HL2 & HS1 & HS2 & HR1 & HR2 & HR3 & Hsv1 & Hsv2).
    rewrite Hsvn in Hn'. destruct c2 as [|y c3]; cbn [hd] in Hn'; [contradiction|]. subst y.
    cbn [HmlInv.linksto] in HL2. destruct HL2 as [HL2 HL3]. rewrite (pnext_nz m b cur Hcnz), Hcn in HL2.
    pose proof (G_nodup _ _ b HG) as HN. rewrite E in HN.
    assert (Hc1 : ~ In cur c1 /\ cur <> sv /\ ~ In cur c3).
    { change (c1 ++ sv :: cur :: c3) with (c1 ++ [sv] ++ cur :: c3) in HN. rewrite app_assoc in HN.
      apply NoDup_remove_2 in HN. rewrite !in_app_iff in HN. cbn [In] in HN. repeat split; intros Hc; apply HN; auto. }
    destruct Hc1 as (Hcc1 & Hcsv & Hcc3).
    assert (Hcin : In cur (cs b)).
    { assert (H : In cur (0 :: cs b)) by (rewrite E; apply in_or_app; right; right; left; reflexivity).
      destruct H as [H | H]; [exfalso; apply Hcnz; symmetry; exact H | exact H]. }
    assert (Hcr : ~ In cur (g_retired m)) by (intros Hc; exact (G_disj _ _ HG _ _ Hcin Hc)).
    set (newc := c1 ++ sv :: c3).
    assert (E' : newc = 0 :: tl newc) by (symmetry in E; exact (hd_zero_cons _ _ _ _ c3 E)).
    set (cs' := setf cs b (tl newc)). exists cs'.
    assert (Hcsb : 0 :: cs' b = newc) by (subst cs'; rewrite setf_same; symmetry; exact E').
    assert (Hcso : forall b', b' <> b -> cs' b' = cs b') by (intros b' Hne; subst cs'; apply setf_other; exact Hne).
    assert (Hin : forall b' x, In x (cs b') <-> (b' = b /\ x = cur) \/ In x (cs' b')).
    { intros b' x. destruct (N.eq_dec b' b) as [->|Hne].
      - subst cs'. rewrite setf_same. subst newc. rewrite (tl_in_del c1 sv cur c3 (cs b) x (eq_sym E)). tauto.
      - rewrite Hcso by exact Hne. split; [auto | intros [[H _] | H]; [contradiction | exact H]]. }
    assert (Hnin : ~ In cur (cs' b)).
    { intros Hc. assert (H : In cur newc) by (rewrite <- Hcsb; right; exact Hc). subst newc.
      apply in_app_or in H. destruct H as [H | [H | H]]; [contradiction | apply Hcsv; symmetry; exact H | contradiction]. }
    assert (Ek : nkey m' = nkey m) by apply unlink_nkey.
    assert (Ev : nval m' = nval m) by apply unlink_nval.
    assert (Eh : nhash m' = nhash m) by apply unlink_nhash.
    assert (Em : nmark m' = nmark m) by apply unlink_nmark.
    assert (Ea : nalloc m' = nalloc m) by apply unlink_nalloc.
    assert (Hbk : forall x, bk m' x = bk m x) by (apply bk_ext; exact Ek).
    assert (Hbkc : bk m cur = b) by exact (G_bk _ _ HG _ _ Hcin).
    assert (Hkn : forall x, known m' cs' x <-> known m cs x).
    { intros x. unfold known. rewrite Hbk. change (g_retired m') with (g_retired m ++ [cur]). rewrite (Hin (bk m x) x), in_app_iff. cbn [In].
      split.
      - intros [H | [H | [H | []]]]; auto. subst x. left. left. auto.
      - intros [[[_ H] | H] | H]; auto. }
    assert (Hsvm' : sv <> 0 -> nmark m sv = false) by (intros H; rewrite <- pmark_nz by exact H; exact Hsvm).
    assert (Hnx : forall x, (sv <> 0 -> x <> sv) -> nnext m' x = nnext m x).
    { intros x Hx. subst m'. rewrite unlink_nnext, sp_nnext. destruct (N.eqb_spec sv 0) as [_|Hz]; [reflexivity|].
      cbn [negb andb]. destruct (N.eqb_spec x sv) as [Hc|_]; [exfalso; exact (Hx Hz Hc) | reflexivity]. }
    assert (Hpsame : pnext m' b sv = nx) by (subst m'; rewrite unlink_pnext; apply sp_pnext_same).
    assert (Hpo : forall x, x <> sv -> pnext m' b x = pnext m b x).
    { intros x Hx. subst m'. rewrite unlink_pnext. apply sp_pnext_other. left. exact Hx. }
    assert (HRe : forall x y, R m x y -> R m' x y) by (intros x y; apply R_ext; assumption).
    split; [|split; [|split; [exact Hcin | split; [exact Hnin | split; [exact Hcr | split; [exact Hin | exact Hpsame]]]]]].
    - constructor.
      + intros b'. destruct (N.eq_dec b' b) as [->|Hne].
        * rewrite Hcsb. subst newc. apply linksto_app. cbn [hd HmlInv.linksto]. split; [|split].
          -- eapply linksto_ext; [|exact HL1]. intros x Hx. apply Hpo. intros ->. contradiction.
          -- rewrite Hpsame. exact HL2.
          -- eapply linksto_ext; [|exact HL3]. intros x Hx. apply Hpo. intros ->. apply Hsv2. right. exact Hx.
        * rewrite Hcso by exact Hne. eapply linksto_ext; [|exact (G_links _ _ HG b')]. intros x Hx.
          subst m'. rewrite unlink_pnext. eapply sp_other_bucket; eassumption.
      + intros b'. destruct (N.eq_dec b' b) as [->|Hne].
        * rewrite Hcsb. subst newc. eapply SS_ext; [intros x y _ _; apply HRe|].
          apply SS_cons_inv in HS2. destruct HS2 as [HS2 _].
          apply SS_app; [exact HS1 | |].
          -- apply SS_cons; [exact HS2|]. intros y Hy. apply HR2. right. exact Hy.
          -- intros x y Hx [<- | Hy]; [apply HR1; exact Hx | apply HR3; [exact Hx | right; exact Hy]].
        * rewrite Hcso by exact Hne. eapply SS_ext; [intros x y _ _; apply HRe | exact (G_sorted _ _ HG b')].
      + intros b' x Hx. rewrite Hbk. apply (G_bk _ _ HG). apply Hin. right. exact Hx.
      + change (g_retired m') with (g_retired m ++ [cur]). apply NoDup_snoc; [exact (G_ret_nodup _ _ HG) | exact Hcr].
      + change (g_retired m') with (g_retired m ++ [cur]). intros Hc. apply in_app_or in Hc. destruct Hc as [Hc | [Hc | []]].
        * exact (G_ret_nz _ _ HG Hc).
        * apply Hcnz. exact Hc.
      + intros b' x Hx Hr. change (g_retired m') with (g_retired m ++ [cur]) in Hr. apply in_app_or in Hr.
        assert (Hx' : In x (cs b')) by (apply Hin; right; exact Hx).
        destruct Hr as [Hr | [<- | []]]; [exact (G_disj _ _ HG _ _ Hx' Hr)|].
        assert (b' = b) by (rewrite <- (G_bk _ _ HG _ _ Hx'); exact Hbkc). subst b'. contradiction.
      + intros x Hx. rewrite Ea. apply (G_bound _ _ HG). apply Hkn. exact Hx.
      + rewrite Ea. exact (G_pos _ _ HG).
      + intros x Hx. rewrite Em in Hx. apply Hkn. apply (G_marked_known _ _ HG). exact Hx.
      + intros x Hx. change (g_retired m') with (g_retired m ++ [cur]) in Hx. rewrite Em. apply in_app_or in Hx.
        destruct Hx as [Hx | [<- | []]]; [apply (G_ret_marked _ _ HG); exact Hx | exact Hcm].
      + intros x Hx. apply Hkn in Hx. rewrite !Hbk. destruct (N.eq_dec sv 0) as [Hsz | Hsz]; [|destruct (N.eq_dec x sv) as [->|Hxsv]].
        * rewrite Hnx by (intros H; contradiction).
          destruct (G_closed _ _ HG x Hx) as [H | [H1 H2]]; [left; exact H | right; split; [apply Hkn; exact H1 | exact H2]].
        * replace (nnext m' sv) with nx by (rewrite <- (pnext_nz m' b sv Hsz); symmetry; exact Hpsame). rewrite <- Hcn.
          destruct (G_closed _ _ HG cur (known_chain _ _ _ _ HG Hcin)) as [H | [H1 H2]]; [left; exact H | right].
          split; [apply Hkn; exact H1|]. rewrite H2, Hbkc. symmetry. destruct Hsv as [Hsv | Hsv]; [congruence | exact (G_bk _ _ HG _ _ Hsv)].
        * rewrite Hnx by (intros _; exact Hxsv).
          destruct (G_closed _ _ HG x Hx) as [H | [H1 H2]]; [left; exact H | right; split; [apply Hkn; exact H1 | exact H2]].
      + intros x H1 H2. rewrite Eh, Ek. rewrite Ea in H2. apply (G_hash _ _ HG); assumption.
      + exact (G_abs_nodup _ _ HG).
      + intros k0 v0. change (g_abs m') with (g_abs m). rewrite (G_abs _ _ HG), Em, Ek, Ev. split; intros (x & H1 & H2 & H3 & H4); exists x.
        * split; [|auto]. apply Hin in H1. destruct H1 as [[_ ->] | H1]; [congruence | exact H1].
        * split; [apply Hin; right; exact H1 | auto].
      + exact (G_fold _ _ HG).
      + intros t0 k0 v0 n0 Hi. change (g_lin m') with (g_lin m) in Hi. rewrite Ek, Ev. destruct (G_lins _ _ HG _ _ _ _ Hi) as (H1 & H2).
        split; [apply Hkn; exact H1 | exact H2].
      + intros t0 k0 n0 i Hi. change (g_lin m') with (g_lin m) in Hi. rewrite Ek, Em. exact (G_ldel _ _ HG _ _ _ _ Hi).
      + exact (G_lins_nodup _ _ HG).
      + exact (G_ldel_nodup _ _ HG).
      + intros x Hx. rewrite Em in Hx. exact (G_marked_del _ _ HG x Hx).
      + intros x Hx. apply Hkn in Hx. exact (G_known_ins _ _ HG x Hx).
    - constructor.
      + intros x Hx. apply Hkn. exact Hx.
      + intros x _. rewrite Ek, Ev, Eh. auto.
      + intros x Hx. rewrite Em. split; [exact Hx|]. apply Hnx. intros Hz ->. rewrite (Hsvm' Hz) in Hx. discriminate.
      + rewrite Ea. lia.
      + intros n0 _ Hn0 _. split; [rewrite Hkn; exact Hn0|]. apply Hnx. intros Hz ->. apply Hn0.
        destruct Hsv as [Hsv | Hsv]; [congruence | eapply known_chain; eassumption].
      + intros b' h k sv0 _ Hp. destruct (N.eq_dec b' b) as [->|Hne].
        * rewrite Hcsb. apply (pre_ext m m'); [exact Ek | exact Eh|]. intros Hin0 x Hx Hxnz.
          assert (Hsv0c : sv0 <> cur).
          { intros ->. subst newc. apply in_app_or in Hin0. destruct Hin0 as [H | [H | H]]; [contradiction | apply Hcsv; symmetry; exact H | contradiction]. }
          subst newc. apply (upto_remove c1 sv cur c3 sv0 x Hsv0c) in Hx. rewrite <- E in Hx. apply Hp; [|exact Hx | exact Hxnz].
          rewrite E. rewrite in_app_iff in *. cbn [In] in *. destruct Hin0 as [H | [H | H]]; auto.
        * rewrite Hcso by exact Hne. apply (pre_ext m m'); assumption.
  Qed.

  (** * Assembling the invariant *)

  Lemma pre_zero m c h k : pre m (0 :: c) h k 0.
  Proof. intros _ x Hx Hnz. cbn [upto] in Hx. rewrite N.eqb_refl in Hx. destruct Hx as [<- | []]. contradiction. Qed.
  Lemma okprev_zero m cs b h k : okprev m cs b h k 0.
  Proof. split; [left; reflexivity | apply pre_zero]. Qed.

  (** the walk of [find] passes a node that is not greater or equal *)
  Lemma pre_advance m cs b h k sv cur : G m cs -> In sv (0 :: cs b) -> pnext m b sv = cur -> cur <> 0 ->
    pre m (0 :: cs b) h k sv -> gef m h k cur = false -> pre m (0 :: cs b) h k cur.
  Proof.
    intros HG Hsv Hn Hcnz Hpre Hge _ x Hx Hxnz.
    destruct (chain_split _ _ _ _ HG Hsv) as (c1 & c2 & E & Hn' & _ & _ & _ & _ & _ & _ & _ & Hsv1 & Hsv2).
    rewrite Hn in Hn'. destruct c2 as [|y r]; cbn [hd] in Hn'; [contradiction|]. subst y.
    pose proof (G_nodup _ _ b HG) as HN. rewrite E in HN.
    assert (Hc1 : ~ In cur c1 /\ cur <> sv).
    { change (c1 ++ sv :: cur :: r) with (c1 ++ [sv] ++ cur :: r) in HN. rewrite app_assoc in HN.
      apply NoDup_remove_2 in HN. rewrite !in_app_iff in HN. cbn [In] in HN. split; intros Hc; apply HN; auto. }
    destruct Hc1 as [Hc1 Hcsv].
    specialize (Hpre Hsv). rewrite E, (upto_app_notin _ _ _ Hsv1) in Hpre. cbn [upto] in Hpre. rewrite N.eqb_refl in Hpre.
    rewrite E, (upto_app_notin _ _ _ Hc1) in Hx. cbn [upto] in Hx.
    destruct (N.eqb_spec sv cur) as [Hc|_]; [exfalso; apply Hcsv; symmetry; exact Hc|]. rewrite N.eqb_refl in Hx.
    apply in_app_or in Hx. destruct Hx as [Hx | [Hx | [Hx | []]]].
    - apply Hpre; [apply in_or_app; left; exact Hx | exact Hxnz].
    - apply Hpre; [apply in_or_app; right; left; exact Hx | exact Hxnz].
    - subst x. exact Hge.
  Qed.

  (** the prefix up to [sv] is below the successor of [sv] (sortedness) *)
  Lemma pre_next m cs b sv cur : G m cs -> In sv (0 :: cs b) -> pnext m b sv = cur -> cur <> 0 ->
    pre m (0 :: cs b) (nh m cur) (nkey m cur) sv.
  Proof.
    intros HG Hsv Hn Hcnz _ x Hx Hxnz.
    destruct (chain_split _ _ _ _ HG Hsv) as (c1 & c2 & E & Hn' & _ & _ & _ & _ & _ & HR2 & HR3 & Hsv1 & _).
    rewrite Hn in Hn'. destruct c2 as [|y r]; cbn [hd] in Hn'; [contradiction|]. subst y.
    rewrite E, (upto_app_notin _ _ _ Hsv1) in Hx. cbn [upto] in Hx. rewrite N.eqb_refl in Hx.
    apply in_app_or in Hx. destruct Hx as [Hx | [<- | []]].
    - destruct (HR3 x cur Hx (or_introl eq_refl)) as [_ [H0 | H]]; [contradiction | exact H].
    - destruct (HR2 cur (or_introl eq_refl)) as [_ [H0 | H]]; [contradiction | exact H].
  Qed.

  (** an iterator lands on the successor [cur] of [sv] (bucket b) *)
  Lemma IT0_land m cs b sv cur : G m cs -> In sv (0 :: cs b) -> pnext m b sv = cur -> IT0 m cs b sv cur.
  Proof.
    intros HG Hsv Hn. split; [apply okref_chain; assumption|]. intros Hcnz.
    split; [eapply pre_next; eassumption|]. apply oknode_chain; [exact HG|]. rewrite <- Hn. apply chain_next_in; [exact HG | exact Hsv | congruence].
  Qed.
  Lemma IT0_end m cs b : IT0 m cs b 0 0.
  Proof. split; [left; reflexivity | intros H; contradiction]. Qed.

  Lemma alloc_fresh m cs k v : G m cs ->
    fresh (m_alloc m k v) cs k (nalloc m) /\ nval (m_alloc m k v) (nalloc m) = v /\ nh (m_alloc m k v) (nalloc m) = hf k.
  Proof.
    intros HG. destruct (alloc_step m cs k v HG) as [HG' _].
    split; [|split].
    - split; [pose proof (G_pos _ _ HG); lia|]. split; [cbn [HmmDefs.m_alloc nalloc]; lia|]. split; [|cbn [HmmDefs.m_alloc nkey]; apply setf_same].
      intros Hc. apply (G_known_ins _ _ HG') in Hc. change (g_lin (m_alloc m k v)) with (g_lin m) in Hc.
      apply ins_nodes_in in Hc. destruct Hc as (t0 & k0 & v0 & Hc). pose proof (G_bound _ _ HG _ (proj1 (G_lins _ _ HG _ _ _ _ Hc))). lia.
    - cbn [HmmDefs.m_alloc nval]. apply setf_same.
    - unfold HmmDefs.nh. cbn [HmmDefs.m_alloc nhash nkey]. rewrite !setf_same. destruct memo; reflexivity.
  Qed.

  Lemma Tw_fresh m cs w ib isv icur p n : Tw m cs w ib isv icur p -> fresh_of p = Some n -> exists key, fresh m cs key n.
  Proof.
    assert (Hk : forall c b h key, fcom m cs w ib icur c b h key -> fresh_of_k c = Some n -> exists key, fresh m cs key n).
    { intros c b h key (_ & _ & Hc) E. destruct c as [n0 v|n0 v| | | | | |o|o]; cbn [fresh_of_k cont_ok] in *; try discriminate E.
      - injection E as <-. exists key. exact (proj1 Hc).
      - destruct (N.eqb_spec n0 0) as [_|Hnz]; [discriminate|]. injection E as <-. destruct Hc as [Hc | [Hc _]]; [contradiction|].
        exists key. exact Hc. }
    destruct p; cbn [Tw fresh_of]; intros H E; try discriminate E; try (eapply Hk; [exact (proj1 H) | exact E]);
      injection E as <-; exists key; exact (proj1 (proj1 H)).
  Qed.

  Definition oth (st st' : state) (t : nat) : Prop :=
    forall t', t' <> t -> its st' t' = its st t' /\ g_lp st' t' = g_lp st t'.

  Lemma sp_zero st cs : (forall t', T st cs t') -> forall t' n, fresh_of (th st t') = Some n -> n <> 0.
  Proof. intros HT t' n E. destruct (Tw_fresh _ _ _ _ _ _ _ _ (proj1 (HT t')) E) as [key (H & _)]. exact H. Qed.

  Lemma sp_own st t n : U (th st) -> fresh_of (th st t) = Some n ->
    forall t' n', t' <> t -> fresh_of (th st t') = Some n' -> n' <> n.
  Proof. intros HU E t' n' Hne E' ->. exact (HU t' t n Hne E' E). Qed.

  Lemma Inv_intro st cs st' cs' sp t p :
    G (sm st) cs -> (forall t', T st cs t') ->
    G (sm st') cs' -> mono (sm st) cs (sm st') cs' sp ->
    th st' = upd (th st) t p -> oth st st' t ->
    (forall t' n, t' <> t -> fresh_of (th st t') = Some n -> n <> sp) ->
    T st' cs' t -> U (upd (th st) t p) -> Inv st'.
  Proof.
    intros HG HT HG' HM Eth Ho Hsp Ht HU'. exists cs'. split; [exact HG'|]. split; [|rewrite Eth; exact HU'].
    intros t'. destruct (Nat.eq_dec t' t) as [->|Hne]; [exact Ht|].
    destruct (Ho t' Hne) as [E1 E2]. destruct (HT t') as [H1 H2]. unfold T. rewrite Eth, upd_other, E1, E2 by exact Hne.
    split.
    - eapply Tw_stable; [exact HG | exact HM | intros n Hn; eapply Hsp; eauto | | exact H1].
      intros Hnz. destruct H2 as [_ H2]. destruct (H2 Hnz) as [_ (_ & Hk & _)]. exact Hk.
    - exact (IT0_mono _ _ _ _ _ HG HM _ _ _ H2).
  Qed.

  (** steps that do not change the memory *)
  Lemma step_same st cs st' t p :
    G (sm st) cs -> (forall t', T st cs t') -> U (th st) ->
    sm st' = sm st -> th st' = upd (th st) t p -> oth st st' t ->
    T st' cs t -> (fresh_of p = None \/ fresh_of p = fresh_of (th st t)) -> Inv st'.
  Proof.
    intros HG HT HU Em Eth Ho Ht Hf.
    eapply (Inv_intro st cs st' cs 0 t p); try eassumption.
    - rewrite Em. exact HG.
    - rewrite Em. apply mono_refl.
    - intros t' n _ Hn. eapply sp_zero; eassumption.
    - apply U_upd_same; assumption.
  Qed.

  (** a step whose memory effect is a successful unlink CAS + reclaim; [Tw] of the new program point is
      given for the old memory *)
  Lemma step_unlink st cs st' t p b sv cur nx :
    G (sm st) cs -> (forall t', T st cs t') -> U (th st) ->
    okref (sm st) cs b sv -> pmark (sm st) sv = false -> pnext (sm st) b sv = cur ->
    oknode (sm st) cs b cur -> nmark (sm st) cur = true -> nnext (sm st) cur = nx ->
    sm st' = m_unlink (sm st) b sv cur nx -> th st' = upd (th st) t p -> oth st st' t ->
    its st' t = its st t ->
    Tw (sm st) cs (g_lp st' t) (it_b (its st t)) (it_sv (its st t)) (it_cur (its st t)) p ->
    (fresh_of p = None \/ fresh_of p = fresh_of (th st t)) -> Inv st'.
  Proof.
    intros HG HT HU Hsvk Hsvm Hsvn Hcur Hcm Hcn Em Eth Ho Eit Hp Hf.
    assert (Hsv : In sv (0 :: cs b)) by (eapply ref_in_chain; eassumption).
    destruct (unlink_step _ cs b sv cur nx HG Hsv Hsvm Hsvn (proj1 Hcur) Hcm Hcn) as (cs' & HG' & HM & _).
    rewrite <- Em in HG', HM.
    eapply (Inv_intro st cs st' cs' 0 t p); try eassumption.
    - intros t' n _ Hn. eapply sp_zero; eassumption.
    - destruct (HT t) as [_ HI]. unfold T. rewrite Eth, upd_same, Eit. split.
      + eapply Tw_stable; [exact HG | exact HM | | | exact Hp].
        * intros n Hn. destruct (Tw_fresh _ _ _ _ _ _ _ _ Hp Hn) as [key (H & _)]. exact H.
        * intros Hnz. destruct HI as [_ H2]. destruct (H2 Hnz) as [_ (_ & Hk & _)]. exact Hk.
      + exact (IT0_mono _ _ _ _ _ HG HM _ _ _ HI).
    - apply U_upd_same; assumption.
  Qed.

  Ltac sprj := cbn [sm th its g_lp g_hist set_pc set_pc_lp set_mem ret_st move_it start_trav end_trav add_hist
                    it_b it_sv it_cur].
  Ltac oth_tac := let t' := fresh "t'" in let Hne := fresh "Hne" in
    intros t' Hne; sprj; rewrite ?upd_other by exact Hne; split; reflexivity.

  Lemma step_go_lp st cs t p w :
    G (sm st) cs -> (forall t', T st cs t') -> U (th st) ->
    Tw (sm st) cs w (it_b (its st t)) (it_sv (its st t)) (it_cur (its st t)) p ->
    (fresh_of p = None \/ fresh_of p = fresh_of (th st t)) -> Inv (set_pc_lp st t p w).
  Proof.
    intros HG HT HU Hp Hf. apply (step_same st cs _ t p); try assumption; try reflexivity; [oth_tac|].
    unfold T. sprj. rewrite !upd_same. split; [exact Hp | exact (proj2 (HT t))].
  Qed.
  Lemma step_go st cs t p :
    G (sm st) cs -> (forall t', T st cs t') -> U (th st) ->
    Tw (sm st) cs (g_lp st t) (it_b (its st t)) (it_sv (its st t)) (it_cur (its st t)) p ->
    (fresh_of p = None \/ fresh_of p = fresh_of (th st t)) -> Inv (set_pc st t p).
  Proof.
    intros HG HT HU Hp Hf. apply (step_same st cs _ t p); try assumption; try reflexivity; [oth_tac|].
    unfold T. sprj. rewrite !upd_same. split; [exact Hp | exact (proj2 (HT t))].
  Qed.
  Lemma step_ret st cs t o r v w :
    G (sm st) cs -> (forall t', T st cs t') -> U (th st) -> Inv (ret_st st t o r v w).
  Proof.
    intros HG HT HU. apply (step_same st cs _ t Idle); try assumption; try reflexivity; [oth_tac | | left; reflexivity].
    unfold T. sprj. rewrite !upd_same. split; [exact I | exact (proj2 (HT t))].
  Qed.
  Lemma step_move st cs t b sv cur w :
    G (sm st) cs -> (forall t', T st cs t') -> U (th st) -> IT0 (sm st) cs b sv cur -> Inv (move_it st t b sv cur w).
  Proof.
    intros HG HT HU Hi. apply (step_same st cs _ t Idle); try assumption; try reflexivity; [oth_tac | | left; reflexivity].
    unfold T. sprj. rewrite !upd_same. sprj. split; [exact I | exact Hi].
  Qed.
  Lemma step_start st cs t p lo :
    G (sm st) cs -> (forall t', T st cs t') -> U (th st) ->
    Tw (sm st) cs None 0 0 0 p -> fresh_of p = None -> Inv (start_trav st t p lo).
  Proof.
    intros HG HT HU Hp Hf. apply (step_same st cs _ t p); try assumption; try reflexivity; [oth_tac | | left; exact Hf].
    unfold T. sprj. rewrite !upd_same. sprj. split; [exact Hp | apply IT0_end].
  Qed.
  Lemma step_end st cs t :
    G (sm st) cs -> (forall t', T st cs t') -> U (th st) -> Inv (end_trav nb st t).
  Proof.
    intros HG HT HU. apply (step_same st cs _ t Idle); try assumption; try reflexivity.
    - intros t' Hne. unfold HmmDefs.end_trav. sprj. rewrite ?upd_other by exact Hne. split; reflexivity.
    - unfold T, HmmDefs.end_trav. sprj. rewrite !upd_same. sprj. split; [exact I | apply IT0_end].
    - left. reflexivity.
  Qed.
  Lemma Inv_add_hist st t o r v w : Inv st -> th st t = Idle -> Inv (add_hist st t o r v w).
  Proof.
    intros (cs & HG & HT & HU) Hi. exists cs. split; [exact HG|]. split; [|exact HU].
    intros t'. destruct (HT t') as [H1 H2]. unfold T. sprj. split; [|exact H2].
    destruct (Nat.eq_dec t' t) as [->|Hne]; [rewrite Hi; exact I | rewrite upd_other by exact Hne; exact H1].
  Qed.

  Lemma it_land_inv st cs t c b sv cur w e st' es :
    G (sm st) cs -> (forall t', T st cs t') -> U (th st) ->
    In sv (0 :: cs b) -> pnext (sm st) b sv = cur ->
    it_land nb st t c b sv cur w e = Some (st', es) -> Inv st'.
  Proof.
    intros HG HT HU Hsv Hn Hst. unfold it_land in Hst.
    destruct (N.eqb_spec cur 0) as [Hz|Hz]; [destruct (b + 1 <? nb)|]; injection Hst as <- <-.
    - apply (step_go st cs); try assumption; [exact I | left; reflexivity].
    - apply (step_move st cs); try assumption. apply IT0_end.
    - apply (step_move st cs); try assumption. apply IT0_land; assumption.
  Qed.

  Lemma cont_ok_lp m cs w w' ib icur c b h key : is_del2 c = false ->
    cont_ok m cs w ib icur c b h key -> cont_ok m cs w' ib icur c b h key.
  Proof. destruct c; cbn [cont_ok is_del2]; intros Hd H; try exact H. discriminate. Qed.
  Lemma fcom_lp m cs w w' ib icur c b h key : is_del2 c = false ->
    fcom m cs w ib icur c b h key -> fcom m cs w' ib icur c b h key.
  Proof. intros Hd (H1 & H2 & H3). split; [exact H1|]. split; [exact H2|]. eapply cont_ok_lp; eassumption. Qed.

  (** return of the internal find *)
  Lemma find_ret_inv st cs t c b h key sv cur nx found w e st' es :
    G (sm st) cs -> (forall t', T st cs t') -> U (th st) ->
    fresh_of (th st t) = fresh_of_k c ->
    fcom (sm st) cs (g_lp st t) (it_b (its st t)) (it_cur (its st t)) c b h key ->
    okprev (sm st) cs b h key sv -> pmark (sm st) sv = false -> pnext (sm st) b sv = cur ->
    (found = true -> oknode (sm st) cs b cur /\ nkey (sm st) cur = key) ->
    (found = false -> cur <> 0 -> oknode (sm st) cs b cur /\ gef (sm st) h key cur = true /\ nkey (sm st) cur <> key) ->
    oknx (sm st) cs b nx ->
    find_ret nb memo hf st t c b h key sv cur nx found w e = Some (st', es) -> Inv st'.
  Proof.
    intros HG HT HU Hfr (Hh & Hb & Hco) Hsv Hsvm Hsvn Hyes Hno Hnxk Hst. unfold find_ret in Hst.
    assert (Hsvc : In sv (0 :: cs b)) by (eapply ref_in_chain; [exact HG | exact (proj1 Hsv) | exact Hsvm]).
    destruct c as [n v|n v| | | | | |o|o]; cbn [cont_ok] in Hco.
    - (* KIns *) destruct found; injection Hst as <- <-; [apply (step_ret st cs); assumption|].
      apply (step_go_lp st cs); try assumption; [|right; rewrite Hfr; reflexivity].
      cbn [Tw]. split; [exact Hco|]. split; [exact Hh|]. split; [exact Hb|]. split; [exact Hsv|]. apply Hno. reflexivity.
    - (* KGet *) destruct found; [injection Hst as <- <-; apply (step_ret st cs); assumption|].
      destruct (N.eqb_spec n 0) as [Hnz|Hnz]; injection Hst as <- <-.
      + (* the node is allocated now *)
        set (m := sm st) in *.
        destruct (alloc_step m cs key v HG) as [HG' HM]. destruct (alloc_fresh m cs key v HG) as (Hf1 & Hf2 & Hf3).
        apply (Inv_intro st cs _ cs 0 t (E1 true (nalloc m) v b h key sv cur)); try assumption; try reflexivity; [oth_tac | | |].
        * intros t' n0 _ Hn. eapply sp_zero; eassumption.
        * destruct (HT t) as [_ HI]. unfold T. sprj. rewrite !upd_same. split; [|exact (IT0_mono _ _ _ _ _ HG HM _ _ _ HI)].
          cbn [Tw]. split; [split; [exact Hf1 | exact Hf2]|]. split; [exact Hh|]. split; [exact Hb|].
          split; [exact (okprev_mono _ _ _ _ _ HG HM _ _ _ _ Hsv)|]. intros Hcz. destruct (Hno eq_refl Hcz) as (H1 & H2 & H3).
          split; [exact (oknode_mono _ _ _ _ _ HG HM _ _ H1)|]. destruct H1 as (_ & Hk & _).
          rewrite (st_gef _ _ _ _ _ HG HM _ _ _ Hk), (proj1 (st_key _ _ _ _ _ HG HM _ Hk)). auto.
        * apply U_upd; [exact HU|]. cbn [fresh_of]. intros n0 E0 t' Hne Hc. injection E0 as <-.
          destruct (Tw_fresh _ _ _ _ _ _ _ _ (proj1 (HT t')) Hc) as [key' (_ & Hlt & _)]. fold m in Hlt. lia.
      + apply (step_go_lp st cs); try assumption.
        * destruct Hco as [Hco | Hco]; [contradiction|]. cbn [Tw]. split; [exact Hco|]. split; [exact Hh|]. split; [exact Hb|].
          split; [exact Hsv|]. apply Hno. reflexivity.
        * right. rewrite Hfr. cbn [fresh_of fresh_of_k]. destruct (N.eqb_spec n 0); [contradiction | reflexivity].
    - (* KDel *) destruct found; injection Hst as <- <-; [|apply (step_ret st cs); assumption].
      apply (step_go st cs); try assumption; [|left; reflexivity].
      cbn [Tw]. destruct (Hyes eq_refl) as [H1 H2]. auto 8.
    - (* KDel2 *) injection Hst as <- <-. apply (step_ret st cs); assumption.
    - (* KHas *) injection Hst as <- <-. apply (step_ret st cs); assumption.
    - (* KFind *) destruct found; injection Hst as <- <-; apply (step_ret st cs); assumption.
    - (* KItF *) destruct found; injection Hst as <- <-.
      + apply Inv_add_hist; [|sprj; apply upd_same]. apply (step_move st cs); try assumption. apply IT0_land; assumption.
      + apply Inv_add_hist; [|unfold HmmDefs.end_trav; sprj; apply upd_same]. apply (step_end st cs); assumption.
    - (* KItN *) eapply it_land_inv; eassumption.
    - (* KItE *) eapply it_land_inv; eassumption.
  Qed.

  Lemma Inv_init : Inv init.
  Proof.
    exists (fun _ => []). split; [|split].
    - constructor; unfold known; cbn.
      + intros b. auto.
      + intros b. constructor; constructor.
      + intros b x [].
      + constructor.
      + intros [].
      + intros b x [].
      + intros x [[] | []].
      + lia.
      + intros x Hx. discriminate.
      + intros x [].
      + intros x [[] | []].
      + intros x H1 H2. lia.
      + constructor.
      + intros k v. split; [intros [] | intros (x & [] & _)].
      + reflexivity.
      + intros t k v n [].
      + intros t k n i [].
      + constructor.
      + constructor.
      + intros x Hx. discriminate.
      + intros x [[] | []].
    - intros t. split; [exact I|]. cbn. apply IT0_end.
    - intros t t' n _ Hc. discriminate.
  Qed.

  Lemma valid_true m b sv x : valid m b sv x = true -> pnext m b sv = x /\ pmark m sv = false.
  Proof.
    unfold valid. intros H. apply andb_prop in H. destruct H as [H1 H2]. apply N.eqb_eq in H1.
    destruct (pmark m sv); [discriminate | auto].
  Qed.
  Lemma cond_true (a b : N) (mk : bool) : (a =? b) && negb mk = true -> a = b /\ mk = false.
  Proof.
    intros H. apply andb_prop in H. destruct H as [H1 H2]. apply N.eqb_eq in H1.
    destruct mk; [discriminate | auto].
  Qed.

  Lemma curc_mono m cs m' cs' sp b h key cur : G m cs -> mono m cs m' cs' sp ->
    (cur <> 0 -> oknode m cs b cur /\ gef m h key cur = true /\ nkey m cur <> key) ->
    (cur <> 0 -> oknode m' cs' b cur /\ gef m' h key cur = true /\ nkey m' cur <> key).
  Proof.
    intros HG HM H Hnz. destruct (H Hnz) as (H1 & H2 & H3). split; [exact (oknode_mono _ _ _ _ _ HG HM _ _ H1)|].
    destruct H1 as (_ & Hk & _). rewrite (st_gef _ _ _ _ _ HG HM _ _ _ Hk), (proj1 (st_key _ _ _ _ _ HG HM _ Hk)). auto.
  Qed.

  Lemma T_set_mem st cs m' cs' :
    G (sm st) cs -> (forall t', T st cs t') -> mono (sm st) cs m' cs' 0 -> forall t', T (set_mem st m') cs' t'.
  Proof.
    intros HG HT HM t'. destruct (HT t') as [H1 H2]. unfold T. sprj. split; [|exact (IT0_mono _ _ _ _ _ HG HM _ _ _ H2)].
    eapply Tw_stable; [exact HG | exact HM | | | exact H1].
    - intros n Hn. eapply sp_zero; eassumption.
    - intros Hnz. destruct H2 as [_ H2]. destruct (H2 Hnz) as [_ (_ & Hk & _)]. exact Hk.
  Qed.

  (** the find started by operator++ / erase(iterator) on the marked node of the iterator *)
  Lemma it_find_ok st cs t (c : fk) : G (sm st) cs -> IT0 (sm st) cs (it_b (its st t)) (it_sv (its st t)) (it_cur (its st t)) ->
    it_cur (its st t) <> 0 -> nmark (sm st) (it_cur (its st t)) = true ->
    (c = KItN (it_cur (its st t)) \/ c = KItE (it_cur (its st t))) ->
    Tw (sm st) cs (g_lp st t) (it_b (its st t)) (it_sv (its st t)) (it_cur (its st t))
       (F1 c (it_b (its st t)) (nh (sm st) (it_cur (its st t))) (nkey (sm st) (it_cur (its st t))) (it_sv (its st t))).
  Proof.
    intros HG [Hi1 Hi2] Hnz Hm Hc. destruct (Hi2 Hnz) as [Hpre Hon]. cbn [Tw]. split; [|split; assumption].
    split; [|split].
    - apply (nh_hash _ cs); [exact HG | exact Hnz|]. apply (G_bound _ _ HG). exact (proj1 (proj2 Hon)).
    - symmetry. exact (proj2 (proj2 Hon)).
    - destruct Hc as [-> | ->]; cbn [cont_ok]; auto.
  Qed.

  Lemma Inv_step0 s a s' es : Inv s -> step0 s a = Some (s', es) -> Inv s'.
  Proof.
    intros [cs (HG & HT & HU)] Hst. unfold HmmDefs.step0 in Hst. destruct a as [t o | t].
    - destruct (th s t) eqn:E; try discriminate. injection Hst as <- <-.
      apply (step_go s cs t); try assumption; [exact I | left; reflexivity].
    - destruct (HT t) as [Ht Hit].
      destruct (th s t) as [|o|c b h key start|c b h key start sv nx|c b h key start sv cur|c b h key start sv cur
                            |c b h key start sv cur nx|c b h key start sv cur nx w|g n v b h key sv cur|g n v b h key sv cur
                            |b h key sv cur nx|b h key sv cur nx|c b| |nx| |nx|nx] eqn:E;
        cbn [Tw] in Ht; cbv beta iota zeta in Hst; try discriminate.
      + (* Begin *) clear Ht. destruct o as [k v|k v|k|k|k| |k| | | | ].
        * (* ins: allocation of the new node *)
          injection Hst as <- <-.
          destruct (alloc_step (sm s) cs k v HG) as [HG' HM]. destruct (alloc_fresh (sm s) cs k v HG) as (Hf1 & Hf2 & Hf3).
          apply (Inv_intro s cs _ cs 0 t (F1 (KIns (nalloc (sm s)) v) (bucket_of k) (nh (m_alloc (sm s) k v) (nalloc (sm s))) k 0));
            try assumption; try reflexivity; [oth_tac | | |].
          -- intros t' n0 _ Hn. eapply sp_zero; eassumption.
          -- unfold T. sprj. rewrite !upd_same. split; [|exact (IT0_mono _ _ _ _ _ HG HM _ _ _ Hit)].
             cbn [Tw]. split; [|apply okprev_zero]. split; [exact Hf3|]. split; [reflexivity | split; [exact Hf1 | exact Hf2]].
          -- apply U_upd; [exact HU|]. cbn [fresh_of fresh_of_k]. intros n0 E0 t' Hne Hc. injection E0 as <-.
             destruct (Tw_fresh _ _ _ _ _ _ _ _ (proj1 (HT t')) Hc) as [key' (_ & Hlt & _)]. lia.
        * injection Hst as <- <-. apply (step_go_lp s cs); try assumption; [|left; reflexivity].
          cbn [Tw]. split; [|apply okprev_zero]. split; [reflexivity|]. split; [reflexivity | left; reflexivity].
        * injection Hst as <- <-. apply (step_go_lp s cs); try assumption; [|left; reflexivity].
          cbn [Tw]. split; [|apply okprev_zero]. split; [reflexivity|]. split; [reflexivity | exact I].
        * injection Hst as <- <-. apply (step_go_lp s cs); try assumption; [|left; reflexivity].
          cbn [Tw]. split; [|apply okprev_zero]. split; [reflexivity|]. split; [reflexivity | exact I].
        * injection Hst as <- <-. apply (step_go_lp s cs); try assumption; [|left; reflexivity].
          cbn [Tw]. split; [|apply okprev_zero]. split; [reflexivity|]. split; [reflexivity | exact I].
        * injection Hst as <- <-. apply (step_start s cs); try assumption; [exact I | reflexivity].
        * injection Hst as <- <-. apply (step_start s cs); try assumption; [|reflexivity].
          cbn [Tw]. split; [|apply okprev_zero]. split; [reflexivity|]. split; [reflexivity | exact I].
        * destruct (N.eqb_spec (it_cur (its s t)) 0) as [Hz|Hz]; injection Hst as <- <-;
            (apply (step_go s cs); try assumption; try (left; reflexivity); exact I).
        * injection Hst as <- <-. apply (step_go s cs); try assumption; [exact I | left; reflexivity].
        * destruct (N.eqb_spec (it_cur (its s t)) 0) as [Hz|Hz]; injection Hst as <- <-;
            (apply (step_go s cs); try assumption; try (left; reflexivity); exact I).
        * injection Hst as <- <-. apply (step_end s cs); assumption.
      + (* F1 *) destruct Ht as (Hco & Hstart).
        destruct (pmark (sm s) start) eqn:Hm; injection Hst as <- <-.
        * apply (step_go s cs); try assumption; [|right; rewrite E; reflexivity].
          cbn [Tw]. split; [exact Hco | apply okprev_zero].
        * apply (step_go s cs); try assumption; [|right; rewrite E; reflexivity].
          cbn [Tw]. split; [exact Hco|]. split; [exact Hstart|]. split; [exact Hstart|].
          apply closed_ref; [exact HG | exact (proj1 Hstart) | exact Hm].
      + (* F2 *) destruct Ht as (Hco & Hstart & Hsv & Hnxk).
        destruct (valid (sm s) b sv nx) eqn:Hc; cbn [negb] in Hst.
        * apply valid_true in Hc. destruct Hc as [Hnx Hm].
          destruct (N.eqb_spec nx 0) as [Hz|Hz].
          -- eapply (find_ret_inv s cs t c b h key sv 0 0 false); try eassumption.
             ++ rewrite E. reflexivity.
             ++ congruence.
             ++ intros Hc. discriminate.
             ++ intros _ Hc. contradiction.
             ++ left. reflexivity.
          -- injection Hst as <- <-.
             apply (step_go s cs); try assumption; [|right; rewrite E; reflexivity].
             cbn [Tw]. split; [exact Hco|]. split; [exact Hstart|]. split; [exact Hsv|].
             destruct Hnxk as [Hnxk | Hnxk]; [contradiction | exact Hnxk].
        * injection Hst as <- <-.
          apply (step_go s cs); try assumption; [|right; rewrite E; reflexivity].
          cbn [Tw]. auto.
      + (* F3 *) destruct Ht as (Hco & Hstart & Hsv & Hcur).
        destruct (nmark (sm s) cur) eqn:Hm.
        * injection Hst as <- <-.
          apply (step_go s cs); try assumption; [|right; rewrite E; reflexivity].
          cbn [Tw]. auto 6.
        * destruct ((nkey (sm s) cur =? key) && negb (is_del2 c)) eqn:Hc; injection Hst as <- <-.
          -- apply andb_prop in Hc. destruct Hc as [Hk Hd]. apply N.eqb_eq in Hk.
             assert (Hd' : is_del2 c = false) by (destruct (is_del2 c); [discriminate | reflexivity]).
             apply (step_go_lp s cs); try assumption; [|right; rewrite E; reflexivity].
             cbn [Tw]. split; [eapply fcom_lp; eassumption|]. split; [exact Hstart|]. split; [exact Hsv|]. split; [exact Hcur|].
             split; [|apply closed_nx; assumption].
             intros _ _. exists (nval (sm s) cur). split; [|reflexivity]. f_equal. rewrite <- Hk.
             apply (abs_lookup _ cs); [exact HG | | exact Hm]. apply unmarked_in_chain; [exact HG | exact (proj1 (proj2 Hcur)) | exact Hm].
          -- apply (step_go s cs); try assumption; [|right; rewrite E; reflexivity].
             cbn [Tw]. split; [exact Hco|]. split; [exact Hstart|]. split; [exact Hsv|]. split; [exact Hcur|].
             split; [|apply closed_nx; assumption].
             intros Hd Hk. exfalso. apply N.eqb_eq in Hk. rewrite Hk, Hd in Hc. discriminate.
      + (* F4 *) destruct Ht as (Hco & Hstart & Hsv & Hcur & Hm). injection Hst as <- <-.
        apply (step_go s cs); try assumption; [|right; rewrite E; reflexivity].
        cbn [Tw]. auto 8.
      + (* F5 *) destruct Ht as (Hco & Hstart & Hsv & Hcur & Hm & Hn).
        destruct (valid (sm s) b sv cur) eqn:Hc; injection Hst as <- <-.
        * apply valid_true in Hc. destruct Hc as [Hnx Hsvm].
          apply (step_unlink s cs _ t (F2 c b h key start sv nx) b sv cur nx); try assumption; try reflexivity.
          -- exact (proj1 Hsv).
          -- oth_tac.
          -- cbn [Tw]. split; [exact Hco|]. split; [exact Hstart|]. split; [exact Hsv|].
             rewrite <- Hn. apply closed_nx; assumption.
          -- right. rewrite E. reflexivity.
        * apply (step_go s cs); try assumption; [|right; rewrite E; reflexivity].
          cbn [Tw]. auto.
      + (* F6 *) destruct Ht as (Hco & Hstart & Hsv & Hcur & Hlp & Hnxk).
        destruct (valid (sm s) b sv cur) eqn:Hc; cbn [negb] in Hst.
        * apply valid_true in Hc. destruct Hc as [Hnx Hm].
          destruct (gef (sm s) h key cur) eqn:Hge.
          -- eapply (find_ret_inv s cs t c b h key sv cur nx (nkey (sm s) cur =? key)); try eassumption.
             ++ rewrite E. reflexivity.
             ++ intros Hf. apply N.eqb_eq in Hf. split; [exact Hcur | exact Hf].
             ++ intros Hf _. apply N.eqb_neq in Hf. auto.
          -- injection Hst as <- <-.
             apply (step_go s cs); try assumption; [|right; rewrite E; reflexivity].
             cbn [Tw]. split; [exact Hco|]. split; [exact Hstart|]. split; [|exact Hnxk].
             split; [right; exact (proj2 Hcur)|].
             assert (Hsvc : In sv (0 :: cs b)) by (eapply ref_in_chain; [exact HG | exact (proj1 Hsv) | exact Hm]).
             exact (pre_advance _ _ _ _ _ _ _ HG Hsvc Hnx (proj1 Hcur) (proj2 Hsv) Hge).
        * injection Hst as <- <-.
          apply (step_go s cs); try assumption; [|right; rewrite E; reflexivity].
          cbn [Tw]. auto.
      + (* E1 *) destruct Ht as ((Hfr & Hnv) & Hh & Hb & Hsv & Hcurc). injection Hst as <- <-.
        pose proof Hfr as (Hn0 & Hnlt & Hnk & Hnkey).
        destruct (store_step (sm s) cs n cur HG Hn0 Hnk) as [HG' HM].
        apply (Inv_intro s cs _ cs n t (E2 g n v b h key sv cur)); try assumption; try reflexivity; [oth_tac | | |].
        -- apply (sp_own s t n HU). rewrite E. reflexivity.
        -- unfold T. sprj. rewrite !upd_same. split; [|exact (IT0_mono _ _ _ _ _ HG HM _ _ _ Hit)].
           cbn [Tw]. split; [split; [exact Hfr | exact Hnv]|]. split; [exact Hh|]. split; [exact Hb|].
           split; [exact (okprev_mono _ _ _ _ _ HG HM _ _ _ _ Hsv)|]. split; [exact (curc_mono _ _ _ _ _ _ _ _ _ HG HM Hcurc)|].
           cbn [m_store nnext]. apply setf_same.
        -- apply U_upd_same; [exact HU|]. right. rewrite E. reflexivity.
      + (* E2 *) destruct Ht as ((Hfr & Hnv) & Hh & Hb & Hsv & Hcurc & Hnn).
        destruct (valid (sm s) b sv cur) eqn:Hc.
        * apply valid_true in Hc. destruct Hc as [Hnx Hsvm].
          assert (Hsvc : In sv (0 :: cs b)) by (eapply ref_in_chain; [exact HG | exact (proj1 Hsv) | exact Hsvm]).
          assert (Hpre : pre (sm s) (0 :: cs b) (hf key) key sv) by (rewrite <- Hh; exact (proj2 Hsv)).
          assert (Hhi : cur <> 0 -> gef (sm s) (hf key) key cur = true /\ nkey (sm s) cur <> key).
          { intros Hz. rewrite <- Hh. exact (proj2 (Hcurc Hz)). }
          destruct (link_step (sm s) cs t b sv n cur key HG Hfr (eq_sym Hb) Hnn Hsvc Hsvm Hnx Hpre Hhi) as (_ & cs' & HG' & HM & _).
          destruct g; injection Hst as <- <-.
          -- apply (Inv_intro s cs _ cs' n t Idle); try assumption; try reflexivity; [oth_tac | | |].
             ++ apply (sp_own s t n HU). rewrite E. reflexivity.
             ++ unfold T. sprj. rewrite !upd_same. split; [exact I | exact (IT0_mono _ _ _ _ _ HG HM _ _ _ Hit)].
             ++ apply U_upd_same; [exact HU|]. left. reflexivity.
          -- apply (Inv_intro s cs _ cs' n t Idle); try assumption; try reflexivity; [oth_tac | | |].
             ++ apply (sp_own s t n HU). rewrite E. reflexivity.
             ++ unfold T. sprj. rewrite !upd_same. split; [exact I | exact (IT0_mono _ _ _ _ _ HG HM _ _ _ Hit)].
             ++ apply U_upd_same; [exact HU|]. left. reflexivity.
        * injection Hst as <- <-.
          apply (step_go s cs); try assumption.
          -- cbn [Tw]. split; [|exact Hsv]. split; [exact Hh|]. split; [exact Hb|].
             destruct g; cbn [cont_ok]; [right; split; [exact Hfr | exact Hnv] | split; [exact Hfr | exact Hnv]].
          -- right. rewrite E. destruct g; cbn [fresh_of fresh_of_k]; [|reflexivity].
             destruct (N.eqb_spec n 0) as [Hz|_]; [exfalso; exact (proj1 Hfr Hz) | reflexivity].
      + (* D1 *) destruct Ht as (Hh & Hb & Hsv & Hcur & Hck & Hnxk).
        destruct ((nnext (sm s) cur =? nx) && negb (nmark (sm s) cur)) eqn:Hc; injection Hst as <- <-.
        * apply cond_true in Hc. destruct Hc as [Hnx Hcm].
          assert (Hcc : In cur (cs (bk (sm s) cur))) by (apply unmarked_in_chain; [exact HG | exact (proj1 (proj2 Hcur)) | exact Hcm]).
          destruct (mark_step (sm s) cs t cur false HG Hcc Hcm) as (HG' & HM & Hlk).
          apply (Inv_intro s cs _ cs 0 t (D2 b h key sv cur nx)); try assumption; try reflexivity; [oth_tac | | |].
          -- intros t' n0 _ Hn. eapply sp_zero; eassumption.
          -- unfold T. sprj. rewrite !upd_same. split; [|exact (IT0_mono _ _ _ _ _ HG HM _ _ _ Hit)].
             cbn [Tw]. split; [exact Hh|]. split; [exact Hb|]. split; [exact (okprev_mono _ _ _ _ _ HG HM _ _ _ _ Hsv)|].
             split; [exact (oknode_mono _ _ _ _ _ HG HM _ _ Hcur)|]. split; [exact Hck|].
             split; [cbn [m_mark nmark]; apply setf_same|]. split; [exact Hnx|].
             exists (nval (sm s) cur). rewrite <- Hck, Hlk. reflexivity.
          -- apply U_upd_same; [exact HU|]. left. reflexivity.
        * apply (step_go s cs); try assumption; [|left; reflexivity].
          cbn [Tw]. split; [|exact Hsv]. split; [exact Hh|]. split; [exact Hb | exact I].
      + (* D2 *) destruct Ht as (Hh & Hb & Hsv & Hcur & Hck & Hm & Hn & Hlp).
        destruct (valid (sm s) b sv cur) eqn:Hc; injection Hst as <- <-.
        * apply valid_true in Hc. destruct Hc as [Hnx Hsvm].
          apply (step_unlink s cs _ t Idle b sv cur nx); try assumption; try reflexivity;
            first [exact (proj1 Hsv) | oth_tac | exact I | left; reflexivity].
        * apply (step_go s cs); try assumption; [|left; reflexivity].
          cbn [Tw]. split; [|exact Hsv]. split; [exact Hh|]. split; [exact Hb | exact Hlp].
      + (* MB *) eapply (it_land_inv s cs t c b 0 (bhead (sm s) b)); try eassumption; [left; reflexivity | reflexivity].
      + (* N1 *) destruct (nmark (sm s) (it_cur (its s t))) eqn:Hm; injection Hst as <- <-.
        * apply (step_go s cs); try assumption; [|left; reflexivity]. apply it_find_ok; auto.
        * apply (step_go s cs); try assumption; [|left; reflexivity].
          cbn [Tw]. split; [exact Ht|]. apply closed_nx; [exact HG|]. exact (proj2 (proj2 Hit Ht)).
      + (* N2 *) destruct Ht as [Hnz Hnxk].
        destruct ((nnext (sm s) (it_cur (its s t)) =? nx) && negb (nmark (sm s) (it_cur (its s t)))) eqn:Hc.
        * apply cond_true in Hc. destruct Hc as [Hnx Hcm].
          eapply (it_land_inv s cs t MNext (it_b (its s t)) (it_cur (its s t)) nx); try eassumption.
          -- right. apply (node_in_chain (sm s)); [exact HG | exact (proj2 (proj2 Hit Hnz)) | exact Hcm].
          -- rewrite pnext_nz by exact Hnz. exact Hnx.
        * injection Hst as <- <-. apply (step_go s cs); try assumption. left; reflexivity.
      + (* X1 *) destruct (nmark (sm s) (it_cur (its s t))) eqn:Hm; injection Hst as <- <-;
          (apply (step_go s cs); try assumption; [|left; reflexivity]); cbn [Tw].
        * auto.
        * split; [exact Ht|]. apply closed_nx; [exact HG|]. exact (proj2 (proj2 Hit Ht)).
      + (* X2 *) destruct Ht as [Hnz Hnxk].
        destruct ((nnext (sm s) (it_cur (its s t)) =? nx) && negb (nmark (sm s) (it_cur (its s t)))) eqn:Hc.
        * injection Hst as <- <-. apply cond_true in Hc. destruct Hc as [Hnx Hcm].
          destruct (proj2 Hit Hnz) as [_ Hon].
          assert (Hcc : In (it_cur (its s t)) (cs (bk (sm s) (it_cur (its s t)))))
            by (apply unmarked_in_chain; [exact HG | exact (proj1 (proj2 Hon)) | exact Hcm]).
          destruct (mark_step (sm s) cs t (it_cur (its s t)) true HG Hcc Hcm) as (HG' & HM & _).
          apply (Inv_intro s cs _ cs 0 t (X3 nx)); try assumption; try reflexivity; [oth_tac | | |].
          -- intros t' n0 _ Hn. eapply sp_zero; eassumption.
          -- unfold T. sprj. rewrite !upd_same. split; [|exact (IT0_mono _ _ _ _ _ HG HM _ _ _ Hit)].
             cbn [Tw]. split; [exact Hnz|]. split; [cbn [m_mark nmark]; apply setf_same | exact Hnx].
          -- apply U_upd_same; [exact HU|]. left. reflexivity.
        * destruct (nmark (sm s) (it_cur (its s t))) eqn:Hm; injection Hst as <- <-;
            (apply (step_go s cs); try assumption; [|left; reflexivity]); cbn [Tw].
          -- auto.
          -- split; [exact Hnz|]. apply closed_nx; [exact HG|]. exact (proj2 (proj2 Hit Hnz)).
      + (* X3 *) destruct Ht as (Hnz & Hm & Hn).
        destruct (valid (sm s) (it_b (its s t)) (it_sv (its s t)) (it_cur (its s t))) eqn:Hc.
        * apply valid_true in Hc. destruct Hc as [Hnx Hsvm]. destruct (proj2 Hit Hnz) as [_ Hon].
          assert (Hsvc : In (it_sv (its s t)) (0 :: cs (it_b (its s t)))) by (eapply ref_in_chain; [exact HG | exact (proj1 Hit) | exact Hsvm]).
          destruct (unlink_step (sm s) cs _ _ _ nx HG Hsvc Hsvm Hnx Hnz Hm Hn) as (cs' & HG' & HM & Hcin & Hnin & _ & Hin & Hps).
          eapply (it_land_inv (set_mem s (m_unlink (sm s) (it_b (its s t)) (it_sv (its s t)) (it_cur (its s t)) nx)) cs' t);
            [exact HG' | apply (T_set_mem s cs); assumption | exact HU | | exact Hps | exact Hst].
          destruct Hsvc as [Hz | Hsvc]; [left; exact Hz | right].
          apply (Hin (it_b (its s t)) (it_sv (its s t))) in Hsvc. destruct Hsvc as [[_ Heq] | Hsvc]; [|exact Hsvc].
          exfalso. rewrite Heq in Hsvm. rewrite pmark_nz in Hsvm by exact Hnz. congruence.
        * injection Hst as <- <-. apply (step_go s cs); try assumption; [|left; reflexivity]. apply it_find_ok; auto.
  Qed.

  Lemma Inv_refresh st : Inv st -> Inv (refresh st).
  Proof. intros (cs & HG & HT & HU). exists cs. split; [exact HG|]. split; [|exact HU]. intros t. exact (HT t). Qed.

  Lemma Inv_step s a s' es : Inv s -> step s a = Some (s', es) -> Inv s'.
  Proof.
    intros HI Hst. unfold HmmDefs.step in Hst. destruct (step0 s a) as [[s1 e1]|] eqn:E0; [|discriminate].
    injection Hst as <- <-. apply Inv_refresh. eapply Inv_step0; eassumption.
  Qed.

  Theorem Inv_reach st : reach init step st -> Inv st.
  Proof. apply inv_rule; [exact Inv_init | exact Inv_step]. Qed.

  (** * The chains as a computable function of the memory *)

  Lemma walk_links nx l : forall a fuel, linksto nx (a :: l) 0 -> (forall x, In x l -> x <> 0) ->
    (length l <= fuel)%nat -> walk nx fuel a = l.
  Proof.
    induction l as [|b r IH]; intros a fuel HL Hnz Hlen; cbn [HmlInv.linksto hd] in HL.
    - destruct HL as [Hz _]. destruct fuel; cbn [walk]; [reflexivity|]. rewrite Hz. reflexivity.
    - destruct HL as [Hb HL]. destruct fuel as [|f]; [cbn [length] in Hlen; lia|]. cbn [walk]. rewrite Hb.
      destruct (N.eqb_spec b 0) as [Hz|Hz]; [exfalso; apply (Hnz b); [left; reflexivity | exact Hz]|].
      f_equal. apply IH; [exact HL | intros x Hx; apply Hnz; right; exact Hx | cbn [length] in Hlen; lia].
  Qed.

  Lemma chain_eq m cs b : G m cs -> cs b = chain m b.
  Proof.
    intros HG. symmetry. unfold chain. apply walk_links.
    - exact (G_links _ _ HG b).
    - intros x Hx. eapply chain_nz; eassumption.
    - assert (H : (length (N0 :: cs b) <= N.to_nat (nalloc m))%nat).
      { apply bounded_nodup_length; [exact (G_nodup _ _ b HG)|]. intros x [<- | Hx]; [exact (G_pos _ _ HG) | eapply chain_bound; eassumption]. }
      cbn [length] in H. lia.
  Qed.

  Lemma Inv_chain st : Inv st ->
    exists cs, (forall b, cs b = chain (sm st) b) /\ G (sm st) cs /\ (forall t, T st cs t) /\ U (th st).
  Proof. intros [cs (HG & HT & HU)]. exists cs. split; [intros b; eapply chain_eq; eassumption | auto]. Qed.

  (** * Linearization: results of the completed operations *)

  Definition is_some (o : option N) : bool := match o with Some _ => true | None => false end.
  (** sequential specification: result flag and value seen of operation [o] when the lookup of its key in the
      map gives [mo] *)
  Definition res_for (o : op) (mo : option N) : bool * N :=
    match o with
    | OIns _ _ => (negb (is_some mo), 0)
    | OGet _ v => (negb (is_some mo), match mo with Some v' => v' | None => v end)
    | ODel _ | OHas _ => (is_some mo, 0)
    | OFind _ | OItF _ => (is_some mo, match mo with Some v' => v' | None => 0 end)
    | _ => (false, 0)
    end.

  Definition hist_ok (h : hrec) : Prop :=
    exists mo, h_wit h = Some mo /\ (h_res h, h_val h) = res_for (h_op h) mo.

  Definition Hist (st : state) : Prop := forall h, In h (g_hist st) -> hist_ok h.

  Lemma Hist_snoc st st' h : Hist st -> g_hist st' = g_hist st ++ [h] -> hist_ok h -> Hist st'.
  Proof.
    intros HH E Hh h' Hin. rewrite E in Hin. apply in_app_or in Hin.
    destruct Hin as [Hin | [<- | []]]; [apply HH; exact Hin | exact Hh].
  Qed.
  Lemma Hist_same st st' : Hist st -> g_hist st' = g_hist st -> Hist st'.
  Proof. intros HH E h Hin. rewrite E in Hin. apply HH. exact Hin. Qed.

  Lemma it_land_hist st t c b sv cur w e st' es : it_land nb st t c b sv cur w e = Some (st', es) -> g_hist st' = g_hist st.
  Proof.
    unfold it_land. destruct (cur =? 0); [destruct (b + 1 <? nb)|]; intros H; injection H as <- _; reflexivity.
  Qed.

  Lemma find_ret_hist st t c b h key sv cur nx found w e st' es :
    Hist st ->
    (found = true -> is_del2 c = false -> g_lp st t = Some (Some (nval (sm st) cur))) ->
    (found = false -> lookup key (g_abs (sm st)) = None) ->
    (is_del2 c = true -> is_some2 (g_lp st t)) ->
    find_ret nb memo hf st t c b h key sv cur nx found w e = Some (st', es) -> Hist st'.
  Proof.
    intros HH Hyes Hno Hd2 Hst. unfold find_ret in Hst.
    destruct c as [n v|n v| | | | | |o|o]; cbn [is_del2] in *;
      try (eapply Hist_same; [exact HH | eapply it_land_hist; exact Hst]);
      try (destruct (Hd2 eq_refl) as [v0 Hv0]);
      destruct found; try rewrite (Hyes eq_refl eq_refl) in Hst; try rewrite (Hno eq_refl) in Hst;
      try (destruct (n =? 0));
      injection Hst as <- <-; try exact HH;
      (eapply Hist_snoc; [exact HH | reflexivity |]);
      unfold hist_ok; cbn [h_op h_wit h_res h_val res_for];
      first [ eexists; split; [reflexivity | reflexivity]
            | exists (Some v0); split; [exact Hv0 | reflexivity] ].
  Qed.

  Lemma Hist_step0 s a s' es : Inv s -> Hist s -> step0 s a = Some (s', es) -> Hist s'.
  Proof.
    intros [cs (HG & HT & HU)] HH Hst. unfold HmmDefs.step0 in Hst. destruct a as [t o | t].
    - destruct (th s t) eqn:E; try discriminate. injection Hst as <- <-. exact HH.
    - destruct (HT t) as [Ht Hit].
      destruct (th s t) as [|o|c b h key start|c b h key start sv nx|c b h key start sv cur|c b h key start sv cur
                            |c b h key start sv cur nx|c b h key start sv cur nx w|g n v b h key sv cur|g n v b h key sv cur
                            |b h key sv cur nx|b h key sv cur nx|c b| |nx| |nx|nx] eqn:E;
        cbn [Tw] in Ht; cbv beta iota zeta in Hst; try discriminate.
      + destruct o; try (destruct (it_cur (its s t) =? 0)); injection Hst as <- <-; exact HH.
      + destruct (pmark (sm s) start); injection Hst as <- <-; exact HH.
      + (* F2 *) destruct Ht as ((Hh & Hb & Hco) & Hstart & Hsv & Hnxk).
        destruct (valid (sm s) b sv nx) eqn:Hc; cbn [negb] in Hst;
          [destruct (N.eqb_spec nx 0) as [Hz|Hz]|]; try (injection Hst as <- <-; exact HH).
        apply valid_true in Hc. destruct Hc as [Hnx Hm].
        assert (Hsvc : In sv (0 :: cs b)) by (eapply ref_in_chain; [exact HG | exact (proj1 Hsv) | exact Hm]).
        eapply (find_ret_hist s t c b h key sv 0 0 false); [exact HH | | | | exact Hst].
        * intros Hc. discriminate.
        * intros _. apply (absent (sm s) cs b sv 0 key HG Hb Hsvc); [congruence | rewrite <- Hh; exact (proj2 Hsv) | intros Hc; contradiction].
        * intros Hd. destruct c; try discriminate. exact Hco.
      + destruct (nmark (sm s) cur); [|destruct ((nkey (sm s) cur =? key) && negb (is_del2 c))]; injection Hst as <- <-; exact HH.
      + injection Hst as <- <-; exact HH.
      + destruct (valid (sm s) b sv cur); injection Hst as <- <-; exact HH.
      + (* F6 *) destruct Ht as ((Hh & Hb & Hco) & Hstart & Hsv & Hcur & Hlp & Hnxk).
        destruct (valid (sm s) b sv cur) eqn:Hc; cbn [negb] in Hst;
          [destruct (gef (sm s) h key cur) eqn:Hge|]; try (injection Hst as <- <-; exact HH).
        apply valid_true in Hc. destruct Hc as [Hnx Hm].
        assert (Hsvc : In sv (0 :: cs b)) by (eapply ref_in_chain; [exact HG | exact (proj1 Hsv) | exact Hm]).
        eapply (find_ret_hist s t c b h key sv cur nx (nkey (sm s) cur =? key)); [exact HH | | | | exact Hst].
        * intros Hf Hd. apply N.eqb_eq in Hf. destruct (Hlp Hd Hf) as (v0 & H1 & H2). rewrite H1, H2. reflexivity.
        * intros Hf. apply N.eqb_neq in Hf.
          apply (absent (sm s) cs b sv cur key HG Hb Hsvc Hnx); [rewrite <- Hh; exact (proj2 Hsv)|]. intros _. rewrite <- Hh. auto.
        * intros Hd. destruct c; try discriminate. exact Hco.
      + injection Hst as <- <-; exact HH.
      + (* E2 *) destruct Ht as ((Hfr & Hnv) & Hh & Hb & Hsv & Hcurc & Hnn).
        destruct (valid (sm s) b sv cur) eqn:Hc; [|injection Hst as <- <-; exact HH].
        apply valid_true in Hc. destruct Hc as [Hnx Hm].
        assert (Hsvc : In sv (0 :: cs b)) by (eapply ref_in_chain; [exact HG | exact (proj1 Hsv) | exact Hm]).
        assert (Habs : lookup key (g_abs (sm s)) = None).
        { apply (absent (sm s) cs b sv cur key HG Hb Hsvc Hnx); [rewrite <- Hh; exact (proj2 Hsv)|].
          intros Hz. rewrite <- Hh. exact (proj2 (Hcurc Hz)). }
        rewrite Habs in Hst.
        destruct g; injection Hst as <- <-; (eapply Hist_snoc; [exact HH | reflexivity |]);
          unfold hist_ok; cbn [h_op h_wit h_res h_val res_for]; eexists; (split; [reflexivity|]); cbn [is_some negb]; rewrite ?Hnv; reflexivity.
      + destruct ((nnext (sm s) cur =? nx) && negb (nmark (sm s) cur)); injection Hst as <- <-; exact HH.
      + (* D2 *) destruct Ht as (Hh & Hb & Hsv & Hcur & Hck & Hm & Hn & (v0 & Hlp)).
        destruct (valid (sm s) b sv cur); injection Hst as <- <-; [|exact HH].
        eapply Hist_snoc; [exact HH | reflexivity|]. unfold hist_ok; cbn [h_op h_wit h_res h_val res_for].
        exists (Some v0). split; [exact Hlp | reflexivity].
      + (* MB *) eapply Hist_same; [exact HH | eapply it_land_hist; exact Hst].
      + destruct (nmark (sm s) (it_cur (its s t))); injection Hst as <- <-; exact HH.
      + destruct ((nnext (sm s) (it_cur (its s t)) =? nx) && negb (nmark (sm s) (it_cur (its s t))));
          [eapply Hist_same; [exact HH | eapply it_land_hist; exact Hst] | injection Hst as <- <-; exact HH].
      + destruct (nmark (sm s) (it_cur (its s t))); injection Hst as <- <-; exact HH.
      + destruct ((nnext (sm s) (it_cur (its s t)) =? nx) && negb (nmark (sm s) (it_cur (its s t))));
          [|destruct (nmark (sm s) (it_cur (its s t)))]; injection Hst as <- <-; exact HH.
      + destruct (valid (sm s) (it_b (its s t)) (it_sv (its s t)) (it_cur (its s t)));
          [eapply Hist_same; [exact HH | apply (it_land_hist _ _ _ _ _ _ _ _ _ _ Hst)] | injection Hst as <- <-; exact HH].
  Qed.

  Lemma step_split s a s' es : step s a = Some (s', es) -> exists s1, step0 s a = Some (s1, es) /\ s' = refresh s1.
  Proof.
    unfold HmmDefs.step. destruct (step0 s a) as [[s1 e1]|]; [|discriminate]. intros H. injection H as <- <-. exists s1. auto.
  Qed.

  Theorem Hist_reach st : reach init step st -> Hist st.
  Proof.
    apply (inv_rule_aux _ _ _ init step Inv Hist Inv_reach).
    - intros h [].
    - intros s a s' es HI _ HH Hst. destruct (step_split _ _ _ _ Hst) as (s1 & H0 & ->).
      eapply Hist_same; [eapply Hist_step0; eassumption | reflexivity].
  Qed.

  (** * The linearization order and the completed operations, thread by thread *)

  (** successful mutating map operations *)
  Inductive mop := MI (k v : N) | MD (k : N).

  Definition lev_op (t : nat) (e : lev) : list mop :=
    match e with
    | LIns t' k v _ => if Nat.eqb t' t then [MI k v] else []
    | LDel t' k _ it => if Nat.eqb t' t && negb it then [MD k] else []
    end.
  (** successful emplace / get_or_emplace / erase(key) of thread [t] in linearization order *)
  Definition proj_lin (t : nat) (l : list lev) : list mop := flat_map (lev_op t) l.

  Definition hrec_op (t : nat) (h : hrec) : list mop :=
    if Nat.eqb (h_t h) t && h_res h then
      match h_op h with OIns k v | OGet k v => [MI k v] | ODel k => [MD k] | _ => [] end
    else [].
  (** completed successful emplace / get_or_emplace / erase(key) of thread [t] in order of return *)
  Definition proj_hist (t : nat) (l : list hrec) : list mop := flat_map (hrec_op t) l.

  Definition pend_k (c : fk) (key : N) : list mop := if is_del2 c then [MD key] else [].
  (** an erase(key) that has marked its node and has not returned yet *)
  Definition pending (p : pc) : list mop :=
    match p with
    | D2 _ _ key _ _ _ => [MD key]
    | F1 c _ _ key _ | F2 c _ _ key _ _ _ | F3 c _ _ key _ _ _ | F4 c _ _ key _ _ _ | F5 c _ _ key _ _ _ _
    | F6 c _ _ key _ _ _ _ _ => pend_k c key
    | _ => []
    end.

  Definition Pend (st : state) : Prop :=
    forall t, proj_lin t (g_lin (sm st)) = proj_hist t (g_hist st) ++ pending (th st t).

  Definition lev_t (e : lev) : nat := match e with LIns t _ _ _ | LDel t _ _ _ => t end.

  Lemma proj_lin_other t t' dl : (forall e, In e dl -> lev_t e = t) -> t' <> t -> proj_lin t' dl = [].
  Proof.
    intros H Hne. induction dl as [|e dl IH]; [reflexivity|]. unfold proj_lin in *. cbn [flat_map].
    rewrite IH by (intros e' He'; apply H; right; exact He'). rewrite app_nil_r.
    pose proof (H e (or_introl eq_refl)) as He. destruct e as [t0 k v n | t0 k n i]; cbn [lev_t lev_op] in *; subst t0;
      (destruct (Nat.eqb_spec t t'); [congruence | reflexivity]).
  Qed.

  Lemma proj_hist_other t t' dh : (forall h, In h dh -> h_t h = t) -> t' <> t -> proj_hist t' dh = [].
  Proof.
    intros H Hne. induction dh as [|h dh IH]; [reflexivity|]. unfold proj_hist in *. cbn [flat_map].
    rewrite IH by (intros h' Hh'; apply H; right; exact Hh'). rewrite app_nil_r.
    pose proof (H h (or_introl eq_refl)) as Hh. unfold hrec_op. rewrite Hh.
    destruct (Nat.eqb_spec t t'); [congruence | reflexivity].
  Qed.

  Lemma Pend_intro st st' t p dl dh :
    Pend st -> th st' = upd (th st) t p -> g_lin (sm st') = g_lin (sm st) ++ dl -> g_hist st' = g_hist st ++ dh ->
    (forall e, In e dl -> lev_t e = t) -> (forall h, In h dh -> h_t h = t) ->
    pending (th st t) ++ proj_lin t dl = proj_hist t dh ++ pending p ->
    Pend st'.
  Proof.
    intros HP Eth Elin Ehist Hdl Hdh Heq t'. rewrite Eth, Elin, Ehist. unfold proj_lin, proj_hist.
    rewrite !flat_map_app. fold (proj_lin t' (g_lin (sm st))) (proj_lin t' dl) (proj_hist t' (g_hist st)) (proj_hist t' dh).
    rewrite (HP t'). destruct (Nat.eq_dec t' t) as [->|Hne].
    - rewrite upd_same, <- !app_assoc. f_equal. exact Heq.
    - rewrite upd_other by exact Hne. rewrite (proj_lin_other t t' dl Hdl Hne), (proj_hist_other t t' dh Hdh Hne).
      rewrite !app_nil_r. reflexivity.
  Qed.

  Lemma Pend_same st st' t p :
    Pend st -> th st' = upd (th st) t p -> g_lin (sm st') = g_lin (sm st) -> g_hist st' = g_hist st ->
    pending (th st t) = pending p -> Pend st'.
  Proof.
    intros HP Eth Elin Ehist Heq. apply (Pend_intro st st' t p [] []); try assumption.
    - rewrite Elin, app_nil_r. reflexivity.
    - rewrite Ehist, app_nil_r. reflexivity.
    - intros e [].
    - intros h [].
    - cbn. rewrite app_nil_r. exact Heq.
  Qed.

  Lemma Pend_ret st st' t h :
    Pend st -> th st' = upd (th st) t Idle -> g_lin (sm st') = g_lin (sm st) -> g_hist st' = g_hist st ++ [h] ->
    h_t h = t -> pending (th st t) = hrec_op t h -> Pend st'.
  Proof.
    intros HP Eth Elin Ehist Ht Heq. apply (Pend_intro st st' t Idle [] [h]); try assumption.
    - rewrite Elin, app_nil_r. reflexivity.
    - intros e [].
    - intros h' [<- | []]. exact Ht.
    - unfold proj_hist. cbn [flat_map proj_lin pending]. rewrite !app_nil_r. exact Heq.
  Qed.

  (** brute-force case analysis of one step *)
  Ltac step0_cases Hst s :=
    unfold HmmDefs.step0 in Hst;
    match type of Hst with
    | context [match ?a with Start _ _ => _ | Step _ => _ end] => destruct a as [?t ?o | ?t]
    end;
    match type of Hst with
    | context [th s ?t] =>
      destruct (th s t) as [|?o|?c ?b ?h ?key ?start|?c ?b ?h ?key ?start ?sv ?nx|?c ?b ?h ?key ?start ?sv ?cur
                            |?c ?b ?h ?key ?start ?sv ?cur|?c ?b ?h ?key ?start ?sv ?cur ?nx|?c ?b ?h ?key ?start ?sv ?cur ?nx ?w
                            |?g ?n ?v ?b ?h ?key ?sv ?cur|?g ?n ?v ?b ?h ?key ?sv ?cur|?b ?h ?key ?sv ?cur ?nx|?b ?h ?key ?sv ?cur ?nx
                            |?c ?b| |?nx| |?nx|?nx] eqn:?E
    end;
    cbv beta iota zeta in Hst; try discriminate Hst;
    try match type of Hst with context [match ?o with OIns _ _ => _ | _ => _ end] => destruct o end;
    unfold find_ret, it_land in Hst;
    repeat match type of Hst with
    | context [if ?b then _ else _] => destruct b eqn:?Hc
    | context [match ?k with KIns _ _ => _ | _ => _ end] => destruct k
    end;
    injection Hst as <- <-.

  Ltac sprj2 := cbn [sm th its g_lp g_hist set_pc set_pc_lp set_mem ret_st move_it start_trav end_trav add_hist
                     HmmDefs.end_trav it_b it_sv it_cur
                     HmmDefs.m_alloc m_store m_link m_mark m_unlink g_abs g_lin g_retired nalloc nkey nval nhash nmark].

  Lemma Pend_step0 s a s' es : Inv s -> Pend s -> step0 s a = Some (s', es) -> Pend s'.
  Proof.
    intros [cs (HG & HT & HU)] HP Hst.
    step0_cases Hst s;
      try (eapply Pend_same; [exact HP | reflexivity | reflexivity | reflexivity | rewrite E; reflexivity]);
      try (eapply Pend_ret; [exact HP | reflexivity | reflexivity | reflexivity | reflexivity |
                             rewrite E; unfold hrec_op; cbn [h_t h_res h_op pending pend_k is_del2]; rewrite ?Nat.eqb_refl; reflexivity]).
    - (* E2, get_or_emplace *)
      destruct (HT t) as [Ht _]. rewrite E in Ht. cbn [Tw] in Ht. destruct Ht as (((_ & _ & _ & Hnk) & Hnv) & _).
      eapply (Pend_intro s _ t Idle [LIns t (nkey (sm s) n) (nval (sm s) n) n] [mkH t (OGet key v) true _ _]);
        [exact HP | reflexivity | reflexivity | reflexivity | | |].
      + intros e [<- | []]. reflexivity.
      + intros h0 [<- | []]. reflexivity.
      + rewrite E, Hnk, Hnv. unfold proj_lin, proj_hist, hrec_op. cbn [flat_map lev_op pending h_t h_res h_op app].
        rewrite Nat.eqb_refl. reflexivity.
    - (* E2, emplace *)
      destruct (HT t) as [Ht _]. rewrite E in Ht. cbn [Tw] in Ht. destruct Ht as (((_ & _ & _ & Hnk) & Hnv) & _).
      eapply (Pend_intro s _ t Idle [LIns t (nkey (sm s) n) (nval (sm s) n) n] [mkH t (OIns key v) true _ _]);
        [exact HP | reflexivity | reflexivity | reflexivity | | |].
      + intros e [<- | []]. reflexivity.
      + intros h0 [<- | []]. reflexivity.
      + rewrite E, Hnk, Hnv. unfold proj_lin, proj_hist, hrec_op. cbn [flat_map lev_op pending h_t h_res h_op app].
        rewrite Nat.eqb_refl. reflexivity.
    - (* D1 *)
      destruct (HT t) as [Ht _]. rewrite E in Ht. cbn [Tw] in Ht. destruct Ht as (_ & _ & _ & _ & Hck & _).
      eapply (Pend_intro s _ t (D2 b h key sv cur nx) [LDel t (nkey (sm s) cur) cur false] []);
        [exact HP | reflexivity | reflexivity | | | |].
      + sprj2. rewrite app_nil_r. reflexivity.
      + intros e [<- | []]. reflexivity.
      + intros h0 [].
      + rewrite E, Hck. unfold proj_lin, proj_hist. cbn [flat_map lev_op pending app negb andb].
        rewrite Nat.eqb_refl. reflexivity.
    - (* X2 *)
      eapply (Pend_intro s _ t (X3 nx) [LDel t (nkey (sm s) (it_cur (its s t))) (it_cur (its s t)) true] []);
        [exact HP | reflexivity | reflexivity | | | |].
      + sprj2. rewrite app_nil_r. reflexivity.
      + intros e [<- | []]. reflexivity.
      + intros h0 [].
      + rewrite E. unfold proj_lin, proj_hist. cbn [flat_map lev_op pending app negb andb].
        rewrite Bool.andb_false_r. reflexivity.
  Qed.

  Theorem Pend_reach st : reach init step st -> Pend st.
  Proof.
    apply (inv_rule_aux _ _ _ init step Inv Pend Inv_reach).
    - intros t. reflexivity.
    - intros s a s' es HI _ HP Hst. destruct (step_split _ _ _ _ Hst) as (s1 & H0 & ->).
      intros t. exact (Pend_step0 _ _ _ _ HI HP H0 t).
  Qed.

  (** * What one step does to the memory (used by the step-level theorems and by Proof/HmmItInv.v) *)

  Definition ext (m : mem) (cs : N -> list N) (m' : mem) (cs' : N -> list N) (l : list lev) : Prop :=
    G m' cs' /\ (exists sp, mono m cs m' cs' sp) /\ g_lin m' = g_lin m ++ l /\
    (forall x, nmark m' x = true -> nmark m x = true \/ In x (del_nodes l)) /\
    (forall x, known m' cs' x -> known m cs x \/ In x (ins_nodes l)) /\
    (forall x, In x (g_retired m) -> In x (g_retired m')).

  Lemma ext_refl m cs : G m cs -> ext m cs m cs [].
  Proof.
    intros HG. split; [exact HG|]. split; [exists 0; apply mono_refl|]. split; [rewrite app_nil_r; reflexivity|]. auto.
  Qed.
  Lemma ext_alloc m cs k v : G m cs -> ext m cs (m_alloc m k v) cs [].
  Proof.
    intros HG. destruct (alloc_step m cs k v HG) as [HG' HM]. split; [exact HG'|]. split; [exists 0; exact HM|].
    split; [cbn [HmmDefs.m_alloc g_lin]; rewrite app_nil_r; reflexivity|]. split; [|split; [|auto]].
    - intros x Hx. left. cbn [HmmDefs.m_alloc nmark] in Hx. unfold setf in Hx. destruct (x =? nalloc m); [discriminate | exact Hx].
    - intros x Hx. left. apply (G_known_ins _ _ HG') in Hx. cbn [HmmDefs.m_alloc g_lin] in Hx. apply ins_nodes_in in Hx.
      destruct Hx as (t0 & k0 & v0 & Hx). exact (proj1 (G_lins _ _ HG _ _ _ _ Hx)).
  Qed.
  Lemma ext_store m cs n v : G m cs -> n <> 0 -> ~ known m cs n -> ext m cs (m_store m n v) cs [].
  Proof.
    intros HG Hnz Hnk. destruct (store_step m cs n v HG Hnz Hnk) as [HG' HM]. split; [exact HG'|]. split; [exists n; exact HM|].
    split; [cbn [m_store g_lin]; rewrite app_nil_r; reflexivity|]. split; [|split]; intros x Hx; auto.
  Qed.
  Lemma ext_link m cs t b sv n cur key :
    G m cs -> fresh m cs key n -> bucket_of key = b -> nnext m n = cur ->
    okref m cs b sv -> valid m b sv cur = true ->
    pre m (0 :: cs b) (hf key) key sv ->
    (cur <> 0 -> gef m (hf key) key cur = true /\ nkey m cur <> key) ->
    exists cs', ext m cs (m_link m t b sv n) cs' [LIns t (nkey m n) (nval m n) n].
  Proof.
    intros HG Hfr Hb Hnn Href Hv Hpre Hhi. apply valid_true in Hv. destruct Hv as [Hnx Hm].
    assert (Hsvc : In sv (0 :: cs b)) by (eapply ref_in_chain; eassumption).
    destruct (link_step m cs t b sv n cur key HG Hfr Hb Hnn Hsvc Hm Hnx Hpre Hhi) as (_ & cs' & HG' & HM & Hin).
    exists cs'. split; [exact HG'|]. split; [exists n; exact HM|]. split; [reflexivity|]. split; [|split; [|auto]].
    - intros x Hx. left. rewrite link_nmark in Hx. exact Hx.
    - intros x Hx. unfold known in *. rewrite (bk_ext m _ (link_nkey m t b sv n)) in Hx. change (g_retired (m_link m t b sv n)) with (g_retired m) in Hx.
      rewrite Hin in Hx. cbn [ins_nodes flat_map app In]. destruct Hx as [[[_ Hx] | Hx] | Hx]; auto.
  Qed.
  Lemma ext_mark m cs t cur it : G m cs -> known m cs cur -> nmark m cur = false ->
    ext m cs (m_mark m t cur it) cs [LDel t (nkey m cur) cur it].
  Proof.
    intros HG Hk Hm. assert (Hcc : In cur (cs (bk m cur))) by (apply unmarked_in_chain; assumption).
    destruct (mark_step m cs t cur it HG Hcc Hm) as (HG' & HM & _).
    split; [exact HG'|]. split; [exists 0; exact HM|]. split; [reflexivity|]. split; [|split; [|auto]].
    - intros x Hx. cbn [m_mark nmark] in Hx. unfold setf in Hx. destruct (N.eqb_spec x cur) as [Heq|Hne]; [right; left; symmetry; exact Heq | left; exact Hx].
    - intros x Hx. left. exact Hx.
  Qed.
  Lemma ext_unlink m cs b sv cur nx : G m cs -> okref m cs b sv -> valid m b sv cur = true ->
    cur <> 0 -> nmark m cur = true -> nnext m cur = nx ->
    exists cs', ext m cs (m_unlink m b sv cur nx) cs' [].
  Proof.
    intros HG Href Hv Hcnz Hcm Hcn. apply valid_true in Hv. destruct Hv as [Hnx Hm].
    assert (Hsvc : In sv (0 :: cs b)) by (eapply ref_in_chain; eassumption).
    destruct (unlink_step m cs b sv cur nx HG Hsvc Hm Hnx Hcnz Hcm Hcn) as (cs' & HG' & HM & Hcin & _ & _ & Hin & _).
    exists cs'. split; [exact HG'|]. split; [exists 0; exact HM|]. split; [cbn [m_unlink g_lin]; rewrite app_nil_r; reflexivity|].
    split; [|split].
    - intros x Hx. left. rewrite unlink_nmark in Hx. exact Hx.
    - intros x Hx. left. unfold known in *. rewrite (bk_ext m _ (unlink_nkey m b sv cur nx)) in Hx.
      change (g_retired (m_unlink m b sv cur nx)) with (g_retired m ++ [cur]) in Hx. rewrite in_app_iff in Hx. cbn [In] in Hx.
      destruct Hx as [Hx | [Hx | [Hx | []]]]; [left; apply Hin; right; exact Hx | right; exact Hx|].
      subst x. left. rewrite (G_bk _ _ HG _ _ Hcin). exact Hcin.
    - intros x Hx. change (g_retired (m_unlink m b sv cur nx)) with (g_retired m ++ [cur]). apply in_or_app. left. exact Hx.
  Qed.

  Lemma step0_ext s a s' es cs : G (sm s) cs -> (forall t, T s cs t) -> step0 s a = Some (s', es) ->
    exists cs' l, ext (sm s) cs (sm s') cs' l.
  Proof.
    intros HG HT Hst.
    step0_cases Hst s; sprj; try (exists cs, []; apply ext_refl; exact HG);
      try (exists cs, []; apply ext_alloc; exact HG);
      destruct (HT t) as [Ht Hit]; rewrite E in Ht; cbn [Tw] in Ht.
    - (* F5 unlink *) destruct Ht as (_ & _ & Hsv & Hcur & Hm & Hn).
      destruct (ext_unlink (sm s) cs b sv cur nx HG (proj1 Hsv) Hc (proj1 Hcur) Hm Hn) as (cs' & He). exists cs', []. exact He.
    - (* E1 store *) destruct Ht as ((Hfr & _) & _). exists cs, []. apply ext_store; [exact HG | exact (proj1 Hfr) | exact (proj1 (proj2 (proj2 Hfr)))].
    - (* E2 link, get_or_emplace *) destruct Ht as ((Hfr & _) & Hh & Hb & Hsv & Hcurc & Hnn).
      destruct (ext_link (sm s) cs t b sv n cur key HG Hfr (eq_sym Hb) Hnn (proj1 Hsv) Hc) as (cs' & He);
        [rewrite <- Hh; exact (proj2 Hsv) | intros Hz; rewrite <- Hh; exact (proj2 (Hcurc Hz)) | exists cs'; eexists; exact He].
    - (* E2 link, emplace *) destruct Ht as ((Hfr & _) & Hh & Hb & Hsv & Hcurc & Hnn).
      destruct (ext_link (sm s) cs t b sv n cur key HG Hfr (eq_sym Hb) Hnn (proj1 Hsv) Hc) as (cs' & He);
        [rewrite <- Hh; exact (proj2 Hsv) | intros Hz; rewrite <- Hh; exact (proj2 (Hcurc Hz)) | exists cs'; eexists; exact He].
    - (* D1 mark *) destruct Ht as (_ & _ & _ & Hcur & _). apply cond_true in Hc. destruct Hc as [_ Hcm].
      exists cs. eexists. apply ext_mark; [exact HG | exact (proj1 (proj2 Hcur)) | exact Hcm].
    - (* D2 unlink *) destruct Ht as (_ & _ & Hsv & Hcur & _ & Hm & Hn & _).
      destruct (ext_unlink (sm s) cs b sv cur nx HG (proj1 Hsv) Hc (proj1 Hcur) Hm Hn) as (cs' & He). exists cs', []. exact He.
    - (* X2 mark *) destruct Ht as [Hnz _]. apply cond_true in Hc. destruct Hc as [_ Hcm].
      exists cs. eexists. apply ext_mark; [exact HG | exact (proj1 (proj2 (proj2 (proj2 Hit Hnz)))) | exact Hcm].
    - (* X3 unlink, next bucket *) destruct Ht as (Hnz & Hm & Hn).
      destruct (ext_unlink (sm s) cs _ _ _ nx HG (proj1 Hit) Hc Hnz Hm Hn) as (cs' & He). exists cs', []. exact He.
    - destruct Ht as (Hnz & Hm & Hn).
      destruct (ext_unlink (sm s) cs _ _ _ nx HG (proj1 Hit) Hc Hnz Hm Hn) as (cs' & He). exists cs', []. exact He.
    - destruct Ht as (Hnz & Hm & Hn).
      destruct (ext_unlink (sm s) cs _ _ _ nx HG (proj1 Hit) Hc Hnz Hm Hn) as (cs' & He). exists cs', []. exact He.
  Qed.

  (** * Theorems *)

  (** the order of the chains in plain words, for the three ordering predicates *)
  Lemma le2_nomemo m x y : memo = false -> (le2 m y x = false <-> nkey m x < nkey m y).
  Proof. intros H. unfold le2, HmmDefs.gef. rewrite H. lia. Qed.
  Lemma le2_lex m x y : memo = true -> lex = true ->
    (le2 m y x = false <-> nhash m x < nhash m y \/ (nhash m x = nhash m y /\ nkey m x < nkey m y)).
  Proof. intros H1 H2. unfold le2, HmmDefs.gef, HmmDefs.nh. rewrite H1, H2. destruct (N.eqb_spec (nhash m x) (nhash m y)); lia. Qed.
  Lemma le2_conj m x y : memo = true -> lex = false ->
    (le2 m y x = false <-> nhash m x < nhash m y \/ nkey m x < nkey m y).
  Proof. intros H1 H2. unfold le2, HmmDefs.gef, HmmDefs.nh. rewrite H1, H2. lia. Qed.

  Section Theorems.
    Variable st : state.
    Hypothesis Hreach : reach init step st.

    Let HI := Inv_chain st (Inv_reach st Hreach).

    (** 1a. structure of every bucket chain: [buckets[b]] points to its first node, every node to the following
        one, the last one to null; ordered by the predicate the code uses ([le2 y x = false]: the later node is
        not [<=] the earlier one); duplicate-free (acyclic); all nodes allocated, in the bucket their hash
        selects, and their stored hash is the hash of their key *)
    Theorem hmm_structure b :
      linksto (pnext (sm st) b) (0 :: chain (sm st) b) 0 /\
      StronglySorted (fun x y => le2 (sm st) y x = false) (chain (sm st) b) /\
      NoDup (chain (sm st) b) /\
      (forall x, In x (chain (sm st) b) ->
         x <> 0 /\ x < nalloc (sm st) /\ bucket_of (nkey (sm st) x) = b /\ nhash (sm st) x = hf (nkey (sm st) x)).
    Proof.
      destruct HI as (cs & Hext & HG & _ & _). rewrite <- Hext.
      split; [exact (G_links _ _ HG b)|].
      pose proof (G_sorted _ _ HG b) as HS. apply SS_cons_inv in HS. destruct HS as [HS HS0].
      pose proof (G_nodup _ _ b HG) as HN. inversion HN as [|a l Hn0 HN']; subst.
      split; [|split; [exact HN'|]].
      - eapply SS_ext; [|exact HS]. intros x y Hx Hy [_ [H0 | Hlt]]; [|exact Hlt].
        exfalso. exact (chain_nz _ _ _ _ HG Hx H0).
      - intros x Hx. assert (Hxnz : x <> 0) by (eapply chain_nz; eassumption).
        assert (Hlt : x < nalloc (sm st)) by (eapply chain_bound; eassumption).
        split; [exact Hxnz|]. split; [exact Hlt|]. split; [exact (G_bk _ _ HG _ _ Hx) | exact (G_hash _ _ HG x Hxnz Hlt)].
    Qed.

    (** the chains of different buckets are disjoint *)
    Theorem hmm_buckets_disjoint b b' x : In x (chain (sm st) b) -> In x (chain (sm st) b') -> b = b'.
    Proof.
      destruct HI as (cs & Hext & HG & _ & _). rewrite <- !Hext. intros H1 H2.
      rewrite <- (G_bk _ _ HG _ _ H1). exact (G_bk _ _ HG _ _ H2).
    Qed.

    (** 1b. retired nodes: each node is retired at most once, retired nodes are not reachable, are marked and
        allocated; marked nodes are reachable or retired; a node that was linked and is unmarked is reachable
        in the bucket of its key *)
    Theorem hmm_retired :
      NoDup (g_retired (sm st)) /\
      (forall x, In x (g_retired (sm st)) ->
         (forall b, ~ In x (chain (sm st) b)) /\ nmark (sm st) x = true /\ x <> 0 /\ x < nalloc (sm st)) /\
      (forall x, nmark (sm st) x = true -> (exists b, In x (chain (sm st) b)) \/ In x (g_retired (sm st))) /\
      (forall t k v n, In (LIns t k v n) (g_lin (sm st)) -> nmark (sm st) n = false -> In n (chain (sm st) (bucket_of k))).
    Proof.
      destruct HI as (cs & Hext & HG & _ & _).
      split; [exact (G_ret_nodup _ _ HG)|]. split; [|split].
      - intros x Hx. split; [|split; [exact (G_ret_marked _ _ HG x Hx)|split]].
        + intros b Hc. rewrite <- Hext in Hc. exact (G_disj _ _ HG _ _ Hc Hx).
        + intros ->. exact (G_ret_nz _ _ HG Hx).
        + apply (G_bound _ _ HG). right. exact Hx.
      - intros x Hx. destruct (G_marked_known _ _ HG x Hx) as [Hk | Hk]; [left | right; exact Hk].
        exists (bk (sm st) x). rewrite <- Hext. exact Hk.
      - intros t k v n Hin Hm. destruct (G_lins _ _ HG _ _ _ _ Hin) as (H1 & H2 & _). rewrite <- Hext, <- H2.
        apply unmarked_in_chain; assumption.
    Qed.

    (** 2. abstraction: [g_abs] is, as a map with unique keys, the set of key/value pairs of the unmarked nodes
        reachable from the bucket heads - a key is looked for in the bucket its hash selects, and the union
        over all buckets gives the same map; it is the result of applying the successful mutating operations
        in the order of their linearization points *)
    Theorem hmm_abs :
      NoDup (keys (g_abs (sm st))) /\
      (forall k v, In (k, v) (g_abs (sm st)) <->
         exists x, In x (chain (sm st) (bucket_of k)) /\ nmark (sm st) x = false /\ nkey (sm st) x = k /\ nval (sm st) x = v) /\
      (forall k v, In (k, v) (g_abs (sm st)) <->
         exists b x, In x (chain (sm st) b) /\ nmark (sm st) x = false /\ nkey (sm st) x = k /\ nval (sm st) x = v) /\
      g_abs (sm st) = apply_lin (g_lin (sm st)).
    Proof.
      destruct HI as (cs & Hext & HG & _ & _).
      split; [exact (G_abs_nodup _ _ HG)|]. split; [|split; [|exact (G_fold _ _ HG)]].
      - intros k v. rewrite (G_abs _ _ HG), Hext. tauto.
      - intros k v. rewrite (G_abs _ _ HG). split.
        + intros (x & H). exists (bucket_of k), x. rewrite <- Hext. exact H.
        + intros (b & x & H1 & H2 & H3 & H4). exists x. rewrite <- Hext in H1.
          rewrite <- H3. change (bucket_of (nkey (sm st) x)) with (bk (sm st) x). rewrite (G_bk _ _ HG _ _ H1). auto.
    Qed.

    (** 3a. linearization of the completed operations: for every completed map operation the recorded witness
        is [Some mo], where [mo] is the lookup of the key in [g_abs] at the operation's linearization point, and
        result and value seen are those of the sequential map: an insertion succeeds iff the key was absent
        (get_or_emplace then sees its own value, otherwise the stored one), an erase succeeds iff it was
        present, contains / find return the membership (and the stored value) *)
    Theorem hmm_hist h : In h (g_hist st) -> hist_ok h.
    Proof. apply (Hist_reach st Hreach). Qed.

    (** 3b. the successful mutators: each [LDel t k n it] is the successful mark CAS of thread t on node n with
        key k, and no node is marked by two of them (of several racing erases of the same node exactly one
        succeeds); each [LIns t k v n] linked a distinct node carrying key k and value v *)
    Theorem hmm_lin_nodes :
      (forall t k n i, In (LDel t k n i) (g_lin (sm st)) -> nmark (sm st) n = true /\ nkey (sm st) n = k) /\
      NoDup (del_nodes (g_lin (sm st))) /\
      (forall t k v n, In (LIns t k v n) (g_lin (sm st)) ->
         ((exists b, In n (chain (sm st) b)) \/ In n (g_retired (sm st))) /\ n <> 0 /\ nkey (sm st) n = k /\ nval (sm st) n = v) /\
      NoDup (ins_nodes (g_lin (sm st))) /\
      (forall x, nmark (sm st) x = true -> In x (del_nodes (g_lin (sm st)))) /\
      (forall b x, In x (chain (sm st) b) -> In x (ins_nodes (g_lin (sm st)))).
    Proof.
      destruct HI as (cs & Hext & HG & _ & _).
      split; [exact (G_ldel _ _ HG)|]. split; [exact (G_ldel_nodup _ _ HG)|]. split; [|split; [exact (G_lins_nodup _ _ HG)|split]].
      - intros t k v n Hin. destruct (G_lins _ _ HG _ _ _ _ Hin) as (H1 & H2 & H3).
        split; [|split; [eapply known_nz; eassumption | auto]].
        destruct H1 as [H1 | H1]; [left; exists (bk (sm st) n); rewrite <- Hext; exact H1 | right; exact H1].
      - exact (G_marked_del _ _ HG).
      - intros b x Hx. rewrite <- Hext in Hx. apply (G_known_ins _ _ HG). eapply known_chain; eassumption.
    Qed.

    (** 3c. per thread, the successful map mutators in linearization order are exactly the thread's completed
        successful emplace / get_or_emplace / erase(key) calls, followed by the erase that has marked its node and
        not yet returned (if any): an erase returns ok iff it performed a successful mark CAS *)
    Theorem hmm_pending t : proj_lin t (g_lin (sm st)) = proj_hist t (g_hist st) ++ pending (th st t).
    Proof. apply (Pend_reach st Hreach). Qed.

    (** 4. conservation: at quiescence the map in the buckets is the result of applying the successful
        operations (in linearization order, which preserves the order of each thread's completed successful
        operations) to the empty map *)
    Corollary hmm_quiescent : (forall t, th st t = Idle) ->
      g_abs (sm st) = apply_lin (g_lin (sm st)) /\
      (forall t, proj_lin t (g_lin (sm st)) = proj_hist t (g_hist st)).
    Proof.
      intros Hq. destruct hmm_abs as (_ & _ & _ & Hfold). split; [exact Hfold|].
      intros t. rewrite (hmm_pending t), (Hq t). cbn [pending]. apply app_nil_r.
    Qed.
  End Theorems.

  (** * Step-level theorems *)

  (** 3d. the abstract map changes exactly at the linearization points of the mutators: the successful link CAS
      (program point E2) adds a key that was absent with the value of the call; the successful mark CAS of
      erase(key) (D1) or erase(iterator) (X2) on an unmarked reachable node removes its key, which was present *)
  Theorem hmm_abs_step s a s' es : reach init step s -> step s a = Some (s', es) ->
    (g_abs (sm s') = g_abs (sm s) /\ g_lin (sm s') = g_lin (sm s)) \/
    (exists t g n v b h key sv cur, a = Step t /\ th s t = E2 g n v b h key sv cur /\
       lookup key (g_abs (sm s)) = None /\ g_abs (sm s') = (key, v) :: g_abs (sm s) /\
       g_lin (sm s') = g_lin (sm s) ++ [LIns t key v n]) \/
    (exists t cur it, a = Step t /\
       ((exists b h key sv nx, th s t = D1 b h key sv cur nx /\ it = false) \/ (exists nx, th s t = X2 nx /\ cur = it_cur (its s t) /\ it = true)) /\
       nmark (sm s) cur = false /\ nmark (sm s') cur = true /\ In cur (chain (sm s) (bk (sm s) cur)) /\
       lookup (nkey (sm s) cur) (g_abs (sm s)) = Some (nval (sm s) cur) /\
       g_abs (sm s') = remk (nkey (sm s) cur) (g_abs (sm s)) /\
       g_lin (sm s') = g_lin (sm s) ++ [LDel t (nkey (sm s) cur) cur it]).
  Proof.
    intros Hr Hst. destruct (Inv_chain s (Inv_reach s Hr)) as (cs & Hext & HG & HT & HU).
    destruct (step_split _ _ _ _ Hst) as (s1 & H0 & ->). clear Hst.
    step0_cases H0 s; sprj2; cbn [refresh sm]; sprj2; try (left; split; reflexivity);
      destruct (HT t) as [Ht Hit]; rewrite E in Ht; cbn [Tw] in Ht.
    - (* E2, get_or_emplace *) right. left. destruct Ht as (((_ & _ & _ & Hnk) & Hnv) & Hh & Hb & Hsv & Hcurc & Hnn).
      apply valid_true in Hc. destruct Hc as [Hnx Hm].
      assert (Hsvc : In sv (0 :: cs b)) by (eapply ref_in_chain; [exact HG | exact (proj1 Hsv) | exact Hm]).
      exists t, true, n, v, b, h, key, sv, cur. split; [reflexivity|]. split; [exact E|]. rewrite Hnk, Hnv. split; [|split; reflexivity].
      apply (absent (sm s) cs b sv cur key HG Hb Hsvc Hnx); [rewrite <- Hh; exact (proj2 Hsv)|].
      intros Hz. rewrite <- Hh. exact (proj2 (Hcurc Hz)).
    - (* E2, emplace *) right. left. destruct Ht as (((_ & _ & _ & Hnk) & Hnv) & Hh & Hb & Hsv & Hcurc & Hnn).
      apply valid_true in Hc. destruct Hc as [Hnx Hm].
      assert (Hsvc : In sv (0 :: cs b)) by (eapply ref_in_chain; [exact HG | exact (proj1 Hsv) | exact Hm]).
      exists t, false, n, v, b, h, key, sv, cur. split; [reflexivity|]. split; [exact E|]. rewrite Hnk, Hnv. split; [|split; reflexivity].
      apply (absent (sm s) cs b sv cur key HG Hb Hsvc Hnx); [rewrite <- Hh; exact (proj2 Hsv)|].
      intros Hz. rewrite <- Hh. exact (proj2 (Hcurc Hz)).
    - (* D1 *) right. right. destruct Ht as (_ & _ & _ & Hcur & _). apply cond_true in Hc. destruct Hc as [_ Hcm].
      assert (Hcc : In cur (cs (bk (sm s) cur))) by (apply unmarked_in_chain; [exact HG | exact (proj1 (proj2 Hcur)) | exact Hcm]).
      exists t, cur, false. split; [reflexivity|]. split; [left; eauto 8|]. split; [exact Hcm|]. split; [apply setf_same|].
      split; [rewrite <- Hext; exact Hcc|]. split; [apply (abs_lookup _ cs); assumption | split; reflexivity].
    - (* X2 *) right. right. destruct Ht as [Hnz _]. apply cond_true in Hc. destruct Hc as [_ Hcm].
      destruct (proj2 Hit Hnz) as [_ Hon].
      assert (Hcc : In (it_cur (its s t)) (cs (bk (sm s) (it_cur (its s t)))))
        by (apply unmarked_in_chain; [exact HG | exact (proj1 (proj2 Hon)) | exact Hcm]).
      exists t, (it_cur (its s t)), true. split; [reflexivity|]. split; [right; eauto|]. split; [exact Hcm|]. split; [apply setf_same|].
      split; [rewrite <- Hext; exact Hcc|]. split; [apply (abs_lookup _ cs); assumption | split; reflexivity].
  Qed.

  (** 1d. keys, values and stored hashes never change, a marked node is never unmarked and its next pointer never
      changes, retired nodes stay retired, allocation only grows *)
  Theorem hmm_frozen_step s a s' es : reach init step s -> step s a = Some (s', es) ->
    nalloc (sm s) <= nalloc (sm s') /\
    (forall x, In x (g_retired (sm s)) -> In x (g_retired (sm s'))) /\
    forall x, (x < nalloc (sm s) -> nkey (sm s') x = nkey (sm s) x /\ nval (sm s') x = nval (sm s) x /\ nhash (sm s') x = nhash (sm s) x) /\
              (nmark (sm s) x = true -> nmark (sm s') x = true /\ nnext (sm s') x = nnext (sm s) x).
  Proof.
    intros Hr Hst. destruct (Inv_reach s Hr) as (cs & HG & HT & HU).
    destruct (step_split _ _ _ _ Hst) as (s1 & H0 & ->).
    destruct (step0_ext _ _ _ _ cs HG HT H0) as (cs' & l & _ & (sp & HM) & _ & _ & _ & Hret).
    cbn [refresh sm]. split; [exact (M_alloc _ _ _ _ _ HM)|]. split; [exact Hret|].
    intros x. split; [apply (M_key _ _ _ _ _ HM) | apply (M_mark _ _ _ _ _ HM)].
  Qed.

  (** ** the ghosts [g_lp], [g_hist] and the calls *)

  Definition op_of (c : fk) (key : N) : op :=
    match c with
    | KIns _ v => OIns key v | KGet _ v => OGet key v | KDel | KDel2 => ODel key | KHas => OHas key
    | KFind => OFind key | KItF => OItF key | KItN _ => OItN | KItE _ => OItE
    end.
  Definition mk_op (c : mk) : op := match c with MBeg => OItB | MNext => OItN | MErase _ => OItE end.
  (** the operation a thread is executing *)
  Definition cur_op (p : pc) : option op :=
    match p with
    | Idle => None
    | Begin o => Some o
    | F1 c _ _ key _ | F2 c _ _ key _ _ _ | F3 c _ _ key _ _ _ | F4 c _ _ key _ _ _ | F5 c _ _ key _ _ _ _
    | F6 c _ _ key _ _ _ _ _ => Some (op_of c key)
    | E1 g _ v _ _ key _ _ | E2 g _ v _ _ key _ _ => Some (if g then OGet key v else OIns key v)
    | D1 _ _ key _ _ _ | D2 _ _ key _ _ _ => Some (ODel key)
    | MB c _ => Some (mk_op c)
    | N1 | N2 _ => Some OItN
    | X1 | X2 _ | X3 _ => Some OItE
    end.
  Definition op_key (o : op) : N :=
    match o with OIns k _ | OGet k _ | ODel k | OHas k | OFind k | OItF k => k | _ => 0 end.
  (** the operations of the map specification (the others only move an iterator) *)
  Definition map_op (o : op) : bool :=
    match o with OIns _ _ | OGet _ _ | ODel _ | OHas _ | OFind _ | OItF _ => true | _ => false end.
  (** the printed result of a map operation with result flag [b] and value seen [v] *)
  Definition ret_enc (o : op) (b : bool) (v : N) : list N :=
    match o with
    | OIns _ _ => [0; b2n b] | OGet k _ => [1; b2n b; k; v] | ODel _ => [2; b2n b] | OHas _ => [3; b2n b]
    | OFind k => 4 :: (if b then [1; k] else [0]) | OItF k => 6 :: (if b then [1; k] else [0])
    | _ => []
    end.

  (** the operation of a call does not change until the call returns *)
  Theorem hmm_op_step s a s' es u o : step s a = Some (s', es) -> cur_op (th s u) = Some o ->
    th s' u = Idle \/ cur_op (th s' u) = Some o.
  Proof.
    intros Hst Hop. destruct (step_split _ _ _ _ Hst) as (s1 & H0 & ->). clear Hst. cbn [refresh th].
    step0_cases H0 s; sprj2; unfold HmmDefs.end_trav; sprj2;
      (destruct (Nat.eq_dec u t) as [->|Hne]; [|right; rewrite upd_other by exact Hne; exact Hop]);
      rewrite upd_same; rewrite E in Hop; cbn [cur_op op_of mk_op] in Hop; try discriminate Hop; injection Hop as <-;
      first [left; reflexivity | right; reflexivity | right; destruct g; reflexivity | right; destruct c; reflexivity].
  Qed.

  (** [g_lp u] is changed only by steps of thread u itself: reset at the first step of a call, otherwise (map
      operations) set to the lookup of the call's key in the abstract map of the state in which the step is
      taken (an instant inside the call) *)
  Theorem hmm_lp_step s a s' es u o : step s a = Some (s', es) -> cur_op (th s u) = Some o -> map_op o = true ->
    g_lp s' u = g_lp s u \/
    (a = Step u /\ ((th s u = Begin o /\ g_lp s' u = None) \/ g_lp s' u = Some (lookup (op_key o) (g_abs (sm s))))).
  Proof.
    intros Hst Hop Hmo. destruct (step_split _ _ _ _ Hst) as (s1 & H0 & ->). clear Hst. cbn [refresh g_lp].
    step0_cases H0 s; sprj2; unfold HmmDefs.end_trav; sprj2; try (left; reflexivity);
      (destruct (Nat.eq_dec u t) as [->|Hne]; [|left; apply upd_other; exact Hne]);
      rewrite ?upd_same; rewrite E in Hop; cbn [cur_op op_of mk_op] in Hop; try discriminate Hop; injection Hop as <-;
      cbn [map_op] in Hmo; try discriminate Hmo;
      first [ left; reflexivity
            | right; split; [reflexivity|]; left; split; [exact E | reflexivity]
            | right; split; [reflexivity|]; right; reflexivity
            | right; split; [reflexivity|]; right; destruct g; reflexivity
            | destruct c; cbn [map_op op_of] in Hmo; try discriminate Hmo; (right; split; [reflexivity|]; right; reflexivity) ].
  Qed.

  Ltac in_crush H :=
    unfold mk_res in H; cbn [In app] in H;
    repeat match type of H with
           | _ \/ _ => destruct H as [H | H]
           | context [if ?b then _ else _] => destruct b; cbn [In app] in H
           | context [match ?c with MBeg => _ | _ => _ end] => destruct c; cbn [In app] in H
           end;
    try discriminate H; try contradiction.

  (** a result of a map operation is returned exactly by the last step of the call; the step records the
      operation, the result, the value seen and the current [g_lp] of the thread in [g_hist] *)
  Theorem hmm_ret_step s a s' es u r : reach init step s -> step s a = Some (s', es) -> In (ERet u r) es ->
    exists o, a = Step u /\ cur_op (th s u) = Some o /\ th s' u = Idle /\
      (map_op o = true -> exists b v, r = ret_enc o b v /\ g_hist s' = g_hist s ++ [mkH u o b v (g_lp s' u)]).
  Proof.
    intros Hr Hst Hin. destruct (Inv_reach s Hr) as (cs & HG & HT & HU).
    destruct (step_split _ _ _ _ Hst) as (s1 & H0 & ->). clear Hst. cbn [refresh th g_hist g_lp].
    step0_cases H0 s; in_crush Hin; injection Hin as <- <-;
      (eexists; split; [reflexivity|]; split; [rewrite E; reflexivity|]);
      sprj2; unfold HmmDefs.end_trav; sprj2; rewrite ?upd_same; (split; [reflexivity|]);
      cbn [map_op op_of mk_op]; intros Hmo; try discriminate Hmo;
      try (eexists _, _; split; [|reflexivity]; cbn [ret_enc b2n]; reflexivity);
      try (destruct g; discriminate Hmo).
    all: destruct (HT t) as [Ht _]; rewrite E in Ht; cbn [Tw] in Ht;
      destruct Ht as (_ & _ & _ & (Hcnz & _) & _);
      apply valid_true in Hc0 || idtac.
    all: unfold pos_res; destruct (N.eqb_spec cur 0) as [Hz|_]; [contradiction|];
      match goal with H : (nkey _ _ =? _) = true |- _ => apply N.eqb_eq in H; rewrite H end;
      eexists _, _; split; [|reflexivity]; reflexivity.
  Qed.

  (** steps that return nothing for a map operation leave [g_hist] unchanged *)
  Theorem hmm_hist_step s a s' es : step s a = Some (s', es) ->
    g_hist s' = g_hist s \/ exists t r h, In (ERet t r) es /\ g_hist s' = g_hist s ++ [h] /\ h_t h = t.
  Proof.
    intros Hst. destruct (step_split _ _ _ _ Hst) as (s1 & H0 & ->). clear Hst. cbn [refresh g_hist].
    step0_cases H0 s; sprj2; unfold HmmDefs.end_trav; sprj2; try (left; reflexivity);
      right; eexists _, _, _; (split; [|split; [reflexivity | reflexivity]]);
      cbn [In app]; rewrite ?in_app_iff; cbn [In]; eauto 8.
  Qed.

  (** ** trace-level form: the linearization instant lies inside the call *)

  (** [in_call u o s0 s]: thread u took the first step of a call of [o] from [s0], and [s] is a later state of
      the execution up to and including the state right after the call's return *)
  Inductive in_call (u : nat) (o : op) (s0 : state) : state -> Prop :=
  | ic_first s1 es : th s0 u = Begin o -> step s0 (Step u) = Some (s1, es) -> in_call u o s0 s1
  | ic_next s a s' es : in_call u o s0 s -> th s u <> Idle -> step s a = Some (s', es) -> in_call u o s0 s'.

  Lemma in_call_reach u o s0 s : reach init step s0 -> in_call u o s0 s -> reach init step s.
  Proof. intros Hr H. induction H; eapply reach_step; eauto. Qed.

  Lemma begin_lp u o s0 s1 es : th s0 u = Begin o -> map_op o = true -> step s0 (Step u) = Some (s1, es) -> g_lp s1 u = None.
  Proof.
    intros Hb Hmo Hst. destruct (step_split _ _ _ _ Hst) as (s2 & H0 & ->). unfold HmmDefs.step0 in H0. rewrite Hb in H0.
    cbn [refresh g_lp]. destruct o; try discriminate Hmo; injection H0 as <- _; sprj2; apply upd_same.
  Qed.

  Lemma in_call_lp u o s0 s : map_op o = true -> in_call u o s0 s ->
    (th s u = Idle \/ cur_op (th s u) = Some o) /\
    (g_lp s u = None \/
     exists s1, in_call u o s0 s1 /\ reach_from step s1 s /\ g_lp s u = Some (lookup (op_key o) (g_abs (sm s1)))).
  Proof.
    intros Hmo. induction 1 as [s1 es Hb Hst | s a s' es Hic IH Hni Hst].
    - split; [eapply hmm_op_step; [exact Hst | rewrite Hb; reflexivity]|]. left. eapply begin_lp; eassumption.
    - destruct IH as [[Hidle | Hop] Hlp]; [contradiction|].
      split; [eapply hmm_op_step; eassumption|].
      destruct (hmm_lp_step s a s' es u o Hst Hop Hmo) as [Heq | (-> & [[Hbeg Hn] | Hset])].
      + rewrite Heq. destruct Hlp as [Hn | (s1 & H1 & H2 & H3)]; [left; exact Hn | right].
        exists s1. split; [exact H1|]. split; [eapply rf_step; eassumption | exact H3].
      + left. exact Hn.
      + right. exists s. split; [exact Hic|]. split; [eapply rf_step; [apply rf_refl | exact Hst] | exact Hset].
  Qed.

  (** 3e. MAIN THEOREM (linearizability of every call of a map operation).  Take any execution, any call of a map
      operation [o] (emplace, get_or_emplace, erase(key), contains, find) by a thread [u] (first step taken from
      [s0]) and the step that returns its result [r].  Then there is a state [s1] strictly inside the call - after
      the call's first step, not later than the returning step - such that [r] encodes the answer of the
      sequential map specification [res_for] for the lookup of the key in the abstract map [g_abs (sm s1)].
      ([g_abs] itself changes only at the linearization points of the successful insertions / erasures,
      [hmm_abs_step], and equals the map stored in the buckets, [hmm_abs]; [res_for] does not depend on the bucket
      count, the memoization mode, the ordering predicate or the hash function.) *)
  Theorem hmm_call_linearizable u o s0 s a s' es r :
    reach init step s0 -> map_op o = true -> in_call u o s0 s -> step s a = Some (s', es) -> In (ERet u r) es ->
    exists b v s1, r = ret_enc o b v /\ in_call u o s0 s1 /\ reach_from step s1 s' /\
      (b, v) = res_for o (lookup (op_key o) (g_abs (sm s1))).
  Proof.
    intros Hr Hmo Hic Hst Hin.
    assert (Hrs : reach init step s) by exact (in_call_reach _ _ _ _ Hr Hic).
    destruct (hmm_ret_step s a s' es u r Hrs Hst Hin) as (o' & -> & Hop & Hidle & Hrec).
    destruct (in_call_lp u o s0 s Hmo Hic) as [[Hi | Hop'] _]; [rewrite Hi in Hop; discriminate|].
    assert (o' = o) by congruence. subst o'.
    destruct (Hrec Hmo) as (b & v & -> & Hh).
    assert (Hni : th s u <> Idle) by (intros Hc; rewrite Hc in Hop; discriminate).
    assert (Hic' : in_call u o s0 s') by (eapply ic_next; eassumption).
    assert (Hr' : reach init step s') by exact (in_call_reach _ _ _ _ Hr Hic').
    assert (Hok : hist_ok (mkH u o b v (g_lp s' u))).
    { apply (Hist_reach s' Hr'). rewrite Hh. apply in_or_app. right. left. reflexivity. }
    destruct Hok as (mo & Hw & Hres). cbn [h_wit h_res h_val h_op] in Hw, Hres.
    destruct (in_call_lp u o s0 s' Hmo Hic') as [_ [Hn | (s1 & H1 & H2 & H3)]]; [rewrite Hn in Hw; discriminate|].
    exists b, v, s1. split; [reflexivity|]. split; [exact H1|]. split; [exact H2|].
    rewrite H3 in Hw. injection Hw as <-. exact Hres.
  Qed.
End Inv.

(** * The options do not change the behaviour *)

(** the effect of a linearization event on the abstract map: it depends on the key (and the value) only *)
Definition lev_eff (e : lev) : (N * N) + N := match e with LIns _ k v _ => inl (k, v) | LDel _ k _ _ => inr k end.
Definition apply_eff (s : list (N * N)) (x : (N * N) + N) : list (N * N) :=
  match x with inl p => p :: s | inr k => remk k s end.

Lemma apply_lin_eff l : apply_lin l = fold_left apply_eff (map lev_eff l) [].
Proof.
  unfold apply_lin. generalize (@nil (N * N)). induction l as [|e l IH]; intros acc; [reflexivity|].
  cbn [fold_left map]. rewrite IH. destruct e; reflexivity.
Qed.

(** 5. "Key ordering / hash memoization options do not change this behaviour": the abstract map is the same function
    of the sequence of successful insertions and erasures for every bucket count, both memoization modes, both
    ordering predicates and every hash function; and the result of every operation is [res_for] of the lookup
    in that map ([hmm_call_linearizable], [hmm_hist]), a function that does not mention the options *)
Theorem hmm_options_irrelevant nb memo lex hf nb' memo' lex' hf' s s' :
  reach (init nb) (step nb memo lex hf) s -> reach (init nb') (step nb' memo' lex' hf') s' ->
  map lev_eff (g_lin (sm s)) = map lev_eff (g_lin (sm s')) -> g_abs (sm s) = g_abs (sm s').
Proof.
  intros Hr Hr' He.
  destruct (hmm_abs nb memo lex hf s Hr) as (_ & _ & _ & H1). destruct (hmm_abs nb' memo' lex' hf' s' Hr') as (_ & _ & _ & H2).
  rewrite H1, H2, !apply_lin_eff, He. reflexivity.
Qed.

(** * Examples: reachable states computed with the executable model *)

Definition steps (t : nat) (n : nat) : list action := repeat (Step t) n.
(** run a call to completion: the surplus steps of an idle thread are skipped by [run] *)
Definition call (t : nat) (o : op) : list action := Start t o :: steps t 40.
Definition st_of nb memo lex hf (acts : list action) : state := fst (fst (run (step nb memo lex hf) (init nb) acts)).

Lemma st_of_reach nb memo lex hf acts : reach (init nb) (step nb memo lex hf) (st_of nb memo lex hf acts).
Proof. apply (run_reach _ _ _ (init nb) (step nb memo lex hf) acts). Qed.

(** T1: emplace(10,100); emplace(15,150); emplace(20,200) (nodes 1, 2, 3) *)
Definition ex_ins : list action := call 1 (OIns 10 100) ++ call 1 (OIns 15 150) ++ call 1 (OIns 20 200).

(** (hmm_structure, hmm_abs) two buckets, memoized hash k mod 2: keys 10 and 20 live in bucket 0, key 15 in
    bucket 1; the abstract map is the union *)
Example ex_ins_buckets :
  let st := st_of 2 true true hf_mod2 ex_ins in
  chain (sm st) 0 = [1; 3] /\ chain (sm st) 1 = [2] /\ g_abs (sm st) = [(20, 200); (15, 150); (10, 100)] /\
  g_lin (sm st) = [LIns 1 10 100 1; LIns 1 15 150 2; LIns 1 20 200 3].
Proof. vm_compute. repeat split. Qed.

(** (hmm_structure, le2_lex, le2_conj) one bucket, memoized hash 1000 - k: the code orders the chain by (hash, key),
    i.e. by decreasing key; the former predicate [hash >= h && key >= k] leaves the insertion order; the
    abstract map is the same (hmm_options_irrelevant) *)
Example ex_ins_order :
  let st := st_of 1 true true hf_rev ex_ins in let st' := st_of 1 true false hf_rev ex_ins in
  map (nkey (sm st)) (chain (sm st) 0) = [20; 15; 10] /\ map (nkey (sm st')) (chain (sm st') 0) = [10; 15; 20] /\
  g_abs (sm st) = g_abs (sm st') /\ g_abs (sm st) = g_abs (sm (st_of 4 false true hf_id ex_ins)).
Proof. vm_compute. repeat split. Qed.

(** T2: erase(20), preempted between its mark CAS and its unlink CAS *)
Definition ex_marked : list action := ex_ins ++ Start 2 (ODel 20) :: steps 2 9.

(** (hmm_structure, hmm_abs, hmm_pending) node 3 (key 20) is marked and still reachable; the erase is pending *)
Example ex_marked_state :
  let st := st_of 2 true true hf_mod2 ex_marked in
  chain (sm st) 0 = [1; 3] /\ map (nmark (sm st)) (chain (sm st) 0) = [false; true] /\
  g_abs (sm st) = [(15, 150); (10, 100)] /\ g_retired (sm st) = [] /\
  th st 2%nat = D2 0 0 20 1 3 0 /\ pending (th st 2%nat) = [MD 20] /\
  proj_lin 2 (g_lin (sm st)) = [MD 20] /\ proj_hist 2 (g_hist st) = [].
Proof. vm_compute. repeat split. Qed.

(** T3: contains(20) runs to completion: its find helps to unlink node 3 and retires it, the answer is no *)
Definition ex_helped : list action := ex_marked ++ call 3 (OHas 20).
Example ex_helped_state :
  let st := st_of 2 true true hf_mod2 ex_helped in
  chain (sm st) 0 = [1] /\ g_retired (sm st) = [3] /\ nmark (sm st) 3 = true /\
  th st 2%nat = D2 0 0 20 1 3 0 /\ th st 3%nat = Idle /\
  last (g_hist st) (mkH 0 OItR false 0 None) = mkH 3 (OHas 20) false 0 (Some None).
Proof. vm_compute. repeat split. Qed.

(** T2 resumes: its unlink CAS fails, it searches again and returns ok (hmm_quiescent, hmm_hist) *)
Definition ex_done : list action := ex_helped ++ steps 2 40.
Example ex_done_state :
  let st := st_of 2 true true hf_mod2 ex_done in
  (forall t, In t [1; 2; 3]%nat -> th st t = Idle) /\
  g_abs (sm st) = [(15, 150); (10, 100)] /\ apply_lin (g_lin (sm st)) = [(15, 150); (10, 100)] /\
  last (g_hist st) (mkH 0 OItR false 0 None) = mkH 2 (ODel 20) true 0 (Some (Some 200)) /\
  proj_lin 2 (g_lin (sm st)) = [MD 20] /\ proj_hist 2 (g_hist st) = [MD 20].
Proof. vm_compute. split; [intros t [<- | [<- | [<- | []]]]; reflexivity | repeat split]. Qed.

(** (hmm_lin_nodes, hmm_abs_step) two racing erases of the same node: T2 and T3 both reach the mark CAS of
    node 1; T2's CAS succeeds, T3's fails; T3 searches again and returns no, T2 returns ok: exactly one succeeded *)
Definition ex_race_del : list action :=
  call 1 (OIns 5 50) ++ Start 2 (ODel 5) :: steps 2 5 ++ Start 3 (ODel 5) :: steps 3 5 ++
  [Step 2%nat; Step 3%nat] ++ steps 3 40 ++ steps 2 40.
Example ex_race_del_state :
  let st := st_of 1 false true hf_id ex_race_del in
  chain (sm st) 0 = [] /\ g_abs (sm st) = [] /\ g_retired (sm st) = [1] /\
  g_lin (sm st) = [LIns 1 5 50 1; LDel 2 5 1 false] /\
  g_hist st = [mkH 1 (OIns 5 50) true 0 (Some None); mkH 3 (ODel 5) false 0 (Some None);
               mkH 2 (ODel 5) true 0 (Some (Some 50))].
Proof. vm_compute. repeat split. Qed.

(** (hmm_hist: values) get_or_emplace of a present key sees the value inserted with it, of an absent key its own
    value; find returns the stored value (4 buckets, memoized reversed hash) *)
Definition ex_getins : list action :=
  call 1 (OIns 10 100) ++ call 2 (OGet 10 999) ++ call 2 (OGet 20 200) ++ call 1 (OFind 20).
Example ex_getins_state :
  let st := st_of 4 true true hf_rev ex_getins in
  g_abs (sm st) = [(20, 200); (10, 100)] /\
  g_hist st = [mkH 1 (OIns 10 100) true 0 (Some None); mkH 2 (OGet 10 999) false 100 (Some (Some 100));
               mkH 2 (OGet 20 200) true 200 (Some None); mkH 1 (OFind 20) true 200 (Some (Some 200))].
Proof. vm_compute. repeat split. Qed.
