(** The flush of the generalised epoch based reclamation model (Model/GebrDefs.v), the liveness half of C02 as a bounded
    solo run, for every configuration with scan::all_threads (any scan frequency F, any abandon strategy, any region
    extension - epoch_based, new_epoch_based, EBR0, GEBR_lazy, GEBR_aband, GEBR_thresh, GEBR_t0, EBR100): a thread that
    enters critical regions again and again (the repl operation of the harness' teardown) frees, within 3 F + 4 operations,
    every node that sits in an orphan list or in one of its own retire lists, provided no thread is inside a critical
    region ([gebr_no_leak_at_quiescence_all_threads]).  3 F + 4 = one operation to catch up with the global epoch, then
    three times (F operations without scan, one with a scan that advances the epoch).  The proof executes the model
    symbolically, one lemma per atomic step ([st_*]), one per phase ([ph_*]: enter - by cases on the region extension -,
    scan - by induction over the thread block list -, advance, update, finish, abandon - by induction over the retire lists),
    one per operation ([round]), and composes.  With scan::n_threads<N> / one_thread the number of operations also
    depends on the number L of thread control blocks (1 + 3 (F + 1) ceil(L / N)): Proof/GebrFlushN.v, which reuses the phases of
    this file (everything before [Section AllThreads] holds for every configuration).
    No axioms. *)
From Coq Require Import NArith List Bool Arith Lia PeanoNat Setoid.
From XV Require Import Conc.Lts Conc.Ev Conc.Solo Model.GebrDefs Proof.GebrBase Proof.GebrShape Proof.GebrOwn Proof.GebrEpoch Proof.GebrNodes Proof.GebrTags Proof.GebrGuards.
Import ListNotations.
Local Open Scope N_scope.

Definition idle (s : state) (t : nat) : bool := match th s t with Idle => true | _ => false end.

Section Flush.
Variables (cfg : config) (ns : nat) (nc : N) (t : nat) (c : N).
Notation K := (KRepl c true).
Notation F := (scan_freq cfg).
Notation KF := (LFin r_ok None).

(** the individual steps of the solo run *)
Ltac stp := unfold step; cbv zeta;
  repeat match goal with H : th _ _ = _ |- _ => rewrite H end;
  repeat match goal with H : cb _ = _ |- _ => rewrite H end; cbn [cell_of opcode fst snd].

Lemma st_begin s : th s t = Begin (ORepl c) -> step cfg ns s (Step t) = Some (set_pc t (A1 K) s, [EStart t 0 [c]]).
Proof. intros H. stp. reflexivity. Qed.

Lemma st_A1 s n0 b : th s t = A1 K -> cells s c = Some n0 -> cb (tl s t) = Some b -> needs_init cfg (tl s t) = false ->
  step cfg ns s (Step t) =
  Some (set_pc t (if eager_first cfg (tl s t) then E1 (KAcq K) else crit_pc cfg K (S (nest (tl s t))))
          (set_tl t (enter_tls cfg (KAcq K) (tl s t)) s), [ELoad t (L_cell c) mo_rlx (vptr (Some n0))]).
Proof.
  intros H H1 H2 H3. stp. rewrite H1. unfold enter. rewrite H3, H2. unfold region_entered, crit_enter.
  destruct (eager_first cfg (tl s t)); [reflexivity|]. prj. rewrite upd_same. prj. reflexivity.
Qed.

Lemma st_E0 s a b : th s t = E0 a -> cb (tl s t) = Some b ->
  step cfg ns s (Step t) = Some (set_pc t (if bflag s b then E3 a else E1 (KAcq a)) s, [ELoad t (L_bflag b) mo_rlx (vbool (bflag s b))]).
Proof. intros H H1. stp. reflexivity. Qed.

Lemma st_E1 s k b : th s t = E1 k -> cb (tl s t) = Some b ->
  step cfg ns s (Step t) = Some (set_pc t (E2 k) (w_bflag (updN (bflag s) b true) s), [EStore t (L_bflag b) mo_rlx (VInt 1)]).
Proof. intros H H1. stp. reflexivity. Qed.

Lemma st_E2e s a : th s t = E2 (KAcq a) -> is_eager cfg = true ->
  step cfg ns s (Step t) = Some (set_pc t (crit_pc cfg a (nest (tl s t))) s, [EFence t mo_sc]).
Proof. intros H H1. stp. rewrite H1. reflexivity. Qed.

Lemma st_E2n s a : th s t = E2 (KAcq a) -> is_eager cfg = false ->
  step cfg ns s (Step t) = Some (set_pc t (E3 a) s, [EFence t mo_sc]).
Proof. intros H H1. stp. rewrite H1. reflexivity. Qed.

Lemma st_E3 s a : th s t = E3 a -> step cfg ns s (Step t) = Some (set_pc t (E4 a (gep s)) s, [ELoad t L_gep mo_acq (VInt (gep s))]).
Proof. intros H. stp. reflexivity. Qed.

Lemma st_E4a s b e : th s t = E4 K e -> cb (tl s t) = Some b -> blocal s b <> e ->
  step cfg ns s (Step t) = Some (set_pc t (U1 K e) (set_tl t (wt_ces O (tl s t)) s), [ELoad t (L_blocal b) mo_rlx (VInt (blocal s b))]).
Proof. intros H H1 H2. stp. destruct (N.eqb_spec (blocal s b) e); [contradiction|]. reflexivity. Qed.

Lemma st_E4b s b e : th s t = E4 K e -> cb (tl s t) = Some b -> blocal s b = e -> ces (tl s t) <> F ->
  step cfg ns s (Step t) = Some (set_pc t (A2 K) (set_tl t (wt_sync true (wt_ces (S (ces (tl s t))) (tl s t))) s), [ELoad t (L_blocal b) mo_rlx (VInt (blocal s b))]).
Proof. intros H H1 H2 H3. stp. rewrite H2, N.eqb_refl. cbn [negb]. destruct (Nat.eqb_spec (ces (tl s t)) F); [contradiction|]. reflexivity. Qed.

Lemma st_E4c s b e : th s t = E4 K e -> cb (tl s t) = Some b -> blocal s b = e -> ces (tl s t) = F ->
  step cfg ns s (Step t) = Some (set_pc t (scan_start cfg K e) (set_tl t (wt_sync true (wt_ces O (tl s t))) s), [ELoad t (L_blocal b) mo_rlx (VInt (blocal s b))]).
Proof. intros H H1 H2 H3. stp. rewrite H2, N.eqb_refl, H3, Nat.eqb_refl. cbn [negb]. reflexivity. Qed.

Lemma st_G1 s e : th s t = G1 K e -> gep s = e ->
  step cfg ns s (Step t) = Some (set_pc t (G2 K e) s, [ELoad t L_gep mo_rlx (VInt (gep s))]).
Proof. intros H H1. stp. rewrite H1, N.eqb_refl. reflexivity. Qed.

Lemma st_G2 s e : th s t = G2 K e -> step cfg ns s (Step t) = Some (set_pc t (G3 K e) s, [EFence t mo_acq]).
Proof. intros H. stp. reflexivity. Qed.

Lemma st_G3 s e : th s t = G3 K e ->
  step cfg ns s (Step t) = Some (set_pc t (if is_nil (orph s ((e + 1) mod 3)) then G5 K e [] else G4 K e) s,
                             [ELoad t (L_orph ((e + 1) mod 3)) mo_rlx (vptr (hd_opt (orph s ((e + 1) mod 3))))]).
Proof. intros H. stp. destruct (is_nil _); reflexivity. Qed.

Lemma st_G4 s e : th s t = G4 K e ->
  step cfg ns s (Step t) = Some (set_pc t (G5 K e (orph s ((e + 1) mod 3)))
      (move_all (orph s ((e + 1) mod 3)) (PFlight t) (w_orph (updN (orph s) ((e + 1) mod 3) []) s)),
      [ERmw t (L_orph ((e + 1) mod 3)) mo_acq (vptr (hd_opt (orph s ((e + 1) mod 3)))) (VInt 0)]).
Proof. intros H. stp. reflexivity. Qed.

Lemma st_G5 s e l : th s t = G5 K e l -> gep s = e ->
  step cfg ns s (Step t) = Some (set_pc t (U1 K (e + 1)) (free_all l (w_gep (e + 1) s)), ERmw t L_gep mo_rel (VInt e) (VInt (e + 1)) :: free_evs t l).
Proof. intros H H1. stp. rewrite H1, N.eqb_refl. reflexivity. Qed.

Lemma st_U1 s b new : th s t = U1 K new -> cb (tl s t) = Some b ->
  step cfg ns s (Step t) = Some (set_pc t (U2 K new (blocal s b)) s, [ELoad t (L_blocal b) mo_rlx (VInt (blocal s b))]).
Proof. intros H H1. stp. reflexivity. Qed.

Lemma st_U2 s b new old : th s t = U2 K new old -> cb (tl s t) = Some b ->
  step cfg ns s (Step t) =
  Some (set_pc t (u2_pc cfg K)
          (set_tl t (wt_sync true (wt_lidx (if is_nil (uslots new old) then lidx (tl s t) else new mod 3)
                       (wt_rl (fun i => if memN i (uslots new old) then [] else rl (tl s t) i) (tl s t))))
             (free_all (flat_map (rl (tl s t)) (uslots new old)) (w_blocal (updN (blocal s) b new) s))),
        EStore t (L_blocal b) mo_rlx (VInt new) :: free_evs t (flat_map (rl (tl s t)) (uslots new old))).
Proof. intros H H1. stp. reflexivity. Qed.

Lemma st_S1 s e : th s t = S1 K e ->
  step cfg ns s (Step t) = Some (set_pc t (if is_nil (blist s) then G1 K e else S2 K e O) (set_tl t (wt_sit (blist s) (tl s t)) s),
                             [ELoad t L_head mo_acq (vptr (hd_opt (blist s)))]).
Proof. intros H. stp. reflexivity. Qed.

Lemma st_S2f s e i p l : th s t = S2 K e i -> sit (tl s t) = p :: l -> bflag s p = false ->
  step cfg ns s (Step t) = Some (set_pc t (pass_pc cfg K e i l) (set_tl t (wt_sit l (tl s t)) s),
                             [ELoad t (L_bflag p) mo_rlx (vbool false)]).
Proof. intros H H0 H1. stp. rewrite H0, H1. unfold scan_pass. rewrite H0. cbn [List.tl]. reflexivity. Qed.

Lemma st_S2t s e i p l : th s t = S2 K e i -> sit (tl s t) = p :: l -> bflag s p = true ->
  step cfg ns s (Step t) = Some (set_pc t (S3 K e i) s, [ELoad t (L_bflag p) mo_rlx (vbool true)]).
Proof. intros H H0 H1. stp. rewrite H0, H1. reflexivity. Qed.

Lemma st_S3 s e i p l : th s t = S3 K e i -> sit (tl s t) = p :: l -> blocal s p = e ->
  step cfg ns s (Step t) = Some (set_pc t (pass_pc cfg K e i l) (set_tl t (wt_sit l (tl s t)) s),
                             [ELoad t (L_blocal p) mo_rlx (VInt (blocal s p))]).
Proof. intros H H0 H1. stp. rewrite H0, H1, N.eqb_refl. unfold scan_pass. rewrite H0. cbn [List.tl]. reflexivity. Qed.

Lemma st_U3 s a : th s t = U3 a ->
  step cfg ns s (Step t) = Some (set_pc t (A2 a) (set_tl t (wt_sit (blist s) (tl s t)) s), [ELoad t L_head mo_acq (vptr (hd_opt (blist s)))]).
Proof. intros H. stp. reflexivity. Qed.

Lemma st_A2 s n0 : th s t = A2 K -> cells s c = Some n0 ->
  step cfg ns s (Step t) =
  Some (set_pc t (R3 c (Some n0) (Some (nalloc s)))
          (w_nalloc (nalloc s + 1) (w_nextid (nextid s + 1) (w_nid (updN (nid s) (nalloc s) (nextid s))
             (w_g_life (updN (g_life s) (nalloc s) (LFresh t)) s)))),
        [ELoad t (L_cell c) mo_acq (vptr (Some n0))] ++ [EAlloc t (nalloc s) node_size]).
Proof. intros H H1. stp. rewrite H1. unfold to_cas. reflexivity. Qed.

Definition ssteps (n : nat) (s s' : state) : Prop := solo_steps (step cfg ns) Step idle t n s s'.

Ltac sst L :=
  eapply solo_S; [ unfold idle; prj; rewrite ?upd_same; try match goal with H : th ?s ?t = _ |- context [th ?s ?t] => rewrite H end; reflexivity
                 | eapply L; prj; rewrite ?upd_same; prj; try eassumption; try reflexivity
                 | ].

Notation reachable := (reach (init nc) (step cfg ns)).

Lemma ssteps_reach n s s' : ssteps n s s' -> reachable s -> reachable s'.
Proof. induction 1 as [|n s s1 es s' Hi Hst Hs IH]; intros Hr; [exact Hr|]. apply IH. eapply reach_step; eauto. Qed.

Lemma ssteps_app n m s s1 s2 : ssteps n s s1 -> ssteps m s1 s2 -> ssteps (n + m) s s2.
Proof. apply solo_steps_app. Qed.

(** start of the operation up to the load of the global epoch in do_enter_critical, for every region extension *)
Lemma crit_pc_1 a : crit_pc cfg a 1 = match rext cfg with RNone => E1 (KAcq a) | REager => E3 a | RLazy => E0 a end.
Proof. reflexivity. Qed.

Lemma ph_enter s b n0 : th s t = Idle -> cb (tl s t) = Some b -> nest (tl s t) = O -> rent (tl s t) = O -> bflag s b = false ->
  cells s c = Some n0 -> needs_init cfg (tl s t) = false ->
  exists s1 n s', step cfg ns s (Start t (ORepl c)) = Some (s1, []) /\ ssteps n s1 s' /\
    th s' t = E4 K (gep s) /\ tl s' t = enter_tls cfg (KAcq K) (tl s t) /\ bflag s' = updN (bflag s) b true /\
    gep s' = gep s /\ blist s' = blist s /\ blocal s' = blocal s /\ cells s' = cells s /\ g_where s' = g_where s.
Proof.
  intros H H1 H2 H2r H3 H4 Hni.
  assert (Hst : step cfg ns s (Start t (ORepl c)) = Some (set_pc t (Begin (ORepl c)) s, [])) by (unfold step; rewrite H; reflexivity).
  destruct (rext cfg) eqn:Er.
  - (* none: E1 E2 E3 *)
    assert (Hef : eager_first cfg (tl s t) = false) by (unfold eager_first; rewrite Er; reflexivity).
    assert (Hne : is_eager cfg = false) by (unfold is_eager; rewrite Er; reflexivity).
    eexists _, _, _. split; [exact Hst|]. split.
    + unfold ssteps. sst st_begin. sst st_A1. prj. rewrite Hef, H2, crit_pc_1, Er. sst st_E1. sst st_E2n. sst st_E3. apply solo_O.
    + prj. rewrite !upd_same. prj. repeat split; reflexivity.
  - (* eager: the first region entry sets the flag *)
    assert (Hef : eager_first cfg (tl s t) = true) by (unfold eager_first; rewrite Er, H2r; reflexivity).
    assert (Hne : is_eager cfg = true) by (unfold is_eager; rewrite Er; reflexivity).
    eexists _, _, _. split; [exact Hst|]. split.
    + unfold ssteps. sst st_begin. sst st_A1. prj. rewrite Hef. sst st_E1. sst st_E2e.
      prj. rewrite ?upd_same. prj. rewrite H2. cbn [nest_of]. rewrite crit_pc_1, Er. sst st_E3. apply solo_O.
    + prj. rewrite !upd_same. prj. repeat split; reflexivity.
  - (* lazy: the flag is looked at first *)
    assert (Hef : eager_first cfg (tl s t) = false) by (unfold eager_first; rewrite Er; reflexivity).
    assert (Hne : is_eager cfg = false) by (unfold is_eager; rewrite Er; reflexivity).
    eexists _, _, _. split; [exact Hst|]. split.
    + unfold ssteps. sst st_begin. sst st_A1. prj. rewrite Hef, H2, crit_pc_1, Er. sst st_E0. prj. rewrite H3. sst st_E1. sst st_E2n. sst st_E3. apply solo_O.
    + prj. rewrite !upd_same. prj. repeat split; reflexivity.
Qed.

(** what a phase leaves alone *)
Definition Same (s s' : state) : Prop :=
  gep s' = gep s /\ blist s' = blist s /\ bflag s' = bflag s /\ blocal s' = blocal s /\ cells s' = cells s /\ g_where s' = g_where s.

(** ** scan::all_threads *)
Section AllThreads.
Hypothesis Hall : scan_strat cfg = ScanAll.

Lemma not_n : scan_is_n cfg = false.
Proof. unfold scan_is_n. rewrite Hall. reflexivity. Qed.
Lemma scan_start_all a e : scan_start cfg a e = S1 a e.
Proof. unfold scan_start. rewrite Hall. reflexivity. Qed.
Lemma pass_all a e i l : pass_pc cfg a e i l = if is_nil l then G1 a e else S2 a e i.
Proof. unfold pass_pc. rewrite Hall. reflexivity. Qed.
Lemma u2_all a : u2_pc cfg a = A2 a.
Proof. unfold u2_pc. rewrite not_n. reflexivity. Qed.
Lemma needs_init_all x : needs_init cfg x = false.
Proof. unfold needs_init. rewrite not_n. reflexivity. Qed.

(** the scan of the thread block list: every other thread is outside its critical region *)
Lemma ph_scan_l e b : forall l s, sit (tl s t) = l -> bflag s b = true -> blocal s b = e -> (forall p, In p l -> p = b \/ bflag s p = false) ->
  th s t = (if is_nil l then G1 K e else S2 K e O) ->
  exists n s' l', ssteps n s s' /\ th s' t = G1 K e /\ tl s' t = wt_sit l' (tl s t) /\ Same s s'.
Proof.
  induction l as [|p rest IH]; intros s Hsit Hb He Hl Hpc.
  - exists O, s, (sit (tl s t)). split; [apply solo_O|]. split; [exact Hpc|]. split; [destruct (tl s t); reflexivity|]. repeat split; reflexivity.
  - cbn [is_nil] in Hpc. destruct (Hl p (or_introl eq_refl)) as [->|Hf].
    + destruct (IH (set_pc t (if is_nil rest then G1 K e else S2 K e O) (set_tl t (wt_sit rest (tl s t)) (set_pc t (S3 K e O) s)))) as (n & s' & l' & Hs & Hp & Htl & Hsame).
      * prj. rewrite upd_same. reflexivity.
      * exact Hb.
      * exact He.
      * intros q Hq. apply Hl. right. exact Hq.
      * prj. apply upd_same.
      * exists (S (S n)), s', l'. split; [|split; [exact Hp|split]].
        -- unfold ssteps. sst st_S2t. sst st_S3. rewrite pass_all. exact Hs.
        -- rewrite Htl. prj. rewrite upd_same. reflexivity.
        -- exact Hsame.
    + destruct (IH (set_pc t (if is_nil rest then G1 K e else S2 K e O) (set_tl t (wt_sit rest (tl s t)) s))) as (n & s' & l' & Hs & Hp & Htl & Hsame).
      * prj. rewrite upd_same. reflexivity.
      * exact Hb.
      * exact He.
      * intros q Hq. apply Hl. right. exact Hq.
      * prj. apply upd_same.
      * exists (S n), s', l'. split; [|split; [exact Hp|split]].
        -- unfold ssteps. sst st_S2f. rewrite pass_all. exact Hs.
        -- rewrite Htl. prj. rewrite upd_same. reflexivity.
        -- exact Hsame.
Qed.

Lemma ph_scan s e b : th s t = S1 K e -> bflag s b = true -> blocal s b = e -> (forall p, In p (blist s) -> p = b \/ bflag s p = false) ->
  exists n s' l', ssteps n s s' /\ th s' t = G1 K e /\ tl s' t = wt_sit l' (tl s t) /\ Same s s'.
Proof.
  intros Hpc Hb He Hl.
  destruct (ph_scan_l e b (blist s) (set_pc t (if is_nil (blist s) then G1 K e else S2 K e O) (set_tl t (wt_sit (blist s) (tl s t)) s)))
    as (n & s' & l' & Hs & Hp & Htl & Hsame); try assumption.
  - prj. rewrite upd_same. reflexivity.
  - prj. apply upd_same.
  - exists (S n), s', l'. split; [|split; [exact Hp|split]].
    + unfold ssteps. sst st_S1. exact Hs.
    + rewrite Htl. prj. rewrite upd_same. reflexivity.
    + exact Hsame.
Qed.

(** update_global_epoch(e, e+1): the orphans of slot (e+1) mod 3 are adopted and, the CAS succeeding, freed *)
Lemma ph_adv s e : th s t = G1 K e -> gep s = e ->
  exists n s', ssteps n s s' /\ th s' t = U1 K (e + 1) /\ gep s' = e + 1 /\ tl s' t = tl s t /\
    blist s' = blist s /\ bflag s' = bflag s /\ blocal s' = blocal s /\ cells s' = cells s /\
    (forall n, g_where s' n = if memN n (orph s ((e + 1) mod 3)) then PFreed else g_where s n).
Proof.
  intros Hpc Hg. destruct (is_nil (orph s ((e + 1) mod 3))) eqn:En.
  - apply is_nil_true in En. eexists _, _. split.
    + unfold ssteps. sst st_G1. sst st_G2. sst st_G3. prj. rewrite En. cbn [is_nil]. sst st_G5. apply solo_O.
    + prj. rewrite !upd_same. prj. repeat split; try reflexivity.
      intros n. rewrite En. reflexivity.
  - eexists _, _. split.
    + unfold ssteps. sst st_G1. sst st_G2. sst st_G3. prj. rewrite En. sst st_G4. sst st_G5. apply solo_O.
    + prj. rewrite !upd_same. prj. repeat split; try reflexivity.
      intros n; destruct (memN n (orph s ((e + 1) mod 3))); reflexivity.
Qed.

(** update_local_epoch(new) *)
Lemma ph_upd s b new : th s t = U1 K new -> cb (tl s t) = Some b ->
  exists s', ssteps 2 s s' /\ th s' t = u2_pc cfg K /\
    tl s' t = wt_sync true (wt_lidx (if is_nil (uslots new (blocal s b)) then lidx (tl s t) else new mod 3)
                (wt_rl (fun i => if memN i (uslots new (blocal s b)) then [] else rl (tl s t) i) (tl s t))) /\
    gep s' = gep s /\ blist s' = blist s /\ bflag s' = bflag s /\ blocal s' = updN (blocal s) b new /\ cells s' = cells s /\
    (forall n, g_where s' n = if memN n (flat_map (rl (tl s t)) (uslots new (blocal s b))) then PFreed else g_where s n).
Proof.
  intros Hpc Hcb. eexists. split.
  - unfold ssteps. sst st_U1. sst st_U2. apply solo_O.
  - prj. rewrite !upd_same. prj. repeat split; reflexivity.
Qed.

(** the rest of repl: second load of the cell, new node, CAS, retire, leave_critical up to clear_critical_region_flag *)
Lemma leave_last_one x : nest x = 1%nat -> rent x = rent_inc cfg 0 -> leave_last cfg x = true.
Proof. unfold leave_last, rent_inc. intros -> ->. destruct (rext cfg); reflexivity. Qed.

Lemma st_R3 s n0 n1 b : th s t = R3 c (Some n0) (Some n1) -> cells s c = Some n0 -> cb (tl s t) = Some b ->
  nest (tl s t) = 1%nat -> rent (tl s t) = rent_inc cfg 0 ->
  exists s', step cfg ns s (Step t) = Some (s', [ERmw t (L_cell c) mo_acqrel (vptr (Some n0)) (vptr (Some n1))]) /\
    th s' t = LV KF /\ tl s' t = leave_tls cfg (wt_rl (updN (rl (tl s t)) (lidx (tl s t)) (n0 :: rl (tl s t) (lidx (tl s t)))) (tl s t)) /\
    gep s' = gep s /\ blist s' = blist s /\ bflag s' = bflag s /\ blocal s' = blocal s /\
    cells s' c = Some n1 /\ g_where s' = updN (g_where s) n0 (PList t (lidx (tl s t))).
Proof.
  intros H H1 H2 H3 H4. eexists. split.
  - stp. rewrite H1. cbn [oeqb]. rewrite N.eqb_refl. unfold leave. prj. rewrite upd_same.
    rewrite leave_last_one by (prj; assumption). reflexivity.
  - prj. rewrite !upd_same. prj. repeat split; try reflexivity. apply updN_same.
Qed.

Lemma ph_fin s b n0 : th s t = A2 K -> cells s c = Some n0 -> cb (tl s t) = Some b -> nest (tl s t) = 1%nat -> rent (tl s t) = rent_inc cfg 0 ->
  exists s', ssteps 2 s s' /\ th s' t = LV KF /\
    tl s' t = leave_tls cfg (wt_rl (updN (rl (tl s t)) (lidx (tl s t)) (n0 :: rl (tl s t) (lidx (tl s t)))) (tl s t)) /\
    gep s' = gep s /\ blist s' = blist s /\ bflag s' = bflag s /\ blocal s' = blocal s /\
    cells s' c = Some (nalloc s) /\ g_where s' = updN (g_where s) n0 (PList t (lidx (tl s t))).
Proof.
  intros Hpc Hc Hcb Hn Hr.
  destruct (st_R3 (set_pc t (R3 c (Some n0) (Some (nalloc s)))
          (w_nalloc (nalloc s + 1) (w_nextid (nextid s + 1) (w_nid (updN (nid s) (nalloc s) (nextid s))
             (w_g_life (updN (g_life s) (nalloc s) (LFresh t)) s))))) n0 (nalloc s) b) as (s2 & Hst & H1 & H2 & H3 & H4 & H5 & H6 & H7 & H8).
  { prj. apply upd_same. } { exact Hc. } { exact Hcb. } { exact Hn. } { exact Hr. }
  prj_in H2. prj_in H3. prj_in H4. prj_in H5. prj_in H6. prj_in H8.
  exists s2. split.
  - unfold ssteps. sst st_A2.
    eapply solo_S; [unfold idle; prj; rewrite upd_same; reflexivity | exact Hst |]. apply solo_O.
  - repeat split; assumption.
Qed.

(** clear_critical_region_flag: the flag, then the abandon strategy applied to the three retire lists *)
Lemma bnext_ge a r i j : bnext a r i = Some j -> i <= j /\ j < 3.
Proof.
  unfold bnext. destruct (N.leb_spec i 0); cbn [andb]; [destruct (ab_need a (r 0)); [intros X; injection X as <-; lia|]|];
  (destruct (N.leb_spec i 1); cbn [andb]; [destruct (ab_need a (r 1)); [intros X; injection X as <-; lia|]|]);
  (destruct (N.leb_spec i 2); cbn [andb]; [destruct (ab_need a (r 2)); [intros X; injection X as <-; lia|]|]); discriminate.
Qed.

(** what the abandon loop leaves alone: it moves nodes of the thread's retire lists to the orphan lists *)
Definition AbRel (s s' : state) : Prop :=
  cb (tl s' t) = cb (tl s t) /\ nest (tl s' t) = nest (tl s t) /\ rent (tl s' t) = rent (tl s t) /\ rg (tl s' t) = rg (tl s t) /\
  ces (tl s' t) = ces (tl s t) /\ sit (tl s' t) = sit (tl s t) /\ gep s' = gep s /\ blist s' = blist s /\ bflag s' = bflag s /\ blocal s' = blocal s /\ cells s' = cells s /\
  (forall n, g_where s' n = g_where s n \/ exists j, g_where s n = PList t j /\ g_where s' n = POrph j).

Lemma AbRel_refl s : AbRel s s.
Proof. repeat split; auto. Qed.
Lemma AbRel_trans s1 s2 s3 : AbRel s1 s2 -> AbRel s2 s3 -> AbRel s1 s3.
Proof.
  intros (A1 & A2 & A3 & A4 & A5 & A5' & A6 & A7 & A8 & A9 & A10 & A11) (B1 & B2 & B3 & B4 & B5 & B5' & B6 & B7 & B8 & B9 & B10 & B11).
  repeat split; try congruence.
  intros n. destruct (A11 n) as [X|(j & X1 & X2)]; destruct (B11 n) as [Y|(j' & Y1 & Y2)].
  - left. congruence.
  - right. exists j'. split; congruence.
  - right. exists j. split; congruence.
  - congruence.
Qed.

Lemma st_B1 s k i : th s t = B1 k i ->
  step cfg ns s (Step t) = Some (set_pc t (B2 k i (hd_opt (orph s i))) s, [ELoad t (L_orph i) mo_rlx (vptr (hd_opt (orph s i)))]).
Proof. intros H. stp. reflexivity. Qed.

Lemma st_B2 s i : th s t = B2 KF i (hd_opt (orph s i)) -> (forall n, In n (rl (tl s t) i) -> g_where s n = PList t i) ->
  exists s' es, step cfg ns s (Step t) = Some (s', es) /\
    (th s' t = Idle \/ exists j, th s' t = B1 KF j /\ i + 1 <= j /\ j < 3) /\ AbRel s s'.
Proof.
  intros H Hl.
  assert (Hw : forall n, (if memN n (rl (tl s t) i) then POrph i else g_where s n) = g_where s n \/
                         exists j, g_where s n = PList t j /\ (if memN n (rl (tl s t) i) then POrph i else g_where s n) = POrph j).
  { intros n. destruct (memN n (rl (tl s t) i)) eqn:M; [right; exists i; split; [apply Hl; apply memN_In; exact M|reflexivity]|left; reflexivity]. }
  unfold step; cbv zeta. rewrite H. assert (Hoe : oeqb (hd_opt (orph s i)) (hd_opt (orph s i)) = true) by (apply oeqb_eq; reflexivity).
  rewrite Hoe. unfold ab_from. prj. rewrite upd_same. prj.
  destruct (bnext (aband cfg) (updN (rl (tl s t)) i []) (i + 1)) as [j|] eqn:Eb.
  - destruct (bnext_ge _ _ _ _ Eb) as [Hj1 Hj2]. eexists _, _. split; [reflexivity|]. split.
    + right. exists j. prj. rewrite upd_same. auto.
    + unfold AbRel. prj. rewrite !upd_same. prj. repeat split; try reflexivity. exact Hw.
  - unfold do_cont, finish. eexists _, _. split; [reflexivity|]. split.
    + left. prj. apply upd_same.
    + unfold AbRel. prj. rewrite !upd_same. prj. repeat split; try reflexivity. exact Hw.
Qed.

Lemma ph_B1 : forall m i s, (3 - N.to_nat i <= m)%nat -> i < 3 -> reachable s -> th s t = B1 KF i ->
  exists n s', ssteps n s s' /\ th s' t = Idle /\ AbRel s s'.
Proof.
  induction m as [|m IH]; intros i s Hm Hi Hr Hpc; [lia|].
  pose (s1 := set_pc t (B2 KF i (hd_opt (orph s i))) s).
  assert (Hst1 : step cfg ns s (Step t) = Some (s1, [ELoad t (L_orph i) mo_rlx (vptr (hd_opt (orph s i)))])) by (apply st_B1; exact Hpc).
  assert (Hr1 : reachable s1) by (eapply reach_step; eauto).
  destruct (st_B2 s1 i) as (s2 & es & Hst2 & Hnext & Hrel).
  { unfold s1. prj. apply upd_same. }
  { intros n Hn. apply (n_list s1 (N0_reach cfg ns nc s1 Hr1) t i n). exact Hn. }
  assert (Hrel01 : AbRel s s1) by (unfold s1, AbRel; prj; repeat split; auto).
  assert (Hi1 : idle s t = false) by (unfold idle; rewrite Hpc; reflexivity).
  assert (Hi2 : idle s1 t = false) by (unfold idle, s1; prj; rewrite upd_same; reflexivity).
  destruct Hnext as [Hid|(j & Hj & Hj1 & Hj2)].
  - exists 2%nat, s2. split; [|split; [exact Hid|exact (AbRel_trans _ _ _ Hrel01 Hrel)]].
    eapply solo_S; [exact Hi1|exact Hst1|]. eapply solo_S; [exact Hi2|exact Hst2|]. apply solo_O.
  - assert (Hr2 : reachable s2) by (eapply reach_step; eauto).
    destruct (IH j s2) as (n & s' & Hs & Hid & Hrel2); [lia|exact Hj2|exact Hr2|exact Hj|].
    exists (S (S n)), s'. split; [|split; [exact Hid|exact (AbRel_trans _ _ _ (AbRel_trans _ _ _ Hrel01 Hrel) Hrel2)]].
    eapply solo_S; [exact Hi1|exact Hst1|]. eapply solo_S; [exact Hi2|exact Hst2|]. exact Hs.
Qed.

(** LV: the flag is cleared, then the abandon loop *)
Lemma ph_lv s b : reachable s -> th s t = LV KF -> cb (tl s t) = Some b ->
  exists n s', ssteps n s s' /\ th s' t = Idle /\
    cb (tl s' t) = cb (tl s t) /\ nest (tl s' t) = nest (tl s t) /\ rent (tl s' t) = rent (tl s t) /\ rg (tl s' t) = rg (tl s t) /\
    ces (tl s' t) = ces (tl s t) /\ sit (tl s' t) = sit (tl s t) /\ gep s' = gep s /\ blist s' = blist s /\ bflag s' = updN (bflag s) b false /\ blocal s' = blocal s /\
    cells s' = cells s /\
    (forall n, g_where s' n = g_where s n \/ exists j, g_where s n = PList t j /\ g_where s' n = POrph j).
Proof.
  intros Hr Hpc Hcb.
  assert (Hi : idle s t = false) by (unfold idle; rewrite Hpc; reflexivity).
  pose (s0 := set_tl t (wt_sync false (tl s t)) (w_bflag (updN (bflag s) b false) s)).
  destruct (bnext (aband cfg) (rl (tl s t)) 0) as [j|] eqn:Eb.
  - destruct (bnext_ge _ _ _ _ Eb) as [_ Hj2].
    assert (Hst : step cfg ns s (Step t) = Some (set_pc t (B1 KF j) s0, [EStore t (L_bflag b) mo_rel (VInt 0)])).
    { stp. unfold ab_from. prj. rewrite upd_same. prj. rewrite Eb. reflexivity. }
    assert (Hr1 : reachable (set_pc t (B1 KF j) s0)) by (eapply reach_step; eauto).
    destruct (ph_B1 (3 - N.to_nat j) j (set_pc t (B1 KF j) s0)) as (n & s' & Hs & Hid & R); [lia|exact Hj2|exact Hr1|prj; apply upd_same|].
    destruct R as (R1 & R2 & R3 & R4 & R5 & R5' & R6 & R7 & R8 & R9 & R10 & R11).
    unfold s0 in R1, R2, R3, R4, R5, R5', R6, R7, R8, R9, R10, R11. prj_in R1. prj_in R2. prj_in R3. prj_in R4. prj_in R5. prj_in R5'. prj_in R6. prj_in R7. prj_in R8. prj_in R9. prj_in R10. prj_in R11.
    rewrite !upd_same in R1, R2, R3, R4, R5, R5'. prj_in R1. prj_in R2. prj_in R3. prj_in R4. prj_in R5. prj_in R5'.
    exists (S n), s'. split; [eapply solo_S; [exact Hi|exact Hst|exact Hs]|]. repeat split; assumption.
  - assert (Hst : step cfg ns s (Step t) = Some (set_pc t Idle s0, [EStore t (L_bflag b) mo_rel (VInt 0)] ++ free_opt t None ++ [ERet t r_ok])).
    { stp. unfold ab_from. prj. rewrite upd_same. prj. rewrite Eb. unfold do_cont, finish. rewrite <- app_assoc. reflexivity. }
    exists 1%nat, (set_pc t Idle s0). split; [eapply solo_S; [exact Hi|exact Hst|apply solo_O]|].
    unfold s0. prj. rewrite !upd_same. prj. repeat split; auto.
Qed.

Lemma rent_dec_inc0 : rent_dec cfg (rent_inc cfg 0) = O.
Proof. unfold rent_dec, rent_inc. destruct (rext cfg); reflexivity. Qed.

(** from the second load of the cell to the end of the operation *)
Lemma ph_tail s b n0 : reachable s -> th s t = A2 K -> cb (tl s t) = Some b -> nest (tl s t) = 1%nat -> rent (tl s t) = rent_inc cfg 0 ->
  cells s c = Some n0 -> g_where s n0 = PNone ->
  exists n s', ssteps n s s' /\ th s' t = Idle /\
    cb (tl s' t) = Some b /\ nest (tl s' t) = O /\ rent (tl s' t) = O /\ rg (tl s' t) = rg (tl s t) /\ ces (tl s' t) = ces (tl s t) /\
    sit (tl s' t) = sit (tl s t) /\
    gep s' = gep s /\ blist s' = blist s /\ bflag s' = updN (bflag s) b false /\ blocal s' = blocal s /\ (exists n1, cells s' c = Some n1) /\
    (forall n, g_where s n <> PNone -> g_where s' n = g_where s n \/ exists j, g_where s n = PList t j /\ g_where s' n = POrph j).
Proof.
  intros Hr Hpc Hcb Hn Hrent Hc Hw0.
  destruct (ph_fin s b n0 Hpc Hc Hcb Hn Hrent) as (s1 & Hs1 & Hpc1 & Htl1 & Hg1 & Hbl1 & Hbf1 & Hlo1 & Hce1 & Hwh1).
  assert (Hr1 : reachable s1) by (eapply ssteps_reach; eauto).
  assert (Hcb1 : cb (tl s1 t) = Some b) by (rewrite Htl1; prj; exact Hcb).
  destruct (ph_lv s1 b Hr1 Hpc1 Hcb1) as (n & s' & Hs & Hid & L1 & L2 & L3 & L4 & L5 & L5' & L6 & L7 & L8 & L9 & L10 & L11).
  exists (2 + n)%nat, s'. split; [eapply ssteps_app; eauto|]. split; [exact Hid|].
  rewrite Htl1 in L1, L2, L3, L4, L5, L5'. prj_in L1. prj_in L2. prj_in L3. prj_in L4. prj_in L5. prj_in L5'.
  split; [congruence|]. split; [rewrite L2, Hn; reflexivity|]. split; [rewrite L3, Hrent; apply rent_dec_inc0|].
  split; [exact L4|]. split; [exact L5|]. split; [exact L5'|]. split; [congruence|]. split; [congruence|]. split; [congruence|]. split; [congruence|].
  split; [exists (nalloc s); rewrite L10; exact Hce1|].
  intros m Hm. assert (Hmn : m <> n0) by (intros ->; contradiction).
  destruct (L11 m) as [X|(j & X1 & X2)]; rewrite Hwh1, updN_other in * by exact Hmn; [left; exact X|right; exists j; auto].
Qed.

(** one flush operation = one repl on cell c, executed solo *)
Definition solo_op (s s' : state) : Prop :=
  exists s1 n, step cfg ns s (Start t (ORepl c)) = Some (s1, []) /\ ssteps n s1 s' /\ idle s' t = true.

Record Quiet (s : state) (b : N) : Prop := {
  q_reach : reachable s;
  q_idle : th s t = Idle;
  q_cb : cb (tl s t) = Some b;
  q_nest : nest (tl s t) = O;
  q_rg : rg (tl s t) = None;
  q_flags : forall p, In p (blist s) -> bflag s p = false;
  q_cell : exists n0, cells s c = Some n0;
  q_ces : (ces (tl s t) <= F)%nat }.

Definition Keep (s s' : state) : Prop :=
  (forall n, g_where s n = PFreed -> g_where s' n = PFreed) /\
  (forall i n, g_where s n = POrph i -> g_where s' n = POrph i \/ g_where s' n = PFreed) /\
  (forall i n, g_where s n = PList t i -> g_where s' n = PList t i \/ g_where s' n = POrph i \/ g_where s' n = PFreed).
Definition FreedSlot (j : N) (s s' : state) : Prop :=
  forall n, g_where s n = POrph j \/ g_where s n = PList t j -> g_where s' n = PFreed.

Definition Summary (s s' : state) (b : N) : Prop :=
  Keep s s' /\
  ( (blocal s b <> gep s /\ gep s' = gep s /\ blocal s' b = gep s /\ ces (tl s' t) = O)
  \/ (blocal s b = gep s /\ ces (tl s t) <> F /\ gep s' = gep s /\ blocal s' b = gep s /\ ces (tl s' t) = S (ces (tl s t)))
  \/ (blocal s b = gep s /\ ces (tl s t) = F /\ gep s' = gep s + 1 /\ blocal s' b = gep s + 1 /\ ces (tl s' t) = O /\
      FreedSlot ((gep s + 1) mod 3) s s') ).

(** the published node of the cell is not retired *)
Lemma cell_where s n0 : reachable s -> cells s c = Some n0 -> g_where s n0 = PNone.
Proof.
  intros Hr Hc. pose proof (N0_reach cfg ns nc s Hr) as I. pose proof (n_cell s I c n0 Hc) as L.
  destruct (wh_not_ret _ _ _ (n_where s I n0)) as [W _]; [rewrite L; intros; discriminate|exact W].
Qed.

(** the part of an operation before the second load of the cell frees some retired nodes; the rest moves nodes from the
    thread's retire lists to the orphan lists at most *)
Lemma keep_compose s s6 s' :
  (forall n, g_where s6 n = g_where s n \/ (g_where s6 n = PFreed /\ exists i, g_where s n = POrph i \/ g_where s n = PList t i)) ->
  (forall n, g_where s6 n <> PNone -> g_where s' n = g_where s6 n \/ exists j, g_where s6 n = PList t j /\ g_where s' n = POrph j) ->
  Keep s s'.
Proof.
  intros H1 H2. repeat split.
  - intros n Hn. destruct (H1 n) as [X|[X _]]; (destruct (H2 n) as [Y|(j & Y1 & Y2)]; [congruence|congruence|congruence]).
  - intros i n Hn. destruct (H1 n) as [X|[X _]]; (destruct (H2 n) as [Y|(j & Y1 & Y2)]; [congruence| |]); try congruence.
    + left. congruence.
    + right. congruence.
  - intros i n Hn. destruct (H1 n) as [X|[X _]]; (destruct (H2 n) as [Y|(j & Y1 & Y2)]; [congruence| |]); try congruence.
    + left. congruence.
    + right. left. assert (j = i) by congruence. subst. exact Y2.
    + right. right. congruence.
Qed.

(** the common end of the three kinds of operation *)
Lemma round_tail s b s1 k s6 n0 gv lv cv : Quiet s b -> step cfg ns s (Start t (ORepl c)) = Some (s1, []) -> ssteps k s1 s6 ->
  th s6 t = A2 K -> cb (tl s6 t) = Some b -> nest (tl s6 t) = 1%nat -> rent (tl s6 t) = rent_inc cfg 0 -> rg (tl s6 t) = None ->
  ces (tl s6 t) = cv -> (cv <= F)%nat -> gep s6 = gv -> blist s6 = blist s -> bflag s6 = updN (bflag s) b true -> blocal s6 b = lv ->
  cells s6 c = Some n0 -> cells s c = Some n0 ->
  (forall n, g_where s6 n = g_where s n \/ (g_where s6 n = PFreed /\ exists i, g_where s n = POrph i \/ g_where s n = PList t i)) ->
  exists s', solo_op s s' /\ Quiet s' b /\ Keep s s' /\ gep s' = gv /\ blocal s' b = lv /\ ces (tl s' t) = cv /\
    (forall n, g_where s6 n = PFreed -> g_where s' n = PFreed) /\ sit (tl s' t) = sit (tl s6 t) /\ blist s' = blist s.
Proof.
  intros Q Hst Hs Hpc Hcb Hn Hrent Hrg Hces Hcv Hg Hbl Hbf Hlo Hc6 Hc H1.
  assert (Hr1 : reachable s1) by (eapply reach_step; [exact (q_reach _ _ Q)|exact Hst]).
  assert (Hr6 : reachable s6) by (eapply ssteps_reach; eauto).
  assert (Hw0 : g_where s6 n0 = PNone).
  { pose proof (cell_where s n0 (q_reach _ _ Q) Hc) as W. destruct (H1 n0) as [X|[_ (i & [X|X])]]; congruence. }
  destruct (ph_tail s6 b n0 Hr6 Hpc Hcb Hn Hrent Hc6 Hw0) as (m & s' & Hs' & Hid & T1 & T2 & T3 & T4 & T5 & T5' & T6 & T7 & T8 & T9 & T10 & T11).
  exists s'. split; [exists s1, (k + m)%nat; split; [exact Hst|split; [eapply ssteps_app; eauto|unfold idle; rewrite Hid; reflexivity]]|].
  split; [|split; [exact (keep_compose s s6 s' H1 T11)|]].
  - constructor.
    + eapply ssteps_reach; eauto.
    + exact Hid.
    + exact T1.
    + exact T2.
    + congruence.
    + intros p Hp. rewrite T7, Hbl in Hp. rewrite T8, Hbf.
      destruct (updN_cases (updN (bflag s) b true) b false p) as [[_ ->]|[Hpb ->]]; [reflexivity|].
      rewrite updN_other by exact Hpb. apply (q_flags _ _ Q). exact Hp.
    + exact T10.
    + rewrite T5, Hces. exact Hcv.
  - split; [congruence|]. split; [rewrite T9; exact Hlo|]. split; [congruence|]. split; [|split; [exact T5'|congruence]].
    intros n Hn6. destruct (T11 n) as [X|(j & X1 & X2)]; [congruence|congruence|congruence].
Qed.

Lemma uslots_succ e : uslots (e + 1) e = [(e + 1) mod 3].
Proof. unfold uslots. replace (e + 1 - e) with 1 by lia. reflexivity. Qed.

Lemma round s b : Quiet s b -> exists s', solo_op s s' /\ Quiet s' b /\ Summary s s' b.
Proof.
  intros Q. pose proof Q as [Hr Hidle Hcb Hnest Hrg Hfl [n0 Hcell] Hces].
  pose proof (O0_reach cfg ns nc s Hr) as Oo. destruct (o_own cfg s Oo t b Hcb) as [_ Hbin].
  pose proof (T0_reach cfg ns nc s Hr t) as T.
  assert (Hrent : rent (tl s t) = O) by (rewrite (ts_rent _ _ _ _ T), Hnest, Hrg; apply rent_exp_0).
  destruct (ph_enter s b n0 Hidle Hcb Hnest Hrent (Hfl b Hbin) Hcell (needs_init_all _)) as (s1 & k2 & s2 & Hst & Hs12 & Hpc2 & Htl2 & Hbf2 & Hg2 & Hbl2 & Hlo2 & Hce2 & Hwh2).
  assert (Hcb2 : cb (tl s2 t) = Some b) by (rewrite Htl2; exact Hcb).
  assert (Hi2 : idle s2 t = false) by (unfold idle; rewrite Hpc2; reflexivity).
  assert (Hr1 : reachable s1) by (eapply reach_step; eauto).
  assert (Hr2 : reachable s2) by (eapply ssteps_reach; eauto).
  destruct (N.eq_dec (blocal s b) (gep s)) as [Heq|Hne].
  - destruct (Nat.eq_dec (ces (tl s t)) F) as [Ec|Ec].
    + (* C: a scan is due: it succeeds, the epoch is advanced, the orphans of the new slot and the own list of that slot are freed *)
      pose (s3 := set_pc t (S1 K (gep s)) (set_tl t (wt_sync true (wt_ces O (tl s2 t))) s2)).
      assert (Hst3 : step cfg ns s2 (Step t) = Some (s3, [ELoad t (L_blocal b) mo_rlx (VInt (blocal s2 b))])).
      { unfold s3. rewrite <- (scan_start_all K (gep s)). eapply st_E4c; [exact Hpc2|exact Hcb2|rewrite Hlo2; exact Heq|rewrite Htl2; exact Ec]. }
      destruct (ph_scan s3 (gep s) b) as (k4 & s4 & l4 & Hs34 & Hpc4 & Htl4 & Hg4 & Hbl4 & Hbf4 & Hlo4 & Hce4 & Hwh4).
      { unfold s3. prj. apply upd_same. } { unfold s3. prj. rewrite Hbf2. apply updN_same. } { unfold s3. prj. rewrite Hlo2. exact Heq. }
      { unfold s3. prj. intros p Hp. rewrite Hbl2 in Hp. rewrite Hbf2. destruct (N.eq_dec p b) as [->|Hpb]; [left; reflexivity|right].
        rewrite updN_other by exact Hpb. apply Hfl. exact Hp. }
      unfold s3 in Htl4, Hg4, Hbl4, Hbf4, Hlo4, Hce4, Hwh4. prj_in Htl4. prj_in Hg4. prj_in Hbl4. prj_in Hbf4. prj_in Hlo4. prj_in Hce4. prj_in Hwh4.
      rewrite !upd_same in Htl4. prj_in Htl4.
      assert (Hr3 : reachable s3) by (eapply reach_step; eauto).
      assert (Hr4 : reachable s4) by (eapply ssteps_reach; eauto).
      destruct (ph_adv s4 (gep s)) as (k5 & s5 & Hs45 & Hpc5 & Hg5 & Htl5 & Hbl5 & Hbf5 & Hlo5 & Hce5 & Hwh5).
      { exact Hpc4. } { rewrite Hg4. exact Hg2. }
      assert (Hr5 : reachable s5) by (eapply ssteps_reach; eauto).
      assert (Hcb5 : cb (tl s5 t) = Some b) by (rewrite Htl5, Htl4; prj; rewrite Htl2; exact Hcb).
      destruct (ph_upd s5 b (gep s + 1)) as (s6 & Hs56 & Hpc6 & Htl6 & Hg6 & Hbl6 & Hbf6 & Hlo6 & Hce6 & Hwh6).
      { exact Hpc5. } { exact Hcb5. }
      rewrite u2_all in Hpc6.
      assert (Hb5 : blocal s5 b = gep s) by (rewrite Hlo5, Hlo4, Hlo2; exact Heq).
      rewrite Hb5, uslots_succ in Htl6, Hwh6. cbn [is_nil flat_map] in Htl6, Hwh6. rewrite app_nil_r in Hwh6.
      pose proof (N0_reach cfg ns nc s4 Hr4) as I4. pose proof (N0_reach cfg ns nc s5 Hr5) as I5.
      assert (Hw4 : g_where s4 = g_where s) by (rewrite Hwh4, Hwh2; reflexivity).
      assert (Hw5 : forall n, g_where s5 n = if memN n (orph s4 ((gep s + 1) mod 3)) then PFreed else g_where s n).
      { intros n. rewrite Hwh5, Hw4. reflexivity. }
      assert (Hw6 : forall n, g_where s6 n = if memN n (rl (tl s5 t) ((gep s + 1) mod 3)) then PFreed else g_where s5 n) by exact Hwh6.
      assert (H1 : forall n, g_where s6 n = g_where s n \/ (g_where s6 n = PFreed /\ exists i, g_where s n = POrph i \/ g_where s n = PList t i)).
      { intros n. rewrite Hw6. destruct (memN n (rl (tl s5 t) ((gep s + 1) mod 3))) eqn:M1.
        - right. split; [reflexivity|]. apply memN_In in M1. apply (n_list s5 I5) in M1. rewrite Hw5 in M1.
          destruct (memN n (orph s4 ((gep s + 1) mod 3))); [discriminate M1|]. exists ((gep s + 1) mod 3). right. exact M1.
        - rewrite Hw5. destruct (memN n (orph s4 ((gep s + 1) mod 3))) eqn:M2; [|left; reflexivity].
          right. split; [reflexivity|]. apply memN_In in M2. apply (n_orph s4 I4) in M2. rewrite Hw4 in M2. exists ((gep s + 1) mod 3). left. exact M2. }
      destruct (round_tail s b s1 (k2 + (1 + (k4 + (k5 + 2))))%nat s6 n0 (gep s + 1) (gep s + 1) O Q Hst) as (s' & Hop & Q' & Kp & Gg & Gl & Gc & Gf & _ & _).
      { eapply ssteps_app; [exact Hs12|]. eapply solo_S; [exact Hi2|exact Hst3|].
        eapply ssteps_app; [exact Hs34|]. eapply ssteps_app; [exact Hs45|exact Hs56]. }
      { exact Hpc6. } { rewrite Htl6. prj. exact Hcb5. }
      { rewrite Htl6. prj. rewrite Htl5, Htl4. prj. rewrite Htl2. prj. rewrite Hnest. reflexivity. }
      { rewrite Htl6. prj. rewrite Htl5, Htl4. prj. rewrite Htl2. prj. rewrite Hrent. reflexivity. }
      { rewrite Htl6. prj. rewrite Htl5, Htl4. prj. rewrite Htl2. prj. exact Hrg. }
      { rewrite Htl6. prj. rewrite Htl5, Htl4. prj. reflexivity. } { lia. }
      { rewrite Hg6, Hg5. reflexivity. } { rewrite Hbl6, Hbl5, Hbl4, Hbl2. reflexivity. } { rewrite Hbf6, Hbf5, Hbf4, Hbf2. reflexivity. }
      { rewrite Hlo6. apply updN_same. } { rewrite Hce6, Hce5, Hce4, Hce2. exact Hcell. } { exact Hcell. } { exact H1. }
      exists s'. split; [exact Hop|]. split; [exact Q'|]. split; [exact Kp|].
      right. right. repeat split; try assumption.
      intros n Hn. apply Gf. rewrite Hw6. destruct (memN n (rl (tl s5 t) ((gep s + 1) mod 3))) eqn:M1; [reflexivity|].
      rewrite Hw5. destruct Hn as [Hn|Hn].
      * rewrite <- Hw4 in Hn. apply (n_orph s4 I4) in Hn. apply memN_In in Hn. rewrite Hn. reflexivity.
      * exfalso. apply memN_false in M1. apply M1. apply (n_list s5 I5). rewrite Hw5.
        destruct (memN n (orph s4 ((gep s + 1) mod 3))) eqn:M2; [|exact Hn].
        apply memN_In in M2. apply (n_orph s4 I4) in M2. rewrite Hw4 in M2. congruence.
    + (* B: the epoch is current and no scan is due *)
      pose (s3 := set_pc t (A2 K) (set_tl t (wt_sync true (wt_ces (S (ces (tl s2 t))) (tl s2 t))) s2)).
      assert (Hst3 : step cfg ns s2 (Step t) = Some (s3, [ELoad t (L_blocal b) mo_rlx (VInt (blocal s2 b))])).
      { unfold s3. eapply st_E4b; [exact Hpc2|exact Hcb2|rewrite Hlo2; exact Heq|rewrite Htl2; exact Ec]. }
      destruct (round_tail s b s1 (k2 + 1)%nat s3 n0 (gep s) (gep s) (S (ces (tl s t))) Q Hst) as (s' & Hop & Q' & Kp & Gg & Gl & Gc & Gf & _ & _).
      { eapply ssteps_app; [exact Hs12|]. eapply solo_S; [exact Hi2|exact Hst3|apply solo_O]. }
      { unfold s3. prj. apply upd_same. } { unfold s3. prj. rewrite upd_same. prj. exact Hcb2. }
      { unfold s3. prj. rewrite upd_same. prj. rewrite Htl2. prj. rewrite Hnest. reflexivity. }
      { unfold s3. prj. rewrite upd_same. prj. rewrite Htl2. prj. rewrite Hrent. reflexivity. }
      { unfold s3. prj. rewrite upd_same. prj. rewrite Htl2. prj. exact Hrg. }
      { unfold s3. prj. rewrite upd_same. prj. rewrite Htl2. reflexivity. } { lia. }
      { unfold s3. prj. exact Hg2. } { unfold s3. prj. exact Hbl2. } { unfold s3. prj. exact Hbf2. }
      { unfold s3. prj. rewrite Hlo2. exact Heq. } { unfold s3. prj. rewrite Hce2. exact Hcell. } { exact Hcell. }
      { intros n. left. unfold s3. prj. rewrite Hwh2. reflexivity. }
      exists s'. split; [exact Hop|]. split; [exact Q'|]. split; [exact Kp|].
      right. left. repeat split; assumption.
  - (* A: the local epoch is behind: update_local_epoch(global epoch) *)
    pose (s3 := set_pc t (U1 K (gep s)) (set_tl t (wt_ces O (tl s2 t)) s2)).
    assert (Hst3 : step cfg ns s2 (Step t) = Some (s3, [ELoad t (L_blocal b) mo_rlx (VInt (blocal s2 b))])).
    { unfold s3. eapply st_E4a; [exact Hpc2|exact Hcb2|rewrite Hlo2; exact Hne]. }
    assert (Hr3 : reachable s3) by (eapply reach_step; eauto).
    destruct (ph_upd s3 b (gep s)) as (s4 & Hs34 & Hpc4 & Htl4 & Hg4 & Hbl4 & Hbf4 & Hlo4 & Hce4 & Hwh4).
    { unfold s3. prj. apply upd_same. } { unfold s3. prj. rewrite upd_same. prj. exact Hcb2. }
    rewrite u2_all in Hpc4.
    unfold s3 in Htl4, Hg4, Hbl4, Hbf4, Hlo4, Hce4, Hwh4. prj_in Htl4. prj_in Hg4. prj_in Hbl4. prj_in Hbf4. prj_in Hlo4. prj_in Hce4. prj_in Hwh4.
    rewrite !upd_same in Htl4. prj_in Htl4. rewrite !upd_same in Hwh4. prj_in Hwh4.
    pose proof (N0_reach cfg ns nc s Hr) as I0.
    destruct (round_tail s b s1 (k2 + (1 + 2))%nat s4 n0 (gep s) (gep s) O Q Hst) as (s' & Hop & Q' & Kp & Gg & Gl & Gc & Gf & _ & _).
    { eapply ssteps_app; [exact Hs12|]. eapply solo_S; [exact Hi2|exact Hst3|exact Hs34]. }
    { exact Hpc4. } { rewrite Htl4. prj. exact Hcb2. }
    { rewrite Htl4. prj. rewrite Htl2. prj. rewrite Hnest. reflexivity. }
    { rewrite Htl4. prj. rewrite Htl2. prj. rewrite Hrent. reflexivity. }
    { rewrite Htl4. prj. rewrite Htl2. prj. exact Hrg. }
    { rewrite Htl4. prj. reflexivity. } { lia. }
    { rewrite Hg4. exact Hg2. } { rewrite Hbl4. exact Hbl2. } { rewrite Hbf4. exact Hbf2. }
    { rewrite Hlo4. apply updN_same. } { rewrite Hce4, Hce2. exact Hcell. } { exact Hcell. }
    { intros n. rewrite Hwh4. destruct (memN n _) eqn:M; [|left; rewrite Hwh2; reflexivity].
      right. split; [reflexivity|]. apply memN_In in M. apply in_flat_map in M. destruct M as (i & _ & M). rewrite Htl2 in M. prj_in M.
      apply (n_list s I0 t i n) in M. exists i. right. exact M. }
    exists s'. split; [exact Hop|]. split; [exact Q'|]. split; [exact Kp|].
    left. repeat split; assumption.
Qed.

(** [flush k]: k flush operations one after the other, the thread running alone *)
Fixpoint flush (k : nat) (s s' : state) : Prop :=
  match k with O => s' = s | S m => exists s1, solo_op s s1 /\ flush m s1 s' end.

Lemma flush_app k m s s1 s2 : flush k s s1 -> flush m s1 s2 -> flush (k + m) s s2.
Proof. revert s. induction k as [|k IH]; intros s H1 H2; cbn in *; [subst; exact H2|]. destruct H1 as (x & Hx & H1). exists x. split; [exact Hx|]. eapply IH; eauto. Qed.

Lemma Keep_refl s : Keep s s.
Proof. repeat split; auto. Qed.
Lemma Keep_trans s1 s2 s3 : Keep s1 s2 -> Keep s2 s3 -> Keep s1 s3.
Proof.
  intros (A1 & A2 & A3) (B1 & B2 & B3). repeat split.
  - auto.
  - intros i n H. destruct (A2 i n H) as [X|X]; [apply B2; exact X|right; apply B1; exact X].
  - intros i n H. destruct (A3 i n H) as [X|[X|X]]; [apply B3; exact X| |right; right; apply B1; exact X].
    destruct (B2 i n X) as [Y|Y]; auto.
Qed.
(** what was freed (or is about to be) in an earlier part of the flush stays freed *)
Lemma FreedSlot_pre j s1 s2 s3 : Keep s1 s2 -> FreedSlot j s2 s3 -> Keep s2 s3 -> FreedSlot j s1 s3.
Proof.
  intros (A1 & A2 & A3) Fr (B1 & _). intros n [H|H].
  - destruct (A2 j n H) as [X|X]; [apply Fr; left; exact X|apply B1; exact X].
  - destruct (A3 j n H) as [X|[X|X]]; [apply Fr; right; exact X|apply Fr; left; exact X|apply B1; exact X].
Qed.
Lemma FreedSlot_post j s1 s2 s3 : FreedSlot j s1 s2 -> Keep s2 s3 -> FreedSlot j s1 s3.
Proof. intros Fr (B1 & _) n H. apply B1. apply Fr. exact H. Qed.

Lemma Summary_Keep s s' b : Summary s s' b -> Keep s s'.
Proof. intros (A & _). exact A. Qed.

(** any number of further operations keeps what was achieved *)
Lemma pad : forall m s b, Quiet s b -> exists s', flush m s s' /\ Quiet s' b /\ Keep s s'.
Proof.
  induction m as [|m IH]; intros s b Q; [exists s; split; [reflexivity|split; [exact Q|apply Keep_refl]]|].
  destruct (round s b Q) as (s1 & Ho & Q1 & S1). destruct (IH s1 b Q1) as (s' & Hf & Q' & K').
  exists s'. split; [exists s1; split; assumption|]. split; [exact Q'|]. eapply Keep_trans; [eapply Summary_Keep; eauto|exact K'].
Qed.

(** operations without a scan until one is due *)
Lemma wait_scan : forall k s b, Quiet s b -> blocal s b = gep s -> (F - ces (tl s t) = k)%nat ->
  exists s', flush k s s' /\ Quiet s' b /\ blocal s' b = gep s' /\ gep s' = gep s /\ ces (tl s' t) = F /\ Keep s s'.
Proof.
  induction k as [|k IH]; intros s b Q Hl Hk.
  - exists s. pose proof (q_ces _ _ Q). split; [reflexivity|split; [exact Q|split; [exact Hl|split; [reflexivity|split; [lia|apply Keep_refl]]]]].
  - destruct (round s b Q) as (s1 & Ho & Q1 & (K1 & [(X & _)|[(_ & Hc & Hg1 & Hl1 & Hc1)|(_ & X & _)]])); [contradiction| |lia].
    destruct (IH s1 b Q1) as (s' & Hf & Q' & Hl' & Hg' & Hc' & K'); [congruence|lia|].
    exists s'. split; [exists s1; split; assumption|]. split; [exact Q'|]. split; [exact Hl'|]. split; [congruence|]. split; [exact Hc'|].
    eapply Keep_trans; eauto.
Qed.

(** F - ces operations without a scan, then one that scans, advances the epoch and frees slot (e + 1) mod 3 *)
Lemma advance s b : Quiet s b -> blocal s b = gep s ->
  exists s', flush (F - ces (tl s t) + 1) s s' /\ Quiet s' b /\ blocal s' b = gep s' /\ gep s' = gep s + 1 /\ ces (tl s' t) = O /\
    Keep s s' /\ FreedSlot ((gep s + 1) mod 3) s s'.
Proof.
  intros Q Hl. destruct (wait_scan _ s b Q Hl eq_refl) as (s1 & Hf1 & Q1 & Hl1 & Hg1 & Hc1 & K1).
  destruct (round s1 b Q1) as (s2 & Ho & Q2 & (K2 & [(X & _)|[(_ & X & _)|(_ & _ & Hg2 & Hl2 & Hc2 & F2)]])); [contradiction|contradiction|].
  exists s2. split; [eapply flush_app; [exact Hf1|exists s2; split; [exact Ho|reflexivity]]|].
  split; [exact Q2|]. split; [congruence|]. split; [congruence|]. split; [exact Hc2|]. split; [eapply Keep_trans; eauto|].
  rewrite Hg1 in F2. exact (FreedSlot_pre _ _ _ _ K1 F2 K2).
Qed.

Lemma residues e i : i < 3 -> i = (e + 1) mod 3 \/ i = (e + 2) mod 3 \/ i = (e + 3) mod 3.
Proof.
  intros Hi. rewrite (N.add_mod e 1 3), (N.add_mod e 2 3), (N.add_mod e 3 3) by discriminate.
  pose proof (N.mod_lt e 3 ltac:(discriminate)) as H. set (m := e mod 3) in *.
  assert (Hm : m = 0 \/ m = 1 \/ m = 2) by lia. assert (Hi' : i = 0 \/ i = 1 \/ i = 2) by lia.
  destruct Hm as [-> | [-> | ->]], Hi' as [-> | [-> | ->]]; cbn; auto.
Qed.

(** three epochs: every slot comes around once *)
Lemma three s b : Quiet s b -> blocal s b = gep s ->
  exists m s', (m <= 3 * (F + 1))%nat /\ flush m s s' /\ Quiet s' b /\ Keep s s' /\
    FreedSlot ((gep s + 1) mod 3) s s' /\ FreedSlot ((gep s + 2) mod 3) s s' /\ FreedSlot ((gep s + 3) mod 3) s s'.
Proof.
  intros Q Hl.
  destruct (advance s b Q Hl) as (s1 & Hf1 & Q1 & Hl1 & Hg1 & Hc1 & K1 & F1).
  destruct (advance s1 b Q1 Hl1) as (s2 & Hf2 & Q2 & Hl2 & Hg2 & Hc2 & K2 & F2).
  destruct (advance s2 b Q2 Hl2) as (s3 & Hf3 & Q3 & Hl3 & Hg3 & Hc3 & K3 & F3).
  rewrite Hc1 in Hf2. rewrite Hc2 in Hf3.
  exists ((F - ces (tl s t) + 1) + ((F - 0 + 1) + (F - 0 + 1)))%nat, s3. split; [lia|].
  split; [exact (flush_app _ _ _ _ _ Hf1 (flush_app _ _ _ _ _ Hf2 Hf3))|]. split; [exact Q3|].
  pose proof (Keep_trans _ _ _ K1 K2) as K12. pose proof (Keep_trans _ _ _ K2 K3) as K23.
  split; [exact (Keep_trans _ _ _ K12 K3)|]. split; [|split].
  - exact (FreedSlot_post _ _ _ _ F1 K23).
  - replace (gep s + 2) with (gep s1 + 1) by lia. exact (FreedSlot_post _ _ _ _ (FreedSlot_pre _ _ _ _ K1 F2 K2) K3).
  - replace (gep s + 3) with (gep s2 + 1) by lia. exact (FreedSlot_pre _ _ _ _ K12 F3 K3).
Qed.

(** [gebr_no_leak_at_quiescence_all_threads] (C02, the liveness half as a bounded solo run, every configuration with
    scan::all_threads): in a reachable state in which thread t is between operations, holds no guard and no region_guard,
    and no thread is inside a critical region (every control block of the list has is_in_critical_region = false),
    3 F + 4 flush operations of t (F = scan_frequency) - each one acquires a guard on cell c (entering a critical region),
    replaces the node and retires the old one, exactly what the teardown of harness/h_recl.cpp does - free every node that
    sits in an orphan list (abandoned, handed over by an exited thread, put back) or in a retire list of t (and keep freed
    what was freed).  Every operation finishes when the thread runs alone. *)
Theorem gebr_no_leak_at_quiescence_all_threads s b : Quiet s b ->
  exists s', flush (3 * F + 4) s s' /\ Quiet s' b /\
    forall n, (g_where s n = PFreed \/ exists i, g_where s n = POrph i \/ g_where s n = PList t i) -> g_where s' n = PFreed.
Proof.
  intros Q.
  assert (Hall' : forall s', Keep s s' -> FreedSlot ((gep s + 1) mod 3) s s' -> FreedSlot ((gep s + 2) mod 3) s s' -> FreedSlot ((gep s + 3) mod 3) s s' ->
                 forall n, (g_where s n = PFreed \/ exists i, g_where s n = POrph i \/ g_where s n = PList t i) -> g_where s' n = PFreed).
  { intros s' (K1 & _) F1 F2 F3 n [H|(i & H)]; [apply K1; exact H|].
    assert (Hi : i < 3).
    { pose proof (tag_reach cfg ns nc s (q_reach _ _ Q) n) as G. unfold tag_ok in G.
      destruct H as [H|H]; rewrite H in G; [destruct G as (t' & r & _ & <- & _)|destruct G as (b' & t' & r & _ & _ & <- & _)]; apply N.mod_lt; discriminate. }
    destruct (residues (gep s) i Hi) as [-> | [-> | ->]]; [apply F1|apply F2|apply F3]; exact H. }
  destruct (N.eq_dec (blocal s b) (gep s)) as [Hl|Hne].
  - destruct (three s b Q Hl) as (m & s3 & Hm & Hf & Q3 & K3 & G1 & G2 & G3).
    destruct (pad (3 * F + 4 - m) s3 b Q3) as (s' & Hp & Q' & K').
    exists s'. split; [replace (3 * F + 4)%nat with (m + (3 * F + 4 - m))%nat by lia; exact (flush_app _ _ _ _ _ Hf Hp)|]. split; [exact Q'|].
    apply Hall'; [exact (Keep_trans _ _ _ K3 K')| | |]; eapply FreedSlot_post; eauto.
  - (* the local epoch is behind: one operation to catch up *)
    destruct (round s b Q) as (s1 & Ho & Q1 & (K1 & [(_ & Hg1 & Hl1 & Hc1)|[(X & _)|(X & _)]])); [|contradiction|contradiction].
    destruct (three s1 b Q1 ltac:(congruence)) as (m & s3 & Hm & Hf & Q3 & K3 & G1 & G2 & G3).
    destruct (pad (3 * F + 3 - m) s3 b Q3) as (s' & Hp & Q' & K').
    exists s'. split.
    { replace (3 * F + 4)%nat with (S (m + (3 * F + 3 - m)))%nat by lia. exists s1. split; [exact Ho|exact (flush_app _ _ _ _ _ Hf Hp)]. }
    split; [exact Q'|]. rewrite Hg1 in G1, G2, G3.
    apply Hall'; [exact (Keep_trans _ _ _ K1 (Keep_trans _ _ _ K3 K'))| | |];
      (eapply FreedSlot_post; [eapply FreedSlot_pre; [exact K1| |exact K3]|exact K']); assumption.
Qed.
End AllThreads.
End Flush.

(** * Examples: the hypotheses are satisfiable, and the flush on concrete states *)
Definition fsteps (t n : nat) : list action := repeat (Step t) n.
Definition fop (t : nat) (o : op) : list action := Start t o :: fsteps t 60.
Definition frun (cfg : config) (acts : list action) : state := fst (fst (run (step cfg 3) (init 2) acts)).

(** abandon::always: thread 1 has retired node 0 and abandoned it to orphan list 0; it is between operations, no thread is
    inside a critical region: a quiescent state with an orphan ... *)
Example ex_quiet : Quiet cfg_GEBR_aband 3 2 1 1 (frun cfg_GEBR_aband (fop 1 (ORepl 0))) 2.
Proof.
  constructor.
  - apply run_reach.
  - vm_compute; reflexivity.
  - vm_compute; reflexivity.
  - vm_compute; reflexivity.
  - vm_compute; reflexivity.
  - assert (Ebl : blist (frun cfg_GEBR_aband (fop 1 (ORepl 0))) = [2]) by (vm_compute; reflexivity).
    intros p Hp. rewrite Ebl in Hp. destruct Hp as [<-|[]]. vm_compute. reflexivity.
  - exists 1. vm_compute. reflexivity.
  - vm_compute. repeat constructor.
Qed.

(** ... 3 F + 4 = 7 flush operations (F = 1) free it; 4 do not *)
Example ex_flush_counts :
  let s0 := fop 1 (ORepl 0) in
  let s4 := frun cfg_GEBR_aband (s0 ++ concat (repeat (fop 1 (ORepl 1)) 4)) in
  let s7 := frun cfg_GEBR_aband (s0 ++ concat (repeat (fop 1 (ORepl 1)) 7)) in
  g_where (frun cfg_GEBR_aband s0) 0 = POrph 0 /\ g_where s4 0 = POrph 0 /\ g_where s7 0 = PFreed /\ g_nfree s7 0 = 1%nat.
Proof. vm_compute. repeat split; reflexivity. Qed.

(** debra (scan::one_thread, F = 1) with L = 2 thread control blocks: the scan looks at one control block per scan, the
    same job (an orphan left by an exited thread) takes up to 1 + 3 (F + 1) L = 13 operations; here 10 are not enough
    (scan::all_threads: 7) *)
Example ex_flush_debra :
  let s0 := fop 1 (ORead 1) ++ fop 2 (ORead 1) ++ fop 1 (ORepl 0) ++ fop 1 OExit ++ fop 2 OExit ++ fop 3 (ORead 1) in
  let s10 := frun cfg_DEBRA (s0 ++ concat (repeat (fop 3 (ORepl 1)) 10)) in
  let s13 := frun cfg_DEBRA (s0 ++ concat (repeat (fop 3 (ORepl 1)) 13)) in
  blist (frun cfg_DEBRA s0) = [3; 2] /\ g_where (frun cfg_DEBRA s0) 0 = POrph 1 /\ g_where s10 0 = POrph 1 /\ g_where s13 0 = PFreed.
Proof. vm_compute. repeat split; reflexivity. Qed.
