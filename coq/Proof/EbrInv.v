(** Invariants of the epoch based reclamation model (Model/EbrDefs.v), properties C01 / C02.
    All theorems hold for every reachable state: any number of threads, any client program over the
    operations of the model, any schedule, any number of cells / guard slots.  No axioms. *)
From Coq Require Import NArith List Bool Arith Lia PeanoNat.
From XV Require Import Conc.Lts Conc.Ev Model.EbrDefs.
Import ListNotations.
Local Open Scope N_scope.

(** * Function updates *)
Lemma updN_same {X} (f : N -> X) i v : updN f i v i = v.
Proof. unfold updN. rewrite N.eqb_refl. reflexivity. Qed.
Lemma updN_other {X} (f : N -> X) i v j : j <> i -> updN f i v j = f j.
Proof. unfold updN. intros H. destruct (N.eqb_spec j i); [contradiction|reflexivity]. Qed.
Lemma updN_cases {X} (f : N -> X) i v j : (j = i /\ updN f i v j = v) \/ (j <> i /\ updN f i v j = f j).
Proof. destruct (N.eq_dec j i) as [->|H]; [left; split; [reflexivity|apply updN_same] | right; split; [exact H|apply updN_other; exact H]]. Qed.
Lemma upd_cases {X} (f : nat -> X) i v j : (j = i /\ upd f i v j = v) \/ (j <> i /\ upd f i v j = f j).
Proof. destruct (Nat.eq_dec j i) as [->|H]; [left; split; [reflexivity|apply upd_same] | right; split; [exact H|apply upd_other; exact H]]. Qed.

Ltac prj := cbn [gep blist bstate bflag blocal orph cells nalloc nextid nid th tl g_owner g_life g_where g_nfree g_uaf
                 w_gep w_blist w_bstate w_bflag w_blocal w_orph w_cells w_nalloc w_nextid w_nid w_th w_tl w_g_owner w_g_life w_g_where w_g_nfree w_g_uaf
                 set_pc set_tl free_all move_all deref
                 cb nest ces lidx rl gs wt_cb wt_nest wt_ces wt_lidx wt_rl wt_gs tl0].
Ltac prj_in H := cbn [gep blist bstate bflag blocal orph cells nalloc nextid nid th tl g_owner g_life g_where g_nfree g_uaf
                 w_gep w_blist w_bstate w_bflag w_blocal w_orph w_cells w_nalloc w_nextid w_nid w_th w_tl w_g_owner w_g_life w_g_where w_g_nfree w_g_uaf
                 set_pc set_tl free_all move_all deref
                 cb nest ces lidx rl gs wt_cb wt_nest wt_ces wt_lidx wt_rl wt_gs tl0] in H.

Lemma oeqb_eq a b : oeqb a b = true <-> a = b.
Proof.
  destruct a as [x|], b as [y|]; cbn; split; intros H; try congruence; try discriminate.
  - apply N.eqb_eq in H. congruence.
  - inversion H. apply N.eqb_refl.
Qed.

Lemma memN_In n l : memN n l = true <-> In n l.
Proof.
  unfold memN. rewrite existsb_exists. split.
  - intros (x & Hx & E). apply N.eqb_eq in E. subst. exact Hx.
  - intros H. exists n. split; [exact H|apply N.eqb_refl].
Qed.
Lemma memN_false n l : memN n l = false <-> ~ In n l.
Proof. rewrite <- memN_In. destruct (memN n l); split; intros; congruence. Qed.

(** * Case analysis of one step *)

(** every way [step] can succeed yields one goal with the successor state in constructor form *)
Ltac inv_some H := injection H as <- <-.

Ltac step_split H :=
  repeat match type of H with
  | None = Some _ => discriminate H
  | context [match ?x with _ => _ end] =>
      let E := fresh "E" in destruct x eqn:E
  | Some _ = Some _ => inv_some H
  end.

Ltac unfold_step H :=
  unfold step, leave, do_cont, to_cas, finish, enter, enter_cb, walk, scan_next in H.
