(** xenium::reclamation::epoch_based<> (generic_epoch_based, Model/EbrDefs.v): the theorems behind C01 and C02.

    The proofs are layered (each layer holds for every reachable state: any number of threads, any client
    program over the operations of the model, any schedule, any number of cells and guard slots):
      Proof/EbrBase.v    frame of a step, thread-local shape ([tshape]: nesting counter = number of non-empty
                         guards ...), exclusive ownership of thread control blocks, meaning of the flag ([O0])
      Proof/EbrEpoch.v   the epoch argument ([P1], [PB]): a thread inside a critical region with a validated
                         epoch v keeps global_epoch <= v + 1
      Proof/EbrNodes.v   where a retired node is ([N0]): exactly one place, no duplicates, freed at most once
      Proof/EbrTags.v    in which epoch a node may be freed ([tag_ok]): global_epoch >= r + 3
      Proof/EbrGuards.v  guards ([guard_ok], [guard_not_freed], [uaf_reach])
      Proof/EbrFlush.v   the flush as a bounded solo run ([ebr_no_leak_at_quiescence]: seven operations)
    This file states the results.  No axioms. *)
From Coq Require Import NArith List Bool Arith Lia PeanoNat Setoid.
From XV Require Import Conc.Lts Conc.Ev Model.EbrDefs Proof.EbrBase Proof.EbrEpoch Proof.EbrNodes Proof.EbrTags Proof.EbrGuards Proof.EbrFlush.
Import ListNotations.
Local Open Scope N_scope.

Section Theorems.
Variables (ns : nat) (nc : N).
Notation reachable := (reach (init nc) (step ns)).

(** * C01 *)

(** The epoch window: while thread [u] is inside a critical region (its is_in_critical_region flag is set) and has
    validated its epoch (it is past the load of global_epoch in do_enter_critical; [ve] is the epoch it carries:
    the value it loaded, the value it advanced the epoch to, or its published local_epoch), the global epoch is at
    most one ahead of that epoch - and never behind. *)
Theorem ebr_epoch_window st : reachable st ->
  forall u b v, cb (tl st u) = Some b -> bflag st b = true -> ve (th st u) (blocal st b) = Some v ->
    gep st <= v + 1.
Proof.
  intros Hr u b v Hb Hf Hv. destruct (EI_reach ns nc st Hr) as [P _].
  destruct (P u b Hb) as (_ & _ & PA). exact (PA Hf v Hv).
Qed.

(** A node retired in local epoch r is only freed when the global epoch is >= r + 3
    (= two epochs after the global epoch at the time of the retirement, which was r or r + 1). *)
Theorem ebr_free_epoch st : reachable st ->
  forall n t r, g_where st n = PFreed -> g_life st n = LRet t r -> r + 3 <= gep st.
Proof.
  intros Hr n t r W L. pose proof (tag_reach ns nc st Hr n) as G. unfold tag_ok in G. rewrite W in G.
  destruct G as (t' & r' & L' & H). rewrite L in L'. injection L' as <- <-. exact H.
Qed.

(** [ebr_safe] (C01): a node protected by a guard_ptr - a persistent guard of the client ([gs]) or the guard of the
    running repl/clear ([tmpg]), both acquired inside a critical region and validated against the cell - is not freed
    (and was not dropped by its creator); and no dereference ever hit a destroyed node ([g_uaf]). *)
Theorem ebr_safe st : reachable st ->
  (forall u n, holds st u n -> g_nfree st n = O /\ g_where st n <> PFreed /\ g_life st n <> LDropped) /\
  g_uaf st = false.
Proof.
  intros Hr. split; [|apply (uaf_reach ns nc); exact Hr].
  intros u n Hh.
  destruct (guard_not_freed ns st u n (T0_reach ns nc st Hr) (O0_reach ns nc st Hr) (EI_reach ns nc st Hr)
              (N0_reach ns nc st Hr) (tag_reach ns nc st Hr) (GI_reach ns nc st Hr u n Hh) Hh) as (H1 & H2 & H3).
  auto.
Qed.

(** * C02, safety half *)

(** [ebr_exactly_once]: a node is freed at most once and only after it was retired; a retired node is in exactly one
    place, which the ghost [g_where] names: retire list [i] of one thread, one orphan list, adopted by one thread
    inside update_global_epoch, or freed - and it is an element of that list (nothing is dropped, in particular not
    by the hand-over at thread exit) and of no other (nothing is duplicated); the lists are duplicate free. *)
Theorem ebr_exactly_once st : reachable st ->
  (forall n, (g_nfree st n <= 1)%nat) /\
  (forall n, g_nfree st n = 1%nat <-> g_where st n = PFreed) /\
  (forall n, g_where st n <> PNone <-> exists t r, g_life st n = LRet t r) /\
  (forall u i n, In n (rl (tl st u) i) <-> g_where st n = PList u i) /\
  (forall i n, In n (orph st i) <-> g_where st n = POrph i) /\
  (forall u n, In n (flight (th st u)) <-> g_where st n = PFlight u) /\
  (forall u i, NoDup (rl (tl st u) i)) /\ (forall i, NoDup (orph st i)) /\ (forall u, NoDup (flight (th st u))).
Proof.
  intros Hr. pose proof (N0_reach ns nc st Hr) as I.
  assert (W := n_where st I).
  split; [|split; [|split; [|split; [|split; [|split; [|split; [|split]]]]]]]; try apply I.
  - intros n. specialize (W n). destruct (g_where st n); cbn in W; destruct W as [_ ->]; lia.
  - intros n. specialize (W n). split; intros H.
    + destruct (g_where st n); cbn in W; destruct W as [_ W]; try reflexivity; rewrite W in H; discriminate.
    + rewrite H in W. cbn in W. apply W.
  - intros n. specialize (W n). split.
    + intros H. destruct (g_where st n); cbn in W; destruct W as [W _]; try exact W. congruence.
    + intros (t & r & L) H. rewrite H in W. cbn in W. destruct W as [W _]. eapply W. exact L.
Qed.

(** the same at the level of the FREE events of one step: a FREE is the client's delete of its own never published node
    (lost CAS of repl), or the reclaimer's delete of a retired node that had not been freed before *)
Theorem ebr_free_event st a st' es : reachable st -> step ns st a = Some (st', es) ->
  forall t n, In (EFree t n) es ->
    (g_life st n = LFresh t /\ g_life st' n = LDropped) \/
    ((exists t' r, g_life st n = LRet t' r) /\ g_nfree st n = O /\ g_nfree st' n = 1%nat).
Proof.
  intros Hr H t0 n Hin.
  assert (Hr' : reachable st') by (eapply reach_step; eauto).
  pose proof (N0_reach ns nc st Hr) as I. pose proof (N0_reach ns nc st' Hr') as I'.
  assert (Hret : forall m, g_where st m <> PNone -> g_where st m <> PFreed -> g_where st' m = PFreed ->
                 (exists t' r, g_life st m = LRet t' r) /\ g_nfree st m = O /\ g_nfree st' m = 1%nat).
  { intros m H1 H2 H3. pose proof (n_where st I m) as W. pose proof (n_where st' I' m) as W'. rewrite H3 in W'. cbn in W'.
    destruct (g_where st m); cbn in W; try congruence; destruct W as [W1 W2]; destruct W' as [_ W2']; auto. }
  destruct a as [t o|t]; [unfold step in H; step_split H; destruct Hin|].
  unfold_step H. cbv zeta in H. step_split H.
  all: bool_eqs; cbn [In app free_evs map] in Hin; rewrite ?in_app_iff in Hin; cbn [In] in Hin.
  all: repeat match goal with H : _ \/ _ |- _ => destruct H end; try discriminate; try contradiction.
  all: try match goal with H : In (EFree _ _) (free_evs _ _) |- _ => unfold free_evs in H; apply in_map_iff in H; destruct H as (m & Hm & Hl); injection Hm as Ht0 Hn0; subst m; subst t0 end.
  all: try match goal with H : EFree _ _ = EFree _ _ |- _ => injection H as Ht0 Hn0; subst t0; try subst n end.
  all: try solve [left; split; [apply (n_fresh1 st I t); rewrite E; reflexivity | prj; rewrite ?updN_same; reflexivity]].
  all: try solve [left; split; [apply (n_fresh1 st I t); rewrite E; reflexivity | prj; destruct (g_life st n); reflexivity]].
  1: { (* G5: the adopted nodes *)
    right. assert (Hw : g_where st n = PFlight t) by (apply (n_flight st I t n); rewrite E; exact Hl).
    apply Hret; [congruence|congruence|]. prj. assert (M : memN n l = true) by (apply memN_In; exact Hl). rewrite M. reflexivity. }
  (* U2: the slots of the epochs passed *)
  all: right; apply in_flat_map in Hl; destruct Hl as (i & Hi & Hl);
    assert (Hw : g_where st n = PList t i) by (apply (n_list st I t i n); exact Hl);
    apply Hret; [congruence|congruence|]; prj;
    assert (M : memN n (flat_map (rl (tl st t)) (uslots new old)) = true) by (apply memN_In; apply in_flat_map; eauto);
    rewrite M; reflexivity.
Qed.

End Theorems.

(** * Examples (executable runs of the model; the same schedules were replayed on the real code, build/h_ebr) *)
Definition steps (t n : nat) : list action := repeat (Step t) n.
Definition run2 (acts : list action) : state := fst (fst (run (step 3) (init 2) acts)).
Definition skipped2 (acts : list action) : nat := snd (run (step 3) (init 2) acts).

(** thread 1 holds a guard on node 0 (cell 0); thread 2 replaces the node and retires it (local epoch 0), then enters
    critical regions again and again: the global epoch gets to 1 and stays there, node 0 stays in thread 2's retire
    list 0 ... *)
Definition ex1_before : list action :=
  ([Start 1 (OHold 0 0)] ++ steps 1 13 ++ [Start 2 (ORepl 0)] ++ steps 2 16 ++ [Start 2 (ORead 1)] ++ steps 2 19 ++
   [Start 2 (ORead 1)] ++ steps 2 8 ++ [Start 2 (ORead 1)] ++ steps 2 13 ++ [Start 2 (ORead 1)] ++ steps 2 8 ++
   [Start 2 (ORead 1)] ++ steps 2 13)%nat.
(** ... until thread 1 drops its guard (and exits): two more epochs, and node 0 is freed when thread 2 reaches epoch 3 *)
Definition ex1_after : list action :=
  ([Start 1 (ODrop 0)] ++ steps 1 2 ++ [Start 1 OExit] ++ steps 1 1 ++ [Start 2 (ORead 1)] ++ steps 2 8 ++
   [Start 2 (ORead 1)] ++ steps 2 18 ++ [Start 2 (ORead 1)] ++ steps 2 8 ++ [Start 2 (ORead 1)] ++ steps 2 18 ++
   [Start 2 (ORead 1)] ++ steps 2 8 ++ [Start 2 OExit] ++ steps 2 1)%nat.

Example ex1_guarded_node_survives :
  let st := run2 ex1_before in
  skipped2 ex1_before = O /\ gs (tl st 1%nat) 0%nat = Some 0 /\ g_life st 0 = LRet 2 0 /\ g_where st 0 = PList 2 0 /\
  gep st = 1 /\ g_nfree st 0 = O /\ g_uaf st = false.
Proof. vm_compute. repeat split; reflexivity. Qed.

Example ex1_freed_two_epochs_later :
  let st := run2 (ex1_before ++ ex1_after) in
  skipped2 (ex1_before ++ ex1_after) = O /\ g_where st 0 = PFreed /\ g_nfree st 0 = 1%nat /\ gep st = 3 /\ g_uaf st = false.
Proof. vm_compute. repeat split; reflexivity. Qed.

(** thread 1 retires node 0 and exits before reclamation was possible: the node is handed over to orphan list 0 ... *)
Definition ex2_before : list action := ([Start 1 (ORepl 0)] ++ steps 1 15 ++ [Start 1 OExit] ++ steps 1 3)%nat.
(** ... thread 2 adopts it when it advances the epoch from 2 to 3 and frees it *)
Definition ex2_after : list action :=
  ([Start 2 (ORead 1)] ++ steps 2 13 ++ [Start 2 (ORead 1)] ++ steps 2 17 ++ [Start 2 (ORead 1)] ++ steps 2 8 ++
   [Start 2 (ORead 1)] ++ steps 2 17 ++ [Start 2 (ORead 1)] ++ steps 2 8 ++ [Start 2 (ORead 1)] ++ steps 2 18 ++
   [Start 2 (ORead 1)] ++ steps 2 8 ++ [Start 2 (ORead 1)] ++ steps 2 17 ++ [Start 2 OExit] ++ steps 2 1)%nat.

Example ex2_handed_over_at_exit :
  let st := run2 ex2_before in
  skipped2 ex2_before = O /\ orph st 0 = [0] /\ g_where st 0 = POrph 0 /\ g_life st 0 = LRet 1 0 /\ cb (tl st 1%nat) = None /\ g_nfree st 0 = O.
Proof. vm_compute. repeat split; reflexivity. Qed.

Example ex2_freed_by_another_thread :
  let st := run2 (ex2_before ++ ex2_after) in
  skipped2 (ex2_before ++ ex2_after) = O /\ orph st 0 = [] /\ g_where st 0 = PFreed /\ g_nfree st 0 = 1%nat /\ gep st = 4.
Proof. vm_compute. repeat split; reflexivity. Qed.

(** * C02, liveness half as a bounded solo run: [EbrFlush.ebr_no_leak_at_quiescence]
    (stated and proved in Proof/EbrFlush.v; repeated in Properties/Properties_C01_ebr.v) *)
Check ebr_no_leak_at_quiescence.

(** the flush on a concrete state: after [ex2_before] (node 0 retired by thread 1, which exited: the node is an orphan)
    thread 2 acquires a control block (one read), then runs flush operations on cell 1 (each [Start] is followed by more
    [Step]s than the operation needs; [run] skips the surplus): node 0 is still an orphan after four of them and freed
    after seven *)
Definition flush_ops (k : nat) : list action := concat (repeat ([Start 2 (ORepl 1)] ++ steps 2 40) k).
Example ex3_flush :
  let st4 := run2 (ex2_before ++ [Start 2 (ORead 1)] ++ steps 2 20 ++ flush_ops 4) in
  let st7 := run2 (ex2_before ++ [Start 2 (ORead 1)] ++ steps 2 20 ++ flush_ops 7) in
  g_where st4 0 = POrph 0 /\ g_where st7 0 = PFreed /\ orph st7 0 = [] /\ g_nfree st7 0 = 1%nat /\ g_uaf st7 = false.
Proof. vm_compute. repeat split; reflexivity. Qed.

