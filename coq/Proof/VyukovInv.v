(** Correctness invariants of Dmitry Vyukov's bounded MPMC queue (xenium::vyukov_bounded_queue) on
    the step-level model of Model/VyukovDefs.v.  No axioms, no admits.

    Counter wrap-around is excluded by the side condition [Bnd st]: fewer than 2^62 values have been
    enqueued so far ([g_in] only grows, so [Bnd st] also bounds every state on the way to [st]).
    A side condition on the counter itself ([enq st < 2^62]) would NOT be sound: after 2^64 pushes the
    counter is small again while the ghost lists are long.  The capacity is [cap = 2^k], 1 <= k <= 30. *)
From Coq Require Import NArith ZArith List Bool Lia PeanoNat.
From XV Require Import Base.Word Conc.Lts Conc.Ev Model.VyukovDefs.
Import ListNotations.
Local Open Scope N_scope.

(** * 1. Arithmetic and lists *)

Definition B62 : N := 4611686018427387904.
Lemma pow2_62 : 2 ^ 62 = B62.
Proof. reflexivity. Qed.
Lemma pow2_64 : 2 ^ 64 = 18446744073709551616.
Proof. reflexivity. Qed.
Lemma pow2_30 : 2 ^ 30 = 1073741824.
Proof. reflexivity. Qed.

Lemma mod_eq_cases c a b : c <> 0 -> a mod c = b mod c -> a <= b ->
  b = a \/ b = a + c \/ a + 2 * c <= b.
Proof.
  intros Hc E Hab.
  assert (Ha := N.div_mod a c Hc). assert (Hb := N.div_mod b c Hc).
  rewrite E in Ha. set (r := b mod c) in *. set (qa := a / c) in *. set (qb := b / c) in *.
  clearbody r qa qb.
  assert (H : qb = qa \/ qb = qa + 1 \/ qa + 2 <= qb) by nia.
  destruct H as [H|[H|H]]; [left|right;left|right;right]; nia.
Qed.

Definition nn (l : list N) : N := N.of_nat (length l).
Definition gnth (l : list N) (p : N) : N := nth (N.to_nat p) l 0.

Lemma nn_app l v : nn (l ++ [v]) = nn l + 1.
Proof. unfold nn. rewrite app_length. cbn [length]. lia. Qed.
Lemma gnth_app1 l v p : p < nn l -> gnth (l ++ [v]) p = gnth l p.
Proof. unfold nn, gnth. intros. apply app_nth1. lia. Qed.
Lemma gnth_app2 l v : gnth (l ++ [v]) (nn l) = v.
Proof.
  unfold nn, gnth. rewrite Nat2N.id. rewrite app_nth2 by lia. rewrite Nat.sub_diag. reflexivity.
Qed.
Lemma firstn_snoc (l : list N) n d : (n < length l)%nat -> firstn (S n) l = firstn n l ++ [nth n l d].
Proof.
  revert n; induction l as [|a l IH]; intros n H; cbn [length] in H; [lia|].
  destruct n; cbn [firstn nth app]; [reflexivity|]. f_equal. apply IH. lia.
Qed.
Lemma nth_firstn (l : list N) n i d : (i < n)%nat -> nth i (firstn n l) d = nth i l d.
Proof.
  revert n i; induction l as [|a l IH]; intros n i H.
  - rewrite firstn_nil. reflexivity.
  - destruct n; [lia|]. cbn [firstn]. destruct i; cbn [nth]; [reflexivity|]. apply IH. lia.
Qed.

Lemma upd_keep (f : nat -> pc) t c t0 x : f t0 = x -> f t <> x -> upd f t c t0 = x.
Proof. intros H1 H2. rewrite upd_other; [exact H1|]. intros ->. contradiction. Qed.

Arguments cell : simpl never.

Section VyukovProof.
  Variables cap k : N.
  Hypothesis Hk1 : 1 <= k.
  Hypothesis Hk30 : k <= 30.
  Hypothesis Hcap : cap = 2 ^ k.

  Lemma cap_ge2 : 2 <= cap.
  Proof. subst cap. exact (N.pow_le_mono_r 2 1 k ltac:(lia) Hk1). Qed.
  Lemma cap_le : cap <= 1073741824.
  Proof. subst cap. rewrite <- pow2_30. apply N.pow_le_mono_r; lia. Qed.
  Lemma cell_mod p : cell cap p = p mod cap.
  Proof.
    unfold cell, mask. subst cap. rewrite N.sub_1_r, <- N.ones_equiv. apply N.land_ones.
  Qed.
  Lemma cell_lt p : cell cap p < cap.
  Proof. rewrite cell_mod. apply N.mod_lt. pose proof cap_ge2. lia. Qed.
  Lemma cell_add_cap p : cell cap (p + cap) = cell cap p.
  Proof.
    rewrite !cell_mod. replace (p + cap) with (p + 1 * cap) by lia. apply N.mod_add.
    pose proof cap_ge2. lia.
  Qed.
  Lemma cell_cases a b : cell cap a = cell cap b -> a <= b -> b = a \/ b = a + cap \/ a + 2 * cap <= b.
  Proof. rewrite !cell_mod. apply mod_eq_cases. pose proof cap_ge2. lia. Qed.
  Lemma cell_cases2 a b : cell cap a = cell cap b ->
    a = b \/ b = a + cap \/ a = b + cap \/ a + 2 * cap <= b \/ b + 2 * cap <= a.
  Proof.
    intros H. destruct (N.le_ge_cases a b) as [L|L].
    - pose proof (cell_cases a b H L). lia.
    - pose proof (cell_cases b a (eq_sym H) L). lia.
  Qed.

  Lemma wadd1 p : p < B62 -> wadd 64 p 1 = p + 1.
  Proof. intros H. apply wadd_small. rewrite pow2_64. unfold B62 in H. lia. Qed.
  Lemma waddc p : p < B62 -> wadd 64 (wadd 64 p (mask cap)) 1 = p + cap.
  Proof.
    intros H. pose proof cap_ge2. pose proof cap_le. unfold B62 in H. unfold mask.
    rewrite (wadd_small 64 p) by (rewrite pow2_64; lia).
    rewrite wadd_small by (rewrite pow2_64; lia). lia.
  Qed.

  (** * 2. The invariant *)

  Definition Bnd (st : state) : Prop := nn (g_in st) < 2 ^ 62.

  (** what a thread knows at each program point *)
  Definition L (st : state) (c : pc) : Prop :=
    match c with
    | P2 _ _ pos | P4 _ pos | P5 _ pos => pos <= enq st
    | P3 _ _ pos => pos <= enq st /\ (pos = enq st -> cseq st (cell cap pos) = pos)
    | P6 v p => deq st <= p /\ p < enq st /\ cseq st (cell cap p) = p /\ gnth (g_in st) p = v
    | Q2 _ pos | Q4 pos | Q5 pos => pos <= deq st
    | Q3 _ pos => pos <= deq st /\ (pos = deq st -> cseq st (cell cap pos) = pos + 1)
    | Q6 p => p < deq st /\ enq st <= p + cap /\ cseq st (cell cap p) = p + 1 /\
              cval st (cell cap p) = gnth (g_in st) p
    | _ => True
    end.

  Record Inv (st : state) : Prop := {
    i_le1 : deq st <= enq st;
    i_le2 : enq st <= deq st + cap;
    i_in : nn (g_in st) = enq st;
    i_out : g_out st = firstn (N.to_nat (deq st)) (g_in st);
    i_loc : forall t, L st (th st t);
    i_up : forall t1 t2 v1 v2 p, th st t1 = P6 v1 p -> th st t2 = P6 v2 p -> t1 = t2;
    i_uq : forall t1 t2 p, th st t1 = Q6 p -> th st t2 = Q6 p -> t1 = t2;
    (* occupied window: written, or reserved by exactly the pusher with that ticket *)
    i_winA : forall p, deq st <= p -> p < enq st ->
      (cseq st (cell cap p) = p + 1 /\ cval st (cell cap p) = gnth (g_in st) p) \/
      (cseq st (cell cap p) = p /\ exists t v, th st t = P6 v p);
    (* free window: released, or still held by the popper of the previous lap *)
    i_winB : forall p, enq st <= p -> p < deq st + cap ->
      cseq st (cell cap p) = p \/
      (exists q t, p = q + cap /\ cseq st (cell cap p) = q + 1 /\ th st t = Q6 q)
  }.

  Ltac samecell a b Hc :=
    let Hcc := fresh "Hcc" in
    pose proof (cell_cases2 a b Hc) as Hcc;
    let ca := fresh "ca" in
    set (ca := cell cap a) in *; clearbody ca; subst ca.

  Ltac setf_split :=
    unfold setf;
    repeat match goal with
    | |- context [N.eqb (cell cap ?a) (cell cap ?b)] =>
        let Hc := fresh "Hc" in
        destruct (N.eqb_spec (cell cap a) (cell cap b)) as [Hc|Hc]; [samecell a b Hc|]
    end.

  Lemma inv_init : Inv (init).
  Proof.
    pose proof cap_ge2.
    constructor; cbn [init enq deq cseq cval th g_in g_out]; try lia; try reflexivity;
      try (intros; exact I); try (intros; discriminate).
    intros p H1 H2. left. rewrite cell_mod. apply N.mod_small. lia.
  Qed.

  (** steps that only move thread [t] between program points other than P6/Q6 *)
  Lemma inv_go st t c :
    Inv st -> L st c ->
    (forall v p, c <> P6 v p) -> (forall p, c <> Q6 p) ->
    (forall v p, th st t <> P6 v p) -> (forall p, th st t <> Q6 p) ->
    Inv (mkSt (enq st) (deq st) (cseq st) (cval st) (upd (th st) t c) (g_in st) (g_out st)).
  Proof.
    intros HI HL Hc1 Hc2 Ht1 Ht2.
    constructor; cbn [enq deq cseq cval th g_in g_out]; try apply HI.
    - intros t'. destruct (Nat.eq_dec t' t) as [->|Hne].
      + rewrite upd_same. exact HL.
      + rewrite upd_other by exact Hne. exact (i_loc _ HI t').
    - intros t1 t2 v1 v2 p.
      destruct (Nat.eq_dec t1 t) as [->|Hne1]; [rewrite upd_same; intros E; exfalso; eapply Hc1; eauto|].
      destruct (Nat.eq_dec t2 t) as [->|Hne2]; [rewrite upd_same; intros _ E; exfalso; eapply Hc1; eauto|].
      rewrite !upd_other by assumption. apply (i_up _ HI).
    - intros t1 t2 p.
      destruct (Nat.eq_dec t1 t) as [->|Hne1]; [rewrite upd_same; intros E; exfalso; eapply Hc2; eauto|].
      destruct (Nat.eq_dec t2 t) as [->|Hne2]; [rewrite upd_same; intros _ E; exfalso; eapply Hc2; eauto|].
      rewrite !upd_other by assumption. apply (i_uq _ HI).
    - intros p H1 H2. destruct (i_winA _ HI p H1 H2) as [?|[? (t0 & v0 & Ht0)]]; [left; assumption|].
      right. split; [assumption|]. exists t0, v0. apply upd_keep; [exact Ht0|apply Ht1].
    - intros p H1 H2. destruct (i_winB _ HI p H1 H2) as [?|(q & t0 & ? & ? & Ht0)]; [left; assumption|].
      right. exists q, t0. repeat split; try assumption. apply upd_keep; [exact Ht0|apply Ht2].
  Qed.

  Ltac facts HI :=
    pose proof (i_le1 _ HI) as Hle1; pose proof (i_le2 _ HI) as Hle2; pose proof (i_in _ HI) as Hin;
    pose proof cap_ge2 as Hc2.

  (** successful CAS on [enq] *)
  Lemma inv_p3 st t w v :
    Inv st -> th st t = P3 w v (enq st) ->
    Inv (mkSt (enq st + 1) (deq st) (cseq st) (cval st) (upd (th st) t (P6 v (enq st)))
              (g_in st ++ [v]) (g_out st)).
  Proof.
    intros HI Ht. facts HI.
    pose proof (i_loc _ HI t) as Hl. rewrite Ht in Hl. cbn [L] in Hl. destruct Hl as [_ Hcs].
    specialize (Hcs eq_refl).
    assert (Hlt : enq st < deq st + cap).
    { destruct (N.eq_dec (enq st) (deq st + cap)) as [e|]; [|lia]. exfalso.
      rewrite e, cell_add_cap in Hcs.
      destruct (i_winA _ HI (deq st)) as [[? _]|[? _]]; lia. }
    constructor; cbn [enq deq cseq cval th g_in g_out].
    - lia.
    - lia.
    - rewrite nn_app. lia.
    - rewrite (i_out _ HI) at 1. rewrite firstn_app.
      replace (N.to_nat (deq st) - length (g_in st))%nat with 0%nat by (unfold nn in Hin; lia).
      cbn [firstn]. rewrite app_nil_r. reflexivity.
    - intros t'. destruct (Nat.eq_dec t' t) as [->|Hne].
      + rewrite upd_same. cbn [L enq deq cseq cval g_in]. repeat split; try lia.
        rewrite <- Hin. apply gnth_app2.
      + rewrite upd_other by exact Hne. pose proof (i_loc _ HI t') as Hl'.
        destruct (th st t') eqn:Ht'; cbn [L enq deq cseq cval g_in] in *; try exact I; try lia.
        * destruct Hl' as (? & ? & ? & ?). repeat split; try lia. rewrite gnth_app1 by lia. assumption.
        * destruct Hl' as (? & ? & ? & ?). repeat split; try lia.
          -- destruct (N.eq_dec (enq st) (pos + cap)) as [e|]; [|lia]. exfalso.
             rewrite e, cell_add_cap in Hcs. lia.
          -- rewrite gnth_app1 by lia. assumption.
    - intros t1 t2 v1 v2 p.
      destruct (Nat.eq_dec t1 t) as [->|Hne1]; destruct (Nat.eq_dec t2 t) as [->|Hne2];
        rewrite ?upd_same, ?upd_other by assumption; try reflexivity.
      + intros E1 E2. injection E1 as <- <-. pose proof (i_loc _ HI t2) as Hl'. rewrite E2 in Hl'.
        cbn [L] in Hl'. lia.
      + intros E2 E1. injection E1 as <- <-. pose proof (i_loc _ HI t1) as Hl'. rewrite E2 in Hl'.
        cbn [L] in Hl'. lia.
      + apply (i_up _ HI).
    - intros t1 t2 p.
      destruct (Nat.eq_dec t1 t) as [->|Hne1]; [rewrite upd_same; discriminate|].
      destruct (Nat.eq_dec t2 t) as [->|Hne2]; [rewrite upd_same; discriminate|].
      rewrite !upd_other by assumption. apply (i_uq _ HI).
    - intros p H1 H2. destruct (N.eq_dec p (enq st)) as [->|Hp].
      + right. split; [exact Hcs|]. exists t, v. apply upd_same.
      + destruct (i_winA _ HI p H1 ltac:(lia)) as [[? ?]|[? (t0 & v0 & Ht0)]].
        * left. split; [assumption|]. rewrite gnth_app1 by lia. assumption.
        * right. split; [assumption|]. exists t0, v0. apply upd_keep; [exact Ht0|]. rewrite Ht. discriminate.
    - intros p H1 H2. destruct (i_winB _ HI p ltac:(lia) H2) as [?|(q & t0 & ? & ? & Ht0)]; [left; assumption|].
      right. exists q, t0. repeat split; try assumption. apply upd_keep; [exact Ht0|]. rewrite Ht. discriminate.
  Qed.

  (** successful CAS on [deq] *)
  Lemma inv_q3 st t w :
    Inv st -> th st t = Q3 w (deq st) ->
    Inv (mkSt (enq st) (deq st + 1) (cseq st) (cval st) (upd (th st) t (Q6 (deq st)))
              (g_in st) (g_out st ++ [cval st (cell cap (deq st))])).
  Proof.
    intros HI Ht. facts HI.
    pose proof (i_loc _ HI t) as Hl. rewrite Ht in Hl. cbn [L] in Hl. destruct Hl as [_ Hcs].
    specialize (Hcs eq_refl).
    assert (Hlt : deq st < enq st).
    { destruct (N.eq_dec (deq st) (enq st)) as [e|]; [|lia]. exfalso.
      destruct (i_winB _ HI (deq st)) as [?|(q & t0 & ? & ? & _)]; lia. }
    assert (Hv : cval st (cell cap (deq st)) = gnth (g_in st) (deq st)).
    { destruct (i_winA _ HI (deq st)) as [[_ ?]|[? _]]; lia. }
    constructor; cbn [enq deq cseq cval th g_in g_out].
    - lia.
    - lia.
    - exact Hin.
    - rewrite (i_out _ HI) at 1. rewrite Hv. unfold gnth.
      replace (N.to_nat (deq st + 1)) with (S (N.to_nat (deq st))) by lia.
      symmetry. apply firstn_snoc. unfold nn in Hin; lia.
    - intros t'. destruct (Nat.eq_dec t' t) as [->|Hne].
      + rewrite upd_same. cbn [L enq deq cseq cval g_in]. repeat split; lia.
      + rewrite upd_other by exact Hne. pose proof (i_loc _ HI t') as Hl'.
        destruct (th st t') eqn:Ht'; cbn [L enq deq cseq cval g_in] in *; try exact I; try lia.
        * destruct Hl' as (? & ? & ? & ?). repeat split; try lia; try assumption.
          destruct (N.eq_dec pos (deq st)) as [->|]; lia.
    - intros t1 t2 v1 v2 p.
      destruct (Nat.eq_dec t1 t) as [->|Hne1]; [rewrite upd_same; discriminate|].
      destruct (Nat.eq_dec t2 t) as [->|Hne2]; [rewrite upd_same; discriminate|].
      rewrite !upd_other by assumption. apply (i_up _ HI).
    - intros t1 t2 p.
      destruct (Nat.eq_dec t1 t) as [->|Hne1]; destruct (Nat.eq_dec t2 t) as [->|Hne2];
        rewrite ?upd_same, ?upd_other by assumption; try reflexivity.
      + intros E1 E2. injection E1 as <-. pose proof (i_loc _ HI t2) as Hl'. rewrite E2 in Hl'.
        cbn [L] in Hl'. lia.
      + intros E2 E1. injection E1 as <-. pose proof (i_loc _ HI t1) as Hl'. rewrite E2 in Hl'.
        cbn [L] in Hl'. lia.
      + apply (i_uq _ HI).
    - intros p H1 H2.
      destruct (i_winA _ HI p ltac:(lia) H2) as [?|[? (t0 & v0 & Ht0)]]; [left; assumption|].
      right. split; [assumption|]. exists t0, v0. apply upd_keep; [exact Ht0|]. rewrite Ht. discriminate.
    - intros p H1 H2. destruct (N.eq_dec p (deq st + cap)) as [->|Hp].
      + right. exists (deq st), t. repeat split.
        * rewrite cell_add_cap. exact Hcs.
        * apply upd_same.
      + destruct (i_winB _ HI p H1 ltac:(lia)) as [?|(q & t0 & ? & ? & Ht0)]; [left; assumption|].
        right. exists q, t0. repeat split; try assumption. apply upd_keep; [exact Ht0|]. rewrite Ht. discriminate.
  Qed.

  (** a pusher publishes its element *)
  Lemma inv_p6 st t v pos :
    Inv st -> th st t = P6 v pos ->
    Inv (mkSt (enq st) (deq st) (setf (cseq st) (cell cap pos) (pos + 1))
              (setf (cval st) (cell cap pos) v) (upd (th st) t Idle) (g_in st) (g_out st)).
  Proof.
    intros HI Ht. facts HI.
    pose proof (i_loc _ HI t) as Hl. rewrite Ht in Hl. cbn [L] in Hl.
    destruct Hl as (Hp1 & Hp2 & Hcs & Hv).
    constructor; cbn [enq deq cseq cval th g_in g_out]; try apply HI.
    - intros t'. destruct (Nat.eq_dec t' t) as [->|Hne].
      + rewrite upd_same. exact I.
      + rewrite upd_other by exact Hne. pose proof (i_loc _ HI t') as Hl'.
        destruct (th st t') eqn:Ht'; cbn [L enq deq cseq cval g_in] in *; try exact I; try lia.
        * destruct Hl' as [? Hx]. split; [lia|]. intros e. specialize (Hx e). setf_split; lia.
        * destruct Hl' as (? & ? & Hx & ?). repeat split; try lia; try assumption.
          setf_split; [|lia]. assert (E0 : pos0 = pos) by lia. rewrite E0 in Ht'. exfalso. apply Hne.
          exact (i_up _ HI _ _ _ _ _ Ht' Ht).
        * destruct Hl' as [? Hx]. split; [lia|]. intros e. specialize (Hx e). setf_split; lia.
        * destruct Hl' as (? & ? & Hx & Hy). repeat split; try lia; setf_split; lia.
    - intros t1 t2 v1 v2 p.
      destruct (Nat.eq_dec t1 t) as [->|Hne1]; [rewrite upd_same; discriminate|].
      destruct (Nat.eq_dec t2 t) as [->|Hne2]; [rewrite upd_same; discriminate|].
      rewrite !upd_other by assumption. apply (i_up _ HI).
    - intros t1 t2 p.
      destruct (Nat.eq_dec t1 t) as [->|Hne1]; [rewrite upd_same; discriminate|].
      destruct (Nat.eq_dec t2 t) as [->|Hne2]; [rewrite upd_same; discriminate|].
      rewrite !upd_other by assumption. apply (i_uq _ HI).
    - intros p H1 H2. pose proof (i_winA _ HI p H1 H2) as Hw. setf_split.
      + assert (p = pos) by lia. subst p. left. split; [reflexivity|symmetry; exact Hv].
      + destruct Hw as [?|[? (t0 & v0 & Ht0)]]; [left; assumption|].
        right. split; [assumption|]. exists t0, v0. apply upd_keep; [exact Ht0|].
        rewrite Ht. intros E. injection E as _ <-. apply Hc. reflexivity.
    - intros p H1 H2. pose proof (i_winB _ HI p H1 H2) as Hw. setf_split.
      + exfalso. lia.
      + destruct Hw as [?|(q & t0 & ? & ? & Ht0)]; [left; assumption|].
        right. exists q, t0. repeat split; try assumption. apply upd_keep; [exact Ht0|].
        rewrite Ht. discriminate.
  Qed.

  (** a popper releases its cell *)
  Lemma inv_q6 st t pos :
    Inv st -> th st t = Q6 pos ->
    Inv (mkSt (enq st) (deq st) (setf (cseq st) (cell cap pos) (pos + cap)) (cval st)
              (upd (th st) t Idle) (g_in st) (g_out st)).
  Proof.
    intros HI Ht. facts HI.
    pose proof (i_loc _ HI t) as Hl. rewrite Ht in Hl. cbn [L] in Hl.
    destruct Hl as (Hp1 & Hp2 & Hcs & Hv).
    constructor; cbn [enq deq cseq cval th g_in g_out]; try apply HI.
    - intros t'. destruct (Nat.eq_dec t' t) as [->|Hne].
      + rewrite upd_same. exact I.
      + rewrite upd_other by exact Hne. pose proof (i_loc _ HI t') as Hl'.
        destruct (th st t') eqn:Ht'; cbn [L enq deq cseq cval g_in] in *; try exact I; try lia.
        * destruct Hl' as [? Hx]. split; [lia|]. intros e. specialize (Hx e). setf_split; lia.
        * destruct Hl' as (? & ? & Hx & ?). repeat split; try lia; try assumption.
          setf_split; lia.
        * destruct Hl' as [? Hx]. split; [lia|]. intros e. specialize (Hx e). setf_split; lia.
        * destruct Hl' as (? & ? & Hx & Hy). repeat split; try lia; try assumption.
          setf_split; [|lia]. assert (E0 : pos0 = pos) by lia. rewrite E0 in Ht'. exfalso. apply Hne.
          exact (i_uq _ HI _ _ _ Ht' Ht).
    - intros t1 t2 v1 v2 p.
      destruct (Nat.eq_dec t1 t) as [->|Hne1]; [rewrite upd_same; discriminate|].
      destruct (Nat.eq_dec t2 t) as [->|Hne2]; [rewrite upd_same; discriminate|].
      rewrite !upd_other by assumption. apply (i_up _ HI).
    - intros t1 t2 p.
      destruct (Nat.eq_dec t1 t) as [->|Hne1]; [rewrite upd_same; discriminate|].
      destruct (Nat.eq_dec t2 t) as [->|Hne2]; [rewrite upd_same; discriminate|].
      rewrite !upd_other by assumption. apply (i_uq _ HI).
    - intros p H1 H2. pose proof (i_winA _ HI p H1 H2) as Hw. setf_split.
      + exfalso. lia.
      + destruct Hw as [?|[? (t0 & v0 & Ht0)]]; [left; assumption|].
        right. split; [assumption|]. exists t0, v0. apply upd_keep; [exact Ht0|].
        rewrite Ht. discriminate.
    - intros p H1 H2. pose proof (i_winB _ HI p H1 H2) as Hw. setf_split.
      + left. lia.
      + destruct Hw as [?|(q & t0 & ? & ? & Ht0)]; [left; assumption|].
        right. exists q, t0. repeat split; try assumption. apply upd_keep; [exact Ht0|].
        rewrite Ht. intros E. injection E as <-. subst p. apply Hc. apply cell_add_cap.
  Qed.

  (** * 3. Every step preserves the invariant *)

  Ltac brk Hs :=
    repeat (match type of Hs with
    | context [if N.eqb ?a ?b then _ else _] => destruct (N.eqb_spec a b)
    | context [if N.ltb ?a ?b then _ else _] => destruct (N.ltb_spec a b)
    | context [match ?o with OPush _ _ => _ | OPop _ => _ end] => destruct o
    | context [if ?w then _ else _] => destruct w
    end; cbv beta iota zeta in Hs).

  Lemma gin_mono st a st' es : step cap st a = Some (st', es) -> nn (g_in st) <= nn (g_in st').
  Proof.
    intros Hs. destruct a as [t o|t]; unfold step in Hs; cbv beta zeta in Hs;
      destruct (th st t); try discriminate; brk Hs;
      injection Hs as Hst Hes; subst st' es; cbn [g_in]; rewrite ?nn_app; lia.
  Qed.

  Ltac go_tac HI Ht :=
    apply inv_go;
    [ exact HI
    | cbn [L]; try exact I; repeat split; intros; lia
    | intros; discriminate | intros; discriminate
    | rewrite Ht; intros; discriminate | rewrite Ht; intros; discriminate ].

  Lemma step_inv st a st' es : Inv st -> Bnd st' -> step cap st a = Some (st', es) -> Inv st'.
  Proof.
    intros HI HB Hs.
    assert (HB0 : Bnd st) by (pose proof (gin_mono _ _ _ _ Hs); unfold Bnd in *; lia).
    facts HI. unfold Bnd in HB0. rewrite pow2_62 in HB0.
    destruct a as [t o|t]; unfold step in Hs; cbv beta zeta in Hs.
    - destruct (th st t) eqn:Ht; try discriminate.
      injection Hs as Hst Hes; subst st' es. go_tac HI Ht.
    - pose proof (i_loc _ HI t) as Hl.
      destruct (th st t) eqn:Ht; cbn [L] in Hl; try discriminate;
        rewrite ?wadd1, ?waddc in Hs by lia; brk Hs;
        injection Hs as Hst Hes; subst st' es;
        first [ go_tac HI Ht
              | subst pos; eapply inv_p3; eassumption
              | subst pos; eapply inv_q3; eassumption
              | eapply inv_p6; eassumption
              | eapply inv_q6; eassumption ].
  Qed.

  Theorem vyu_inv st : reach init (step cap) st -> Bnd st -> Inv st.
  Proof.
    intros Hr. induction Hr as [|s a s' es Hr IH Hst]; intros HB.
    - apply inv_init.
    - eapply step_inv; [apply IH|exact HB|exact Hst].
      pose proof (gin_mono _ _ _ _ Hst). unfold Bnd in *. lia.
  Qed.

  (** * 4. Theorems *)

  Lemma bnd_enq st : Inv st -> Bnd st -> enq st < B62.
  Proof. intros HI HB. unfold Bnd in HB. rewrite pow2_62, (i_in _ HI) in HB. exact HB. Qed.

  (** 1. counters and ghost lists *)
  Theorem vyu_bounds st : reach init (step cap) st -> Bnd st ->
    deq st <= enq st /\ enq st <= deq st + cap /\
    N.of_nat (length (g_in st)) = enq st /\ N.of_nat (length (g_out st)) = deq st.
  Proof.
    intros Hr HB. pose proof (vyu_inv _ Hr HB) as HI. facts HI.
    repeat split; try assumption.
    rewrite (i_out _ HI), firstn_length_le; unfold nn in Hin; lia.
  Qed.

  (** local positions never run ahead of the shared counters *)
  Theorem vyu_local_push st t w v pos : reach init (step cap) st -> Bnd st ->
    th st t = P2 w v pos \/ th st t = P3 w v pos \/ th st t = P4 v pos \/ th st t = P5 v pos ->
    pos <= enq st.
  Proof.
    intros Hr HB H. pose proof (i_loc _ (vyu_inv _ Hr HB) t) as Hl.
    destruct H as [H|[H|[H|H]]]; rewrite H in Hl; cbn [L] in Hl; lia.
  Qed.

  Theorem vyu_local_pop st t w pos : reach init (step cap) st -> Bnd st ->
    th st t = Q2 w pos \/ th st t = Q3 w pos \/ th st t = Q4 pos \/ th st t = Q5 pos ->
    pos <= deq st.
  Proof.
    intros Hr HB H. pose proof (i_loc _ (vyu_inv _ Hr HB) t) as Hl.
    destruct H as [H|[H|[H|H]]]; rewrite H in Hl; cbn [L] in Hl; lia.
  Qed.

  (** a CAS that is about to succeed still sees the cell sequence it read before *)
  Theorem vyu_cas_push_fresh st t w v : reach init (step cap) st -> Bnd st ->
    th st t = P3 w v (enq st) ->
    cseq st (cell cap (enq st)) = enq st /\ enq st < deq st + cap.
  Proof.
    intros Hr HB Ht. pose proof (vyu_inv _ Hr HB) as HI. facts HI.
    pose proof (i_loc _ HI t) as Hl. rewrite Ht in Hl. cbn [L] in Hl. destruct Hl as [_ Hcs].
    specialize (Hcs eq_refl). split; [exact Hcs|].
    destruct (N.eq_dec (enq st) (deq st + cap)) as [e|]; [|lia]. exfalso.
    rewrite e, cell_add_cap in Hcs.
    destruct (i_winA _ HI (deq st)) as [[? _]|[? _]]; lia.
  Qed.

  Theorem vyu_cas_pop_fresh st t w : reach init (step cap) st -> Bnd st ->
    th st t = Q3 w (deq st) ->
    cseq st (cell cap (deq st)) = deq st + 1 /\ deq st < enq st /\
    cval st (cell cap (deq st)) = gnth (g_in st) (deq st).
  Proof.
    intros Hr HB Ht. pose proof (vyu_inv _ Hr HB) as HI. facts HI.
    pose proof (i_loc _ HI t) as Hl. rewrite Ht in Hl. cbn [L] in Hl. destruct Hl as [_ Hcs].
    specialize (Hcs eq_refl).
    assert (Hlt : deq st < enq st).
    { destruct (N.eq_dec (deq st) (enq st)) as [e|]; [|lia]. exfalso.
      destruct (i_winB _ HI (deq st)) as [?|(q & t0 & ? & ? & _)]; lia. }
    repeat split; try assumption.
    destruct (i_winA _ HI (deq st)) as [[_ ?]|[? _]]; lia.
  Qed.

  (** 2. the cells.  Every cell index is [cell p] for exactly one position [p] of the window
      [deq, deq+cap) ... *)
  Lemma cell_cover d i : i < cap ->
    exists p, d <= p /\ p < d + cap /\ cell cap p = i /\
              forall p', d <= p' -> p' < d + cap -> cell cap p' = i -> p' = p.
  Proof.
    intros Hi. pose proof cap_ge2 as Hc2. assert (Hc0 : cap <> 0) by lia.
    pose proof (N.div_mod d cap Hc0) as Hd. pose proof (N.mod_lt d cap Hc0) as Hr.
    set (q := d / cap) in *. set (r := d mod cap) in *. clearbody q r.
    assert (Hcell : forall j, cell cap (i + j * cap) = i).
    { intros j. rewrite cell_mod, N.mod_add by exact Hc0. apply N.mod_small. exact Hi. }
    destruct (N.le_gt_cases r i) as [Hri|Hri].
    - exists (i + q * cap). repeat split; try nia. { apply Hcell. }
      intros p' H1 H2 H3. rewrite <- (Hcell q) in H3.
      pose proof (cell_cases2 _ _ H3). nia.
    - exists (i + (q + 1) * cap). repeat split; try nia. { apply Hcell. }
      intros p' H1 H2 H3. rewrite <- (Hcell (q + 1)) in H3.
      pose proof (cell_cases2 _ _ H3). nia.
  Qed.

  (** ... and the cell of a window position [p] is in one of four states:
      - [deq <= p < enq], written: sequence [p+1], value = the [p]-th enqueued value, no pusher on it;
      - [deq <= p < enq], reserved: sequence [p], exactly one thread is at [P6 _ p] (with its value
        the [p]-th enqueued one);
      - [enq <= p < deq+cap], free: sequence [p], no popper of the previous lap on it;
      - [enq <= p < deq+cap], previous lap's element taken but not released: sequence [p-cap+1],
        exactly one thread at [Q6 (p-cap)]. *)
  Theorem vyu_cells st : reach init (step cap) st -> Bnd st ->
    forall p, deq st <= p -> p < deq st + cap ->
    (p < enq st ->
       (cseq st (cell cap p) = p + 1 /\ cval st (cell cap p) = gnth (g_in st) p /\
        forall t v, th st t <> P6 v p) \/
       (cseq st (cell cap p) = p /\
        exists t, th st t = P6 (gnth (g_in st) p) p /\ forall t' v', th st t' = P6 v' p -> t' = t)) /\
    (enq st <= p ->
       (cseq st (cell cap p) = p /\ forall t q, p = q + cap -> th st t <> Q6 q) \/
       (exists q t, p = q + cap /\ cseq st (cell cap p) = q + 1 /\ th st t = Q6 q /\
                    forall t', th st t' = Q6 q -> t' = t)).
  Proof.
    intros Hr HB p H1 H2. pose proof (vyu_inv _ Hr HB) as HI. facts HI. split; intros H3.
    - destruct (i_winA _ HI p H1 H3) as [[Ha Hb]|[Ha (t0 & v0 & Ht0)]].
      + left. repeat split; try assumption. intros t v Ht.
        pose proof (i_loc _ HI t) as Hl. rewrite Ht in Hl. cbn [L] in Hl. lia.
      + right. split; [assumption|]. exists t0.
        pose proof (i_loc _ HI t0) as Hl. rewrite Ht0 in Hl. cbn [L] in Hl.
        destruct Hl as (_ & _ & _ & Hv). rewrite Hv. split; [exact Ht0|].
        intros t' v' Ht'. exact (i_up _ HI _ _ _ _ _ Ht' Ht0).
    - destruct (i_winB _ HI p H3 H2) as [Ha|(q & t0 & Hq & Ha & Ht0)].
      + left. split; [assumption|]. intros t q Hq Ht.
        pose proof (i_loc _ HI t) as Hl. rewrite Ht in Hl. cbn [L] in Hl.
        destruct Hl as (_ & _ & Hcs & _). subst p. rewrite cell_add_cap in Ha. lia.
      + right. exists q, t0. repeat split; try assumption.
        intros t' Ht'. exact (i_uq _ HI _ _ _ Ht' Ht0).
  Qed.

  (** the same window seen from a consumed position [p < deq] whose cell has not been reused yet
      ([enq <= p + cap]): released (sequence [p+cap]) or held by exactly its popper (sequence [p+1]) *)
  Corollary vyu_cells_consumed st : reach init (step cap) st -> Bnd st ->
    forall p, p < deq st -> enq st <= p + cap ->
      (cseq st (cell cap p) = p + cap /\ forall t, th st t <> Q6 p) \/
      (cseq st (cell cap p) = p + 1 /\
       exists t, th st t = Q6 p /\ forall t', th st t' = Q6 p -> t' = t).
  Proof.
    intros Hr HB p H1 H2. pose proof (vyu_inv _ Hr HB) as HI. facts HI.
    destruct (vyu_cells _ Hr HB (p + cap) ltac:(lia) ltac:(lia)) as [_ Hw].
    rewrite cell_add_cap in Hw.
    destruct (Hw H2) as [[Ha Hb]|(q & t & Hq & Ha & Ht & Hu)].
    - left. split; [exact Ha|]. intros t. exact (Hb t p eq_refl).
    - assert (q = p) by lia. subst q. right. split; [exact Ha|]. exists t. split; assumption.
  Qed.

  (** what the owner of a reserved / taken position knows *)
  Theorem vyu_P6_owner st t v p : reach init (step cap) st -> Bnd st -> th st t = P6 v p ->
    deq st <= p /\ p < enq st /\ cseq st (cell cap p) = p /\ nth (N.to_nat p) (g_in st) 0 = v /\
    forall t' v', th st t' = P6 v' p -> t' = t.
  Proof.
    intros Hr HB Ht. pose proof (vyu_inv _ Hr HB) as HI.
    pose proof (i_loc _ HI t) as Hl. rewrite Ht in Hl. cbn [L] in Hl.
    destruct Hl as (? & ? & ? & ?). repeat split; try assumption.
    intros t' v' Ht'. exact (i_up _ HI _ _ _ _ _ Ht' Ht).
  Qed.

  Theorem vyu_Q6_owner st t p : reach init (step cap) st -> Bnd st -> th st t = Q6 p ->
    p < deq st /\ enq st <= p + cap /\ cseq st (cell cap p) = p + 1 /\
    forall t', th st t' = Q6 p -> t' = t.
  Proof.
    intros Hr HB Ht. pose proof (vyu_inv _ Hr HB) as HI.
    pose proof (i_loc _ HI t) as Hl. rewrite Ht in Hl. cbn [L] in Hl.
    destruct Hl as (? & ? & ? & ?). repeat split; try assumption.
    intros t' Ht'. exact (i_uq _ HI _ _ _ Ht' Ht).
  Qed.

  (** 3. FIFO: the dequeued values are exactly the first [deq] enqueued values, in ticket order *)
  Theorem vyu_fifo_prefix st : reach init (step cap) st -> Bnd st ->
    g_out st = firstn (N.to_nat (deq st)) (g_in st).
  Proof. intros Hr HB. exact (i_out _ (vyu_inv _ Hr HB)). Qed.

  Theorem vyu_fifo st : reach init (step cap) st -> Bnd st ->
    exists rest, g_in st = g_out st ++ rest.
  Proof.
    intros Hr HB. exists (skipn (N.to_nat (deq st)) (g_in st)).
    rewrite (vyu_fifo_prefix _ Hr HB). symmetry. apply firstn_skipn.
  Qed.

  (** 4. a popper returns the value that was enqueued with its ticket *)
  Theorem vyu_pop_returns_ticket_value st t p : reach init (step cap) st -> Bnd st ->
    th st t = Q6 p ->
    cval st (cell cap p) = nth (N.to_nat p) (g_in st) 0 /\
    nth (N.to_nat p) (g_out st) 0 = nth (N.to_nat p) (g_in st) 0.
  Proof.
    intros Hr HB Ht. pose proof (vyu_inv _ Hr HB) as HI.
    pose proof (i_loc _ HI t) as Hl. rewrite Ht in Hl. cbn [L] in Hl.
    destruct Hl as (? & ? & ? & Hv). split; [exact Hv|].
    rewrite (i_out _ HI). apply nth_firstn. lia.
  Qed.

  (** 5. "full" / "empty" answers of the strong variants are justified at the deciding load *)
  Theorem vyu_full_justified st t v pos : reach init (step cap) st -> Bnd st ->
    th st t = P5 v pos -> wadd 64 (wadd 64 (deq st) (mask cap)) 1 = pos ->
    enq st = deq st + cap.
  Proof.
    intros Hr HB Ht Hw. pose proof (vyu_inv _ Hr HB) as HI. facts HI.
    pose proof (bnd_enq _ HI HB) as HE.
    pose proof (i_loc _ HI t) as Hl. rewrite Ht in Hl. cbn [L] in Hl.
    rewrite waddc in Hw by lia. lia.
  Qed.

  Theorem vyu_empty_justified st t pos : reach init (step cap) st -> Bnd st ->
    th st t = Q5 pos -> enq st = pos -> deq st = enq st.
  Proof.
    intros Hr HB Ht Hw. pose proof (vyu_inv _ Hr HB) as HI. facts HI.
    pose proof (i_loc _ HI t) as Hl. rewrite Ht in Hl. cbn [L] in Hl. lia.
  Qed.

  Ltac ret_cases Hs Hin s' es :=
    unfold step in Hs; cbv beta zeta in Hs;
    match type of Hs with context [th ?st ?t] => destruct (th st t) eqn:Ht end;
    try discriminate; brk Hs; injection Hs as Hst Hes; subst s' es;
    cbn [In app] in Hin;
    repeat (destruct Hin as [Hin|Hin]; try discriminate Hin); try contradiction.

  (** the same, phrased on the step that returns *)
  Theorem vyu_full_step st t st' es : reach init (step cap) st -> Bnd st ->
    step cap st (Step t) = Some (st', es) -> In (ERet t [0]) es ->
    enq st = deq st + cap.
  Proof.
    intros Hr HB Hs Hin. ret_cases Hs Hin st' es.
    eapply vyu_full_justified; eassumption.
  Qed.

  Theorem vyu_empty_step st t st' es : reach init (step cap) st -> Bnd st ->
    step cap st (Step t) = Some (st', es) -> In (ERet t [3]) es ->
    deq st = enq st.
  Proof.
    intros Hr HB Hs Hin. ret_cases Hs Hin st' es.
    eapply vyu_empty_justified; eauto.
  Qed.

  (** 6. a weak failure changes nothing but the program counter of the failing thread, and
      happens only when the cell sequence is behind the thread's ticket *)
  Theorem vyu_weak_fail_noop st t st' es :
    step cap st (Step t) = Some (st', es) -> In (ERet t [2]) es ->
    enq st' = enq st /\ deq st' = deq st /\ cseq st' = cseq st /\ cval st' = cval st /\
    g_in st' = g_in st /\ g_out st' = g_out st /\ th st' = upd (th st) t Idle /\
    ((exists v pos, th st t = P2 true v pos /\ cseq st (cell cap pos) < pos) \/
     (exists pos, th st t = Q2 true pos /\ cseq st (cell cap pos) < wadd 64 pos 1)).
  Proof.
    intros Hs Hin. ret_cases Hs Hin st' es; cbn [enq deq cseq cval th g_in g_out];
      repeat split; eauto.
  Qed.

End VyukovProof.
