(** C03 - xenium::vyukov_bounded_queue over the weak-memory machine (WM/View.v), instantiated with the memory
    orders GENERATED from xenium/vyukov_bounded_queue.hpp on every run (gen/VyukovOrders.v, tools/vyukovorders.py):
    property theorems (statements only).  A weakened order in the source makes [orders_ok gen_orders = true] fail.

    Reading aid (WM/VyukovWM.v, WM/VyukovWMProof.v): [cap] = number of cells; ticket [p] lives in cell
    [cellof cap p = p mod cap] on lap [lapof cap p = p / cap]; [enqL], [deqL], [seqL i], [valL i] = the locations
    of enqueue_pos, dequeue_pos, cells[i].sequence, cells[i].data; [last_ts (memory M l)] = the timestamp of the
    latest message of [l] (for enqL / deqL: the number of push / pop tickets issued);
    thread states: [PWrite v pos] = the push with ticket [pos] is about to write the element (276), [PDone v pos] =
    it has returned true, [QRead pos] = the pop with ticket [pos] is about to read the element (311), [QStore pos m]
    = it has read message [m], [QDone pos m] = it has returned [m_val m], [PFull] / [QEmpty] = the operation failed;
    ghosts: [g_push s] = pushed values by ticket, [g_pop s] = (ticket, value) of the pops,
    [g_rview s i] = the view of the last reader of cells[i].data at its read;
    [holds cap p = Some i]: a thread in state [p] owns cell [i] (between its CAS and its sequence store). *)
From Coq Require Import Arith NArith List Bool.
From XV Require Import WM.View WM.ViewLemmas WM.VyukovWM WM.VyukovWMProof gen.VyukovOrders Proof.VyukovOrdersOk.
Import ListNotations.

Theorem C03_vyukov_source_orders_ok : orders_ok gen_orders = true.
Proof. exact gen_orders_ok. Qed.
Print Assumptions C03_vyukov_source_orders_ok.

(** (a) message passing: the message a pop reads from the value slot is the write of the push with the same
    ticket, and it is the latest message of the slot (neither stale nor later); its value is the value pushed *)
Theorem C03_vyukov_source_pop_reads_push : forall cap, 2 <= cap ->
  forall s t pos m, preach cap gen_orders s -> pcs s t = QStore pos m ->
  In m (memory (ms s) (valL (cellof cap pos))) /\
  m_ts m = lapof cap pos + 1 /\
  m_ts m = last_ts (memory (ms s) (valL (cellof cap pos))) /\
  pos < last_ts (memory (ms s) deqL) /\ pos < length (g_push s) /\
  m_val m = nth pos (g_push s) 0%N /\
  In (pos, m_val m) (g_pop s).
Proof. exact source_pop_reads_push. Qed.
Print Assumptions C03_vyukov_source_pop_reads_push.

(** (a) the histories: nothing invented and FIFO per ticket; no ticket popped twice; every issued pop ticket is
    served or owned by a thread about to read; completed operations are recorded; at most [cap] elements *)
Theorem C03_vyukov_source_histories : forall cap, 2 <= cap ->
  forall s, preach cap gen_orders s ->
  (forall p v, In (p, v) (g_pop s) ->
     p < last_ts (memory (ms s) deqL) /\ p < length (g_push s) /\ v = nth p (g_push s) 0%N) /\
  NoDup (map fst (g_pop s)) /\
  (forall p, p < last_ts (memory (ms s) deqL) ->
     In p (map fst (g_pop s)) \/ exists t, pcs s t = QRead p) /\
  (forall t pos m, pcs s t = QDone pos m -> In (pos, m_val m) (g_pop s)) /\
  (forall t v pos, pcs s t = PDone v pos ->
     pos < length (g_push s) /\ nth pos (g_push s) 0%N = v) /\
  length (g_push s) = last_ts (memory (ms s) enqL) /\
  last_ts (memory (ms s) deqL) <= last_ts (memory (ms s) enqL) /\
  last_ts (memory (ms s) enqL) <= last_ts (memory (ms s) deqL) + cap.
Proof. exact source_histories. Qed.
Print Assumptions C03_vyukov_source_histories.

(** (b) race freedom of the plain accesses to cells[i].data: one owner per cell; the writer has seen the latest
    message of the slot and the whole view of its last reader; the reader has seen the latest message *)
Theorem C03_vyukov_source_race_free : forall cap, 2 <= cap ->
  forall s, preach cap gen_orders s ->
  (forall t1 t2 i, holds cap (pcs s t1) = Some i -> holds cap (pcs s t2) = Some i -> t1 = t2) /\
  (forall t v pos, pcs s t = PWrite v pos ->
     cur (threads (ms s) t) (valL (cellof cap pos)) = last_ts (memory (ms s) (valL (cellof cap pos))) /\
     last_ts (memory (ms s) (valL (cellof cap pos))) = lapof cap pos /\
     vle (g_rview s (cellof cap pos)) (cur (threads (ms s) t))) /\
  (forall t pos, pcs s t = QRead pos ->
     cur (threads (ms s) t) (valL (cellof cap pos)) = last_ts (memory (ms s) (valL (cellof cap pos))) /\
     last_ts (memory (ms s) (valL (cellof cap pos))) = lapof cap pos + 1).
Proof. exact source_race_free. Qed.
Print Assumptions C03_vyukov_source_race_free.

(** (c) a failure is backed by the messages read (which may be stale: see the spurious failures below) *)
Theorem C03_vyukov_source_fail_justified : forall cap, 2 <= cap ->
  forall s, preach cap gen_orders s ->
  (forall t w pos mq md, pcs s t = PFull w pos mq md ->
     pos <= last_ts (memory (ms s) enqL) /\ In mq (memory (ms s) (seqL (cellof cap pos))) /\
     match md with
     | None => w = true /\ (m_val mq < N.of_nat pos)%N /\ m_ts mq < 2 * lapof cap pos
     | Some d => w = false /\ m_val mq <> N.of_nat pos /\
                 In d (memory (ms s) deqL) /\ m_ts d + cap = pos
     end) /\
  (forall t w pos mq me, pcs s t = QEmpty w pos mq me ->
     pos <= last_ts (memory (ms s) deqL) /\ In mq (memory (ms s) (seqL (cellof cap pos))) /\
     match me with
     | None => w = true /\ (m_val mq < N.of_nat (pos + 1))%N /\ m_ts mq <= 2 * lapof cap pos
     | Some e => w = false /\ m_val mq <> N.of_nat (pos + 1) /\
                 In e (memory (ms s) enqL) /\ m_ts e = pos
     end).
Proof. exact source_fail_justified. Qed.
Print Assumptions C03_vyukov_source_fail_justified.

(** the step by which an operation fails is a load: memory and histories are unchanged *)
Theorem C03_vyukov_fail_step_pure : forall cap o s t lab s',
  pstep cap o s t lab s' -> has_failed (pcs s' t) = true -> has_failed (pcs s t) = false ->
  memory (ms s') = memory (ms s) /\ g_push s' = g_push s /\ g_pop s' = g_pop s.
Proof. exact fail_step_pure. Qed.
Print Assumptions C03_vyukov_fail_step_pure.

(** the same four results for EVERY assignment of orders satisfying [orders_ok] (acquire on the two loads of the
    cell sequence, release on the two stores of the cell sequence; the other twelve orders are free) *)
Theorem C03_vyukov_weak_correct_all_orders : forall cap o, 2 <= cap -> orders_ok o = true ->
  forall s, preach cap o s ->
  (forall t pos m, pcs s t = QStore pos m ->
     In m (memory (ms s) (valL (cellof cap pos))) /\
     m_ts m = lapof cap pos + 1 /\
     m_ts m = last_ts (memory (ms s) (valL (cellof cap pos))) /\
     pos < last_ts (memory (ms s) deqL) /\ pos < length (g_push s) /\
     m_val m = nth pos (g_push s) 0%N /\
     In (pos, m_val m) (g_pop s)) /\
  ((forall p v, In (p, v) (g_pop s) ->
      p < last_ts (memory (ms s) deqL) /\ p < length (g_push s) /\ v = nth p (g_push s) 0%N) /\
   NoDup (map fst (g_pop s)) /\
   (forall p, p < last_ts (memory (ms s) deqL) ->
      In p (map fst (g_pop s)) \/ exists t, pcs s t = QRead p) /\
   (forall t pos m, pcs s t = QDone pos m -> In (pos, m_val m) (g_pop s)) /\
   (forall t v pos, pcs s t = PDone v pos ->
      pos < length (g_push s) /\ nth pos (g_push s) 0%N = v) /\
   length (g_push s) = last_ts (memory (ms s) enqL) /\
   last_ts (memory (ms s) deqL) <= last_ts (memory (ms s) enqL) /\
   last_ts (memory (ms s) enqL) <= last_ts (memory (ms s) deqL) + cap) /\
  ((forall t1 t2 i, holds cap (pcs s t1) = Some i -> holds cap (pcs s t2) = Some i -> t1 = t2) /\
   (forall t v pos, pcs s t = PWrite v pos ->
      cur (threads (ms s) t) (valL (cellof cap pos)) = last_ts (memory (ms s) (valL (cellof cap pos))) /\
      last_ts (memory (ms s) (valL (cellof cap pos))) = lapof cap pos /\
      vle (g_rview s (cellof cap pos)) (cur (threads (ms s) t))) /\
   (forall t pos, pcs s t = QRead pos ->
      cur (threads (ms s) t) (valL (cellof cap pos)) = last_ts (memory (ms s) (valL (cellof cap pos))) /\
      last_ts (memory (ms s) (valL (cellof cap pos))) = lapof cap pos + 1)) /\
  ((forall t w pos mq md, pcs s t = PFull w pos mq md ->
      pos <= last_ts (memory (ms s) enqL) /\ In mq (memory (ms s) (seqL (cellof cap pos))) /\
      match md with
      | None => w = true /\ (m_val mq < N.of_nat pos)%N /\ m_ts mq < 2 * lapof cap pos
      | Some d => w = false /\ m_val mq <> N.of_nat pos /\
                  In d (memory (ms s) deqL) /\ m_ts d + cap = pos
      end) /\
   (forall t w pos mq me, pcs s t = QEmpty w pos mq me ->
      pos <= last_ts (memory (ms s) deqL) /\ In mq (memory (ms s) (seqL (cellof cap pos))) /\
      match me with
      | None => w = true /\ (m_val mq < N.of_nat (pos + 1))%N /\ m_ts mq <= 2 * lapof cap pos
      | Some e => w = false /\ m_val mq <> N.of_nat (pos + 1) /\
                  In e (memory (ms s) enqL) /\ m_ts e = pos
      end)).
Proof. exact vyukov_weak_correct. Qed.
Print Assumptions C03_vyukov_weak_correct_all_orders.

(** the machine started in the constructed queue stays well formed *)
Theorem C03_vyukov_machine_wf : forall cap o s, 2 <= cap -> orders_ok o = true -> preach cap o s -> wf (ms s).
Proof. exact vyukov_machine_wf. Qed.
Print Assumptions C03_vyukov_machine_wf.

(** NON-VACUITY: a concrete reachable state of the program with the generated orders (2 cells): three pushes
    (the third reuses cell 0 on the second lap) and three pops returning 7, 8, 9 with tickets 0, 1, 2 *)
Theorem C03_vyukov_source_nonvacuous :
  exec_reaches 2 gen_orders
    [ SLoad 1 0 Rlx 0 0; SLoad 1 2 Acq 0 0; SRmw 1 0 Rlx 1; SStore 1 3 Rlx 7; SStore 1 2 Rel 1;
      SLoad 2 1 Rlx 0 0; SLoad 2 2 Acq 1 1; SRmw 2 1 Rlx 1; SLoad 2 3 Rlx 7 1; SStore 2 2 Rel 2;
      SLoad 1 0 Rlx 1 1; SLoad 1 4 Acq 1 0; SRmw 1 0 Rlx 2; SStore 1 5 Rlx 8; SStore 1 4 Rel 2;
      SLoad 2 1 Rlx 1 1; SLoad 2 4 Acq 2 1; SRmw 2 1 Rlx 2; SLoad 2 5 Rlx 8 1; SStore 2 4 Rel 3;
      SLoad 3 0 Rlx 2 2; SLoad 3 2 Acq 2 2; SRmw 3 0 Rlx 3; SStore 3 3 Rlx 9; SStore 3 2 Rel 3;
      SLoad 2 1 Rlx 2 2; SLoad 2 2 Acq 3 3; SRmw 2 1 Rlx 3; SLoad 2 3 Rlx 9 2; SStore 2 2 Rel 4 ]
    (fun s => pop_result s 2 = Some (2, 9%N) /\ g_push s = [7; 8; 9]%N /\
              g_pop s = [(0, 7%N); (1, 8%N); (2, 9%N)]).
Proof. exact xenium_three_laps. Qed.
Print Assumptions C03_vyukov_source_nonvacuous.

(** NECESSITY of the four conditions of [orders_ok]: with the sequence store of try_push (278) or the sequence
    load of try_pop (289) relaxed, a pop returns a value that was never pushed ... *)
Theorem C03_vyukov_weak_mp_refuted :
  ~ (forall s p v, preach 2 (set_push_seq_store Rlx xenium_orders) s ->
       In (p, v) (g_pop s) -> v = nth p (g_push s) 0%N) /\
  ~ (forall s p v, preach 2 (set_pop_seq_load Rlx xenium_orders) s ->
       In (p, v) (g_pop s) -> v = nth p (g_push s) 0%N).
Proof. exact weak_orders_refute_mp. Qed.
Print Assumptions C03_vyukov_weak_mp_refuted.

(** ... with the sequence store of try_pop (316) or the sequence load of try_push (256) relaxed, the next lap's
    write of the slot races with the previous write / read *)
Theorem C03_vyukov_weak_race_refuted :
  ~ (forall s t v pos, preach 2 (set_pop_seq_store Rlx xenium_orders) s -> pcs s t = PWrite v pos ->
       cur (threads (ms s) t) (valL (cellof 2 pos)) = last_ts (memory (ms s) (valL (cellof 2 pos)))) /\
  ~ (forall s t v pos, preach 2 (set_push_seq_load Rlx xenium_orders) s -> pcs s t = PWrite v pos ->
       cur (threads (ms s) t) (valL (cellof 2 pos)) = last_ts (memory (ms s) (valL (cellof 2 pos)))).
Proof. exact weak_orders_refute_race_freedom. Qed.
Print Assumptions C03_vyukov_weak_race_refuted.

(** WHAT DOES NOT HOLD (with the orders of the source): "try_push_strong fails only if the queue was full" /
    "try_pop_strong fails only if the queue was empty".  Thread 3 fails with pos = 2 (push) / pos = 1 (pop) in a
    2-cell queue that never held more than one element / has not been empty since the first push
    (2 push tickets, 1 pop ticket issued). *)
Theorem C03_vyukov_spurious_full_refuted :
  exec_reaches 2 xenium_orders
    [ SLoad 1 0 Rlx 0 0; SLoad 1 2 Acq 0 0; SRmw 1 0 Rlx 1; SStore 1 3 Rlx 7; SStore 1 2 Rel 1;
      SLoad 2 1 Rlx 0 0; SLoad 2 2 Acq 1 1; SRmw 2 1 Rlx 1; SLoad 2 3 Rlx 7 1; SStore 2 2 Rel 2;
      SLoad 1 0 Rlx 1 1; SLoad 1 4 Acq 1 0; SRmw 1 0 Rlx 2; SStore 1 5 Rlx 8; SStore 1 4 Rel 2;
      SLoad 3 0 Rlx 2 2; SLoad 3 2 Acq 1 1; SLoad 3 0 Rlx 2 2; SLoad 3 1 Rlx 0 0 ]
    (fun s => fail_result s 3 = Some (true, false, 2) /\
              last_ts (memory (ms s) enqL) = 2 /\ last_ts (memory (ms s) deqL) = 1).
Proof. exact spurious_full. Qed.
Print Assumptions C03_vyukov_spurious_full_refuted.

Theorem C03_vyukov_spurious_empty_refuted :
  exec_reaches 2 xenium_orders
    [ SLoad 1 0 Rlx 0 0; SLoad 1 2 Acq 0 0; SRmw 1 0 Rlx 1; SStore 1 3 Rlx 7; SStore 1 2 Rel 1;
      SLoad 1 0 Rlx 1 1; SLoad 1 4 Acq 1 0; SRmw 1 0 Rlx 2; SStore 1 5 Rlx 8; SStore 1 4 Rel 2;
      SLoad 2 1 Rlx 0 0; SLoad 2 2 Acq 1 1; SRmw 2 1 Rlx 1; SLoad 2 3 Rlx 7 1; SStore 2 2 Rel 2;
      SLoad 3 1 Rlx 1 1; SLoad 3 4 Acq 1 0; SLoad 3 1 Rlx 1 1; SLoad 3 0 Rlx 1 1 ]
    (fun s => fail_result s 3 = Some (false, false, 1) /\
              last_ts (memory (ms s) enqL) = 2 /\ last_ts (memory (ms s) deqL) = 1).
Proof. exact spurious_empty. Qed.
Print Assumptions C03_vyukov_spurious_empty_refuted.
