(** C03 / C14 - seqlock with slots > 1 over the weak-memory machine: property theorems (statements only).
    Model: WM/SeqlockWMSlots.v (the program of xenium/seqlock.hpp for slots = K > 1 - the [else] branch of
    [if constexpr (slots == 1)] in load() - over the view machine WM/View.v; memory orders from the record
    [SeqlockWM.orders]).  Proofs: WM/SeqlockWMSlotsProof.v.  The single-slot configuration is
    Properties_C03_seqlock.v. *)
From Coq Require Import Arith NArith List Bool.
From XV Require Import WM.View WM.SeqlockWM WM.SeqlockWMSlots WM.SeqlockWMSlotsProof.
Import ListNotations.

Theorem C03_seqlock_slots_xenium_orders_ok : orders_ok_slots xenium_orders = true.
Proof. exact xenium_orders_ok_slots. Qed.
Print Assumptions C03_seqlock_slots_xenium_orders_ok.

(** MAIN RESULT for K slots of W words (the theorem holds for K >= 1; the model is the C++ code for K >= 2):
    in every state the program reaches on the weak machine
    - a completed load() ([RdDone c0 mq buf]) returns W words read from slot [g mod K] that all carry ONE
      generation [g] (never torn), exactly the value of that generation; generation [g] was complete at
      the end of the load, and every store whose unlocking store (timestamp 2k of _seq) was in the
      reader's view at the call ([2 * k <= c0]) has [k <= g];
    - update() applies its functor to the words of the latest generation;
    - the writers are mutually exclusive. *)
Theorem C03_seqlock_slots_weak_atomic : forall K W o, 1 <= K -> 1 <= W -> orders_ok_slots o = true ->
  forall s, preach K W o s ->
  (forall t c0 mq buf, pcs s t = RdDone c0 mq buf ->
     exists g,
       length buf = W /\
       rd_slot K (m_val mq) = g mod K /\
       (forall j m, nth_error buf j = Some m ->
          g_gen s (g mod K) j (m_ts m) = g /\ m_val m = nth j (nth g (g_hist s) []) 0%N) /\
       ret_gens s (g mod K) buf = repeat g W /\
       ret_vals buf = nth g (g_hist s) [] /\
       g < length (g_hist s) /\ g <= g_cur s /\ 2 * g <= last_ts (memory (ms s) seqL) /\
       2 * g <= m_ts mq <= 2 * g + 1 /\
       c0 <= 2 * g + 1) /\
  (forall t f q buf, pcs s t = WrRFence f q buf ->
     1 <= g_cur s /\ length (g_hist s) = g_cur s /\ length buf = W /\
     upd_slot K q = (g_cur s - 1) mod K /\
     (forall j m, nth_error buf j = Some m -> g_gen s (upd_slot K q) j (m_ts m) = g_cur s - 1) /\
     ret_gens s (upd_slot K q) buf = repeat (g_cur s - 1) W /\
     ret_vals buf = nth (g_cur s - 1) (g_hist s) []) /\
  (forall t1 t2, locked (pcs s t1) = true -> locked (pcs s t2) = true -> t1 = t2).
Proof. exact seqlock_slots_weak_atomic. Qed.
Print Assumptions C03_seqlock_slots_weak_atomic.

(** the unsigned subtraction [seq2 - seq] of seqlock.hpp:180 never wraps: seq <= seq2 *)
Theorem C03_seqlock_slots_seq2_ge_seq : forall K W, 1 <= K -> 1 <= W -> forall o s t c0 mq buf od m M',
  inv K W o s -> pcs s t = RdSeq2 c0 mq buf ->
  step (ms s) t (LLoad seqL od m) M' ->
  (rd_base (m_val mq) <= m_val m)%N.
Proof. exact seq2_ge_seq. Qed.
Print Assumptions C03_seqlock_slots_seq2_ge_seq.

Theorem C03_seqlock_slots_inv_reachable : forall K W, 1 <= K -> 1 <= W -> forall o s,
  orders_ok_load_slots o = true -> preach K W o s -> inv K W o s.
Proof. exact inv_preach. Qed.
Print Assumptions C03_seqlock_slots_inv_reachable.

(** NON-VACUITY (2 slots, 2 words, xenium's orders): a load that overlaps two stores detects the torn copy
    (word 0 of generation 1, word 1 of generation 3, both in slot 1) through the fence (6), retries and
    returns generation 2 = {5,6} from slot 0 while generation 3 is still being written *)
Example C03_seqlock_slots_load_completes :
  exec_load_returns 2 2 xenium_orders
    [ SLoad 1 0 Rlx 0 0; SRmw 1 0 Acq 1; SFence 1 Rel; SStore 1 3 Rlx 7; SStore 1 4 Rlx 8;
      SStore 1 0 Rel 2;
      SLoad 2 0 Acq 2 2;
      SLoad 1 0 Rlx 2 2; SRmw 1 0 Acq 3; SFence 1 Rel; SStore 1 1 Rlx 5; SStore 1 2 Rlx 6;
      SStore 1 0 Rel 4;
      SLoad 1 0 Rlx 4 4; SRmw 1 0 Acq 5; SFence 1 Rel; SStore 1 3 Rlx 3; SStore 1 4 Rlx 4;
      SLoad 2 3 Rlx 7 1; SLoad 2 4 Rlx 4 2; SFence 2 Acq; SLoad 2 0 Acq 5 5;
      SLoad 2 1 Rlx 5 1; SLoad 2 2 Rlx 6 1; SFence 2 Acq; SLoad 2 0 Acq 5 5 ]
    2 [2; 2] [5; 6]%N.
Proof. exact xenium_slots_load_completes. Qed.
Print Assumptions C03_seqlock_slots_load_completes.

(** REFUTATION for weaker orders: with the acquire fence of read_data (seqlock.hpp:243) relaxed the torn
    copy is returned: word 0 of generation 1 with word 1 of generation 3, {7,4} *)
Theorem C03_seqlock_slots_weak_orders_torn :
  exec_load_returns 2 2 weak_orders
    [ SLoad 1 0 Rlx 0 0; SRmw 1 0 Acq 1; SFence 1 Rel; SStore 1 3 Rlx 7; SStore 1 4 Rlx 8;
      SStore 1 0 Rel 2;
      SLoad 2 0 Acq 2 2;
      SLoad 1 0 Rlx 2 2; SRmw 1 0 Acq 3; SFence 1 Rel; SStore 1 1 Rlx 5; SStore 1 2 Rlx 6;
      SStore 1 0 Rel 4;
      SLoad 1 0 Rlx 4 4; SRmw 1 0 Acq 5; SFence 1 Rel; SStore 1 3 Rlx 3; SStore 1 4 Rlx 4;
      SLoad 2 3 Rlx 7 1; SLoad 2 4 Rlx 4 2; SFence 2 Rlx; SLoad 2 0 Acq 2 2 ]
    2 [1; 3] [7; 4]%N.
Proof. exact weak_orders_slots_torn. Qed.
Print Assumptions C03_seqlock_slots_weak_orders_torn.

(** update() writes slot [(idx + 1) % slots] (seqlock.hpp:196); the model uses store()'s expression
    [((seq >> 1) + 1) % slots] (seqlock.hpp:203) for both - they are equal *)
Theorem C03_seqlock_slots_update_wr_slot : forall K q, 1 <= K -> (upd_slot K q + 1) mod K = wr_slot K q.
Proof. exact update_wr_slot. Qed.
Print Assumptions C03_seqlock_slots_update_wr_slot.
