(** Properties C01 and C02 for xenium::reclamation::hazard_eras<> (static allocation strategy), on the step-level
    model Model/HeDefs.v (tied to the code by trace correspondence against build/h_he and build/h_recl_he). *)
From Coq Require Import List.
From XV Require Import Conc.Lts Model.HeDefs Proof.HeGuards Proof.HeNodes Proof.HeInv Proof.HeFlush.
Import ListNotations.

(** C01: in every reachable state (any number of threads, programs, schedules) a node n held by a guard_ptr whose
    acquire has completed is not freed; the guard's slot - in a linked, active control block - publishes an era e with
    construction_era(n) <= e <= era_clock and e <= retirement_era(n) once n is retired; no dereference ever hit a
    destroyed node *)
Theorem C01_he_safe :
  forall (ncells nslots : nat) (st : state),
  reach (init ncells) (step nslots) st ->
  (forall t g n, validated st t g n ->
     g_nfree st n = 0 /\ g_where st n <> PFreed /\
     exists b i e, rcd (tl st t) = Some b /\ he (gd (tl st t) g) = Some i /\ In b (blist st) /\ est st b = 2 /\
                   hz st b i = VEra e /\ ce st n <= e /\ e <= clock st /\ (forall u, g_life st n = LRet u -> e <= re st n))
  /\ g_uaf st = false.
Proof. exact he_safe. Qed.
Print Assumptions C01_he_safe.

(** C01: the end of every scan (reclaim_nodes) keeps every candidate that a completed guard holds: the scan has gathered
    an era between the node's construction and retirement era *)
Theorem C01_he_scan_keeps :
  forall (ncells nslots : nat) (st : state),
  reach (init ncells) (step nslots) st ->
  forall s sc t g n, th st s = S7 sc -> In n (rl (tl st s) ++ s_ad sc) -> validated st t g n ->
  is_prot (s_prot sc) (ce st n) (re st n) = true.
Proof. exact he_scan_keeps. Qed.
Print Assumptions C01_he_scan_keeps.

(** C02: a node is freed at most once and only after it was retired (or, never published, deleted by its creator
    after a lost CAS); a retired node is at exactly one place: the retire list of one thread, the abandoned list
    (after the retiring thread has exited), the adopted list of one running scan, or freed *)
Theorem C02_he_exactly_once :
  forall (ncells nslots : nat) (st : state),
  reach (init ncells) (step nslots) st ->
  forall n,
    g_nfree st n <= 1 /\
    (g_nfree st n = 1 -> retired st n \/ g_life st n = LDropped) /\
    (g_life st n = LDropped -> ~ retired st n /\ forall p, ~ at_place st n p \/ p = PFreed) /\
    (retired st n -> at_place st n (g_where st n) /\ forall p, at_place st n p -> p = g_where st n) /\
    (forall t, NoDup (rl (tl st t))) /\ NoDup (aband st) /\ (forall t, NoDup (ad_of (th st t))).
Proof. exact he_exactly_once. Qed.
Print Assumptions C02_he_exactly_once.

(** slot accounting (the invariant of the sequential slot pool model Proof/HeSlots.v on the step-level model): a guard
    at rest has a hazard era iff its pointer is non-null; guard_cnt = number of guards on the slot; free-list slots are
    links without references; referenced slots publish an era <= era_clock; the last_hazard_era cache points to a
    referenced slot whose era is not older than last_era; unused control blocks have no references and no cache *)
Theorem C01_he_slots :
  forall (ncells nslots : nat) (st : state),
  reach (init ncells) (step nslots) st ->
  (forall t g, ~ in_acq nslots (th st t) g -> (he (gd (tl st t) g) = None <-> ptr (gd (tl st t) g) = None)) /\
  (forall t g i, he (gd (tl st t) g) = Some i -> i < 3 /\ g <= nslots /\ exists b, rcd (tl st t) = Some b /\ est st b = 2) /\
  (forall t b, rcd (tl st t) = Some b ->
     (forall i, i < 3 -> cnt st b i = ng nslots (tl st t) i) /\
     (forall i, In i (fl (tl st t)) -> i < 3 /\ cnt st b i = 0 /\ exists nx, hz st b i = VLink nx) /\
     (forall i, i < 3 -> 1 <= cnt st b i -> exists e, hz st b i = VEra e /\ e <= clock st) /\
     (forall l, lhe st b = Some l -> l < 3 /\ 1 <= cnt st b l /\ lera st b <= era_of (hz st b l))) /\
  (forall b, (forall u, rcd (tl st u) <> Some b) -> (forall i, i < 3 -> cnt st b i = 0) /\ lhe st b = None).
Proof. exact he_slots. Qed.
Print Assumptions C01_he_slots.

(** C02, eventual destruction: a scan that starts (after guard.reclaim() has retired a node, or at thread exit) while
    no guard refers to a hazard era and no alloc_hazard_era is between set_era and add_guard frees, within
    6 + 4 * (number of control blocks) solo steps of the scanning thread, every node of its retire list and every
    abandoned node (the nodes handed over by exited threads); see Proof/HeFlush.v for the full statement and what is
    missing for it *)
Theorem C02_he_no_leak_at_quiescence_partial :
  forall (ncells nslots : nat) (st : state) (t : nat) (k0 : sctx),
  reach (init ncells) (step nslots) st ->
  th st t = S0 k0 -> (forall u g, he (gd (tl st u) g) = None) -> (forall u k e i, th st u <> E2 k e i) ->
  exists k st', k <= 6 + 4 * length (blist st) /\ srun nslots t k st st' /\
    match k0 with SRepl => th st' t = Idle | SExit => th st' t = X4 \/ th st' t = Done end /\
    rl (tl st' t) = [] /\ aband st' = [] /\
    forall n, In n (rl (tl st t)) \/ In n (aband st) -> g_where st' n = PFreed /\ g_nfree st' n = 1.
Proof. exact he_no_leak_at_quiescence_partial. Qed.
Print Assumptions C02_he_no_leak_at_quiescence_partial.
